/-
Helper lemmas for C22 (Props/C22.lean): the shape of what `Spec.append` commits, the versions
`Spec.checkEvents` assigns (count characterisation), gapless sequences / versions as an invariant of
command histories, and the correctness of EMAPPEND's reverse version reconstruction.
-/
import SierraModel.Server.Handle

namespace SierraModel.Server
open SierraModel.Store
open SierraModel.Version (Expected Current storeAccepts)

/-! ## what `Spec.append` commits -/

/-- the events of a committed transaction, given the versions (`Spec.append`'s `zipIdx` expression
as a recursion) -/
def mkEvs (tx : Tx) : Nat → List NewEv → List Nat → List Ev
  | _, [], _ => []
  | _, _ :: _, [] => []
  | seq, e :: es, v :: vs =>
    { eid := e.eid, pkey := tx.pkey, pid := tx.pid, seq := seq, stream := e.stream, version := v, tx := tx.txId,
      single := tx.events.length == 1 } :: mkEvs tx (seq + 1) es vs

theorem zipIdx_eq_mkEvs (tx : Tx) (next : Nat) (es : List NewEv) (vs : List Nat) (k : Nat) :
    ((es.zip vs).zipIdx k).map (fun (x : (NewEv × Nat) × Nat) =>
      ({ eid := x.1.1.eid, pkey := tx.pkey, pid := tx.pid, seq := next + x.2, stream := x.1.1.stream, version := x.1.2,
         tx := tx.txId, single := tx.events.length == 1 } : Ev)) = mkEvs tx (next + k) es vs := by
  induction es generalizing vs k with
  | nil => simp [mkEvs]
  | cons e es ih =>
    cases vs with
    | nil => simp [mkEvs]
    | cons v vs =>
      simp only [List.zip_cons_cons, List.zipIdx_cons, List.map_cons, mkEvs]
      rw [ih vs (k + 1)]
      rfl

theorem append_any (s : Spec) (tx : Tx) (h : tx.expectedSeq = .any) :
    s.append tx =
      match s.checkEvents tx.pkey tx.events [] with
      | .error e => .error e
      | .ok vs =>
        if tx.events.any (fun e => !e.tsOk) then .error .badTimestamp
        else .ok ({ txs := s.txs ++ [mkEvs tx (s.nextSeq tx.pid) tx.events vs] }, s.nextSeq tx.pid,
                  s.nextSeq tx.pid + tx.events.length - 1) := by
  unfold Spec.append
  cases hc : s.checkEvents tx.pkey tx.events [] with
  | error e => rfl
  | ok vs =>
    have := zipIdx_eq_mkEvs tx (s.nextSeq tx.pid) tx.events vs 0
    simp only [Nat.add_zero] at this
    simp only [h, storeAccepts, Bool.not_true, Bool.false_eq_true, ↓reduceIte]
    split
    · rfl
    · rw [← this]

/-! ## the versions `checkEvents` assigns -/

/-- next version of a stream, given what the transaction has seen so far / the store holds -/
def baseOf (s : Spec) (seen : List (Nat × Nat)) (k : Nat) : Nat :=
  match seen.find? (·.1 == k) with
  | some (_, v) => v + 1
  | none => match s.streamLatest k with | some (_, v) => v + 1 | none => 0

/-- version of each event: the stream's next version plus its earlier occurrences in the transaction -/
def assign (base : Nat → Nat) : List Nat → List Nat → List Nat
  | _, [] => []
  | pre, x :: xs => (base x + pre.count x) :: assign base (x :: pre) xs

theorem assign_congr (base base' : Nat → Nat) (xs : List Nat) (pre pre' : List Nat)
    (h : ∀ z, base' z + pre'.count z = base z + pre.count z) :
    assign base' pre' xs = assign base pre xs := by
  induction xs generalizing pre pre' with
  | nil => rfl
  | cons x xs ih =>
    simp only [assign]
    rw [h x, ih (x :: pre) (x :: pre')]
    intro z
    simp only [List.count_cons]
    have := h z
    omega

theorem assign_length (base : Nat → Nat) (pre xs : List Nat) : (assign base pre xs).length = xs.length := by
  induction xs generalizing pre with
  | nil => rfl
  | cons x xs ih => simp [assign, ih]

theorem find_filter_ne (seen : List (Nat × Nat)) (a z : Nat) (h : z ≠ a) :
    (seen.filter (·.1 != a)).find? (·.1 == z) = seen.find? (·.1 == z) := by
  induction seen with
  | nil => rfl
  | cons p ps ih =>
    by_cases hp : p.1 = a
    · have h1 : (p.1 != a) = false := by simp [hp]
      have h2 : (p.1 == z) = false := by simp [hp]; omega
      simp [List.filter_cons, h1, List.find?_cons, h2, ih]
    · have h1 : (p.1 != a) = true := by simp [hp]
      simp only [List.filter_cons, h1, ↓reduceIte, List.find?_cons, ih]

theorem baseOf_step (s : Spec) (seen : List (Nat × Nat)) (a v z : Nat) (hv : v = baseOf s seen a) :
    baseOf s ((a, v) :: seen.filter (·.1 != a)) z = baseOf s seen z + (if z = a then 1 else 0) := by
  by_cases hz : z = a
  · subst hz
    simp [baseOf, List.find?_cons, hv]
  · have h2 : (a == z) = false := by simp; omega
    simp only [baseOf, List.find?_cons, h2, find_filter_ne seen a z hz, hz, ↓reduceIte, Nat.add_zero]

/-- the current version `checkEvents` sees for a stream -/
def curOf (s : Spec) (pkey : Nat) (seen : List (Nat × Nat)) (x : Nat) : Except Store.Err (Option Nat) :=
  match seen.find? (·.1 == x) with
  | some (_, v) => .ok (some v)
  | none =>
    match s.streamLatest x with
    | some (k, v) => if k != pkey then .error .keyMismatch else .ok (some v)
    | none => .ok none

def nextOf : Option Nat → Nat
  | some v => v + 1
  | none => 0

def currentOf : Option Nat → Current
  | some v => .current v
  | none => .empty

theorem checkEvents_cons_eq (s : Spec) (pkey : Nat) (e : NewEv) (es : List NewEv) (seen : List (Nat × Nat)) :
    s.checkEvents pkey (e :: es) seen =
      match curOf s pkey seen e.stream with
      | .error err => .error err
      | .ok c =>
        if !storeAccepts e.expected (currentOf c) then .error .wrongVersion
        else (s.checkEvents pkey es ((e.stream, nextOf c) :: seen.filter (·.1 != e.stream))).map (nextOf c :: ·) := by
  rw [Spec.checkEvents]
  unfold curOf
  cases seen.find? (·.1 == e.stream) with
  | some p => obtain ⟨k, v⟩ := p; cases e.expected <;> rfl
  | none =>
    cases s.streamLatest e.stream with
    | some p =>
      obtain ⟨k, v⟩ := p
      by_cases hk : (k != pkey) = true
      · simp [hk]
      · simp only [hk]; rfl
    | none => rfl

theorem curOf_baseOf (s : Spec) (pkey : Nat) (seen : List (Nat × Nat)) (x : Nat) (c : Option Nat)
    (h : curOf s pkey seen x = .ok c) : baseOf s seen x = nextOf c := by
  unfold curOf at h
  unfold baseOf
  cases hf : seen.find? (·.1 == x) with
  | some p => obtain ⟨k, v⟩ := p; simp only [hf] at h; cases h; rfl
  | none =>
    simp only [hf] at h
    cases hl : s.streamLatest x with
    | some p =>
      obtain ⟨k, v⟩ := p
      simp only [hl] at h
      split at h
      · cases h
      · cases h; rfl
    | none => simp only [hl] at h; cases h; rfl

/-- the versions `checkEvents` assigns: next version of the stream + earlier occurrences in the tx -/
theorem checkEvents_assign (s : Spec) (pkey : Nat) (es : List NewEv) (seen : List (Nat × Nat)) (vs : List Nat)
    (h : s.checkEvents pkey es seen = .ok vs) :
    vs = assign (baseOf s seen) [] (es.map (·.stream)) := by
  induction es generalizing seen vs with
  | nil => simp only [Spec.checkEvents] at h; cases h; rfl
  | cons e es ih =>
    rw [checkEvents_cons_eq] at h
    cases hc : curOf s pkey seen e.stream with
    | error err => simp only [hc] at h; cases h
    | ok c =>
      simp only [hc] at h
      split at h
      · cases h
      · cases hr : s.checkEvents pkey es ((e.stream, nextOf c) :: seen.filter (·.1 != e.stream)) with
        | error err => simp only [hr, Except.map] at h; cases h
        | ok vs' =>
          simp only [hr, Except.map] at h
          cases h
          have hb := curOf_baseOf s pkey seen e.stream c hc
          have := ih _ _ hr
          simp only [List.map_cons, assign, List.count_nil, Nat.add_zero, hb]
          congr 1
          rw [this]
          apply assign_congr
          intro z
          rw [baseOf_step s seen e.stream (nextOf c) z hb.symm]
          simp only [List.count_nil, List.count_cons, Nat.add_zero, Nat.zero_add]
          by_cases hz : z = e.stream
          · subst hz; simp
          · have : (e.stream == z) = false := by simp; omega
            simp [hz, this]

/-! ## EMAPPEND's reverse reconstruction of the per-event versions -/

theorem lookupV_map_upd (m : List (Nat × Nat)) (k v k' : Nat) :
    lookupV (m.map (fun x => if x.1 == k then (k, v) else x)) k' =
      if k' = k then (if m.any (·.1 == k) then some v else none) else lookupV m k' := by
  induction m with
  | nil => simp [lookupV]
  | cons p ps ih =>
    unfold lookupV at ih ⊢
    by_cases hp : p.1 = k
    · by_cases hk : k' = k
      · simp [List.find?_cons, hp, hk]
      · have h1 : (k == k') = false := by simp; omega
        simp only [List.map_cons, hp, beq_self_eq_true, ↓reduceIte, List.find?_cons, h1, ih, hk]
    · have h0 : (p.1 == k) = false := by simp [hp]
      by_cases hk : k' = k
      · subst hk
        simp only [List.map_cons, h0, Bool.false_eq_true, ↓reduceIte, List.find?_cons, List.any_cons, Bool.false_or]
        simpa using ih
      · by_cases h2 : p.1 = k'
        · simp [List.find?_cons, h0, h2, hk]
        · have h3 : (p.1 == k') = false := by simp [h2]
          simp only [List.map_cons, h0, Bool.false_eq_true, ↓reduceIte, List.find?_cons, h3, ih, hk]

theorem lookupV_append_new (m : List (Nat × Nat)) (k v k' : Nat) (h : m.any (·.1 == k) = false) :
    lookupV (m ++ [(k, v)]) k' = if k' = k then some v else lookupV m k' := by
  unfold lookupV
  rw [List.find?_append]
  by_cases hk : k' = k
  · subst hk
    have : m.find? (·.1 == k') = none := by
      rw [List.find?_eq_none]
      intro x hx
      have := List.any_eq_false.mp h x hx
      simpa using this
    simp [this]
  · have h1 : (k == k') = false := by simp; omega
    simp [List.find?_cons, h1, hk]

theorem lookupV_setVersion (m : List (Nat × Nat)) (k v k' : Nat) :
    lookupV (setVersion m k v) k' = if k' = k then some v else lookupV m k' := by
  unfold setVersion
  by_cases ha : m.any (·.1 == k) = true
  · simp only [ha, ↓reduceIte, lookupV_map_upd]
  · have ha' : m.any (·.1 == k) = false := by
      cases hb : m.any (·.1 == k) with
      | true => exact absurd hb ha
      | false => rfl
    simp only [ha', Bool.false_eq_true, ↓reduceIte, lookupV_append_new m k v k' ha']

/-- (stream, version) pairs, last event first: each version is the stream's base plus the number of
its occurrences among the earlier events -/
def RevOK (base : Nat → Nat) (pre : List Nat) : List (Nat × Nat) → Prop
  | [] => True
  | p :: rest => p.2 = base p.1 + pre.count p.1 + (rest.map (·.1)).count p.1 ∧ RevOK base pre rest

theorem revOK_snoc (base : Nat → Nat) (pre : List Nat) (x : Nat) (r : List (Nat × Nat))
    (h : RevOK base (x :: pre) r) : RevOK base pre (r ++ [(x, base x + pre.count x)]) := by
  induction r with
  | nil => simp [RevOK]
  | cons p rest ih =>
    obtain ⟨h1, h2⟩ := h
    rw [List.cons_append]
    refine ⟨?_, ih h2⟩
    simp only [List.map_append, List.map_cons, List.map_nil, List.count_append, List.count_cons, List.count_nil] at h1 ⊢
    omega

theorem revOK_of_assign (base : Nat → Nat) (pre xs : List Nat) :
    RevOK base pre ((xs.zip (assign base pre xs)).reverse) := by
  induction xs generalizing pre with
  | nil => simp [assign, RevOK]
  | cons x xs ih =>
    simp only [assign, List.zip_cons_cons, List.reverse_cons]
    exact revOK_snoc base pre x _ (ih (x :: pre))

theorem reconRev_ok (base : Nat → Nat) (pre : List Nat) (r : List (Nat × Nat)) (m : List (Nat × Nat))
    (hok : RevOK base pre r)
    (hinv : ∀ k ∈ r.map (·.1), lookupV m k = some (base k + pre.count k + (r.map (·.1)).count k - 1)) :
    reconRev (r.map (·.1)) m = some (r.map (·.2)) := by
  induction r generalizing m with
  | nil => rfl
  | cons p rest ih =>
    obtain ⟨h1, h2⟩ := hok
    have hp := hinv p.1 (by simp)
    simp only [List.map_cons, List.count_cons, beq_self_eq_true, ↓reduceIte] at hp
    have hv : base p.1 + pre.count p.1 + ((rest.map (·.1)).count p.1 + 1) - 1 = p.2 := by omega
    rw [hv] at hp
    simp only [List.map_cons, reconRev, hp]
    rw [ih (setVersion m p.1 (p.2 - 1)) h2]
    · rfl
    · intro k hk
      rw [lookupV_setVersion]
      by_cases hkp : k = p.1
      · subst hkp
        have hc : 0 < (rest.map (·.1)).count p.1 := List.count_pos_iff.mpr hk
        simp only [↓reduceIte]
        congr 1
        omega
      · have := hinv k (by simp [hk])
        have hne : (p.1 == k) = false := by simp; omega
        simp only [hkp, ↓reduceIte, this, List.map_cons, List.count_cons, hne, Bool.false_eq_true, Nat.add_zero]

/-- the map `AppendResult::stream_versions` ends with: per stream the version of its last event -/
theorem finalMap_lookup (base : Nat → Nat) (xs pre : List Nat) (m : List (Nat × Nat))
    (hm : ∀ k ∈ pre, lookupV m k = some (base k + pre.count k - 1)) :
    ∀ k ∈ pre ++ xs,
      lookupV ((xs.zip (assign base pre xs)).foldl (fun m p => setVersion m p.1 p.2) m) k =
        some (base k + (pre ++ xs).count k - 1) := by
  induction xs generalizing pre m with
  | nil => intro k hk; simpa using hm k (by simpa using hk)
  | cons x xs ih =>
    intro k hk
    simp only [assign, List.zip_cons_cons, List.foldl_cons]
    have := ih (x :: pre) (setVersion m x (base x + pre.count x)) (by
      intro z hz
      rw [lookupV_setVersion]
      by_cases hzx : z = x
      · subst hzx; simp
      · have hz' : z ∈ pre := by
          cases List.mem_cons.mp hz with
          | inl h => exact absurd h hzx
          | inr h => exact h
        have hne : (x == z) = false := by simp; omega
        simp only [hzx, ↓reduceIte, hm z hz', List.count_cons, hne, Bool.false_eq_true, Nat.add_zero]) k (by
      simp only [List.mem_append, List.mem_cons] at hk ⊢
      rcases hk with h | h | h
      · exact Or.inl (Or.inr h)
      · exact Or.inl (Or.inl h)
      · exact Or.inr h)
    rw [this]
    congr 2
    simp only [List.cons_append, List.count_append, List.count_cons]
    omega

/-! ## projections of `mkEvs` -/

theorem mkEvs_pairs (tx : Tx) (n : Nat) (es : List NewEv) (vs : List Nat) :
    (mkEvs tx n es vs).map (fun e => (e.stream, e.version)) = (es.map (·.stream)).zip vs := by
  induction es generalizing n vs with
  | nil => simp [mkEvs]
  | cons e es ih => cases vs with
    | nil => simp [mkEvs]
    | cons v vs => simp [mkEvs, ih]

theorem mkEvs_length (tx : Tx) (n : Nat) (es : List NewEv) (vs : List Nat) (h : vs.length = es.length) :
    (mkEvs tx n es vs).length = es.length := by
  induction es generalizing n vs with
  | nil => simp [mkEvs]
  | cons e es ih => cases vs with
    | nil => simp at h
    | cons v vs => simp [mkEvs, ih (n + 1) vs (by simpa using h)]

theorem mkEvs_streams (tx : Tx) (n : Nat) (es : List NewEv) (vs : List Nat) (h : vs.length = es.length) :
    (mkEvs tx n es vs).map (·.stream) = es.map (·.stream) := by
  have := congrArg (List.map Prod.fst) (mkEvs_pairs tx n es vs)
  rw [List.map_map, List.map_fst_zip (by simp [h])] at this
  exact this

theorem mkEvs_versions (tx : Tx) (n : Nat) (es : List NewEv) (vs : List Nat) (h : vs.length = es.length) :
    (mkEvs tx n es vs).map (·.version) = vs := by
  have := congrArg (List.map Prod.snd) (mkEvs_pairs tx n es vs)
  rw [List.map_map, List.map_snd_zip (by simp [h])] at this
  exact this

/-- EMAPPEND's reconstruction returns exactly the versions the specification assigned -/
theorem reconstruct_mkEvs (tx : Tx) (n : Nat) (es : List NewEv) (base : Nat → Nat) :
    reconstruct (mkEvs tx n es (assign base [] (es.map (·.stream)))) = some (assign base [] (es.map (·.stream))) := by
  have hlen : (assign base [] (es.map (·.stream))).length = es.length := by simp [assign_length]
  unfold reconstruct streamVersions
  rw [mkEvs_streams tx n es _ hlen]
  have hfold : ∀ (l : List Ev) (m : List (Nat × Nat)),
      l.foldl (fun vs e => setVersion vs e.stream e.version) m =
      (l.map (fun e => (e.stream, e.version))).foldl (fun m p => setVersion m p.1 p.2) m := by
    intro l; induction l with
    | nil => intro m; rfl
    | cons a l ih => intro m; simp [ih]
  rw [hfold, mkEvs_pairs]
  generalize hxs : es.map (·.stream) = xs at *
  have hl2 : (assign base [] xs).length = xs.length := assign_length base [] xs
  have hfst : ((xs.zip (assign base [] xs)).reverse).map (·.1) = xs.reverse := by
    rw [List.map_reverse, List.map_fst_zip (by omega)]
  have hsnd : ((xs.zip (assign base [] xs)).reverse).map (·.2) = (assign base [] xs).reverse := by
    rw [List.map_reverse, List.map_snd_zip (by omega)]
  have := reconRev_ok base [] ((xs.zip (assign base [] xs)).reverse) ((xs.zip (assign base [] xs)).foldl (fun m p => setVersion m p.1 p.2) [])
    (revOK_of_assign base [] xs) (by
      intro k hk
      rw [hfst] at hk ⊢
      have h1 := finalMap_lookup base xs [] [] (by intro k hk; simp at hk) k (by simpa using hk)
      simp only [List.nil_append] at h1
      rw [h1, List.count_reverse]
      simp)
  rw [hfst, hsnd] at this
  rw [this]
  simp

/-! ## the store call of the handlers -/

theorem pairUp_ev (evs : List Ev) (xs : List Extra) (h : evs.length ≤ xs.length) :
    (pairUp evs xs).map (·.ev) = evs := by
  unfold pairUp
  rw [List.map_map]
  have : ((fun (e : SEv) => e.ev) ∘ fun (p : Ev × Extra) => ({ ev := p.1, x := p.2 } : SEv)) = Prod.fst := rfl
  rw [this, List.map_fst_zip h]

theorem commit_eq (st : ServerState) (tx : Tx) (xs : List Extra) (h : tx.expectedSeq = .any) :
    commit st tx xs =
      match st.abs.checkEvents tx.pkey tx.events [] with
      | .error e => .error e
      | .ok vs =>
        if tx.events.any (fun e => !e.tsOk) then .error .badTimestamp
        else .ok ({ st with txs := st.txs ++ [pairUp (mkEvs tx (st.abs.nextSeq tx.pid) tx.events vs) xs] },
                  mkEvs tx (st.abs.nextSeq tx.pid) tx.events vs, st.abs.nextSeq tx.pid,
                  st.abs.nextSeq tx.pid + tx.events.length - 1) := by
  unfold commit
  rw [append_any _ _ h]
  cases st.abs.checkEvents tx.pkey tx.events [] with
  | error e => rfl
  | ok vs =>
    simp only
    by_cases hts : (tx.events.any fun e => !e.tsOk) = true
    · simp only [hts, ↓reduceIte]
    · simp only [hts, Bool.false_eq_true, ↓reduceIte, List.getLast?_append, List.getLast?_singleton, Option.some_or,
        Option.getD_some]

theorem abs_snoc (st : ServerState) (evs : List Ev) (xs : List Extra) (h : evs.length ≤ xs.length) :
    ({ st with txs := st.txs ++ [pairUp evs xs] } : ServerState).abs = { txs := st.abs.txs ++ [evs] } := by
  simp [ServerState.abs, pairUp_ev evs xs h]

theorem checkEvents_length (s : Spec) (pkey : Nat) (es : List NewEv) (seen : List (Nat × Nat)) (vs : List Nat)
    (h : s.checkEvents pkey es seen = .ok vs) : vs.length = es.length := by
  rw [checkEvents_assign s pkey es seen vs h, assign_length]; simp

theorem mkEvs_seqs (tx : Tx) (n : Nat) (es : List NewEv) (vs : List Nat) (h : vs.length = es.length) :
    (mkEvs tx n es vs).map (·.seq) = List.range' n es.length := by
  induction es generalizing n vs with
  | nil => simp [mkEvs]
  | cons e es ih => cases vs with
    | nil => simp at h
    | cons v vs => simp [mkEvs, ih (n + 1) vs (by simpa using h), List.range'_succ]

theorem mkEvs_eids (tx : Tx) (n : Nat) (es : List NewEv) (vs : List Nat) (h : vs.length = es.length) :
    (mkEvs tx n es vs).map (·.eid) = es.map (·.eid) := by
  induction es generalizing n vs with
  | nil => simp [mkEvs]
  | cons e es ih => cases vs with
    | nil => simp at h
    | cons v vs => simp [mkEvs, ih (n + 1) vs (by simpa using h)]

theorem mkEvs_fixed (tx : Tx) (n : Nat) (es : List NewEv) (vs : List Nat) :
    ∀ e ∈ mkEvs tx n es vs, e.pkey = tx.pkey ∧ e.pid = tx.pid ∧ e.tx = tx.txId := by
  induction es generalizing n vs with
  | nil => simp [mkEvs]
  | cons e es ih => cases vs with
    | nil => simp [mkEvs]
    | cons v vs =>
      intro x hx
      simp only [mkEvs, List.mem_cons] at hx
      cases hx with
      | inl h => subst h; exact ⟨rfl, rfl, rfl⟩
      | inr h => exact ih _ _ x h

/-! ## appends against the specification -/

theorem prepEvents_length (nowMs : Nat) (es : List AppendEv) (gen : List Nat) (ps : List Prep)
    (h : prepEvents nowMs es gen = some ps) : ps.length = es.length := by
  induction es generalizing gen ps with
  | nil => simp [prepEvents] at h; simp [← h]
  | cons e es ih =>
    simp only [prepEvents] at h
    cases hc : convTs e.timestamp nowMs with
    | none => simp [hc] at h
    | some msok =>
      obtain ⟨ms, ok⟩ := msok
      simp only [hc] at h
      rw [Option.map_eq_some_iff] at h
      obtain ⟨a, ha, rfl⟩ := h
      simp [ih _ _ ha]

/-- the request passes every check the handler makes before the store is asked -/
structure Admitted (cfg : Cfg) (inp : Inputs) (pkey : Nat) (es : List AppendEv) (ps : List Prep) (pid : Nat) : Prop where
  strictOk : (inp.strict && es.any (fun e => !strictAllowed e.expected)) = false
  hpid : modChk (uuidHash pkey) cfg.numPartitions = some pid
  hprep : prepEvents inp.nowMs es inp.genIds = some ps
  hids : (ps.isEmpty || ps.any (fun p => uuidHash p.eid != uuidHash pkey)) = false

def lastTx (s : Spec) : List Ev := s.txs.getLast?.getD []

theorem emappend_spec (cfg : Cfg) (st : ServerState) (inp : Inputs) (pkey pid : Nat) (es : List AppendEv) (ps : List Prep)
    (h : Admitted cfg inp pkey es ps pid) :
    match st.abs.append (mkTx cfg pkey pid inp.txId ps) with
    | .error err => handleEMAppend cfg st inp pkey es = (st, .err (mapErr err))
    | .ok (spec', first, last) =>
      ∃ st', handleEMAppend cfg st inp pkey es =
          (st', .mappended pkey pid first last
            ((ps.zip ((lastTx spec').map (·.version))).map (fun pv => (pv.1.eid, pv.1.stream, pv.2, pv.1.tsMs)))) ∧
        st'.abs = spec' ∧ spec'.txs = st.abs.txs ++ [lastTx spec'] ∧
        (lastTx spec').map (·.seq) = List.range' first ps.length ∧ last = first + ps.length - 1 ∧
        (lastTx spec').map (·.eid) = ps.map (·.eid) := by
  have hany : (mkTx cfg pkey pid inp.txId ps).expectedSeq = .any := rfl
  unfold handleEMAppend
  simp only [h.strictOk, Bool.false_eq_true, ↓reduceIte, h.hpid, h.hprep, h.hids]
  rw [commit_eq _ _ _ hany, append_any _ _ hany]
  cases hc : st.abs.checkEvents (mkTx cfg pkey pid inp.txId ps).pkey (mkTx cfg pkey pid inp.txId ps).events [] with
  | error err => rfl
  | ok vs =>
    simp only
    by_cases hts : ((mkTx cfg pkey pid inp.txId ps).events.any fun e => !e.tsOk) = true
    · simp only [hts, ↓reduceIte]
    · simp only [hts, Bool.false_eq_true, ↓reduceIte]
      have hvs := checkEvents_assign _ _ _ _ _ hc
      have hlen := checkEvents_length _ _ _ _ _ hc
      have hevlen : (mkTx cfg pkey pid inp.txId ps).events.length = ps.length := by simp [mkTx]
      have hrec : reconstruct (mkEvs (mkTx cfg pkey pid inp.txId ps) (st.abs.nextSeq (mkTx cfg pkey pid inp.txId ps).pid)
          (mkTx cfg pkey pid inp.txId ps).events vs) = some vs := by
        rw [hvs]; exact reconstruct_mkEvs _ _ _ _
      simp only [hrec]
      have hlast : lastTx { txs := st.abs.txs ++ [mkEvs (mkTx cfg pkey pid inp.txId ps) (st.abs.nextSeq (mkTx cfg pkey pid inp.txId ps).pid)
          (mkTx cfg pkey pid inp.txId ps).events vs] } = mkEvs (mkTx cfg pkey pid inp.txId ps) (st.abs.nextSeq (mkTx cfg pkey pid inp.txId ps).pid)
          (mkTx cfg pkey pid inp.txId ps).events vs := by
        simp [lastTx]
      rw [hlast, mkEvs_versions _ _ _ _ hlen]
      refine ⟨_, rfl, ?_, rfl, ?_, ?_, ?_⟩
      · apply abs_snoc
        rw [mkEvs_length _ _ _ _ hlen]
        simp [hevlen]
      · rw [mkEvs_seqs _ _ _ _ hlen, hevlen]
      · rw [hevlen]
      · rw [mkEvs_eids _ _ _ _ hlen]
        simp [mkTx, Prep.newEv]

/-- EAPPEND passes every check the handler makes before the store is asked -/
structure Admitted1 (cfg : Cfg) (inp : Inputs) (e : AppendEv) (p : Prep) (pid : Nat) : Prop where
  strictOk : (inp.strict && !strictAllowed e.expected) = false
  hpid : modChk (uuidHash (e.partitionKey.getD inp.derivedKey)) cfg.numPartitions = some pid
  hprep : prepEvents inp.nowMs [e] inp.genIds = some [p]
  hids : ([p].any (fun q => uuidHash q.eid != uuidHash (e.partitionKey.getD inp.derivedKey))) = false

theorem eappend_spec (cfg : Cfg) (st : ServerState) (inp : Inputs) (e : AppendEv) (p : Prep) (pid : Nat)
    (h : Admitted1 cfg inp e p pid) :
    match st.abs.append (mkTx cfg (e.partitionKey.getD inp.derivedKey) pid inp.txId [p]) with
    | .error err => handleEAppend cfg st inp e = (st, .err (mapErr err))
    | .ok (spec', first, last) =>
      ∃ st' ev, handleEAppend cfg st inp e =
          (st', .appended p.eid (e.partitionKey.getD inp.derivedKey) pid first ev.version p.tsMs) ∧
        st'.abs = spec' ∧ spec'.txs = st.abs.txs ++ [[ev]] ∧ ev.seq = first ∧ last = first ∧
        ev.eid = p.eid ∧ ev.pid = pid ∧ ev.pkey = e.partitionKey.getD inp.derivedKey := by
  obtain ⟨h1, h2, h3, h4⟩ := h
  generalize hk : e.partitionKey.getD inp.derivedKey = pkey at *
  have hany : (mkTx cfg pkey pid inp.txId [p]).expectedSeq = .any := rfl
  unfold handleEAppend
  simp only [h1, Bool.false_eq_true, ↓reduceIte, hk, h2, h3, h4]
  rw [commit_eq _ _ _ hany, append_any _ _ hany]
  cases hc : st.abs.checkEvents (mkTx cfg pkey pid inp.txId [p]).pkey (mkTx cfg pkey pid inp.txId [p]).events [] with
  | error err => rfl
  | ok vs =>
    simp only
    by_cases hts : ((mkTx cfg pkey pid inp.txId [p]).events.any fun e => !e.tsOk) = true
    · simp only [hts, ↓reduceIte]
    · simp only [hts, Bool.false_eq_true, ↓reduceIte]
      have hlen := checkEvents_length _ _ _ _ _ hc
      have hev : (mkTx cfg pkey pid inp.txId [p]).events = [Prep.newEv (pid % cfg.numBuckets) p] := rfl
      rw [hev] at hlen ⊢
      match vs, hlen with
      | [v], _ =>
        simp only [mkEvs, streamVersions, List.foldl_cons, List.foldl_nil, setVersion, List.any_nil, Bool.false_eq_true,
          ↓reduceIte, List.nil_append, List.head?_cons, List.length_cons, List.length_nil, Nat.zero_add]
        refine ⟨_, _, rfl, ?_, rfl, rfl, rfl, rfl, rfl, rfl⟩
        apply abs_snoc
        simp

theorem modChk_pos (a n : Nat) (h : 0 < n) : modChk a n = some (a % n) := by
  unfold modChk; simp; omega

/-- EAPPEND: rejected with INVALIDARG before the store is asked, or admitted -/
theorem eappend_admit_or_reject (cfg : Cfg) (st : ServerState) (inp : Inputs) (e : AppendEv) (hN : 0 < cfg.numPartitions) :
    handleEAppend cfg st inp e = (st, .err .invalidArg) ∨ ∃ p pid, Admitted1 cfg inp e p pid := by
  by_cases h1 : (inp.strict && !strictAllowed e.expected) = true
  · left; unfold handleEAppend; simp only [h1, ↓reduceIte]
  · have h1' : (inp.strict && !strictAllowed e.expected) = false := by simpa using h1
    have h2 := modChk_pos (uuidHash (e.partitionKey.getD inp.derivedKey)) cfg.numPartitions hN
    cases h3 : prepEvents inp.nowMs [e] inp.genIds with
    | none => left; unfold handleEAppend; simp only [h1', Bool.false_eq_true, ↓reduceIte, h2, h3]
    | some ps =>
      have hl := prepEvents_length _ _ _ _ h3
      match ps, hl with
      | [p], _ =>
        by_cases h4 : ([p].any (fun q => uuidHash q.eid != uuidHash (e.partitionKey.getD inp.derivedKey))) = true
        · left; unfold handleEAppend; simp only [h1', Bool.false_eq_true, ↓reduceIte, h2, h3, h4]
        · right
          exact ⟨p, _, ⟨h1', h2, h3, by simpa using h4⟩⟩

/-- EMAPPEND: rejected with INVALIDARG before the store is asked, or admitted -/
theorem emappend_admit_or_reject (cfg : Cfg) (st : ServerState) (inp : Inputs) (pkey : Nat) (es : List AppendEv)
    (hN : 0 < cfg.numPartitions) :
    handleEMAppend cfg st inp pkey es = (st, .err .invalidArg) ∨ ∃ ps pid, Admitted cfg inp pkey es ps pid := by
  by_cases h1 : (inp.strict && es.any (fun e => !strictAllowed e.expected)) = true
  · left; unfold handleEMAppend; simp only [h1, ↓reduceIte]
  · have h1' : (inp.strict && es.any (fun e => !strictAllowed e.expected)) = false := by
      cases hb : (inp.strict && es.any (fun e => !strictAllowed e.expected)) with
      | true => exact absurd hb h1
      | false => rfl
    have h2 := modChk_pos (uuidHash pkey) cfg.numPartitions hN
    cases h3 : prepEvents inp.nowMs es inp.genIds with
    | none => left; unfold handleEMAppend; simp only [h1', Bool.false_eq_true, ↓reduceIte, h2, h3]
    | some ps =>
      by_cases h4 : (ps.isEmpty || ps.any (fun p => uuidHash p.eid != uuidHash pkey)) = true
      · left; unfold handleEMAppend; simp only [h1', Bool.false_eq_true, ↓reduceIte, h2, h3, h4]
      · right
        refine ⟨ps, _, ⟨h1', h2, h3, ?_⟩⟩
        cases hb : (ps.isEmpty || ps.any (fun p => uuidHash p.eid != uuidHash pkey)) with
        | true => exact absurd hb h4
        | false => rfl

/-! ## no handler traps -/

theorem eappend_no_trap (cfg : Cfg) (st : ServerState) (inp : Inputs) (e : AppendEv) (hN : 0 < cfg.numPartitions) :
    (handleEAppend cfg st inp e).2 ≠ .trap := by
  rcases eappend_admit_or_reject cfg st inp e hN with h | ⟨p, pid, h⟩
  · rw [h]; simp
  · have := eappend_spec cfg st inp e p pid h
    cases ha : st.abs.append (mkTx cfg (e.partitionKey.getD inp.derivedKey) pid inp.txId [p]) with
    | error err => rw [ha] at this; rw [this]; simp
    | ok r =>
      obtain ⟨spec', first, last⟩ := r
      rw [ha] at this
      obtain ⟨st', ev, heq, _⟩ := this
      rw [heq]; simp

theorem emappend_no_trap (cfg : Cfg) (st : ServerState) (inp : Inputs) (pkey : Nat) (es : List AppendEv)
    (hN : 0 < cfg.numPartitions) : (handleEMAppend cfg st inp pkey es).2 ≠ .trap := by
  rcases emappend_admit_or_reject cfg st inp pkey es hN with h | ⟨ps, pid, h⟩
  · rw [h]; simp
  · have := emappend_spec cfg st inp pkey pid es ps h
    cases ha : st.abs.append (mkTx cfg pkey pid inp.txId ps) with
    | error err => rw [ha] at this; rw [this]; simp
    | ok r =>
      obtain ⟨spec', first, last⟩ := r
      rw [ha] at this
      obtain ⟨st', heq, _⟩ := this
      rw [heq]; simp

theorem selPid_some (cfg : Cfg) (sel : PSel) (hN : 0 < cfg.numPartitions) : ∃ pid, selPid cfg sel = some pid := by
  cases sel with
  | byId n => exact ⟨n, rfl⟩
  | byKey u => exact ⟨_, modChk_pos _ _ hN⟩

theorem reads_no_trap (cfg : Cfg) (st : ServerState) (inp : Inputs) (hN : 0 < cfg.numPartitions) :
    (∀ id, handleEGet cfg st id ≠ .trap) ∧ (∀ s pk, handleESVer cfg st inp s pk ≠ .trap) ∧
    (∀ sel, handleEPSeq cfg st sel ≠ .trap) ∧ (∀ sel lo hi c, handleEPScan cfg st sel lo hi c ≠ .trap) ∧
    (∀ s lo hi pk c, handleEScan cfg st inp s lo hi pk c ≠ .trap) := by
  refine ⟨?_, ?_, ?_, ?_, ?_⟩
  · intro id
    simp only [handleEGet, modChk_pos _ _ hN]
    split
    · split <;> (intro h; cases h)
    · intro h; cases h
  · intro s pk
    simp only [handleESVer, modChk_pos _ _ hN]
    split <;> (intro h; cases h)
  · intro sel
    obtain ⟨pid, hp⟩ := selPid_some cfg sel hN
    simp only [handleEPSeq, hp]
    split
    · split <;> (intro h; cases h)
    · intro h; cases h
  · intro sel lo hi c
    obtain ⟨pid, hp⟩ := selPid_some cfg sel hN
    unfold handleEPScan
    split
    · intro h; cases h
    · intro h; cases h
    · simp only [hp]
      split
      · unfold scanPartition
        simp only
        split <;> (intro h; cases h)
      · intro h; cases h
  · intro s lo hi pk c
    simp only [handleEScan, modChk_pos _ _ hN]
    split
    · intro h; cases h
    · intro h; cases h
    · unfold scanStream; intro h; cases h

theorem handle_no_trap (cfg : Cfg) (st : ServerState) (inp : Inputs) (r : Request) (hN : 0 < cfg.numPartitions) :
    (handle cfg st inp r).2 ≠ .trap := by
  obtain ⟨h1, h2, h3, h4, h5⟩ := reads_no_trap cfg st inp hN
  cases r with
  | eappend e => exact eappend_no_trap cfg st inp e hN
  | emappend pk es => exact emappend_no_trap cfg st inp pk es hN
  | eget id => exact h1 id
  | escan s lo hi pk c => exact h5 s lo hi pk c
  | epscan p lo hi c => exact h4 p lo hi c
  | esver s pk => exact h2 s pk
  | epseq p => exact h3 p
  | eack id c => simp only [handle]; split <;> (intro h; cases h)
  | esubStream _ _ _ _ => intro h; cases h
  | esubStreams _ _ _ => intro h; cases h
  | epsubAll _ _ => intro h; cases h
  | epsubOne _ _ _ => intro h; cases h
  | epsubMany _ _ _ => intro h; cases h

theorem run_no_trap (cfg : Cfg) (hN : 0 < cfg.numPartitions) (st : ServerState) (h : List (Inputs × Request)) :
    Response.trap ∉ (run cfg st h).2 := by
  induction h generalizing st with
  | nil => simp [run]
  | cons x rest ih =>
    obtain ⟨inp, r⟩ := x
    simp only [run, List.mem_cons, not_or]
    exact ⟨fun h => handle_no_trap cfg st inp r hN h.symm, ih _⟩

/-! ## the stream key is an injective encoding of (bucket, stream id) -/

theorem charToNatInj (c d : Char) (h : c.toNat = d.toNat) : c = d := by
  apply Char.ext
  apply UInt32.toNat_inj.mp
  exact h

theorem charLt (c : Char) : c.toNat < 1114112 := by
  have := c.valid
  rcases this with h | ⟨h1, h2⟩
  · show c.val.toNat < _; omega
  · show c.val.toNat < _; omega

theorem encChars_inj : ∀ a b : List Char, encChars a = encChars b → a = b := by
  intro a
  induction a with
  | nil => intro b h; cases b with
    | nil => rfl
    | cons d ds => simp only [encChars] at h; omega
  | cons c cs ih => intro b h; cases b with
    | nil => simp only [encChars] at h; omega
    | cons d ds =>
      simp only [encChars] at h
      have hc := charLt c
      have hd := charLt d
      have h1 : c.toNat = d.toNat := by omega
      have h2 : encChars cs = encChars ds := by omega
      rw [charToNatInj c d h1, ih ds h2]

theorem streamKey_inj (b1 b2 : Nat) (s1 s2 : List Char) (h1 : b1 < 65536) (h2 : b2 < 65536)
    (h : streamKey b1 s1 = streamKey b2 s2) : b1 = b2 ∧ s1 = s2 := by
  unfold streamKey at h
  have hb : b1 = b2 := by omega
  have he : encChars s1 = encChars s2 := by omega
  exact ⟨hb, encChars_inj s1 s2 he⟩

end SierraModel.Server
