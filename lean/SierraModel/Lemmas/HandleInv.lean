/-
C22: the invariant of command histories (valid event ids, gapless partition sequences and stream
versions) and what the read handlers return under it.
-/
import SierraModel.Lemmas.Handle

namespace SierraModel.Server
open SierraModel.Store
open SierraModel.Version (Expected Current storeAccepts)

/-! ## list facts -/

theorem find?_reverse_eq (l : List α) (q : α → Bool) : l.reverse.find? q = (l.filter q).getLast? := by
  induction l with
  | nil => rfl
  | cons a l ih =>
    rw [List.reverse_cons, List.find?_append, ih, List.filter_cons]
    by_cases hq : q a = true
    · simp only [hq, ↓reduceIte, List.find?_cons, List.find?_nil]
      cases hf : l.filter q with
      | nil => simp
      | cons b t => simp [List.getLast?_cons_cons, List.getLast?_eq_some_getLast (l := b :: t) (by simp)]
    · have hq' : q a = false := by simpa using hq
      simp [hq']

theorem getLast?_map_range (l : List α) (f : α → Nat) (h : l.map f = List.range l.length) :
    l.getLast?.map f = if l.length = 0 then none else some (l.length - 1) := by
  have : (l.map f).getLast? = (List.range l.length).getLast? := by rw [h]
  rw [List.getLast?_map] at this
  rw [this, List.getLast?_range]

/-! ## `checkEvents` only lets a stream continue under its own partition key -/

theorem checkEvents_keys (s : Spec) (pkey : Nat) (es : List NewEv) (seen : List (Nat × Nat)) (vs : List Nat)
    (h : s.checkEvents pkey es seen = .ok vs) :
    ∀ ne ∈ es, (seen.find? (·.1 == ne.stream)).isSome = true ∨
      ∀ k v, s.streamLatest ne.stream = some (k, v) → k = pkey := by
  induction es generalizing seen vs with
  | nil => intro ne hne; simp at hne
  | cons e es ih =>
    rw [checkEvents_cons_eq] at h
    cases hc : curOf s pkey seen e.stream with
    | error err => simp only [hc] at h; cases h
    | ok c =>
      simp only [hc] at h
      split at h
      · cases h
      · cases hr : s.checkEvents pkey es ((e.stream, nextOf c) :: seen.filter (·.1 != e.stream)) with
        | error err => simp only [hr, Except.map] at h; cases h
        | ok vs' =>
          have hhead : (seen.find? (·.1 == e.stream)).isSome = true ∨
              ∀ k v, s.streamLatest e.stream = some (k, v) → k = pkey := by
            unfold curOf at hc
            cases hf : seen.find? (·.1 == e.stream) with
            | some p => left; rfl
            | none =>
              right
              simp only [hf] at hc
              intro k v hl
              simp only [hl] at hc
              split at hc
              · cases hc
              · rename_i hk
                simpa using hk
          intro ne hne
          cases List.mem_cons.mp hne with
          | inl heq => rw [heq]; exact hhead
          | inr hmem =>
            by_cases hs : ne.stream = e.stream
            · rw [hs]; exact hhead
            · cases ih _ _ hr ne hmem with
              | inl hl =>
                left
                have hne' : (e.stream == ne.stream) = false := by simp; exact fun h => hs h.symm
                simp only [List.find?_cons, hne'] at hl
                rw [find_filter_ne seen e.stream ne.stream hs] at hl
                exact hl
              | inr hr' => exact Or.inr hr'

/-! ## the invariant -/

/-- what every command history maintains: event ids embed their partition, partition sequences
and stream versions are gapless and in commit order -/
structure WF (N : Nat) (s : Spec) : Prop where
  ids : ∀ e ∈ s.events, uuidHash e.eid = uuidHash e.pkey ∧ e.pid = uuidHash e.pkey % N
  seqs : ∀ p, (s.events.filter (·.pid == p)).map (·.seq) = List.range (s.events.filter (·.pid == p)).length
  vers : ∀ k, (s.events.filter (·.stream == k)).map (·.version) = List.range (s.events.filter (·.stream == k)).length
  keys : ∀ e1 ∈ s.events, ∀ e2 ∈ s.events, e1.stream = e2.stream → e1.pkey = e2.pkey

theorem last_plus_one (l : List Ev) (f : Ev → Nat) (h : l.map f = List.range l.length) :
    (match l.getLast? with | some e => f e + 1 | none => 0) = l.length := by
  have := getLast?_map_range l f h
  cases hl : l.getLast? with
  | none =>
    rw [hl] at this
    simp only [Option.map_none] at this
    by_cases h0 : l.length = 0
    · simp [h0]
    · simp [h0] at this
  | some e =>
    rw [hl] at this
    simp only [Option.map_some] at this
    by_cases h0 : l.length = 0
    · simp [h0] at this
    · simp only [h0, ↓reduceIte, Option.some.injEq] at this
      simp only; omega

theorem nextSeq_eq {N : Nat} {s : Spec} (h : WF N s) (p : Nat) :
    s.nextSeq p = (s.events.filter (·.pid == p)).length := by
  unfold Spec.nextSeq
  rw [find?_reverse_eq]
  exact last_plus_one _ _ (h.seqs p)

theorem baseOf_nil_eq {N : Nat} {s : Spec} (h : WF N s) (k : Nat) :
    baseOf s [] k = (s.events.filter (·.stream == k)).length := by
  unfold baseOf Spec.streamLatest
  rw [find?_reverse_eq]
  have := last_plus_one _ _ (h.vers k)
  simp only [List.find?_nil]
  cases hl : (s.events.filter (·.stream == k)).getLast? with
  | none => rw [hl] at this; simpa using this
  | some e => rw [hl] at this; simpa using this

/-! ## an append preserves the invariant -/

theorem assign_filter (base : Nat → Nat) (xs pre : List Nat) (k : Nat) :
    ((xs.zip (assign base pre xs)).filter (·.1 == k)).map (·.2) = List.range' (base k + pre.count k) (xs.count k) := by
  induction xs generalizing pre with
  | nil => simp [assign]
  | cons x xs ih =>
    simp only [assign, List.zip_cons_cons, List.filter_cons, List.count_cons]
    by_cases hx : x = k
    · subst hx
      simp only [beq_self_eq_true, ↓reduceIte, List.map_cons, ih (x :: pre), List.count_cons, List.range'_succ,
        Nat.add_assoc]
    · have h1 : (x == k) = false := by simp [hx]
      simp only [h1, Bool.false_eq_true, ↓reduceIte, ih (x :: pre), List.count_cons, Nat.add_zero]

theorem range_append_range' (n m : Nat) : List.range n ++ List.range' n m = List.range (n + m) := by
  rw [List.range_eq_range', List.range_eq_range']
  have := List.range'_append (s := 0) (m := n) (n := m) (step := 1)
  simpa [Nat.add_comm] using this

theorem mkEvs_filter_pid (tx : Tx) (n : Nat) (es : List NewEv) (vs : List Nat) (p : Nat) :
    (mkEvs tx n es vs).filter (·.pid == p) = if tx.pid = p then mkEvs tx n es vs else [] := by
  have hall := mkEvs_fixed tx n es vs
  by_cases hp : tx.pid = p
  · simp only [hp, ↓reduceIte]
    apply List.filter_eq_self.mpr
    intro e he
    simp [(hall e he).2.1, hp]
  · simp only [hp, ↓reduceIte]
    apply List.filter_eq_nil_iff.mpr
    intro e he
    simp [(hall e he).2.1, hp]

theorem mkEvs_filter_stream (tx : Tx) (n : Nat) (es : List NewEv) (base : Nat → Nat) (k : Nat) :
    ((mkEvs tx n es (assign base [] (es.map (·.stream)))).filter (·.stream == k)).map (·.version) =
      List.range' (base k) ((es.map (·.stream)).count k) := by
  have h1 := assign_filter base (es.map (·.stream)) [] k
  rw [← mkEvs_pairs tx n es] at h1
  rw [List.filter_map, List.map_map] at h1
  simp only [List.count_nil, Nat.add_zero] at h1
  exact h1

theorem events_snoc (s : Spec) (evs : List Ev) : ({ txs := s.txs ++ [evs] } : Spec).events = s.events ++ evs := by
  simp [Spec.events]

theorem range_extend (l new : List Nat) (n m : Nat) (hl : l = List.range n) (hn : new = List.range' n m) :
    l ++ new = List.range (n + m) := by
  rw [hl, hn, range_append_range']

theorem old_key_eq {N : Nat} {s : Spec} (h : WF N s) (e1 : Ev) (he1 : e1 ∈ s.events) (pk : Nat)
    (hall : ∀ k v, s.streamLatest e1.stream = some (k, v) → k = pk) : e1.pkey = pk := by
  unfold Spec.streamLatest at hall
  cases hf : s.events.reverse.find? (·.stream == e1.stream) with
  | none =>
    rw [List.find?_eq_none] at hf
    have := hf e1 (List.mem_reverse.mpr he1)
    simp at this
  | some el =>
    have hmem : el ∈ s.events := List.mem_reverse.mp (List.mem_of_find?_eq_some hf)
    have hst : (el.stream == e1.stream) = true := List.find?_some (p := fun (e : Ev) => e.stream == e1.stream) hf
    have hk := hall el.pkey el.version (by rw [hf]; rfl)
    rw [← hk]
    exact h.keys e1 he1 el hmem (beq_iff_eq.mp hst).symm

theorem wf_append {N : Nat} {s : Spec} (h : WF N s) (tx : Tx) (hany : tx.expectedSeq = .any)
    (hpid : tx.pid = uuidHash tx.pkey % N) (hids : ∀ e ∈ tx.events, uuidHash e.eid = uuidHash tx.pkey)
    (s' : Spec) (f l : Nat) (ha : s.append tx = .ok (s', f, l)) : WF N s' := by
  rw [append_any _ _ hany] at ha
  cases hc : s.checkEvents tx.pkey tx.events [] with
  | error err => rw [hc] at ha; cases ha
  | ok vs =>
    rw [hc] at ha
    simp only at ha
    split at ha
    · cases ha
    · cases ha
      have hvs := checkEvents_assign _ _ _ _ _ hc
      have hlen := checkEvents_length _ _ _ _ _ hc
      have hfix := mkEvs_fixed tx (s.nextSeq tx.pid) tx.events vs
      -- an old event of a stream the transaction writes has the transaction's partition key
      have hold : ∀ e1 ∈ s.events, ∀ e2 ∈ mkEvs tx (s.nextSeq tx.pid) tx.events vs, e1.stream = e2.stream →
          e1.pkey = tx.pkey := by
        intro e1 he1 e2 he2 hst
        have : e2.stream ∈ (mkEvs tx (s.nextSeq tx.pid) tx.events vs).map (·.stream) := List.mem_map.mpr ⟨e2, he2, rfl⟩
        rw [mkEvs_streams _ _ _ _ hlen] at this
        obtain ⟨ne, hne, heq⟩ := List.mem_map.mp this
        apply old_key_eq h e1 he1
        rcases checkEvents_keys _ _ _ _ _ hc ne hne with hl | hr
        · simp at hl
        · rw [hst, ← heq]; exact hr
      refine ⟨?_, ?_, ?_, ?_⟩
      · intro e he
        rw [events_snoc] at he
        cases List.mem_append.mp he with
        | inl h1 => exact h.ids e h1
        | inr h1 =>
          obtain ⟨hk, hp, _⟩ := hfix e h1
          have : e.eid ∈ (mkEvs tx (s.nextSeq tx.pid) tx.events vs).map (·.eid) := List.mem_map.mpr ⟨e, h1, rfl⟩
          rw [mkEvs_eids _ _ _ _ hlen] at this
          obtain ⟨ne, hne, heq⟩ := List.mem_map.mp this
          rw [hk, hp, ← heq]
          exact ⟨hids ne hne, hpid⟩
      · intro p
        rw [events_snoc, List.filter_append, List.map_append, List.length_append, mkEvs_filter_pid]
        by_cases hp : tx.pid = p
        · simp only [hp, ↓reduceIte]
          apply range_extend
          · exact h.seqs p
          · rw [mkEvs_seqs _ _ _ _ hlen, mkEvs_length _ _ _ _ hlen, nextSeq_eq h]
        · simp only [hp, ↓reduceIte, List.map_nil, List.append_nil, List.length_nil, Nat.add_zero]
          exact h.seqs p
      · intro k
        rw [events_snoc, List.filter_append, List.map_append, List.length_append]
        apply range_extend
        · exact h.vers k
        · have := mkEvs_filter_stream tx (s.nextSeq tx.pid) tx.events (baseOf s []) k
          rw [← hvs, baseOf_nil_eq h] at this
          have hl := congrArg List.length this
          simp only [List.length_map, List.length_range'] at hl
          rw [this, hl]
      · intro e1 he1 e2 he2 hst
        rw [events_snoc] at he1 he2
        cases List.mem_append.mp he1 with
        | inl h1 =>
          cases List.mem_append.mp he2 with
          | inl h2 => exact h.keys e1 h1 e2 h2 hst
          | inr h2 => rw [(hfix e2 h2).1]; exact hold e1 h1 e2 h2 hst
        | inr h1 =>
          cases List.mem_append.mp he2 with
          | inl h2 => rw [(hfix e1 h1).1]; exact (hold e2 h2 e1 h1 hst.symm).symm
          | inr h2 => rw [(hfix e1 h1).1, (hfix e2 h2).1]

/-! ## every request preserves the invariant -/

theorem wf_empty (N : Nat) : WF N ({} : ServerState).abs := by
  refine ⟨?_, ?_, ?_, ?_⟩ <;> simp [ServerState.abs, Spec.events]

theorem modChk_eq {a n pid : Nat} (hN : 0 < n) (h : modChk a n = some pid) : pid = a % n := by
  rw [modChk_pos a n hN] at h; cases h; rfl

theorem mkTx_ids (cfg : Cfg) (pkey pid txId : Nat) (ps : List Prep)
    (h : ps.any (fun p => uuidHash p.eid != uuidHash pkey) = false) :
    ∀ e ∈ (mkTx cfg pkey pid txId ps).events, uuidHash e.eid = uuidHash (mkTx cfg pkey pid txId ps).pkey := by
  intro e he
  simp only [mkTx, List.mem_map] at he
  obtain ⟨p, hp, rfl⟩ := he
  have := List.any_eq_false.mp h p hp
  simpa [Prep.newEv, mkTx] using this

theorem handle_wf (cfg : Cfg) (st : ServerState) (inp : Inputs) (r : Request) (hN : 0 < cfg.numPartitions)
    (h : WF cfg.numPartitions st.abs) : WF cfg.numPartitions (handle cfg st inp r).1.abs := by
  cases r with
  | eappend e =>
    simp only [handle]
    rcases eappend_admit_or_reject cfg st inp e hN with hr | ⟨p, pid, ha⟩
    · rw [hr]; exact h
    · have hs := eappend_spec cfg st inp e p pid ha
      cases hap : st.abs.append (mkTx cfg (e.partitionKey.getD inp.derivedKey) pid inp.txId [p]) with
      | error err => rw [hap] at hs; rw [hs]; exact h
      | ok res =>
        obtain ⟨spec', first, last⟩ := res
        rw [hap] at hs
        obtain ⟨st', ev, heq, habs, _⟩ := hs
        rw [heq, habs]
        exact wf_append h _ rfl (modChk_eq hN ha.hpid) (mkTx_ids _ _ _ _ _ ha.hids) _ _ _ hap
  | emappend pk es =>
    simp only [handle]
    rcases emappend_admit_or_reject cfg st inp pk es hN with hr | ⟨ps, pid, ha⟩
    · rw [hr]; exact h
    · have hs := emappend_spec cfg st inp pk pid es ps ha
      cases hap : st.abs.append (mkTx cfg pk pid inp.txId ps) with
      | error err => rw [hap] at hs; rw [hs]; exact h
      | ok res =>
        obtain ⟨spec', first, last⟩ := res
        rw [hap] at hs
        obtain ⟨st', heq, habs, _⟩ := hs
        rw [heq, habs]
        have hids : ps.any (fun p => uuidHash p.eid != uuidHash pk) = false := by
          have := ha.hids
          simp only [Bool.or_eq_false_iff] at this
          exact this.2
        exact wf_append h _ rfl (modChk_eq hN ha.hpid) (mkTx_ids _ _ _ _ _ hids) _ _ _ hap
  | eget id => exact h
  | escan s lo hi pk c => exact h
  | epscan p lo hi c => exact h
  | esver s pk => exact h
  | epseq p => exact h
  | eack id c => exact h
  | esubStream _ _ _ _ => exact h
  | esubStreams _ _ _ => exact h
  | epsubAll _ _ => exact h
  | epsubOne _ _ _ => exact h
  | epsubMany _ _ _ => exact h

theorem run_wf (cfg : Cfg) (hN : 0 < cfg.numPartitions) (st : ServerState) (h : WF cfg.numPartitions st.abs)
    (hist : List (Inputs × Request)) : WF cfg.numPartitions (run cfg st hist).1.abs := by
  induction hist generalizing st with
  | nil => exact h
  | cons x rest ih =>
    obtain ⟨inp, r⟩ := x
    simp only [run]
    exact ih _ (handle_wf cfg st inp r hN h)

/-! ## point reads under the invariant -/

theorem abs_events (st : ServerState) : st.abs.events = st.events.map (·.ev) := by
  simp [ServerState.abs, Spec.events, ServerState.events, List.map_flatten]

theorem seq_lt_next {N : Nat} {s : Spec} (h : WF N s) (e : Ev) (he : e ∈ s.events) : e.seq < s.nextSeq e.pid := by
  rw [nextSeq_eq h]
  have hm : e ∈ s.events.filter (·.pid == e.pid) := List.mem_filter.mpr ⟨he, by simp⟩
  have : e.seq ∈ (s.events.filter (·.pid == e.pid)).map (·.seq) := List.mem_map.mpr ⟨e, hm, rfl⟩
  rw [h.seqs] at this
  exact List.mem_range.mp this

theorem find?_stronger (l : List α) (p q : α → Bool) (x : α) (hq : l.find? q = some x) (hp : p x = true)
    (himp : ∀ y, p y = true → q y = true) : l.find? p = some x := by
  induction l with
  | nil => simp at hq
  | cons a l ih =>
    rw [List.find?_cons] at hq ⊢
    by_cases hqa : q a = true
    · simp only [hqa] at hq
      cases hq
      simp [hp]
    · have hqa' : q a = false := by simpa using hqa
      have hpa : p a = false := by
        cases hpa : p a with
        | true => exact absurd (himp a hpa) hqa
        | false => rfl
      simp only [hqa'] at hq
      simp only [hpa]
      exact ih hq

theorem find?_none_stronger (l : List α) (p q : α → Bool) (hq : l.find? q = none)
    (himp : ∀ y, p y = true → q y = true) : l.find? p = none := by
  rw [List.find?_eq_none] at hq ⊢
  intro x hx hpx
  exact hq x hx (himp x hpx)

theorem epseq_latest (cfg : Cfg) (st : ServerState) (pid : Nat) (hwf : WF cfg.numPartitions st.abs)
    (hp : pid < cfg.numPartitions) :
    handleEPSeq cfg st (.byId pid) =
      match (st.abs.events.filter (·.pid == pid)).getLast? with
      | some e => .num e.seq
      | none => .null := by
  have hw : st.watermark pid = (st.abs.events.filter (·.pid == pid)).length := nextSeq_eq hwf pid
  simp only [handleEPSeq, selPid, hp, ↓reduceIte, hw]
  have := getLast?_map_range _ _ (hwf.seqs pid)
  cases hl : (st.abs.events.filter (·.pid == pid)).getLast? with
  | none =>
    rw [hl] at this
    by_cases h0 : (st.abs.events.filter (·.pid == pid)).length = 0
    · simp [h0]
    · simp [h0] at this
  | some e =>
    rw [hl] at this
    by_cases h0 : (st.abs.events.filter (·.pid == pid)).length = 0
    · simp [h0] at this
    · simp only [h0, ↓reduceIte, Option.map_some, Option.some.injEq] at this
      simp only [h0, ↓reduceIte, this]

theorem mem_abs_events (st : ServerState) (e : SEv) (he : e ∈ st.events) : e.ev ∈ st.abs.events := by
  rw [abs_events]; exact List.mem_map.mpr ⟨e, he, rfl⟩

theorem streamLatest_abs (st : ServerState) (key : Nat) :
    st.abs.streamLatest key =
      (st.events.reverse.find? (fun e => e.ev.stream == key)).map (fun e => (e.ev.pkey, e.ev.version)) := by
  unfold Spec.streamLatest
  rw [abs_events, ← List.map_reverse, List.find?_map, Option.map_map]
  rfl

theorem esver_latest (cfg : Cfg) (st : ServerState) (inp : Inputs) (stream : List Char) (pk : Option Nat)
    (hN : 0 < cfg.numPartitions) (hwf : WF cfg.numPartitions st.abs) :
    match st.abs.streamLatest
        (streamKey (uuidHash (pk.getD inp.derivedKey) % cfg.numPartitions % cfg.numBuckets) stream) with
    | none => handleESVer cfg st inp stream pk = .null
    | some (k, v) =>
      uuidHash k % cfg.numPartitions = uuidHash (pk.getD inp.derivedKey) % cfg.numPartitions →
        handleESVer cfg st inp stream pk = .num v := by
  simp only [handleESVer, modChk_pos _ _ hN]
  rw [streamLatest_abs]
  generalize hpid : uuidHash (pk.getD inp.derivedKey) % cfg.numPartitions = pid
  generalize hkey : streamKey (pid % cfg.numBuckets) stream = key
  cases hf : st.events.reverse.find? (fun e => e.ev.stream == key) with
  | none =>
    simp only [Option.map_none]
    rw [find?_none_stronger _ _ _ hf]
    intro y hy
    simp only [Bool.and_eq_true] at hy
    exact hy.1.1
  | some e0 =>
    simp only [Option.map_some]
    intro hk
    have hmem : e0 ∈ st.events := by
      have := List.mem_of_find?_eq_some hf
      exact List.mem_reverse.mp this
    have hstream : (e0.ev.stream == key) = true := List.find?_some (p := fun (e : SEv) => e.ev.stream == key) hf
    have hids := hwf.ids e0.ev (mem_abs_events st e0 hmem)
    have hlt := seq_lt_next hwf e0.ev (mem_abs_events st e0 hmem)
    have hp : e0.ev.pid = pid := by rw [hids.2, hk]
    rw [find?_stronger _ _ _ e0 hf]
    · simp only [hstream, hp, beq_self_eq_true, Bool.and_self, Bool.true_and, decide_eq_true_eq,
        ServerState.watermark]
      rw [← hp]; exact decide_eq_true hlt
    · intro y hy
      simp only [Bool.and_eq_true] at hy
      exact hy.1.1

theorem find?_congr_mem (l : List α) (p q : α → Bool) (h : ∀ x ∈ l, p x = q x) : l.find? p = l.find? q := by
  induction l with
  | nil => rfl
  | cons a l ih =>
    simp only [List.find?_cons, h a (by simp)]
    rw [ih (fun x hx => h x (by simp [hx]))]

/-- EGET returns the (first) event with this id if one was committed, `Null` otherwise -/
theorem eget_iff (cfg : Cfg) (st : ServerState) (id : Nat) (hN : 0 < cfg.numPartitions)
    (hwf : WF cfg.numPartitions st.abs) :
    handleEGet cfg st id =
      match st.events.find? (fun e => e.ev.eid == id) with
      | some e => .event e
      | none => .null := by
  simp only [handleEGet, modChk_pos _ _ hN]
  have hcongr : st.events.find? (fun e => e.ev.eid == id &&
        e.ev.pid % cfg.numBuckets == uuidHash id % cfg.numPartitions % cfg.numBuckets) =
      st.events.find? (fun e => e.ev.eid == id) := by
    apply find?_congr_mem
    intro e he
    by_cases hid : e.ev.eid = id
    · have hids := hwf.ids e.ev (mem_abs_events st e he)
      have : e.ev.pid = uuidHash id % cfg.numPartitions := by rw [hids.2, ← hids.1, hid]
      simp [hid, this]
    · simp [hid]
  rw [hcongr]
  cases hf : st.events.find? (fun e => e.ev.eid == id) with
  | none => rfl
  | some e =>
    have hmem : e ∈ st.events := List.mem_of_find?_eq_some hf
    have hid : (e.ev.eid == id) = true := List.find?_some (p := fun (e : SEv) => e.ev.eid == id) hf
    have hids := hwf.ids e.ev (mem_abs_events st e hmem)
    have hlt := seq_lt_next hwf e.ev (mem_abs_events st e hmem)
    have hp : e.ev.pid = uuidHash id % cfg.numPartitions := by
      rw [hids.2, ← hids.1]; simp at hid; rw [hid]
    simp only [ServerState.watermark, ← hp]
    have : ¬ (e.ev.seq + 1 > st.abs.nextSeq e.ev.pid) := by omega
    simp only [this, ↓reduceIte]

/-! ## scans under the invariant -/

theorem takeWhile_eq_filter_sorted (l : List α) (f : α → Nat) (b : Nat) (h : (l.map f).Pairwise (· < ·)) :
    l.takeWhile (fun e => decide (f e ≤ b)) = l.filter (fun e => decide (f e ≤ b)) := by
  induction l with
  | nil => rfl
  | cons a l ih =>
    simp only [List.map_cons, List.pairwise_cons] at h
    by_cases ha : f a ≤ b
    · simp only [List.takeWhile_cons, ha, decide_true, ↓reduceIte, List.filter_cons, ih h.2]
    · simp only [List.takeWhile_cons, ha, decide_false, Bool.false_eq_true, ↓reduceIte, List.filter_cons]
      symm
      apply List.filter_eq_nil_iff.mpr
      intro x hx
      have := h.1 (f x) (List.mem_map.mpr ⟨x, hx, rfl⟩)
      simp only [decide_eq_true_eq]
      omega

/-- the events of a partition in a sequence range (what EPSCAN is asked for) -/
def partRange (st : ServerState) (pid start : Nat) (endSeq : Option Nat) : List SEv :=
  st.events.filter (fun e => e.ev.pid == pid && decide (start ≤ e.ev.seq) &&
    (match endSeq with | some b => decide (e.ev.seq ≤ b) | none => true))

theorem partition_sorted (cfg : Cfg) (st : ServerState) (pid : Nat) (hwf : WF cfg.numPartitions st.abs) :
    ((st.events.filter (fun e => e.ev.pid == pid)).map (fun e => e.ev.seq)).Pairwise (· < ·) := by
  have h := hwf.seqs pid
  rw [abs_events, List.filter_map, List.map_map] at h
  have h3 : (st.events.filter (fun e => e.ev.pid == pid)).map (fun e => e.ev.seq) =
      List.map ((fun x => x.seq) ∘ fun x => x.ev) (List.filter ((fun x => x.pid == pid) ∘ fun x => x.ev) st.events) := rfl
  rw [h3, h]
  exact List.pairwise_lt_range

theorem partRange_sorted (cfg : Cfg) (st : ServerState) (pid start : Nat) (endSeq : Option Nat)
    (hwf : WF cfg.numPartitions st.abs) :
    ((partRange st pid start endSeq).map (fun e => e.ev.seq)).Pairwise (· < ·) := by
  have hs := partition_sorted cfg st pid hwf
  have hsub : (partRange st pid start endSeq).Sublist (st.events.filter (fun e => e.ev.pid == pid)) := by
    unfold partRange
    have : st.events.filter (fun e => e.ev.pid == pid && decide (start ≤ e.ev.seq) &&
        (match endSeq with | some b => decide (e.ev.seq ≤ b) | none => true)) =
        (st.events.filter (fun e => e.ev.pid == pid)).filter (fun e => decide (start ≤ e.ev.seq) &&
        (match endSeq with | some b => decide (e.ev.seq ≤ b) | none => true)) := by
      rw [List.filter_filter]
      apply List.filter_congr
      intro x _
      simp [Bool.and_assoc, Bool.and_comm]
    rw [this]
    exact List.filter_sublist
  exact hs.sublist (hsub.map _)

theorem partRange_mem (st : ServerState) (pid start : Nat) (endSeq : Option Nat) (e : SEv)
    (he : e ∈ partRange st pid start endSeq) : e ∈ st.events ∧ e.ev.pid = pid ∧ start ≤ e.ev.seq := by
  unfold partRange at he
  have := List.mem_filter.mp he
  simp only [Bool.and_eq_true, beq_iff_eq, decide_eq_true_eq] at this
  exact ⟨this.1, this.2.1.1, this.2.1.2⟩

theorem pid_seq_lt (cfg : Cfg) (st : ServerState) (hwf : WF cfg.numPartitions st.abs) (e : SEv) (he : e ∈ st.events) :
    e.ev.seq < st.watermark e.ev.pid := seq_lt_next hwf e.ev (mem_abs_events st e he)

theorem takeWhile_congr_mem (l : List α) (p q : α → Bool) (h : ∀ x ∈ l, p x = q x) :
    l.takeWhile p = l.takeWhile q := by
  induction l with
  | nil => rfl
  | cons a l ih =>
    simp only [List.takeWhile_cons, h a (by simp)]
    rw [ih (fun x hx => h x (by simp [hx]))]

/-- what the partition read loop collects before `count` cuts it: exactly the events of the range -/
theorem partition_takeWhile (cfg : Cfg) (st : ServerState) (pid start : Nat) (endSeq : Option Nat)
    (hwf : WF cfg.numPartitions st.abs) :
    (partitionFrom st pid start).takeWhile (fun e => inPartRange endSeq (st.watermark pid) e) =
      partRange st pid start endSeq := by
  have hcongr : (partitionFrom st pid start).takeWhile (fun e => inPartRange endSeq (st.watermark pid) e) =
      (partitionFrom st pid start).takeWhile (fun e => decide (e.ev.seq ≤ effEnd endSeq (st.watermark pid))) := by
    apply takeWhile_congr_mem
    intro x hx
    have hm := List.mem_filter.mp hx
    have hp : x.ev.pid = pid := by
      have := hm.2
      simp only [Bool.and_eq_true, beq_iff_eq] at this
      exact this.1
    have hlt := pid_seq_lt cfg st hwf x hm.1
    rw [hp] at hlt
    simp [inPartRange, hlt]
  rw [hcongr]
  have hsorted : ((partitionFrom st pid start).map (fun e => e.ev.seq)).Pairwise (· < ·) := by
    have := partRange_sorted cfg st pid start none hwf
    have heq : partRange st pid start none = partitionFrom st pid start := by
      unfold partRange partitionFrom
      apply List.filter_congr
      intro x _
      simp
    rw [heq] at this
    exact this
  rw [takeWhile_eq_filter_sorted (partitionFrom st pid start) (fun e => e.ev.seq)
    (effEnd endSeq (st.watermark pid)) hsorted]
  unfold partitionFrom partRange effEnd
  rw [List.filter_filter]
  apply List.filter_congr
  intro x hx
  by_cases hp : x.ev.pid = pid
  · have hlt := pid_seq_lt cfg st hwf x hx
    rw [hp] at hlt
    cases endSeq with
    | none =>
      have : x.ev.seq ≤ st.watermark pid := by omega
      simp [hp, this]
    | some b =>
      have : (x.ev.seq ≤ Nat.min b (st.watermark pid)) ↔ x.ev.seq ≤ b := by
        simp only [Nat.min_def]; split <;> omega
      simp only [hp, beq_self_eq_true, Bool.true_and, this]
      rw [Bool.and_comm]
  · have : (x.ev.pid == pid) = false := by simp [hp]
    simp [this]

/-- a strictly sorted prefix whose successor element exists: the successor is larger than its last -/
theorem take_lt_drop (l : List SEv) (c : Nat) (h : (l.map (fun e => e.ev.seq)).Pairwise (· < ·))
    (a b : SEv) (ha : a ∈ l.take c) (hb : b ∈ l.drop c) : a.ev.seq < b.ev.seq := by
  have hl : l = l.take c ++ l.drop c := (List.take_append_drop c l).symm
  rw [hl, List.map_append, List.pairwise_append] at h
  exact h.2.2 _ (List.mem_map.mpr ⟨a, ha, rfl⟩) _ (List.mem_map.mpr ⟨b, hb, rfl⟩)

theorem scanPartition_spec (cfg : Cfg) (st : ServerState) (pid start : Nat) (endSeq : Option Nat) (count : Nat)
    (hwf : WF cfg.numPartitions st.abs) :
    ∃ hm, scanPartition st pid start endSeq count = .events hm ((partRange st pid start endSeq).take count) ∧
      (hm = false → (partRange st pid start endSeq).take count = partRange st pid start endSeq) := by
  unfold scanPartition
  simp only
  by_cases hsw : start > st.watermark pid
  · simp only [hsw, ↓reduceIte]
    have hnil : partRange st pid start endSeq = [] := by
      apply List.eq_nil_iff_forall_not_mem.mpr
      intro e he
      obtain ⟨hmem, hp, hs⟩ := partRange_mem st pid start endSeq e he
      have := pid_seq_lt cfg st hwf e hmem
      rw [hp] at this
      omega
    exact ⟨false, by simp [hnil], by simp [hnil]⟩
  · simp only [hsw, ↓reduceIte]
    rw [partition_takeWhile cfg st pid start endSeq hwf]
    refine ⟨_, rfl, ?_⟩
    intro hm
    generalize hL : partRange st pid start endSeq = L at *
    have hsorted : (L.map (fun e => e.ev.seq)).Pairwise (· < ·) := by
      rw [← hL]; exact partRange_sorted cfg st pid start endSeq hwf
    cases hd : L.drop count with
    | nil =>
      have := List.take_append_drop count L
      rw [hd, List.append_nil] at this
      exact this
    | cons x rest =>
      exfalso
      have hxd : x ∈ L.drop count := by rw [hd]; simp
      have hxL : x ∈ partRange st pid start endSeq := by rw [hL]; exact List.mem_of_mem_drop hxd
      obtain ⟨hmem, hp, hs⟩ := partRange_mem st pid start endSeq x hxL
      have hlt := pid_seq_lt cfg st hwf x hmem
      rw [hp] at hlt
      simp only [decide_eq_false_iff_not] at hm
      apply hm
      cases hg : (L.take count).getLast? with
      | none => simp only; omega
      | some e =>
        have he : e ∈ L.take count := List.mem_of_getLast? hg
        have := take_lt_drop L count hsorted e x he hxd
        simp only; omega

/-- a stream (per bucket) lives in one partition -/
theorem same_stream_same_pid (cfg : Cfg) (st : ServerState) (hwf : WF cfg.numPartitions st.abs) (e1 e2 : SEv)
    (h1 : e1 ∈ st.events) (h2 : e2 ∈ st.events) (hs : e1.ev.stream = e2.ev.stream) : e1.ev.pid = e2.ev.pid := by
  have m1 := mem_abs_events st e1 h1
  have m2 := mem_abs_events st e2 h2
  rw [(hwf.ids _ m1).2, (hwf.ids _ m2).2, hwf.keys _ m1 _ m2 hs]

end SierraModel.Server
