/-
C22: the stream read loop (`scanEvents` / `scanCommits`) collects exactly the in-range events of the
requested partition, up to `count`, and `has_more = false` only when nothing of the range is left.
-/
import SierraModel.Lemmas.HandleInv

namespace SierraModel.Server
open SierraModel.Store

/-- belongs to the requested partition -/
def goodEv (pid : Nat) (e : SEv) : Bool := e.ev.pid == pid
/-- not beyond the requested end version -/
def inEnd (endV : Option Nat) (e : SEv) : Bool := !beyondEnd endV e

/-- the events of a commit list the loop is asked to return -/
def wanted (pid : Nat) (endV : Option Nat) (l : List SEv) : List SEv := (l.filter (goodEv pid)).filter (inEnd endV)

/-- strictly increasing stream versions -/
def VSorted (l : List SEv) : Prop := (l.map (fun e => e.ev.version)).Pairwise (· < ·)

theorem vsorted_cons {e : SEv} {es : List SEv} (h : VSorted (e :: es)) :
    (∀ x ∈ es, e.ev.version < x.ev.version) ∧ VSorted es := by
  unfold VSorted at h ⊢
  simp only [List.map_cons, List.pairwise_cons] at h
  exact ⟨fun x hx => h.1 _ (List.mem_map.mpr ⟨x, hx, rfl⟩), h.2⟩

theorem wanted_nil_of_beyond (pid : Nat) (endV : Option Nat) (v : Nat) (l : List SEv)
    (hb : ∀ b, endV = some b → b ≤ v) (hsome : endV.isSome) (hl : ∀ x ∈ l, v < x.ev.version) :
    wanted pid endV l = [] := by
  unfold wanted
  apply List.filter_eq_nil_iff.mpr
  intro x hx
  have hxl : x ∈ l := (List.mem_filter.mp hx).1
  have := hl x hxl
  cases endV with
  | none => simp at hsome
  | some b =>
    have := hb b rfl
    have hbe : beyondEnd (some b) x = true := by simp only [beyondEnd, decide_eq_true_eq]; omega
    simp [inEnd, hbe]

theorem wanted_cons_bad (pid : Nat) (endV : Option Nat) (e : SEv) (es : List SEv) (h : goodEv pid e = false) :
    wanted pid endV (e :: es) = wanted pid endV es := by
  simp [wanted, List.filter_cons, h]

theorem wanted_cons_in (pid : Nat) (endV : Option Nat) (e : SEv) (es : List SEv) (h : goodEv pid e = true)
    (hi : beyondEnd endV e = false) : wanted pid endV (e :: es) = e :: wanted pid endV es := by
  simp [wanted, List.filter_cons, h, inEnd, hi]

theorem wanted_cons_beyond (pid : Nat) (endV : Option Nat) (e : SEv) (es : List SEv)
    (hi : beyondEnd endV e = true) (hs : VSorted (e :: es)) : wanted pid endV (e :: es) = [] := by
  obtain ⟨hlt, _⟩ := vsorted_cons hs
  cases endV with
  | none => simp [beyondEnd] at hi
  | some b =>
    have hb : b < e.ev.version := by simpa [beyondEnd] using hi
    apply wanted_nil_of_beyond pid (some b) b (e :: es) (by intro b' h; cases h; exact Nat.le_refl _) rfl
    intro x hx
    cases List.mem_cons.mp hx with
    | inl h => rw [h]; exact hb
    | inr h => exact Nat.lt_trans hb (hlt x h)

/-- the inner loop of the stream read -/
theorem scanEvents_spec (pid count w : Nat) (endV : Option Nat) (c acc : List SEv) (hm : Bool)
    (hlen : acc.length ≤ count) (hs : VSorted c) (hall : ∀ e ∈ c, goodEv pid e = true)
    (hw : ∀ e ∈ c, e.ev.seq < w) :
    ((scanEvents pid count w endV c acc hm).2.2 = .breakIter →
        (scanEvents pid count w endV c acc hm).2.1 = true ∧
        (scanEvents pid count w endV c acc hm).1 = acc ++ (wanted pid endV c).take (count - acc.length) ∧
        (scanEvents pid count w endV c acc hm).1.length = count) ∧
    ((scanEvents pid count w endV c acc hm).2.2 = .cont →
        (scanEvents pid count w endV c acc hm).1 = acc ++ wanted pid endV c ∧
        (scanEvents pid count w endV c acc hm).1.length ≤ count ∧
        ((scanEvents pid count w endV c acc hm).2.1 = false → hm = false)) := by
  induction c generalizing acc hm with
  | nil => simp [scanEvents, wanted, hlen]
  | cons e es ih =>
    obtain ⟨_, hs'⟩ := vsorted_cons hs
    have hw' : ∀ x ∈ es, x.ev.seq < w := fun x hx => hw x (List.mem_cons_of_mem _ hx)
    have hall' : ∀ x ∈ es, goodEv pid x = true := fun x hx => hall x (List.mem_cons_of_mem _ hx)
    by_cases hg : (e.ev.pid != pid) = true
    · have hbad : goodEv pid e = false := by simpa [goodEv] using hg
      rw [hall e (by simp)] at hbad
      cases hbad
    · have hgood : goodEv pid e = true := hall e (by simp)
      simp only [scanEvents, hg, Bool.false_eq_true, ↓reduceIte]
      by_cases hc : acc.length ≥ count
      · have : count - acc.length = 0 := by omega
        simp only [hc, ↓reduceIte, this, List.take_zero, List.append_nil, true_and, reduceCtorEq, false_implies,
          and_true]
        intro _; omega
      · simp only [hc, ↓reduceIte]
        have hwe : ¬ (e.ev.seq ≥ w) := by have := hw e (by simp); omega
        simp only [hwe, ↓reduceIte]
        by_cases hb : beyondEnd endV e = true
        · simp only [hb, ↓reduceIte, reduceCtorEq, false_implies, true_and, wanted_cons_beyond pid endV e es hb hs,
            List.append_nil, true_and]
          exact fun _ => ⟨hlen, trivial⟩
        · have hb' : beyondEnd endV e = false := by simpa using hb
          simp only [hb', Bool.false_eq_true, ↓reduceIte, wanted_cons_in pid endV e es hgood hb']
          have := ih (acc ++ [e]) hm (by simp; omega) hs' hall' hw'
          simp only [List.length_append, List.length_cons, List.length_nil, List.append_assoc, List.cons_append,
            List.nil_append] at this
          refine ⟨fun h => ?_, fun h => ?_⟩
          · obtain ⟨h1, h2, h3⟩ := this.1 h
            refine ⟨h1, ?_, h3⟩
            rw [h2]
            have : count - acc.length = (count - (acc.length + 0 + 1)) + 1 := by omega
            rw [this, List.take_succ_cons]
          · exact this.2 h

theorem wanted_append (pid : Nat) (endV : Option Nat) (l1 l2 : List SEv) :
    wanted pid endV (l1 ++ l2) = wanted pid endV l1 ++ wanted pid endV l2 := by
  simp [wanted, List.filter_append]

theorem wanted_mem (pid : Nat) (endV : Option Nat) (l : List SEv) (x : SEv) (h : x ∈ wanted pid endV l) : x ∈ l :=
  (List.mem_filter.mp (List.mem_filter.mp h).1).1

theorem vsorted_append {l1 l2 : List SEv} (h : VSorted (l1 ++ l2)) :
    VSorted l1 ∧ VSorted l2 ∧ ∀ a ∈ l1, ∀ b ∈ l2, a.ev.version < b.ev.version := by
  unfold VSorted at h ⊢
  rw [List.map_append, List.pairwise_append] at h
  exact ⟨h.1, h.2.1, fun a ha b hb => h.2.2 _ (List.mem_map.mpr ⟨a, ha, rfl⟩) _ (List.mem_map.mpr ⟨b, hb, rfl⟩)⟩

theorem lastVer_mem (acc : List SEv) (h : acc ≠ []) : ∃ a ∈ acc, lastVer acc = a.ev.version := by
  unfold lastVer
  cases hg : acc.getLast? with
  | none => simp [List.getLast?_eq_none_iff] at hg; exact absurd hg h
  | some a => exact ⟨a, List.mem_of_getLast? hg, rfl⟩

/-- the outer loop of the stream read -/
theorem scanCommits_spec (pid count w : Nat) (endV : Option Nat) (cs : List (List SEv)) (acc : List SEv) (hm : Bool)
    (hlen : acc.length ≤ count) (hne : ∀ c ∈ cs, c ≠ []) (hs : VSorted cs.flatten)
    (hbefore : ∀ a ∈ acc, ∀ e ∈ cs.flatten, a.ev.version < e.ev.version)
    (hall : ∀ e ∈ cs.flatten, goodEv pid e = true)
    (hw : ∀ e ∈ cs.flatten, e.ev.seq < w) :
    (scanCommits pid count w endV cs acc hm).1 = acc ++ (wanted pid endV cs.flatten).take (count - acc.length) ∧
    ((scanCommits pid count w endV cs acc hm).2 = false →
      hm = false ∧ acc.length + (wanted pid endV cs.flatten).length ≤ count) := by
  induction cs generalizing acc hm with
  | nil => simp [scanCommits, wanted, hlen]
  | cons c cs ih =>
    simp only [List.flatten_cons] at hs hbefore hw hall ⊢
    obtain ⟨hsc, hscs, hcross⟩ := vsorted_append hs
    have hwc : ∀ e ∈ c, e.ev.seq < w := fun e he => hw e (List.mem_append_left _ he)
    have hwcs : ∀ e ∈ cs.flatten, e.ev.seq < w := fun e he => hw e (List.mem_append_right _ he)
    have hallc : ∀ e ∈ c, goodEv pid e = true := fun e he => hall e (List.mem_append_left _ he)
    have hallcs : ∀ e ∈ cs.flatten, goodEv pid e = true := fun e he => hall e (List.mem_append_right _ he)
    have hse := scanEvents_spec pid count w endV c acc hm hlen hsc hallc hwc
    rw [wanted_append]
    simp only [scanCommits]
    generalize hr : scanEvents pid count w endV c acc hm = r at hse
    obtain ⟨acc1, hm1, ctl⟩ := r
    simp only at hse
    cases ctl with
    | breakIter =>
      obtain ⟨h1, h2, h3⟩ := hse.1 rfl
      simp only
      refine ⟨?_, fun h => by rw [h1] at h; cases h⟩
      rw [h2]
      congr 1
      have hlen2 : count - acc.length ≤ (wanted pid endV c).length := by
        have := congrArg List.length h2
        simp only [List.length_append, List.length_take] at this
        omega
      rw [List.take_append_of_le_length hlen2]
    | cont =>
      obtain ⟨h1, h2, h3⟩ := hse.2 rfl
      simp only
      have hwl : (wanted pid endV c).length = acc1.length - acc.length := by
        have := congrArg List.length h1
        simp only [List.length_append] at this
        omega
      have hacc1 : acc.length ≤ acc1.length := by
        have := congrArg List.length h1
        simp only [List.length_append] at this
        omega
      by_cases hc : acc1.length ≥ count
      · simp only [hc, ↓reduceIte]
        refine ⟨?_, fun h => by cases h⟩
        rw [h1]
        congr 1
        have : count - acc.length = (wanted pid endV c).length := by omega
        rw [this, List.take_left']
        rfl
      · simp only [hc, ↓reduceIte]
        -- events already collected come before the remaining commits
        have hbefore1 : ∀ a ∈ acc1, ∀ e ∈ cs.flatten, a.ev.version < e.ev.version := by
          intro a ha e he
          rw [h1] at ha
          cases List.mem_append.mp ha with
          | inl h => exact hbefore a h e (List.mem_append_right _ he)
          | inr h => exact hcross a (wanted_mem pid endV c a h) e he
        by_cases hre : reachedEnd endV acc1 = true
        · simp only [hre, ↓reduceIte]
          -- the range is exhausted: nothing of it is left in the remaining commits
          have hnil : wanted pid endV cs.flatten = [] := by
            cases endV with
            | none => simp [reachedEnd] at hre
            | some b =>
              have hb : b ≤ lastVer acc1 := by simpa [reachedEnd] using hre
              by_cases hemp : acc1 = []
              · have hb0 : b = 0 := by simp [hemp, lastVer] at hb; exact hb
                obtain ⟨e0, he0⟩ := List.exists_mem_of_ne_nil c (hne c (by simp))
                apply wanted_nil_of_beyond pid (some b) e0.ev.version cs.flatten
                  (by intro b' h; cases h; omega) rfl
                intro x hx
                exact hcross e0 he0 x hx
              · obtain ⟨a, ha, hla⟩ := lastVer_mem acc1 hemp
                apply wanted_nil_of_beyond pid (some b) a.ev.version cs.flatten
                  (by intro b' h; cases h; omega) rfl
                intro x hx
                exact hbefore1 a ha x hx
          rw [hnil, List.append_nil]
          refine ⟨?_, fun h => ⟨h3 h, by omega⟩⟩
          rw [List.take_of_length_le (by omega)]
          exact h1
        · have hre' : reachedEnd endV acc1 = false := by simpa using hre
          simp only [hre', Bool.false_eq_true, ↓reduceIte]
          have := ih acc1 hm1 (by omega) (fun c' hc' => hne c' (List.mem_cons_of_mem _ hc')) hscs hbefore1 hallcs hwcs
          refine ⟨?_, fun h => ?_⟩
          · have e1 : (wanted pid endV c).length ≤ count - acc.length := by omega
            have e2 : count - acc.length - (wanted pid endV c).length = count - acc1.length := by omega
            rw [this.1, List.take_append, List.take_of_length_le e1, e2, ← List.append_assoc, ← h1]
          · obtain ⟨g1, g2⟩ := this.2 h
            refine ⟨h3 g1, ?_⟩
            rw [List.length_append]
            omega

/-! ## ESCAN under the invariant -/

theorem inEnd_some (b : Nat) (e : SEv) : inEnd (some b) e = decide (e.ev.version ≤ b) := by
  simp only [inEnd, beyondEnd]
  by_cases h : e.ev.version ≤ b
  · simp [h]
  · simp [h]; omega

theorem inEnd_none (e : SEv) : inEnd none e = true := rfl

/-- the events of a stream (of one partition) in a version range: what ESCAN is asked for -/
def streamRange (st : ServerState) (key pid start : Nat) (endV : Option Nat) : List SEv :=
  st.events.filter (fun e => e.ev.stream == key && decide (start ≤ e.ev.version) && goodEv pid e && inEnd endV e)

theorem flatten_streamCommits (st : ServerState) (key start : Nat) :
    (streamCommits st key start).flatten =
      st.events.filter (fun e => e.ev.stream == key && decide (start ≤ e.ev.version)) := by
  unfold streamCommits ServerState.events
  induction st.txs with
  | nil => rfl
  | cons t ts ih =>
    simp only [List.filterMap_cons, List.flatten_cons, List.filter_append]
    cases hf : t.filter (fun e => e.ev.stream == key && decide (start ≤ e.ev.version)) with
    | nil => simp only [List.nil_append]; exact ih
    | cons a l => simp only [List.flatten_cons, ih]

theorem streamCommits_ne (st : ServerState) (key start : Nat) : ∀ c ∈ streamCommits st key start, c ≠ [] := by
  intro c hc
  unfold streamCommits at hc
  obtain ⟨t, _, ht⟩ := List.mem_filterMap.mp hc
  split at ht
  · cases ht
  · rename_i hne
    cases ht
    intro h
    exact hne h

theorem stream_sorted (cfg : Cfg) (st : ServerState) (key start : Nat) (hwf : WF cfg.numPartitions st.abs) :
    VSorted (st.events.filter (fun e => e.ev.stream == key && decide (start ≤ e.ev.version))) := by
  have h := hwf.vers key
  rw [abs_events, List.filter_map, List.map_map] at h
  have hfull : VSorted (st.events.filter (fun e => e.ev.stream == key)) := by
    unfold VSorted
    have h3 : (st.events.filter (fun e => e.ev.stream == key)).map (fun e => e.ev.version) =
        List.map ((fun x => x.version) ∘ fun x => x.ev) (List.filter ((fun x => x.stream == key) ∘ fun x => x.ev) st.events) := rfl
    rw [h3, h]
    exact List.pairwise_lt_range
  have hsub : (st.events.filter (fun e => e.ev.stream == key && decide (start ≤ e.ev.version))).Sublist
      (st.events.filter (fun e => e.ev.stream == key)) := by
    have : st.events.filter (fun e => e.ev.stream == key && decide (start ≤ e.ev.version)) =
        (st.events.filter (fun e => e.ev.stream == key)).filter (fun e => decide (start ≤ e.ev.version)) := by
      rw [List.filter_filter]
      apply List.filter_congr
      intro x _
      rw [Bool.and_comm]
    rw [this]
    exact List.filter_sublist
  exact List.Pairwise.sublist (hsub.map _) hfull

/-- a stream that lives in another partition: the first event ends the scan, nothing is reported -/
theorem scanCommits_foreign (pid count w : Nat) (endV : Option Nat) (cs : List (List SEv))
    (hne : ∀ c ∈ cs, c ≠ []) (hall : ∀ e ∈ cs.flatten, goodEv pid e = false) :
    scanCommits pid count w endV cs [] false = ([], false) := by
  cases cs with
  | nil => rfl
  | cons c cs =>
    cases c with
    | nil => exact absurd rfl (hne [] (by simp))
    | cons e es =>
      have hbad : (e.ev.pid != pid) = true := by
        have := hall e (by simp)
        simpa [goodEv] using this
      simp only [scanCommits, scanEvents, hbad, ↓reduceIte]

theorem scanStream_spec (cfg : Cfg) (st : ServerState) (pid : Nat) (stream : List Char) (start : Nat) (endV : Option Nat)
    (count : Nat) (hwf : WF cfg.numPartitions st.abs) :
    ∃ hm, scanStream cfg st pid stream start endV count =
        .events hm ((streamRange st (streamKey (pid % cfg.numBuckets) stream) pid start endV).take count) ∧
      (hm = false → (streamRange st (streamKey (pid % cfg.numBuckets) stream) pid start endV).take count =
        streamRange st (streamKey (pid % cfg.numBuckets) stream) pid start endV) := by
  generalize hkey : streamKey (pid % cfg.numBuckets) stream = key
  unfold scanStream
  rw [hkey]
  have hflat := flatten_streamCommits st key start
  have hmemS : ∀ e ∈ (streamCommits st key start).flatten, e ∈ st.events ∧ e.ev.stream = key := by
    intro e he
    rw [hflat] at he
    have := List.mem_filter.mp he
    simp only [Bool.and_eq_true, beq_iff_eq] at this
    exact ⟨this.1, this.2.1⟩
  by_cases hgood : ∀ e ∈ (streamCommits st key start).flatten, goodEv pid e = true
  · have hspec := scanCommits_spec pid count (st.watermark pid) endV (streamCommits st key start) [] false (by simp)
      (streamCommits_ne st key start)
      (by rw [hflat]; exact stream_sorted cfg st key start hwf)
      (by intro a ha; simp at ha)
      hgood
      (by
        intro e he
        have hmem := (hmemS e he).1
        have := pid_seq_lt cfg st hwf e hmem
        have hp : e.ev.pid = pid := by simpa [goodEv] using hgood e he
        rw [hp] at this
        exact this)
    have hw : wanted pid endV (streamCommits st key start).flatten = streamRange st key pid start endV := by
      rw [hflat]
      unfold wanted streamRange
      rw [List.filter_filter, List.filter_filter]
      apply List.filter_congr
      intro x _
      simp only [Bool.and_assoc, Bool.and_comm, Bool.and_left_comm]
    rw [hw] at hspec
    simp only [List.nil_append, List.length_nil, Nat.sub_zero, Nat.zero_add] at hspec
    refine ⟨(scanCommits pid count (st.watermark pid) endV (streamCommits st key start) [] false).2, ?_, ?_⟩
    · simp only
      rw [hspec.1]
    · intro h
      have := (hspec.2 h).2
      exact List.take_of_length_le this
  · -- some event of the stream is in another partition: then all of them are
    have hex : ∃ e0 ∈ (streamCommits st key start).flatten, goodEv pid e0 = false := by
      apply Classical.byContradiction
      intro hno
      apply hgood
      intro e he
      cases hg : goodEv pid e with
      | true => rfl
      | false => exact absurd ⟨e, he, hg⟩ hno
    obtain ⟨e0, he0, hg0⟩ := hex
    have hp0 : e0.ev.pid ≠ pid := by simpa [goodEv] using hg0
    have hallbad : ∀ e ∈ st.events, e.ev.stream = key → goodEv pid e = false := by
      intro e he hs
      have := same_stream_same_pid cfg st hwf e e0 he (hmemS e0 he0).1 (by rw [hs, (hmemS e0 he0).2])
      simp only [goodEv, beq_eq_false_iff_ne, ne_eq]
      rw [this]; exact hp0
    have hnil : streamRange st key pid start endV = [] := by
      unfold streamRange
      apply List.filter_eq_nil_iff.mpr
      intro x hx
      by_cases hs : x.ev.stream = key
      · simp [hallbad x hx hs]
      · simp [hs]
    rw [scanCommits_foreign pid count (st.watermark pid) endV (streamCommits st key start)
      (streamCommits_ne st key start) (fun e he => hallbad e (hmemS e he).1 (hmemS e he).2)]
    exact ⟨false, by simp [hnil], by simp [hnil]⟩

end SierraModel.Server
