import SierraModel.Lemmas.Assign
import Mathlib.Data.List.Nodup

namespace SierraModel.Topology

abbrev Active := List (Nat × (Nat × Nat))

/-! ### association-list facts -/

theorem mem_amInsert {α} (m : List (Nat × α)) (k : Nat) (v : α) (e : Nat × α)
    (h : e ∈ amInsert m k v) : e = (k, v) ∨ (e ∈ m ∧ e.1 ≠ k) := by
  unfold amInsert at h
  split at h
  · simp only [List.mem_map] at h
    obtain ⟨x, hx, rfl⟩ := h
    by_cases hk : x.1 = k
    · left; simp [hk]
    · right; simp [hk, hx]
  · simp only [List.mem_append, List.mem_singleton] at h
    rename_i hnone
    rcases h with h | h
    · right
      refine ⟨h, ?_⟩
      intro hk
      apply hnone
      simp only [List.any_eq_true, beq_iff_eq]
      exact ⟨e, h, hk⟩
    · left; exact h

theorem mem_addRef (refs : List Nat) (p x : Nat) : x ∈ addRef refs p ↔ x = p ∨ x ∈ refs := by
  unfold addRef
  split
  · rename_i h
    simp only [List.contains_iff_mem] at h
    constructor
    · intro hx; right; exact hx
    · rintro (rfl | hx)
      · exact h
      · exact hx
  · simp only [List.mem_append, List.mem_singleton]
    constructor
    · rintro (h | h); right; exact h; left; exact h
    · rintro (h | h); right; exact h; left; exact h

theorem addRef_of_mem (refs : List Nat) (p : Nat) (h : p ∈ refs) : addRef refs p = refs := by
  unfold addRef; simp [h]

theorem amGet_some_mem {α} (m : List (Nat × α)) (k : Nat) (v : α) (h : amGet m k = some v) :
    (k, v) ∈ m := by
  unfold amGet at h
  cases hf : m.find? (fun e => e.1 == k) with
  | none => simp [hf] at h
  | some e =>
    simp only [hf, Option.map_some, Option.some.injEq] at h
    have h1 := List.find?_some hf
    have h2 := List.mem_of_find?_eq_some hf
    simp only [beq_iff_eq] at h1
    have : e = (k, v) := by cases e; simp_all
    exact this ▸ h2

/-! ### the invariant -/

def ActiveInRefs (m : Mgr) : Prop := ∀ e ∈ m.active, e.1 ∈ m.refs
def ReplicasCurrent (m : Mgr) : Prop := m.replicas = (recalc m).replicas
structure Inv (m : Mgr) : Prop where
  air : ActiveInRefs m
  cur : ReplicasCurrent m
  loc : m.localPeer ∈ m.refs

theorem recalc_current (m : Mgr) : ReplicasCurrent (recalc m) := rfl
@[simp] theorem recalc_active (m : Mgr) : (recalc m).active = m.active := rfl
@[simp] theorem recalc_refs (m : Mgr) : (recalc m).refs = m.refs := rfl
@[simp] theorem recalc_local (m : Mgr) : (recalc m).localPeer = m.localPeer := rfl
@[simp] theorem recalc_cfg (m : Mgr) : (recalc m).cfg = m.cfg := rfl

theorem inv_recalc (m : Mgr) (h1 : ActiveInRefs m) (h2 : m.localPeer ∈ m.refs) : Inv (recalc m) :=
  ⟨h1, recalc_current m, h2⟩

theorem inv_new (cfg : Cfg) (peer idx since : Nat) : Inv (Mgr.new cfg peer idx since) := by
  unfold Mgr.new
  apply inv_recalc
  · intro e he; simp_all [ActiveInRefs]
  · simp

def ValidEv (m : Mgr) : Ev → Prop
  | .disconnect p => p ≠ m.localPeer
  | _ => True

theorem foldl_addRef_mem (l : List Nat) (refs : List Nat) (x : Nat) :
    x ∈ l.foldl addRef refs ↔ x ∈ refs ∨ x ∈ l := by
  induction l generalizing refs with
  | nil => simp
  | cons a l ih =>
    simp only [List.foldl_cons, ih, mem_addRef, List.mem_cons]
    constructor
    · rintro ((h | h) | h)
      · right; left; exact h
      · left; exact h
      · right; right; exact h
    · rintro (h | h | h)
      · left; right; exact h
      · left; left; exact h
      · right; exact h

theorem foldl_filtered_insert_keys (refs : List Nat) (msg acc : Active)
    (hacc : ∀ e ∈ acc, e.1 ∈ refs) :
    ∀ e ∈ msg.foldl (fun acc e => if refs.contains e.1 then amInsert acc e.1 e.2 else acc) acc, e.1 ∈ refs := by
  induction msg generalizing acc with
  | nil => simpa using hacc
  | cons x msg ih =>
    simp only [List.foldl_cons]
    apply ih
    split
    · rename_i hc
      intro e he
      rcases mem_amInsert _ _ _ _ he with h | h
      · subst h; simpa using hc
      · exact hacc e h.1
    · exact hacc

theorem inv_step (m : Mgr) (e : Ev) (hi : Inv m) (hv : ValidEv m e) : Inv (stepEv m e) := by
  obtain ⟨hair, hcur, hloc⟩ := hi
  cases e with
  | connect p s i =>
    apply inv_recalc
    · intro e he
      rcases mem_amInsert _ _ _ _ he with h | h
      · subst h; exact (mem_addRef _ _ _).mpr (Or.inl rfl)
      · exact (mem_addRef _ _ _).mpr (Or.inr (hair e h.1))
    · exact (mem_addRef _ _ _).mpr (Or.inr hloc)
  | disconnect p =>
    apply inv_recalc
    · intro e he
      simp only [amRemove, List.mem_filter, Bool.not_eq_true', beq_eq_false_iff_ne, ne_eq] at he
      simp only [List.mem_filter, bne_iff_ne, ne_eq]
      exact ⟨hair e he.1, he.2⟩
    · simp only [List.mem_filter, bne_iff_ne, ne_eq]
      exact ⟨hloc, fun h => hv h.symm⟩
  | heartbeat p s i =>
    simp only [stepEv, onHeartbeat]
    have hins : ActiveInRefs { m with refs := addRef m.refs p, active := amInsert m.active p (s, i) } := by
      intro e he
      rcases mem_amInsert _ _ _ _ he with h | h
      · subst h; exact (mem_addRef _ _ _).mpr (Or.inl rfl)
      · exact (mem_addRef _ _ _).mpr (Or.inr (hair e h.1))
    cases hg : amGet m.active p with
    | none =>
      simp only []
      exact inv_recalc _ hins ((mem_addRef _ _ _).mpr (Or.inr hloc))
    | some v =>
      obtain ⟨vs, vi⟩ := v
      simp only []
      split
      · exact inv_recalc _ hins ((mem_addRef _ _ _).mpr (Or.inr hloc))
      · -- unchanged membership: the peer is active, hence already had a ref
        have hp : p ∈ m.refs := hair _ (amGet_some_mem _ _ _ hg)
        rw [addRef_of_mem _ _ hp]
        exact ⟨hair, hcur, hloc⟩
  | timeouts ps =>
    simp only [stepEv, onTimeouts]
    split
    · exact ⟨hair, hcur, hloc⟩
    · apply inv_recalc
      · intro e he
        simp only [List.mem_filter, Bool.not_eq_true'] at he
        simp only [List.mem_filter, Bool.not_eq_true']
        exact ⟨hair e he.1, he.2⟩
      · simp only [List.mem_filter, Bool.not_eq_true', List.contains_eq_mem, decide_eq_false_iff_not,
          bne_iff_ne, ne_eq, Bool.and_eq_true, not_and]
        exact ⟨hloc, fun _ h => absurd trivial h⟩
  | response rp a =>
    simp only [stepEv, onOwnershipResponse]
    apply inv_recalc
    · intro e he
      rcases mem_amInsert _ _ _ _ he with h | h
      · subst h; exact (foldl_addRef_mem _ _ _).mpr (Or.inl hloc)
      · exact foldl_filtered_insert_keys _ a [] (by simp) e h.1
    · exact (foldl_addRef_mem _ _ _).mpr (Or.inl hloc)

/-- events valid along a run -/
def ValidRun : Mgr → List Ev → Prop
  | _, [] => True
  | m, e :: es => ValidEv m e ∧ ValidRun (stepEv m e) es

theorem inv_run (m : Mgr) (es : List Ev) (hi : Inv m) (hv : ValidRun m es) : Inv (es.foldl stepEv m) := by
  induction es generalizing m with
  | nil => simpa
  | cons e es ih => exact ih _ (inv_step m e hi hv.1) hv.2

/-! ### replica sets are a function of the membership -/

def SameMembers (a1 a2 : Active) : Prop := ∀ x, x ∈ a1 ↔ x ∈ a2
def UniqueIdx (a : Active) : Prop := ∀ x ∈ a, ∀ y ∈ a, x.2.2 = y.2.2 → x = y
def UniquePeer (a : Active) : Prop := ∀ x ∈ a, ∀ y ∈ a, x.1 = y.1 → x = y

theorem knownOf_eq_map (a : Active) (refs : List Nat) (h : ∀ e ∈ a, e.1 ∈ refs) :
    knownOf a refs = a.map (fun e => (e.2.2, e.1)) := by
  unfold knownOf
  induction a with
  | nil => rfl
  | cons x a ih =>
    have hx : refs.contains x.1 = true := by simpa using h x (by simp)
    simp only [List.filterMap_cons, hx, if_true, List.map_cons]
    rw [ih (fun e he => h e (by simp [he]))]

theorem known_get_map (a : Active) (idx : Nat) :
    Known.get (a.map (fun e => (e.2.2, e.1))) idx = (a.find? (fun e => e.2.2 == idx)).map (·.1) := by
  unfold Known.get
  rw [List.find?_map]
  have : ((fun e : Nat × Nat => e.1 == idx) ∘ fun e : Nat × Nat × Nat => (e.2.2, e.1)) = (fun e => e.2.2 == idx) := rfl
  rw [this]
  cases a.find? (fun e => e.2.2 == idx) <;> rfl

theorem find_unique (a : Active) (hu : UniqueIdx a) (x : Nat × Nat × Nat) (hx : x ∈ a) :
    a.find? (fun e => e.2.2 == x.2.2) = some x := by
  cases hf : a.find? (fun e => e.2.2 == x.2.2) with
  | none =>
    rw [List.find?_eq_none] at hf
    exact absurd (by simp) (hf x hx)
  | some y =>
    have h1 := List.find?_some hf
    have h2 := List.mem_of_find?_eq_some hf
    simp only [beq_iff_eq] at h1
    rw [hu y h2 x hx h1]

theorem find_same (a1 a2 : Active) (hs : SameMembers a1 a2) (_hu1 : UniqueIdx a1) (hu2 : UniqueIdx a2)
    (idx : Nat) : a1.find? (fun e => e.2.2 == idx) = a2.find? (fun e => e.2.2 == idx) := by
  cases hf : a1.find? (fun e => e.2.2 == idx) with
  | none =>
    symm; rw [List.find?_eq_none] at hf ⊢
    intro x hx; exact hf x ((hs x).mpr hx)
  | some y =>
    have h1 := List.find?_some hf
    have h2 := List.mem_of_find?_eq_some hf
    simp only [beq_iff_eq] at h1
    subst h1
    exact (find_unique a2 hu2 y ((hs y).mp h2)).symm

theorem sameMembers_isEmpty (a1 a2 : Active) (hs : SameMembers a1 a2) : a1.isEmpty = a2.isEmpty := by
  cases a1 with
  | nil =>
    cases a2 with
    | nil => rfl
    | cons y _ => exact absurd ((hs y).mpr (by simp)) (by simp)
  | cons x _ =>
    cases a2 with
    | nil => exact absurd ((hs x).mp (by simp)) (by simp)
    | cons _ _ => rfl

theorem amGet_unique (a : Active) (hu : UniquePeer a) (x : Nat × Nat × Nat) (hx : x ∈ a) :
    amGet a x.1 = some x.2 := by
  unfold amGet
  cases hf : a.find? (fun e => e.1 == x.1) with
  | none =>
    rw [List.find?_eq_none] at hf
    exact absurd (by simp) (hf x hx)
  | some y =>
    have h1 := List.find?_some hf
    have h2 := List.mem_of_find?_eq_some hf
    simp only [beq_iff_eq] at h1
    rw [hu y h2 x hx h1]; rfl

theorem amGet_same (a1 a2 : Active) (hs : SameMembers a1 a2) (hu1 : UniquePeer a1) (hu2 : UniquePeer a2)
    (peer : Nat) : amGet a1 peer = amGet a2 peer := by
  cases hg : amGet a1 peer with
  | none =>
    cases hg2 : amGet a2 peer with
    | none => rfl
    | some v =>
      have := (hs _).mpr (amGet_some_mem _ _ _ hg2)
      have := amGet_unique a1 hu1 _ this
      simp_all
  | some v =>
    have := (hs _).mp (amGet_some_mem _ _ _ hg)
    exact (amGet_unique a2 hu2 _ this).symm

end SierraModel.Topology
