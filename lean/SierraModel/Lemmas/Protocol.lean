/-
Invariants of the protocol model (`Cluster/Protocol.lean`) and their preservation by every step.
Used by `Props/C10.lean` and `Props/C11.lean`.
-/
import SierraModel.Cluster.Protocol

namespace SierraModel.Protocol

/-! ### Vocabulary -/

/-- node `r` stores transaction `t` at sequence `p` -/
def holdsAt (s : Sys) (r : NodeId) (t : Tx) (p : Nat) : Prop :=
  ∃ n e, s.nodes[r]? = some n ∧ n.log[p]? = some e ∧ e.tx = t

/-- at least a quorum of distinct nodes store `t` at `p` -/
def QH (s : Sys) (t : Tx) (p : Nat) : Prop :=
  ∃ rs : List NodeId, rs.Nodup ∧ s.q ≤ rs.length ∧ ∀ r ∈ rs, holdsAt s r t p

def entryOK (s : Sys) (e : Entry) (p : Nat) : Prop :=
  (e.tx, p) ∈ s.started ∧ (s.q ≤ e.cnt → QH s e.tx p)

def logOK (s : Sys) (l : List Entry) : Prop := ∀ p e, l[p]? = some e → entryOK s e p

def bufOK (s : Sys) (b : List BufE) : Prop := ∀ e ∈ b, (e.tx, e.key) ∈ s.started

def taskOK (s : Sys) (i : NodeId) (log : List Entry) (tk : Task) : Prop :=
  (tk.tx, tk.seq) ∈ s.started ∧ tk.confirmed.Nodup ∧ (∀ r ∈ tk.confirmed, holdsAt s r tk.tx tk.seq) ∧
  tk.pending.Nodup ∧ (∀ r ∈ tk.pending, r ∉ tk.confirmed) ∧
  (tk.counted = true → s.q ≤ tk.confirmed.length ∧
      ∃ e, log[tk.seq]? = some e ∧ e.tx = tk.tx ∧ s.q ≤ e.cnt) ∧
  holdsAt s i tk.tx tk.seq ∧ (tk.acked = true → tk.counted = true)

def msgOK (s : Sys) : Msg → Prop
  | .rw _ _ t p => (t, p) ∈ s.started
  | .reply src _ t p ok => (t, p) ∈ s.started ∧ (ok = true → holdsAt s src t p)
  | .confirm _ _ t p c => (t, p) ∈ s.started ∧ s.q ≤ c ∧ QH s t p
  | .syncReq _ _ _ _ => True
  | .syncResp _ _ cs => ∀ c ∈ cs, (c.tx, c.seq) ∈ s.started ∧ (s.q ≤ c.cnt → QH s c.tx c.seq)

/-- the client was told `Ok` for `(t, p)` by coordinator `a.1` -/
def ackOK (s : Sys) (a : NodeId × Tx × Nat) : Prop :=
  ∃ n e, s.nodes[a.1]? = some n ∧ n.log[a.2.2]? = some e ∧ e.tx = a.2.1 ∧ s.q ≤ e.cnt

def startedFun (s : Sys) : Prop := ∀ t p p', (t, p) ∈ s.started → (t, p') ∈ s.started → p = p'

def nodeOK (s : Sys) (i : NodeId) (n : Node) : Prop :=
  logOK s n.log ∧ bufOK s n.buf ∧ ∀ tk ∈ n.tasks, taskOK s i n.log tk

structure Inv (s : Sys) : Prop where
  len : s.nodes.length = s.rf
  rule : s.anyCatchup = false
  sfun : startedFun s
  nodes : ∀ i n, s.nodes[i]? = some n → nodeOK s i n
  net : ∀ m ∈ s.net, msgOK s m
  acks : ∀ a ∈ s.acks, ackOK s a

/-! ### Growth order: logs only grow, transactions stay, quorum counts stay quorum counts -/

def LogLe (q : Nat) (l l' : List Entry) : Prop :=
  ∀ (p : Nat) (e : Entry), l[p]? = some e →
    ∃ e' : Entry, l'[p]? = some e' ∧ e'.tx = e.tx ∧ (q ≤ e.cnt → q ≤ e'.cnt)

structure Le (s s' : Sys) : Prop where
  rf : s'.rf = s.rf
  started : ∀ x ∈ s.started, x ∈ s'.started
  nodes : ∀ (i : Nat) (n : Node), s.nodes[i]? = some n →
    ∃ n' : Node, s'.nodes[i]? = some n' ∧ LogLe s.q n.log n'.log

theorem LogLe.refl (q : Nat) (l : List Entry) : LogLe q l l := fun _ e h => ⟨e, h, rfl, id⟩

theorem LogLe.trans {q : Nat} {a b c : List Entry} (h1 : LogLe q a b) (h2 : LogLe q b c) : LogLe q a c := by
  intro p e h
  obtain ⟨e1, g1, t1, c1⟩ := h1 p e h
  obtain ⟨e2, g2, t2, c2⟩ := h2 p e1 g1
  exact ⟨e2, g2, t2.trans t1, fun x => c2 (c1 x)⟩

theorem Le.q_eq {s s' : Sys} (h : Le s s') : s'.q = s.q := by simp [Sys.q, h.rf]

theorem Le.refl (s : Sys) : Le s s := ⟨rfl, fun _ h => h, fun _ n h => ⟨n, h, LogLe.refl _ _⟩⟩

theorem Le.trans {a b c : Sys} (h1 : Le a b) (h2 : Le b c) : Le a c := by
  refine ⟨h2.rf.trans h1.rf, fun x hx => h2.started x (h1.started x hx), ?_⟩
  intro i n hn
  obtain ⟨n1, g1, l1⟩ := h1.nodes i n hn
  obtain ⟨n2, g2, l2⟩ := h2.nodes i n1 g1
  rw [h1.q_eq] at l2
  exact ⟨n2, g2, l1.trans l2⟩

theorem holdsAt.mono {s s' : Sys} (h : Le s s') {r t p} : holdsAt s r t p → holdsAt s' r t p := by
  rintro ⟨n, e, hn, he, ht⟩
  obtain ⟨n', hn', hl⟩ := h.nodes r n hn
  obtain ⟨e', he', ht', _⟩ := hl p e he
  exact ⟨n', e', hn', he', ht'.trans ht⟩

theorem QH.mono {s s' : Sys} (h : Le s s') {t p} : QH s t p → QH s' t p := by
  rintro ⟨rs, nd, hq, hr⟩
  exact ⟨rs, nd, by rw [h.q_eq]; exact hq, fun r hr' => (hr r hr').mono h⟩

theorem entryOK.mono {s s' : Sys} (h : Le s s') {e p} : entryOK s e p → entryOK s' e p := by
  rintro ⟨h1, h2⟩
  exact ⟨h.started _ h1, fun hq => (h2 (by rw [← h.q_eq]; exact hq)).mono h⟩

theorem logOK.mono {s s' : Sys} (h : Le s s') {l} : logOK s l → logOK s' l :=
  fun hl p e he => (hl p e he).mono h

theorem bufOK.mono {s s' : Sys} (h : Le s s') {b} : bufOK s b → bufOK s' b :=
  fun hb e he => h.started _ (hb e he)

theorem msgOK.mono {s s' : Sys} (h : Le s s') {m} : msgOK s m → msgOK s' m := by
  cases m with
  | rw _ _ t p => exact fun x => h.started _ x
  | reply src _ t p ok => exact fun ⟨a, b⟩ => ⟨h.started _ a, fun o => (b o).mono h⟩
  | confirm _ _ t p c =>
    exact fun ⟨a, b, c⟩ => ⟨h.started _ a, by rw [h.q_eq]; exact b, c.mono h⟩
  | syncReq _ _ _ _ => exact fun _ => trivial
  | syncResp _ _ cs =>
    exact fun hc c hcm => ⟨h.started _ (hc c hcm).1, fun hq => ((hc c hcm).2 (by rw [← h.q_eq]; exact hq)).mono h⟩

theorem ackOK.mono {s s' : Sys} (h : Le s s') {a} : ackOK s a → ackOK s' a := by
  rintro ⟨n, e, hn, he, ht, hc⟩
  obtain ⟨n', hn', hl⟩ := h.nodes _ n hn
  obtain ⟨e', he', ht', hc'⟩ := hl _ e he
  exact ⟨n', e', hn', he', ht'.trans ht, by rw [h.q_eq]; exact hc' hc⟩

/-- a task stays fine when the system grows and its node's log grows -/
theorem taskOK.mono {s s' : Sys} (h : Le s s') {i l l' tk} (hl : LogLe s.q l l') :
    taskOK s i l tk → taskOK s' i l' tk := by
  rintro ⟨a, b, c, d, e, f, g, g2⟩
  refine ⟨h.started _ a, b, fun r hr => (c r hr).mono h, d, e, ?_, g.mono h, g2⟩
  intro hc
  obtain ⟨f1, e0, he0, ht0, hq0⟩ := f hc
  obtain ⟨e', he', ht', hc'⟩ := hl _ e0 he0
  rw [h.q_eq]
  exact ⟨f1, e', he', ht'.trans ht0, hc' hq0⟩

/-! ### Generic update: one node replaced (its log grown), network / ghost lists replaced -/

/-- `s` with node `r := n'`, network, acks, started replaced -/
def Sys.upd (s : Sys) (r : NodeId) (n' : Node) (net' : List Msg) (acks' : List (NodeId × Tx × Nat))
    (started' : List (Tx × Nat)) : Sys :=
  { rf := s.rf, anyCatchup := s.anyCatchup, nodes := s.nodes.set r n', net := net', acks := acks',
    started := started' }

theorem le_upd {s : Sys} {r : NodeId} {n n' : Node} (hn : s.nodes[r]? = some n)
    (hle : LogLe s.q n.log n'.log) (net' acks') {started' : List (Tx × Nat)}
    (hst : ∀ x ∈ s.started, x ∈ started') : Le s (s.upd r n' net' acks' started') := by
  refine ⟨rfl, hst, ?_⟩
  intro i m hm
  by_cases hir : r = i
  · subst hir
    have hlt : r < s.nodes.length := by
      rcases List.getElem?_eq_some_iff.mp hn with ⟨h, _⟩; exact h
    refine ⟨n', by simp [Sys.upd, hlt], ?_⟩
    have : m = n := by rw [hn] at hm; exact (Option.some.inj hm).symm
    subst this; exact hle
  · exact ⟨m, by simp [Sys.upd, List.getElem?_set_ne hir, hm], LogLe.refl _ _⟩

theorem Inv.upd {s : Sys} (hI : Inv s) {r : NodeId} {n n' : Node} (hn : s.nodes[r]? = some n)
    (hle : LogLe s.q n.log n'.log) {net' : List Msg} {acks' : List (NodeId × Tx × Nat)}
    {started' : List (Tx × Nat)} (hst : ∀ x ∈ s.started, x ∈ started')
    (hfun : startedFun (s.upd r n' net' acks' started'))
    (hnode : nodeOK (s.upd r n' net' acks' started') r n')
    (hnet : ∀ m ∈ net', m ∈ s.net ∨ msgOK (s.upd r n' net' acks' started') m)
    (hacks : ∀ a ∈ acks', a ∈ s.acks ∨ ackOK (s.upd r n' net' acks' started') a) :
    Inv (s.upd r n' net' acks' started') := by
  have hL := le_upd hn hle net' acks' hst
  refine ⟨by simp [Sys.upd, hI.len], hI.rule, hfun, ?_, ?_, ?_⟩
  · intro i m hm
    by_cases hir : r = i
    · subst hir
      have hlt : r < s.nodes.length := by
        rcases List.getElem?_eq_some_iff.mp hn with ⟨h, _⟩; exact h
      have : m = n' := by
        have : (s.nodes.set r n')[r]? = some n' := by simp [hlt]
        simp only [Sys.upd] at hm; rw [this] at hm; exact (Option.some.inj hm).symm
      subst this; exact hnode
    · have hm' : s.nodes[i]? = some m := by
        simpa [Sys.upd, List.getElem?_set_ne hir] using hm
      obtain ⟨a, b, c⟩ := hI.nodes i m hm'
      exact ⟨a.mono hL, b.mono hL, fun tk htk => (c tk htk).mono hL (LogLe.refl _ _)⟩
  · intro m hm
    rcases hnet m hm with h | h
    · exact (hI.net m h).mono hL
    · exact h
  · intro a ha
    rcases hacks a ha with h | h
    · exact (hI.acks a h).mono hL
    · exact h

/-! ### Node-local steps of the replica side -/

/-- messages a replica-side step may emit, judged against the node's new state -/
def outOK (s : Sys) (me : NodeId) (n' : Node) : Msg → Prop
  | .reply src _ t p ok => src = me ∧ (t, p) ∈ s.started ∧
      (ok = true → ∃ e : Entry, n'.log[p]? = some e ∧ e.tx = t)
  | .syncReq _ _ _ _ => True
  | _ => False

/-- a replica-side step `n → n'` emitting `out`: the log is extended by entries of started
transactions at their assigned sequences (with a quorum count only if backed by a quorum, or `q ≤ 1`),
the buffer holds started pairs, tasks untouched -/
structure LocalOK (s : Sys) (me : NodeId) (n n' : Node) (out : List Msg) : Prop where
  ext : ∃ ext : List Entry, n'.log = n.log ++ ext ∧ ∀ (k : Nat) (e : Entry), ext[k]? = some e →
      (e.tx, n.log.length + k) ∈ s.started ∧ (s.q ≤ e.cnt → QH s e.tx (n.log.length + k) ∨ s.q ≤ 1)
  buf : ∀ e ∈ n'.buf, (e.tx, e.key) ∈ s.started
  out : ∀ m ∈ out, outOK s me n' m
  tasks : ∀ tk ∈ n'.tasks, tk ∈ n.tasks

theorem outOK.ext {s : Sys} {me : NodeId} {n n' : Node} {m : Msg} (h : outOK s me n m)
    {ext : List Entry} (hl : n'.log = n.log ++ ext) : outOK s me n' m := by
  cases m with
  | reply src d t p ok =>
    obtain ⟨a, b, c⟩ := h
    refine ⟨a, b, fun o => ?_⟩
    obtain ⟨e, he, ht⟩ := c o
    refine ⟨e, ?_, ht⟩
    have hp : p < n.log.length := by
      rcases List.getElem?_eq_some_iff.mp he with ⟨h, _⟩; exact h
    rw [hl, List.getElem?_append_left hp]; exact he
  | syncReq _ _ _ _ => trivial
  | rw _ _ _ _ => exact h
  | confirm _ _ _ _ _ => exact h
  | syncResp _ _ _ => exact h

theorem LocalOK.refl {s : Sys} {me : NodeId} {n : Node} (hb : ∀ e ∈ n.buf, (e.tx, e.key) ∈ s.started) :
    LocalOK s me n n [] :=
  ⟨⟨[], by simp, by simp⟩, hb, by simp, fun _ h => h⟩

theorem LocalOK.trans {s : Sys} {me : NodeId} {a b c : Node} {o1 o2 : List Msg}
    (h1 : LocalOK s me a b o1) (h2 : LocalOK s me b c o2) : LocalOK s me a c (o1 ++ o2) := by
  obtain ⟨e1, hl1, hp1⟩ := h1.ext
  obtain ⟨e2, hl2, hp2⟩ := h2.ext
  refine ⟨⟨e1 ++ e2, by rw [hl2, hl1, List.append_assoc], ?_⟩, h2.buf, ?_, fun tk h => h1.tasks tk (h2.tasks tk h)⟩
  · intro k e hk
    by_cases hlt : k < e1.length
    · rw [List.getElem?_append_left hlt] at hk; exact hp1 k e hk
    · have hge : e1.length ≤ k := Nat.le_of_not_lt hlt
      rw [List.getElem?_append_right hge] at hk
      have := hp2 (k - e1.length) e hk
      have hlen : b.log.length + (k - e1.length) = a.log.length + k := by
        rw [hl1, List.length_append]; omega
      rw [hlen] at this; exact this
  · intro m hm
    rcases List.mem_append.mp hm with h | h
    · exact (h1.out m h).ext hl2
    · exact h2.out m h

theorem outOK_replyAll_false {s : Sys} {me : NodeId} {n' : Node} {ss : List NodeId} {t : Tx} {p : Nat}
    (h : (t, p) ∈ s.started) : ∀ m ∈ replyAll me ss t p false, outOK s me n' m := by
  intro m hm
  obtain ⟨d, _, rfl⟩ := List.mem_map.mp hm
  exact ⟨rfl, h, by simp⟩

theorem outOK_replyAll_true {s : Sys} {me : NodeId} {n' : Node} {ss : List NodeId} {t : Tx} {p : Nat}
    (h : (t, p) ∈ s.started) {e : Entry} (he : n'.log[p]? = some e) (ht : e.tx = t) :
    ∀ m ∈ replyAll me ss t p true, outOK s me n' m := by
  intro m hm
  obtain ⟨d, _, rfl⟩ := List.mem_map.mp hm
  exact ⟨rfl, h, fun _ => ⟨e, he, ht⟩⟩

theorem outOK_stale {s : Sys} {me : NodeId} {n' : Node} {buf : List BufE} {nx : Nat}
    (h : ∀ e ∈ buf, (e.tx, e.key) ∈ s.started) : ∀ m ∈ staleReplies me buf nx, outOK s me n' m := by
  intro m hm
  obtain ⟨e, he, hm'⟩ := List.mem_flatMap.mp hm
  exact outOK_replyAll_false (h e (List.mem_filter.mp he).1) m hm'

/-- one successful append of a started pair at the end of the log -/
theorem LocalOK.append {s : Sys} {me : NodeId} {n : Node} {t : Tx} {c nx : Nat} {buf' : List BufE}
    {out : List Msg} (hs : (t, n.log.length) ∈ s.started)
    (hc : s.q ≤ c → QH s t n.log.length ∨ s.q ≤ 1)
    (hb : ∀ e ∈ buf', (e.tx, e.key) ∈ s.started)
    (ho : ∀ m ∈ out, outOK s me { n with log := n.log ++ [⟨t, c⟩], next := nx, buf := buf' } m) :
    LocalOK s me n { n with log := n.log ++ [⟨t, c⟩], next := nx, buf := buf' } out := by
  refine ⟨⟨[⟨t, c⟩], rfl, ?_⟩, hb, ho, fun _ h => h⟩
  intro k e hk
  cases k with
  | zero => simp at hk; subst hk; exact ⟨hs, hc⟩
  | succ k => simp at hk

theorem initCnt_quorum {q : Nat} (h : q ≤ initCnt q) : q ≤ 1 := by
  unfold initCnt at h; split at h <;> omega

theorem drain_spec (s : Sys) (me : NodeId) : ∀ (f : Nat) (n : Node),
    (∀ e ∈ n.buf, (e.tx, e.key) ∈ s.started) →
    LocalOK s me n (drain s.q me f n).1 (drain s.q me f n).2 := by
  intro f
  induction f with
  | zero => intro n hb; exact LocalOK.refl hb
  | succ f ih =>
    intro n hb
    unfold drain
    split
    · exact LocalOK.refl hb
    · rename_i e hfind
      have hmem : e ∈ n.buf := List.mem_of_find?_eq_some hfind
      have hsub : ∀ x ∈ n.buf.filter (fun x => x.key != n.next), (x.tx, x.key) ∈ s.started :=
        fun x hx => hb x (List.mem_filter.mp hx).1
      by_cases hlen : n.log.length = e.key
      · dsimp only
        rw [if_pos hlen]
        have hbuf' : ∀ x ∈ keepFrom (n.buf.filter (fun x => x.key != n.next)) (e.key + 1),
            (x.tx, x.key) ∈ s.started := fun x hx => hsub x (List.mem_filter.mp hx).1
        have hA := LocalOK.append (s := s) (me := me) (n := n) (t := e.tx) (c := initCnt s.q)
          (nx := e.key + 1) (buf' := keepFrom (n.buf.filter (fun x => x.key != n.next)) (e.key + 1))
          (out := replyAll me e.senders e.tx e.key true ++
            staleReplies me (n.buf.filter (fun x => x.key != n.next)) (e.key + 1))
          (by rw [hlen]; exact hb e hmem) (fun h => Or.inr (initCnt_quorum h)) hbuf'
          (by
            intro m hm
            rcases List.mem_append.mp hm with h | h
            · refine outOK_replyAll_true (hb e hmem) (e := ⟨e.tx, initCnt s.q⟩) ?_ rfl m h
              simp [← hlen]
            · exact outOK_stale hsub m h)
        have hB := ih ⟨n.log ++ [⟨e.tx, initCnt s.q⟩], n.crashed, e.key + 1,
            keepFrom (n.buf.filter (fun x => x.key != n.next)) (e.key + 1), n.catching, n.tasks⟩ hbuf'
        have := hA.trans hB
        simpa [hlen, List.append_assoc] using this
      · dsimp only
        rw [if_neg hlen]
        exact ⟨⟨[], by simp, by simp⟩, hsub, outOK_replyAll_false (hb e hmem), fun _ h => h⟩

theorem applyCommits_spec (s : Sys) (me : NodeId) : ∀ (lim : Nat) (cs : List Commit) (n : Node),
    (∀ c ∈ cs, (c.tx, c.seq) ∈ s.started ∧ (s.q ≤ c.cnt → QH s c.tx c.seq)) →
    (∀ e ∈ n.buf, (e.tx, e.key) ∈ s.started) →
    LocalOK s me n (applyCommits false me lim cs n).1 (applyCommits false me lim cs n).2.1 := by
  intro lim
  induction lim with
  | zero =>
    intro cs n _ hb
    cases cs with
    | nil => exact LocalOK.refl hb
    | cons c cs => exact LocalOK.refl hb
  | succ lim ih =>
    intro cs n hc hb
    cases cs with
    | nil => exact LocalOK.refl hb
    | cons c cs =>
      have hcs : ∀ c ∈ cs, (c.tx, c.seq) ∈ s.started ∧ (s.q ≤ c.cnt → QH s c.tx c.seq) :=
        fun x hx => hc x (List.mem_cons_of_mem _ hx)
      obtain ⟨hc1, hc2⟩ := hc c (List.mem_cons_self ..)
      unfold applyCommits
      split
      · exact LocalOK.refl hb
      · by_cases hlen : n.log.length = c.seq
        · simp only [Bool.false_or, hlen, decide_true, if_true]
          have hbuf' : ∀ x ∈ keepFrom n.buf (c.seq + 1), (x.tx, x.key) ∈ s.started :=
            fun x hx => hb x (List.mem_filter.mp hx).1
          have hA := LocalOK.append (s := s) (me := me) (n := n) (t := c.tx) (c := c.cnt)
            (nx := c.seq + 1) (buf' := keepFrom n.buf (c.seq + 1))
            (out := staleReplies me n.buf (c.seq + 1))
            (by rw [hlen]; exact hc1) (fun h => Or.inl (by rw [hlen]; exact hc2 h)) hbuf'
            (outOK_stale hb)
          have hB := ih cs ⟨n.log ++ [⟨c.tx, c.cnt⟩], n.crashed, c.seq + 1, keepFrom n.buf (c.seq + 1),
            n.catching, n.tasks⟩ hcs hbuf'
          exact hA.trans hB
        · simp only [Bool.false_or, hlen, decide_false, if_false]
          exact ih cs n hcs hb

theorem onSyncResp_spec (s : Sys) (me : NodeId) (n : Node) (lim : Nat) (cs : List Commit)
    (hc : ∀ c ∈ cs, (c.tx, c.seq) ∈ s.started ∧ (s.q ≤ c.cnt → QH s c.tx c.seq))
    (hb : ∀ e ∈ n.buf, (e.tx, e.key) ∈ s.started) :
    LocalOK s me n (onSyncResp s.q false me n lim cs).1 (onSyncResp s.q false me n lim cs).2 := by
  unfold onSyncResp
  have h0 : LocalOK s me n { n with catching := false } [] := ⟨⟨[], by simp, by simp⟩, hb, by simp, fun _ h => h⟩
  have h1 := applyCommits_spec s me lim cs { n with catching := false } hc hb
  dsimp only
  split
  · have h2 := drain_spec s me ((applyCommits false me lim cs { n with catching := false }).1.buf.length + 1)
      (applyCommits false me lim cs { n with catching := false }).1 h1.buf
    simpa using h0.trans (h1.trans h2)
  · simpa using h0.trans h1

theorem mem_bufInsert {n : Node} {src : NodeId} {t : Tx} {k : Nat} {buf' : List BufE}
    (h : bufInsert n src t k = some buf') : ∀ e ∈ buf', (e.tx, e.key) = (t, k) ∨ ∃ x ∈ n.buf, (x.tx, x.key) = (e.tx, e.key) := by
  unfold bufInsert at h
  split at h
  · cases h
  · split at h
    · split at h
      · cases h
        intro e he
        obtain ⟨x, hx, rfl⟩ := List.mem_map.mp he
        refine Or.inr ⟨x, hx, ?_⟩
        split <;> rfl
      · cases h
    · cases h
      intro e he
      rcases List.mem_append.mp he with h | h
      · exact Or.inr ⟨e, h, rfl⟩
      · simp at h; subst h; exact Or.inl rfl

theorem onReplicate_spec (s : Sys) (me : NodeId) (n : Node) (src : NodeId) (t : Tx) (k : Nat)
    (hs : (t, k) ∈ s.started) (hb : ∀ e ∈ n.buf, (e.tx, e.key) ∈ s.started) :
    LocalOK s me n (onReplicate s.q me n src t k).1 (onReplicate s.q me n src t k).2 := by
  unfold onReplicate
  split
  · exact ⟨⟨[], by simp, by simp⟩, hb, by simp [outOK, hs], fun _ h => h⟩
  · rename_i buf' hins
    have hb' : ∀ e ∈ buf', (e.tx, e.key) ∈ s.started := by
      intro e he
      rcases mem_bufInsert hins e he with h | ⟨x, hx, h⟩
      · rw [h]; exact hs
      · rw [← h]; exact hb x hx
    have h0 : LocalOK s me n { n with buf := buf' } [] := ⟨⟨[], by simp, by simp⟩, hb', by simp, fun _ h => h⟩
    have h1 := drain_spec s me (buf'.length + 1) { n with buf := buf' } hb'
    simpa using h0.trans h1

theorem oldest_mem : ∀ {b : List BufE} {o : BufE}, oldest b = some o → o ∈ b := by
  intro b
  induction b with
  | nil => intro o h; cases h
  | cons e es ih =>
    intro o h
    unfold oldest at h
    split at h
    · cases h; exact List.mem_cons_self ..
    · rename_i m hm
      split at h
      · cases h; exact List.mem_cons_self ..
      · cases h; exact List.mem_cons_of_mem _ (ih hm)

theorem onGaps_spec (s : Sys) (me : NodeId) (n : Node) (hb : ∀ e ∈ n.buf, (e.tx, e.key) ∈ s.started) :
    LocalOK s me n (onGaps me n).1 (onGaps me n).2 := by
  unfold onGaps
  split
  · exact LocalOK.refl hb
  · split
    · exact ⟨⟨[], by simp, by simp⟩, hb, by simp [outOK], fun _ h => h⟩
    · exact LocalOK.refl hb

theorem upd_node {s : Sys} {r : NodeId} {n : Node} (hn : s.nodes[r]? = some n) (n' : Node) (net' acks' started') :
    (s.upd r n' net' acks' started').nodes[r]? = some n' := by
  have hlt : r < s.nodes.length := by
    rcases List.getElem?_eq_some_iff.mp hn with ⟨h, _⟩; exact h
  simp [Sys.upd, hlt]

theorem LocalOK.logLe {s : Sys} {me : NodeId} {n n' : Node} {out : List Msg} (h : LocalOK s me n n' out) :
    LogLe s.q n.log n'.log := by
  obtain ⟨ext, hl, _⟩ := h.ext
  intro p e he
  have hp : p < n.log.length := by
    rcases List.getElem?_eq_some_iff.mp he with ⟨h, _⟩; exact h
  exact ⟨e, by rw [hl, List.getElem?_append_left hp]; exact he, rfl, id⟩

/-- a replica-side step at node `r` keeps the invariant -/
theorem Inv.local {s : Sys} (hI : Inv s) {r : NodeId} {n n' : Node} {out rest : List Msg}
    (hn : s.nodes[r]? = some n) (hL : LocalOK s r n n' out) (hrest : ∀ m ∈ rest, m ∈ s.net) :
    Inv (s.upd r n' (rest ++ out) s.acks s.started) := by
  have hle := hL.logLe
  have hLe := le_upd hn hle (rest ++ out) s.acks (started' := s.started) (fun _ h => h)
  have hnode' := upd_node hn n' (rest ++ out) s.acks s.started
  refine hI.upd hn hle (fun _ h => h) hI.sfun ?_ ?_ (fun a ha => Or.inl ha)
  · obtain ⟨ext, hl, hext⟩ := hL.ext
    obtain ⟨hlog, _, htasks⟩ := hI.nodes r n hn
    refine ⟨?_, hL.buf, ?_⟩
    · intro p e he
      by_cases hp : p < n.log.length
      · rw [hl, List.getElem?_append_left hp] at he
        exact (hlog p e he).mono hLe
      · have hge : n.log.length ≤ p := Nat.le_of_not_lt hp
        have he' := he
        rw [hl, List.getElem?_append_right hge] at he'
        obtain ⟨h1, h2⟩ := hext _ e he'
        have hpp : n.log.length + (p - n.log.length) = p := by omega
        rw [hpp] at h1 h2
        refine ⟨h1, fun hq => ?_⟩
        rcases h2 hq with h | h
        · exact h.mono hLe
        · exact ⟨[r], by simp, (show s.q ≤ [r].length by simpa using h), by
            intro x hx; simp at hx; subst hx; exact ⟨n', e, hnode', he, rfl⟩⟩
    · intro tk htk
      exact (htasks tk (hL.tasks tk htk)).mono hLe hle
  · intro m hm
    rcases List.mem_append.mp hm with h | h
    · exact Or.inl (hrest m h)
    · right
      have ho := hL.out m h
      cases m with
      | reply src d t p ok =>
        obtain ⟨a, b, c⟩ := ho
        subst a
        exact ⟨b, fun o => by obtain ⟨e, he, ht⟩ := c o; exact ⟨n', e, hnode', he, ht⟩⟩
      | syncReq _ _ _ _ => trivial
      | rw _ _ _ _ => exact ho.elim
      | confirm _ _ _ _ _ => exact ho.elim
      | syncResp _ _ _ => exact ho.elim

/-! ### Helpers for the system steps -/

theorem live_some {s : Sys} {i : NodeId} {n : Node} (h : s.live i = some n) : s.nodes[i]? = some n := by
  unfold Sys.live at h
  split at h
  · rename_i m hm; split at h
    · cases h
    · cases h; exact hm
  · cases h

theorem put_eq (s : Sys) (i : NodeId) (n : Node) (net : List Msg) :
    s.put i n net = s.upd i n net s.acks s.started := rfl

/-- only the network changes -/
theorem Inv.netOnly {s : Sys} (hI : Inv s) {net' : List Msg} (h : ∀ m ∈ net', m ∈ s.net ∨ msgOK s m) :
    Inv { s with net := net' } :=
  ⟨hI.len, hI.rule, hI.sfun, hI.nodes, fun m hm => (h m hm).elim (hI.net m) id, hI.acks⟩

theorem mem_eraseIdx {α : Type} {l : List α} {i : Nat} {x : α} (h : x ∈ l.eraseIdx i) : x ∈ l :=
  List.mem_of_mem_eraseIdx h

theorem setCnt_get (l : List Entry) (p c p' : Nat) :
    (setCnt l p c)[p']? = if p = p' then (l[p']?).map (fun e => { e with cnt := c }) else l[p']? := by
  unfold setCnt; rw [List.getElem?_modify]
  split <;> cases l[p']? <;> simp

theorem LogLe_setCnt {q c : Nat} (l : List Entry) (p : Nat) (hc : q ≤ c) : LogLe q l (setCnt l p c) := by
  intro p' e he
  rw [setCnt_get]
  split
  · exact ⟨{ e with cnt := c }, by simp [he], rfl, fun _ => hc⟩
  · exact ⟨e, he, rfl, id⟩

theorem logOK_setCnt {s : Sys} {l : List Entry} {p c : Nat} (hl : logOK s l)
    (hq : ∀ e : Entry, l[p]? = some e → QH s e.tx p) : logOK s (setCnt l p c) := by
  intro p' e he
  rw [setCnt_get] at he
  split at he
  · rename_i hpp; subst hpp
    cases hlp : l[p]? with
    | none => simp [hlp] at he
    | some e0 =>
      simp [hlp] at he; subst he
      exact ⟨(hl p e0 hlp).1, fun _ => hq e0 hlp⟩
  · exact hl p' e he

theorem QH_of_confirmed {s : Sys} {t : Tx} {p : Nat} {rs : List NodeId} (nd : rs.Nodup)
    (hq : s.q ≤ rs.length) (hr : ∀ r ∈ rs, holdsAt s r t p) : QH s t p := ⟨rs, nd, hq, hr⟩

theorem mem_set {α : Type} {l : List α} {k : Nat} {a x : α} (h : x ∈ l.set k a) : x ∈ l ∨ x = a :=
  List.mem_or_eq_of_mem_set h

end SierraModel.Protocol
