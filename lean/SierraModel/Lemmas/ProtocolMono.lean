/-
Growth of the protocol model's state along a step (`Inv₁`): logs are append-only, the transaction of
a slot never changes, a quorum count stays a quorum count, client acks and assigned pairs are kept.
-/
import SierraModel.Lemmas.ProtocolSteps

namespace SierraModel.Protocol

theorem le_net (s : Sys) (net' : List Msg) : Le s { s with net := net' } :=
  ⟨rfl, fun _ h => h, fun _ n h => ⟨n, h, LogLe.refl _ _⟩⟩

theorem LogLe_append (q : Nat) (l ext : List Entry) : LogLe q l (l ++ ext) := by
  intro p e he
  have hp : p < l.length := by
    rcases List.getElem?_eq_some_iff.mp he with ⟨h, _⟩; exact h
  exact ⟨e, by rw [List.getElem?_append_left hp]; exact he, rfl, id⟩

theorem tryCount_logLe (q : Nat) (n : Node) (tk : Task) : LogLe q n.log (tryCount q n tk).1.log := by
  rcases tryCount_cases q n tk with h | h | ⟨_, hq, _, h⟩
  · rw [h]; exact LogLe.refl _ _
  · rw [h]; exact LogLe.refl _ _
  · rw [h]; exact LogLe_setCnt _ _ hq

theorem onReply_logLe {q : Nat} {me : NodeId} {n : Node} {k : Nat} {tk : Task} {src : NodeId} {ok : Bool}
    {r : Node × List Msg} (h : onReply q me n k tk src ok = some r) : LogLe q n.log r.1.log := by
  unfold onReply at h
  dsimp only at h
  split at h
  · cases h; exact LogLe.refl _ _
  · split at h
    · cases h
    · split at h
      · split at h
        · cases h; exact LogLe.refl _ _
        · cases h; exact tryCount_logLe _ _ _
      · split at h <;> (cases h; exact LogLe.refl _ _)

theorem onStart_logLe {rf : Nat} {me : NodeId} {n : Node} {t : Tx} {view : List NodeId} {n' : Node}
    {out : List Msg} {sq : Nat} (h : onStart rf me n t view = some (n', out, sq)) :
    LogLe (quorum rf) n.log n'.log := by
  unfold onStart at h
  dsimp only at h
  split at h
  · cases h
  · simp only [Option.some.injEq, Prod.mk.injEq] at h
    obtain ⟨hn', _, _⟩ := h
    rw [← hn']
    exact (LogLe_append _ n.log [⟨t, initCnt (quorum rf)⟩]).trans
      (tryCount_logLe (quorum rf) { n with log := n.log ++ [⟨t, initCnt (quorum rf)⟩] } _)

theorem onFinish_log {me : NodeId} {n : Node} {k : Nat} {tk : Task} {r : Node × List Msg}
    (h : onFinish me n k tk = some r) : r.1.log = n.log := by
  unfold onFinish at h
  split at h
  · cases h; rfl
  · cases h

theorem onConfirm_logLe {q : Nat} (n : Node) (t : Tx) {c : Nat} (hc : q ≤ c) :
    LogLe q n.log (onConfirm n t c).log := by
  unfold onConfirm
  split
  · exact LogLe.refl _ _
  · exact LogLe_setCnt _ _ hc

/-- growth along a step: `Le` and the client acks are kept -/
def Grow (s s' : Sys) : Prop := Le s s' ∧ ∀ x ∈ s.acks, x ∈ s'.acks

theorem Grow.refl (s : Sys) : Grow s s := ⟨Le.refl s, fun _ h => h⟩

theorem Grow.trans {a b c : Sys} (h1 : Grow a b) (h2 : Grow b c) : Grow a c :=
  ⟨h1.1.trans h2.1, fun x hx => h2.2 x (h1.2 x hx)⟩

theorem grow_put {s : Sys} {i : NodeId} {n n' : Node} (hn : s.nodes[i]? = some n)
    (hle : LogLe s.q n.log n'.log) (net' : List Msg) : Grow s (s.put i n' net') :=
  ⟨by rw [put_eq]; exact le_upd hn hle net' s.acks (fun _ h => h), fun _ h => h⟩

theorem grow_deliver {s s' : Sys} (hI : Inv s) {rest : List Msg} {w : Nat} {lim : Option Nat}
    {m : Msg} (hm : msgOK s m) (h : deliverMsg s rest w lim m = some s') : Grow s s' := by
  cases m with
  | rw src dst t sq =>
    simp only [deliverMsg] at h
    split at h
    · cases h
    · rename_i n hl
      cases h
      have hn := live_some hl
      exact grow_put hn (onReplicate_spec s dst n src t sq hm (hI.nodes dst n hn).2.1).logLe _
  | reply src dst t p ok =>
    simp only [deliverMsg] at h
    split at h
    · cases h
    · rename_i n hl
      split at h
      · cases h; exact ⟨le_net s rest, fun _ h => h⟩
      · split at h
        · cases h
        · split at h
          · cases h
          · rename_i r hr
            cases h
            exact grow_put (live_some hl) (onReply_logLe hr) _
  | confirm src dst t p c =>
    simp only [deliverMsg] at h
    split at h
    · cases h
    · rename_i n hl
      cases h
      exact grow_put (live_some hl) (onConfirm_logLe n t hm.2.1) _
  | syncReq src dst frm to =>
    simp only [deliverMsg] at h
    split at h
    · cases h
    · cases h; exact ⟨le_net s _, fun _ h => h⟩
  | syncResp src dst cs =>
    simp only [deliverMsg] at h
    split at h
    · cases h
    · rename_i n hl
      cases h
      have hn := live_some hl
      rw [hI.rule]
      exact grow_put hn (onSyncResp_spec s dst n _ cs hm (hI.nodes dst n hn).2.1).logLe _

theorem step_grow {s s' : Sys} (hI : Inv s) {a : Action} (h : step s a = some s') : Grow s s' := by
  cases a with
  | start i t view =>
    simp only [step] at h
    split at h
    · cases h
    · rename_i n hl
      split at h
      · cases h
      · split at h
        · cases h
        · rename_i n' out sq ho
          cases h
          exact ⟨le_upd (live_some hl) (onStart_logLe ho) _ s.acks (fun x hx => List.mem_cons_of_mem _ hx),
            fun _ h => h⟩
  | deliver i w =>
    simp only [step] at h
    split at h
    · cases h
    · rename_i m hm
      exact grow_deliver hI (hI.net m (List.mem_of_getElem? hm)) h
  | deliverPartial i k =>
    simp only [step] at h
    split at h
    · rename_i src dst cs hm
      exact grow_deliver hI (hI.net _ (List.mem_of_getElem? hm)) h
    · cases h
  | deliverFail i =>
    simp only [step] at h
    split at h
    · split at h
      · cases h
      · cases h; exact ⟨le_net s _, fun _ h => h⟩
    · cases h
  | drop i =>
    simp only [step] at h
    split at h
    · cases h; exact ⟨le_net s _, fun _ h => h⟩
    · cases h
  | dup i =>
    simp only [step] at h
    split at h
    · cases h
    · cases h; exact ⟨le_net s _, fun _ h => h⟩
  | finish i k =>
    simp only [step] at h
    split at h
    · cases h
    · rename_i n hl
      split at h
      · cases h
      · split at h
        · cases h
        · rename_i r hr
          cases h
          exact ⟨le_upd (live_some hl) (by rw [onFinish_log hr]; exact LogLe.refl _ _) _ _ (fun _ h => h),
            fun x hx => List.mem_cons_of_mem _ hx⟩
  | timeout i k =>
    simp only [step] at h
    split at h
    · cases h
    · rename_i n hl
      split at h
      · cases h; (apply grow_put (live_some hl); exact LogLe.refl _ _)
      · cases h
  | gaps i =>
    simp only [step] at h
    split at h
    · cases h
    · rename_i n hl
      cases h
      have hn := live_some hl
      exact grow_put hn (onGaps_spec s i n (hI.nodes i n hn).2.1).logLe _
  | evict i k =>
    simp only [step] at h
    split at h
    · cases h
    · rename_i n hl
      split at h
      · cases h
      · cases h; (apply grow_put (live_some hl); exact LogLe.refl _ _)
  | syncFail i =>
    simp only [step] at h
    split at h
    · cases h
    · rename_i n hl
      cases h; (apply grow_put (live_some hl); exact LogLe.refl _ _)
  | crash i =>
    simp only [step] at h
    split at h
    · cases h
    · rename_i n hl
      cases h; (apply grow_put (live_some hl); exact LogLe.refl _ _)
  | restart i =>
    simp only [step] at h
    split at h
    · cases h
    · rename_i n hn
      split at h
      · cases h; (apply grow_put hn; exact LogLe.refl _ _)
      · cases h

/-- `s'` is reached from `s` by a list of enabled actions -/
theorem run_grow : ∀ (as : List Action) {s s' : Sys}, Inv s → run s as = some s' → Grow s s' ∧ Inv s' := by
  intro as
  induction as with
  | nil => intro s s' hI h; simp [run] at h; subst h; exact ⟨Grow.refl s, hI⟩
  | cons a as ih =>
    intro s s' hI h
    simp only [run] at h
    cases hs : step s a with
    | none => rw [hs] at h; simp at h
    | some s1 =>
      rw [hs] at h; simp only [Option.bind] at h
      have h1 := step_grow hI hs
      obtain ⟨h2, h3⟩ := ih (step_inv hI hs) h
      exact ⟨h1.trans h2, h3⟩

theorem reachable_of_run {rf : Nat} : ∀ (as : List Action) {s s' : Sys}, Reachable rf s → run s as = some s' →
    Reachable rf s' := by
  intro as
  induction as with
  | nil => intro s s' hr h; simp [run] at h; subst h; exact hr
  | cons a as ih =>
    intro s s' hr h
    simp only [run] at h
    cases hs : step s a with
    | none => rw [hs] at h; simp at h
    | some s1 => rw [hs] at h; exact ih (Reachable.step a hr hs) h

/-! ### Quorum intersection -/

theorem nodup_length_le : ∀ (n : Nat) (l : List Nat), l.Nodup → (∀ x ∈ l, x < n) → l.length ≤ n := by
  intro n
  induction n with
  | zero =>
    intro l _ h
    cases l with
    | nil => simp
    | cons x xs => exact absurd (h x (List.mem_cons_self ..)) (Nat.not_lt_zero _)
  | succ n ih =>
    intro l nd h
    have h1 : (l.erase n).length ≤ n := by
      refine ih (l.erase n) (nd.erase n) ?_
      intro x hx
      obtain ⟨hne, hm⟩ := nd.mem_erase_iff.mp hx
      have := h x hm
      omega
    have h2 : l.length ≤ (l.erase n).length + 1 := by
      rw [List.length_erase]; split <;> omega
    omega

theorem two_quorum_gt (rf : Nat) : rf < 2 * quorum rf := by unfold quorum; omega

theorem holdsAt_lt {s : Sys} {r : NodeId} {t : Tx} {p : Nat} (h : holdsAt s r t p) : r < s.nodes.length := by
  obtain ⟨n, _, hn, _⟩ := h
  rcases List.getElem?_eq_some_iff.mp hn with ⟨h, _⟩; exact h

/-- two quorums of holders share a node -/
theorem quorum_intersect {s : Sys} (hlen : s.nodes.length = s.rf) {t1 t2 : Tx} {p1 p2 : Nat}
    (h1 : QH s t1 p1) (h2 : QH s t2 p2) : ∃ r, holdsAt s r t1 p1 ∧ holdsAt s r t2 p2 := by
  obtain ⟨r1, nd1, q1, hr1⟩ := h1
  obtain ⟨r2, nd2, q2, hr2⟩ := h2
  by_cases hex : ∃ r ∈ r1, r ∈ r2
  · obtain ⟨r, ha, hb⟩ := hex
    exact ⟨r, hr1 r ha, hr2 r hb⟩
  · exfalso
    have nd : (r1 ++ r2).Nodup := by
      refine List.nodup_append.mpr ⟨nd1, nd2, ?_⟩
      intro a ha b hb hab
      subst hab
      exact hex ⟨a, ha, hb⟩
    have hlt : ∀ x ∈ r1 ++ r2, x < s.rf := by
      intro x hx
      rw [← hlen]
      rcases List.mem_append.mp hx with h | h
      · exact holdsAt_lt (hr1 x h)
      · exact holdsAt_lt (hr2 x h)
    have := nodup_length_le s.rf (r1 ++ r2) nd hlt
    rw [List.length_append] at this
    have := two_quorum_gt s.rf
    unfold Sys.q at q1 q2
    omega

theorem holdsAt_unique {s : Sys} {r : NodeId} {t1 t2 : Tx} {p : Nat} (h1 : holdsAt s r t1 p)
    (h2 : holdsAt s r t2 p) : t1 = t2 := by
  obtain ⟨n1, e1, hn1, he1, ht1⟩ := h1
  obtain ⟨n2, e2, hn2, he2, ht2⟩ := h2
  rw [hn1] at hn2; cases hn2
  rw [he1] at he2; cases he2
  exact ht1.symm.trans ht2

theorem reachable_rf {rf : Nat} {s : Sys} (h : Reachable rf s) : s.rf = rf := by
  induction h with
  | init => rfl
  | step a hr hs ih => rw [(step_grow (reachable_inv hr) hs).1.rf]; exact ih

theorem takeWhile_get {α : Type} (f : α → Bool) : ∀ (l : List α) (p : Nat) (e : α),
    (l.takeWhile f)[p]? = some e → l[p]? = some e ∧ f e = true := by
  intro l
  induction l with
  | nil => intro p e h; simp at h
  | cons x xs ih =>
    intro p e h
    by_cases hx : f x = true
    · rw [List.takeWhile_cons_of_pos hx] at h
      cases p with
      | zero => simp at h; subst h; exact ⟨by simp, hx⟩
      | succ p => simp at h; simpa using ih p e h
    · rw [List.takeWhile_cons_of_neg hx] at h; simp at h

end SierraModel.Protocol
