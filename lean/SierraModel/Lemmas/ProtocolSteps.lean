/-
Every step of the protocol model preserves the invariant `Inv` (`Lemmas/Protocol.lean`).
-/
import SierraModel.Lemmas.Protocol

namespace SierraModel.Protocol

theorem findTx_some {l : List Entry} {t : Tx} {p : Nat} (h : findTx l t = some p) :
    ∃ e : Entry, l[p]? = some e ∧ e.tx = t := by
  unfold findTx at h
  obtain ⟨hp, hb, _⟩ := List.findIdx?_eq_some_iff_getElem.mp h
  exact ⟨l[p], by simp [hp], by simpa using hb⟩

/-- a node-state change that touches neither the log nor adds buffer entries / tasks -/
theorem LocalOK.shrink {s : Sys} {me : NodeId} {n n' : Node} (hlog : n'.log = n.log)
    (hb : ∀ e ∈ n'.buf, (e.tx, e.key) ∈ s.started) (ht : ∀ tk ∈ n'.tasks, tk ∈ n.tasks) :
    LocalOK s me n n' [] :=
  ⟨⟨[], by simp [hlog], by simp⟩, hb, by simp, ht⟩

theorem inv_confirm {s : Sys} (hI : Inv s) {d : NodeId} {n : Node} (hn : s.nodes[d]? = some n)
    {src : NodeId} {t : Tx} {p c : Nat} (hm : msgOK s (.confirm src d t p c)) {rest : List Msg}
    (hrest : ∀ m ∈ rest, m ∈ s.net) : Inv (s.upd d (onConfirm n t c) rest s.acks s.started) := by
  obtain ⟨hlog, hbuf, htasks⟩ := hI.nodes d n hn
  obtain ⟨hst, hqc, hqh⟩ := hm
  unfold onConfirm
  split
  · have := hI.local hn (LocalOK.refl (me := d) hbuf) hrest
    simpa using this
  · rename_i p0 hfind
    obtain ⟨e0, he0, ht0⟩ := findTx_some hfind
    have hpp : p0 = p := hI.sfun t p0 p (by rw [← ht0]; exact (hlog p0 e0 he0).1) hst
    subst hpp
    have hle : LogLe s.q n.log (setCnt n.log p0 c) := LogLe_setCnt _ _ hqc
    have hLe := le_upd hn (n' := { n with log := setCnt n.log p0 c }) hle rest s.acks
      (started' := s.started) (fun _ h => h)
    refine hI.upd hn hle (fun _ h => h) hI.sfun ?_ (fun m hm => Or.inl (hrest m hm)) (fun a ha => Or.inl ha)
    refine ⟨logOK_setCnt (hlog.mono hLe) ?_, hbuf.mono hLe, fun tk htk => (htasks tk htk).mono hLe hle⟩
    intro e he
    rw [he0] at he; cases he
    rw [ht0]; exact hqh.mono hLe

theorem serveSync_mem {n : Node} {frm to w : Nat} {c : Commit} (h : c ∈ serveSync n frm to w) :
    ∃ e : Entry, n.log[c.seq]? = some e ∧ e.tx = c.tx ∧ e.cnt = c.cnt := by
  unfold serveSync at h
  obtain ⟨p, _, hp⟩ := List.mem_filterMap.mp h
  cases he : n.log[p]? with
  | none => simp [he] at hp
  | some e => simp [he] at hp; subst hp; exact ⟨e, he, rfl, rfl⟩

theorem inv_syncReq {s : Sys} (hI : Inv s) {d : NodeId} {n : Node} (hn : s.nodes[d]? = some n)
    {src : NodeId} {frm to w : Nat} {rest : List Msg} (hrest : ∀ m ∈ rest, m ∈ s.net) :
    Inv { s with net := rest ++ [Msg.syncResp d src (serveSync n frm to w)] } := by
  refine hI.netOnly ?_
  intro m hm
  rcases List.mem_append.mp hm with h | h
  · exact Or.inl (hrest m h)
  · right
    simp at h; subst h
    intro c hc
    obtain ⟨e, he, ht, hcn⟩ := serveSync_mem hc
    obtain ⟨h1, h2⟩ := (hI.nodes d n hn).1 c.seq e he
    rw [ht] at h1 h2; rw [hcn] at h2
    exact ⟨h1, h2⟩

/-! ### The coordinator side -/

theorem tryCount_cases (q : Nat) (n : Node) (tk : Task) :
    tryCount q n tk = (n, some tk) ∨ tryCount q n tk = (n, none) ∨
    (tk.counted = false ∧ q ≤ tk.confirmed.length ∧ (∃ e : Entry, n.log[tk.seq]? = some e ∧ e.tx = tk.tx) ∧
      tryCount q n tk = ({ n with log := setCnt n.log tk.seq tk.confirmed.length },
                         some { tk with counted := true })) := by
  unfold tryCount
  split
  · rename_i hc
    simp only [Bool.and_eq_true, Bool.not_eq_true', decide_eq_true_eq] at hc
    unfold setOwnCnt
    cases he : n.log[tk.seq]? with
    | none => simp
    | some e =>
      by_cases ht : e.tx = tk.tx
      · right; right
        exact ⟨hc.1, hc.2, ⟨e, rfl, ht⟩, by simp [ht]⟩
      · simp [ht]
  · exact Or.inl rfl

/-- the coordinator `i` replaces / adds / drops the task `tk1` after trying to persist its count -/
theorem inv_tryCount {s : Sys} (hI : Inv s) {i : NodeId} {n : Node} (hn : s.nodes[i]? = some n)
    {tk1 : Task} (hOK : taskOK s i n.log tk1) {tasks' : List Task}
    (hT : ∀ tk ∈ tasks', tk ∈ n.tasks ∨ some tk = (tryCount s.q n tk1).2)
    {net' : List Msg} (hnet : ∀ m ∈ net', m ∈ s.net) :
    Inv (s.upd i { (tryCount s.q n tk1).1 with tasks := tasks' } net' s.acks s.started) := by
  obtain ⟨hlog, hbuf, htasks⟩ := hI.nodes i n hn
  rcases tryCount_cases s.q n tk1 with h | h | ⟨hc, hq, ⟨e0, he0, ht0⟩, h⟩
  · rw [h] at hT ⊢
    have hle := LogLe.refl s.q n.log
    have hLe := le_upd hn (n' := { n with tasks := tasks' }) hle net' s.acks (started' := s.started) (fun _ h => h)
    refine hI.upd (n' := { n with tasks := tasks' }) hn hle (fun _ h => h) hI.sfun ?_
      (fun m hm => Or.inl (hnet m hm)) (fun a ha => Or.inl ha)
    refine ⟨hlog.mono hLe, hbuf.mono hLe, ?_⟩
    intro tk htk
    rcases hT tk htk with h1 | h1
    · exact (htasks tk h1).mono hLe hle
    · cases h1; exact hOK.mono hLe hle
  · rw [h] at hT ⊢
    have hle := LogLe.refl s.q n.log
    have hLe := le_upd hn (n' := { n with tasks := tasks' }) hle net' s.acks (started' := s.started) (fun _ h => h)
    refine hI.upd (n' := { n with tasks := tasks' }) hn hle (fun _ h => h) hI.sfun ?_
      (fun m hm => Or.inl (hnet m hm)) (fun a ha => Or.inl ha)
    refine ⟨hlog.mono hLe, hbuf.mono hLe, ?_⟩
    intro tk htk
    rcases hT tk htk with h1 | h1
    · exact (htasks tk h1).mono hLe hle
    · cases h1
  · rw [h] at hT ⊢
    have hle : LogLe s.q n.log (setCnt n.log tk1.seq tk1.confirmed.length) := LogLe_setCnt _ _ hq
    have hLe := le_upd hn (n' := { n with log := setCnt n.log tk1.seq tk1.confirmed.length, tasks := tasks' })
      hle net' s.acks (started' := s.started) (fun _ h => h)
    obtain ⟨a, b, c, d, e, f, g, g2⟩ := hOK
    have hQ : QH s tk1.tx tk1.seq := QH_of_confirmed b hq c
    refine hI.upd (n' := { n with log := setCnt n.log tk1.seq tk1.confirmed.length, tasks := tasks' })
      hn hle (fun _ h => h) hI.sfun ?_ (fun m hm => Or.inl (hnet m hm)) (fun a ha => Or.inl ha)
    refine ⟨logOK_setCnt (hlog.mono hLe) ?_, hbuf.mono hLe, ?_⟩
    · intro e he
      rw [he0] at he; cases he
      rw [ht0]; exact hQ.mono hLe
    · intro tk htk
      rcases hT tk htk with h1 | h1
      · exact (htasks tk h1).mono hLe hle
      · cases h1
        refine ⟨a, b, fun r hr => (c r hr).mono hLe, d, e, fun _ => ⟨hq, ⟨e0.tx, tk1.confirmed.length⟩, ?_, ht0, hq⟩,
          g.mono hLe, fun _ => rfl⟩
        show (setCnt n.log tk1.seq tk1.confirmed.length)[tk1.seq]? = _
        rw [setCnt_get]; simp [he0]

/-- node `i` only changes its task list (each task old, or fine in `s`); messages / acks fine in `s` -/
theorem inv_tasks {s : Sys} (hI : Inv s) {i : NodeId} {n : Node} (hn : s.nodes[i]? = some n)
    {tasks' : List Task} (hT : ∀ tk ∈ tasks', tk ∈ n.tasks ∨ taskOK s i n.log tk)
    {net' : List Msg} (hnet : ∀ m ∈ net', m ∈ s.net ∨ msgOK s m)
    {acks' : List (NodeId × Tx × Nat)} (hacks : ∀ a ∈ acks', a ∈ s.acks ∨ ackOK s a) :
    Inv (s.upd i { n with tasks := tasks' } net' acks' s.started) := by
  obtain ⟨hlog, hbuf, htasks⟩ := hI.nodes i n hn
  have hle := LogLe.refl s.q n.log
  have hLe := le_upd hn (n' := { n with tasks := tasks' }) hle net' acks' (started' := s.started) (fun _ h => h)
  refine hI.upd (n' := { n with tasks := tasks' }) hn hle (fun _ h => h) hI.sfun ?_ ?_ ?_
  · refine ⟨hlog.mono hLe, hbuf.mono hLe, ?_⟩
    intro tk htk
    rcases hT tk htk with h1 | h1
    · exact (htasks tk h1).mono hLe hle
    · exact h1.mono hLe hle
  · intro m hm
    rcases hnet m hm with h | h
    · exact Or.inl h
    · exact Or.inr (h.mono hLe)
  · intro a ha
    rcases hacks a ha with h | h
    · exact Or.inl h
    · exact Or.inr (h.mono hLe)

theorem taskOK_confirm {s : Sys} {i : NodeId} {l : List Entry} {tk : Task} {src : NodeId}
    (h : taskOK s i l tk) (hp : src ∈ tk.pending) (hh : holdsAt s src tk.tx tk.seq) :
    taskOK s i l { tk with pending := tk.pending.erase src, confirmed := tk.confirmed ++ [src] } := by
  obtain ⟨a, b, c, d, e, f, g, g2⟩ := h
  refine ⟨a, ?_, ?_, d.erase src, ?_, ?_, g, g2⟩
  · refine List.nodup_append.mpr ⟨b, by simp, ?_⟩
    intro x hx y hy
    simp at hy; subst hy
    intro hxy; subst hxy; exact e x hp hx
  · intro r hr
    rcases List.mem_append.mp hr with h1 | h1
    · exact c r h1
    · simp at h1; subst h1; exact hh
  · intro r hr
    obtain ⟨hne, hrp⟩ := (d.mem_erase_iff).mp hr
    intro hc
    rcases List.mem_append.mp hc with h1 | h1
    · exact e r hrp h1
    · simp at h1; exact hne h1
  · intro hc
    obtain ⟨f1, f2⟩ := f hc
    exact ⟨by simp; omega, f2⟩

theorem taskOK_fail {s : Sys} {i : NodeId} {l : List Entry} {tk : Task} {src : NodeId}
    (h : taskOK s i l tk) : taskOK s i l { tk with pending := tk.pending.erase src } := by
  obtain ⟨a, b, c, d, e, f, g, g2⟩ := h
  exact ⟨a, b, c, d.erase src, fun r hr => e r (List.mem_of_mem_erase hr), f, g, g2⟩

theorem mem_putTask {tasks : List Task} {k : Nat} {o : Option Task} {tk : Task}
    (h : tk ∈ putTask tasks k o) : tk ∈ tasks ∨ some tk = o := by
  cases o with
  | none => exact Or.inl (List.mem_of_mem_eraseIdx h)
  | some x =>
    rcases List.mem_or_eq_of_mem_set h with h1 | h1
    · exact Or.inl h1
    · exact Or.inr (by rw [h1])

theorem inv_reply {s : Sys} (hI : Inv s) {i : NodeId} {n : Node} (hn : s.nodes[i]? = some n)
    {k : Nat} {tk : Task} (htk : n.tasks[k]? = some tk) {src : NodeId} {t : Tx} {p : Nat} {ok : Bool}
    (hm : msgOK s (.reply src i t p ok)) (htx : tk.tx = t)
    {r : Node × List Msg} (hr : onReply s.q i n k tk src ok = some r) {rest : List Msg}
    (hrest : ∀ m ∈ rest, m ∈ s.net) : Inv (s.upd i r.1 (rest ++ r.2) s.acks s.started) := by
  obtain ⟨hlog, hbuf, htasks⟩ := hI.nodes i n hn
  have hmem : tk ∈ n.tasks := List.mem_of_getElem? htk
  have hOK := htasks tk hmem
  obtain ⟨hst, hhold⟩ := hm
  have hp : p = tk.seq := hI.sfun t p tk.seq hst (by rw [← htx]; exact hOK.1)
  subst hp; subst htx
  have hrest' : ∀ m ∈ rest ++ ([] : List Msg), m ∈ s.net ∨ msgOK s m := by
    intro m hm; simp at hm; exact Or.inl (hrest m hm)
  unfold onReply at hr
  split at hr
  · cases hr
    simpa using hI.local hn (LocalOK.refl (me := i) hbuf) hrest
  · rename_i hpend
    have hpend : src ∈ tk.pending := by simpa using hpend
    split at hr
    · cases hr
    · split at hr
      · rename_i hok
        have hOK1 := taskOK_confirm hOK hpend (hhold hok)
        split at hr
        · rename_i hack
          cases hr
          refine inv_tasks hI hn ?_ ?_ (fun a ha => Or.inl ha)
          · intro x hx
            rcases List.mem_or_eq_of_mem_set hx with h1 | h1
            · exact Or.inl h1
            · right; rw [h1]; exact hOK1
          · intro m hm
            rcases List.mem_append.mp hm with h1 | h1
            · exact Or.inl (hrest m h1)
            · right
              simp at h1; subst h1
              obtain ⟨a, b, c, d, e, f, g, g2⟩ := hOK1
              have hq := (f (g2 hack)).1
              exact ⟨a, by simpa using hq, QH_of_confirmed b hq c⟩
        · cases hr
          have := inv_tryCount hI hn hOK1 (tasks' := putTask n.tasks k
            (tryCount s.q n { tk with pending := tk.pending.erase src, confirmed := tk.confirmed ++ [src] }).2)
            (fun x hx => mem_putTask hx) hrest
          simpa using this
      · have hOK1 : taskOK s i n.log { tk with pending := tk.pending.erase src } := taskOK_fail hOK
        dsimp only at hr
        split at hr
        · cases hr
          exact inv_tasks hI hn (fun x hx => Or.inl (List.mem_of_mem_eraseIdx hx)) hrest' (fun a ha => Or.inl ha)
        · cases hr
          refine inv_tasks hI hn ?_ hrest' (fun a ha => Or.inl ha)
          intro x hx
          rcases List.mem_or_eq_of_mem_set hx with h1 | h1
          · exact Or.inl h1
          · right; rw [h1]; exact hOK1

theorem inv_finish {s : Sys} (hI : Inv s) {i : NodeId} {n : Node} (hn : s.nodes[i]? = some n)
    {k : Nat} {tk : Task} (htk : n.tasks[k]? = some tk) {r : Node × List Msg}
    (hr : onFinish i n k tk = some r) :
    Inv (s.upd i r.1 (s.net ++ r.2) ((i, tk.tx, tk.seq) :: s.acks) s.started) := by
  obtain ⟨hlog, hbuf, htasks⟩ := hI.nodes i n hn
  have hOK := htasks tk (List.mem_of_getElem? htk)
  unfold onFinish at hr
  split at hr
  · rename_i hc
    simp only [Bool.and_eq_true, Bool.not_eq_true'] at hc
    cases hr
    obtain ⟨a, b, c, d, e, f, g, g2⟩ := hOK
    obtain ⟨hq, e0, he0, ht0, hc0⟩ := f hc.1
    refine inv_tasks hI hn ?_ ?_ ?_
    · intro x hx
      rcases List.mem_or_eq_of_mem_set hx with h1 | h1
      · exact Or.inl h1
      · right; rw [h1]; exact ⟨a, b, c, d, e, f, g, fun _ => hc.1⟩
    · intro m hm
      rcases List.mem_append.mp hm with h1 | h1
      · exact Or.inl h1
      · right
        obtain ⟨x, _, rfl⟩ := List.mem_map.mp h1
        exact ⟨a, hq, QH_of_confirmed b hq c⟩
    · intro x hx
      rcases List.mem_cons.mp hx with h1 | h1
      · right; subst h1; exact ⟨n, e0, hn, he0, ht0, hc0⟩
      · exact Or.inl h1
  · cases hr

theorem upd_upd (s : Sys) (i : NodeId) (a b : Node) (n1 n2 : List Msg) (a1 a2 : List (NodeId × Tx × Nat))
    (s1 s2 : List (Tx × Nat)) : (s.upd i a n1 a1 s1).upd i b n2 a2 s2 = s.upd i b n2 a2 s2 := by
  simp [Sys.upd, List.set_set]

theorem fresh_not_mem {st : List (Tx × Nat)} {t : Tx} (h : fresh st t = true) (p : Nat) : (t, p) ∉ st := by
  intro hm
  unfold fresh at h
  have := List.all_eq_true.mp h (t, p) hm
  simp at this

/-- the local append of a fresh transaction by coordinator `i` (before its task is registered) -/
theorem inv_start_append {s : Sys} (hI : Inv s) {i : NodeId} {n : Node} (hn : s.nodes[i]? = some n)
    {t : Tx} (hf : fresh s.started t = true) {out : List Msg}
    (hout : ∀ m ∈ out, ∃ d, m = Msg.rw i d t n.log.length) :
    Inv (s.upd i { n with log := n.log ++ [⟨t, initCnt s.q⟩] } (s.net ++ out) s.acks
      ((t, n.log.length) :: s.started)) := by
  obtain ⟨hlog, hbuf, htasks⟩ := hI.nodes i n hn
  have hle : LogLe s.q n.log (n.log ++ [⟨t, initCnt s.q⟩]) := by
    intro p e he
    have hp : p < n.log.length := by
      rcases List.getElem?_eq_some_iff.mp he with ⟨h, _⟩; exact h
    exact ⟨e, by rw [List.getElem?_append_left hp]; exact he, rfl, id⟩
  have hst : ∀ x ∈ s.started, x ∈ (t, n.log.length) :: s.started := fun x hx => List.mem_cons_of_mem _ hx
  have hLe := le_upd hn (n' := { n with log := n.log ++ [⟨t, initCnt s.q⟩] }) hle (s.net ++ out) s.acks hst
  have hnode' := upd_node hn { n with log := n.log ++ [⟨t, initCnt s.q⟩] } (s.net ++ out) s.acks
    ((t, n.log.length) :: s.started)
  refine hI.upd (n' := { n with log := n.log ++ [⟨t, initCnt s.q⟩] }) hn hle hst ?_ ?_ ?_ (fun a ha => Or.inl ha)
  · intro t' p p' h1 h2
    rcases List.mem_cons.mp h1 with e1 | e1 <;> rcases List.mem_cons.mp h2 with e2 | e2
    · cases e1; cases e2; rfl
    · cases e1; exact absurd e2 (fresh_not_mem hf p')
    · cases e2; exact absurd e1 (fresh_not_mem hf p)
    · exact hI.sfun t' p p' e1 e2
  · refine ⟨?_, hbuf.mono hLe, fun tk htk => (htasks tk htk).mono hLe hle⟩
    intro p e he
    by_cases hp : p < n.log.length
    · rw [List.getElem?_append_left hp] at he
      exact (hlog p e he).mono hLe
    · have hge : n.log.length ≤ p := Nat.le_of_not_lt hp
      have he' := he
      rw [List.getElem?_append_right hge] at he'
      have hp0 : p - n.log.length = 0 := by
        cases h : p - n.log.length with
        | zero => rfl
        | succ k => rw [h] at he'; simp at he'
      rw [hp0] at he'; simp at he'; subst he'
      have hpe : p = n.log.length := by omega
      subst hpe
      refine ⟨List.mem_cons_self .., fun hq => ?_⟩
      have h1 : s.q ≤ 1 := initCnt_quorum hq
      exact ⟨[i], by simp, (show s.q ≤ [i].length by simpa using h1), by
        intro x hx; simp at hx; subst hx; exact ⟨_, _, hnode', he, rfl⟩⟩
  · intro m hm
    rcases List.mem_append.mp hm with h | h
    · exact Or.inl h
    · right
      obtain ⟨d, rfl⟩ := hout m h
      exact List.mem_cons_self ..

theorem inv_start {s : Sys} (hI : Inv s) {i : NodeId} {n : Node} (hn : s.nodes[i]? = some n)
    {t : Tx} (hf : fresh s.started t = true) {view : List NodeId} {n' : Node} {out : List Msg} {sq : Nat}
    (ho : onStart s.rf i n t view = some (n', out, sq)) :
    Inv (s.upd i n' (s.net ++ out) s.acks ((t, sq) :: s.started)) := by
  unfold onStart at ho
  dsimp only at ho
  split at ho
  · cases ho
  · simp only [Option.some.injEq, Prod.mk.injEq] at ho
    obtain ⟨hn', hout, hsq⟩ := ho
    subst hsq
    -- the state after the local append and the sends
    have h1 := inv_start_append hI hn hf (out := out)
      (by intro m hm; rw [← hout] at hm; obtain ⟨d, _, rfl⟩ := List.mem_map.mp hm; exact ⟨d, rfl⟩)
    have hnode1 := upd_node hn { n with log := n.log ++ [⟨t, initCnt s.q⟩] } (s.net ++ out) s.acks
      ((t, n.log.length) :: s.started)
    have hnd : ((List.range s.rf).filter (fun j => j != i && view.contains j)).Nodup :=
      List.Pairwise.filter _ List.nodup_range
    have hOK : taskOK (s.upd i { n with log := n.log ++ [⟨t, initCnt s.q⟩] } (s.net ++ out) s.acks
        ((t, n.log.length) :: s.started)) i (n.log ++ [⟨t, initCnt s.q⟩])
        { tx := t, seq := n.log.length, pending := (List.range s.rf).filter (fun j => j != i && view.contains j),
          confirmed := [i], counted := false, acked := false } := by
      have hh : holdsAt (s.upd i { n with log := n.log ++ [⟨t, initCnt s.q⟩] } (s.net ++ out) s.acks
          ((t, n.log.length) :: s.started)) i t n.log.length :=
        ⟨_, ⟨t, initCnt s.q⟩, hnode1, by simp, rfl⟩
      refine ⟨List.mem_cons_self .., by simp, ?_, hnd, ?_, by simp, hh, by simp⟩
      · intro r hr; simp at hr; subst hr; exact hh
      · intro r hr hc
        simp at hc; subst hc
        simp at hr
    have h2 := inv_tryCount h1 hnode1 hOK (tasks' := n'.tasks) (net' := s.net ++ out) ?_ (fun _ h => h)
    · rw [upd_upd] at h2
      rw [← hn']
      rw [← hn'] at h2
      exact h2
    · intro tk htk
      rw [← hn'] at htk
      dsimp only at htk
      split at htk
      · rename_i tk' heq
        split at htk
        · exact Or.inl htk
        · rcases List.mem_append.mp htk with h | h
          · exact Or.inl h
          · simp at h; subst h; right; exact heq.symm
      · exact Or.inl htk

/-! ### Every step -/

theorem inv_deliver {s s' : Sys} (hI : Inv s) {rest : List Msg} (hrest : ∀ m ∈ rest, m ∈ s.net) {w : Nat}
    {lim : Option Nat} {m : Msg} (hm : msgOK s m) (h : deliverMsg s rest w lim m = some s') : Inv s' := by
  cases m with
  | rw src dst t sq =>
    simp only [deliverMsg] at h
    split at h
    · cases h
    · rename_i n hl
      cases h
      have hn := live_some hl
      rw [put_eq]
      exact hI.local hn (onReplicate_spec s dst n src t sq hm (hI.nodes dst n hn).2.1) hrest
  | reply src dst t p ok =>
    simp only [deliverMsg] at h
    split at h
    · cases h
    · rename_i n hl
      have hn := live_some hl
      split at h
      · cases h
        exact hI.netOnly (fun m hm => Or.inl (hrest m hm))
      · rename_i k hk
        split at h
        · cases h
        · rename_i tk htk
          split at h
          · cases h
          · rename_i r hr
            cases h
            have htx : tk.tx = t := by
              obtain ⟨hlt, hb, _⟩ := List.findIdx?_eq_some_iff_getElem.mp hk
              have : n.tasks[k] = tk := by
                have := List.getElem?_eq_getElem hlt; rw [this] at htk; exact Option.some.inj htk
              rw [this] at hb; simpa using hb
            rw [put_eq]
            exact inv_reply hI hn htk hm htx hr hrest
  | confirm src dst t p c =>
    simp only [deliverMsg] at h
    split at h
    · cases h
    · rename_i n hl
      cases h
      rw [put_eq]
      exact inv_confirm hI (live_some hl) hm hrest
  | syncReq src dst frm to =>
    simp only [deliverMsg] at h
    split at h
    · cases h
    · rename_i n hl
      cases h
      exact inv_syncReq hI (live_some hl) hrest
  | syncResp src dst cs =>
    simp only [deliverMsg] at h
    split at h
    · cases h
    · rename_i n hl
      cases h
      have hn := live_some hl
      rw [put_eq, hI.rule]
      exact hI.local hn (onSyncResp_spec s dst n _ cs hm (hI.nodes dst n hn).2.1) hrest

theorem step_inv {s s' : Sys} (hI : Inv s) {a : Action} (h : step s a = some s') : Inv s' := by
  cases a with
  | start i t view =>
    simp only [step] at h
    split at h
    · cases h
    · rename_i n hl
      split at h
      · cases h
      · rename_i hf
        split at h
        · cases h
        · rename_i n' out sq ho
          cases h
          exact inv_start hI (live_some hl) (by simpa using hf) ho
  | deliver i w =>
    simp only [step] at h
    split at h
    · cases h
    · rename_i m hm
      exact inv_deliver hI (fun x hx => List.mem_of_mem_eraseIdx hx) (hI.net m (List.mem_of_getElem? hm)) h
  | deliverPartial i k =>
    simp only [step] at h
    split at h
    · rename_i src dst cs hm
      exact inv_deliver hI (fun x hx => List.mem_of_mem_eraseIdx hx) (hI.net _ (List.mem_of_getElem? hm)) h
    · cases h
  | deliverFail i =>
    simp only [step] at h
    split at h
    · rename_i src dst t sq hm
      split at h
      · cases h
      · cases h
        refine hI.netOnly ?_
        intro x hx
        rcases List.mem_append.mp hx with h1 | h1
        · exact Or.inl (List.mem_of_mem_eraseIdx h1)
        · right; simp at h1; subst h1
          exact ⟨hI.net _ (List.mem_of_getElem? hm), by simp⟩
    · cases h
  | drop i =>
    simp only [step] at h
    split at h
    · cases h; exact hI.netOnly (fun x hx => Or.inl (List.mem_of_mem_eraseIdx hx))
    · cases h
  | dup i =>
    simp only [step] at h
    split at h
    · cases h
    · rename_i m hm
      cases h
      refine hI.netOnly ?_
      intro x hx
      rcases List.mem_append.mp hx with h1 | h1
      · exact Or.inl h1
      · simp at h1; subst h1; exact Or.inl (List.mem_of_getElem? hm)
  | finish i k =>
    simp only [step] at h
    split at h
    · cases h
    · rename_i n hl
      split at h
      · cases h
      · rename_i tk htk
        split at h
        · cases h
        · rename_i r hr
          cases h
          exact inv_finish hI (live_some hl) htk hr
  | timeout i k =>
    simp only [step] at h
    split at h
    · cases h
    · rename_i n hl
      split at h
      · cases h
        have hn := live_some hl
        have := hI.local hn (LocalOK.shrink (s := s) (me := i) (n := n)
          (n' := { n with tasks := n.tasks.eraseIdx k }) rfl (hI.nodes i n hn).2.1
          (fun tk htk => List.mem_of_mem_eraseIdx htk)) (rest := s.net) (fun _ hx => hx)
        simpa [put_eq] using this
      · cases h
  | gaps i =>
    simp only [step] at h
    split at h
    · cases h
    · rename_i n hl
      cases h
      have hn := live_some hl
      rw [put_eq]
      exact hI.local hn (onGaps_spec s i n (hI.nodes i n hn).2.1) (fun _ hx => hx)
  | evict i k =>
    simp only [step] at h
    split at h
    · cases h
    · rename_i n hl
      have hn := live_some hl
      split at h
      · cases h
      · rename_i e he
        cases h
        rw [put_eq]
        refine hI.local hn ?_ (fun _ hx => hx)
        exact ⟨⟨[], by simp, by simp⟩, fun x hx => (hI.nodes i n hn).2.1 x (List.mem_of_mem_eraseIdx hx),
          outOK_replyAll_false ((hI.nodes i n hn).2.1 e (List.mem_of_getElem? he)), fun _ hx => hx⟩
  | syncFail i =>
    simp only [step] at h
    split at h
    · cases h
    · rename_i n hl
      cases h
      have hn := live_some hl
      have := hI.local hn (LocalOK.shrink (s := s) (me := i) (n := n) (n' := { n with catching := false })
        rfl (hI.nodes i n hn).2.1 (fun _ hx => hx)) (rest := s.net) (fun _ hx => hx)
      simpa [put_eq] using this
  | crash i =>
    simp only [step] at h
    split at h
    · cases h
    · rename_i n hl
      cases h
      have hn := live_some hl
      have := hI.local hn (LocalOK.shrink (s := s) (me := i) (n := n)
        (n' := { n with crashed := true, buf := [], tasks := [], catching := false })
        rfl (by simp) (by simp)) (rest := s.net) (fun _ hx => hx)
      simpa [put_eq] using this
  | restart i =>
    simp only [step] at h
    split at h
    · cases h
    · rename_i n hn
      split at h
      · cases h
        have := hI.local hn (LocalOK.shrink (s := s) (me := i) (n := n)
          (n' := { n with crashed := false, next := n.log.length })
          rfl (hI.nodes i n hn).2.1 (fun _ hx => hx)) (rest := s.net) (fun _ hx => hx)
        simpa [put_eq] using this
      · cases h

theorem init_inv (rf : Nat) : Inv (Sys.init rf) := by
  refine ⟨by simp [Sys.init], rfl, ?_, ?_, by simp [Sys.init], by simp [Sys.init]⟩
  · intro t p p' h; simp [Sys.init] at h
  · intro i n hn
    have : n = {} := by
      have := List.mem_of_getElem? hn
      simp [Sys.init] at this; exact this.2
    subst this
    exact ⟨by intro p e he; simp at he, by intro e he; simp at he, by intro tk htk; simp at htk⟩

theorem reachable_inv {rf : Nat} {s : Sys} (h : Reachable rf s) : Inv s := by
  induction h with
  | init => exact init_inv rf
  | step a _ hs ih => exact step_inv ih hs

end SierraModel.Protocol
