/-
Helper lemmas for C12: association-list facts and the `OrderedQueue` invariant.
-/
import SierraModel.Cluster.Queue

namespace SierraModel.Cluster

namespace AMap
variable {V : Type}

theorem mem_keys {m : AMap V} {k : Nat} : k ∈ m.keys ↔ ∃ v, (k, v) ∈ m := by
  simp [keys]

theorem get?_eq_none {m : AMap V} {k : Nat} : m.get? k = none ↔ k ∉ m.keys := by
  simp only [get?, keys, Option.map_eq_none_iff, List.find?_eq_none, List.mem_map, not_exists, not_and]
  constructor
  · intro h e he hk; exact h e he (by simp [hk])
  · intro h e he hk; exact h e he (by simpa using hk)

theorem get?_some_mem {m : AMap V} {k : Nat} {v : V} (h : m.get? k = some v) : (k, v) ∈ m := by
  simp only [get?, Option.map_eq_some_iff] at h
  obtain ⟨e, he, hv⟩ := h
  have h1 := List.find?_some he
  have h2 := List.mem_of_find?_eq_some he
  have : e = (k, v) := by
    cases e with | mk a b => simp at h1 hv; simp [h1, hv]
  exact this ▸ h2

theorem contains_eq {m : AMap V} {k : Nat} : m.contains k = (m.get? k).isSome := by
  cases h : m.get? k with
  | none =>
    have := get?_eq_none.mp h
    simp only [Option.isSome_none, contains, List.any_eq_false]
    intro e he hk
    exact this (by simp only [keys, List.mem_map]; exact ⟨e, he, by simpa using hk⟩)
  | some v =>
    have := get?_some_mem h
    simp only [Option.isSome_some, contains, List.any_eq_true]
    exact ⟨(k, v), this, by simp⟩

theorem sorted_filter {m : AMap V} (p : Nat × V → Bool) (h : m.Sorted) : Sorted (m.filter p) :=
  List.Pairwise.filter p h

theorem sorted_erase {m : AMap V} (k : Nat) (h : m.Sorted) : Sorted (m.erase k) := sorted_filter _ h

theorem mem_keys_filter {m : AMap V} {p : Nat × V → Bool} {k : Nat} (h : k ∈ keys (m.filter p)) : k ∈ m.keys := by
  simp only [keys, List.mem_map, List.mem_filter] at *
  obtain ⟨e, ⟨he, _⟩, hk⟩ := h
  exact ⟨e, he, hk⟩

theorem mem_keys_erase {m : AMap V} {k k' : Nat} (h : k' ∈ keys (m.erase k)) : k' ∈ m.keys ∧ k' ≠ k := by
  simp only [keys, erase, List.mem_map, List.mem_filter] at *
  obtain ⟨e, ⟨he, hne⟩, hk⟩ := h
  refine ⟨⟨e, he, hk⟩, ?_⟩
  intro hc; subst hc; subst hk; simp at hne

theorem sorted_put {m : AMap V} (k : Nat) (v : V) (h : m.Sorted) : Sorted (m.put k v) := by
  unfold put Sorted
  rw [List.pairwise_append]
  refine ⟨List.Pairwise.filter _ h, ?_, ?_⟩
  · rw [List.pairwise_cons]
    refine ⟨?_, List.Pairwise.filter _ h⟩
    intro e he
    simpa using (List.mem_filter.mp he).2
  · intro a ha b hb
    have ha' : a.1 < k := by simpa using (List.mem_filter.mp ha).2
    rcases List.mem_cons.mp hb with hb | hb
    · subst hb; exact ha'
    · have : k < b.1 := by simpa using (List.mem_filter.mp hb).2
      omega

theorem mem_keys_put {m : AMap V} {k k' : Nat} {v : V} (h : k' ∈ keys (m.put k v)) : k' = k ∨ k' ∈ m.keys := by
  simp only [keys, put, List.mem_map, List.mem_append, List.mem_cons, List.mem_filter] at *
  obtain ⟨e, he, hk⟩ := h
  rcases he with ⟨he, _⟩ | he | ⟨he, _⟩
  · exact Or.inr ⟨e, he, hk⟩
  · subst he; exact Or.inl hk.symm
  · exact Or.inr ⟨e, he, hk⟩

/-- in a sorted map all entries of one key are one entry -/
theorem filter_key_eq {m : AMap V} {k : Nat} {v : V} (hs : m.Sorted) (h : m.get? k = some v) :
    m.filter (fun e => e.1 == k) = [(k, v)] := by
  induction m with
  | nil => simp [get?] at h
  | cons a t ih =>
    have hs' := List.pairwise_cons.mp hs
    by_cases hak : a.1 = k
    · have hav : a = (k, v) := by
        cases a with | mk a1 a2 =>
          simp only at hak; subst hak
          simp [get?] at h; simp [h]
      have hrest : t.filter (fun e => e.1 == k) = [] := by
        rw [List.filter_eq_nil_iff]
        intro e he hek
        have := hs'.1 e he
        have hek' : e.1 = k := by simpa using hek
        omega
      rw [List.filter_cons]
      simp [hrest, hav]
    · have hne : (a.1 == k) = false := by simpa using hak
      have h' : get? t k = some v := by
        simpa [get?, List.find?_cons, hne] using h
      rw [List.filter_cons]
      simp only [hne, Bool.false_eq_true, if_false]
      exact ih hs'.2 h'

theorem erase_of_not_mem {m : AMap V} {k : Nat} (h : k ∉ m.keys) : m.erase k = m := by
  unfold erase
  rw [List.filter_eq_self]
  intro e he
  have : e.1 ≠ k := fun hc => h (by simp only [keys, List.mem_map]; exact ⟨e, he, hc⟩)
  simpa using this

/-- entries of `m`, as a multiset: the entry of key `k` (if any) and the rest -/
theorem perm_erase {m : AMap V} {k : Nat} {v : V} (hs : m.Sorted) (h : m.get? k = some v) :
    m.Perm ((k, v) :: m.erase k) := by
  have := List.filter_append_perm (fun e : Nat × V => e.1 == k) m
  rw [filter_key_eq hs h] at this
  exact this.symm

theorem put_perm (m : AMap V) (k : Nat) (v : V) : (m.put k v).Perm ((k, v) :: m.erase k) := by
  unfold put
  refine List.perm_middle.trans (List.Perm.cons _ ?_)
  have h := List.filter_append_perm (fun e : Nat × V => decide (e.1 < k)) (m.erase k)
  have e1 : (m.erase k).filter (fun e => decide (e.1 < k)) = m.filter (fun e => decide (e.1 < k)) := by
    unfold erase
    rw [List.filter_filter]
    apply List.filter_congr
    intro e _
    by_cases hlt : e.1 < k
    · have : e.1 ≠ k := by omega
      simp [hlt, this]
    · simp [hlt]
  have e2 : (m.erase k).filter (fun e => !decide (e.1 < k)) = m.filter (fun e => decide (k < e.1)) := by
    unfold erase
    rw [List.filter_filter]
    apply List.filter_congr
    intro e _
    by_cases hlt : k < e.1
    · have h1 : ¬ e.1 < k := by omega
      have h2 : e.1 ≠ k := by omega
      simp [hlt, h1, h2]
    · by_cases heq : e.1 = k
      · simp [heq]
      · have : e.1 < k := by omega
        simp [hlt, this]
  rw [e1, e2] at h
  exact h

theorem length_erase_lt {m : AMap V} {k : Nat} {v : V} (h : m.get? k = some v) :
    (m.erase k).length < m.length := by
  unfold erase
  apply List.length_filter_lt_length_iff_exists.mpr
  exact ⟨(k, v), get?_some_mem h, by simp⟩

theorem length_put_of_not_mem {m : AMap V} {k : Nat} (v : V) (h : k ∉ m.keys) :
    (m.put k v).length = m.length + 1 := by
  rw [(put_perm m k v).length_eq, erase_of_not_mem h]; rfl

theorem length_put_of_mem {m : AMap V} {k : Nat} {ex : V} (v : V) (hs : m.Sorted) (h : m.get? k = some ex) :
    (m.put k v).length = m.length := by
  rw [(put_perm m k v).length_eq, (perm_erase hs h).length_eq]; rfl

/-- the last entry of a sorted map has the largest key -/
theorem le_last {m : AMap V} {last : Nat × V} (hs : m.Sorted) (h : m.getLast? = some last) :
    ∀ k ∈ m.keys, k ≤ last.1 := by
  intro k hk
  obtain ⟨l, hl⟩ : ∃ l, m = l ++ [last] := by
    have hne : m ≠ [] := by intro hc; simp [hc] at h
    refine ⟨m.dropLast, ?_⟩
    have h1 := List.dropLast_concat_getLast hne
    rw [List.getLast?_eq_some_getLast hne] at h
    simp only [Option.some.injEq] at h
    rw [h] at h1; exact h1.symm
  subst hl
  unfold Sorted at hs
  rw [List.pairwise_append] at hs
  simp only [keys, List.map_append, List.map_cons, List.map_nil, List.mem_append, List.mem_map,
    List.mem_singleton] at hk
  rcases hk with ⟨e, he, rfl⟩ | rfl
  · exact Nat.le_of_lt (hs.2.2 e he last (by simp))
  · exact Nat.le_refl _

theorem sorted_dropLast {m : AMap V} (hs : m.Sorted) : Sorted m.dropLast := by
  unfold Sorted at *
  exact List.Pairwise.sublist (List.dropLast_sublist m) hs

theorem mem_keys_dropLast {m : AMap V} {k : Nat} (h : k ∈ keys m.dropLast) : k ∈ m.keys := by
  simp only [keys, List.mem_map] at *
  obtain ⟨e, he, hk⟩ := h
  exact ⟨e, (List.dropLast_sublist m).subset he, hk⟩

theorem get?_dropLast_none {m : AMap V} {k : Nat} (h : m.get? k = none) : get? m.dropLast k = none := by
  rw [get?_eq_none] at *
  exact fun hc => h (mem_keys_dropLast hc)

end AMap

/-! ### The queue invariant -/

/-- `BTreeMap` keys increasing; no buffered key below `next`; buffered keys positive (a key is only
stored while it is above `next`); at most `limit` entries -/
structure QInv {V : Type} (q : OQueue V) : Prop where
  sorted : q.map.Sorted
  ge_next : ∀ k ∈ q.map.keys, q.next ≤ k
  pos : ∀ k ∈ q.map.keys, 0 < k
  le_limit : q.map.length ≤ q.limit

namespace OQueue
variable {V : Type} [OrderedValue V]

theorem inv_new (next limit : Nat) : QInv (OQueue.new next limit : OQueue V) :=
  ⟨List.Pairwise.nil, by simp [new, AMap.keys], by simp [new, AMap.keys], by simp [new]⟩

theorem insert_limit (q : OQueue V) (k : Nat) (v : V) : (q.insert k v).1.limit = q.limit := by
  unfold insert insertOrMerge
  repeat' split
  all_goals rfl

theorem insert_next (q : OQueue V) (k : Nat) (v : V) : (q.insert k v).1.next = q.next := by
  unfold insert insertOrMerge
  repeat' split
  all_goals rfl

/-- `insertOrMerge` on a sub-map `m` of the queue's map that has room for the key -/
theorem insertOrMerge_inv {q : OQueue V} (hq : QInv q) (m : AMap V) (key : Nat) (value : V)
    (ev : Option (Nat × V)) (hs : m.Sorted) (hsub : ∀ k ∈ m.keys, k ∈ q.map.keys)
    (hlt : q.next < key) (hroom : m.get? key = none → m.length < q.limit)
    (hlen : m.length ≤ q.limit) :
    QInv (insertOrMerge q m key value ev).1 := by
  unfold insertOrMerge
  split
  · next hget =>
    refine ⟨AMap.sorted_put _ _ hs, ?_, ?_, ?_⟩
    · intro k hk
      rcases AMap.mem_keys_put hk with rfl | hk
      · exact Nat.le_of_lt hlt
      · exact hq.ge_next k (hsub k hk)
    · intro k hk
      rcases AMap.mem_keys_put hk with rfl | hk
      · omega
      · exact hq.pos k (hsub k hk)
    · simp only
      rw [AMap.length_put_of_not_mem _ (AMap.get?_eq_none.mp hget)]
      exact hroom hget
  · next ex hget =>
    split
    · refine ⟨AMap.sorted_put _ _ hs, ?_, ?_, ?_⟩
      · intro k hk
        rcases AMap.mem_keys_put hk with rfl | hk
        · exact Nat.le_of_lt hlt
        · exact hq.ge_next k (hsub k hk)
      · intro k hk
        rcases AMap.mem_keys_put hk with rfl | hk
        · omega
        · exact hq.pos k (hsub k hk)
      · simp only
        rw [AMap.length_put_of_mem _ hs hget]; exact hlen
    · exact hq

theorem insert_inv {q : OQueue V} (hq : QInv q) (key : Nat) (value : V) : QInv (q.insert key value).1 := by
  unfold insert
  split
  · split
    · exact hq
    · split
      · refine ⟨AMap.sorted_erase _ hq.sorted, ?_, ?_, ?_⟩
        · intro k hk; exact hq.ge_next k (AMap.mem_keys_erase hk).1
        · intro k hk; exact hq.pos k (AMap.mem_keys_erase hk).1
        · exact Nat.le_trans (List.length_filter_le _ _) hq.le_limit
      · exact hq
  · next hne =>
    split
    · exact hq
    · next hnl =>
      have hlt : q.next < key := by omega
      split
      · next hfull =>
        simp only [Bool.and_eq_true, decide_eq_true_eq, Bool.not_eq_true'] at hfull
        split
        · exact hq
        · next last hlast =>
          split
          · apply insertOrMerge_inv hq _ _ _ _ (AMap.sorted_dropLast hq.sorted)
              (fun k hk => AMap.mem_keys_dropLast hk) hlt
            · intro _
              have hne : q.map ≠ [] := by intro h; simp [h] at hlast
              have := hq.le_limit
              rw [List.length_dropLast]
              have : 0 < q.map.length := List.length_pos_iff.mpr hne
              omega
            · rw [List.length_dropLast]; have := hq.le_limit; omega
          · exact hq
      · next hnf =>
        apply insertOrMerge_inv hq _ _ _ _ hq.sorted (fun k hk => hk) hlt
        · intro hget
          simp only [Bool.and_eq_true, decide_eq_true_eq, Bool.not_eq_true', not_and,
            Bool.not_eq_false] at hnf
          rw [AMap.contains_eq, hget] at hnf
          simp at hnf
          omega
        · exact hq.le_limit

theorem pop_inv {q : OQueue V} (hq : QInv q) : QInv q.pop.1 := by
  unfold pop
  split
  · exact hq
  · refine ⟨AMap.sorted_erase _ hq.sorted, ?_, ?_, ?_⟩
    · intro k hk; exact hq.ge_next k (AMap.mem_keys_erase hk).1
    · intro k hk; exact hq.pos k (AMap.mem_keys_erase hk).1
    · exact Nat.le_trans (List.length_filter_le _ _) hq.le_limit

/-- after `progress_to(n)` (ANY `n`) no buffered key is below the new `next` — the F21 repair -/
theorem progressTo_inv {q : OQueue V} (hq : QInv q) (n : Nat) : QInv (q.progressTo n).1 := by
  unfold progressTo
  refine ⟨AMap.sorted_filter _ hq.sorted, ?_, ?_, ?_⟩
  · intro k hk
    simp only [AMap.keys, List.mem_map, List.mem_filter, decide_eq_true_eq] at hk
    obtain ⟨e, ⟨_, hle⟩, rfl⟩ := hk
    exact hle
  · intro k hk; exact hq.pos k (AMap.mem_keys_filter hk)
  · exact Nat.le_trans (List.length_filter_le _ _) hq.le_limit

end OQueue
end SierraModel.Cluster

namespace SierraModel.Cluster
namespace OQueue
variable {V : Type} [OrderedValue V]

/-- the implementation's classification is the specification table, in every state -/
theorem insertClass_eq_spec (q : OQueue V) (key : Nat) (value : V) :
    insertClass q key value = insertSpec q key value := by
  unfold insertClass insertSpec insert
  by_cases h1 : key = q.next
  · subst h1
    simp only [Nat.lt_irrefl, if_true, if_false]
    cases hg : q.map.get? q.next with
    | none => simp [InsertOut.cls]
    | some ex => by_cases hk : OrderedValue.keyEq value ex = true <;> simp [hk, InsertOut.cls]
  · by_cases h2 : key < q.next
    · simp [h1, h2, InsertOut.cls]
    · simp only [h1, h2, if_false]
      cases hg : q.map.get? key with
      | some ex =>
        have hc : q.map.contains key = true := by rw [AMap.contains_eq, hg]; rfl
        by_cases hk : OrderedValue.keyEq value ex = true <;>
          simp [hc, insertOrMerge, hg, hk, InsertOut.cls, h1]
      | none =>
        have hc : q.map.contains key = false := by rw [AMap.contains_eq, hg]; rfl
        by_cases hl : q.map.length < q.limit
        · have : ¬ q.limit ≤ q.map.length := by omega
          simp [hc, hl, this, insertOrMerge, hg, InsertOut.cls]
        · have hle : q.limit ≤ q.map.length := by omega
          simp only [hc, hl, hle, decide_true, Bool.not_false, Bool.and_self, if_true, if_false]
          cases hlast : q.map.getLast? with
          | none => simp [InsertOut.cls]
          | some last =>
            by_cases hkl : key < last.1
            · simp [hkl, insertOrMerge, AMap.get?_dropLast_none hg, InsertOut.cls]
            · simp [hkl, InsertOut.cls]

/-- `expect("limit must be greater than 0")` cannot fire on a queue built by `new` (limit > 0) -/
theorem insert_no_trap (q : OQueue V) (hl : 0 < q.limit) (key : Nat) (value : V) :
    insertSpec q key value ≠ .trap := by
  unfold insertSpec
  repeat' split
  all_goals first | (intro h; cases h; done) | skip
  next _ _ _ _ hfull _ hlast =>
    have : q.map = [] := by simpa using hlast
    rw [this] at hfull
    simp only [List.length_nil] at hfull
    omega

end OQueue
end SierraModel.Cluster
