/-
Helper lemmas for C07 (`Cluster/ReadGate.lean`): the store-interface functions, the loop
invariants of the five handlers.
-/
import SierraModel.Cluster.ReadGate

namespace SierraModel.Cluster.ReadGate
open SierraModel.Cluster

/-! ### store interface -/

theorem groupTx_flatten (l : List Ev) : (groupTx l).flatten = l := by
  induction l with
  | nil => simp [groupTx]
  | cons e rest ih =>
    unfold groupTx
    split
    · rename_i f g gs h
      rw [h] at ih
      split <;> simp_all [List.flatten]
    · simp [ih]

theorem groupTx_ne_nil (l : List Ev) : ∀ g ∈ groupTx l, g ≠ [] := by
  induction l with
  | nil => simp [groupTx]
  | cons e rest ih =>
    unfold groupTx
    split
    · rename_i f g gs h
      rw [h] at ih
      split
      · intro x hx
        simp only [List.mem_cons] at hx
        rcases hx with rfl | hx
        · simp
        · exact ih x (by simp [hx])
      · intro x hx
        simp only [List.mem_cons] at hx
        rcases hx with rfl | rfl | hx
        · simp
        · simp
        · exact ih x (by simp [hx])
    · intro x hx
      simp only [List.mem_cons] at hx
      rcases hx with rfl | hx
      · simp
      · exact ih x hx

theorem nextBatch_none {rest : List (List Ev)} {cut limit : Nat} (hl : limit ≠ 0)
    (h : nextBatch rest cut limit = none) : rest = [] := by
  unfold nextBatch at h
  simp only [hl, if_false] at h
  cases rest with
  | nil => rfl
  | cons a r => simp at h

theorem nextBatch_some {rest batch rest' : List (List Ev)} {cut limit : Nat}
    (h : nextBatch rest cut limit = some (batch, rest')) :
    rest = batch ++ rest' ∧ rest'.length < rest.length ∧ batch ≠ [] := by
  unfold nextBatch at h
  split at h
  · simp at h
  · cases rest with
    | nil => simp at h
    | cons a r =>
      simp only [Option.some.injEq, Prod.mk.injEq] at h
      obtain ⟨rfl, rfl⟩ := h
      have hk : 1 ≤ max 1 (min cut limit) := Nat.le_max_left _ _
      refine ⟨(List.take_append_drop _ _).symm, ?_, ?_⟩
      · simp only [List.length_drop, List.length_cons]; omega
      · intro h0
        have := congrArg List.length h0
        simp only [List.length_take, List.length_cons, List.length_nil] at this
        omega

theorem clampBatch_pos (n : Nat) : clampBatch n ≠ 0 := by
  unfold clampBatch BATCH; split
  · omega
  · split <;> omega

/-! ### (a) everything a handler accumulates passed its gate -/

/-- what `partBatch` pushes: an event of the batch below the watermark and not beyond the end -/
theorem partBatch_acc {count effEnd wm : Nat} (Q : Ev → Prop) :
    ∀ (evs : List Ev) (st st' : PSt) (b : Bool),
    (∀ e ∈ evs, e.seq < wm → e.seq ≤ effEnd → Q e) → (∀ e ∈ st.acc, Q e) →
    partBatch count effEnd wm evs st = .ok (st', b) → ∀ e ∈ st'.acc, Q e := by
  intro evs
  induction evs with
  | nil => intro st st' b _ hacc h; simp only [partBatch, Out.ok.injEq, Prod.mk.injEq] at h; rw [← h.1]; exact hacc
  | cons e es ih =>
    intro st st' b hq hacc h
    unfold partBatch at h
    split at h
    · simp only [Out.ok.injEq, Prod.mk.injEq] at h; rw [← h.1]; exact hacc
    · split at h
      · simp only [Out.ok.injEq, Prod.mk.injEq] at h; rw [← h.1]; exact hacc
      · rename_i hg
        simp only [Bool.or_eq_true, decide_eq_true_eq, not_or, Nat.not_lt, Nat.not_le, ge_iff_le, gt_iff_lt] at hg
        split at h
        · simp at h
        · refine ih _ st' b (fun x hx => hq x (List.mem_cons_of_mem _ hx)) ?_ h
          intro x hx
          simp only [List.mem_append, List.mem_singleton] at hx
          rcases hx with hx | rfl
          · exact hacc x hx
          · exact hq x (List.mem_cons_self) hg.2 hg.1

theorem partLoop_acc {cut : Nat → Nat} {count effEnd wm : Nat} (Q : Ev → Prop) :
    ∀ (fuel : Nat) (rest : List (List Ev)) (i : Nat) (st st' : PSt),
    (∀ e ∈ rest.flatten, e.seq < wm → e.seq ≤ effEnd → Q e) → (∀ e ∈ st.acc, Q e) →
    partLoop cut count effEnd wm fuel rest i st = .ok st' → ∀ e ∈ st'.acc, Q e := by
  intro fuel
  induction fuel with
  | zero => intro rest i st st' _ hacc h; simp only [partLoop, Out.ok.injEq] at h; rw [← h]; exact hacc
  | succ fuel ih =>
    intro rest i st st' hq hacc h
    unfold partLoop at h
    split at h
    · simp only [Out.ok.injEq] at h; rw [← h]; exact hacc
    · rename_i batch rest' hb
      have hsplit := (nextBatch_some hb).1
      have hqb : ∀ e ∈ batch.flatten, e.seq < wm → e.seq ≤ effEnd → Q e := by
        intro e he; apply hq; rw [hsplit, List.flatten_append]; exact List.mem_append_left _ he
      have hqr : ∀ e ∈ rest'.flatten, e.seq < wm → e.seq ≤ effEnd → Q e := by
        intro e he; apply hq; rw [hsplit, List.flatten_append]; exact List.mem_append_right _ he
      split at h
      · simp at h
      · rename_i st1 hp
        simp only [Out.ok.injEq] at h; rw [← h]
        exact partBatch_acc Q _ _ _ _ hqb hacc hp
      · rename_i st1 hp
        have h1 := partBatch_acc Q _ _ _ _ hqb hacc hp
        split at h
        · simp only [Out.ok.injEq] at h; rw [← h]; exact h1
        · split at h
          · simp only [Out.ok.injEq] at h; rw [← h]; exact h1
          · exact ih _ _ _ _ hqr h1 h

/-- what `streamCommit` pushes: an event of the commit below the watermark, not beyond the end -/
theorem streamCommit_acc {pid count wm : Nat} {endVer : Option Nat} (Q : Ev → Prop) :
    ∀ (evs : List Ev) (st : SSt),
    (∀ e ∈ evs, e.part = pid → e.seq < wm → beyondEnd endVer e.version = false → Q e) → (∀ e ∈ st.acc, Q e) →
    ∀ e ∈ (streamCommit pid count wm endVer evs st).1.acc, Q e := by
  intro evs
  induction evs with
  | nil => intro st _ hacc; simpa [streamCommit] using hacc
  | cons e es ih =>
    intro st hq hacc
    unfold streamCommit
    split
    · exact hacc
    · rename_i hpart
      split
      · exact hacc
      · split
        · exact hacc
        · rename_i hw
          split
          · exact hacc
          · rename_i hb
            apply ih _ (fun x hx => hq x (List.mem_cons_of_mem _ hx))
            intro x hx
            simp only [List.mem_append, List.mem_singleton] at hx
            rcases hx with hx | rfl
            · exact hacc x hx
            · exact hq x List.mem_cons_self (by simpa using hpart) (by omega) (by simpa using hb)

theorem streamBatch_acc {pid count wm : Nat} {endVer : Option Nat} (Q : Ev → Prop) :
    ∀ (cs : List (List Ev)) (st : SSt),
    (∀ e ∈ cs.flatten, e.part = pid → e.seq < wm → beyondEnd endVer e.version = false → Q e) → (∀ e ∈ st.acc, Q e) →
    ∀ e ∈ (streamBatch pid count wm endVer cs st).1.acc, Q e := by
  intro cs
  induction cs with
  | nil => intro st _ hacc; simpa [streamBatch] using hacc
  | cons c cs ih =>
    intro st hq hacc
    have h1 := streamCommit_acc (pid := pid) (count := count) (wm := wm) (endVer := endVer) Q c st
      (fun x hx => hq x (by simp [hx])) hacc
    have hq' : ∀ e ∈ cs.flatten, e.part = pid → e.seq < wm → beyondEnd endVer e.version = false → Q e :=
      fun x hx => hq x (by simp only [List.flatten_cons, List.mem_append]; exact Or.inr hx)
    unfold streamBatch
    cases hsc : streamCommit pid count wm endVer c st with
    | mk st' b =>
      rw [hsc] at h1
      cases b with
      | iter => exact h1
      | none =>
        simp only
        split
        · exact h1
        · split
          · exact h1
          · exact ih _ hq' h1
      | inner =>
        simp only
        split
        · exact h1
        · split
          · exact h1
          · exact ih _ hq' h1

theorem streamLoop_acc {cut : Nat → Nat} {pid count wm : Nat} {endVer : Option Nat} (Q : Ev → Prop) :
    ∀ (fuel : Nat) (rest : List (List Ev)) (i : Nat) (st : SSt),
    (∀ e ∈ rest.flatten, e.part = pid → e.seq < wm → beyondEnd endVer e.version = false → Q e) → (∀ e ∈ st.acc, Q e) →
    ∀ e ∈ (streamLoop cut pid count wm endVer fuel rest i st).acc, Q e := by
  intro fuel
  induction fuel with
  | zero => intro rest i st _ hacc; simpa [streamLoop] using hacc
  | succ fuel ih =>
    intro rest i st hq hacc
    unfold streamLoop
    split
    · exact hacc
    · rename_i batch rest' hb
      have hsplit := (nextBatch_some hb).1
      have h1 := streamBatch_acc (pid := pid) (count := count) (wm := wm) (endVer := endVer) Q batch st
        (fun e he => hq e (by rw [hsplit, List.flatten_append]; exact List.mem_append_left _ he)) hacc
      split
      · rename_i st' heq; rw [heq] at h1; exact h1
      · rename_i st' heq; rw [heq] at h1
        exact ih _ _ _ (fun e he => hq e (by rw [hsplit, List.flatten_append]; exact List.mem_append_right _ he)) h1

/-! ### (e) checked arithmetic -/

theorem partBatch_ok {count effEnd wm : Nat} :
    ∀ (evs : List Ev) (st : PSt), (∀ e ∈ evs, e.seq < U64_MAX) →
    ∃ r, partBatch count effEnd wm evs st = .ok r := by
  intro evs
  induction evs with
  | nil => intro st _; exact ⟨_, rfl⟩
  | cons e es ih =>
    intro st h
    unfold partBatch
    split
    · exact ⟨_, rfl⟩
    · split
      · exact ⟨_, rfl⟩
      · have he := h e List.mem_cons_self
        have : addU64 e.seq 1 = some (e.seq + 1) := by unfold addU64; rw [if_pos (by omega)]
        simp only [this]
        exact ih _ (fun x hx => h x (List.mem_cons_of_mem _ hx))

theorem partLoop_ok {cut : Nat → Nat} {count effEnd wm : Nat} :
    ∀ (fuel : Nat) (rest : List (List Ev)) (i : Nat) (st : PSt), (∀ e ∈ rest.flatten, e.seq < U64_MAX) →
    ∃ r, partLoop cut count effEnd wm fuel rest i st = .ok r := by
  intro fuel
  induction fuel with
  | zero => intro rest i st _; exact ⟨_, rfl⟩
  | succ fuel ih =>
    intro rest i st h
    unfold partLoop
    split
    · exact ⟨_, rfl⟩
    · rename_i batch rest' hb
      have hsplit := (nextBatch_some hb).1
      obtain ⟨r, hr⟩ := partBatch_ok (count := count) (effEnd := effEnd) (wm := wm) batch.flatten st
        (fun e he => h e (by rw [hsplit, List.flatten_append]; exact List.mem_append_left _ he))
      rw [hr]
      obtain ⟨st', b⟩ := r
      cases b with
      | true => exact ⟨_, rfl⟩
      | false =>
        simp only
        split
        · exact ⟨_, rfl⟩
        · split
          · exact ⟨_, rfl⟩
          · exact ih _ _ _ (fun e he => h e (by rw [hsplit, List.flatten_append]; exact List.mem_append_right _ he))

/-! ### membership in the scans -/

theorem mem_fwdPart {log : Log} {start : Nat} {e : Ev} :
    e ∈ (fwdPart log start).flatten ↔ e ∈ log ∧ start ≤ e.seq := by
  simp [fwdPart, groupTx_flatten]

theorem mem_fwdStream {log : Log} {stream start : Nat} {e : Ev} :
    e ∈ (fwdStream log stream start).flatten ↔ e ∈ log ∧ e.stream = stream ∧ start ≤ e.version := by
  simp [fwdStream, groupTx_flatten]

theorem mem_revStream {log : Log} {stream : Nat} {e : Ev}
    (h : e ∈ (revStream log stream).flatten) : e ∈ log ∧ e.stream = stream := by
  simp only [revStream, List.mem_flatten, List.mem_map, List.mem_reverse, List.mem_filter] at h
  obtain ⟨g, ⟨x, _, rfl⟩, he⟩ := h
  simp only [List.mem_filter] at he
  exact ⟨he.1.1, by simpa using he.1.2⟩

theorem findBelow_some {pid wm v : Nat} {batch : List (List Ev)} (h : findBelow pid wm batch = some v) :
    ∃ e ∈ batch.flatten, e.part = pid ∧ e.seq < wm ∧ e.version = v := by
  unfold findBelow at h
  cases hf : batch.flatten.find? (fun e => e.part == pid && decide (e.seq < wm)) with
  | none => rw [hf] at h; simp at h
  | some e =>
    rw [hf] at h
    simp only [Option.map_some, Option.some.injEq] at h
    have hp := List.find?_some hf
    simp only [Bool.and_eq_true, beq_iff_eq, decide_eq_true_eq] at hp
    exact ⟨e, List.mem_of_find?_eq_some hf, hp.1, hp.2, h⟩

theorem verLoop_some {cut : Nat → Nat} {pid wm v : Nat} :
    ∀ (fuel : Nat) (rest : List (List Ev)) (i : Nat), verLoop cut pid wm fuel rest i = some v →
    ∃ e ∈ rest.flatten, e.part = pid ∧ e.seq < wm ∧ e.version = v := by
  intro fuel
  induction fuel with
  | zero => intro rest i h; simp [verLoop] at h
  | succ fuel ih =>
    intro rest i h
    unfold verLoop at h
    split at h
    · simp at h
    · rename_i batch rest' hb
      have hsplit := (nextBatch_some hb).1
      split at h
      · rename_i v' hf
        simp only [Option.some.injEq] at h; subst h
        obtain ⟨e, he, h0, h1, h2⟩ := findBelow_some hf
        exact ⟨e, by rw [hsplit, List.flatten_append]; exact List.mem_append_left _ he, h0, h1, h2⟩
      · obtain ⟨e, he, h0, h1, h2⟩ := ih _ _ h
        exact ⟨e, by rw [hsplit, List.flatten_append]; exact List.mem_append_right _ he, h0, h1, h2⟩

/-! ### the definitional watermark -/

theorem defWm_le_length (log : Log) (rf : Nat) : defWm log rf ≤ log.length := by
  unfold defWm
  exact (List.takeWhile_sublist _).length_le

theorem mem_takeWhile_imp' {α : Type} {p : α → Bool} : ∀ {l : List α} {a : α}, a ∈ l.takeWhile p → p a = true := by
  intro l
  induction l with
  | nil => intro a h; simp at h
  | cons x xs ih =>
    intro a h
    rw [List.takeWhile_cons] at h
    split at h
    · simp only [List.mem_cons] at h
      rcases h with rfl | h
      · assumption
      · exact ih h
    · simp at h

/-- sequences are positions (the partition log is gapless and starts at 0) -/
def SeqOk (log : Log) : Prop := ∀ i (h : i < log.length), (log[i]).seq = i

theorem SeqOk.index {log : Log} (hw : SeqOk log) {e : Ev} (he : e ∈ log) :
    ∃ h : e.seq < log.length, log[e.seq] = e := by
  obtain ⟨i, hi, rfl⟩ := List.getElem_of_mem he
  have := hw i hi
  exact ⟨by rw [this]; exact hi, by simp [this]⟩

/-- every event below the definitional watermark carries a quorum count -/
theorem defWm_quorate {log : Log} {rf : Nat} (hw : SeqOk log) {e : Ev} (he : e ∈ log)
    (h : e.seq < defWm log rf) : quorum rf ≤ e.count := by
  obtain ⟨hi, hget⟩ := hw.index he
  unfold defWm at h
  have hp : log.takeWhile (quorate rf) <+: log := List.takeWhile_prefix _
  have h1 : (log.takeWhile (quorate rf))[e.seq] = log[e.seq] := hp.getElem h
  have h2 : (log.takeWhile (quorate rf))[e.seq] ∈ log.takeWhile (quorate rf) := List.getElem_mem h
  have h3 := mem_takeWhile_imp' h2
  rw [h1, hget] at h3
  simpa [quorate] using h3

theorem takeWhile_next_false {α : Type} {p : α → Bool} : ∀ (l : List α) (h : (l.takeWhile p).length < l.length),
    p (l[(l.takeWhile p).length]) = false := by
  intro l
  induction l with
  | nil => intro h; simp at h
  | cons x xs ih =>
    intro h
    by_cases hx : p x = true
    · have e : (x :: xs).takeWhile p = x :: xs.takeWhile p := by rw [List.takeWhile_cons]; simp [hx]
      simp only [e, List.length_cons, List.getElem_cons_succ]
      apply ih
    · have e : (x :: xs).takeWhile p = [] := by rw [List.takeWhile_cons]; simp [hx]
      simp only [e, List.length_nil, List.getElem_cons_zero]
      simpa using hx

/-- the event right at the definitional watermark has no quorum count -/
theorem defWm_next_unquorate {log : Log} {rf : Nat} (hw : SeqOk log) {e : Ev} (he : e ∈ log)
    (h : e.seq = defWm log rf) : e.count < quorum rf := by
  obtain ⟨hi, hget⟩ := hw.index he
  unfold defWm at h
  have := takeWhile_next_false (p := quorate rf) log (by rw [← h]; exact hi)
  simp only [← h, hget, quorate, decide_eq_false_iff_not, Nat.not_le] at this
  exact this

/-! ### (d) the stream version loop finds the first event below the watermark of the whole scan -/

theorem verLoop_eq_find {cut : Nat → Nat} {pid wm : Nat} :
    ∀ (fuel : Nat) (rest : List (List Ev)) (i : Nat), rest.length < fuel →
    verLoop cut pid wm fuel rest i =
      (rest.flatten.find? (fun e => e.part == pid && decide (e.seq < wm))).map (·.version) := by
  intro fuel
  induction fuel with
  | zero => intro rest i h; omega
  | succ fuel ih =>
    intro rest i hf
    unfold verLoop
    split
    · rename_i hb
      have := nextBatch_none (by unfold BATCH; omega) hb
      subst this; simp
    · rename_i batch rest' hb
      obtain ⟨hsplit, hlen, _⟩ := nextBatch_some hb
      subst hsplit
      rw [List.flatten_append, List.find?_append]
      unfold findBelow
      cases hfb : batch.flatten.find? (fun e => e.part == pid && decide (e.seq < wm)) with
      | some e => simp
      | none =>
        simp only [Option.map_none, Option.none_or]
        exact ih _ _ (by omega)

/-- the events of a stream, in log order, strictly increasing in sequence and version -/
def StreamSorted (evs : List Ev) : Prop := evs.Pairwise (fun a b => a.seq < b.seq ∧ a.version < b.version)

/-- the group a reverse stream scan yields at `e`: `e` followed by later events -/
theorem revGroup_shape {evs : List Ev} (hs : StreamSorted evs) {e : Ev} (he : e ∈ evs) :
    ∃ t, evs.filter (fun f => f.tx == e.tx && decide (e.version ≤ f.version)) = e :: t ∧
      ∀ f ∈ t, e.seq < f.seq := by
  obtain ⟨l1, l2, rfl⟩ := List.append_of_mem he
  have hp := List.pairwise_append.mp hs
  have h1 : l1.filter (fun f => f.tx == e.tx && decide (e.version ≤ f.version)) = [] := by
    rw [List.filter_eq_nil_iff]
    intro a ha
    have := (hp.2.2 a ha e List.mem_cons_self).2
    simp only [Bool.and_eq_true, beq_iff_eq, decide_eq_true_eq, not_and, Nat.not_le]
    intro _; exact this
  refine ⟨l2.filter (fun f => f.tx == e.tx && decide (e.version ≤ f.version)), ?_, ?_⟩
  · rw [List.filter_append, h1, List.nil_append, List.filter_cons]
    simp
  · intro f hf
    have hf2 := (List.mem_filter.mp hf).1
    exact ((List.pairwise_cons.mp hp.2.1).1 f hf2).1

/-- `find?` over the groups of a descending walk: the result is the first element of the walk
satisfying `p`, provided every group starts with its own element and otherwise only holds elements
that fail `p` whenever that element fails it -/
theorem find_descending {p : Ev → Bool} {g : Ev → List Ev} :
    ∀ (r : List Ev), (∀ x ∈ r, ∃ t, g x = x :: t ∧ ∀ f ∈ t, p x = false → p f = false) →
    (r.flatMap g).find? p = r.find? p := by
  intro r
  induction r with
  | nil => intro _; rfl
  | cons x r ih =>
    intro h
    obtain ⟨t, hg, ht⟩ := h x List.mem_cons_self
    rw [List.flatMap_cons, List.find?_append, hg, List.find?_cons, List.find?_cons]
    cases hx : p x with
    | true => simp
    | false =>
      have : t.find? p = none := by
        rw [List.find?_eq_none]; intro f hf; simpa using ht f hf hx
      simp only [this, Option.none_or]
      exact ih (fun y hy => h y (List.mem_cons_of_mem _ hy))

/-- the scan of `GetStreamVersion` finds the LAST event of the stream below the watermark -/
theorem revStream_find {log : Log} {stream wm : Nat}
    (hs : StreamSorted (log.filter (fun e => e.stream == stream))) :
    (revStream log stream).flatten.find? (fun e => decide (e.seq < wm)) =
      (log.filter (fun e => e.stream == stream)).reverse.find? (fun e => decide (e.seq < wm)) := by
  unfold revStream
  simp only
  rw [← List.flatMap_def]
  apply find_descending
  intro x hx
  obtain ⟨t, h1, h2⟩ := revGroup_shape hs (List.mem_reverse.mp hx)
  refine ⟨t, h1, ?_⟩
  intro f hf hpx
  have := h2 f hf
  simp only [decide_eq_false_iff_not, Nat.not_lt] at hpx ⊢
  omega

/-- first match of a descending list = its maximal matching element -/
theorem find_desc_max {wm : Nat} : ∀ (r : List Ev),
    r.Pairwise (fun a b => b.seq < a.seq ∧ b.version < a.version) →
    match r.find? (fun e => decide (e.seq < wm)) with
    | some e => e ∈ r ∧ e.seq < wm ∧ ∀ f ∈ r, f.seq < wm → f.seq ≤ e.seq ∧ f.version ≤ e.version
    | none => ∀ f ∈ r, ¬ f.seq < wm := by
  intro r
  induction r with
  | nil => intro _; simp
  | cons x r ih =>
    intro hs
    have hp := List.pairwise_cons.mp hs
    rw [List.find?_cons]
    by_cases hx : x.seq < wm
    · have hd : decide (x.seq < wm) = true := by simpa using hx
      simp only [hd]
      refine ⟨by simp, hx, ?_⟩
      intro f hf _
      simp only [List.mem_cons] at hf
      rcases hf with rfl | hf
      · omega
      · have := hp.1 f hf; omega
    · have hd : decide (x.seq < wm) = false := by simpa using hx
      simp only [hd]
      have ih' := ih hp.2
      split
      · rename_i e he
        rw [he] at ih'
        refine ⟨by simp [ih'.1], ih'.2.1, ?_⟩
        intro f hf hfw
        simp only [List.mem_cons] at hf
        rcases hf with rfl | hf
        · omega
        · exact ih'.2.2 f hf hfw
      · rename_i he
        rw [he] at ih'
        intro f hf
        simp only [List.mem_cons] at hf
        rcases hf with rfl | hf
        · exact hx
        · exact ih' f hf

theorem find_reverse_max {evs : List Ev} (hs : StreamSorted evs) {wm : Nat} :
    match evs.reverse.find? (fun e => decide (e.seq < wm)) with
    | some e => e ∈ evs ∧ e.seq < wm ∧ ∀ f ∈ evs, f.seq < wm → f.seq ≤ e.seq ∧ f.version ≤ e.version
    | none => ∀ f ∈ evs, ¬ f.seq < wm := by
  have := find_desc_max (wm := wm) evs.reverse (List.pairwise_reverse.mpr hs)
  simpa using this

theorem find?_congr' {α : Type} {p q : α → Bool} : ∀ {l : List α}, (∀ a ∈ l, p a = q a) → l.find? p = l.find? q := by
  intro l
  induction l with
  | nil => intro _; rfl
  | cons x xs ih =>
    intro h
    rw [List.find?_cons, List.find?_cons, h x List.mem_cons_self, ih (fun a ha => h a (List.mem_cons_of_mem _ ha))]

/-- versions of a stream grow along the log -/
def VerOk (log : Log) : Prop := log.Pairwise (fun a b => a.stream = b.stream → a.version < b.version)

theorem SeqOk.pairwise {log : Log} (hq : SeqOk log) : log.Pairwise (fun a b => a.seq < b.seq) := by
  rw [List.pairwise_iff_getElem]
  intro i j hi hj hij
  rw [hq i hi, hq j hj]; exact hij

theorem streamSorted_filter {log : Log} (hq : SeqOk log) (hv : VerOk log) (stream : Nat) :
    StreamSorted (log.filter (fun e => e.stream == stream)) := by
  have h := (hq.pairwise.and hv).filter (fun e => e.stream == stream)
  refine List.Pairwise.imp_of_mem ?_ h
  intro a b ha hb hab
  have ha' : a.stream = stream := by simpa using (List.mem_filter.mp ha).2
  have hb' : b.stream = stream := by simpa using (List.mem_filter.mp hb).2
  exact ⟨hab.1, hab.2 (by rw [ha', hb'])⟩

/-! ### (c) the partition loop consumes the scan in order, without gaps -/

/-- `F` is the scan: consecutive sequences from `start` -/
def Consecutive (start : Nat) (F : List Ev) : Prop := ∀ k (h : k < F.length), (F[k]).seq = start + k

theorem partBatch_inv {count effEnd wm start : Nat} {F : List Ev} (hF : Consecutive start F) :
    ∀ (evs : List Ev) (st st' : PSt) (tail : List Ev) (b : Bool),
    st.acc ++ (evs ++ tail) = F → st.lastRead = start + st.acc.length →
    partBatch count effEnd wm evs st = .ok (st', b) →
    st'.lastRead = start + st'.acc.length ∧ ∃ rem, st'.acc ++ rem = F ∧ (b = false → rem = tail) := by
  intro evs
  induction evs with
  | nil =>
    intro st st' tail b hacc hl h
    simp only [partBatch, Out.ok.injEq, Prod.mk.injEq] at h
    obtain ⟨rfl, rfl⟩ := h
    exact ⟨hl, tail, by simpa using hacc, fun _ => rfl⟩
  | cons e es ih =>
    intro st st' tail b hacc hl h
    unfold partBatch at h
    split at h
    · simp only [Out.ok.injEq, Prod.mk.injEq] at h; obtain ⟨rfl, rfl⟩ := h
      exact ⟨hl, _, hacc, by simp⟩
    · split at h
      · simp only [Out.ok.injEq, Prod.mk.injEq] at h; obtain ⟨rfl, rfl⟩ := h
        exact ⟨hl, _, hacc, by simp⟩
      · split at h
        · simp at h
        · rename_i n hn
          have hlen : st.acc.length < F.length := by rw [← hacc]; simp
          have hk := hF st.acc.length hlen
          have he : F[st.acc.length] = e := by
            simp only [← hacc, List.getElem_append_right (Nat.le_refl _), Nat.sub_self,
              List.cons_append, List.getElem_cons_zero]
          rw [he] at hk
          have hn' : n = e.seq + 1 := by
            unfold addU64 at hn; split at hn <;> simp at hn; omega
          exact ih { acc := st.acc ++ [e], lastRead := n } st' tail b
            (by simpa using hacc) (by simp only [List.length_append, List.length_singleton]; omega) h

theorem partLoop_inv {cut : Nat → Nat} {count effEnd wm start : Nat} {F : List Ev} (hF : Consecutive start F) :
    ∀ (fuel : Nat) (rest : List (List Ev)) (i : Nat) (st st' : PSt),
    st.acc ++ rest.flatten = F → st.lastRead = start + st.acc.length →
    partLoop cut count effEnd wm fuel rest i st = .ok st' →
    st'.lastRead = start + st'.acc.length ∧ ∃ rem, st'.acc ++ rem = F := by
  intro fuel
  induction fuel with
  | zero =>
    intro rest i st st' hacc hl h
    simp only [partLoop, Out.ok.injEq] at h; subst h; exact ⟨hl, _, hacc⟩
  | succ fuel ih =>
    intro rest i st st' hacc hl h
    unfold partLoop at h
    split at h
    · simp only [Out.ok.injEq] at h; subst h; exact ⟨hl, _, hacc⟩
    · rename_i batch rest' hb
      have hsplit := (nextBatch_some hb).1
      have hacc' : st.acc ++ (batch.flatten ++ rest'.flatten) = F := by
        rw [← List.flatten_append, ← hsplit]; exact hacc
      split at h
      · simp at h
      · rename_i st1 hp
        simp only [Out.ok.injEq] at h; subst h
        obtain ⟨h1, rem, h2, _⟩ := partBatch_inv hF _ _ _ _ _ hacc' hl hp
        exact ⟨h1, rem, h2⟩
      · rename_i st1 hp
        obtain ⟨h1, rem, h2, h3⟩ := partBatch_inv hF _ _ _ _ _ hacc' hl hp
        have h3' := h3 rfl; subst h3'
        split at h
        · simp only [Out.ok.injEq] at h; subst h; exact ⟨h1, _, h2⟩
        · split at h
          · simp only [Out.ok.injEq] at h; subst h; exact ⟨h1, _, h2⟩
          · exact ih _ _ _ _ h2 h1 h

theorem filter_ge_eq_drop {log : Log} (hq : SeqOk log) (start : Nat) :
    log.filter (fun e => decide (start ≤ e.seq)) = log.drop start := by
  conv => lhs; rw [← List.take_append_drop start log]
  rw [List.filter_append]
  have h1 : (log.take start).filter (fun e => decide (start ≤ e.seq)) = [] := by
    rw [List.filter_eq_nil_iff]
    intro e he
    obtain ⟨i, hi, rfl⟩ := List.getElem_of_mem he
    have hi' : i < log.length := by simp at hi; omega
    have hi2 : i < start := by simp at hi; omega
    rw [List.getElem_take, hq i hi']
    simp; omega
  have h2 : (log.drop start).filter (fun e => decide (start ≤ e.seq)) = log.drop start := by
    rw [List.filter_eq_self]
    intro e he
    obtain ⟨i, hi, rfl⟩ := List.getElem_of_mem he
    rw [List.getElem_drop, hq]
    simp
  rw [h1, h2, List.nil_append]

theorem fwdPart_consecutive {log : Log} (hq : SeqOk log) (start : Nat) :
    Consecutive start (fwdPart log start).flatten := by
  unfold fwdPart
  rw [groupTx_flatten]
  intro k hk
  have hk' : k < (log.drop start).length := by rw [← filter_ge_eq_drop hq]; exact hk
  have : (log.filter (fun e => decide (start ≤ e.seq)))[k] = (log.drop start)[k] := by
    simp only [filter_ge_eq_drop hq]
  rw [this, List.getElem_drop, hq]

/-- sequences identify events -/
theorem SeqOk.inj {log : Log} (hq : SeqOk log) {a b : Ev} (ha : a ∈ log) (hb : b ∈ log)
    (h : a.seq = b.seq) : a = b := by
  obtain ⟨_, ha'⟩ := hq.index ha
  obtain ⟨_, hb'⟩ := hq.index hb
  rw [← ha', ← hb']; simp [h]

/-! ### (c) the stream loop: while `has_more = false`, the accumulated events are a prefix of the
scan and a stop leaves only inadmissible / out-of-range events -/

theorem streamLimit_pos (endVer : Option Nat) (v : Nat) : streamLimit endVer v ≠ 0 := by
  unfold streamLimit
  split
  · exact clampBatch_pos _
  · unfold BATCH; omega

/-- what remains after a stop cannot be asked for: at/after the watermark or beyond the end version -/
def Gone (wm : Nat) (endVer : Option Nat) (rem : List Ev) : Prop :=
  ∀ f ∈ rem, wm ≤ f.seq ∨ beyondEnd endVer f.version = true

theorem streamCommit_len {pid count wm : Nat} {endVer : Option Nat} :
    ∀ (evs : List Ev) (st : SSt), st.acc.length ≤ (streamCommit pid count wm endVer evs st).1.acc.length := by
  intro evs
  induction evs with
  | nil => intro st; simp [streamCommit]
  | cons e es ih =>
    intro st
    unfold streamCommit
    split
    · simp
    · split
      · simp
      · split
        · simp
        · split
          · simp
          · have := ih { st with acc := st.acc ++ [e], lastVer := e.version }
            simp only [List.length_append, List.length_singleton] at this
            omega

theorem streamCommit_inv {pid count wm : Nat} {endVer : Option Nat} {F : List Ev} (hF : StreamSorted F)
    (hP : ∀ f ∈ F, f.part = pid) :
    ∀ (evs : List Ev) (st : SSt) (tail : List Ev),
    (st.hasMore = false → st.acc ++ (evs ++ tail) = F) →
    (streamCommit pid count wm endVer evs st).1.hasMore = false →
    st.hasMore = false ∧ ∃ rem, (streamCommit pid count wm endVer evs st).1.acc ++ rem = F ∧
      (match (streamCommit pid count wm endVer evs st).2 with
       | .none => rem = tail ∧ (evs ≠ [] → (streamCommit pid count wm endVer evs st).1.acc ≠ [])
       | .inner => False
       | .iter => Gone wm endVer rem) := by
  intro evs
  induction evs with
  | nil =>
    intro st tail hacc hm
    simp only [streamCommit] at hm ⊢
    exact ⟨hm, tail, by simpa using hacc hm, rfl, by simp⟩
  | cons e es ih =>
    intro st tail hacc hm
    unfold streamCommit at hm ⊢
    split
    · -- an event of another partition: impossible in the partition's own scan
      rename_i hpart
      simp only [hpart, if_true] at hm
      have : e ∈ F := by rw [← hacc hm]; simp
      have := hP e this
      simp [this] at hpart
    · rename_i hpart
      simp only [hpart, if_false] at hm
      split
      · rename_i hc; simp only [hc, if_true] at hm; simp at hm
      · rename_i hc
        simp only [hc, if_false] at hm
        split
        · rename_i hw
          simp only [hw, if_true] at hm
          refine ⟨hm, e :: es ++ tail, by simpa using hacc hm, ?_⟩
          intro f hf
          left
          have hp := (List.pairwise_append.mp (by rw [← hacc hm] at hF; exact hF)).2.1
          rw [List.cons_append] at hp hf
          simp only [List.mem_cons] at hf
          rcases hf with rfl | hf
          · exact hw
          · have := ((List.pairwise_cons.mp hp).1 f hf).1; omega
        · rename_i hw
          simp only [hw, if_false] at hm
          split
          · rename_i hb; simp only [hb, if_true] at hm; simp at hm
          · rename_i hb
            simp only [hb] at hm
            have hm' : ({ st with acc := st.acc ++ [e], lastVer := e.version } : SSt).hasMore = false → st.hasMore = false := id
            obtain ⟨h0, rem, h1, h2⟩ := ih { st with acc := st.acc ++ [e], lastVer := e.version } tail
              (fun h => by simpa using hacc (hm' h)) (by simpa using hm)
            refine ⟨h0, rem, h1, ?_⟩
            have hlen := streamCommit_len (pid := pid) (count := count) (wm := wm) (endVer := endVer) es
              { st with acc := st.acc ++ [e], lastVer := e.version }
            generalize hbr : (streamCommit pid count wm endVer es { st with acc := st.acc ++ [e], lastVer := e.version }).2 = br at h2 ⊢
            cases br with
            | none =>
              refine ⟨h2.1, fun _ hnil => ?_⟩
              rw [hnil] at hlen; simp at hlen
            | inner => exact h2
            | iter => exact h2

theorem streamBatch_inv {pid count wm : Nat} {endVer : Option Nat} {F : List Ev} (hF : StreamSorted F)
    (hP : ∀ f ∈ F, f.part = pid) :
    ∀ (cs : List (List Ev)) (st : SSt) (tail : List Ev), (∀ c ∈ cs, c ≠ []) →
    (st.hasMore = false → st.acc ++ (cs.flatten ++ tail) = F) →
    (streamBatch pid count wm endVer cs st).1.hasMore = false →
    st.hasMore = false ∧ ∃ rem, (streamBatch pid count wm endVer cs st).1.acc ++ rem = F ∧
      (if (streamBatch pid count wm endVer cs st).2 = true then Gone wm endVer rem else rem = tail) := by
  intro cs
  induction cs with
  | nil =>
    intro st tail _ hacc hm
    simp only [streamBatch] at hm ⊢
    exact ⟨hm, tail, by simpa using hacc hm, by simp⟩
  | cons c cs ih =>
    intro st tail hne hacc hm
    have hci := streamCommit_inv (pid := pid) (count := count) (wm := wm) (endVer := endVer) hF hP c st (cs.flatten ++ tail)
      (fun h => by simpa using hacc h)
    unfold streamBatch at hm ⊢
    cases hsc : streamCommit pid count wm endVer c st with
    | mk st' b =>
      rw [hsc] at hci hm
      simp only at hci
      cases b with
      | iter =>
        simp only at hm ⊢
        obtain ⟨h0, rem, h1, h2⟩ := hci hm
        exact ⟨h0, rem, h1, by simpa using h2⟩
      | inner =>
        simp only at hm ⊢
        split at hm
        · simp at hm
        · split at hm
          · exact absurd (hci hm).2 (by rintro ⟨_, _, h⟩; exact h)
          · have hrec := ih st' tail (fun x hx => hne x (List.mem_cons_of_mem _ hx))
              (fun h => absurd (hci h).2 (by rintro ⟨_, _, h⟩; exact h))
            rename_i h1 h2
            simp only [h1, h2, if_false] at hm ⊢
            have := hrec hm
            exact absurd (hci this.1).2 (by rintro ⟨_, _, h⟩; exact h)
      | none =>
        simp only at hm ⊢
        split at hm
        · simp at hm
        · rename_i hcnt
          split at hm
          · rename_i hre
            simp only [hcnt, hre, if_false, if_true]
            obtain ⟨h0, rem, h1, h2, h3⟩ := hci hm
            subst h2
            refine ⟨h0, _, h1, ?_⟩
            intro f hf
            right
            have hnz := h3 (hne c List.mem_cons_self)
            cases hl : st'.acc.getLast? with
            | none => exact absurd (List.getLast?_eq_none_iff.mp hl) hnz
            | some a =>
              have ha := List.mem_of_getLast? hl
              have hp := (List.pairwise_append.mp (by rw [← h1] at hF; exact hF)).2.2 a ha f hf
              rw [hl] at hre
              unfold reachedEnd at hre
              unfold beyondEnd
              cases endVer with
              | none => simp at hre
              | some ev =>
                simp only [Option.map_some, Option.getD_some, decide_eq_true_eq] at hre ⊢
                omega
          · rename_i hre
            simp only [hcnt, hre, if_false] at hm ⊢
            obtain ⟨h0', rem, h1, h2⟩ := ih st' tail (fun x hx => hne x (List.mem_cons_of_mem _ hx))
              (fun h => by obtain ⟨_, rem, h1, h2, _⟩ := hci h; subst h2; exact h1) hm
            exact ⟨(hci h0').1, rem, h1, h2⟩

theorem streamLoop_inv {cut : Nat → Nat} {pid count wm : Nat} {endVer : Option Nat} {F : List Ev} (hF : StreamSorted F)
    (hP : ∀ f ∈ F, f.part = pid) :
    ∀ (fuel : Nat) (rest : List (List Ev)) (i : Nat) (st : SSt), rest.length < fuel → (∀ c ∈ rest, c ≠ []) →
    (st.hasMore = false → st.acc ++ rest.flatten = F) →
    (streamLoop cut pid count wm endVer fuel rest i st).hasMore = false →
    ∃ rem, (streamLoop cut pid count wm endVer fuel rest i st).acc ++ rem = F ∧ Gone wm endVer rem := by
  intro fuel
  induction fuel with
  | zero => intro rest i st h; omega
  | succ fuel ih =>
    intro rest i st hfuel hne hacc hm
    unfold streamLoop at hm ⊢
    cases hb : nextBatch rest (cut i) (streamLimit endVer st.lastVer) with
    | none =>
      simp only [hb] at hm ⊢
      have := nextBatch_none (streamLimit_pos _ _) hb
      subst this
      exact ⟨[], by simpa using hacc hm, by intro f hf; simp at hf⟩
    | some p =>
      obtain ⟨batch, rest'⟩ := p
      simp only [hb] at hm ⊢
      obtain ⟨hsplit, hlen, _⟩ := nextBatch_some hb
      subst hsplit
      have hbi := streamBatch_inv (pid := pid) (count := count) (wm := wm) (endVer := endVer) hF hP batch st rest'.flatten
        (fun c hc => hne c (List.mem_append_left _ hc))
        (fun h => by rw [← List.flatten_append]; exact hacc h)
      cases hsb : streamBatch pid count wm endVer batch st with
      | mk st' b =>
        rw [hsb] at hbi hm
        cases b with
        | true =>
          simp only at hm ⊢
          obtain ⟨_, rem, h1, h2⟩ := hbi hm
          exact ⟨rem, h1, by simpa using h2⟩
        | false =>
          simp only at hm ⊢
          refine ih rest' (i + 1) st' (by omega) (fun c hc => hne c (List.mem_append_right _ hc)) ?_ hm
          intro h
          obtain ⟨_, rem, h1, h2⟩ := hbi h
          simp only [Bool.false_eq_true, if_false] at h2
          subst h2; exact h1

/-! ### exactness of the partition read: nothing is withheld below the count limit -/

/-- what remains after a stop is beyond the effective end or not below the watermark -/
def GoneP (effEnd wm : Nat) (rem : List Ev) : Prop := ∀ f ∈ rem, effEnd < f.seq ∨ wm ≤ f.seq

theorem partBatch_stop {count effEnd wm : Nat} {F : List Ev} (hS : F.Pairwise (fun a b => a.seq < b.seq)) :
    ∀ (evs : List Ev) (st st' : PSt) (tail : List Ev) (b : Bool),
    st.acc ++ (evs ++ tail) = F → st.acc.length ≤ count →
    partBatch count effEnd wm evs st = .ok (st', b) →
    st'.acc.length ≤ count ∧ (b = false → st'.acc = st.acc ++ evs) ∧
    ∃ rem, st'.acc ++ rem = F ∧ (b = false → rem = tail) ∧
      (b = true → st'.acc.length < count → GoneP effEnd wm rem) := by
  intro evs
  induction evs with
  | nil =>
    intro st st' tail b hacc hc h
    simp only [partBatch, Out.ok.injEq, Prod.mk.injEq] at h
    obtain ⟨rfl, rfl⟩ := h
    exact ⟨hc, by simp, tail, by simpa using hacc, by simp, by simp⟩
  | cons e es ih =>
    intro st st' tail b hacc hc h
    unfold partBatch at h
    split at h
    · simp only [Out.ok.injEq, Prod.mk.injEq] at h; obtain ⟨rfl, rfl⟩ := h
      exact ⟨hc, by simp, _, hacc, by simp, fun _ hlt => by omega⟩
    · rename_i hcnt
      split at h
      · rename_i hg
        simp only [Out.ok.injEq, Prod.mk.injEq] at h; obtain ⟨rfl, rfl⟩ := h
        refine ⟨hc, by simp, e :: es ++ tail, by simpa using hacc, by simp, fun _ _ => ?_⟩
        intro f hf
        have hp := (List.pairwise_append.mp (by rw [← hacc] at hS; exact hS)).2.1
        rw [List.cons_append] at hp hf
        simp only [Bool.or_eq_true, decide_eq_true_eq] at hg
        simp only [List.mem_cons] at hf
        rcases hf with rfl | hf
        · omega
        · have := (List.pairwise_cons.mp hp).1 f hf; omega
      · split at h
        · simp at h
        · obtain ⟨h1, h2, h3⟩ := ih { acc := st.acc ++ [e], lastRead := _ } st' tail b
            (by simpa using hacc) (by simp only [List.length_append, List.length_singleton]; omega) h
          exact ⟨h1, fun hb => by simpa using h2 hb, h3⟩

theorem flatten_ne_nil_of {batch : List (List Ev)} (hb : batch ≠ []) (hne : ∀ c ∈ batch, c ≠ []) :
    batch.flatten ≠ [] := by
  cases batch with
  | nil => exact absurd rfl hb
  | cons c cs =>
    have := hne c List.mem_cons_self
    cases c with
    | nil => exact absurd rfl this
    | cons x xs => simp

theorem partLoop_stop {cut : Nat → Nat} {count effEnd wm : Nat} {F : List Ev}
    (hS : F.Pairwise (fun a b => a.seq < b.seq)) :
    ∀ (fuel : Nat) (rest : List (List Ev)) (i : Nat) (st st' : PSt), rest.length < fuel →
    (∀ c ∈ rest, c ≠ []) → st.acc ++ rest.flatten = F → st.acc.length ≤ count →
    partLoop cut count effEnd wm fuel rest i st = .ok st' →
    st'.acc.length ≤ count ∧ ∃ rem, st'.acc ++ rem = F ∧ (st'.acc.length < count → GoneP effEnd wm rem) := by
  intro fuel
  induction fuel with
  | zero => intro rest i st st' h; omega
  | succ fuel ih =>
    intro rest i st st' hfuel hne hacc hc h
    unfold partLoop at h
    split at h
    · rename_i hb
      have := nextBatch_none (clampBatch_pos _) hb
      subst this
      simp only [Out.ok.injEq] at h; subst h
      exact ⟨hc, [], by simpa using hacc, fun _ f hf => by simp at hf⟩
    · rename_i batch rest' hb
      obtain ⟨hsplit, hlen, hbne⟩ := nextBatch_some hb
      subst hsplit
      have hacc' : st.acc ++ (batch.flatten ++ rest'.flatten) = F := by
        rw [← List.flatten_append]; exact hacc
      split at h
      · simp at h
      · rename_i st1 hp
        simp only [Out.ok.injEq] at h; subst h
        obtain ⟨h1, _, rem, h4, _, h5⟩ := partBatch_stop hS _ _ _ _ _ hacc' hc hp
        exact ⟨h1, rem, h4, h5 rfl⟩
      · rename_i st1 hp
        obtain ⟨h1, h2, rem, h4, h5, _⟩ := partBatch_stop hS _ _ _ _ _ hacc' hc hp
        have h2' := h2 rfl
        have h5' := h5 rfl; subst h5'
        split at h
        · rename_i hcnt
          simp only [Out.ok.injEq] at h; subst h
          exact ⟨h1, _, h4, fun hlt => by omega⟩
        · split at h
          · rename_i hlast
            simp only [Out.ok.injEq] at h; subst h
            refine ⟨h1, _, h4, fun _ f hf => ?_⟩
            left
            have hnz : st1.acc ≠ [] := by
              rw [h2']
              have := flatten_ne_nil_of hbne (fun c hc => hne c (List.mem_append_left _ hc))
              simp [this]
            cases hl : st1.acc.getLast? with
            | none => exact absurd (List.getLast?_eq_none_iff.mp hl) hnz
            | some a =>
              have ha := List.mem_of_getLast? hl
              have := (List.pairwise_append.mp (by rw [← h4] at hS; exact hS)).2.2 a ha f hf
              rw [hl] at hlast
              simp only [Option.map_some, Option.getD_some, ge_iff_le] at hlast
              omega
          · exact ih _ _ _ _ (by omega) (fun c hc => hne c (List.mem_append_right _ hc)) h4 h1 h

/-! ### exactness of the stream read -/

/-- admissible and not beyond the end version -/
def goodS (wm : Nat) (endVer : Option Nat) (e : Ev) : Bool := decide (e.seq < wm) && !beyondEnd endVer e.version
def AllBad (wm : Nat) (endVer : Option Nat) (l : List Ev) : Prop := ∀ f ∈ l, goodS wm endVer f = false
def AllGood (wm : Nat) (endVer : Option Nat) (l : List Ev) : Prop := ∀ f ∈ l, goodS wm endVer f = true

/-- dead mode: events that are all inadmissible / beyond the end never change the accumulator -/
theorem streamCommit_dead {pid count wm : Nat} {endVer : Option Nat} :
    ∀ (evs : List Ev) (st : SSt), AllBad wm endVer evs →
    (streamCommit pid count wm endVer evs st).1.acc = st.acc := by
  intro evs
  induction evs with
  | nil => intro st _; simp [streamCommit]
  | cons e es ih =>
    intro st hb
    unfold streamCommit
    split
    · rfl
    · split
      · rfl
      · split
        · rfl
        · rename_i hw
          split
          · rfl
          · rename_i hbe
            have := hb e List.mem_cons_self
            simp only [goodS, Bool.and_eq_false_iff, decide_eq_false_iff_not, Bool.not_eq_false'] at this
            rcases this with h | h
            · omega
            · simp [h] at hbe

theorem streamBatch_dead {pid count wm : Nat} {endVer : Option Nat} :
    ∀ (cs : List (List Ev)) (st : SSt), AllBad wm endVer cs.flatten →
    (streamBatch pid count wm endVer cs st).1.acc = st.acc := by
  intro cs
  induction cs with
  | nil => intro st _; simp [streamBatch]
  | cons c cs ih =>
    intro st hb
    have h1 := streamCommit_dead (pid := pid) (count := count) c st (fun f hf => hb f (by simp [hf]))
    have hb' : AllBad wm endVer cs.flatten := fun f hf => hb f (by simp [hf])
    unfold streamBatch
    cases hsc : streamCommit pid count wm endVer c st with
    | mk st' b =>
      rw [hsc] at h1
      simp only at h1
      cases b with
      | iter => exact h1
      | none =>
        simp only
        split
        · exact h1
        · split
          · exact h1
          · rw [ih st' hb']; exact h1
      | inner =>
        simp only
        split
        · exact h1
        · split
          · exact h1
          · rw [ih st' hb']; exact h1

theorem streamLoop_dead {cut : Nat → Nat} {pid count wm : Nat} {endVer : Option Nat} :
    ∀ (fuel : Nat) (rest : List (List Ev)) (i : Nat) (st : SSt), AllBad wm endVer rest.flatten →
    (streamLoop cut pid count wm endVer fuel rest i st).acc = st.acc := by
  intro fuel
  induction fuel with
  | zero => intro rest i st _; simp [streamLoop]
  | succ fuel ih =>
    intro rest i st hb
    unfold streamLoop
    cases hnb : nextBatch rest (cut i) (streamLimit endVer st.lastVer) with
    | none => rfl
    | some p =>
      obtain ⟨batch, rest'⟩ := p
      simp only
      have hsplit := (nextBatch_some hnb).1
      have h1 := streamBatch_dead (pid := pid) (count := count) batch st
        (fun f hf => hb f (by rw [hsplit, List.flatten_append]; exact List.mem_append_left _ hf))
      cases hsb : streamBatch pid count wm endVer batch st with
      | mk st' b =>
        rw [hsb] at h1
        cases b with
        | true => exact h1
        | false =>
          simp only
          rw [ih rest' (i + 1) st' (fun f hf => hb f (by rw [hsplit, List.flatten_append]; exact List.mem_append_right _ hf))]
          exact h1

/-- bad events stay bad further along a sorted scan -/
theorem bad_after {wm : Nat} {endVer : Option Nat} {e f : Ev} (h : goodS wm endVer e = false)
    (hs : e.seq < f.seq ∧ e.version < f.version) : goodS wm endVer f = false := by
  simp only [goodS, Bool.and_eq_false_iff, decide_eq_false_iff_not, Bool.not_eq_false'] at h ⊢
  rcases h with h | h
  · left; omega
  · right
    unfold beyondEnd at h ⊢
    cases endVer with
    | none => simp at h
    | some ev => simp only [decide_eq_true_eq] at h ⊢; omega

theorem allBad_cons_of_head {wm : Nat} {endVer : Option Nat} {e : Ev} {l : List Ev}
    (hs : StreamSorted (e :: l)) (h : goodS wm endVer e = false) : AllBad wm endVer (e :: l) := by
  intro f hf
  simp only [List.mem_cons] at hf
  rcases hf with rfl | hf
  · exact h
  · exact bad_after h ((List.pairwise_cons.mp hs).1 f hf)

theorem streamCommit_live {pid count wm : Nat} {endVer : Option Nat} {F : List Ev} (hF : StreamSorted F)
    (hP : ∀ f ∈ F, f.part = pid) :
    ∀ (evs : List Ev) (st : SSt) (tail : List Ev),
    st.acc ++ (evs ++ tail) = F → AllGood wm endVer st.acc → st.acc.length ≤ count →
    AllGood wm endVer (streamCommit pid count wm endVer evs st).1.acc ∧
    (streamCommit pid count wm endVer evs st).1.acc.length ≤ count ∧
    ∃ rem, (streamCommit pid count wm endVer evs st).1.acc ++ rem = F ∧ (∃ pre, rem = pre ++ tail) ∧
      (match (streamCommit pid count wm endVer evs st).2 with
       | .none => rem = tail ∧ (evs ≠ [] → (streamCommit pid count wm endVer evs st).1.acc ≠ [])
       | .inner => AllBad wm endVer rem
       | .iter => (streamCommit pid count wm endVer evs st).1.acc.length < count → AllBad wm endVer rem) := by
  intro evs
  induction evs with
  | nil =>
    intro st tail hacc hg hc
    simp only [streamCommit]
    exact ⟨hg, hc, tail, by simpa using hacc, ⟨[], rfl⟩, rfl, by simp⟩
  | cons e es ih =>
    intro st tail hacc hg hc
    have hsuf : StreamSorted (e :: (es ++ tail)) := by
      have := (List.pairwise_append.mp (by rw [← hacc] at hF; exact hF)).2.1
      rw [List.cons_append] at this
      exact this
    unfold streamCommit
    split
    · rename_i hpart
      have : e ∈ F := by rw [← hacc]; simp
      have := hP e this
      simp [this] at hpart
    · split
      · rename_i hcnt
        exact ⟨hg, hc, e :: es ++ tail, by simpa using hacc, ⟨e :: es, by simp⟩, fun hlt => by simp only at hlt; omega⟩
      · rename_i hcnt
        split
        · rename_i hw
          refine ⟨hg, hc, e :: es ++ tail, by simpa using hacc, ⟨e :: es, by simp⟩, fun _ => ?_⟩
          rw [List.cons_append]
          exact allBad_cons_of_head hsuf (by simp [goodS]; intro h; omega)
        · rename_i hw
          split
          · rename_i hbe
            refine ⟨hg, hc, e :: es ++ tail, by simpa using hacc, ⟨e :: es, by simp⟩, ?_⟩
            simp only
            rw [List.cons_append]
            exact allBad_cons_of_head hsuf (by simp [goodS, hbe])
          · rename_i hbe
            have hge : goodS wm endVer e = true := by
              simp only [goodS, Bool.and_eq_true, decide_eq_true_eq, Bool.not_eq_true']
              exact ⟨by omega, by simpa using hbe⟩
            obtain ⟨h1, h2, rem, h3, h4, h5⟩ := ih { st with acc := st.acc ++ [e], lastVer := e.version } tail
              (by simpa using hacc)
              (by intro f hf; simp only [List.mem_append, List.mem_singleton] at hf
                  rcases hf with hf | rfl
                  · exact hg f hf
                  · exact hge)
              (by simp only [List.length_append, List.length_singleton]; omega)
            refine ⟨h1, h2, rem, h3, h4, ?_⟩
            have hlen := streamCommit_len (pid := pid) (count := count) (wm := wm) (endVer := endVer) es
              { st with acc := st.acc ++ [e], lastVer := e.version }
            generalize hbr : (streamCommit pid count wm endVer es { st with acc := st.acc ++ [e], lastVer := e.version }).2 = br at h5 ⊢
            cases br with
            | none =>
              refine ⟨h5.1, fun _ hnil => ?_⟩
              rw [hnil] at hlen; simp at hlen
            | inner => exact h5
            | iter => exact h5

theorem streamBatch_live {pid count wm : Nat} {endVer : Option Nat} {F : List Ev} (hF : StreamSorted F)
    (hP : ∀ f ∈ F, f.part = pid) :
    ∀ (cs : List (List Ev)) (st : SSt) (tail : List Ev), (∀ c ∈ cs, c ≠ []) →
    st.acc ++ (cs.flatten ++ tail) = F → AllGood wm endVer st.acc → st.acc.length ≤ count →
    AllGood wm endVer (streamBatch pid count wm endVer cs st).1.acc ∧
    (streamBatch pid count wm endVer cs st).1.acc.length ≤ count ∧
    ∃ rem, (streamBatch pid count wm endVer cs st).1.acc ++ rem = F ∧ (∃ pre, rem = pre ++ tail) ∧
      (((streamBatch pid count wm endVer cs st).2 = false ∧ rem = tail) ∨
       ((streamBatch pid count wm endVer cs st).2 = true ∧
          ((streamBatch pid count wm endVer cs st).1.acc.length < count → AllBad wm endVer rem)) ∨
       ((streamBatch pid count wm endVer cs st).2 = false ∧ AllBad wm endVer rem)) := by
  intro cs
  induction cs with
  | nil =>
    intro st tail _ hacc hg hc
    simp only [streamBatch]
    exact ⟨hg, hc, tail, by simpa using hacc, ⟨[], rfl⟩, Or.inl ⟨by simp, by simp⟩⟩
  | cons c cs ih =>
    intro st tail hne hacc hg hc
    have hci := streamCommit_live (pid := pid) (count := count) (wm := wm) (endVer := endVer) hF hP c st
      (cs.flatten ++ tail) (by simpa using hacc) hg hc
    have hne' : ∀ x ∈ cs, x ≠ [] := fun x hx => hne x (List.mem_cons_of_mem _ hx)
    unfold streamBatch
    cases hsc : streamCommit pid count wm endVer c st with
    | mk st' b =>
      rw [hsc] at hci
      simp only at hci
      obtain ⟨h1, h2, rem, h3, ⟨pre, h4⟩, h5⟩ := hci
      have hpre : ∃ p, rem = p ++ tail := ⟨pre ++ cs.flatten, by rw [h4]; simp⟩
      cases b with
      | iter =>
        simp only at h5 ⊢
        exact ⟨h1, h2, rem, h3, hpre, Or.inr (Or.inl ⟨by simp, h5⟩)⟩
      | inner =>
        simp only at h5 ⊢
        split
        · exact ⟨h1, h2, rem, h3, hpre, Or.inr (Or.inl ⟨by simp, fun _ => h5⟩)⟩
        · split
          · exact ⟨h1, h2, rem, h3, hpre, Or.inr (Or.inl ⟨by simp, fun _ => h5⟩)⟩
          · -- dead mode: the rest of the batch cannot change the accumulator
            have hbad : AllBad wm endVer cs.flatten := fun f hf => h5 f (by rw [h4]; simp [hf])
            have hd := streamBatch_dead (pid := pid) (count := count) cs st' hbad
            rw [hd]
            refine ⟨h1, h2, rem, h3, hpre, ?_⟩
            cases (streamBatch pid count wm endVer cs st').2 with
            | true => exact Or.inr (Or.inl ⟨by simp, fun _ => h5⟩)
            | false => exact Or.inr (Or.inr ⟨by simp, h5⟩)
      | none =>
        simp only at h5 ⊢
        obtain ⟨h5a, h5b⟩ := h5
        subst h5a
        split
        · rename_i hcnt
          exact ⟨h1, h2, _, h3, hpre, Or.inr (Or.inl ⟨by simp, fun hlt => by simp only at hlt; omega⟩)⟩
        · split
          · rename_i hre
            refine ⟨h1, h2, _, h3, hpre, Or.inr (Or.inl ⟨by simp, fun _ => ?_⟩)⟩
            intro f hf
            have hnz := h5b (hne c List.mem_cons_self)
            cases hl : st'.acc.getLast? with
            | none => exact absurd (List.getLast?_eq_none_iff.mp hl) hnz
            | some a =>
              have ha := List.mem_of_getLast? hl
              have hp := (List.pairwise_append.mp (by rw [← h3] at hF; exact hF)).2.2 a ha f hf
              rw [hl] at hre
              unfold reachedEnd at hre
              simp only [goodS, Bool.and_eq_false_iff, decide_eq_false_iff_not, Bool.not_eq_false']
              right
              unfold beyondEnd
              cases endVer with
              | none => simp at hre
              | some ev =>
                simp only [Option.map_some, Option.getD_some, decide_eq_true_eq] at hre ⊢
                omega
          · obtain ⟨i1, i2, rem', i3, ⟨pre', i4⟩, i5⟩ := ih st' tail hne' h3 h1 h2
            exact ⟨i1, i2, rem', i3, ⟨pre', i4⟩, i5⟩

theorem streamLoop_live {cut : Nat → Nat} {pid count wm : Nat} {endVer : Option Nat} {F : List Ev}
    (hF : StreamSorted F) (hP : ∀ f ∈ F, f.part = pid) :
    ∀ (fuel : Nat) (rest : List (List Ev)) (i : Nat) (st : SSt), rest.length < fuel → (∀ c ∈ rest, c ≠ []) →
    st.acc ++ rest.flatten = F → AllGood wm endVer st.acc → st.acc.length ≤ count →
    AllGood wm endVer (streamLoop cut pid count wm endVer fuel rest i st).acc ∧
    (streamLoop cut pid count wm endVer fuel rest i st).acc.length ≤ count ∧
    ∃ rem, (streamLoop cut pid count wm endVer fuel rest i st).acc ++ rem = F ∧
      ((streamLoop cut pid count wm endVer fuel rest i st).acc.length < count → AllBad wm endVer rem) := by
  intro fuel
  induction fuel with
  | zero => intro rest i st h; omega
  | succ fuel ih =>
    intro rest i st hfuel hne hacc hg hc
    unfold streamLoop
    cases hb : nextBatch rest (cut i) (streamLimit endVer st.lastVer) with
    | none =>
      simp only
      have := nextBatch_none (streamLimit_pos _ _) hb
      subst this
      exact ⟨hg, hc, [], by simpa using hacc, fun _ f hf => by simp at hf⟩
    | some p =>
      obtain ⟨batch, rest'⟩ := p
      simp only
      obtain ⟨hsplit, hlen, _⟩ := nextBatch_some hb
      subst hsplit
      have hbl := streamBatch_live (pid := pid) (count := count) (wm := wm) (endVer := endVer) hF hP batch st
        rest'.flatten (fun c hc => hne c (List.mem_append_left _ hc))
        (by rw [← List.flatten_append]; exact hacc) hg hc
      cases hsb : streamBatch pid count wm endVer batch st with
      | mk st' b =>
        rw [hsb] at hbl
        simp only at hbl
        obtain ⟨h1, h2, rem, h3, ⟨pre, h4⟩, h5⟩ := hbl
        cases b with
        | true =>
          simp only
          rcases h5 with ⟨h, _⟩ | ⟨_, h⟩ | ⟨h, _⟩
          · simp at h
          · exact ⟨h1, h2, rem, h3, h⟩
          · simp at h
        | false =>
          simp only
          rcases h5 with ⟨_, h⟩ | ⟨h, _⟩ | ⟨_, h⟩
          · subst h
            exact ih rest' (i + 1) st' (by omega) (fun c hc => hne c (List.mem_append_right _ hc)) h3 h1 h2
          · simp at h
          · have hbad : AllBad wm endVer rest'.flatten := fun f hf => h f (by rw [h4]; simp [hf])
            rw [streamLoop_dead fuel rest' (i + 1) st' hbad]
            exact ⟨h1, h2, rem, h3, fun _ => h⟩

end SierraModel.Cluster.ReadGate
