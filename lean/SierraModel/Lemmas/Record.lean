import SierraModel.Seglog.Record
import Mathlib.Tactic.Set

namespace SierraModel.Seglog

theorem le32_length (n : Nat) : (le32 n).length = 4 := rfl

theorem fromLe32_le32 (n : Nat) (h : n < 2 ^ 32) : fromLe32 (le32 n) = n := by
  simp only [le32, fromLe32, UInt8.toNat_ofNat']
  omega

theorem slice_append_mid (pre mid post : Bytes) :
    slice (pre ++ mid ++ post) pre.length mid.length = mid := by
  simp [slice, List.append_assoc]

theorem slice_prefix_of_mid (pre mid post : Bytes) (k : Nat) (hk : k ≤ mid.length) :
    slice (pre ++ mid ++ post) pre.length k = mid.take k := by
  simp only [slice, List.append_assoc, List.drop_left']
  rw [List.take_append_of_le_length hk]

theorem slice_inner (pre a b post : Bytes) :
    slice (pre ++ (a ++ b) ++ post) (pre.length + a.length) b.length = b := by
  have : pre ++ (a ++ b) ++ post = (pre ++ a) ++ b ++ post := by simp [List.append_assoc]
  rw [this, ← List.length_append]
  exact slice_append_mid (pre ++ a) b post

/-- the 8-byte record head is never the all-zero truncation marker: if the length field is zero
the CRC of four zero bytes is not zero (evaluated) -/
theorem crc_zero_len_ne : (crc32 (le32 0)).toNat ≠ 0 := by decide +kernel

theorem le32_eq_zero_iff (n : Nat) (h : n < 2 ^ 32) : (le32 n).all (· == 0) = true → n = 0 := by
  intro hz
  have h1 := fromLe32_le32 n h
  simp only [le32, List.all_cons, List.all_nil, Bool.and_true, Bool.and_eq_true, beq_iff_eq] at hz
  obtain ⟨a, b, c, d⟩ := hz
  simp only [le32, fromLe32, a, b, c, d] at h1
  simpa using h1.symm

end SierraModel.Seglog

namespace SierraModel.Seglog

structure WF (H : Nat) (hdr stored : Bytes) (c : Bool) : Prop where
  hlen : hdr.length = H
  small : H + stored.length < 2 ^ 31
  zlen : c = true → 4 ≤ stored.length

def lenFlagOf (hdr stored : Bytes) (c : Bool) : Nat :=
  (hdr.length + stored.length) + (if c then COMPRESSION_FLAG else 0)

theorem encodeRec_eq (hdr stored : Bytes) (c : Bool) :
    encodeRec hdr stored c =
      (le32 (lenFlagOf hdr stored c) ++ le32 (crc32 (le32 (lenFlagOf hdr stored c) ++ hdr ++ stored)).toNat) ++ (hdr ++ stored) := by
  simp [encodeRec, lenFlagOf, List.append_assoc]

theorem encodeRec_length (hdr stored : Bytes) (c : Bool) :
    (encodeRec hdr stored c).length = RECORD_HEAD_SIZE + hdr.length + stored.length := by
  rw [encodeRec_eq]; simp [le32_length, RECORD_HEAD_SIZE]; omega

theorem lenFlag_lt {H : Nat} {hdr stored : Bytes} {c : Bool} (wf : WF H hdr stored c) :
    lenFlagOf hdr stored c < 2 ^ 32 := by
  have := wf.small; have := wf.hlen
  unfold lenFlagOf COMPRESSION_FLAG
  split <;> omega

theorem lenFlag_mod {H : Nat} {hdr stored : Bytes} {c : Bool} (wf : WF H hdr stored c) :
    lenFlagOf hdr stored c % COMPRESSION_FLAG = H + stored.length := by
  have := wf.small; have := wf.hlen
  unfold lenFlagOf COMPRESSION_FLAG
  split <;> omega

theorem lenFlag_ge {H : Nat} {hdr stored : Bytes} {c : Bool} (wf : WF H hdr stored c) :
    decide (lenFlagOf hdr stored c ≥ COMPRESSION_FLAG) = c := by
  have := wf.small; have := wf.hlen
  unfold lenFlagOf COMPRESSION_FLAG
  cases c <;> simp <;> omega

theorem head_not_marker {H : Nat} {hdr stored : Bytes} {c : Bool} (wf : WF H hdr stored c) :
    (le32 (lenFlagOf hdr stored c) ++ le32 (crc32 (le32 (lenFlagOf hdr stored c) ++ hdr ++ stored)).toNat).all (· == 0) = false := by
  cases hz : (le32 (lenFlagOf hdr stored c) ++ le32 (crc32 (le32 (lenFlagOf hdr stored c) ++ hdr ++ stored)).toNat).all (· == 0) with
  | false => rfl
  | true =>
    exfalso
    rw [List.all_append, Bool.and_eq_true] at hz
    have h0 := le32_eq_zero_iff _ (lenFlag_lt wf) hz.1
    have hh : hdr = [] ∧ stored = [] := by
      have : hdr.length + stored.length = 0 := by
        unfold lenFlagOf at h0; omega
      constructor <;> (apply List.eq_nil_of_length_eq_zero; omega)
    obtain ⟨rfl, rfl⟩ := hh
    have hc := le32_eq_zero_iff _ (BitVec.isLt _) hz.2
    rw [h0] at hc
    simp only [List.append_nil] at hc
    exact crc_zero_len_ne hc

theorem parseAt_encode (H : Nat) (pre post hdr stored : Bytes) (c : Bool) (wf : WF H hdr stored c)
    (limit : Nat) (hl : pre.length + (encodeRec hdr stored c).length ≤ limit) :
    parseAt H (pre ++ encodeRec hdr stored c ++ post) limit pre.length =
      .ok { hdr := hdr, stored := stored, compressed := c, len := RECORD_HEAD_SIZE + (H + stored.length) } := by
  have hlen := wf.hlen
  rw [encodeRec_length] at hl
  set L := lenFlagOf hdr stored c with hL
  set head := le32 L ++ le32 (crc32 (le32 L ++ hdr ++ stored)).toNat with hhead
  have hheadlen : head.length = RECORD_HEAD_SIZE := by simp [hhead, le32_length, RECORD_HEAD_SIZE]
  have hbytes : pre ++ encodeRec hdr stored c ++ post = pre ++ (head ++ (hdr ++ stored)) ++ post := by
    rw [encodeRec_eq]
  have hslice1 : slice (pre ++ encodeRec hdr stored c ++ post) pre.length RECORD_HEAD_SIZE = head := by
    rw [hbytes, ← hheadlen]
    have : pre ++ (head ++ (hdr ++ stored)) ++ post = pre ++ head ++ ((hdr ++ stored) ++ post) := by
      simp [List.append_assoc]
    rw [this]; exact slice_append_mid pre head _
  have hslice2 : slice (pre ++ encodeRec hdr stored c ++ post) (pre.length + RECORD_HEAD_SIZE) (H + stored.length)
      = hdr ++ stored := by
    have h := slice_inner pre head (hdr ++ stored) post
    rw [hheadlen, List.length_append, hlen] at h
    rw [hbytes]; exact h
  have htake : head.take 4 = le32 L := List.take_left' (le32_length L)
  have hdrop : head.drop 4 = le32 (crc32 (le32 L ++ hdr ++ stored)).toNat := List.drop_left' (le32_length L)
  have hLlt : L < 2 ^ 32 := lenFlag_lt wf
  have hmod : L % COMPRESSION_FLAG = H + stored.length := lenFlag_mod wf
  have hge : decide (L ≥ COMPRESSION_FLAG) = c := lenFlag_ge wf
  have hnm : head.all (· == 0) = false := head_not_marker wf
  unfold parseAt
  rw [if_neg (by unfold RECORD_HEAD_SIZE at *; omega)]
  simp only [hslice1]
  rw [hnm]
  simp only [Bool.false_eq_true, if_false, htake, hdrop, fromLe32_le32 L hLlt,
    fromLe32_le32 _ (BitVec.isLt _), hmod, hge]
  rw [if_neg (by unfold RECORD_HEAD_SIZE at *; omega), if_neg (by omega)]
  simp only [hslice2]
  have ht : (hdr ++ stored).take H = hdr := by rw [← hlen]; simp
  have hd : (hdr ++ stored).drop H = stored := by rw [← hlen]; simp
  simp only [ht, hd, ne_eq, not_true_eq_false, if_false]
  have hz : (c && decide (stored.length < 4)) = false := by
    cases hc : c with
    | false => rfl
    | true => have := wf.zlen hc; simp; omega
  simp [hz]

end SierraModel.Seglog

namespace SierraModel.Seglog

abbrev RecIn := Bytes × Bytes × Bool   -- (header, stored data, compressed)

def encodeAll (rs : List RecIn) : Bytes := rs.flatMap (fun r => encodeRec r.1 r.2.1 r.2.2)

def recOf (H : Nat) (r : RecIn) : Rec :=
  { hdr := r.1, stored := r.2.1, compressed := r.2.2, len := RECORD_HEAD_SIZE + (H + r.2.1.length) }

/-- the (offset, record) list a scan from `off` must produce -/
def placed (H : Nat) : Nat → List RecIn → List (Nat × Rec)
  | _, [] => []
  | off, r :: rs => (off, recOf H r) :: placed H (off + (recOf H r).len) rs

theorem encodeRec_len_recOf (H : Nat) (r : RecIn) (wf : WF H r.1 r.2.1 r.2.2) :
    (encodeRec r.1 r.2.1 r.2.2).length = (recOf H r).len := by
  rw [encodeRec_length, wf.hlen]; simp [recOf, RECORD_HEAD_SIZE]; omega

theorem iterFrom_encodeAll (H : Nat) (rs : List RecIn) :
    ∀ (pre post : Bytes) (limit fuel : Nat), (∀ r ∈ rs, WF H r.1 r.2.1 r.2.2) → rs.length < fuel →
      pre.length + (encodeAll rs).length ≤ limit →
      (parseAt H (pre ++ encodeAll rs ++ post) limit (pre.length + (encodeAll rs).length) = .error .oob ∨
       parseAt H (pre ++ encodeAll rs ++ post) limit (pre.length + (encodeAll rs).length) = .error .trunc) →
      iterFrom H (pre ++ encodeAll rs ++ post) limit fuel pre.length = (placed H pre.length rs, none) := by
  induction rs with
  | nil =>
    intro pre post limit fuel _ hf _ hstop
    cases fuel with
    | zero => omega
    | succ fuel =>
      simp only [encodeAll, List.flatMap_nil, List.append_nil, List.length_nil, Nat.add_zero] at hstop ⊢
      unfold iterFrom
      rcases hstop with h | h <;> simp [h, placed]
  | cons r rs ih =>
    intro pre post limit fuel hwf hf hlim hstop
    cases fuel with
    | zero => omega
    | succ fuel =>
      have wf := hwf r (by simp)
      have henc : encodeAll (r :: rs) = encodeRec r.1 r.2.1 r.2.2 ++ encodeAll rs := by simp [encodeAll]
      have hre : pre ++ encodeAll (r :: rs) ++ post = pre ++ encodeRec r.1 r.2.1 r.2.2 ++ (encodeAll rs ++ post) := by
        rw [henc]; simp [List.append_assoc]
      have hre2 : pre ++ encodeAll (r :: rs) ++ post = (pre ++ encodeRec r.1 r.2.1 r.2.2) ++ encodeAll rs ++ post := by
        rw [henc]; simp [List.append_assoc]
      have hlenr := encodeRec_len_recOf H r wf
      have hlim' : pre.length + (encodeRec r.1 r.2.1 r.2.2).length ≤ limit := by
        rw [henc, List.length_append] at hlim; omega
      have hp := parseAt_encode H pre (encodeAll rs ++ post) r.1 r.2.1 r.2.2 wf limit hlim'
      unfold iterFrom
      rw [hre, hp]
      simp only []
      have hoff : pre.length + (RECORD_HEAD_SIZE + (H + r.2.1.length)) = (pre ++ encodeRec r.1 r.2.1 r.2.2).length := by
        rw [List.length_append, hlenr]; rfl
      rw [← hre, hre2, hoff]
      have hpos : (pre ++ encodeRec r.1 r.2.1 r.2.2).length + (encodeAll rs).length
          = pre.length + (encodeAll (r :: rs)).length := by
        rw [henc]; simp [List.length_append]; omega
      rw [ih (pre ++ encodeRec r.1 r.2.1 r.2.2) post limit fuel (fun x hx => hwf x (by simp [hx])) (by simp at hf; omega)
        (by rw [hpos]; exact hlim) (by rw [hpos, ← hre2]; exact hstop)]
      simp only [placed, List.length_append, hlenr]
      rfl

theorem recoverScan_encodeAll (H : Nat) (rs : List RecIn) :
    ∀ (pre post : Bytes) (limit fuel : Nat), (∀ r ∈ rs, WF H r.1 r.2.1 r.2.2) → rs.length < fuel →
      pre.length + (encodeAll rs).length ≤ limit →
      (∃ e, parseAt H (pre ++ encodeAll rs ++ post) limit (pre.length + (encodeAll rs).length) = .error e) →
      recoverScan H (pre ++ encodeAll rs ++ post) limit fuel pre.length = pre.length + (encodeAll rs).length := by
  induction rs with
  | nil =>
    intro pre post limit fuel _ hf _ hstop
    cases fuel with
    | zero => omega
    | succ fuel =>
      obtain ⟨e, he⟩ := hstop
      simp only [encodeAll, List.flatMap_nil, List.append_nil, List.length_nil, Nat.add_zero] at he ⊢
      unfold recoverScan
      simp [he]
  | cons r rs ih =>
    intro pre post limit fuel hwf hf hlim hstop
    cases fuel with
    | zero => omega
    | succ fuel =>
      have wf := hwf r (by simp)
      have henc : encodeAll (r :: rs) = encodeRec r.1 r.2.1 r.2.2 ++ encodeAll rs := by simp [encodeAll]
      have hre : pre ++ encodeAll (r :: rs) ++ post = pre ++ encodeRec r.1 r.2.1 r.2.2 ++ (encodeAll rs ++ post) := by
        rw [henc]; simp [List.append_assoc]
      have hre2 : pre ++ encodeAll (r :: rs) ++ post = (pre ++ encodeRec r.1 r.2.1 r.2.2) ++ encodeAll rs ++ post := by
        rw [henc]; simp [List.append_assoc]
      have hlenr := encodeRec_len_recOf H r wf
      have hlim' : pre.length + (encodeRec r.1 r.2.1 r.2.2).length ≤ limit := by
        rw [henc, List.length_append] at hlim; omega
      have hp := parseAt_encode H pre (encodeAll rs ++ post) r.1 r.2.1 r.2.2 wf limit hlim'
      unfold recoverScan
      rw [hre, hp]
      simp only []
      have hoff : pre.length + (RECORD_HEAD_SIZE + (H + r.2.1.length)) = (pre ++ encodeRec r.1 r.2.1 r.2.2).length := by
        rw [List.length_append, hlenr]; rfl
      rw [← hre, hre2, hoff]
      have hpos : (pre ++ encodeRec r.1 r.2.1 r.2.2).length + (encodeAll rs).length
          = pre.length + (encodeAll (r :: rs)).length := by
        rw [henc]; simp [List.length_append]; omega
      rw [ih (pre ++ encodeRec r.1 r.2.1 r.2.2) post limit fuel (fun x hx => hwf x (by simp [hx])) (by simp at hf; omega)
        (by rw [hpos]; exact hlim) (by rw [hpos, ← hre2]; exact hstop)]
      exact hpos

/-- a record cut short (file ends inside it) is reported out-of-bounds by every parser -/
theorem parseAt_truncated (H : Nat) (pre hdr stored : Bytes) (c : Bool) (wf : WF H hdr stored c) (k : Nat)
    (hk : k < (encodeRec hdr stored c).length) :
    parseAt H (pre ++ (encodeRec hdr stored c).take k) (pre.length + k) pre.length = .error .oob := by
  unfold parseAt
  by_cases h8 : k < RECORD_HEAD_SIZE
  · rw [if_pos (by omega)]
  · rw [if_neg (by omega)]
    have hnm := head_not_marker wf
    set L := lenFlagOf hdr stored c with hL
    set head := le32 L ++ le32 (crc32 (le32 L ++ hdr ++ stored)).toNat with hhead
    have hheadlen : head.length = RECORD_HEAD_SIZE := by simp [hhead, le32_length, RECORD_HEAD_SIZE]
    have hsl : slice (pre ++ (encodeRec hdr stored c).take k) pre.length RECORD_HEAD_SIZE = head := by
      rw [encodeRec_eq]
      have : List.take k (head ++ (hdr ++ stored)) = head ++ List.take (k - head.length) (hdr ++ stored) := by
        rw [List.take_append]
        have : List.take k head = head := List.take_of_length_le (by omega)
        rw [this]
      rw [this, ← hheadlen]
      have h2 : pre ++ (head ++ List.take (k - head.length) (hdr ++ stored)) = pre ++ head ++ List.take (k - head.length) (hdr ++ stored) := by
        simp [List.append_assoc]
      rw [h2]; exact slice_append_mid pre head _
    simp only [hsl]
    rw [hnm]
    have htake : head.take 4 = le32 L := List.take_left' (le32_length L)
    simp only [Bool.false_eq_true, if_false, htake, fromLe32_le32 L (lenFlag_lt wf)]
    have hmod : L % COMPRESSION_FLAG = H + stored.length := lenFlag_mod wf
    rw [encodeRec_length, wf.hlen] at hk
    rw [hmod, if_pos (by unfold RECORD_HEAD_SIZE at *; omega)]

end SierraModel.Seglog
