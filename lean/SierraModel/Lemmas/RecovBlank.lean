/-
Clean restart and the crash inside the creation of the next segment (`reopenBlankNext`).
-/
import SierraModel.Lemmas.RecovTorn

set_option linter.unusedSimpArgs false
set_option linter.unusedVariables false

namespace SierraModel.Store
open SierraModel.Version

theorem Spec.ext_txs {s t : Spec} (h : s.txs = t.txs) : s = t := by
  cases s; cases t; simp only [] at h; rw [h]

/-! ### clean restart -/

theorem abs_reopen {b : Bucket} (h : Inv b) : b.reopen.abs = b.abs := by
  rw [reopen_eq h]; exact truncTo_all_abs b

theorem inv_reopen {b : Bucket} (h : Inv b) : Inv b.reopen := by
  rw [reopen_eq h]
  exact inv_truncTo h (good := b.live.recs) (rest := []) (by simp) h.live_blocks

theorem synced_reopen {b : Bucket} (h : Inv b) : Synced b.reopen := by
  rw [reopen_eq h]; exact synced_truncTo _ _

theorem segs_truncTo (b : Bucket) (good : List Placed) :
    (b.truncTo good).segs = b.sealed.map (·.recs) ++ [good] := by
  unfold Bucket.segs Bucket.truncTo
  simp only [List.map_map]
  rfl

theorem segs_reopen {b : Bucket} (h : Inv b) : b.reopen.segs = b.segs := by
  rw [reopen_eq h, segs_truncTo]; rfl

/-- a clean restart of a synced bucket only forgets the sequence cache -/
theorem reopen_synced_eq {b : Bucket} (h : Inv b) (hs : Synced b) : b.reopen = { b with nextSeq := [] } := by
  rw [reopen_eq h]
  have h1 := h.sealed_rebuild
  have h2 := h.synced_index hs
  have h3 := h.writeOff_eq
  obtain ⟨s1, s2, s3⟩ := hs
  unfold Bucket.truncTo
  rw [h1, ← h2, ← h3]
  obtain ⟨segSize, c, sealed, live, nextSeq⟩ := b
  obtain ⟨id, recs, writeOff, durable, index, pending, watch⟩ := live
  simp only [] at s1 s2 s3 ⊢
  subst s1 s2 s3
  rfl

/-! ### crash inside the creation of the next segment -/

theorem abs_reopenBlankNext (b : Bucket) : b.reopenBlankNext.abs = b.abs := by
  apply Spec.ext_txs
  unfold Bucket.reopenBlankNext Bucket.abs
  simp [List.map_map, Function.comp_def, committedOf_nil]

theorem synced_reopenBlankNext (b : Bucket) : Synced b.reopenBlankNext := ⟨rfl, rfl, rfl⟩

theorem reopenBlankNext_sealed {b : Bucket} (h : Inv b) :
    b.reopenBlankNext.sealed =
      b.sealed ++ [{ id := b.live.id, recs := b.live.recs, index := hydrate b.live.recs }] := by
  have := h.sealed_rebuild
  show b.sealed.map Sealed.rebuild ++ [_] = b.sealed ++ [_]
  rw [this]

theorem inv_reopenBlankNext {b : Bucket} (h : Inv b) (hne : b.live.recs ≠ []) : Inv b.reopenBlankNext where
  sealed_ok := by
    intro s hs
    rw [reopenBlankNext_sealed h, List.mem_append, List.mem_singleton] at hs
    rcases hs with hs | rfl
    · exact h.sealed_ok s hs
    · exact ⟨h.live_contig, h.live_blocks, rfl, hne⟩
  live_contig := by simp [Bucket.reopenBlankNext, Contig]
  writeOff_eq := by simp [Bucket.reopenBlankNext, endFrom_nil]
  live_split := ⟨[], [], rfl, Blocks.nil, Blocks.nil, rfl, rfl, by simp [Bucket.reopenBlankNext, endFrom_nil]⟩
  watch_eq := rfl
  seq_ok := by rw [abs_reopenBlankNext]; exact h.seq_ok
  ver_ok := by rw [abs_reopenBlankNext]; exact h.ver_ok
  eid_nodup := by rw [abs_reopenBlankNext]; exact h.eid_nodup
  tx_distinct := by rw [abs_reopenBlankNext]; exact h.tx_distinct
  tx_uniform := by rw [abs_reopenBlankNext]; exact h.tx_uniform
  cache_ok := by intro pid n hm; simp [Bucket.reopenBlankNext] at hm
  cache_pending := by intro en hen; simp [Bucket.reopenBlankNext] at hen
  ids := by
    obtain ⟨h1, h2⟩ := h.ids
    rw [reopenBlankNext_sealed h]
    constructor
    · simp only [List.map_append, List.map_cons, List.map_nil, List.length_append, List.length_cons,
        List.length_nil]
      rw [List.range_succ, h1, h2]
    · simp [Bucket.reopenBlankNext, h2]

/-- a rollover is only started from a non-empty live segment -/
theorem Inv.live_ne_nil_of_gt {b : Bucket} (h : Inv b) (hw : b.live.writeOff > SEGMENT_HEADER_SIZE) :
    b.live.recs ≠ [] := by
  intro hnil
  have := h.writeOff_eq
  rw [hnil, endFrom_nil] at this
  omega

/-- with an empty live segment the result has an empty sealed segment: `Inv.sealed_ok` fails -/
theorem not_inv_reopenBlankNext_of_nil {b : Bucket} (hnil : b.live.recs = []) : ¬ Inv b.reopenBlankNext := by
  intro hi
  have := (hi.sealed_ok { id := b.live.id, recs := b.live.recs, index := hydrate b.live.recs }
    (by simp [Bucket.reopenBlankNext])).2.2.2
  exact this hnil

end SierraModel.Store
