/-
Crash + reopen of a bucket satisfying `Inv`: the surviving records are the fsynced records, then
complete blocks, then a torn block; recovery keeps everything up to the torn block.
-/
import SierraModel.Lemmas.RecovTrunc

set_option linter.unusedSimpArgs false
set_option linter.unusedVariables false

namespace SierraModel.Store
open SierraModel.Version

/-- the fsynced records of the live segment: those ending at or before `durable` -/
def Bucket.durableRecs (b : Bucket) : List Placed := visible b.live.recs b.live.durable

/-- ghost: the acknowledged transactions — those of the sealed segments and those whose records lie
entirely below `live.durable` (C01: acknowledged ⇒ fsynced + published) -/
def Bucket.acked (b : Bucket) : List SpecTx := b.sealedTxs ++ committedOf b.durableRecs

/-- the records a crash with the live file cut at `cut` leaves -/
def Bucket.surviving (b : Bucket) (cut : Nat) : List Placed := visible b.live.recs cut

theorem crashReopen_eq (b : Bucket) (cut : Nat) : b.crashReopen cut = b.openFrom (b.surviving cut) := rfl

/-- `durableRecs` is the `pre` part of `Inv.live_split` -/
theorem Inv.durableRecs_eq {b : Bucket} (h : Inv b) {pre post : List Placed}
    (e : b.live.recs = pre ++ post) (hd : b.live.durable = endFrom SEGMENT_HEADER_SIZE pre) :
    b.durableRecs = pre := by
  have hc := h.live_contig; rw [e] at hc
  have hc2 := (contig_append _ pre post).1 hc
  unfold Bucket.durableRecs
  rw [e, hd, visible_append_of_le _ pre post _ hc2.1 (Nat.le_refl _), visible_contig_none _ post hc2.2,
    List.append_nil]

theorem Inv.acked_prefix {b : Bucket} (h : Inv b) : b.acked <+: b.abs.txs := by
  obtain ⟨pre, post, e, h1, _, _, _, h5⟩ := h.live_split
  unfold Bucket.acked
  rw [h.durableRecs_eq e h5, abs_txs_eq, e, committedOf_blocks_append h1, ← List.append_assoc]
  exact List.prefix_append _ _

/-- the shape of the surviving records and of the recovered state -/
theorem crash_decomp {b : Bucket} (h : Inv b) {cut : Nat} (hcut : b.live.durable ≤ cut) :
    ∃ mid tail rest, b.live.recs = (b.durableRecs ++ mid) ++ rest ∧
      b.surviving cut = (b.durableRecs ++ mid) ++ tail ∧
      Blocks b.durableRecs ∧ Blocks mid ∧ Blocks rest ∧ TornAt tail rest ∧ (∃ x, rest = tail ++ x) ∧
      b.crashReopen cut = b.truncTo (b.durableRecs ++ mid) := by
  obtain ⟨pre, post, e, h1, h2, _, _, h5⟩ := h.live_split
  have hpre := h.durableRecs_eq e h5
  have hc := h.live_contig; rw [e] at hc
  have hc2 := (contig_append _ pre post).1 hc
  obtain ⟨mid, tail, rest, e1, e2, g1, g2, g3, x, hx⟩ := cut_blocks h2 _ hc2.2 cut
  have hs : b.surviving cut = (pre ++ mid) ++ tail := by
    unfold Bucket.surviving
    rw [e, visible_append_of_le _ pre post cut hc2.1 (by rw [← h5]; exact hcut), e2, List.append_assoc]
  rw [hpre]
  refine ⟨mid, tail, rest, by rw [e, e1, List.append_assoc], hs, h1, g1, g2, g3, ⟨x, hx⟩, ?_⟩
  rw [crashReopen_eq, hs]
  apply openFrom_good_tail b (h1.append g1) _ g3.uncommitted
  have : Contig SEGMENT_HEADER_SIZE (((pre ++ mid) ++ tail) ++ x) := by
    rw [e1, hx] at hc; simpa using hc
  exact ((contig_append _ _ x).1 this).1

/-- clean restart keeps every record -/
theorem reopen_eq {b : Bucket} (h : Inv b) : b.reopen = b.truncTo b.live.recs := by
  have := openFrom_good_tail b (good := b.live.recs) (tail := []) h.live_blocks
    (by rw [List.append_nil]; exact h.live_contig) uncommitted_nil
  rw [List.append_nil] at this
  exact this

end SierraModel.Store
