/-
Raw-reachable buckets and monotonicity of the acknowledged transactions along raw histories.
-/
import SierraModel.Lemmas.RecovBlank
import SierraModel.Lemmas.StoreNumExport

set_option linter.unusedSimpArgs false
set_option linter.unusedVariables false

namespace SierraModel.Store
open SierraModel.Version

/- `RawReachable` and `RawReachable.inv` are defined in `StoreNumExport`. -/

/-- in a synced state everything is acknowledged -/
theorem synced_durableRecs {b : Bucket} (h : Inv b) (hs : Synced b) : b.durableRecs = b.live.recs := by
  unfold Bucket.durableRecs
  exact visible_contig _ _ _ h.live_contig (by rw [hs.2.1, h.writeOff_eq]; exact Nat.le_refl _)

theorem synced_acked {b : Bucket} (h : Inv b) (hs : Synced b) : b.acked = b.abs.txs := by
  unfold Bucket.acked; rw [synced_durableRecs h hs]; rfl

/-- a synced crash state loses nothing -/
theorem crash_synced_eq {b : Bucket} (h : Inv b) (hs : Synced b) {cut : Nat} (hcut : b.live.durable ≤ cut) :
    b.crashReopen cut = b.reopen := by
  rw [crashReopen_eq]
  unfold Bucket.surviving Bucket.reopen
  rw [visible_contig _ _ _ h.live_contig (by rw [← h.writeOff_eq, ← hs.2.1]; exact hcut)]

/-! ### acknowledged transactions stay acknowledged -/

theorem acked_rollover {b : Bucket} (h : Inv b) (hw : b.live.writeOff > SEGMENT_HEADER_SIZE) :
    b.acked <+: b.rollover.acked := by
  rw [synced_acked (inv_rollover h hw) (synced_rollover b), abs_rollover]
  exact h.acked_prefix

theorem acked_preRoll {b : Bucket} (h : Inv b) (tx : Tx) : b.acked <+: (b.preRoll tx).acked := by
  rcases preRoll_cases b tx with e | ⟨e, hw, _⟩ <;> rw [e]
  · exact List.prefix_refl _
  · exact acked_rollover h hw

theorem acked_commitTx {b1 : Bucket} (h : Inv b1) {tx : Tx} {vs : List Nat}
    (h' : Inv (b1.commitTx tx vs)) : (b1.commitTx tx vs).acked = b1.acked := by
  obtain ⟨pre, post, e, _, _, _, _, h5⟩ := h.live_split
  have e' : (b1.commitTx tx vs).live.recs = pre ++ (post ++ b1.txBlock tx vs) := by
    show b1.live.recs ++ _ = _
    rw [e, List.append_assoc]
  unfold Bucket.acked
  rw [h.durableRecs_eq e h5, h'.durableRecs_eq e' h5]
  rfl

theorem acked_mono_step {b : Bucket} (h : Inv b) {op : RawOp} (ok : RawOpOk b op) :
    b.acked <+: (b.rawStep op).acked := by
  cases op with
  | sync =>
    show b.acked <+: b.sync.acked
    rw [synced_acked (inv_sync h) (synced_sync b), abs_sync]
    exact h.acked_prefix
  | appendTx tx =>
    show b.acked <+: (b.appendTx tx).1.acked
    have hres := appendTx_res' h ok
    have hinv := inv_appendTx h ok
    generalize b.appendTx tx = x at hres hinv
    cases hres with
    | invalid e _ => exact List.prefix_refl _
    | tooLarge vs _ _ _ => exact List.prefix_refl _
    | wrongSeq vs _ _ => exact acked_preRoll h tx
    | noSpace vs e _ _ _ _ => exact acked_preRoll h tx
    | badTs vs _ _ _ => exact acked_preRoll h tx
    | ok vs hc _ _ _ _ =>
      show b.acked <+: ((b.preRoll tx).commitTx tx vs).acked
      rw [acked_commitTx (inv_preRoll h tx) hinv]
      exact acked_preRoll h tx

theorem acked_mono_rawRun : ∀ (ops : List RawOp) (b : Bucket), Inv b → RawRunOk b ops →
    b.acked <+: (b.rawRun ops).acked
  | [], _, _, _ => List.prefix_refl _
  | op :: ops, b, h, ⟨a, r⟩ =>
    List.IsPrefix.trans (acked_mono_step h a) (acked_mono_rawRun ops _ (inv_rawStep h a) r)

end SierraModel.Store
