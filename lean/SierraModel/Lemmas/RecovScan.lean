/-
Recovery scan (`committedEnd`) and the cut (`visible` = records ending at or before an offset) on
well-formed record lists: a `Blocks` prefix followed by an uncommitted tail.
-/
import SierraModel.Lemmas.StoreAck2

set_option linter.unusedSimpArgs false
set_option linter.unusedVariables false

namespace SierraModel.Store
open SierraModel.Version

/-- an uncommitted tail: events of multi-event transactions only (no commit record) -/
def Uncommitted (tail : List Placed) : Prop := ∀ p ∈ tail, ∃ e, p.r = .ev e ∧ e.single = false

theorem uncommitted_nil : Uncommitted [] := by intro p hp; simp at hp

theorem uncommitted_of_isEvOf {t : Nat} {ps : List Placed} (h : ∀ p ∈ ps, IsEvOf t p) :
    Uncommitted ps := by
  intro p hp
  obtain ⟨e, he, hs, _⟩ := h p hp
  exact ⟨e, he, hs⟩

/-! ### `committedEnd` -/

theorem cEnd_tail : ∀ (tail : List Placed) (pend : Option Nat) (ne : Bool) (e : Nat),
    Uncommitted tail → committedEndAux tail pend ne e = e
  | [], _, _, _, _ => rfl
  | p :: ps, pend, ne, e, h => by
    obtain ⟨ev, he, hs⟩ := h p (by simp)
    simp only [committedEndAux, he, hs, Bool.false_eq_true, if_false]
    exact cEnd_tail ps _ _ e (fun q hq => h q (by simp [hq]))

theorem cEnd_evs {t : Nat} (rest : List Placed) (e : Nat) :
    ∀ (ps : List Placed) (p : Placed) (pend : Option Nat) (ne : Bool), (∀ q ∈ p :: ps, IsEvOf t q) →
      committedEndAux (p :: ps ++ rest) pend ne e = committedEndAux rest (some t) true e
  | [], p, pend, ne, h => by
    obtain ⟨ev, he, hs, ht⟩ := h p (by simp)
    simp [committedEndAux, he, hs, ht]
  | q :: ps, p, pend, ne, h => by
    obtain ⟨ev, he, hs, ht⟩ := h p (by simp)
    have ih := cEnd_evs rest e ps q (some t) true (fun x hx => h x (by simp [hx]))
    show committedEndAux (p :: (q :: ps ++ rest)) pend ne e = _
    rw [committedEndAux]
    simp only [he, hs, ht, Bool.false_eq_true, if_false]
    exact ih

theorem endFrom_snoc (s : Nat) (l : List Placed) (c : Placed) :
    endFrom s (l ++ [c]) = endFrom s l + c.size := by
  rw [endFrom_append, endFrom_cons, endFrom_nil]

theorem cEnd_block {blk : List Placed} (hb : Block blk) (s : Nat) (hc : Contig s blk)
    (rest : List Placed) (e : Nat) :
    committedEndAux (blk ++ rest) none false e = committedEndAux rest none false (endFrom s blk) := by
  cases hb with
  | single p ev he hs =>
    have : p.off = s := hc.1
    simp [committedEndAux, he, hs, endFrom_cons, endFrom_nil, this]
  | multi ps c t hlen hps hcr =>
    match ps, hlen, hps with
    | p :: ps, hlen, hps =>
      have h1 := cEnd_evs (t := t) (c :: rest) e ps p none false hps
      have hc2 := (contig_append s (p :: ps) [c]).1 hc
      have hoff : c.off = endFrom s (p :: ps) := hc2.2.1
      rw [List.append_assoc, List.singleton_append, h1, endFrom_snoc]
      simp [committedEndAux, hcr, hoff]

theorem cEnd_blocks {l : List Placed} (h : Blocks l) : ∀ (s : Nat), Contig s l → ∀ (rest : List Placed),
    committedEndAux (l ++ rest) none false s = committedEndAux rest none false (endFrom s l) := by
  induction h with
  | nil => intro s _ rest; simp [endFrom_nil]
  | cons blk more hb _ ih =>
    intro s hc rest
    have hc2 := (contig_append s blk more).1 hc
    rw [List.append_assoc, cEnd_block hb s hc2.1, ih _ hc2.2, endFrom_append]

/-- the recovery scan stops at the end of the last complete block -/
theorem committedEnd_good_tail {good tail : List Placed} (hg : Blocks good)
    (hc : Contig SEGMENT_HEADER_SIZE good) (ht : Uncommitted tail) :
    committedEnd (good ++ tail) = endFrom SEGMENT_HEADER_SIZE good := by
  unfold committedEnd
  rw [cEnd_blocks hg _ hc, cEnd_tail _ _ _ _ ht]

/-! ### the cut -/

theorem visible_contig_none : ∀ (s : Nat) (l : List Placed), Contig s l → visible l s = []
  | _, [], _ => rfl
  | s, p :: ps, h => by
    unfold visible
    have h1 := h.1; have h2 := h.2.1
    have : ¬ (p.off + p.size ≤ s) := by omega
    simp [List.takeWhile_cons, this]

theorem takeWhile_good_tail {good tail : List Placed} (hc : Contig SEGMENT_HEADER_SIZE (good ++ tail)) :
    (good ++ tail).takeWhile (fun p => p.off + p.size ≤ endFrom SEGMENT_HEADER_SIZE good) = good := by
  have hc2 := (contig_append _ good tail).1 hc
  have := visible_append_of_le _ good tail _ hc2.1 (Nat.le_refl _)
  unfold visible at this
  rw [this]
  have h2 := visible_contig_none _ tail hc2.2
  unfold visible at h2
  rw [h2, List.append_nil]

theorem visible_stop (cut : Nat) (c : Placed) (more : List Placed) (hgt : cut < c.off + c.size) :
    ∀ (ps : List Placed), visible (ps ++ c :: more) cut = visible ps cut
  | [] => by
    have : ¬ (c.off + c.size ≤ cut) := by omega
    simp [visible, List.takeWhile_cons, this]
  | p :: ps => by
    have ih := visible_stop cut c more hgt ps
    unfold visible at ih ⊢
    simp only [List.cons_append, List.takeWhile_cons]
    split
    · rw [ih]
    · rfl

theorem visible_split (l : List Placed) (cut : Nat) : ∃ x, l = visible l cut ++ x :=
  ⟨l.dropWhile (fun p => p.off + p.size ≤ cut), (List.takeWhile_append_dropWhile).symm⟩

/-- the records after the last complete surviving block: nothing, or the first events of a
multi-event transaction whose commit record `c` did not survive -/
def TornAt (tail rest : List Placed) : Prop :=
  tail = [] ∨ ∃ t n x c more, rest = tail ++ x ++ [c] ++ more ∧ c.r = .commit t n ∧
    (∀ p ∈ tail ++ x, IsEvOf t p)

theorem TornAt.uncommitted {tail rest : List Placed} (h : TornAt tail rest) : Uncommitted tail := by
  rcases h with rfl | ⟨t, n, x, c, more, _, _, h⟩
  · exact uncommitted_nil
  · exact uncommitted_of_isEvOf (fun p hp => h p (List.mem_append_left _ hp))

/-- cutting a well-formed record list: complete blocks, then a torn block -/
theorem cut_blocks {l : List Placed} (h : Blocks l) : ∀ (s : Nat), Contig s l → ∀ (cut : Nat),
    ∃ good tail rest, l = good ++ rest ∧ visible l cut = good ++ tail ∧ Blocks good ∧ Blocks rest ∧
      TornAt tail rest ∧ ∃ x, rest = tail ++ x := by
  induction h with
  | nil => intro s _ cut; exact ⟨[], [], [], rfl, rfl, Blocks.nil, Blocks.nil, Or.inl rfl, [], rfl⟩
  | cons blk more hb hmore ih =>
    intro s hc cut
    have hc2 := (contig_append s blk more).1 hc
    by_cases hle : endFrom s blk ≤ cut
    · obtain ⟨good, tail, rest, e1, e2, h1, h2, h3, h4⟩ := ih _ hc2.2 cut
      refine ⟨blk ++ good, tail, rest, by rw [e1, List.append_assoc], ?_, Blocks.cons _ _ hb h1, h2, h3, h4⟩
      rw [visible_append_of_le s blk more cut hc2.1 hle, e2, List.append_assoc]
    · have hrest : Blocks (blk ++ more) := Blocks.cons _ _ hb hmore
      cases hb with
      | single p ev he hs =>
        have : cut < p.off + p.size := by
          have := hc2.1.1; rw [endFrom_cons, endFrom_nil] at hle; omega
        refine ⟨[], [], [p] ++ more, rfl, ?_, Blocks.nil, hrest, Or.inl rfl, _, rfl⟩
        exact visible_stop cut p more this []
      | multi ps c t hlen hps hcr =>
        have hc3 := (contig_append s ps [c]).1 hc2.1
        have : cut < c.off + c.size := by
          have := hc3.2.1; rw [endFrom_snoc] at hle; omega
        obtain ⟨x, hx⟩ := visible_split ps cut
        have hv : visible (ps ++ [c] ++ more) cut = visible ps cut := by
          rw [List.append_assoc, List.singleton_append]; exact visible_stop cut c more this ps
        refine ⟨[], visible ps cut, ps ++ [c] ++ more, rfl, by rw [hv]; rfl, Blocks.nil, hrest,
          Or.inr ⟨t, _, x, c, more, by rw [← hx], hcr, by rw [← hx]; exact hps⟩, x ++ [c] ++ more, ?_⟩
        conv => lhs; rw [hx]
        simp

end SierraModel.Store
