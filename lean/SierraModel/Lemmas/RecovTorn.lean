/-
What recovery drops: the records after the kept `Blocks` prefix are in no index, no record list and
no transaction of the recovered state; a cut inside a block drops that block.
-/
import SierraModel.Lemmas.RecovCrash

set_option linter.unusedSimpArgs false
set_option linter.unusedVariables false

namespace SierraModel.Store
open SierraModel.Version

/-- events of the dropped transactions are unknown to the recovered state -/
theorem dropped_unknown_ev {b : Bucket} (h : Inv b) {good rest : List Placed}
    (e : b.live.recs = good ++ rest) (hg : Blocks good) {ev : Ev}
    (hmem : ev ∈ (committedOf rest).flatten) :
    ev.eid ∉ (b.truncTo good).abs.events.map (·.eid) ∧
    (∀ en ∈ (b.truncTo good).allIdx, en.eid ≠ ev.eid) ∧
    (∀ p ∈ (b.truncTo good).allRecs, p.r ≠ .ev ev) := by
  have hi := inv_truncTo h e hg
  have hsplit := events_split_truncTo e hg
  have hnd := h.eid_nodup; rw [hsplit] at hnd
  have key : ∀ e' ∈ (b.truncTo good).abs.events, e'.eid ≠ ev.eid :=
    fun e' he' => nodup_map_append_disjoint (·.eid) _ _ hnd he' hmem
  refine ⟨?_, ?_, ?_⟩
  · intro hin
    obtain ⟨e', he', heq⟩ := List.mem_map.1 hin
    exact key e' he' heq
  · intro en hen
    rw [hi.allIdx_eq] at hen
    obtain ⟨e', he', heq⟩ := mem_hydrate hen
    rw [← hi.abs_events] at he'
    rw [heq]; exact key e' he'
  · intro p hin hev
    have : ev ∈ (b.truncTo good).abs.events := by
      rw [hi.abs_events]; exact mem_evsOf_iff.2 ⟨p, hin, hev⟩
    exact key ev this rfl

/-- events of the dropped records are unknown to the recovered state -/
theorem dropped_unknown {b : Bucket} (h : Inv b) {good rest : List Placed}
    (e : b.live.recs = good ++ rest) (hg : Blocks good) (hr : Blocks rest) {p : Placed} {ev : Ev}
    (hp : p ∈ rest) (hev : p.r = .ev ev) :
    ev.eid ∉ (b.truncTo good).abs.events.map (·.eid) ∧
    (∀ en ∈ (b.truncTo good).allIdx, en.eid ≠ ev.eid) ∧ p ∉ (b.truncTo good).allRecs := by
  have hmem : ev ∈ (committedOf rest).flatten := by
    rw [committedOf_flatten hr]; exact mem_evsOf_iff.2 ⟨p, hp, hev⟩
  obtain ⟨k1, k2, k3⟩ := dropped_unknown_ev h e hg hmem
  exact ⟨k1, k2, fun hin => k3 p hin hev⟩

/-- a record of a contiguous list does not occur before its own position -/
theorem contig_not_mem_prefix {s : Nat} {a more : List Placed} {c : Placed}
    (hc : Contig s (a ++ c :: more)) : c ∉ a := by
  intro hin
  have hc2 := (contig_append s a (c :: more)).1 hc
  have h1 := (contig_mem s a hc2.1 c hin)
  have h2 : c.off = endFrom s a := hc2.2.1
  omega

/-- cutting inside a block leaves an uncommitted proper prefix of it -/
theorem cut_in_block {blk : List Placed} (hb : Block blk) {s : Nat} (hc : Contig s blk) {cut : Nat}
    (hlt : cut < endFrom s blk) (more : List Placed) :
    ∃ x, blk = visible (blk ++ more) cut ++ x ∧ x ≠ [] ∧ Uncommitted (visible (blk ++ more) cut) := by
  cases hb with
  | single p ev he hs =>
    have : cut < p.off + p.size := by
      have := hc.1; rw [endFrom_cons, endFrom_nil] at hlt; omega
    have hv : visible ([p] ++ more) cut = [] := visible_stop cut p more this []
    rw [hv]; exact ⟨[p], rfl, by simp, uncommitted_nil⟩
  | multi ps c t hlen hps hcr =>
    have hc3 := (contig_append s ps [c]).1 hc
    have : cut < c.off + c.size := by
      have := hc3.2.1; rw [endFrom_snoc] at hlt; omega
    obtain ⟨x, hx⟩ := visible_split ps cut
    have hv : visible (ps ++ [c] ++ more) cut = visible ps cut := by
      rw [List.append_assoc, List.singleton_append]; exact visible_stop cut c more this ps
    rw [hv]
    refine ⟨x ++ [c], ?_, by simp, ?_⟩
    · rw [← List.append_assoc, ← hx]
    · apply uncommitted_of_isEvOf (t := t)
      intro q hq
      exact hps q (by rw [hx]; exact List.mem_append_left _ hq)

/-- a crash with the cut inside the block `blk` recovers exactly the records before `blk` -/
theorem crash_in_block {b : Bucket} (h : Inv b) {l1 blk l2 : List Placed}
    (e : b.live.recs = l1 ++ blk ++ l2) (h1 : Blocks l1) (hb : Block blk) {cut : Nat}
    (hge : endFrom SEGMENT_HEADER_SIZE l1 ≤ cut) (hlt : cut < endFrom SEGMENT_HEADER_SIZE (l1 ++ blk)) :
    b.crashReopen cut = b.truncTo l1 := by
  have hc := h.live_contig; rw [e, List.append_assoc] at hc
  have hc2 := (contig_append _ l1 (blk ++ l2)).1 hc
  have hc3 := (contig_append _ blk l2).1 hc2.2
  rw [endFrom_append] at hlt
  obtain ⟨x, hx, _, hu⟩ := cut_in_block hb hc3.1 hlt l2
  have hs : b.surviving cut = l1 ++ visible (blk ++ l2) cut := by
    unfold Bucket.surviving
    rw [e, List.append_assoc, visible_append_of_le _ l1 _ cut hc2.1 hge]
  rw [crashReopen_eq, hs]
  apply openFrom_good_tail b h1 _ hu
  have : Contig SEGMENT_HEADER_SIZE ((l1 ++ visible (blk ++ l2) cut) ++ (x ++ l2)) := by
    have e2 : (l1 ++ visible (blk ++ l2) cut) ++ (x ++ l2) = l1 ++ (blk ++ l2) := by
      conv => rhs; rw [hx]
      simp
    rw [e2]; exact hc
  exact ((contig_append _ _ _).1 this).1

end SierraModel.Store
