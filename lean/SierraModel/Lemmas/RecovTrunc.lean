/-
The state recovery produces: the live segment truncated to a `Blocks` prefix and re-indexed, the
sealed indexes rebuilt (`Bucket.truncTo`).  It satisfies `Inv ∧ Synced` and its abstraction is a
prefix of the transactions.
-/
import SierraModel.Lemmas.RecovScan

set_option linter.unusedSimpArgs false
set_option linter.unusedVariables false

namespace SierraModel.Store
open SierraModel.Version

/-- rebuilding the closed indexes of a sealed segment from its records -/
def Sealed.rebuild (s : Sealed) : Sealed := { s with index := hydrate s.recs }

/-- the recovered bucket whose live segment keeps exactly `good` -/
def Bucket.truncTo (b : Bucket) (good : List Placed) : Bucket :=
  { b with
    sealed := b.sealed.map Sealed.rebuild,
    live := { id := b.live.id, recs := good, writeOff := endFrom SEGMENT_HEADER_SIZE good,
              durable := endFrom SEGMENT_HEADER_SIZE good, index := hydrate good, pending := [],
              watch := endFrom SEGMENT_HEADER_SIZE good },
    nextSeq := [] }

/-- recovery from a `Blocks` prefix followed by an uncommitted tail keeps exactly the prefix -/
theorem openFrom_good_tail (b : Bucket) {good tail : List Placed} (hg : Blocks good)
    (hc : Contig SEGMENT_HEADER_SIZE (good ++ tail)) (ht : Uncommitted tail) :
    b.openFrom (good ++ tail) = b.truncTo good := by
  have hc1 := ((contig_append _ good tail).1 hc).1
  unfold Bucket.openFrom Bucket.truncTo
  simp only [committedEnd_good_tail hg hc1 ht, takeWhile_good_tail hc]
  rfl

theorem Sealed.rebuild_eq {s : Sealed} (h : s.index = hydrate s.recs) : s.rebuild = s := by
  cases s; simp only [Sealed.rebuild] at *; rw [h]

theorem map_rebuild_eq : ∀ (l : List Sealed), (∀ s ∈ l, s.index = hydrate s.recs) → l.map Sealed.rebuild = l
  | [], _ => rfl
  | s :: l, h => by
    rw [List.map_cons, Sealed.rebuild_eq (h s (by simp)), map_rebuild_eq l (fun x hx => h x (by simp [hx]))]

theorem Inv.sealed_rebuild {b : Bucket} (h : Inv b) : b.sealed.map Sealed.rebuild = b.sealed :=
  map_rebuild_eq _ (fun s hs => (h.sealed_ok s hs).2.2.1)

theorem sealedTxs_rebuild (l : List Sealed) :
    (l.map Sealed.rebuild).map (fun s => committedOf s.recs) = l.map (fun s => committedOf s.recs) := by
  rw [List.map_map]; rfl

/-- transactions of the sealed segments -/
def Bucket.sealedTxs (b : Bucket) : List SpecTx := (b.sealed.map (fun s => committedOf s.recs)).flatten

theorem abs_txs_eq (b : Bucket) : b.abs.txs = b.sealedTxs ++ committedOf b.live.recs := rfl

theorem abs_truncTo (b : Bucket) (good : List Placed) :
    (b.truncTo good).abs.txs = b.sealedTxs ++ committedOf good := by
  unfold Bucket.truncTo Bucket.abs Bucket.sealedTxs
  simp only [sealedTxs_rebuild]

theorem synced_truncTo (b : Bucket) (good : List Placed) : Synced (b.truncTo good) := ⟨rfl, rfl, rfl⟩

/-! ### prefixes of well-numbered event lists -/

theorem seqOkR_suffix : ∀ (x y : List Ev), SeqOkR (x ++ y) → SeqOkR y
  | [], _, h => h
  | _ :: x, y, h => seqOkR_suffix x y h.1

theorem verOkR_suffix : ∀ (x y : List Ev), VerOkR (x ++ y) → VerOkR y
  | [], _, h => h
  | _ :: x, y, h => verOkR_suffix x y h.1

theorem seqOk_prefix {a b : List Ev} (h : SeqOk (a ++ b)) : SeqOk a := by
  unfold SeqOk at *; rw [List.reverse_append] at h; exact seqOkR_suffix _ _ h

theorem verOk_prefix {a b : List Ev} (h : VerOk (a ++ b)) : VerOk a := by
  unfold VerOk at *; rw [List.reverse_append] at h; exact verOkR_suffix _ _ h

/-! ### the recovered state -/

theorem abs_split_truncTo {b : Bucket} {good rest : List Placed} (e : b.live.recs = good ++ rest)
    (hg : Blocks good) : b.abs.txs = (b.truncTo good).abs.txs ++ committedOf rest := by
  rw [abs_truncTo, abs_txs_eq, e, committedOf_blocks_append hg, List.append_assoc]

theorem events_split_truncTo {b : Bucket} {good rest : List Placed} (e : b.live.recs = good ++ rest)
    (hg : Blocks good) : b.abs.events = (b.truncTo good).abs.events ++ (committedOf rest).flatten := by
  unfold Spec.events; rw [abs_split_truncTo e hg, List.flatten_append]

theorem inv_truncTo {b : Bucket} (h : Inv b) {good rest : List Placed} (e : b.live.recs = good ++ rest)
    (hg : Blocks good) : Inv (b.truncTo good) := by
  have htx := abs_split_truncTo e hg
  have hev := events_split_truncTo e hg
  exact {
    sealed_ok := by
      intro s hs
      rw [show (b.truncTo good).sealed = b.sealed.map Sealed.rebuild from rfl, h.sealed_rebuild] at hs
      exact h.sealed_ok s hs
    live_contig := by
      have := h.live_contig; rw [e] at this
      exact ((contig_append _ good rest).1 this).1
    writeOff_eq := rfl
    live_split := ⟨good, [], by simp [Bucket.truncTo], hg, Blocks.nil, rfl, rfl, rfl⟩
    watch_eq := rfl
    seq_ok := by have := h.seq_ok; rw [hev] at this; exact seqOk_prefix this
    ver_ok := by have := h.ver_ok; rw [hev] at this; exact verOk_prefix this
    eid_nodup := by
      have := h.eid_nodup; rw [hev, List.map_append] at this
      exact (List.nodup_append.1 this).1
    tx_distinct := by
      have := h.tx_distinct; rw [htx] at this
      exact (List.pairwise_append.1 this).1
    tx_uniform := by
      intro t ht
      exact h.tx_uniform t (by rw [htx]; exact List.mem_append_left _ ht)
    cache_ok := by intro pid n hm; simp [Bucket.truncTo] at hm
    cache_pending := by intro en hen; simp [Bucket.truncTo] at hen
    ids := by
      have := h.ids
      rw [show (b.truncTo good).sealed = b.sealed.map Sealed.rebuild from rfl, h.sealed_rebuild]
      exact this }

/-- keeping everything: only the sequence cache is forgotten -/
theorem truncTo_all_abs (b : Bucket) : (b.truncTo b.live.recs).abs = b.abs := by
  have := abs_truncTo b b.live.recs
  rw [← abs_txs_eq] at this
  cases hb : (b.truncTo b.live.recs).abs; cases hb' : b.abs
  rw [hb, hb'] at this; simp only [] at this; rw [this]

end SierraModel.Store
