/-
Helper lemmas for C12: the replicator invariant and its preservation by every operation.
-/
import SierraModel.Lemmas.Queue
import SierraModel.Cluster.Replicator

namespace SierraModel.Cluster

/-! ### provenance of the entries/values an `insert` produces -/
namespace OQueue
variable {V : Type} [OrderedValue V]

theorem insertOrMerge_mem {q : OQueue V} {m : AMap V} {key : Nat} {value : V} {ev : Option (Nat × V)}
    (hsub : ∀ e ∈ m, e ∈ q.map) :
    ∀ e ∈ (insertOrMerge q m key value ev).1.map,
      e ∈ q.map ∨ e = (key, value) ∨ ∃ ex, (key, ex) ∈ q.map ∧ e = (key, OrderedValue.merge ex value) := by
  intro e he
  unfold insertOrMerge at he
  split at he
  · simp only [AMap.put, List.mem_append, List.mem_filter, List.mem_cons] at he
    rcases he with ⟨he, _⟩ | rfl | ⟨he, _⟩
    · exact Or.inl (hsub e he)
    · exact Or.inr (Or.inl rfl)
    · exact Or.inl (hsub e he)
  · next ex hget =>
    split at he
    · simp only [AMap.put, List.mem_append, List.mem_filter, List.mem_cons] at he
      rcases he with ⟨he, _⟩ | rfl | ⟨he, _⟩
      · exact Or.inl (hsub e he)
      · exact Or.inr (Or.inr ⟨ex, hsub _ (AMap.get?_some_mem hget), rfl⟩)
      · exact Or.inl (hsub e he)
    · exact Or.inl he

theorem insert_mem {q : OQueue V} {key : Nat} {value : V} :
    ∀ e ∈ (q.insert key value).1.map,
      e ∈ q.map ∨ e = (key, value) ∨ ∃ ex, (key, ex) ∈ q.map ∧ e = (key, OrderedValue.merge ex value) := by
  intro e he
  unfold insert at he
  split at he
  · split at he
    · exact Or.inl he
    · split at he
      · exact Or.inl (List.mem_filter.mp he).1
      · exact Or.inl he
  · split at he
    · exact Or.inl he
    · split at he
      · split at he
        · exact Or.inl he
        · split at he
          · exact insertOrMerge_mem (fun e he => (List.dropLast_sublist _).subset he) e he
          · exact Or.inl he
      · exact insertOrMerge_mem (fun e he => he) e he

theorem insertOrMerge_out {q : OQueue V} {m : AMap V} {key : Nat} {value : V} {ev : Option (Nat × V)} :
    (∀ v b, (insertOrMerge q m key value ev).2 ≠ .ready v b) ∧
    (∀ b e, (insertOrMerge q m key value ev).2 = .buffered b e → e = ev) ∧
    (∀ v, (insertOrMerge q m key value ev).2 = .conflict v → v = value ∧ (insertOrMerge q m key value ev).1 = q) ∧
    (∀ k v, (insertOrMerge q m key value ev).2 ≠ .full k v) ∧
    (∀ k v, (insertOrMerge q m key value ev).2 ≠ .stale k v) ∧
    (insertOrMerge q m key value ev).2 ≠ .trap := by
  unfold insertOrMerge
  split
  · simp
  · split <;> simp

/-- what the value handed back by a `ready` insert is -/
theorem insert_ready {q : OQueue V} {key : Nat} {value v : V} {b : Bool}
    (h : (q.insert key value).2 = .ready v b) :
    key = q.next ∧ (v = value ∨ ∃ ex, (key, ex) ∈ q.map ∧ v = OrderedValue.merge ex value) := by
  unfold insert at h
  split at h
  · next hk =>
    refine ⟨hk, ?_⟩
    split at h
    · simp only [InsertOut.ready.injEq] at h; exact Or.inl h.1.symm
    · next ex hget =>
      split at h
      · simp only [InsertOut.ready.injEq] at h
        exact Or.inr ⟨ex, AMap.get?_some_mem hget, h.1.symm⟩
      · cases h
  · split at h
    · cases h
    · split at h
      · split at h
        · cases h
        · split at h
          · exact absurd h (insertOrMerge_out.1 v b)
          · cases h
      · exact absurd h (insertOrMerge_out.1 v b)

/-- an evicted entry was an entry of the map -/
theorem insert_evicted {q : OQueue V} {key : Nat} {value : V} {b : Bool} {e : Nat × V}
    (h : (q.insert key value).2 = .buffered b (some e)) : e ∈ q.map := by
  unfold insert at h
  split at h
  · split at h
    · cases h
    · split at h <;> cases h
  · split at h
    · cases h
    · split at h
      · split at h
        · cases h
        · next last hlast =>
          split at h
          · have := insertOrMerge_out.2.1 b (some e) h
            simp only [Option.some.injEq] at this
            subst this
            exact List.mem_of_getLast? hlast
          · cases h
      · have := insertOrMerge_out.2.1 b (some e) h
        cases this

/-- rejected inserts (`Conflict`, `Full`, `Stale`) hand the value back and leave the queue unchanged -/
theorem insert_rejected {q : OQueue V} {key : Nat} {value : V} :
    (∀ v, (q.insert key value).2 = .conflict v → v = value ∧ (q.insert key value).1 = q) ∧
    (∀ k v, (q.insert key value).2 = .full k v → v = value ∧ (q.insert key value).1 = q) ∧
    (∀ k v, (q.insert key value).2 = .stale k v → v = value ∧ (q.insert key value).1 = q) := by
  unfold insert
  split
  · split
    · simp
    · split <;> simp
  · split
    · simp
    · split
      · split
        · simp
        · split
          · refine ⟨insertOrMerge_out.2.2.1, ?_, ?_⟩
            · intro k v h; exact absurd h (insertOrMerge_out.2.2.2.1 k v)
            · intro k v h; exact absurd h (insertOrMerge_out.2.2.2.2.1 k v)
          · simp
      · refine ⟨insertOrMerge_out.2.2.1, ?_, ?_⟩
        · intro k v h; exact absurd h (insertOrMerge_out.2.2.2.1 k v)
        · intro k v h; exact absurd h (insertOrMerge_out.2.2.2.2.1 k v)

/-- with `limit > 0` and a map within its limit, `insert` never hits the `expect` -/
theorem insert_ne_trap {q : OQueue V} (hl : 0 < q.limit) (key : Nat) (value : V) :
    (q.insert key value).2 ≠ .trap := by
  unfold insert
  split
  · split
    · simp
    · split <;> simp
  · split
    · simp
    · split
      · next hfull =>
        split
        · next hlast =>
          simp only [Bool.and_eq_true, decide_eq_true_eq] at hfull
          have : q.map = [] := by simpa using hlast
          rw [this] at hfull
          simp only [List.length_nil] at hfull
          omega
        · split
          · exact insertOrMerge_out.2.2.2.2.2
          · simp
      · exact insertOrMerge_out.2.2.2.2.2

end OQueue

/-! ### the replicator invariant -/
namespace Rep

/-- the log is contiguous: each entry starts where the previous one ended, from `s` to `e` -/
def LogChain : Nat → List LogEntry → Nat → Prop
  | s, [], e => e = s
  | s, x :: xs, e => x.first = s ∧ 0 < x.n ∧ LogChain (s + x.n) xs e

theorem logChain_snoc {s e : Nat} {l : List LogEntry} (h : LogChain s l e) (tx n : Nat) (hn : 0 < n) :
    LogChain s (l ++ [⟨e, tx, n⟩]) (e + n) := by
  induction l generalizing s with
  | nil => simp only [LogChain] at h; subst h; simp [LogChain, hn]
  | cons x xs ih =>
    simp only [LogChain] at h
    simp only [List.cons_append, LogChain]
    exact ⟨h.1, h.2.1, ih h.2.2⟩

/-- first sequences of a contiguous log are strictly increasing and below its end -/
theorem logChain_lt {s e : Nat} {l : List LogEntry} (h : LogChain s l e) :
    (∀ x ∈ l, s ≤ x.first ∧ x.first + x.n ≤ e) ∧ l.Pairwise (fun a b => a.first + a.n ≤ b.first) := by
  induction l generalizing s with
  | nil => simp
  | cons x xs ih =>
    simp only [LogChain] at h
    obtain ⟨h1, h2⟩ := ih h.2.2
    have hse : s + x.n ≤ e := by
      cases xs with
      | nil => simp only [LogChain] at h; omega
      | cons y ys =>
        have := h1 y (by simp)
        omega
    refine ⟨?_, ?_⟩
    · intro y hy
      rcases List.mem_cons.mp hy with rfl | hy
      · omega
      · have := h1 y hy; omega
    · rw [List.pairwise_cons]
      refine ⟨?_, h2⟩
      intro y hy
      have := h1 y hy; omega

/-- `D key tx n`: a write (key, tx, n events) was delivered.  Everything buffered or logged stems
from a delivery. -/
structure RInv (D : Nat → Nat → Nat → Prop) (base : Nat) (st : Rep) : Prop where
  q : QInv st.q
  limit_pos : 0 < st.q.limit
  next_eq : st.q.next = st.dbNext
  not_trapped : st.trapped = false
  chain : LogChain base st.log st.dbNext
  keyed : ∀ e ∈ st.q.map, e.2.key = e.1 ∧ D e.1 e.2.tx e.2.n
  logD : ∀ e ∈ st.log, D e.first e.tx e.n

variable {D : Nat → Nat → Nat → Prop} {base : Nat}

/-- a write in the handler's hand: it was delivered, under the key it carries -/
def WOk (D : Nat → Nat → Nat → Prop) (w : BW) : Prop := D w.key w.tx w.n

theorem inv_new (next limit timeout : Nat) (hl : 0 < limit) : RInv D next (Rep.new next limit timeout) :=
  { q := OQueue.inv_new next limit, limit_pos := hl, next_eq := rfl, not_trapped := rfl,
    chain := rfl, keyed := by simp [Rep.new, OQueue.new], logD := by simp [Rep.new] }

theorem answerAll_inv {st : Rep} (h : RInv D base st) (ss : List Sender) (a : Ans) :
    RInv D base (answerAll st ss a) :=
  { q := h.q, limit_pos := h.limit_pos, next_eq := h.next_eq, not_trapped := h.not_trapped,
    chain := h.chain, keyed := h.keyed, logD := h.logD }

@[simp] theorem answerAll_q (st : Rep) (ss : List Sender) (a : Ans) : (answerAll st ss a).q = st.q := rfl
@[simp] theorem answerAll_log (st : Rep) (ss : List Sender) (a : Ans) : (answerAll st ss a).log = st.log := rfl
@[simp] theorem answerAll_dbNext (st : Rep) (ss : List Sender) (a : Ans) : (answerAll st ss a).dbNext = st.dbNext := rfl
@[simp] theorem answerAll_timeout (st : Rep) (ss : List Sender) (a : Ans) : (answerAll st ss a).bufTimeout = st.bufTimeout := rfl

theorem gcWrite_fst (st : Rep) (now : Nat) (w : BW) :
    (gcWrite st now w).1 = answerAll st (w.senders.filter (fun s => !(isAlive now st.bufTimeout s))) .dropped := by
  unfold gcWrite; simp only []; split <;> rfl

theorem gcWrite_inv {st : Rep} (h : RInv D base st) (now : Nat) (w : BW) : RInv D base (gcWrite st now w).1 := by
  rw [gcWrite_fst]; exact answerAll_inv h _ _

@[simp] theorem gcWrite_q (st : Rep) (now : Nat) (w : BW) : (gcWrite st now w).1.q = st.q := by
  rw [gcWrite_fst]; rfl

theorem gcWrite_some {st : Rep} {now : Nat} {w w' : BW} (h : (gcWrite st now w).2 = some w') :
    w'.key = w.key ∧ w'.tx = w.tx ∧ w'.n = w.n := by
  unfold gcWrite at h
  simp only [] at h
  split at h
  · cases h
  · simp only [Option.some.injEq] at h; subst h; exact ⟨rfl, rfl, rfl⟩

theorem answerStale_eq (st : Rep) (m : AMap BW) :
    answerStale st m = { st with answers := st.answers ++ m.flatMap (fun e => e.2.senders.map (fun s => (s.rid, Ans.stale))) } := by
  unfold answerStale
  induction m generalizing st with
  | nil => simp
  | cons e t ih =>
    rw [List.foldl_cons, ih]
    simp only [answerAll, List.flatMap_cons, List.append_assoc]

/-- the popped write: `pop` preserves the invariant, and a popped value was delivered under `next` -/
theorem pop_spec {st : Rep} (h : RInv D base st) :
    RInv D base { st with q := st.q.pop.1 } ∧
    (∀ w, st.q.pop.2 = some w → WOk D w ∧ w.key = st.dbNext ∧ st.q.pop.1.map.length < st.q.map.length) ∧
    st.q.pop.1.map.length ≤ st.q.map.length := by
  refine ⟨?_, ?_, ?_⟩
  · refine { q := OQueue.pop_inv h.q, limit_pos := ?_, next_eq := ?_, not_trapped := h.not_trapped,
             chain := h.chain, keyed := ?_, logD := h.logD }
    · unfold OQueue.pop; split <;> exact h.limit_pos
    · unfold OQueue.pop; split <;> exact h.next_eq
    · intro e he
      apply h.keyed
      unfold OQueue.pop at he
      split at he
      · exact he
      · exact (List.mem_filter.mp he).1
  · intro w hw
    unfold OQueue.pop at hw ⊢
    split at hw
    · cases hw
    · next v hget =>
      simp only [Option.some.injEq] at hw; subst hw
      have hm := AMap.get?_some_mem hget
      have hk := h.keyed _ hm
      refine ⟨?_, ?_, AMap.length_erase_lt hget⟩
      · unfold WOk; rw [hk.1]; exact hk.2
      · rw [hk.1]; exact h.next_eq
  · unfold OQueue.pop
    split
    · exact Nat.le_refl _
    · exact List.length_filter_le _ _

theorem popNext_spec {st : Rep} (h : RInv D base st) (now f : Nat) (hf : st.q.map.length < f) :
    RInv D base (popNext f st now).1 ∧
    (∀ w, (popNext f st now).2 = some w → WOk D w ∧ w.key = (popNext f st now).1.dbNext ∧
      (popNext f st now).1.q.map.length < st.q.map.length) ∧
    (popNext f st now).1.q.map.length ≤ st.q.map.length ∧
    (popNext f st now).1.dbNext = st.dbNext ∧ (popNext f st now).1.log = st.log := by
  induction f generalizing st with
  | zero => omega
  | succ f ih =>
    unfold popNext
    obtain ⟨hp1, hp2, hp3⟩ := pop_spec h
    rcases hpop : st.q.pop with ⟨q', o⟩
    rw [hpop] at hp1 hp2 hp3
    dsimp only at hp1 hp2 hp3
    cases o with
    | none => exact ⟨h, by simp, Nat.le_refl _, rfl, rfl⟩
    | some w =>
      simp only []
      obtain ⟨hw1, hw2, hw3⟩ := hp2 w rfl
      have hg := gcWrite_inv hp1 now w
      rcases hgc : gcWrite { st with q := q' } now w with ⟨st', o'⟩
      have hq' : st'.q = q' := by
        have := gcWrite_q { st with q := q' } now w
        rw [hgc] at this; exact this
      have hfst : st' = (gcWrite { st with q := q' } now w).1 := by rw [hgc]
      have hdb : st'.dbNext = st.dbNext := by rw [hfst, gcWrite_fst]; rfl
      have hlog : st'.log = st.log := by rw [hfst, gcWrite_fst]; rfl
      rw [hgc] at hg
      dsimp only at hg
      cases o' with
      | some w' =>
        simp only []
        have hs := gcWrite_some (st := { st with q := q' }) (now := now) (w := w) (w' := w') (by rw [hgc])
        refine ⟨hg, ?_, ?_, hdb, hlog⟩
        · intro w'' hw''
          simp only [Option.some.injEq] at hw''; subst hw''
          refine ⟨?_, ?_, ?_⟩
          · unfold WOk at *; rw [hs.1, hs.2.1, hs.2.2]; exact hw1
          · rw [hs.1, hdb]; exact hw2
          · rw [hq']; exact hw3
        · rw [hq']; exact hp3
      | none =>
        simp only []
        have hlen : st'.q.map.length < f := by rw [hq']; omega
        obtain ⟨i1, i2, i3, i4, i5⟩ := ih hg hlen
        refine ⟨i1, ?_, ?_, by rw [i4, hdb], by rw [i5, hlog]⟩
        · intro w'' hw''
          obtain ⟨a, b, c⟩ := i2 w'' hw''
          refine ⟨a, b, ?_⟩
          rw [hq'] at c; omega
        · rw [hq'] at i3; omega

theorem writeBuffered_spec {st : Rep} (h : RInv D base st) (hD : ∀ k t n, D k t n → 0 < n)
    (w : BW) (hw : WOk D w) :
    RInv D base (writeBuffered st w).1 ∧ (writeBuffered st w).1.q.map.length ≤ st.q.map.length ∧
    (w.key = st.dbNext → (writeBuffered st w).2 = true) := by
  unfold writeBuffered
  split
  · next hc =>
    simp only [OQueue.progressTo]
    refine ⟨?_, ?_, by simp⟩
    · apply answerAll_inv
      rw [answerStale_eq]
      have hq := OQueue.progressTo_inv h.q (st.dbNext + w.n - 1 + 1)
      refine { q := hq, limit_pos := h.limit_pos, next_eq := rfl, not_trapped := h.not_trapped,
               chain := ?_, keyed := ?_, logD := ?_ }
      · have := logChain_snoc h.chain w.tx w.n hc.2
        have e : st.dbNext + w.n - 1 + 1 = st.dbNext + w.n := by omega
        simp only [e]; exact this
      · intro e he
        exact h.keyed e (List.mem_filter.mp he).1
      · intro e he
        simp only [List.mem_append, List.mem_singleton] at he
        rcases he with he | rfl
        · exact h.logD e he
        · simp only; rw [← hc.1]; exact hw
    · simp only [answerAll_q, answerStale_eq]
      exact List.length_filter_le _ _
  · next hc =>
    refine ⟨answerAll_inv h _ _, Nat.le_refl _, ?_⟩
    intro hk
    exact absurd ⟨hk, hD _ _ _ hw⟩ hc

theorem drain_inv (hD : ∀ k t n, D k t n → 0 < n) (f : Nat) {st : Rep} (h : RInv D base st) (now : Nat)
    (o : Option BW) (ho : ∀ w, o = some w → WOk D w ∧ st.q.map.length < f) :
    RInv D base (drain f st now o) := by
  induction f generalizing st o with
  | zero =>
    cases o with
    | none => exact h
    | some w => have := (ho w rfl).2; omega
  | succ f ih =>
    cases o with
    | none => exact h
    | some w =>
      unfold drain
      obtain ⟨hw, hlen⟩ := ho w rfl
      obtain ⟨i1, i2, _⟩ := writeBuffered_spec h hD w hw
      rcases hwb : writeBuffered st w with ⟨st', b⟩
      rw [hwb] at i1 i2
      dsimp only at i1 i2
      cases b with
      | false => exact i1
      | true =>
        simp only []
        obtain ⟨p1, p2, p3, _, _⟩ := popNext_spec i1 now (st'.q.map.length + 1) (Nat.lt_succ_self _)
        apply ih p1
        intro w' hw'
        obtain ⟨a, _, c⟩ := p2 w' hw'
        exact ⟨a, by omega⟩


/-- the state right after `buffered_writes.insert(key, w)` -/
theorem insert_state_inv {st : Rep} (h : RInv D base st) (key : Nat) (w : BW)
    (hw : w.key = key ∧ D key w.tx w.n) : RInv D base { st with q := (st.q.insert key w).1 } := by
  refine { q := OQueue.insert_inv h.q key w, limit_pos := ?_, next_eq := ?_, not_trapped := h.not_trapped,
           chain := h.chain, keyed := ?_, logD := h.logD }
  · show 0 < (st.q.insert key w).1.limit
    rw [OQueue.insert_limit]; exact h.limit_pos
  · show (st.q.insert key w).1.next = st.dbNext
    rw [OQueue.insert_next]; exact h.next_eq
  · intro e he
    rcases OQueue.insert_mem e he with he | rfl | ⟨ex, hex, rfl⟩
    · exact h.keyed e he
    · exact hw
    · exact h.keyed (key, ex) hex

theorem onReady_inv (hD : ∀ k t n, D k t n → 0 < n) {st : Rep} (h : RInv D base st) (now : Nat)
    (v : BW) (hv : WOk D v) : RInv D base (onReady st now v) := by
  unfold onReady
  have hg := gcWrite_inv h now v
  have hgs := @gcWrite_some st now v
  rcases hgc : gcWrite st now v with ⟨st2, o2⟩
  rw [hgc] at hg hgs
  dsimp only at hg hgs
  cases o2 with
  | some w' =>
    dsimp only
    apply drain_inv hD _ hg
    intro w'' hw''
    simp only [Option.some.injEq] at hw''; subst hw''
    obtain ⟨a, b, c⟩ := hgs rfl
    exact ⟨by unfold WOk at *; rw [a, b, c]; exact hv, Nat.lt_succ_self _⟩
  | none =>
    dsimp only
    obtain ⟨p1, p2, _, _, _⟩ := popNext_spec hg now (st2.q.map.length + 1) (Nat.lt_succ_self _)
    apply drain_inv hD _ p1
    intro w'' hw''
    exact ⟨(p2 w'' hw'').1, Nat.lt_succ_self _⟩

theorem answerEvicted_inv {st : Rep} (h : RInv D base st) (now : Nat) (ev : Option (Nat × BW)) :
    RInv D base (answerEvicted st now ev) := by
  unfold answerEvicted
  split
  · exact h
  · next ek ew =>
    have hg := gcWrite_inv h now ew
    rcases hgc : gcWrite st now ew with ⟨st2, o2⟩
    rw [hgc] at hg
    cases o2 with
    | some ew' => exact answerAll_inv hg _ _
    | none => exact hg

theorem onBuffered_inv (hD : ∀ k t n, D k t n → 0 < n) {st : Rep} (h : RInv D base st) (now : Nat)
    (ev : Option (Nat × BW)) : RInv D base (onBuffered st now ev) := by
  unfold onBuffered
  dsimp only
  obtain ⟨p1, p2, _, _, _⟩ := popNext_spec (answerEvicted_inv h now ev) now _ (Nat.lt_succ_self _)
  apply drain_inv hD _ p1
  intro w'' hw''
  exact ⟨(p2 w'' hw'').1, Nat.lt_succ_self _⟩

theorem answerFirst_inv {st : Rep} (h : RInv D base st) (v : BW) (a : Ans) : RInv D base (answerFirst st v a) := by
  unfold answerFirst
  split
  · exact h
  · exact answerAll_inv (answerAll_inv h _ _) _ _

theorem deliver_inv (hD : ∀ k t n, D k t n → 0 < n) {st : Rep} (h : RInv D base st)
    (now key tx n rid : Nat) (hd : D key tx n) : RInv D base (st.deliver now key tx n rid) := by
  unfold deliver
  generalize hwdef : ({ key := key, tx := tx, n := n, senders := [⟨rid, now⟩] } : BW) = w
  have hwk : w.key = key ∧ D key w.tx w.n := by subst hwdef; exact ⟨rfl, hd⟩
  have h1 := insert_state_inv h key w hwk
  have hready := @OQueue.insert_ready BW _ st.q key w
  have hnt := OQueue.insert_ne_trap h.limit_pos key w
  dsimp only
  rcases hins : st.q.insert key w with ⟨q', o⟩
  rw [hins] at h1 hready hnt
  dsimp only at h1 hready hnt ⊢
  cases o with
  | ready v b =>
    obtain ⟨hk, hv⟩ := hready rfl
    have hvok : WOk D v := by
      rcases hv with rfl | ⟨ex, hex, rfl⟩
      · unfold WOk; rw [hwk.1]; exact hwk.2
      · have := h.keyed _ hex
        unfold WOk; show D ex.key ex.tx ex.n; rw [this.1]; exact this.2
    exact onReady_inv hD h1 now v hvok
  | buffered b ev => exact onBuffered_inv hD h1 now ev
  | conflict v => exact answerFirst_inv h v _
  | full k v => exact answerFirst_inv h v _
  | stale k v => exact answerFirst_inv h v _
  | trap => exact absurd rfl hnt

/-! ### gap detection -/

theorem gcFront_spec (now timeout : Nat) (m : AMap BW) (hs : m.Sorted) :
    AMap.Sorted (gcFront now timeout m).1 ∧
    (∀ e ∈ (gcFront now timeout m).1, ∃ e0 ∈ m, e.1 = e0.1 ∧ e.2.key = e0.2.key ∧ e.2.tx = e0.2.tx ∧ e.2.n = e0.2.n) ∧
    (gcFront now timeout m).1.length ≤ m.length := by
  induction m with
  | nil => exact ⟨List.Pairwise.nil, by simp [gcFront], Nat.le_refl _⟩
  | cons a t ih =>
    obtain ⟨k, w⟩ := a
    have hs' := List.pairwise_cons.mp hs
    unfold gcFront
    dsimp only
    split
    · obtain ⟨i1, i2, i3⟩ := ih hs'.2
      refine ⟨i1, ?_, by simp only [List.length_cons]; omega⟩
      intro e he
      obtain ⟨e0, he0, h⟩ := i2 e he
      exact ⟨e0, List.mem_cons_of_mem _ he0, h⟩
    · refine ⟨?_, ?_, Nat.le_refl _⟩
      · unfold AMap.Sorted
        rw [List.pairwise_cons]
        exact ⟨hs'.1, hs'.2⟩
      · intro e he
        rcases List.mem_cons.mp he with rfl | he
        · exact ⟨(k, w), by simp, rfl, rfl, rfl, rfl⟩
        · exact ⟨e, List.mem_cons_of_mem _ he, rfl, rfl, rfl, rfl⟩

theorem detectGaps_spec {st : Rep} (h : RInv D base st) (now : Nat) (permitted : Bool) :
    RInv D base (st.detectGaps now permitted).1 ∧ (st.detectGaps now permitted).2 ≠ .trap ∧
    (st.detectGaps now permitted).1.log = st.log ∧ (st.detectGaps now permitted).1.dbNext = st.dbNext := by
  obtain ⟨g1, g2, g3⟩ := gcFront_spec now st.bufTimeout st.q.map h.q.sorted
  have hkeys : ∀ k ∈ AMap.keys (gcFront now st.bufTimeout st.q.map).1, k ∈ st.q.map.keys := by
    intro k hk
    simp only [AMap.keys, List.mem_map] at hk ⊢
    obtain ⟨e, he, rfl⟩ := hk
    obtain ⟨e0, he0, h0, _⟩ := g2 e he
    exact ⟨e0, he0, h0.symm⟩
  have h1 : RInv D base (answerAll { st with q := { st.q with map := (gcFront now st.bufTimeout st.q.map).1 } }
      (gcFront now st.bufTimeout st.q.map).2 .dropped) := by
    apply answerAll_inv
    refine { q := ⟨g1, fun k hk => h.q.ge_next k (hkeys k hk), fun k hk => h.q.pos k (hkeys k hk),
                   Nat.le_trans g3 h.q.le_limit⟩,
             limit_pos := h.limit_pos, next_eq := h.next_eq, not_trapped := h.not_trapped, chain := h.chain,
             keyed := ?_, logD := h.logD }
    intro e he
    obtain ⟨e0, he0, a, b, c, d⟩ := g2 e he
    have := h.keyed e0 he0
    rw [a, b, c, d]; exact this
  unfold detectGaps
  dsimp only
  split
  · exact ⟨h1, by simp, rfl, rfl⟩
  · split
    · exact ⟨h1, by simp, rfl, rfl⟩
    · next oldest w hhead =>
      have hmem : oldest ∈ AMap.keys (gcFront now st.bufTimeout st.q.map).1 := by
        simp only [answerAll_q] at hhead
        have := List.mem_of_mem_head? hhead
        simp only [AMap.keys, List.mem_map]
        exact ⟨_, this, rfl⟩
      have hpos := h.q.pos oldest (hkeys _ hmem)
      have hge := h.q.ge_next oldest (hkeys _ hmem)
      have e1 : checkedSub oldest 1 = some (oldest - 1) := by unfold checkedSub; rw [if_pos (by omega)]
      have e2 : checkedSub oldest st.q.next = some (oldest - st.q.next) := by unfold checkedSub; rw [if_pos hge]
      simp only [answerAll_q, e1, e2]
      split
      · refine ⟨?_, by simp, rfl, rfl⟩
        exact { q := h1.q, limit_pos := h1.limit_pos, next_eq := h1.next_eq, not_trapped := h1.not_trapped,
                chain := h1.chain, keyed := h1.keyed, logD := h1.logD }
      · exact ⟨h1, by simp, rfl, rfl⟩

/-- the invariant along any operation list whose deliveries are all recorded in `D` -/
theorem run_inv (hD : ∀ k t n, D k t n → 0 < n) {st : Rep} (h : RInv D base st) (ops : List ROp)
    (hops : ∀ now key tx n rid, ROp.deliver now key tx n rid ∈ ops → D key tx n) :
    RInv D base (st.run ops) := by
  induction ops generalizing st with
  | nil => exact h
  | cons op ops ih =>
    unfold run
    rw [List.foldl_cons]
    apply ih
    · cases op with
      | deliver now key tx n rid => exact deliver_inv hD h now key tx n rid (hops now key tx n rid (by simp))
      | gaps now permitted => exact (detectGaps_spec h now permitted).1
    · intro now key tx n rid hm
      exact hops now key tx n rid (List.mem_cons_of_mem _ hm)


/-! ### the log is append-only -/

theorem logChain_split {s e : Nat} {l1 l2 : List LogEntry} (h : LogChain s (l1 ++ l2) e) :
    ∃ m, LogChain s l1 m ∧ LogChain m l2 e := by
  induction l1 generalizing s with
  | nil => exact ⟨s, rfl, h⟩
  | cons x xs ih =>
    simp only [List.cons_append, LogChain] at h
    obtain ⟨m, h1, h2⟩ := ih h.2.2
    exact ⟨m, ⟨h.1, h.2.1, h1⟩, h2⟩

theorem logChain_end_unique {s e e' : Nat} {l : List LogEntry} (h : LogChain s l e) (h' : LogChain s l e') : e = e' := by
  induction l generalizing s with
  | nil => simp only [LogChain] at h h'; omega
  | cons x xs ih => simp only [LogChain] at h h'; exact ih h.2.2 h'.2.2

theorem writeBuffered_log (st : Rep) (w : BW) : ∃ l, (writeBuffered st w).1.log = st.log ++ l := by
  unfold writeBuffered
  split
  · refine ⟨[⟨st.dbNext, w.tx, w.n⟩], ?_⟩
    simp only [OQueue.progressTo, answerAll_log, answerStale_eq]
  · exact ⟨[], by simp⟩

theorem popNext_log (f : Nat) (st : Rep) (now : Nat) : (popNext f st now).1.log = st.log := by
  induction f generalizing st with
  | zero => rfl
  | succ f ih =>
    unfold popNext
    rcases st.q.pop with ⟨q', o⟩
    cases o with
    | none => rfl
    | some w =>
      dsimp only
      have hl : (gcWrite { st with q := q' } now w).1.log = st.log := by rw [gcWrite_fst]; rfl
      rcases hgc : gcWrite { st with q := q' } now w with ⟨st', o'⟩
      rw [hgc] at hl
      cases o' with
      | some w' => exact hl
      | none => dsimp only; rw [ih]; exact hl

theorem drain_log (f : Nat) (st : Rep) (now : Nat) (o : Option BW) : ∃ l, (drain f st now o).log = st.log ++ l := by
  induction f generalizing st o with
  | zero =>
    cases o with
    | none => exact ⟨[], by simp [drain]⟩
    | some w => exact ⟨[], by simp [drain, answerAll]⟩
  | succ f ih =>
    cases o with
    | none => exact ⟨[], by simp [drain]⟩
    | some w =>
      unfold drain
      obtain ⟨l1, h1⟩ := writeBuffered_log st w
      rcases hwb : writeBuffered st w with ⟨st', b⟩
      rw [hwb] at h1
      cases b with
      | false => exact ⟨l1, h1⟩
      | true =>
        dsimp only
        obtain ⟨l2, h2⟩ := ih (popNext (st'.q.map.length + 1) st' now).1 (popNext (st'.q.map.length + 1) st' now).2
        refine ⟨l1 ++ l2, ?_⟩
        rw [h2, popNext_log]
        dsimp only at h1
        rw [h1, List.append_assoc]

theorem answerFirst_core (st : Rep) (v : BW) (a : Ans) :
    (answerFirst st v a).log = st.log ∧ (answerFirst st v a).q = st.q ∧ (answerFirst st v a).dbNext = st.dbNext := by
  unfold answerFirst; split <;> exact ⟨rfl, rfl, rfl⟩

theorem deliver_log (st : Rep) (now key tx n rid : Nat) :
    ∃ l, (st.deliver now key tx n rid).log = st.log ++ l := by
  unfold deliver
  dsimp only
  rcases st.q.insert key { key := key, tx := tx, n := n, senders := [⟨rid, now⟩] } with ⟨q', o⟩
  cases o with
  | ready v b =>
    show ∃ l, (onReady _ now v).log = _
    unfold onReady
    have hl : (gcWrite { st with q := q' } now v).1.log = st.log := by rw [gcWrite_fst]; rfl
    rcases hgc : gcWrite { st with q := q' } now v with ⟨st2, o2⟩
    rw [hgc] at hl
    dsimp only at hl
    cases o2 with
    | some w' =>
      dsimp only
      obtain ⟨l, h⟩ := drain_log (st2.q.map.length + 1) st2 now (some w')
      exact ⟨l, by rw [h, hl]⟩
    | none =>
      dsimp only
      obtain ⟨l, h⟩ := drain_log ((popNext (st2.q.map.length + 1) st2 now).1.q.map.length + 1)
        (popNext (st2.q.map.length + 1) st2 now).1 now (popNext (st2.q.map.length + 1) st2 now).2
      exact ⟨l, by rw [h, popNext_log, hl]⟩
  | buffered b ev =>
    show ∃ l, (onBuffered _ now ev).log = _
    unfold onBuffered
    dsimp only
    have hl : (answerEvicted { st with q := q' } now ev).log = st.log := by
      unfold answerEvicted
      split
      · rfl
      · next ek ew =>
        have hl : (gcWrite { st with q := q' } now ew).1.log = st.log := by rw [gcWrite_fst]; rfl
        rcases hgc : gcWrite { st with q := q' } now ew with ⟨st2, o2⟩
        rw [hgc] at hl
        cases o2 <;> exact hl
    generalize hst1 : answerEvicted { st with q := q' } now ev = st1 at hl
    obtain ⟨l, h⟩ := drain_log ((popNext (st1.q.map.length + 1) st1 now).1.q.map.length + 1)
      (popNext (st1.q.map.length + 1) st1 now).1 now (popNext (st1.q.map.length + 1) st1 now).2
    exact ⟨l, by rw [h, popNext_log, hl]⟩
  | conflict v => exact ⟨[], by rw [show afterInsert st now q' (.conflict v) = answerFirst st v .conflict from rfl, (answerFirst_core st v _).1]; simp⟩
  | full k v => exact ⟨[], by rw [show afterInsert st now q' (.full k v) = answerFirst st v .full from rfl, (answerFirst_core st v _).1]; simp⟩
  | stale k v => exact ⟨[], by rw [show afterInsert st now q' (.stale k v) = answerFirst st v .stale from rfl, (answerFirst_core st v _).1]; simp⟩
  | trap => exact ⟨[], by simp [afterInsert]⟩

end Rep
end SierraModel.Cluster
