/-
The scan step at an event of the key inside a complete block of a well-formed segment.
-/
import SierraModel.Lemmas.ScanDrain

set_option linter.unusedSimpArgs false
set_option linter.unusedVariables false

namespace SierraModel.Store
open SierraModel.Version

theorem evOffs_lt {s : Nat} {X Y : List Placed} (hc : Contig s (X ++ Y)) {x y : Ev × Nat}
    (hx : x ∈ evOffs X) (hy : y ∈ evOffs Y) : x.2 < y.2 := by
  obtain ⟨h1, h2⟩ := (contig_append s X Y).1 hc
  have := evOffs_bounds h1 hx
  have := evOffs_bounds h2 hy
  omega

/-- `p` is an event `e` of the key, inside the block `b1 ++ p :: b2` of a segment -/
structure AtEv (c : ScanCfg) (s limit : Nat) (pre b1 : List Placed) (p : Placed) (b2 post : List Placed)
    (e : Ev) : Prop where
  hc : Contig s (pre ++ (b1 ++ p :: b2) ++ post)
  hb : Block (b1 ++ p :: b2)
  he : p.r = .ev e
  hm : c.mine e = true
  hl : endFrom s (pre ++ (b1 ++ p :: b2) ++ post) ≤ limit
  hk : ∀ e' ∈ evsOf (p :: b2), c.keep e' = c.mine e'

namespace AtEv
variable {c : ScanCfg} {s limit : Nat} {pre b1 : List Placed} {p : Placed} {b2 post : List Placed} {e : Ev}

theorem read (h : AtEv c s limit pre b1 p b2 post e) :
    readCommitted (pre ++ (b1 ++ p :: b2) ++ post) limit p.off = some ((e, p.off) :: evOffs b2) := by
  rw [readCommitted_at h.hc h.hb h.he limit, evOffs_cons_ev p b2 e h.he]
  have := h.hl
  rw [endFrom_append] at this
  exact Nat.le_trans (le_endFrom _ _) this

theorem offsets (h : AtEv c s limit pre b1 p b2 post e) :
    (keyOffs c (pre ++ (b1 ++ p :: b2) ++ post)).map (·.2) =
      (keyOffs c (pre ++ b1)).map (·.2) ++ p.off :: ((keyOffs c b2).map (·.2) ++ (keyOffs c post).map (·.2)) := by
  rw [show pre ++ (b1 ++ p :: b2) ++ post = (pre ++ b1) ++ (p :: (b2 ++ post)) by simp]
  rw [keyOffs_append, keyOffs_cons_ev c p _ e h.he]
  simp [h.hm, keyOffs_append]

theorem evs_fwd (h : AtEv c s limit pre b1 p b2 post e) (u : Nat) :
    scanEvs c .fwd u ((e, p.off) :: evOffs b2) = e :: (evsOf b2).filter c.mine := by
  have hk := h.hk
  rw [evsOf_cons_ev p b2 e h.he] at hk
  have h1 : c.keep e = true := by rw [hk e (by simp)]; exact h.hm
  have h2 : (evsOf b2).filter c.keep = (evsOf b2).filter c.mine :=
    List.filter_congr (fun x hx => hk x (by simp [hx]))
  simp only [scanEvs, List.map_cons, List.filter_cons, h1, if_true]
  rw [← h2]; rfl

theorem after (h : AtEv c s limit pre b1 p b2 post e) {y : Nat} (hy : y ∈ (keyOffs c post).map (·.2)) :
    p.off < y ∧ ∀ g ∈ evOffs b2, g.2 < y := by
  obtain ⟨z, hz, rfl⟩ := List.mem_map.1 hy
  have hz' := keyOffs_sub c post hz
  have key : ∀ g ∈ evOffs (p :: b2), g.2 < z.2 := by
    intro g hg
    refine evOffs_lt h.hc ?_ hz'
    rw [evOffs_append, evOffs_append]
    exact List.mem_append_right _ (List.mem_append_right _ hg)
  rw [evOffs_cons_ev p b2 e h.he] at key
  exact ⟨key (e, p.off) (by simp), fun g hg => key g (by simp [hg])⟩

theorem before (h : AtEv c s limit pre b1 p b2 post e) {y : Nat} (hy : y ∈ (keyOffs c (pre ++ b1)).map (·.2)) :
    y < p.off ∧ ∀ g ∈ evOffs b2, y < g.2 := by
  obtain ⟨z, hz, rfl⟩ := List.mem_map.1 hy
  have hz' := keyOffs_sub c _ hz
  have hc := h.hc
  rw [show pre ++ (b1 ++ p :: b2) ++ post = (pre ++ b1) ++ ((p :: b2) ++ post) by simp] at hc
  have key : ∀ g ∈ evOffs (p :: b2), z.2 < g.2 := by
    intro g hg
    refine evOffs_lt hc hz' ?_
    rw [evOffs_append]
    exact List.mem_append_left _ hg
  rw [evOffs_cons_ev p b2 e h.he] at key
  exact ⟨key (e, p.off) (by simp), fun g hg => key g (by simp [hg])⟩

theorem single_nil (h : AtEv c s limit pre b1 p b2 post e) (hs : e.single = true) : b2 = [] := by
  rcases h.hb.at_event h.he with ⟨_, _, h2⟩ | ⟨t, b2', q, n, _, ⟨e', he', hs', _⟩, _⟩
  · exact h2
  · rw [h.he] at he'; cases he'; rw [hs] at hs'; cases hs'

end AtEv

end SierraModel.Store
