/-
The segments of a bucket as the scan sees them: per-segment key events `K j`, the number `cnt j` of
key events before segment `j`, and the numbering of the key's events across segments.
-/
import SierraModel.Lemmas.ScanFwdSeg2

set_option linter.unusedSimpArgs false
set_option linter.unusedVariables false

namespace SierraModel.Store
open SierraModel.Version

/-- all events of one transaction are in one partition -/
def TxPidOk (s : Spec) : Prop := ∀ t ∈ s.txs, ∀ e1 ∈ t, ∀ e2 ∈ t, e1.pid = e2.pid

/-- records of segment `j` (sealed segments `0 … n-1`, then the live segment) -/
def Bucket.segAt (b : Bucket) (j : Nat) : List Placed :=
  match b.sealed[j]? with
  | some s => s.recs
  | none => b.live.recs

/-- the key's events (with offsets) in segment `j` -/
def Bucket.K (b : Bucket) (c : ScanCfg) (j : Nat) : List (Ev × Nat) := keyOffs c (b.segAt j)

/-- number of the key's events in the segments before `j` -/
def Bucket.cnt (b : Bucket) (c : ScanCfg) : Nat → Nat
  | 0 => 0
  | j + 1 => b.cnt c j + (b.K c j).length

/-- the key's events in the segments before `j` -/
def Bucket.keyUpTo (b : Bucket) (c : ScanCfg) : Nat → List Ev
  | 0 => []
  | j + 1 => b.keyUpTo c j ++ (b.K c j).map (·.1)

variable {b : Bucket} {c : ScanCfg}

theorem keyUpTo_length (b : Bucket) (c : ScanCfg) : ∀ j, (b.keyUpTo c j).length = b.cnt c j
  | 0 => rfl
  | j + 1 => by simp [Bucket.keyUpTo, Bucket.cnt, keyUpTo_length b c j]

theorem cnt_mono (b : Bucket) (c : ScanCfg) {i j : Nat} (h : i ≤ j) : b.cnt c i ≤ b.cnt c j := by
  induction j with
  | zero => have : i = 0 := by omega
            subst this; exact Nat.le_refl _
  | succ j ih =>
    rcases Nat.lt_or_ge i (j + 1) with h1 | h1
    · have := ih (by omega); simp only [Bucket.cnt]; omega
    · have : i = j + 1 := by omega
      subst this; exact Nat.le_refl _

theorem keyUpTo_prefix (b : Bucket) (c : ScanCfg) {i j : Nat} (h : i ≤ j) : b.keyUpTo c i <+: b.keyUpTo c j := by
  induction j with
  | zero => have : i = 0 := by omega
            subst this; exact List.prefix_refl _
  | succ j ih =>
    rcases Nat.lt_or_ge i (j + 1) with h1 | h1
    · exact List.IsPrefix.trans (ih (by omega)) (List.prefix_append _ _)
    · have : i = j + 1 := by omega
      subst this; exact List.prefix_refl _

theorem segAt_sealed {j : Nat} {s : Sealed} (h : b.sealed[j]? = some s) : b.segAt j = s.recs := by
  simp [Bucket.segAt, h]

theorem segAt_live {j : Nat} (h : b.sealed.length ≤ j) : b.segAt j = b.live.recs := by
  simp [Bucket.segAt, List.getElem?_eq_none h]

/-- the key's events before segment `j` are those of the first `j` sealed segments -/
theorem keyUpTo_take (b : Bucket) (c : ScanCfg) : ∀ j, j ≤ b.sealed.length →
    b.keyUpTo c j = (evsOf ((b.sealed.map (·.recs)).take j).flatten).filter c.mine
  | 0, _ => by simp [Bucket.keyUpTo, evsOf_nil]
  | j + 1, h => by
    have hj : j < b.sealed.length := h
    have hs : b.sealed[j]? = some b.sealed[j] := List.getElem?_eq_getElem hj
    have hs' : (b.sealed.map (·.recs))[j]? = some b.sealed[j].recs := by rw [List.getElem?_map, hs]; rfl
    rw [Bucket.keyUpTo, keyUpTo_take b c j (by omega), Bucket.K, segAt_sealed hs, keyOffs_map_fst,
      List.take_add_one, hs']
    simp [evsOf_append]

theorem keyEvents_eq (h : Inv b) : keyEvents b.abs c = b.keyUpTo c (b.sealed.length + 1) := by
  unfold keyEvents
  rw [h.abs_events, Bucket.keyUpTo, keyUpTo_take b c _ (Nat.le_refl _), Bucket.K, segAt_live (Nat.le_refl _),
    keyOffs_map_fst, Bucket.allRecs, evsOf_append, List.filter_append]
  rw [List.take_of_length_le (by simp)]

theorem range_prefix {l : List Nat} {m : Nat} (h : l <+: List.range m) : l = List.range l.length := by
  have h1 := List.prefix_iff_eq_take.1 h
  have h2 : l.length ≤ m := by have := h.length_le; simpa using this
  rw [List.take_range, Nat.min_eq_left h2] at h1
  exact h1

theorem num_get {α : Type} {f : α → Nat} {l : List α} (h : l.map f = List.range l.length) (i : Nat)
    (hi : i < l.length) : f l[i] = i := by
  have h1 : (l.map f)[i]? = some (f l[i]) := by simp [List.getElem?_eq_getElem hi]
  rw [h, List.getElem?_range hi] at h1
  exact (Option.some.inj h1).symm

theorem keyEvents_length (h : Inv b) : (keyEvents b.abs c).length = b.cnt c (b.sealed.length + 1) := by
  rw [keyEvents_eq h, keyUpTo_length]

theorem keyUpTo_pos (h : Inv b) {j : Nat} (hj : j ≤ b.sealed.length + 1) :
    (b.keyUpTo c j).map c.pos = List.range (b.cnt c j) := by
  have h1 : (b.keyUpTo c j).map c.pos <+: (keyEvents b.abs c).map c.pos := by
    rw [keyEvents_eq h]; exact (keyUpTo_prefix b c hj).map _
  rw [keyEvents_pos b.abs c h.seq_ok h.ver_ok] at h1
  have := range_prefix h1
  rw [List.length_map, keyUpTo_length] at this
  exact this

/-- the `t`-th event of the key in segment `j` has position `cnt j + t` -/
theorem K_pos (h : Inv b) {j : Nat} (hj : j ≤ b.sealed.length) (t : Nat) (ht : t < (b.K c j).length) :
    c.pos ((b.K c j)[t]).1 = b.cnt c j + t := by
  have h1 := keyUpTo_pos (c := c) h (j := j + 1) (by omega)
  rw [← keyUpTo_length] at h1
  have hlen : b.cnt c j + t < (b.keyUpTo c (j + 1)).length := by
    rw [keyUpTo_length]; simp only [Bucket.cnt]; omega
  have h2 := num_get h1 (b.cnt c j + t) hlen
  rw [← h2]
  congr 1
  simp only [Bucket.keyUpTo]
  rw [List.getElem_append_right (by rw [keyUpTo_length]; omega)]
  simp [keyUpTo_length]

theorem keyEvents_drop (h : Inv b) {j : Nat} (hj : j ≤ b.sealed.length) (i : Nat) (hi : i ≤ (b.K c j).length) :
    (keyEvents b.abs c).drop (b.cnt c j + i) =
      ((b.K c j).drop i).map (·.1) ++ (keyEvents b.abs c).drop (b.cnt c (j + 1)) := by
  obtain ⟨r, hr⟩ := keyUpTo_prefix b c (show j + 1 ≤ b.sealed.length + 1 by omega)
  rw [keyEvents_eq h, ← hr]
  have e2 : b.cnt c (j + 1) = (b.keyUpTo c (j + 1)).length := (keyUpTo_length b c _).symm
  rw [e2, List.drop_left]
  simp only [Bucket.keyUpTo, List.append_assoc]
  rw [← keyUpTo_length, List.drop_append, List.drop_of_length_le (by omega), List.nil_append,
    Nat.add_sub_cancel_left, List.drop_append_of_le_length (by simpa using hi), List.map_drop]

theorem keyEvents_drop_ge (h : Inv b) {P : Nat} (hP : b.cnt c (b.sealed.length + 1) ≤ P) :
    (keyEvents b.abs c).drop P = [] :=
  List.drop_eq_nil_of_le (by rw [keyEvents_length h]; exact hP)

end SierraModel.Store
