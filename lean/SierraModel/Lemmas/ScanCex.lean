/-
`Inv ∧ Synced` alone do not make partition scans exact: `Inv` does not say that a transaction stays
in one partition.  A hand-built (unreachable) bucket with one two-event transaction spanning two
partitions satisfies `Inv` and `Synced`, and its partition scan returns the foreign event.
-/
import SierraModel.Lemmas.ScanCor

set_option linter.unusedSimpArgs false
set_option linter.unusedVariables false

namespace SierraModel.Store
open SierraModel.Version

def cexE1 : Ev := { eid := 1, pkey := 1, pid := 0, seq := 0, stream := 5, version := 0, tx := 1, single := false }
def cexE2 : Ev := { eid := 2, pkey := 1, pid := 1, seq := 0, stream := 5, version := 1, tx := 1, single := false }
def cexP1 : Placed := { off := 48, size := 10, r := .ev cexE1 }
def cexP2 : Placed := { off := 58, size := 10, r := .ev cexE2 }
def cexC : Placed := { off := 68, size := 37, r := .commit 1 2 }
def cexRecs : List Placed := [cexP1, cexP2, cexC]

/-- one transaction with events in partitions 0 and 1 -/
def cexBucket : Bucket :=
  { segSize := 1000, compression := false, sealed := [],
    live := { id := 0, recs := cexRecs, writeOff := 105, durable := 105, index := hydrate cexRecs,
              pending := [], watch := 105 },
    nextSeq := [] }

theorem cex_block : Block cexRecs :=
  Block.multi [cexP1, cexP2] cexC 1 (by decide)
    (by
      intro p hp
      simp only [List.mem_cons, List.not_mem_nil, or_false] at hp
      rcases hp with rfl | rfl
      · exact ⟨cexE1, rfl, rfl, rfl⟩
      · exact ⟨cexE2, rfl, rfl, rfl⟩)
    rfl

theorem cex_blocks : Blocks cexRecs := by
  have := Blocks.cons cexRecs [] cex_block Blocks.nil
  simpa using this

theorem cex_events : cexBucket.abs.events = [cexE1, cexE2] := by decide

theorem cex_inv : Inv cexBucket where
  sealed_ok := by intro s hs; cases hs
  live_contig := by simp [cexBucket, cexRecs, Contig, cexP1, cexP2, cexC, SEGMENT_HEADER_SIZE]
  writeOff_eq := by decide
  live_split := ⟨cexRecs, [], by simp [cexBucket], cex_blocks, Blocks.nil, rfl, rfl, by decide⟩
  watch_eq := rfl
  seq_ok := by
    rw [cex_events]
    show SeqOkR [cexE2, cexE1]
    exact ⟨⟨trivial, by decide⟩, by decide⟩
  ver_ok := by
    rw [cex_events]
    show VerOkR [cexE2, cexE1]
    refine ⟨⟨trivial, ?_⟩, ?_⟩
    · simp [latestOf, cexE1]
    · simp [latestOf, cexE1, cexE2]
  eid_nodup := by rw [cex_events]; decide
  tx_distinct := by
    have : cexBucket.abs.txs = [[cexE1, cexE2]] := by decide
    rw [this]; exact List.pairwise_singleton _ _
  tx_uniform := by
    have : cexBucket.abs.txs = [[cexE1, cexE2]] := by decide
    rw [this]; decide
  cache_ok := by intro pid n hm; cases hm
  cache_pending := by intro e he; cases he
  ids := by decide

theorem cex_synced : Synced cexBucket := ⟨rfl, rfl, rfl⟩

end SierraModel.Store
