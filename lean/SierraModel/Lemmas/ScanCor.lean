/-
Consequences of the numbering for scan results.
-/
import SierraModel.Lemmas.ScanRevTop
import SierraModel.Lemmas.ScanReach

set_option linter.unusedSimpArgs false
set_option linter.unusedVariables false

namespace SierraModel.Store
open SierraModel.Version

variable {b : Bucket} {c : ScanCfg}

theorem mine_eq (c : ScanCfg) (e : Ev) :
    c.mine e = (c.keep e && (if c.isStream then true else e.pid == c.key)) := by
  cases h : c.isStream <;> simp [ScanCfg.mine, ScanCfg.keep, h]

theorem drop_range (n P : Nat) : (List.range n).drop P = List.range' P (n - P) := by
  apply List.ext_getElem
  · simp
  · intro i h1 h2
    simp [List.getElem_drop, List.getElem_range']

/-- positions of the events at or after `P`: `P, P+1, …` -/
theorem fwd_positions (h : Inv b) (c : ScanCfg) (P : Nat) :
    ((keyEvents b.abs c).filter (fun e => decide (P ≤ c.pos e))).map c.pos =
      List.range' P ((keyEvents b.abs c).filter (fun e => decide (P ≤ c.pos e))).length := by
  rw [keyEvents_filter_ge h, List.map_drop, keyEvents_pos b.abs c h.seq_ok h.ver_ok, drop_range]
  simp

theorem range'_pairwise_lt : ∀ (n k : Nat), (List.range' k n).Pairwise (· < ·)
  | 0, _ => by simp
  | n + 1, k => by
    rw [List.range'_succ, List.pairwise_cons]
    refine ⟨fun x hx => ?_, range'_pairwise_lt n (k + 1)⟩
    have := List.mem_range'_1.1 hx
    omega

theorem pairwise_of_map {α : Type} (f : α → Nat) : ∀ (l : List α), (l.map f).Pairwise (· < ·) →
    l.Pairwise (fun x y => f x < f y)
  | [], _ => List.Pairwise.nil
  | a :: l, h => by
    rw [List.map_cons, List.pairwise_cons] at h
    exact List.pairwise_cons.2 ⟨fun x hx => h.1 _ (List.mem_map.2 ⟨x, hx, rfl⟩), pairwise_of_map f l h.2⟩

theorem rev_count (h : Inv b) (c : ScanCfg) (P : Nat) :
    ((keyEvents b.abs c).take (P + 1)).length =
      ((keyEvents b.abs c).filter (fun e => decide (c.pos e ≤ P))).length := by
  rw [filter_le_range' c.pos P (keyEvents b.abs c) 0
    (by rw [← List.range_eq_range']; exact keyEvents_pos b.abs c h.seq_ok h.ver_ok)]
  rfl

end SierraModel.Store
