/-
`drainSeg`: one step, `advanceIdx` going forward / backward, and the step at an event of a block.
-/
import SierraModel.Lemmas.ScanSeg

set_option linter.unusedSimpArgs false
set_option linter.unusedVariables false

namespace SierraModel.Store
open SierraModel.Version

/-- the events of a group that a scan returns -/
def scanEvs (c : ScanCfg) (dir : Dir) (upper : Nat) (group : List (Ev × Nat)) : List Ev :=
  match dir with
  | .fwd => (group.map (·.1)).filter c.keep
  | .rev => ((group.map (·.1)).filter c.keep).filter (fun e => c.pos e ≤ upper)

theorem drain_zero (c : ScanCfg) (dir : Dir) (recs : List Placed) (limit upper : Nat) (offsets : List Nat)
    (idx lastPos : Nat) (acc : List (List Ev)) :
    drainSeg c dir recs limit upper offsets 0 idx lastPos acc = .ok (acc, lastPos) := rfl

theorem drain_end (c : ScanCfg) (dir : Dir) (recs : List Placed) (limit upper : Nat) (offsets : List Nat)
    (fuel idx lastPos : Nat) (acc : List (List Ev)) (h : offsets[idx]? = none) :
    drainSeg c dir recs limit upper offsets fuel idx lastPos acc = .ok (acc, lastPos) := by
  cases fuel with
  | zero => rfl
  | succ f => simp only [drainSeg, h]

theorem drain_step_nil (c : ScanCfg) (dir : Dir) (recs : List Placed) (limit upper : Nat) (offsets : List Nat)
    (fuel idx lastPos : Nat) (acc : List (List Ev)) (off : Nat) (group : List (Ev × Nat))
    (h1 : offsets[idx]? = some off) (h2 : readCommitted recs limit off = some group)
    (h3 : scanEvs c dir upper group = []) :
    drainSeg c dir recs limit upper offsets (fuel + 1) idx lastPos acc =
      drainSeg c dir recs limit upper offsets fuel (advanceIdx group offsets idx) lastPos acc := by
  simp only [drainSeg, h1, h2]
  cases dir <;> simp only [scanEvs] at h3 <;> simp only [h3]

theorem drain_step_cons (c : ScanCfg) (dir : Dir) (recs : List Placed) (limit upper : Nat) (offsets : List Nat)
    (fuel idx lastPos : Nat) (acc : List (List Ev)) (off : Nat) (group : List (Ev × Nat)) (e0 : Ev) (es : List Ev)
    (h1 : offsets[idx]? = some off) (h2 : readCommitted recs limit off = some group)
    (h3 : scanEvs c dir upper group = e0 :: es) :
    drainSeg c dir recs limit upper offsets (fuel + 1) idx lastPos acc =
      drainSeg c dir recs limit upper offsets fuel (advanceIdx group offsets idx)
        (match dir with
         | .fwd => c.pos ((e0 :: es).getLast?.getD e0) + 1
         | .rev => c.pos e0 - 1) (acc ++ [e0 :: es]) := by
  simp only [drainSeg, h1, h2]
  cases dir <;> simp only [scanEvs] at h3 <;> simp only [h3]

/-- forward: the index moves past the offsets of the group just read -/
theorem advance_fwd (e : Ev) (o : Nat) (rest : List (Ev × Nat)) (A B C : List Nat)
    (hB : ∀ x ∈ B, ∃ y ∈ rest, y.2 = x)
    (hC : ∀ y, C.head? = some y → o < y ∧ ∀ g ∈ rest, g.2 < y)
    (hs : e.single = true → B = []) :
    advanceIdx ((e, o) :: rest) (A ++ o :: (B ++ C)) A.length = A.length + 1 + B.length := by
  unfold advanceIdx
  by_cases h : e.single = true
  · simp [h, hs h]
  · simp only [h, Bool.false_eq_true, if_false]
    have hd : (A ++ o :: (B ++ C)).drop (A.length + 1) = B ++ C := by
      rw [show A ++ o :: (B ++ C) = (A ++ [o]) ++ (B ++ C) by simp]
      rw [List.drop_append_of_le_length (by simp)]
      simp
    rw [hd, takeWhile_length_append _ B C]
    · intro x hx
      obtain ⟨y, hy, rfl⟩ := hB x hx
      have h1 := (foldl_min_le (fun x : Ev × Nat => x.2) rest o).2 y hy
      have h2 := (le_foldl_max (fun x : Ev × Nat => x.2) rest o).2 y hy
      simp only [Bool.and_eq_true, decide_eq_true_eq]
      exact ⟨h1, h2⟩
    · intro y hy
      obtain ⟨h1, h2⟩ := hC y hy
      have := foldl_max_le (fun x : Ev × Nat => x.2) (y - 1) rest o (by omega)
        (fun g hg => by have := h2 g hg; omega)
      simp only [Bool.and_eq_false_iff, decide_eq_false_iff_not]
      right; omega

/-- backward (offsets reversed): the index moves by one -/
theorem advance_rev (e : Ev) (o : Nat) (rest : List (Ev × Nat)) (A C : List Nat)
    (hC : ∀ y, C.head? = some y → y < o ∧ ∀ g ∈ rest, y < g.2) :
    advanceIdx ((e, o) :: rest) (A ++ o :: C) A.length = A.length + 1 := by
  unfold advanceIdx
  by_cases h : e.single = true
  · simp [h]
  · simp only [h, Bool.false_eq_true, if_false]
    have hd : (A ++ o :: C).drop (A.length + 1) = [] ++ C := by
      rw [show A ++ o :: C = (A ++ [o]) ++ C by simp]
      rw [List.drop_append_of_le_length (by simp)]
      simp
    rw [hd, takeWhile_length_append _ [] C (by simp)]
    · simp
    · intro y hy
      obtain ⟨h1, h2⟩ := hC y hy
      have := le_foldl_min (fun x : Ev × Nat => x.2) (y + 1) rest o (by omega)
        (fun g hg => by have := h2 g hg; omega)
      simp only [Bool.and_eq_false_iff, decide_eq_false_iff_not]
      left; omega

end SierraModel.Store
