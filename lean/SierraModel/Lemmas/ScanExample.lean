/-
A concrete history for the non-vacuity examples of C03: segment size 300, six transactions, three
rollovers; transaction 101 is a mixed multi-stream transaction (streams 10, 11, 10).
-/
import SierraModel.Lemmas.ScanCex

namespace SierraModel.Store
open SierraModel.Version

def exNev (eid stream size : Nat) : NewEv :=
  { eid := eid, stream := stream, expected := .any, tsOk := true, estimate := size, stored := size }

def exOps : List Op :=
  [ .append { pkey := 1, pid := 7, txId := 100, expectedSeq := .any, events := [exNev 1 10 100] },
    .append { pkey := 1, pid := 7, txId := 101, expectedSeq := .any,
              events := [exNev 2 10 30, exNev 3 11 30, exNev 4 10 30] },
    .append { pkey := 1, pid := 7, txId := 102, expectedSeq := .any, events := [exNev 5 11 100] },
    .append { pkey := 2, pid := 8, txId := 103, expectedSeq := .any, events := [exNev 6 12 100, exNev 7 12 100] },
    .append { pkey := 1, pid := 7, txId := 104, expectedSeq := .any, events := [exNev 8 10 100] },
    .append { pkey := 3, pid := 9, txId := 105, expectedSeq := .any, events := [exNev 9 13 100] } ]

/-- three sealed segments and the live one -/
def exB : Bucket := (Bucket.new 300 false).run exOps
/-- the same history in one big segment -/
def exBig : Bucket := (Bucket.new 100000 false).run exOps

/-- event ids of a scan result -/
def scanEids (r : Except ScanErr (List (List Ev))) : Option (List (List Nat)) :=
  match r with
  | .ok g => some (g.map (·.map (·.eid)))
  | .error _ => none

end SierraModel.Store
