/-
The forward scan of a bucket: `scanLoop` returns the key's events from the start position on.
-/
import SierraModel.Lemmas.ScanInnerFwd

set_option linter.unusedSimpArgs false
set_option linter.unusedVariables false

namespace SierraModel.Store
open SierraModel.Version

variable {b : Bucket} {c : ScanCfg}

/-- segment `j`: its records are found and well-formed -/
theorem seg_ok (h : Inv b) (hs : Synced b) (hp : TxPidOk b.abs) {j : Nat} (hj : j ≤ b.sealed.length) :
    ∃ limit, segRecs b j = some (b.segAt j, limit) ∧ SegOk c SEGMENT_HEADER_SIZE limit (b.segAt j) ∧
      ∀ t ∈ committedOf (b.segAt j), t ∈ b.abs.txs := by
  rcases Nat.lt_or_ge j b.sealed.length with hlt | hge
  · have hg := sealed_get_of_lt hlt
    refine ⟨b.sealed[j].recs.foldl (fun a p => max a (p.off + p.size)) 0, ?_, ?_, ?_⟩
    · rw [segRecs_sealed h hg, segAt_sealed hg]
    · rw [segAt_sealed hg]; exact segOk_sealed h hp hg
    · rw [segAt_sealed hg]
      intro t ht
      unfold Bucket.abs
      simp only [List.mem_append, List.mem_flatten, List.mem_map]
      exact Or.inl ⟨_, ⟨_, List.mem_of_getElem? hg, rfl⟩, ht⟩
  · have : j = b.sealed.length := by omega
    subst this
    refine ⟨b.live.durable, ?_, ?_, ?_⟩
    · rw [segRecs_live h, segAt_live (Nat.le_refl _)]
    · rw [segAt_live (Nat.le_refl _)]; exact segOk_live h hs hp
    · rw [segAt_live (Nat.le_refl _)]
      intro t ht
      unfold Bucket.abs
      simp only [List.mem_append]
      exact Or.inr ht

theorem scanLoop_fwd_some (b : Bucket) (c : ScanCfg) (f j i P lp limit : Nat) (acc G : List (List Ev))
    (recs : List Placed) (hj : j ≤ b.sealed.length) (hseg : segRecs b j = some (recs, limit))
    (hdr : drainSeg c .fwd recs limit P ((b.K c j).map (·.2)) (((b.K c j).map (·.2)).length + 1) i P [] = .ok (G, lp)) :
    scanLoop b c .fwd (f + 1) (some (fwdIter b c j i)) P acc =
      if j < b.sealed.length then
        scanLoop b c .fwd f (newInner b c .fwd (if G.isEmpty then P else lp) (j + 1) true)
          (if G.isEmpty then P else lp) (acc ++ G)
      else .ok (acc ++ G) := by
  simp only [scanLoop, fwdIter, hseg, hdr]
  by_cases hlt : j < b.sealed.length
  · have : j ≠ b.sealed.length := by omega
    simp [hlt, this]
  · have : j = b.sealed.length := by omega
    simp [this]

/-- some segment at or after `lo` holds the event with position `P` -/
theorem exists_seg (b : Bucket) (c : ScanCfg) (lo P : Nat) : ∀ hi, lo ≤ hi → b.cnt c lo ≤ P → P < b.cnt c hi →
    ∃ j, lo ≤ j ∧ j < hi ∧ b.K c j ≠ [] ∧ b.cnt c j ≤ P
  | 0, h1, h2, h3 => by
    have : lo = 0 := by omega
    subst this; omega
  | hi + 1, h1, h2, h3 => by
    by_cases hlo : lo = hi + 1
    · subst hlo; omega
    · by_cases hP : P < b.cnt c hi
      · obtain ⟨j, a, b', c', d⟩ := exists_seg b c lo P hi (by omega) h2 hP
        exact ⟨j, a, by omega, c', d⟩
      · refine ⟨hi, by omega, by omega, ?_, by omega⟩
        intro hk
        simp only [Bucket.cnt, hk, List.length_nil] at h3
        omega

theorem lastAfter_flat_nil (c : ScanCfg) (lp : Nat) {G : List (List Ev)} (h : G.flatten = []) :
    lastAfter c lp G = lp := by
  simp [lastAfter, h]

theorem lastAfter_seg (h : Inv b) {j : Nat} (hj : j ≤ b.sealed.length) {i : Nat} (hi : i < (b.K c j).length)
    {G : List (List Ev)} (hG : G.flatten = ((b.K c j).drop i).map (·.1)) (lp : Nat) :
    lastAfter c lp G = b.cnt c (j + 1) := by
  have hlen : (b.K c j).length - 1 < (b.K c j).length := by omega
  have hp := K_pos (c := c) h hj _ hlen
  unfold lastAfter
  rw [hG, List.getLast?_map, List.getLast?_drop, if_neg (by omega), List.getLast?_eq_getElem?,
    List.getElem?_eq_getElem hlen]
  simp only [Option.map_some, hp, Bucket.cnt]
  omega

/-- the forward loop from `newInner … P lo`: the key's events from position `P` on -/
theorem scan_fwd_loop (h : Inv b) (hs : Synced b) (hp : TxPidOk b.abs) : ∀ (fuel lo P : Nat) (acc : List (List Ev)),
    lo ≤ b.sealed.length → b.cnt c lo ≤ P → b.sealed.length - lo + 2 ≤ fuel →
    ∃ G, scanLoop b c .fwd fuel (newInner b c .fwd P lo true) P acc = .ok (acc ++ G) ∧
      G.flatten = (keyEvents b.abs c).drop P ∧
      ∀ g ∈ G, g ≠ [] ∧ ∃ t ∈ b.abs.txs, g <:+ t.filter c.mine
  | 0, _, _, _, _, _, hf => by omega
  | f + 1, lo, P, acc, hlo, hP, hf => by
    rcases newInner_fwd (c := c) h hs P lo hlo with ⟨hn, hall⟩ | ⟨j, hj1, hj2, hk, hjP, hn⟩
    · refine ⟨[], by rw [hn]; simp [scanLoop], ?_, by simp⟩
      rw [List.flatten_nil]
      symm
      apply keyEvents_drop_ge h
      apply Nat.not_lt.1
      intro hlt
      obtain ⟨j, a1, a2, a3, a4⟩ := exists_seg b c lo P (b.sealed.length + 1) (by omega) hP hlt
      rcases hall j a1 (by omega) with h1 | h1
      · exact a3 h1
      · omega
    · obtain ⟨limit, hseg, hok, hsub⟩ := seg_ok (c := c) h hs hp hj2
      let i := Nat.min (P - b.cnt c j) (b.K c j).length
      have hi_le : i ≤ (b.K c j).length := Nat.min_le_right _ _
      obtain ⟨G, hdr, hfl, hgr⟩ := drain_fwd_from hok P i (((b.K c j).map (·.2)).length + 1) P []
        (by simp [Bucket.K])
      rw [List.nil_append] at hdr
      have hdr : drainSeg c .fwd (b.segAt j) limit P ((b.K c j).map (·.2))
          (((b.K c j).map (·.2)).length + 1) i P [] = .ok (G, lastAfter c P G) := hdr
      have hfl : G.flatten = ((b.K c j).drop i).map (·.1) := hfl
      have hgr' : ∀ g ∈ G, g ≠ [] ∧ ∃ t ∈ b.abs.txs, g <:+ t.filter c.mine := by
        intro g hg
        obtain ⟨h1, t, ht, h2⟩ := hgr g hg
        exact ⟨h1, t, hsub t ht, h2⟩
      rw [hn, scanLoop_fwd_some b c f j i P _ limit acc G _ hj2 hseg hdr]
      have hlp : (if G.isEmpty then P else lastAfter c P G) = lastAfter c P G := by
        split
        · rename_i h0
          rw [List.isEmpty_iff.1 h0]; rfl
        · rfl
      rw [hlp]
      -- the events of this segment from `i`, and what remains
      have hdrop := keyEvents_drop (c := c) h hj2 i hi_le
      by_cases hlt : j < b.sealed.length
      · rw [if_pos hlt]
        by_cases hi : i < (b.K c j).length
        · -- events returned: the resume position is the start of the next segment
          have hPi : P = b.cnt c j + i := by
            have : P - b.cnt c j < (b.K c j).length := by
              apply Nat.not_le.1; intro hh
              have : i = (b.K c j).length := Nat.min_eq_right hh
              omega
            have : i = P - b.cnt c j := Nat.min_eq_left (Nat.le_of_lt this)
            omega
          rw [lastAfter_seg h hj2 hi hfl]
          obtain ⟨G', h1, h2, h3⟩ := scan_fwd_loop h hs hp f (j + 1) (b.cnt c (j + 1)) (acc ++ G) hlt
            (Nat.le_refl _) (by omega)
          refine ⟨G ++ G', by rw [h1, List.append_assoc], ?_, ?_⟩
          · rw [List.flatten_append, hfl, h2, hPi, hdrop]
          · intro g hg
            rcases List.mem_append.1 hg with hg | hg
            · exact hgr' g hg
            · exact h3 g hg
        · -- nothing in this segment at or after `P`
          have hnil : G.flatten = [] := by
            rw [hfl, List.drop_eq_nil_of_le (by omega)]; rfl
          have hPge : b.cnt c (j + 1) ≤ P := by
            have : i = (b.K c j).length := by omega
            have h2 : (b.K c j).length ≤ P - b.cnt c j := by
              apply Nat.not_lt.1; intro hh
              have : i = P - b.cnt c j := Nat.min_eq_left (Nat.le_of_lt hh)
              omega
            simp only [Bucket.cnt]; omega
          rw [lastAfter_flat_nil c P hnil]
          obtain ⟨G', h1, h2, h3⟩ := scan_fwd_loop h hs hp f (j + 1) P (acc ++ G) hlt hPge (by omega)
          refine ⟨G ++ G', by rw [h1, List.append_assoc], ?_, ?_⟩
          · rw [List.flatten_append, hnil, h2]; rfl
          · intro g hg
            rcases List.mem_append.1 hg with hg | hg
            · exact hgr' g hg
            · exact h3 g hg
      · rw [if_neg hlt]
        have hjn : j = b.sealed.length := by omega
        refine ⟨G, rfl, ?_, hgr'⟩
        rw [hfl]
        have hrest : (keyEvents b.abs c).drop (b.cnt c (j + 1)) = [] :=
          keyEvents_drop_ge h (by rw [hjn]; exact Nat.le_refl _)
        rw [hrest, List.append_nil] at hdrop
        by_cases hi : i < (b.K c j).length
        · have hPi : P = b.cnt c j + i := by
            have : P - b.cnt c j < (b.K c j).length := by
              apply Nat.not_le.1; intro hh
              have : i = (b.K c j).length := Nat.min_eq_right hh
              omega
            have : i = P - b.cnt c j := Nat.min_eq_left (Nat.le_of_lt this)
            omega
          rw [hPi, hdrop]
        · rw [List.drop_eq_nil_of_le (by omega)]
          symm
          apply keyEvents_drop_ge h
          have : i = (b.K c j).length := by omega
          have h2 : (b.K c j).length ≤ P - b.cnt c j := by
            apply Nat.not_lt.1; intro hh
            have : i = P - b.cnt c j := Nat.min_eq_left (Nat.le_of_lt hh)
            omega
          rw [← hjn]; simp only [Bucket.cnt]; omega

end SierraModel.Store
