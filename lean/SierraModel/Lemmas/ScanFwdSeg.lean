/-
Forward `drainSeg` over a well-formed segment: from an event of the key to the end of the segment.
-/
import SierraModel.Lemmas.ScanAt

set_option linter.unusedSimpArgs false
set_option linter.unusedVariables false

namespace SierraModel.Store
open SierraModel.Version

theorem AtEv.fwd_step {c : ScanCfg} {s limit : Nat} {pre b1 : List Placed} {p : Placed} {b2 post : List Placed}
    {e : Ev} (h : AtEv c s limit pre b1 p b2 post e) (upper fuel lastPos : Nat) (acc : List (List Ev)) :
    drainSeg c .fwd (pre ++ (b1 ++ p :: b2) ++ post) limit upper
        ((keyOffs c (pre ++ (b1 ++ p :: b2) ++ post)).map (·.2)) (fuel + 1) (keyOffs c (pre ++ b1)).length lastPos acc =
      drainSeg c .fwd (pre ++ (b1 ++ p :: b2) ++ post) limit upper
        ((keyOffs c (pre ++ (b1 ++ p :: b2) ++ post)).map (·.2)) fuel (keyOffs c (pre ++ (b1 ++ p :: b2))).length
        (c.pos ((e :: (evsOf b2).filter c.mine).getLast?.getD e) + 1) (acc ++ [e :: (evsOf b2).filter c.mine]) := by
  have hoff := h.offsets
  have hidx : ((keyOffs c (pre ++ (b1 ++ p :: b2) ++ post)).map (·.2))[(keyOffs c (pre ++ b1)).length]? = some p.off := by
    rw [hoff, List.getElem?_append_right (by simp)]; simp
  have hadv : advanceIdx ((e, p.off) :: evOffs b2) ((keyOffs c (pre ++ (b1 ++ p :: b2) ++ post)).map (·.2))
      (keyOffs c (pre ++ b1)).length = (keyOffs c (pre ++ (b1 ++ p :: b2))).length := by
    have := advance_fwd e p.off (evOffs b2) ((keyOffs c (pre ++ b1)).map (·.2)) ((keyOffs c b2).map (·.2))
      ((keyOffs c post).map (·.2))
      (by
        intro x hx
        obtain ⟨z, hz, rfl⟩ := List.mem_map.1 hx
        exact ⟨z, keyOffs_sub c b2 hz, rfl⟩)
      (by
        intro y hy
        exact h.after (List.mem_of_mem_head? hy))
      (by intro hs; rw [h.single_nil hs]; rfl)
    have hlen : (keyOffs c (pre ++ (b1 ++ p :: b2))).length =
        (keyOffs c (pre ++ b1)).length + 1 + (keyOffs c b2).length := by
      have e1 : pre ++ (b1 ++ p :: b2) = (pre ++ b1) ++ (p :: b2) := by simp
      rw [e1, keyOffs_append c (pre ++ b1) (p :: b2), keyOffs_cons_ev c p b2 e h.he]
      simp [h.hm]; omega
    rw [hoff, hlen]
    simp only [List.length_map] at this
    exact this
  rw [drain_step_cons c .fwd _ limit upper _ fuel _ lastPos acc p.off _ e _ hidx h.read (h.evs_fwd upper), hadv]

/-- the groups a forward scan returns from a block boundary -/
def fwdGroups (c : ScanCfg) (recs : List Placed) : List (List Ev) :=
  ((committedOf recs).map (·.filter c.mine)).filter (fun g => !g.isEmpty)

/-- resume position after the groups `G` -/
def lastAfter (c : ScanCfg) (lp : Nat) (G : List (List Ev)) : Nat :=
  match G.flatten.getLast? with
  | none => lp
  | some e => c.pos e + 1

/-- in every transaction holding an event of the key, the scan filter keeps exactly the key's events -/
def KeepOk (c : ScanCfg) (recs : List Placed) : Prop :=
  ∀ t ∈ committedOf recs, (∃ e ∈ t, c.mine e = true) → ∀ e' ∈ t, c.keep e' = c.mine e'

theorem fwdGroups_nil (c : ScanCfg) : fwdGroups c [] = [] := rfl

theorem fwdGroups_cons (c : ScanCfg) {blk : List Placed} (hb : Block blk) (rest : List Placed) :
    fwdGroups c (blk ++ rest) =
      if (evsOf blk).filter c.mine = [] then fwdGroups c rest else (evsOf blk).filter c.mine :: fwdGroups c rest := by
  unfold fwdGroups
  rw [committedOf_block_cons hb, List.map_cons, List.filter_cons]
  cases h : (evsOf blk).filter c.mine <;> simp

theorem KeepOk.tail {c : ScanCfg} {blk rest : List Placed} (hb : Block blk) (h : KeepOk c (blk ++ rest)) :
    KeepOk c rest := by
  intro t ht
  exact h t (by rw [committedOf_block_cons hb]; exact List.mem_cons_of_mem _ ht)

theorem KeepOk.head {c : ScanCfg} {blk rest : List Placed} (hb : Block blk) (h : KeepOk c (blk ++ rest)) :
    (∃ e ∈ evsOf blk, c.mine e = true) → ∀ e' ∈ evsOf blk, c.keep e' = c.mine e' :=
  h _ (by rw [committedOf_block_cons hb]; exact List.mem_cons_self)

theorem lastAfter_cons (c : ScanCfg) (lp : Nat) (e : Ev) (es : List Ev) (G : List (List Ev)) :
    lastAfter c lp ((e :: es) :: G) = lastAfter c (c.pos ((e :: es).getLast?.getD e) + 1) G := by
  unfold lastAfter
  rw [List.flatten_cons, List.getLast?_append]
  cases h : G.flatten.getLast? with
  | some y => simp
  | none =>
    simp only [Option.none_or]
    cases h2 : (e :: es).getLast? with
    | none => simp at h2
    | some z => simp

/-- forward from a block boundary to the end of the segment -/
theorem drain_fwd_blocks (c : ScanCfg) (s limit upper : Nat) : ∀ post : List Placed, Blocks post →
    ∀ (pre : List Placed) (fuel lastPos : Nat) (acc : List (List Ev)),
      Contig s (pre ++ post) → endFrom s (pre ++ post) ≤ limit → KeepOk c post →
      (keyOffs c post).length + 1 ≤ fuel →
      drainSeg c .fwd (pre ++ post) limit upper ((keyOffs c (pre ++ post)).map (·.2)) fuel
          (keyOffs c pre).length lastPos acc =
        .ok (acc ++ fwdGroups c post, lastAfter c lastPos (fwdGroups c post)) := by
  intro post hpost
  induction hpost with
  | nil =>
    intro pre fuel lastPos acc _ _ _ _
    rw [drain_end _ _ _ _ _ _ _ _ _ _ (by simp)]
    simp [fwdGroups_nil, lastAfter]
  | cons blk rest hb hrest ih =>
    intro pre fuel lastPos acc hc hl hk hf
    have e1 : pre ++ (blk ++ rest) = (pre ++ blk) ++ rest := by simp
    by_cases hk0 : keyOffs c blk = []
    · have hnil : (evsOf blk).filter c.mine = [] := by rw [← keyOffs_map_fst, hk0]; rfl
      have hidx : (keyOffs c pre).length = (keyOffs c (pre ++ blk)).length := by
        rw [keyOffs_append, hk0]; simp
      rw [fwdGroups_cons c hb, if_pos hnil, hidx, e1]
      refine ih (pre ++ blk) fuel lastPos acc (by rw [← e1]; exact hc) (by rw [← e1]; exact hl) (hk.tail hb) ?_
      rw [keyOffs_append, hk0] at hf; simpa using hf
    · have hpos : 0 < (keyOffs c blk).length := List.length_pos_iff.2 hk0
      obtain ⟨b1, p, b2, e, rfl, he, hm, hlen0⟩ := keyOffs_split c blk 0 hpos
      have hb1 : keyOffs c b1 = [] := List.length_eq_zero_iff.1 hlen0
      have hmem : e ∈ evsOf (b1 ++ p :: b2) := by
        rw [evsOf_append, evsOf_cons_ev p b2 e he]; simp
      have hat : AtEv c s limit pre b1 p b2 rest e :=
        { hc := by rw [← e1]; exact hc
          hb := hb, he := he, hm := hm
          hl := by rw [← e1]; exact hl
          hk := fun e' he' => hk.head hb ⟨e, hmem, hm⟩ e' (by rw [evsOf_append]; exact List.mem_append_right _ he') }
      have hg : (evsOf (b1 ++ p :: b2)).filter c.mine = e :: (evsOf b2).filter c.mine := by
        rw [evsOf_append, List.filter_append, ← keyOffs_map_fst c b1, hb1, evsOf_cons_ev p b2 e he]
        simp [hm]
      have hne : (evsOf (b1 ++ p :: b2)).filter c.mine ≠ [] := by rw [hg]; simp
      have hidx : (keyOffs c pre).length = (keyOffs c (pre ++ b1)).length := by
        rw [keyOffs_append, hb1]; simp
      obtain ⟨f, rfl⟩ : ∃ f, fuel = f + 1 := ⟨fuel - 1, by omega⟩
      rw [fwdGroups_cons c hb, if_neg hne, hg, hidx, e1, hat.fwd_step upper f lastPos acc]
      rw [ih (pre ++ (b1 ++ p :: b2)) f _ _ (by rw [← e1]; exact hc) (by rw [← e1]; exact hl) (hk.tail hb) ?_]
      · rw [lastAfter_cons]; simp
      · rw [keyOffs_append] at hf
        have : 0 < (keyOffs c (b1 ++ p :: b2)).length := hpos
        simp only [List.length_append] at hf; omega

end SierraModel.Store
