/-
Forward `drainSeg` from the `i`-th event of the key in a well-formed segment.
-/
import SierraModel.Lemmas.ScanFwdSeg

set_option linter.unusedSimpArgs false
set_option linter.unusedVariables false

namespace SierraModel.Store
open SierraModel.Version

/-- the block around a given record of a well-formed list -/
theorem Blocks.split_at {recs : List Placed} (h : Blocks recs) : ∀ (l1 : List Placed) (p : Placed) (l2 : List Placed),
    recs = l1 ++ p :: l2 →
    ∃ pre b1 b2 post, l1 = pre ++ b1 ∧ l2 = b2 ++ post ∧ Blocks pre ∧ Block (b1 ++ p :: b2) ∧ Blocks post := by
  induction h with
  | nil => intro l1 p l2 e; simp at e
  | cons blk rest hb hrest ih =>
    intro l1 p l2 e
    rcases List.append_eq_append_iff.1 e with ⟨a', h1, h2⟩ | ⟨c', h1, h2⟩
    · -- l1 = blk ++ a', rest = a' ++ p :: l2
      obtain ⟨pre, b1, b2, post, e1, e2, hp, hbl, hpo⟩ := ih a' p l2 h2
      exact ⟨blk ++ pre, b1, b2, post, by rw [h1, e1]; simp, e2, Blocks.cons _ _ hb hp, hbl, hpo⟩
    · -- blk = l1 ++ c', p :: l2 = c' ++ rest
      cases c' with
      | nil =>
        simp only [List.nil_append] at h2
        simp only [List.append_nil] at h1
        obtain ⟨pre, b1, b2, post, e1, e2, hp, hbl, hpo⟩ := ih [] p l2 h2.symm
        have hpre : pre = [] := by cases pre <;> simp at e1 ⊢
        have hb1 : b1 = [] := by subst hpre; simpa using e1.symm
        subst hpre; subst hb1
        exact ⟨l1, [], b2, post, by simp, e2, by rw [← h1]; exact Blocks.cons _ [] hb Blocks.nil |> (by simpa using ·), hbl, hpo⟩
      | cons q c'' =>
        simp only [List.cons_append, List.cons.injEq] at h2
        obtain ⟨rfl, rfl⟩ := h2
        exact ⟨[], l1, c'', rest, by simp, rfl, Blocks.nil, by rw [← h1]; exact hb, hrest⟩

theorem fwdGroups_flatten (c : ScanCfg) {recs : List Placed} (h : Blocks recs) :
    (fwdGroups c recs).flatten = (evsOf recs).filter c.mine := by
  induction h with
  | nil => rfl
  | cons blk rest hb _ ih =>
    rw [fwdGroups_cons c hb, evsOf_append, List.filter_append]
    split
    · rename_i h0; rw [h0, ih]; rfl
    · rw [List.flatten_cons, ih]

theorem fwdGroups_mem (c : ScanCfg) {recs : List Placed} {g : List Ev} (h : g ∈ fwdGroups c recs) :
    g ≠ [] ∧ ∃ t ∈ committedOf recs, g = t.filter c.mine := by
  unfold fwdGroups at h
  obtain ⟨h1, h2⟩ := List.mem_filter.1 h
  obtain ⟨t, ht, rfl⟩ := List.mem_map.1 h1
  exact ⟨by simpa using h2, t, ht, rfl⟩

/-- a well-formed segment read below `limit` -/
structure SegOk (c : ScanCfg) (s limit : Nat) (recs : List Placed) : Prop where
  hc : Contig s recs
  hb : Blocks recs
  hl : endFrom s recs ≤ limit
  hk : KeepOk c recs

/-- the segment split at the `i`-th event of the key -/
theorem SegOk.split {c : ScanCfg} {s limit : Nat} {recs : List Placed} (h : SegOk c s limit recs) {i : Nat}
    (hi : i < (keyOffs c recs).length) :
    ∃ pre b1 p b2 post e, recs = pre ++ (b1 ++ p :: b2) ++ post ∧ AtEv c s limit pre b1 p b2 post e ∧
      Blocks pre ∧ Blocks post ∧ (keyOffs c (pre ++ b1)).length = i ∧
      committedOf recs = committedOf pre ++ evsOf (b1 ++ p :: b2) :: committedOf post := by
  obtain ⟨l1, p, l2, e, hr, he, hm, hlen⟩ := keyOffs_split c recs i hi
  obtain ⟨pre, b1, b2, post, e1, e2, hp, hbl, hpo⟩ := h.hb.split_at l1 p l2 hr
  have hr' : recs = pre ++ (b1 ++ p :: b2) ++ post := by rw [hr, e1, e2]; simp
  have hco : committedOf recs = committedOf pre ++ evsOf (b1 ++ p :: b2) :: committedOf post := by
    rw [hr', List.append_assoc, committedOf_blocks_append hp, committedOf_block_cons hbl]
  have hmem : e ∈ evsOf (b1 ++ p :: b2) := by rw [evsOf_append, evsOf_cons_ev p b2 e he]; simp
  refine ⟨pre, b1, p, b2, post, e, hr', ?_, hp, hpo, by rw [← e1]; exact hlen, hco⟩
  exact { hc := by rw [← hr']; exact h.hc
          hb := hbl, he := he, hm := hm
          hl := by rw [← hr']; exact h.hl
          hk := fun e' he' => h.hk _ (by rw [hco]; simp) ⟨e, hmem, hm⟩ e'
            (by rw [evsOf_append]; exact List.mem_append_right _ he') }

/-- forward from the `i`-th event of the key to the end of the segment -/
theorem drain_fwd_from {c : ScanCfg} {s limit : Nat} {recs : List Placed} (h : SegOk c s limit recs)
    (upper i fuel lastPos : Nat) (acc : List (List Ev)) (hf : (keyOffs c recs).length + 1 ≤ fuel) :
    ∃ G, drainSeg c .fwd recs limit upper ((keyOffs c recs).map (·.2)) fuel i lastPos acc =
        .ok (acc ++ G, lastAfter c lastPos G) ∧
      G.flatten = ((keyOffs c recs).drop i).map (·.1) ∧
      ∀ g ∈ G, g ≠ [] ∧ ∃ t ∈ committedOf recs, g <:+ t.filter c.mine := by
  by_cases hi : i < (keyOffs c recs).length
  · obtain ⟨pre, b1, p, b2, post, e, hr, hat, hp, hpo, hlen, hco⟩ := h.split hi
    subst hr
    have e1 : pre ++ (b1 ++ p :: b2) ++ post = (pre ++ b1) ++ (p :: (b2 ++ post)) := by simp
    have hkpost : KeepOk c post := fun t ht => h.hk t (by rw [hco]; simp [ht])
    obtain ⟨f, rfl⟩ : ∃ f, fuel = f + 1 := ⟨fuel - 1, by omega⟩
    refine ⟨(e :: (evsOf b2).filter c.mine) :: fwdGroups c post, ?_, ?_, ?_⟩
    · rw [← hlen, hat.fwd_step upper f lastPos acc]
      rw [drain_fwd_blocks c s limit upper post hpo (pre ++ (b1 ++ p :: b2)) f _ _ hat.hc hat.hl hkpost ?_]
      · rw [lastAfter_cons]; simp
      · have : (keyOffs c (pre ++ (b1 ++ p :: b2) ++ post)).length =
            (keyOffs c (pre ++ (b1 ++ p :: b2))).length + (keyOffs c post).length := by
          rw [keyOffs_append]; simp
        have h2 : 0 < (keyOffs c (pre ++ (b1 ++ p :: b2))).length := by
          rw [show pre ++ (b1 ++ p :: b2) = (pre ++ b1) ++ (p :: b2) by simp, keyOffs_append,
            keyOffs_cons_ev c p b2 e hat.he]
          simp [hat.hm]; omega
        omega
    · rw [List.flatten_cons, fwdGroups_flatten c hpo, e1, keyOffs_append c (pre ++ b1),
        List.drop_append_of_le_length (by omega), ← hlen, List.drop_length, List.nil_append,
        keyOffs_map_fst, evsOf_cons_ev p _ e hat.he, evsOf_append]
      simp [hat.hm]
    · intro g hg
      rcases List.mem_cons.1 hg with rfl | hg
      · refine ⟨by simp, evsOf (b1 ++ p :: b2), by rw [hco]; simp, ?_⟩
        rw [evsOf_append, List.filter_append, evsOf_cons_ev p b2 e hat.he]
        simp only [List.filter_cons, hat.hm, if_true]
        exact List.suffix_append _ _
      · obtain ⟨h1, t, ht, rfl⟩ := fwdGroups_mem c hg
        exact ⟨h1, t, by rw [hco]; simp [ht], List.suffix_refl _⟩
  · refine ⟨[], ?_, ?_, by simp⟩
    · rw [drain_end _ _ _ _ _ _ _ _ _ _ (by simp; omega)]; simp [lastAfter]
    · rw [List.drop_eq_nil_of_le (by omega)]; rfl

end SierraModel.Store
