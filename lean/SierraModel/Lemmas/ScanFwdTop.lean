/-
The forward scan of a bucket, top level, and the consequences of the numbering.
-/
import SierraModel.Lemmas.ScanFwd

set_option linter.unusedSimpArgs false
set_option linter.unusedVariables false

namespace SierraModel.Store
open SierraModel.Version

variable {b : Bucket} {c : ScanCfg}

theorem filter_ge_range' {α : Type} (f : α → Nat) (P : Nat) : ∀ (l : List α) (k : Nat),
    l.map f = List.range' k l.length → l.filter (fun e => decide (P ≤ f e)) = l.drop (P - k)
  | [], _, _ => by simp
  | a :: l, k, h => by
    simp only [List.map_cons, List.length_cons, List.range'_succ, List.cons.injEq] at h
    have ih := filter_ge_range' f P l (k + 1) h.2
    rw [List.filter_cons, ih, h.1]
    by_cases hk : P ≤ k
    · simp only [hk, decide_true, if_true]
      rw [show P - (k + 1) = 0 by omega, show P - k = 0 by omega]; rfl
    · simp only [hk, decide_false, Bool.false_eq_true, if_false]
      rw [show P - k = (P - (k + 1)) + 1 by omega]; rfl

theorem keyEvents_filter_ge (h : Inv b) (P : Nat) :
    (keyEvents b.abs c).filter (fun e => decide (P ≤ c.pos e)) = (keyEvents b.abs c).drop P := by
  have := filter_ge_range' c.pos P (keyEvents b.abs c) 0
    (by rw [← List.range_eq_range']; exact keyEvents_pos b.abs c h.seq_ok h.ver_ok)
  simpa using this

theorem scan_fwd (h : Inv b) (hs : Synced b) (hp : TxPidOk b.abs) (c : ScanCfg) (P : Nat) :
    ∃ G, b.scan c .fwd P = .ok G ∧
      G.flatten = (keyEvents b.abs c).filter (fun e => decide (P ≤ c.pos e)) ∧
      ∀ g ∈ G, g ≠ [] ∧ ∃ t ∈ b.abs.txs, g <:+ t.filter c.mine := by
  obtain ⟨G, h1, h2, h3⟩ := scan_fwd_loop (c := c) h hs hp (b.sealed.length + 3) 0 P [] (Nat.zero_le _)
    (Nat.zero_le _) (by omega)
  refine ⟨G, ?_, by rw [h2, keyEvents_filter_ge h], h3⟩
  unfold Bucket.scan
  simpa using h1

end SierraModel.Store
