/-
`liveKey`, `sealedKey` and `newInner` (forward) in terms of `K` / `cnt`.
-/
import SierraModel.Lemmas.ScanWf

set_option linter.unusedSimpArgs false
set_option linter.unusedVariables false

namespace SierraModel.Store
open SierraModel.Version

variable {b : Bucket} {c : ScanCfg}

theorem keyInfo_seg (h : Inv b) {j : Nat} (hj : j ≤ b.sealed.length) :
    keyInfo c (hydrate (b.segAt j)) =
      if b.K c j = [] then none else some (b.cnt c j, (b.K c j).map (·.2)) := by
  rw [keyInfo_hydrate]
  have hp := K_pos (c := c) h hj 0
  unfold Bucket.K at hp ⊢
  cases hk : keyOffs c (b.segAt j) with
  | nil => simp
  | cons x xs =>
    rw [hk] at hp
    have := hp (by simp)
    simp only [List.getElem_cons_zero, Nat.add_zero] at this
    simp [this]

theorem liveKey_none (h : Inv b) (hs : Synced b) (dir : Dir) (P : Nat)
    (hk : b.K c b.sealed.length = [] ∨ P < b.cnt c b.sealed.length) : liveKey b c dir P = none := by
  unfold liveKey
  rw [h.synced_index hs, ← segAt_live (Nat.le_refl _), keyInfo_seg h (Nat.le_refl _)]
  by_cases h0 : b.K c b.sealed.length = []
  · simp [h0]
  · rcases hk with hk | hk
    · exact absurd hk h0
    · simp [h0, hk]

theorem liveKey_some (h : Inv b) (hs : Synced b) (dir : Dir) (P : Nat)
    (hk : b.K c b.sealed.length ≠ []) (hP : b.cnt c b.sealed.length ≤ P) :
    liveKey b c dir P = some ((b.K c b.sealed.length).map (·.2),
      offsetsIndex dir P (b.cnt c b.sealed.length) (b.K c b.sealed.length).length) := by
  unfold liveKey
  rw [h.synced_index hs, ← segAt_live (Nat.le_refl _), keyInfo_seg h (Nat.le_refl _)]
  simp [hk, Nat.not_lt.2 hP]

theorem sealedKey_none (h : Inv b) (dir : Dir) (P : Nat) {j : Nat} {s : Sealed} (hj : b.sealed[j]? = some s)
    (hk : b.K c j = [] ∨ P < b.cnt c j) : sealedKey s c dir P j = none := by
  have hlt : j < b.sealed.length := by
    rcases Nat.lt_or_ge j b.sealed.length with h | h
    · exact h
    · rw [List.getElem?_eq_none h] at hj; cases hj
  have hidx := (h.sealed_ok s (List.mem_of_getElem? hj)).2.2.1
  unfold sealedKey
  rw [hidx, ← segAt_sealed hj, keyInfo_seg h (Nat.le_of_lt hlt)]
  by_cases h0 : b.K c j = []
  · simp [h0]
  · rcases hk with hk | hk
    · exact absurd hk h0
    · have hj0 : j ≠ 0 := by intro h0; subst h0; simp [Bucket.cnt] at hk
      simp [h0, hk, hj0]

theorem sealedKey_some (h : Inv b) (dir : Dir) (P : Nat) {j : Nat} {s : Sealed} (hj : b.sealed[j]? = some s)
    (hk : b.K c j ≠ []) (hP : b.cnt c j ≤ P) :
    sealedKey s c dir P j = some ((b.K c j).map (·.2), offsetsIndex dir P (b.cnt c j) (b.K c j).length) := by
  have hlt : j < b.sealed.length := by
    rcases Nat.lt_or_ge j b.sealed.length with h | h
    · exact h
    · rw [List.getElem?_eq_none h] at hj; cases hj
  have hidx := (h.sealed_ok s (List.mem_of_getElem? hj)).2.2.1
  unfold sealedKey
  rw [hidx, ← segAt_sealed hj, keyInfo_seg h (Nat.le_of_lt hlt)]
  simp [hk, hP]

/-- the candidate `newInner` computes for the sealed segment at index `i` -/
def candF (b : Bucket) (c : ScanCfg) (dir : Dir) (P lo : Nat) (i : Nat) : Option (Nat × List Nat × Nat × Bool) :=
  match b.sealed[i]? with
  | none => none
  | some s =>
    let idOk : Bool := match dir with | .fwd => decide (s.id ≥ lo) | .rev => decide (s.id ≤ lo)
    if !idOk then none
    else (sealedKey s c dir P i).map (fun r =>
      (s.id, r.1, r.2, (match dir with | .fwd => decide (b.sealed.length + 1 - 1 > i) | .rev => decide (i > 0))))

theorem newInner_eq (b : Bucket) (c : ScanCfg) (dir : Dir) (P lo : Nat) (chk : Bool) :
    newInner b c dir P lo chk =
      match (if (match dir with | .fwd => decide (b.live.id ≥ lo) | .rev => decide (b.live.id ≤ lo))
             then liveKey b c dir P else none) with
      | some (offs, idx) =>
        some (mkSegIter b.live.id true (match dir with | .fwd => false | .rev => decide (b.live.id > 0)) dir offs idx)
      | none =>
        if !chk then none
        else
          match (List.range b.sealed.length).reverse.findSome? (candF b c dir P lo) with
          | some (sid, offs, idx, hasNext) => some (mkSegIter sid false hasNext dir offs idx)
          | none =>
            match liveKey b c dir P with
            | some (offs, idx) => some (mkSegIter b.live.id true false dir offs idx)
            | none => none := by
  unfold newInner
  simp only [List.head?_filterMap]
  rfl

end SierraModel.Store
