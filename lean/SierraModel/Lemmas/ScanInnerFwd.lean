/-
`newInner` going forward: the segment iterator it returns.
-/
import SierraModel.Lemmas.ScanInner

set_option linter.unusedSimpArgs false
set_option linter.unusedVariables false

namespace SierraModel.Store
open SierraModel.Version

variable {b : Bucket} {c : ScanCfg}

theorem sealed_get_of_lt {i : Nat} (hi : i < b.sealed.length) : b.sealed[i]? = some b.sealed[i] :=
  List.getElem?_eq_getElem hi

theorem candF_fwd_none (h : Inv b) (P lo : Nat) {i : Nat} (hi : i < b.sealed.length)
    (hk : i < lo ∨ b.K c i = [] ∨ P < b.cnt c i) : candF b c .fwd P lo i = none := by
  have hg := sealed_get_of_lt hi
  have hid := sealed_id h hg
  unfold candF
  rw [hg]
  simp only [hid]
  rcases hk with hk | hk
  · simp [Nat.not_le.2 hk]
  · rw [sealedKey_none h .fwd P hg hk]; simp

theorem candF_fwd_some (h : Inv b) (P lo : Nat) {i : Nat} (hi : i < b.sealed.length)
    (hlo : lo ≤ i) (hk : b.K c i ≠ []) (hP : b.cnt c i ≤ P) :
    candF b c .fwd P lo i =
      some (i, (b.K c i).map (·.2), offsetsIndex .fwd P (b.cnt c i) (b.K c i).length, true) := by
  have hg := sealed_get_of_lt hi
  have hid := sealed_id h hg
  unfold candF
  rw [hg]
  simp only [hid]
  rw [sealedKey_some h .fwd P hg hk hP]
  simp [hlo, hi]

/-- the forward iterator on segment `j` at index `i` -/
def fwdIter (b : Bucket) (c : ScanCfg) (j i : Nat) : SegIter :=
  { segId := j, isLive := decide (j = b.sealed.length), hasNext := decide (j < b.sealed.length),
    offsets := (b.K c j).map (·.2), idx := i }

theorem offsetsIndex_fwd (P m len : Nat) : offsetsIndex .fwd P m len = Nat.min (P - m) len := rfl

theorem newInner_fwd (h : Inv b) (hs : Synced b) (P lo : Nat) (hlo : lo ≤ b.sealed.length) :
    (newInner b c .fwd P lo true = none ∧
      ∀ j, lo ≤ j → j ≤ b.sealed.length → (b.K c j = [] ∨ P < b.cnt c j)) ∨
    ∃ j, lo ≤ j ∧ j ≤ b.sealed.length ∧ b.K c j ≠ [] ∧ b.cnt c j ≤ P ∧
      newInner b c .fwd P lo true = some (fwdIter b c j (Nat.min (P - b.cnt c j) (b.K c j).length)) := by
  rw [newInner_eq]
  have hlive : decide (b.live.id ≥ lo) = true := by rw [h.ids.2]; simpa using hlo
  simp only [hlive, if_true]
  by_cases hL : b.K c b.sealed.length ≠ [] ∧ b.cnt c b.sealed.length ≤ P
  · right
    refine ⟨b.sealed.length, hlo, Nat.le_refl _, hL.1, hL.2, ?_⟩
    rw [liveKey_some h hs .fwd P hL.1 hL.2]
    simp [mkSegIter, fwdIter, h.ids.2, offsetsIndex_fwd]
  · have hL' : b.K c b.sealed.length = [] ∨ P < b.cnt c b.sealed.length := by
      by_cases h1 : b.K c b.sealed.length = []
      · exact Or.inl h1
      · right; exact Nat.not_le.1 (fun h2 => hL ⟨h1, h2⟩)
    rw [liveKey_none h hs .fwd P hL']
    simp only [Bool.not_true, Bool.false_eq_true, if_false]
    rcases findSome_range_rev (candF b c .fwd P lo) b.sealed.length with ⟨h1, h2⟩ | ⟨j, x, hj, hx, _, hr⟩
    · left
      rw [h1]
      refine ⟨rfl, fun j hj1 hj2 => ?_⟩
      rcases Nat.lt_or_ge j b.sealed.length with hlt | hge
      · have hn := h2 j hlt
        by_cases hk : b.K c j = []
        · exact Or.inl hk
        · right
          apply Nat.not_le.1
          intro hP
          rw [candF_fwd_some h P lo hlt hj1 hk hP] at hn
          cases hn
      · have : j = b.sealed.length := by omega
        subst this; exact hL'
    · right
      have hcase : lo ≤ j ∧ b.K c j ≠ [] ∧ b.cnt c j ≤ P := by
        refine ⟨?_, ?_, ?_⟩
        · apply Nat.not_lt.1; intro hh
          rw [candF_fwd_none h P lo hj (Or.inl hh)] at hx; cases hx
        · intro hh
          rw [candF_fwd_none h P lo hj (Or.inr (Or.inl hh))] at hx; cases hx
        · apply Nat.not_lt.1; intro hh
          rw [candF_fwd_none h P lo hj (Or.inr (Or.inr hh))] at hx; cases hx
      rw [candF_fwd_some h P lo hj hcase.1 hcase.2.1 hcase.2.2] at hx
      refine ⟨j, hcase.1, Nat.le_of_lt hj, hcase.2.1, hcase.2.2, ?_⟩
      rw [hr, ← Option.some.inj hx]
      simp [mkSegIter, fwdIter, offsetsIndex_fwd, Nat.ne_of_lt hj, hj]

end SierraModel.Store
