/-
`newInner` going backward: the segment iterator it returns.
-/
import SierraModel.Lemmas.ScanInnerFwd

set_option linter.unusedSimpArgs false
set_option linter.unusedVariables false

namespace SierraModel.Store
open SierraModel.Version

variable {b : Bucket} {c : ScanCfg}

/-- index (among the segment's events of the key) where a reverse pass starts -/
def revStart (P m len : Nat) : Nat := if P = U64_MAX then len - 1 else Nat.min (P - m) (len - 1)

/-- the reverse iterator on segment `j` starting at its `q`-th event of the key -/
def revIter (b : Bucket) (c : ScanCfg) (j q : Nat) (live hn : Bool) : SegIter :=
  { segId := j, isLive := live, hasNext := hn, offsets := ((b.K c j).map (·.2)).reverse,
    idx := (b.K c j).length - 1 - q }

theorem natMin_cases (a b : Nat) : (Nat.min a b = a ∧ a ≤ b) ∨ (Nat.min a b = b ∧ b < a) := by
  rcases Nat.lt_or_ge b a with h | h
  · exact Or.inr ⟨Nat.min_eq_right (Nat.le_of_lt h), h⟩
  · exact Or.inl ⟨Nat.min_eq_left h, h⟩

theorem revStart_lt {P m len : Nat} (h : 0 < len) : revStart P m len < len := by
  unfold revStart; split
  · omega
  · rcases natMin_cases (P - m) (len - 1) with ⟨h1, h2⟩ | ⟨h1, h2⟩ <;> rw [h1] <;> omega

theorem revStart_le {P m len : Nat} (hm : m ≤ P) (h : revStart P m len + 1 < len) : P ≤ m + revStart P m len := by
  unfold revStart at h ⊢
  split
  · rename_i hp; rw [if_pos hp] at h; omega
  · rename_i hp; rw [if_neg hp] at h
    rcases natMin_cases (P - m) (len - 1) with ⟨h1, h2⟩ | ⟨h1, h2⟩ <;> rw [h1] at h ⊢ <;> omega

theorem mkSegIter_rev (sid : Nat) (live hn : Bool) (offs : List Nat) (P m : Nat) (hlen : 0 < offs.length) :
    mkSegIter sid live hn .rev offs (offsetsIndex .rev P m offs.length) =
      { segId := sid, isLive := live, hasNext := hn, offsets := offs.reverse,
        idx := offs.length - 1 - revStart P m offs.length } := by
  unfold mkSegIter offsetsIndex revStart
  by_cases hp : P = U64_MAX
  · simp [hp]
  · have hb : (P == U64_MAX) = false := by simpa using hp
    simp only [hb, Bool.and_false, Bool.false_eq_true, if_false, hp]
    congr 1
    by_cases hh : P - m < offs.length
    · have h1 : Nat.min (P - m) offs.length = P - m := Nat.min_eq_left (Nat.le_of_lt hh)
      have h2 : Nat.min (P - m) (offs.length - 1) = P - m := Nat.min_eq_left (by omega)
      rw [h1, h2, if_pos hh]
    · have h1 : Nat.min (P - m) offs.length = offs.length := Nat.min_eq_right (by omega)
      have h2 : Nat.min (P - m) (offs.length - 1) = offs.length - 1 := Nat.min_eq_right (by omega)
      rw [h1, h2, if_neg (by omega)]; omega

theorem candF_rev_none (h : Inv b) (P hi : Nat) {i : Nat} (hlt : i < b.sealed.length)
    (hk : hi < i ∨ b.K c i = [] ∨ P < b.cnt c i) : candF b c .rev P hi i = none := by
  have hg := sealed_get_of_lt hlt
  have hid := sealed_id h hg
  unfold candF
  rw [hg]
  simp only [hid]
  rcases hk with hk | hk
  · simp [Nat.not_le.2 hk]
  · rw [sealedKey_none h .rev P hg hk]; simp

theorem candF_rev_some (h : Inv b) (P hi : Nat) {i : Nat} (hlt : i < b.sealed.length)
    (hhi : i ≤ hi) (hk : b.K c i ≠ []) (hP : b.cnt c i ≤ P) :
    candF b c .rev P hi i =
      some (i, (b.K c i).map (·.2), offsetsIndex .rev P (b.cnt c i) (b.K c i).length, decide (i > 0)) := by
  have hg := sealed_get_of_lt hlt
  have hid := sealed_id h hg
  unfold candF
  rw [hg]
  simp only [hid]
  rw [sealedKey_some h .rev P hg hk hP]
  simp [hhi]

theorem newInner_rev (h : Inv b) (hs : Synced b) (P hi : Nat) :
    (b.sealed.length ≤ hi ∧ b.K c b.sealed.length ≠ [] ∧ b.cnt c b.sealed.length ≤ P ∧
      newInner b c .rev P hi true = some (revIter b c b.sealed.length
        (revStart P (b.cnt c b.sealed.length) (b.K c b.sealed.length).length) true (decide (b.sealed.length > 0)))) ∨
    (¬ (b.sealed.length ≤ hi ∧ b.K c b.sealed.length ≠ [] ∧ b.cnt c b.sealed.length ≤ P) ∧
      ((∃ j, j < b.sealed.length ∧ j ≤ hi ∧ b.K c j ≠ [] ∧ b.cnt c j ≤ P ∧
          (∀ i, j < i → i < b.sealed.length → i ≤ hi → (b.K c i = [] ∨ P < b.cnt c i)) ∧
          newInner b c .rev P hi true =
            some (revIter b c j (revStart P (b.cnt c j) (b.K c j).length) false (decide (j > 0)))) ∨
       ((∀ i, i < b.sealed.length → i ≤ hi → (b.K c i = [] ∨ P < b.cnt c i)) ∧
          ((b.K c b.sealed.length ≠ [] ∧ b.cnt c b.sealed.length ≤ P ∧
              newInner b c .rev P hi true = some (revIter b c b.sealed.length
                (revStart P (b.cnt c b.sealed.length) (b.K c b.sealed.length).length) true false)) ∨
           ((b.K c b.sealed.length = [] ∨ P < b.cnt c b.sealed.length) ∧
              newInner b c .rev P hi true = none))))) := by
  rw [newInner_eq]
  have hlive : decide (b.live.id ≤ hi) = decide (b.sealed.length ≤ hi) := by rw [h.ids.2]
  simp only [hlive]
  have hmk : ∀ (live hn : Bool), b.K c b.sealed.length ≠ [] →
      mkSegIter b.live.id live hn .rev ((b.K c b.sealed.length).map (·.2))
        (offsetsIndex .rev P (b.cnt c b.sealed.length) (b.K c b.sealed.length).length) =
      revIter b c b.sealed.length (revStart P (b.cnt c b.sealed.length) (b.K c b.sealed.length).length) live hn := by
    intro live hn hk
    have := mkSegIter_rev b.live.id live hn ((b.K c b.sealed.length).map (·.2)) P (b.cnt c b.sealed.length)
      (by simpa using List.length_pos_iff.2 hk)
    simp only [List.length_map] at this
    rw [this, h.ids.2]; rfl
  by_cases hA : b.sealed.length ≤ hi ∧ b.K c b.sealed.length ≠ [] ∧ b.cnt c b.sealed.length ≤ P
  · left
    refine ⟨hA.1, hA.2.1, hA.2.2, ?_⟩
    rw [liveKey_some h hs .rev P hA.2.1 hA.2.2]
    simp only [hA.1, decide_true, if_true]
    rw [hmk _ _ hA.2.1, h.ids.2]
  · right
    refine ⟨hA, ?_⟩
    have hfirst : (if decide (b.sealed.length ≤ hi) = true then liveKey b c .rev P else none) = none := by
      by_cases h1 : b.sealed.length ≤ hi
      · simp only [h1, decide_true, if_true]
        apply liveKey_none h hs
        by_cases h2 : b.K c b.sealed.length = []
        · exact Or.inl h2
        · right; exact Nat.not_le.1 (fun h3 => hA ⟨h1, h2, h3⟩)
      · simp [h1]
    rw [hfirst]
    simp only [Bool.not_true, Bool.false_eq_true, if_false]
    rcases findSome_range_rev (candF b c .rev P hi) b.sealed.length with ⟨h1, h2⟩ | ⟨j, x, hj, hx, hmax, hr⟩
    · right
      rw [h1]
      refine ⟨fun i hi1 hi2 => ?_, ?_⟩
      · have hn := h2 i hi1
        by_cases hk : b.K c i = []
        · exact Or.inl hk
        · right
          apply Nat.not_le.1
          intro hP
          rw [candF_rev_some h P hi hi1 hi2 hk hP] at hn
          cases hn
      · by_cases hL : b.K c b.sealed.length ≠ [] ∧ b.cnt c b.sealed.length ≤ P
        · left
          refine ⟨hL.1, hL.2, ?_⟩
          rw [liveKey_some h hs .rev P hL.1 hL.2]
          simp only []
          rw [hmk _ _ hL.1]
        · right
          have hL' : b.K c b.sealed.length = [] ∨ P < b.cnt c b.sealed.length := by
            by_cases h3 : b.K c b.sealed.length = []
            · exact Or.inl h3
            · right; exact Nat.not_le.1 (fun h4 => hL ⟨h3, h4⟩)
          refine ⟨hL', ?_⟩
          rw [liveKey_none h hs .rev P hL']
    · left
      have hcase : j ≤ hi ∧ b.K c j ≠ [] ∧ b.cnt c j ≤ P := by
        refine ⟨?_, ?_, ?_⟩
        · apply Nat.not_lt.1; intro hh
          rw [candF_rev_none h P hi hj (Or.inl hh)] at hx; cases hx
        · intro hh
          rw [candF_rev_none h P hi hj (Or.inr (Or.inl hh))] at hx; cases hx
        · apply Nat.not_lt.1; intro hh
          rw [candF_rev_none h P hi hj (Or.inr (Or.inr hh))] at hx; cases hx
      refine ⟨j, hj, hcase.1, hcase.2.1, hcase.2.2, ?_, ?_⟩
      · intro i hi1 hi2 hi3
        have hn := hmax i hi1 hi2
        by_cases hk : b.K c i = []
        · exact Or.inl hk
        · right
          apply Nat.not_le.1
          intro hP
          rw [candF_rev_some h P hi hi2 hi3 hk hP] at hn
          cases hn
      · rw [candF_rev_some h P hi hj hcase.1 hcase.2.1 hcase.2.2] at hx
        rw [hr, ← Option.some.inj hx]
        simp only []
        have := mkSegIter_rev j false (decide (j > 0)) ((b.K c j).map (·.2)) P (b.cnt c j)
          (by simpa using List.length_pos_iff.2 hcase.2.1)
        simp only [List.length_map] at this
        rw [this]; rfl

end SierraModel.Store
