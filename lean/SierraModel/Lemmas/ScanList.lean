/-
Generic list facts used by the scan proofs (C03).
-/
import SierraModel.Lemmas.StoreRun
import SierraModel.Lemmas.StoreLookupAt

set_option linter.unusedSimpArgs false
set_option linter.unusedVariables false

namespace SierraModel.Store

theorem range_succ_reverse (n : Nat) : (List.range (n + 1)).reverse = n :: (List.range n).reverse := by
  rw [List.range_succ, List.reverse_append]; rfl

/-- searching the indices `n-1, …, 0`: nothing, or the largest index with a result -/
theorem findSome_range_rev {β : Type} (f : Nat → Option β) : ∀ n : Nat,
    ((List.range n).reverse.findSome? f = none ∧ ∀ i, i < n → f i = none) ∨
    ∃ j x, j < n ∧ f j = some x ∧ (∀ i, j < i → i < n → f i = none) ∧
      (List.range n).reverse.findSome? f = some x
  | 0 => Or.inl ⟨rfl, fun i h => absurd h (Nat.not_lt_zero i)⟩
  | n + 1 => by
    rw [range_succ_reverse, List.findSome?_cons]
    cases hf : f n with
    | some x => exact Or.inr ⟨n, x, Nat.lt_succ_self n, hf, fun i h1 h2 => by omega, rfl⟩
    | none =>
      rcases findSome_range_rev f n with ⟨h1, h2⟩ | ⟨j, x, hj, hx, hmax, hr⟩
      · refine Or.inl ⟨h1, fun i hi => ?_⟩
        rcases Nat.lt_succ_iff_lt_or_eq.1 hi with h | rfl
        · exact h2 i h
        · exact hf
      · refine Or.inr ⟨j, x, by omega, hx, fun i h1 h2 => ?_, hr⟩
        rcases Nat.lt_succ_iff_lt_or_eq.1 h2 with h | rfl
        · exact hmax i h1 h
        · exact hf

/-- the `i`-th element satisfying `q` -/
theorem filter_split {α : Type} (q : α → Bool) : ∀ (l : List α) (i : Nat), i < (l.filter q).length →
    ∃ l1 x l2, l = l1 ++ x :: l2 ∧ q x = true ∧ (l1.filter q).length = i
  | [], i, h => by simp at h
  | a :: l, i, h => by
    by_cases ha : q a = true
    · cases i with
      | zero => exact ⟨[], a, l, rfl, ha, rfl⟩
      | succ i =>
        simp only [List.filter_cons, ha, if_true, List.length_cons] at h
        obtain ⟨l1, x, l2, e, hx, hl⟩ := filter_split q l i (by omega)
        exact ⟨a :: l1, x, l2, by rw [e]; rfl, hx, by simp [List.filter_cons, ha, hl]⟩
    · have ha' : q a = false := by simpa using ha
      simp only [List.filter_cons, ha', Bool.false_eq_true, if_false] at h
      obtain ⟨l1, x, l2, e, hx, hl⟩ := filter_split q l i h
      exact ⟨a :: l1, x, l2, by rw [e]; rfl, hx, by simp [List.filter_cons, ha', hl]⟩

theorem foldl_min_le {α : Type} (g : α → Nat) : ∀ (l : List α) (o : Nat),
    l.foldl (fun m x => Nat.min m (g x)) o ≤ o ∧ ∀ x ∈ l, l.foldl (fun m x => Nat.min m (g x)) o ≤ g x
  | [], o => by simp
  | a :: l, o => by
    have ih := foldl_min_le g l (Nat.min o (g a))
    simp only [List.foldl_cons]
    refine ⟨Nat.le_trans ih.1 (Nat.min_le_left _ _), fun x hx => ?_⟩
    rcases List.mem_cons.1 hx with rfl | hx
    · exact Nat.le_trans ih.1 (Nat.min_le_right _ _)
    · exact ih.2 x hx

theorem le_foldl_min {α : Type} (g : α → Nat) (lo : Nat) : ∀ (l : List α) (o : Nat), lo ≤ o →
    (∀ x ∈ l, lo ≤ g x) → lo ≤ l.foldl (fun m x => Nat.min m (g x)) o
  | [], o, h, _ => by simpa using h
  | a :: l, o, h, hl => by
    simp only [List.foldl_cons]
    exact le_foldl_min g lo l _ (Nat.le_min.2 ⟨h, hl a (by simp)⟩) (fun x hx => hl x (by simp [hx]))

theorem le_foldl_max {α : Type} (g : α → Nat) : ∀ (l : List α) (o : Nat),
    o ≤ l.foldl (fun m x => Nat.max m (g x)) o ∧ ∀ x ∈ l, g x ≤ l.foldl (fun m x => Nat.max m (g x)) o
  | [], o => by simp
  | a :: l, o => by
    have ih := le_foldl_max g l (Nat.max o (g a))
    simp only [List.foldl_cons]
    refine ⟨Nat.le_trans (Nat.le_max_left _ _) ih.1, fun x hx => ?_⟩
    rcases List.mem_cons.1 hx with rfl | hx
    · exact Nat.le_trans (Nat.le_max_right _ _) ih.1
    · exact ih.2 x hx

theorem foldl_max_le {α : Type} (g : α → Nat) (hi : Nat) : ∀ (l : List α) (o : Nat), o ≤ hi →
    (∀ x ∈ l, g x ≤ hi) → l.foldl (fun m x => Nat.max m (g x)) o ≤ hi
  | [], o, h, _ => by simpa using h
  | a :: l, o, h, hl => by
    simp only [List.foldl_cons]
    exact foldl_max_le g hi l _ (Nat.max_le.2 ⟨h, hl a (by simp)⟩) (fun x hx => hl x (by simp [hx]))

/-- `takeWhile` stops exactly after `A` -/
theorem takeWhile_length_append {α : Type} (q : α → Bool) (A C : List α) (hA : ∀ x ∈ A, q x = true)
    (hC : ∀ y, C.head? = some y → q y = false) : ((A ++ C).takeWhile q).length = A.length := by
  induction A with
  | nil =>
    cases C with
    | nil => rfl
    | cons y C => simp [List.takeWhile_cons, hC y rfl]
  | cons a A ih =>
    simp only [List.cons_append, List.takeWhile_cons, hA a (by simp), if_true, List.length_cons]
    rw [ih (fun x hx => hA x (by simp [hx]))]

end SierraModel.Store
