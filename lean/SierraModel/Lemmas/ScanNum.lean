/-
The events of a scan key (`keyEvents`) and their numbering: under `SeqOk` / `VerOk` the positions of
a key's events are `0, 1, 2, …` in storage order.
-/
import SierraModel.Lemmas.ScanList

set_option linter.unusedSimpArgs false
set_option linter.unusedVariables false

namespace SierraModel.Store
open SierraModel.Version

/-- the event belongs to the scanned stream / partition -/
def ScanCfg.mine (c : ScanCfg) (e : Ev) : Bool := if c.isStream then e.stream == c.key else e.pid == c.key

/-- the stored events of the scanned key, in storage (= specification) order -/
def keyEvents (s : Spec) (c : ScanCfg) : List Ev := s.events.filter c.mine

theorem seq_numbering (k : Nat) : ∀ l : List Ev, SeqOkR l →
    ((l.reverse.filter (·.pid == k)).map (·.seq) = List.range (l.reverse.filter (·.pid == k)).length ∧
     nextSeqOf l.reverse k = (l.reverse.filter (·.pid == k)).length)
  | [], _ => by simp [nextSeqOf]
  | e :: older, h => by
    obtain ⟨h1, h2⟩ := h
    obtain ⟨ih1, ih2⟩ := seq_numbering k older h1
    rw [List.reverse_cons, nextSeqOf_snoc, List.filter_append]
    by_cases hk : e.pid = k
    · subst hk
      have hb : (e.pid == e.pid) = true := by simp
      simp only [List.filter_cons, hb, if_true, List.filter_nil, List.map_append, List.map_cons,
        List.map_nil, List.length_append, List.length_cons, List.length_nil, List.range_succ]
      rw [ih1, h2, ih2]; simp
    · have hb : (e.pid == k) = false := by simpa using hk
      simp only [List.filter_cons, hb, Bool.false_eq_true, if_false, List.filter_nil, List.append_nil, hk]
      exact ⟨ih1, ih2⟩

theorem ver_numbering (k : Nat) : ∀ l : List Ev, VerOkR l →
    ((l.reverse.filter (·.stream == k)).map (·.version) =
        List.range (l.reverse.filter (·.stream == k)).length ∧
     (match latestOf l.reverse k with
      | some (_, v) => v + 1 = (l.reverse.filter (·.stream == k)).length
      | none => (l.reverse.filter (·.stream == k)).length = 0))
  | [], _ => by simp [latestOf]
  | e :: older, h => by
    obtain ⟨h1, h2⟩ := h
    obtain ⟨ih1, ih2⟩ := ver_numbering k older h1
    rw [List.reverse_cons, latestOf_snoc, List.filter_append]
    by_cases hk : e.stream = k
    · subst hk
      have hb : (e.stream == e.stream) = true := by simp
      simp only [List.filter_cons, hb, if_true, List.filter_nil, List.map_append, List.map_cons,
        List.map_nil, List.length_append, List.length_cons, List.length_nil, List.range_succ]
      refine ⟨?_, ?_⟩
      · rw [ih1]
        cases hl : latestOf older.reverse e.stream with
        | some kv => rw [hl] at h2 ih2; simp only [] at h2 ih2; rw [h2.2, ih2]
        | none => rw [hl] at h2 ih2; simp only [] at h2 ih2; rw [h2, ih2]
      · cases hl : latestOf older.reverse e.stream with
        | some kv => rw [hl] at h2 ih2; simp only [] at h2 ih2; rw [h2.2, ih2]
        | none => rw [hl] at h2 ih2; simp only [] at h2 ih2; rw [h2, ih2]
    · have hb : (e.stream == k) = false := by simpa using hk
      simp only [List.filter_cons, hb, Bool.false_eq_true, if_false, List.filter_nil, List.append_nil, hk]
      exact ⟨ih1, ih2⟩

/-- positions of a key's events are `0, 1, 2, …` -/
theorem keyEvents_pos (s : Spec) (c : ScanCfg) (hs : SeqOk s.events) (hv : VerOk s.events) :
    (keyEvents s c).map c.pos = List.range (keyEvents s c).length := by
  unfold keyEvents
  cases hc : c.isStream with
  | true =>
    have := (ver_numbering c.key s.events.reverse hv).1
    rw [List.reverse_reverse] at this
    have e1 : c.mine = (fun e : Ev => e.stream == c.key) := by funext e; simp [ScanCfg.mine, hc]
    have e2 : c.pos = (fun e : Ev => e.version) := by funext e; simp [ScanCfg.pos, hc]
    rw [e1, e2]; exact this
  | false =>
    have := (seq_numbering c.key s.events.reverse hs).1
    rw [List.reverse_reverse] at this
    have e1 : c.mine = (fun e : Ev => e.pid == c.key) := by funext e; simp [ScanCfg.mine, hc]
    have e2 : c.pos = (fun e : Ev => e.seq) := by funext e; simp [ScanCfg.pos, hc]
    rw [e1, e2]; exact this

end SierraModel.Store
