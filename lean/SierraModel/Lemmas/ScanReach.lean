/-
Every transaction of a reachable bucket lies in one partition (`TxPidOk`): the extra invariant the
partition scans need, preserved by every client-level step.
-/
import SierraModel.Lemmas.ScanFwdTop

set_option linter.unusedSimpArgs false
set_option linter.unusedVariables false

namespace SierraModel.Store
open SierraModel.Version

theorem txPidOk_new (segSize : Nat) (cmp : Bool) : TxPidOk (Bucket.new segSize cmp).abs := by
  intro t ht
  simp [Bucket.abs, Bucket.new, committedOf_nil] at ht

theorem txPidOk_commitTx {b1 : Bucket} (h : Inv b1) (hp : TxPidOk b1.abs) {tx : Tx} (ht : TxOk b1 tx)
    (vs : List Nat) (hc : b1.abs.checkEvents tx.pkey tx.events [] = .ok vs) :
    TxPidOk (b1.commitTx tx vs).abs := by
  have hver := h.check_verOk tx vs (b1.nextPartSeq tx.pid) hc
  rw [abs_commitTx h tx vs ht.1 hver.2.symm]
  intro t htm e1 he1 e2 he2
  simp only [List.mem_append, List.mem_singleton] at htm
  rcases htm with htm | rfl
  · exact hp t htm e1 he1 e2 he2
  · rw [evsOf_txBlock] at he1 he2
    rw [(mkEvs_mem _ _ _ _ _ _ _ e1 he1).2.1, (mkEvs_mem _ _ _ _ _ _ _ e2 he2).2.1]

theorem txPidOk_of_appendRes {b : Bucket} (h : Inv b) (hp : TxPidOk b.abs) {tx : Tx} (ht : TxOk b tx)
    {x : Bucket × Except Err AppendOk} (hx : AppendRes b tx x) : TxPidOk x.1.abs := by
  cases hx with
  | invalid e _ => exact hp
  | tooLarge vs _ _ _ => exact hp
  | wrongSeq vs _ _ => rw [abs_preRoll]; exact hp
  | noSpace vs e _ _ _ _ => rw [abs_preRoll]; exact hp
  | badTs vs _ _ _ => rw [abs_preRoll]; exact hp
  | ok vs hc _ _ _ _ =>
    exact txPidOk_commitTx (inv_preRoll h tx) (by rw [abs_preRoll]; exact hp) (txOk_preRoll ht) vs
      (by rw [abs_preRoll]; exact hc)

theorem txPidOk_step {b : Bucket} (h : Inv b) (hp : TxPidOk b.abs) {op : Op} (ok : OpOk b op) :
    TxPidOk (b.step op).abs := by
  cases op with
  | flushPoll => exact hp
  | append tx =>
    obtain ⟨x, hx, e⟩ := clientAppend_res h ok
    show TxPidOk (b.clientAppend tx).1.abs
    rw [e]
    have := txPidOk_of_appendRes h hp ok hx
    rcases x with ⟨b', r | r⟩
    · exact this
    · exact this

theorem txPidOk_run : ∀ (ops : List Op) (b : Bucket), Inv b → TxPidOk b.abs → RunOk b ops →
    TxPidOk (b.run ops).abs
  | [], _, _, hp, _ => hp
  | op :: ops, b, h, hp, ⟨a, r⟩ => txPidOk_run ops _ (inv_step h a) (txPidOk_step h hp a) r

/-- everything the scan theorems assume holds in every reachable state -/
theorem scan_hyps_reachable (segSize : Nat) (cmp : Bool) (ops : List Op) (hr : RunOk (Bucket.new segSize cmp) ops) :
    Inv ((Bucket.new segSize cmp).run ops) ∧ Synced ((Bucket.new segSize cmp).run ops) ∧
      TxPidOk ((Bucket.new segSize cmp).run ops).abs :=
  ⟨(cinv_run ops _ (cinv_new segSize cmp) hr).1, (cinv_run ops _ (cinv_new segSize cmp) hr).2,
   txPidOk_run ops _ (inv_new segSize cmp) (txPidOk_new segSize cmp) hr⟩

theorem sealed_len_preRoll (b : Bucket) (tx : Tx) : (b.preRoll tx).sealed.length ≤ b.sealed.length + 1 := by
  rcases preRoll_cases b tx with e | ⟨e, _, _⟩ <;> rw [e]
  · omega
  · simp [Bucket.rollover, Bucket.sync]

theorem sealed_len_appendRes {b : Bucket} {tx : Tx} {x : Bucket × Except Err AppendOk} (hx : AppendRes b tx x) :
    x.1.sealed.length ≤ b.sealed.length + 1 := by
  cases hx with
  | invalid e _ => exact Nat.le_succ _
  | tooLarge vs _ _ _ => exact Nat.le_succ _
  | wrongSeq vs _ _ => exact sealed_len_preRoll b tx
  | noSpace vs e _ _ _ _ => exact sealed_len_preRoll b tx
  | badTs vs _ _ _ => exact sealed_len_preRoll b tx
  | ok vs hc _ _ _ _ => exact sealed_len_preRoll b tx

theorem sealed_len_step {b : Bucket} (h : Inv b) {op : Op} (ok : OpOk b op) :
    (b.step op).sealed.length ≤ b.sealed.length + 1 := by
  cases op with
  | flushPoll => exact Nat.le_succ _
  | append tx =>
    obtain ⟨x, hx, e⟩ := clientAppend_res h ok
    show (b.clientAppend tx).1.sealed.length ≤ _
    rw [e]
    have := sealed_len_appendRes hx
    rcases x with ⟨b', r | r⟩
    · exact this
    · exact this

/-- at most one new segment per operation -/
theorem sealed_len_run : ∀ (ops : List Op) (b : Bucket), Inv b → RunOk b ops →
    (b.run ops).sealed.length ≤ b.sealed.length + ops.length
  | [], _, _, _ => Nat.le_refl _
  | op :: ops, b, h, ⟨a, r⟩ => by
    have h1 := sealed_len_run ops _ (inv_step h a) r
    have h2 := sealed_len_step h a
    simp only [run_cons, List.length_cons]; omega

end SierraModel.Store
