/-
The reverse scan of a bucket: `scanLoop` returns exactly the key's events at or before the start
position (as a set: the `newInner` fallback to the live segment can repeat the first event).
-/
import SierraModel.Lemmas.ScanRevPass2
import SierraModel.Lemmas.ScanInnerRev

set_option linter.unusedSimpArgs false
set_option linter.unusedVariables false

namespace SierraModel.Store
open SierraModel.Version

variable {b : Bucket} {c : ScanCfg}

/-- the reverse pass over segment `j` as `scanLoop` runs it -/
theorem rev_pass_drain (h : Inv b) (hs : Synced b) (hp : TxPidOk b.abs) {j : Nat} (hj : j ≤ b.sealed.length)
    {q P : Nat} (hq : q < (b.K c j).length) (hP : b.cnt c j ≤ P) (lastPos : Nat) :
    ∃ limit, segRecs b j = some (b.segAt j, limit) ∧ SegOk c SEGMENT_HEADER_SIZE limit (b.segAt j) ∧
      (∀ t ∈ committedOf (b.segAt j), t ∈ b.abs.txs) ∧
      b.revPass c j limit P q ≠ [] ∧
      drainSeg c .rev (b.segAt j) limit P ((b.K c j).map (·.2)).reverse
          (((b.K c j).map (·.2)).reverse.length + 1) ((b.K c j).length - 1 - q) lastPos [] =
        .ok (b.revPass c j limit P q, b.cnt c j - 1) := by
  obtain ⟨limit, hseg, hok, hsub⟩ := seg_ok (c := c) h hs hp hj
  refine ⟨limit, hseg, hok, hsub, ?_, ?_⟩
  · obtain ⟨G, es, hG⟩ := revPass_last h hj hok hsub hq hP
    rw [hG]; simp
  · have := drain_rev_seg hok P (((b.K c j).map (·.2)).reverse.length + 1) ((b.K c j).length - 1 - q) lastPos []
      (by simp [Bucket.K])
    have hd : ((b.K c j).map (·.2)).reverse.drop ((b.K c j).length - 1 - q) =
        (((b.K c j).map (·.2)).take (q + 1)).reverse := by
      have := rev_offsets_drop ((b.K c j).map (·.2)) q (by simpa using hq)
      simpa using this
    have this : drainSeg c .rev (b.segAt j) limit P ((b.K c j).map (·.2)).reverse
        (((b.K c j).map (·.2)).reverse.length + 1) ((b.K c j).length - 1 - q) lastPos [] = _ := this
    rw [this, List.nil_append]
    have hd' : ((keyOffs c (b.segAt j)).map (·.2)).reverse.drop ((b.K c j).length - 1 - q) =
        (((b.K c j).map (·.2)).take (q + 1)).reverse := hd
    rw [hd']
    obtain ⟨G, es, hG⟩ := revPass_last h hj hok hsub hq hP
    have hG' : revGroups c (b.segAt j) limit P (((b.K c j).map (·.2)).take (q + 1)).reverse =
        G ++ [((b.K c j)[0]).1 :: es] := hG
    show Except.ok (revGroups c (b.segAt j) limit P (((b.K c j).map (·.2)).take (q + 1)).reverse, _) = _
    rw [hG', revLastPos_snoc, K_pos h hj 0 (by omega)]
    unfold Bucket.revPass
    rw [hG']; rfl

theorem scanLoop_rev_some (b : Bucket) (c : ScanCfg) (f j q P lp limit : Nat) (live hn : Bool)
    (acc G : List (List Ev)) (recs : List Placed) (hseg : segRecs b j = some (recs, limit)) (hG : G ≠ [])
    (hdr : drainSeg c .rev recs limit P ((b.K c j).map (·.2)).reverse (((b.K c j).map (·.2)).reverse.length + 1)
      ((b.K c j).length - 1 - q) P [] = .ok (G, lp)) :
    scanLoop b c .rev (f + 1) (some (revIter b c j q live hn)) P acc =
      if (!live || hn) = true then
        if j = 0 then .ok (acc ++ G)
        else scanLoop b c .rev f (newInner b c .rev lp (j - 1) hn) lp (acc ++ G)
      else .ok (acc ++ G) := by
  have hne : G.isEmpty = false := by cases G with
    | nil => exact absurd rfl hG
    | cons a l => rfl
  simp only [scanLoop, revIter, hseg, hdr, hne]
  by_cases h1 : (!live || hn) = true
  · by_cases h2 : j = 0
    · simp [h1, h2]
    · simp [h1, h2]
  · simp [h1]

theorem keyEvents_take_cnt (h : Inv b) {j : Nat} (hj : j ≤ b.sealed.length + 1) :
    (keyEvents b.abs c).take (b.cnt c j) = b.keyUpTo c j := by
  obtain ⟨r, hr⟩ := keyUpTo_prefix b c hj
  rw [keyEvents_eq h, ← hr, ← keyUpTo_length, List.take_left]

theorem keyEvents_take_seg (h : Inv b) {j : Nat} (hj : j ≤ b.sealed.length) {x : Nat} (hx : x < (b.K c j).length) :
    (keyEvents b.abs c).take (b.cnt c j + x + 1) = b.keyUpTo c j ++ ((b.K c j).take (x + 1)).map (·.1) := by
  obtain ⟨r, hr⟩ := keyUpTo_prefix b c (show j + 1 ≤ b.sealed.length + 1 by omega)
  rw [keyEvents_eq h, ← hr]
  simp only [Bucket.keyUpTo, List.append_assoc]
  rw [← keyUpTo_length, Nat.add_assoc, List.take_append, List.take_of_length_le (by omega)]
  congr 1
  rw [Nat.add_sub_cancel_left, List.take_append_of_le_length (by simp; omega), List.map_take]

theorem revStart_full {P m len : Nat} (hlen : 0 < len) (hP : P = m + len - 1) : revStart P m len = len - 1 := by
  unfold revStart
  split
  · rfl
  · rcases natMin_cases (P - m) (len - 1) with ⟨h1, h2⟩ | ⟨h1, h2⟩ <;> rw [h1] <;> omega

/-- no event of the key between two segments -/
theorem cnt_gap (b : Bucket) (c : ScanCfg) {j' j P' : Nat} (hjj : j' < j) (hP1 : b.cnt c (j' + 1) ≤ P' + 1)
    (hP : P' + 1 = b.cnt c j) (hmax : ∀ i, j' < i → i < j → (b.K c i = [] ∨ P' < b.cnt c i)) :
    b.cnt c (j' + 1) = b.cnt c j := by
  have hle := cnt_mono b c (show j' + 1 ≤ j by omega)
  rcases Nat.lt_or_ge (b.cnt c (j' + 1)) (b.cnt c j) with hlt | hge
  · obtain ⟨i, a1, a2, a3, a4⟩ := exists_seg b c (j' + 1) P' j (by omega) (by omega) (by omega)
    rcases hmax i (by omega) a2 with h1 | h1
    · exact absurd h1 a3
    · omega
  · omega

/-- the regular reverse iterator: the live segment first, then sealed segments -/
def regIter (b : Bucket) (c : ScanCfg) (j q : Nat) : SegIter :=
  revIter b c j q (decide (j = b.sealed.length)) (decide (j > 0))

/-- the extra pass after `newInner` falls back to the live segment: one group, the key's first event -/
theorem rev_quirk (h : Inv b) (hs : Synced b) (hp : TxPidOk b.abs) (hk : b.K c b.sealed.length ≠ [])
    (hc : b.cnt c b.sealed.length = 0) (f : Nat) (acc : List (List Ev)) :
    ∃ G, scanLoop b c .rev (f + 1) (some (revIter b c b.sealed.length
        (revStart 0 (b.cnt c b.sealed.length) (b.K c b.sealed.length).length) true false)) 0 acc = .ok (acc ++ G) ∧
      (∀ e, e ∈ G.flatten → e ∈ ((b.K c b.sealed.length).take 1).map (·.1)) ∧
      (∀ g ∈ G, GoodGroup b c g) ∧ headsPos c G = [0] := by
  have hlen : 0 < (b.K c b.sealed.length).length := List.length_pos_iff.2 hk
  have hq := revStart_lt (P := 0) (m := b.cnt c b.sealed.length) hlen
  obtain ⟨limit, hseg, hok, hsub, hne, hdr⟩ := rev_pass_drain (c := c) h hs hp (Nat.le_refl _) hq
    (show b.cnt c b.sealed.length ≤ 0 by omega) 0
  refine ⟨b.revPass c b.sealed.length limit 0
    (revStart 0 (b.cnt c b.sealed.length) (b.K c b.sealed.length).length), ?_, ?_,
    revPass_good h (Nat.le_refl _) hok hsub 0 _, ?_⟩
  · rw [scanLoop_rev_some b c f _ _ 0 _ limit true false acc _ _ hseg hne hdr]
    simp
  · intro e he
    have := (mem_revPass h (Nat.le_refl _) hok hsub hq (fun hh => revStart_le (by omega) hh) e).1 he
    have h0 : Nat.min (0 - b.cnt c b.sealed.length) (revStart 0 (b.cnt c b.sealed.length) (b.K c b.sealed.length).length) = 0 := by
      rw [Nat.zero_sub]; exact Nat.zero_min _
    rw [h0] at this
    exact this.1
  · rw [revPass_heads h (Nat.le_refl _) hok hsub (show b.cnt c b.sealed.length ≤ 0 by omega) _ hq]
    have h0 : Nat.min (0 - b.cnt c b.sealed.length) (revStart 0 (b.cnt c b.sealed.length) (b.K c b.sealed.length).length) = 0 := by
      rw [Nat.zero_sub]; exact Nat.zero_min _
    rw [h0, hc]; rfl

theorem range_split_reverse (a : Nat) : ∀ n,
    (List.range (a + n)).reverse = (List.range' a n).reverse ++ (List.range a).reverse
  | 0 => by simp
  | n + 1 => by
    rw [← Nat.add_assoc, List.range_succ, List.reverse_append, range'_succ_reverse, range_split_reverse a n]
    simp

end SierraModel.Store
