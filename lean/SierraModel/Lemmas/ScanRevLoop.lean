/-
The reverse loop over the segments of a bucket.
-/
import SierraModel.Lemmas.ScanRev

set_option linter.unusedSimpArgs false
set_option linter.unusedVariables false

namespace SierraModel.Store
open SierraModel.Version

variable {b : Bucket} {c : ScanCfg}

theorem mem_take_one_sub {α β : Type} (f : α → β) (l : List α) (x : Nat) {y : β}
    (h : y ∈ (l.take 1).map f) : y ∈ (l.take (x + 1)).map f := by
  obtain ⟨a, ha, rfl⟩ := List.mem_map.1 h
  refine List.mem_map.2 ⟨a, ?_, rfl⟩
  rw [mem_take_succ_iff] at ha ⊢
  obtain ⟨t, ht, h0, rfl⟩ := ha
  exact ⟨t, ht, by omega, rfl⟩

theorem scanLoop_none (b : Bucket) (c : ScanCfg) (dir : Dir) (f P : Nat) (acc : List (List Ev)) :
    scanLoop b c dir (f + 1) none P acc = .ok acc := by
  simp [scanLoop]

/-- the reverse loop from the regular iterator on segment `j` at its `q`-th event of the key -/
theorem rev_loop (h : Inv b) (hs : Synced b) (hp : TxPidOk b.abs) :
    ∀ (fuel j q P : Nat) (acc : List (List Ev)), j ≤ b.sealed.length → q < (b.K c j).length →
      b.cnt c j ≤ P → (q + 1 < (b.K c j).length → P ≤ b.cnt c j + q) → j + 2 ≤ fuel →
      ∃ G, scanLoop b c .rev fuel (some (regIter b c j q)) P acc = .ok (acc ++ G) ∧
        (∀ e, e ∈ G.flatten ↔ e ∈ (keyEvents b.abs c).take (b.cnt c j + Nat.min (P - b.cnt c j) q + 1)) ∧
        (∀ g ∈ G, GoodGroup b c g) ∧
        ∃ extra, headsPos c G = (List.range (b.cnt c j + Nat.min (P - b.cnt c j) q + 1)).reverse ++ extra ∧
          (extra = [] ∨ extra = [0])
  | 0, _, _, _, _, _, _, _, _, hf => by omega
  | f + 1, j, q, P, acc, hj, hq, hP, hqP, hf => by
    obtain ⟨limit, hseg, hok, hsub, hne, hdr⟩ := rev_pass_drain (c := c) h hs hp hj hq hP P
    have hx : Nat.min (P - b.cnt c j) q < (b.K c j).length :=
      Nat.lt_of_le_of_lt (Nat.min_le_right _ _) hq
    have hmem := mem_revPass h hj hok hsub hq hqP
    have hgood := revPass_good h hj hok hsub P q
    have hheads := revPass_heads h hj hok hsub hP q hq
    unfold regIter
    rw [scanLoop_rev_some b c f j q P _ limit _ _ acc _ _ hseg hne hdr, keyEvents_take_seg h hj hx]
    by_cases hj0 : j = 0
    · subst hj0
      refine ⟨b.revPass c 0 limit P q, by split <;> simp, fun e => ?_, hgood, [], ?_, Or.inl rfl⟩
      · rw [hmem e]
        simp [Bucket.keyUpTo, hP]
      · rw [hheads, List.append_nil]
        simp only [Bucket.cnt, Nat.zero_add, Nat.sub_zero]
        rw [List.range_eq_range']
    · have hjpos : decide (j > 0) = true := by simpa using Nat.pos_of_ne_zero hj0
      simp only [hjpos, Bool.or_true, if_true, if_neg hj0]
      have hup : ∀ e, e ∈ b.keyUpTo c j ↔ e ∈ (keyEvents b.abs c).take (b.cnt c j) := by
        intro e; rw [keyEvents_take_cnt h (by omega)]
      rcases newInner_rev (c := c) h hs (b.cnt c j - 1) (j - 1) with ⟨hA, _⟩ | ⟨_, hB⟩
      · omega
      · rcases hB with ⟨j', hj'n, hj'j, hk', hc', hmax, hn⟩ | ⟨hall, hL⟩
        · -- the next older segment holding the key
          have hcj : 1 ≤ b.cnt c j := by
            have := cnt_mono b c (show j' + 1 ≤ j by omega)
            have : 0 < (b.K c j').length := List.length_pos_iff.2 hk'
            simp only [Bucket.cnt] at *; omega
          have hgap : b.cnt c (j' + 1) = b.cnt c j := by
            apply cnt_gap b c (P' := b.cnt c j - 1) (by omega)
            · have := cnt_mono b c (show j' + 1 ≤ j by omega); omega
            · omega
            · intro i h1 h2; exact hmax i h1 (by omega) (by omega)
          have hlen' : 0 < (b.K c j').length := List.length_pos_iff.2 hk'
          have hfull : revStart (b.cnt c j - 1) (b.cnt c j') (b.K c j').length = (b.K c j').length - 1 :=
            revStart_full hlen' (by simp only [Bucket.cnt] at hgap; omega)
          have hreg : revIter b c j' (revStart (b.cnt c j - 1) (b.cnt c j') (b.K c j').length) false (decide (j' > 0))
              = regIter b c j' (revStart (b.cnt c j - 1) (b.cnt c j') (b.K c j').length) := by
            unfold regIter
            have : decide (j' = b.sealed.length) = false := by simpa using Nat.ne_of_lt hj'n
            rw [this]
          rw [hn, hreg]
          obtain ⟨G', h1, h2, h2g, extra, h2h, h2e⟩ := rev_loop h hs hp f j' _ (b.cnt c j - 1)
            (acc ++ b.revPass c j limit P q)
            (by omega) (revStart_lt hlen') hc' (fun hh => revStart_le hc' hh) (by omega)
          have hidx : b.cnt c j' + Nat.min (b.cnt c j - 1 - b.cnt c j')
              (revStart (b.cnt c j - 1) (b.cnt c j') (b.K c j').length) + 1 = b.cnt c j := by
            rw [hfull]
            have : b.cnt c j - 1 - b.cnt c j' = (b.K c j').length - 1 := by
              simp only [Bucket.cnt] at hgap; omega
            rw [this]
            rcases natMin_cases ((b.K c j').length - 1) ((b.K c j').length - 1) with ⟨e1, _⟩ | ⟨e1, _⟩ <;>
              rw [e1] <;> simp only [Bucket.cnt] at hgap <;> omega
          rw [hidx] at h2 h2h
          refine ⟨b.revPass c j limit P q ++ G', by rw [h1, List.append_assoc], fun e => ?_, ?_, extra, ?_, h2e⟩
          rotate_left
          · intro g hg
            rcases List.mem_append.1 hg with hg | hg
            · exact hgood g hg
            · exact h2g g hg
          · rw [headsPos_append, hheads, h2h, Nat.add_assoc, range_split_reverse, List.append_assoc]
          rw [List.flatten_append, List.mem_append, List.mem_append, hmem e, h2 e, hup e]
          constructor
          · rintro (⟨h3, _⟩ | h3)
            · exact Or.inr h3
            · exact Or.inl h3
          · rintro (h3 | h3)
            · exact Or.inr h3
            · exact Or.inl ⟨h3, hP⟩
        · -- no older sealed segment holds the key: this was the key's first segment
          have hcj : b.cnt c j = 0 := by
            apply Nat.eq_zero_of_not_pos
            intro hpos
            obtain ⟨i, _, a2, a3, a4⟩ := exists_seg b c 0 (b.cnt c j - 1) j (Nat.zero_le _)
              (Nat.zero_le _) (by omega)
            rcases hall i (by omega) (by omega) with h1 | h1
            · exact a3 h1
            · omega
          have hup0 : b.keyUpTo c j = [] := List.length_eq_zero_iff.1 (by rw [keyUpTo_length, hcj])
          rcases hL with ⟨hk, hc0, hn⟩ | ⟨_, hn⟩
          · -- the fallback to the live segment: one more group, the key's first event
            have hcn : b.cnt c b.sealed.length = 0 := by omega
            have hjn : j = b.sealed.length := by
              rcases Nat.lt_or_ge j b.sealed.length with hlt | hge
              · have := cnt_mono b c (show j + 1 ≤ b.sealed.length by omega)
                simp only [Bucket.cnt] at this; omega
              · omega
            obtain ⟨f', rfl⟩ : ∃ f', f = f' + 1 := ⟨f - 1, by omega⟩
            have e0 : b.cnt c j - 1 = 0 := by omega
            rw [hn, e0]
            obtain ⟨G', h1, h2, h2g, h2h⟩ := rev_quirk (c := c) h hs hp hk hcn f' (acc ++ b.revPass c j limit P q)
            refine ⟨b.revPass c j limit P q ++ G', by rw [h1, List.append_assoc], fun e => ?_, ?_, [0], ?_, Or.inr rfl⟩
            rotate_left
            · intro g hg
              rcases List.mem_append.1 hg with hg | hg
              · exact hgood g hg
              · exact h2g g hg
            · rw [headsPos_append, hheads, h2h, hcj, Nat.add_assoc, range_split_reverse]; simp
            rw [List.flatten_append, List.mem_append, List.mem_append, hmem e, hup0]
            constructor
            · rintro (⟨h3, _⟩ | h3)
              · exact Or.inr h3
              · right
                have := h2 e h3
                rw [hjn]
                exact mem_take_one_sub _ _ _ this
            · rintro (h3 | h3)
              · cases h3
              · exact Or.inl ⟨h3, hP⟩
          · obtain ⟨f', rfl⟩ : ∃ f', f = f' + 1 := ⟨f - 1, by omega⟩
            rw [hn, scanLoop_none]
            refine ⟨b.revPass c j limit P q, rfl, fun e => ?_, hgood, [], ?_, Or.inl rfl⟩
            · rw [hmem e, hup0]
              simp [hP]
            · rw [hheads, hcj, Nat.add_assoc, range_split_reverse]; simp

end SierraModel.Store
