/-
One reverse pass over segment `j` of a bucket: which events it returns and where the scan resumes.
-/
import SierraModel.Lemmas.ScanRevSeg
import SierraModel.Lemmas.ScanFwd

set_option linter.unusedSimpArgs false
set_option linter.unusedVariables false

namespace SierraModel.Store
open SierraModel.Version

variable {b : Bucket} {c : ScanCfg}

theorem mem_drop_take {α : Type} {l : List α} {t m : Nat} {x : α} (h : x ∈ (l.drop t).take m) :
    ∃ u, ∃ hu : u < l.length, t ≤ u ∧ u < t + m ∧ x = l[u] := by
  obtain ⟨i, hi, rfl⟩ := List.mem_iff_getElem.1 h
  simp only [List.length_take, List.length_drop] at hi
  refine ⟨t + i, by omega, by omega, by omega, ?_⟩
  simp [List.getElem_take, List.getElem_drop]

/-- the group a reverse scan returns at the `t`-th event of the key in segment `j` -/
theorem revGroup_K (h : Inv b) {j : Nat} (hj : j ≤ b.sealed.length) {limit : Nat}
    (hok : SegOk c SEGMENT_HEADER_SIZE limit (b.segAt j)) (hsub : ∀ t ∈ committedOf (b.segAt j), t ∈ b.abs.txs)
    (P : Nat) {t : Nat} (ht : t < (b.K c j).length) :
    ∃ m, 1 ≤ m ∧
      revGroup c (b.segAt j) limit P ((b.K c j)[t]).2 =
        ((((b.K c j).drop t).take m).map (·.1)).filter (fun e => decide (c.pos e ≤ P)) ∧
      ∃ tx ∈ b.abs.txs, (((b.K c j).drop t).take m).map (·.1) <:+ tx.filter c.mine := by
  obtain ⟨group, m, h1, _, hm, h4, tx, htx, h5⟩ := rev_group_at hok (t := t) ht
  refine ⟨m, hm, ?_, tx, hsub tx htx, h5⟩
  have h1' : readCommitted (b.segAt j) limit ((b.K c j)[t]).2 = some group := h1
  simp only [revGroup, h1', Option.getD_some, scanEvs]
  rw [h4]; rfl

theorem revGroup_sub (h : Inv b) {j : Nat} (hj : j ≤ b.sealed.length) {limit : Nat}
    (hok : SegOk c SEGMENT_HEADER_SIZE limit (b.segAt j)) (hsub : ∀ t ∈ committedOf (b.segAt j), t ∈ b.abs.txs)
    (P : Nat) {t : Nat} (ht : t < (b.K c j).length) {e : Ev}
    (he : e ∈ revGroup c (b.segAt j) limit P ((b.K c j)[t]).2) :
    ∃ u, ∃ hu : u < (b.K c j).length, t ≤ u ∧ e = ((b.K c j)[u]).1 ∧ b.cnt c j + u ≤ P := by
  obtain ⟨m, _, hg, _⟩ := revGroup_K h hj hok hsub P ht
  rw [hg] at he
  obtain ⟨h1, h2⟩ := List.mem_filter.1 he
  obtain ⟨x, hx, rfl⟩ := List.mem_map.1 h1
  obtain ⟨u, hu, h3, _, rfl⟩ := mem_drop_take hx
  refine ⟨u, hu, h3, rfl, ?_⟩
  rw [← K_pos h hj u hu]; simpa using h2

theorem revGroup_head (h : Inv b) {j : Nat} (hj : j ≤ b.sealed.length) {limit : Nat}
    (hok : SegOk c SEGMENT_HEADER_SIZE limit (b.segAt j)) (hsub : ∀ t ∈ committedOf (b.segAt j), t ∈ b.abs.txs)
    (P : Nat) {t : Nat} (ht : t < (b.K c j).length) (hP : b.cnt c j + t ≤ P) :
    ∃ es, revGroup c (b.segAt j) limit P ((b.K c j)[t]).2 = ((b.K c j)[t]).1 :: es := by
  obtain ⟨m, hm, hg, _⟩ := revGroup_K h hj hok hsub P ht
  rw [hg, List.drop_eq_getElem_cons ht]
  obtain ⟨m', rfl⟩ : ∃ m', m = m' + 1 := ⟨m - 1, by omega⟩
  have hpos : decide (c.pos ((b.K c j)[t]).1 ≤ P) = true := by
    rw [K_pos h hj t ht]; simpa using hP
  simp only [List.take_succ_cons, List.map_cons, List.filter_cons, hpos, if_true]
  exact ⟨_, rfl⟩

theorem revGroup_empty (h : Inv b) {j : Nat} (hj : j ≤ b.sealed.length) {limit : Nat}
    (hok : SegOk c SEGMENT_HEADER_SIZE limit (b.segAt j)) (hsub : ∀ t ∈ committedOf (b.segAt j), t ∈ b.abs.txs)
    (P : Nat) {t : Nat} (ht : t < (b.K c j).length) (hP : P < b.cnt c j + t) :
    revGroup c (b.segAt j) limit P ((b.K c j)[t]).2 = [] := by
  cases hg : revGroup c (b.segAt j) limit P ((b.K c j)[t]).2 with
  | nil => rfl
  | cons e es =>
    obtain ⟨u, hu, h1, _, h3⟩ := revGroup_sub h hj hok hsub P ht (e := e) (by rw [hg]; simp)
    omega

theorem mem_take_succ_iff {α : Type} (l : List α) (q : Nat) (x : α) :
    x ∈ l.take (q + 1) ↔ ∃ t, ∃ ht : t < l.length, t ≤ q ∧ x = l[t] := by
  constructor
  · intro hx
    obtain ⟨i, hi, rfl⟩ := List.mem_iff_getElem.1 hx
    simp only [List.length_take] at hi
    exact ⟨i, by omega, by omega, by simp [List.getElem_take]⟩
  · rintro ⟨t, ht, htq, rfl⟩
    apply List.mem_iff_getElem.2
    exact ⟨t, by simp only [List.length_take]; omega, by simp [List.getElem_take]⟩

theorem take_succ_map_head {α β : Type} (f : α → β) : ∀ (l : List α) (h0 : 0 < l.length) (q : Nat),
    (l.map f).take (q + 1) = f l[0] :: ((l.map f).drop 1).take q
  | [], h0, _ => by simp at h0
  | x :: xs, _, _ => by simp

theorem revGroups_append (c : ScanCfg) (recs : List Placed) (limit upper : Nat) (l1 l2 : List Nat) :
    revGroups c recs limit upper (l1 ++ l2) = revGroups c recs limit upper l1 ++ revGroups c recs limit upper l2 := by
  simp [revGroups]

/-- the groups of the reverse pass over segment `j` starting at its `q`-th event of the key -/
def Bucket.revPass (b : Bucket) (c : ScanCfg) (j limit P q : Nat) : List (List Ev) :=
  revGroups c (b.segAt j) limit P (((b.K c j).map (·.2)).take (q + 1)).reverse

theorem mem_revPass (h : Inv b) {j : Nat} (hj : j ≤ b.sealed.length) {limit : Nat}
    (hok : SegOk c SEGMENT_HEADER_SIZE limit (b.segAt j)) (hsub : ∀ t ∈ committedOf (b.segAt j), t ∈ b.abs.txs)
    {P q : Nat} (hq : q < (b.K c j).length) (hqP : q + 1 < (b.K c j).length → P ≤ b.cnt c j + q) (e : Ev) :
    e ∈ (b.revPass c j limit P q).flatten ↔
      e ∈ ((b.K c j).take (Nat.min (P - b.cnt c j) q + 1)).map (·.1) ∧ b.cnt c j ≤ P := by
  unfold Bucket.revPass
  rw [mem_revGroups_flatten]
  constructor
  · rintro ⟨off, ho, he⟩
    rw [List.mem_reverse, mem_take_succ_iff] at ho
    obtain ⟨t, ht, htq, rfl⟩ := ho
    have ht' : t < (b.K c j).length := by simpa using ht
    have he' : e ∈ revGroup c (b.segAt j) limit P ((b.K c j)[t]).2 := by simpa using he
    obtain ⟨u, hu, h1, rfl, h3⟩ := revGroup_sub h hj hok hsub P ht' he'
    refine ⟨List.mem_map.2 ⟨(b.K c j)[u], ?_, rfl⟩, by omega⟩
    rw [mem_take_succ_iff]
    refine ⟨u, hu, ?_, rfl⟩
    apply Nat.le_min.2
    refine ⟨by omega, ?_⟩
    by_cases hh : q + 1 < (b.K c j).length
    · have := hqP hh; omega
    · omega
  · rintro ⟨he, hP⟩
    obtain ⟨x, hx, rfl⟩ := List.mem_map.1 he
    rw [mem_take_succ_iff] at hx
    obtain ⟨u, hu, huq, rfl⟩ := hx
    have h1 : u ≤ P - b.cnt c j := Nat.le_trans huq (Nat.min_le_left _ _)
    have h2 : u ≤ q := Nat.le_trans huq (Nat.min_le_right _ _)
    refine ⟨((b.K c j)[u]).2, ?_, ?_⟩
    · rw [List.mem_reverse, mem_take_succ_iff]
      exact ⟨u, by simpa using hu, h2, by simp⟩
    · obtain ⟨es, hes⟩ := revGroup_head h hj hok hsub P hu (by omega)
      rw [hes]; simp

/-- the pass ends with a group that starts at the segment's first event of the key -/
theorem revPass_last (h : Inv b) {j : Nat} (hj : j ≤ b.sealed.length) {limit : Nat}
    (hok : SegOk c SEGMENT_HEADER_SIZE limit (b.segAt j)) (hsub : ∀ t ∈ committedOf (b.segAt j), t ∈ b.abs.txs)
    {P q : Nat} (hq : q < (b.K c j).length) (hP : b.cnt c j ≤ P) :
    ∃ G es, b.revPass c j limit P q = G ++ [((b.K c j)[0]).1 :: es] := by
  have h0 : 0 < (b.K c j).length := by omega
  obtain ⟨es, hes⟩ := revGroup_head h hj hok hsub P h0 (by omega)
  have hsplit : ((b.K c j).map (·.2)).take (q + 1) =
      ((b.K c j)[0]).2 :: (((b.K c j).map (·.2)).drop 1).take q := by
    exact take_succ_map_head _ _ h0 q
  unfold Bucket.revPass
  rw [hsplit, List.reverse_cons, revGroups_append]
  refine ⟨revGroups c (b.segAt j) limit P ((((b.K c j).map (·.2)).drop 1).take q).reverse, es, ?_⟩
  rw [revGroups_cons_cons c _ limit P _ [] _ es hes]; rfl

end SierraModel.Store
