/-
The groups of a reverse pass: each is a run of one transaction's events of the key, and their first
events are the key's events in decreasing order.
-/
import SierraModel.Lemmas.ScanRevPass

set_option linter.unusedSimpArgs false
set_option linter.unusedVariables false

namespace SierraModel.Store
open SierraModel.Version

variable {b : Bucket} {c : ScanCfg}

/-- a returned group: non-empty, a contiguous run of one transaction's events of the key -/
def GoodGroup (b : Bucket) (c : ScanCfg) (g : List Ev) : Prop :=
  g ≠ [] ∧ ∃ tx ∈ b.abs.txs, g <:+: tx.filter c.mine

/-- positions of the first events of the groups -/
def headsPos (c : ScanCfg) (G : List (List Ev)) : List Nat := G.filterMap (fun g => g.head?.map c.pos)

theorem headsPos_append (c : ScanCfg) (G1 G2 : List (List Ev)) :
    headsPos c (G1 ++ G2) = headsPos c G1 ++ headsPos c G2 := by simp [headsPos]

theorem headsPos_cons (c : ScanCfg) (e : Ev) (es : List Ev) (G : List (List Ev)) :
    headsPos c ((e :: es) :: G) = c.pos e :: headsPos c G := by simp [headsPos]

theorem filter_le_range' {α : Type} (f : α → Nat) (U : Nat) : ∀ (l : List α) (k : Nat),
    l.map f = List.range' k l.length → l.filter (fun e => decide (f e ≤ U)) = l.take (U + 1 - k)
  | [], _, _ => by simp
  | a :: l, k, h => by
    simp only [List.map_cons, List.length_cons, List.range'_succ, List.cons.injEq] at h
    have ih := filter_le_range' f U l (k + 1) h.2
    rw [List.filter_cons, ih, h.1]
    by_cases hk : k ≤ U
    · simp only [hk, decide_true, if_true]
      rw [show U + 1 - k = (U + 1 - (k + 1)) + 1 by omega]; rfl
    · simp only [hk, decide_false, Bool.false_eq_true, if_false]
      rw [show U + 1 - (k + 1) = 0 by omega, show U + 1 - k = 0 by omega]; rfl

theorem run_pos (h : Inv b) {j : Nat} (hj : j ≤ b.sealed.length) (t m : Nat) :
    ((((b.K c j).drop t).take m).map (·.1)).map c.pos =
      List.range' (b.cnt c j + t) ((((b.K c j).drop t).take m).map (·.1)).length := by
  apply List.ext_getElem
  · simp
  · intro i h1 h2
    simp only [List.length_map, List.length_take, List.length_drop] at h1
    simp only [List.getElem_map, List.getElem_take, List.getElem_drop, List.getElem_range']
    rw [K_pos h hj (t + i) (by omega)]; omega

theorem revGroup_good (h : Inv b) {j : Nat} (hj : j ≤ b.sealed.length) {limit : Nat}
    (hok : SegOk c SEGMENT_HEADER_SIZE limit (b.segAt j)) (hsub : ∀ t ∈ committedOf (b.segAt j), t ∈ b.abs.txs)
    (P : Nat) {t : Nat} (ht : t < (b.K c j).length)
    (hne : revGroup c (b.segAt j) limit P ((b.K c j)[t]).2 ≠ []) :
    GoodGroup b c (revGroup c (b.segAt j) limit P ((b.K c j)[t]).2) := by
  obtain ⟨m, _, hg, tx, htx, hsuf⟩ := revGroup_K h hj hok hsub P ht
  refine ⟨hne, tx, htx, ?_⟩
  rw [hg, filter_le_range' c.pos P _ _ (run_pos h hj t m)]
  exact List.IsInfix.trans (List.take_prefix _ _).isInfix hsuf.isInfix

theorem revPass_good (h : Inv b) {j : Nat} (hj : j ≤ b.sealed.length) {limit : Nat}
    (hok : SegOk c SEGMENT_HEADER_SIZE limit (b.segAt j)) (hsub : ∀ t ∈ committedOf (b.segAt j), t ∈ b.abs.txs)
    (P q : Nat) : ∀ g ∈ b.revPass c j limit P q, GoodGroup b c g := by
  intro g hg
  unfold Bucket.revPass revGroups at hg
  obtain ⟨h1, h2⟩ := List.mem_filter.1 hg
  obtain ⟨off, ho, rfl⟩ := List.mem_map.1 h1
  rw [List.mem_reverse, mem_take_succ_iff] at ho
  obtain ⟨t, ht, _, rfl⟩ := ho
  have ht' : t < (b.K c j).length := by simpa using ht
  have e1 : ((b.K c j).map (·.2))[t] = ((b.K c j)[t]).2 := by simp
  rw [e1] at h2 ⊢
  exact revGroup_good h hj hok hsub P ht' (by simpa using h2)

theorem take_succ_snoc {α : Type} (l : List α) (q : Nat) (hq : q < l.length) :
    l.take (q + 1) = l.take q ++ [l[q]] := by
  rw [List.take_add_one, List.getElem?_eq_getElem hq]; rfl

theorem range'_succ_reverse (k n : Nat) :
    (List.range' k (n + 1)).reverse = (k + n) :: (List.range' k n).reverse := by
  rw [List.range'_concat]; simp

/-- first positions of the groups of a pass: `cnt j + x, …, cnt j` with `x = min (P - cnt j) q` -/
theorem revPass_heads (h : Inv b) {j : Nat} (hj : j ≤ b.sealed.length) {limit : Nat}
    (hok : SegOk c SEGMENT_HEADER_SIZE limit (b.segAt j)) (hsub : ∀ t ∈ committedOf (b.segAt j), t ∈ b.abs.txs)
    {P : Nat} (hP : b.cnt c j ≤ P) : ∀ q, q < (b.K c j).length →
      headsPos c (b.revPass c j limit P q) =
        (List.range' (b.cnt c j) (Nat.min (P - b.cnt c j) q + 1)).reverse
  | 0, hq => by
    obtain ⟨es, hes⟩ := revGroup_head h hj hok hsub P hq (by omega)
    have h0 : ((b.K c j).map (·.2)).take 1 = [((b.K c j)[0]).2] := by
      have := take_succ_map_head (fun x : Ev × Nat => x.2) (b.K c j) hq 0
      simpa using this
    unfold Bucket.revPass
    have e0 : Nat.min (P - b.cnt c j) 0 = 0 := Nat.min_eq_right (Nat.zero_le _)
    rw [h0, List.reverse_singleton, revGroups_cons_cons c _ limit P _ [] _ es hes, e0]
    simp [headsPos, revGroups, K_pos h hj 0 hq]
  | q + 1, hq => by
    have ih := revPass_heads h hj hok hsub hP q (by omega)
    have hsplit : (((b.K c j).map (·.2)).take (q + 1 + 1)).reverse =
        ((b.K c j)[q + 1]).2 :: (((b.K c j).map (·.2)).take (q + 1)).reverse := by
      rw [take_succ_snoc _ (q + 1) (by simpa using hq)]; simp
    unfold Bucket.revPass at ih ⊢
    rw [hsplit]
    by_cases hle : b.cnt c j + (q + 1) ≤ P
    · obtain ⟨es, hes⟩ := revGroup_head h hj hok hsub P hq hle
      rw [revGroups_cons_cons c _ limit P _ _ _ es hes]
      have e1 : Nat.min (P - b.cnt c j) (q + 1) = q + 1 := Nat.min_eq_right (by omega)
      have e2 : Nat.min (P - b.cnt c j) q = q := Nat.min_eq_right (by omega)
      rw [e2] at ih
      rw [e1, range'_succ_reverse, headsPos_cons, ih, K_pos h hj (q + 1) hq]
    · rw [revGroups_cons_nil c _ limit P _ _ (revGroup_empty h hj hok hsub P hq (by omega)), ih]
      have e1 : Nat.min (P - b.cnt c j) (q + 1) = P - b.cnt c j := Nat.min_eq_left (by omega)
      have e2 : Nat.min (P - b.cnt c j) q = P - b.cnt c j := Nat.min_eq_left (by omega)
      rw [e1, e2]

end SierraModel.Store
