/-
Reverse `drainSeg` over a well-formed segment.
-/
import SierraModel.Lemmas.ScanFwdSeg2

set_option linter.unusedSimpArgs false
set_option linter.unusedVariables false

namespace SierraModel.Store
open SierraModel.Version

/-- what a reverse scan reads at the `t`-th event of the key in a segment: a group whose kept events
are a run `K[t], …, K[t+m-1]` of the key's events, all in one transaction -/
theorem rev_group_at {c : ScanCfg} {s limit : Nat} {recs : List Placed} (h : SegOk c s limit recs) {t : Nat}
    (ht : t < (keyOffs c recs).length) :
    ∃ group m, readCommitted recs limit ((keyOffs c recs)[t]).2 = some group ∧
      advanceIdx group ((keyOffs c recs).map (·.2)).reverse ((keyOffs c recs).length - 1 - t) =
        (keyOffs c recs).length - 1 - t + 1 ∧
      1 ≤ m ∧
      (group.map (·.1)).filter c.keep = (((keyOffs c recs).drop t).take m).map (·.1) ∧
      ∃ tx ∈ committedOf recs, (((keyOffs c recs).drop t).take m).map (·.1) <:+ tx.filter c.mine := by
  obtain ⟨pre, b1, p, b2, post, e, hr, hat, hp, hpo, hlen, hco⟩ := h.split ht
  subst hr
  have hK : keyOffs c (pre ++ (b1 ++ p :: b2) ++ post) =
      keyOffs c (pre ++ b1) ++ (e, p.off) :: (keyOffs c b2 ++ keyOffs c post) := by
    rw [show pre ++ (b1 ++ p :: b2) ++ post = (pre ++ b1) ++ (p :: (b2 ++ post)) by simp,
      keyOffs_append, keyOffs_cons_ev c p _ e hat.he]
    simp [hat.hm, keyOffs_append]
  have hget : (keyOffs c (pre ++ (b1 ++ p :: b2) ++ post))[t] = (e, p.off) := by
    have : (keyOffs c (pre ++ (b1 ++ p :: b2) ++ post))[t]? = some (e, p.off) := by
      rw [hK, List.getElem?_append_right (by omega), hlen]; simp
    exact Option.some.inj ((List.getElem?_eq_getElem ht).symm.trans this)
  have hdrop : (keyOffs c (pre ++ (b1 ++ p :: b2) ++ post)).drop t =
      (e, p.off) :: (keyOffs c b2 ++ keyOffs c post) := by
    rw [hK, List.drop_append_of_le_length (by omega), ← hlen, List.drop_length, List.nil_append]
  refine ⟨(e, p.off) :: evOffs b2, 1 + (keyOffs c b2).length, ?_, ?_, by omega, ?_, ?_⟩
  · rw [hget]; exact hat.read
  · have hrev : ((keyOffs c (pre ++ (b1 ++ p :: b2) ++ post)).map (·.2)).reverse =
        (((keyOffs c b2).map (·.2) ++ (keyOffs c post).map (·.2)).reverse) ++
          p.off :: ((keyOffs c (pre ++ b1)).map (·.2)).reverse := by
      rw [hat.offsets]; simp
    have hidx : (keyOffs c (pre ++ (b1 ++ p :: b2) ++ post)).length - 1 - t =
        (((keyOffs c b2).map (·.2) ++ (keyOffs c post).map (·.2)).reverse).length := by
      rw [hK]; simp; omega
    rw [hrev, hidx]
    apply advance_rev
    intro y hy
    have hy' : y ∈ (keyOffs c (pre ++ b1)).map (·.2) := by
      have := List.mem_of_mem_head? hy
      exact List.mem_reverse.1 this
    exact hat.before hy'
  · have := hat.evs_fwd 0
    simp only [scanEvs] at this
    rw [this, hdrop]
    rw [show 1 + (keyOffs c b2).length = (keyOffs c b2).length + 1 by omega, List.take_succ_cons,
      List.take_left' rfl, List.map_cons, keyOffs_map_fst]
  · refine ⟨evsOf (b1 ++ p :: b2), by rw [hco]; simp, ?_⟩
    rw [hdrop, show 1 + (keyOffs c b2).length = (keyOffs c b2).length + 1 by omega, List.take_succ_cons,
      List.take_left' rfl, List.map_cons, keyOffs_map_fst, evsOf_append, List.filter_append,
      evsOf_cons_ev p b2 e hat.he]
    simp only [List.filter_cons, hat.hm, if_true]
    exact List.suffix_append _ _

/-- the events a reverse scan returns for the group read at `off` -/
def revGroup (c : ScanCfg) (recs : List Placed) (limit upper off : Nat) : List Ev :=
  scanEvs c .rev upper ((readCommitted recs limit off).getD [])

/-- the groups a reverse scan returns walking the offsets `offs` -/
def revGroups (c : ScanCfg) (recs : List Placed) (limit upper : Nat) (offs : List Nat) : List (List Ev) :=
  (offs.map (revGroup c recs limit upper)).filter (fun g => !g.isEmpty)

/-- resume position after the groups `G` (reverse) -/
def revLastPos (c : ScanCfg) : Nat → List (List Ev) → Nat
  | lp, [] => lp
  | lp, g :: gs => revLastPos c (match g with | [] => lp | e0 :: _ => c.pos e0 - 1) gs

theorem revLastPos_snoc (c : ScanCfg) (e0 : Ev) (es : List Ev) : ∀ (G : List (List Ev)) (lp : Nat),
    revLastPos c lp (G ++ [e0 :: es]) = c.pos e0 - 1
  | [], _ => rfl
  | g :: G, lp => by simp only [List.cons_append, revLastPos]; exact revLastPos_snoc c e0 es G _

theorem revGroups_cons_nil (c : ScanCfg) (recs : List Placed) (limit upper a : Nat) (l : List Nat)
    (h : revGroup c recs limit upper a = []) :
    revGroups c recs limit upper (a :: l) = revGroups c recs limit upper l := by
  simp [revGroups, h]

theorem revGroups_cons_cons (c : ScanCfg) (recs : List Placed) (limit upper a : Nat) (l : List Nat) (e0 : Ev)
    (es : List Ev) (h : revGroup c recs limit upper a = e0 :: es) :
    revGroups c recs limit upper (a :: l) = (e0 :: es) :: revGroups c recs limit upper l := by
  simp [revGroups, h]

theorem drain_rev_gen (c : ScanCfg) (recs : List Placed) (limit upper : Nat) (offs : List Nat)
    (hstep : ∀ r (hr : r < offs.length), ∃ group, readCommitted recs limit offs[r] = some group ∧
      advanceIdx group offs r = r + 1) :
    ∀ (fuel r lastPos : Nat) (acc : List (List Ev)), offs.length - r + 1 ≤ fuel →
      drainSeg c .rev recs limit upper offs fuel r lastPos acc =
        .ok (acc ++ revGroups c recs limit upper (offs.drop r),
             revLastPos c lastPos (revGroups c recs limit upper (offs.drop r)))
  | 0, _, _, _, hf => by omega
  | f + 1, r, lastPos, acc, hf => by
    by_cases hr : r < offs.length
    · obtain ⟨group, hread, hadv⟩ := hstep r hr
      have hdrop : offs.drop r = offs[r] :: offs.drop (r + 1) := List.drop_eq_getElem_cons hr
      have hg : revGroup c recs limit upper offs[r] = scanEvs c .rev upper group := by
        simp [revGroup, hread]
      have hidx : offs[r]? = some offs[r] := List.getElem?_eq_getElem hr
      cases hev : scanEvs c .rev upper group with
      | nil =>
        rw [drain_step_nil c .rev recs limit upper offs f r lastPos acc _ group hidx hread hev, hadv,
          drain_rev_gen c recs limit upper offs hstep f (r + 1) lastPos acc (by omega), hdrop,
          revGroups_cons_nil c recs limit upper _ _ (hg.trans hev)]
      | cons e0 es =>
        rw [drain_step_cons c .rev recs limit upper offs f r lastPos acc _ group e0 es hidx hread hev, hadv,
          drain_rev_gen c recs limit upper offs hstep f (r + 1) _ _ (by omega), hdrop,
          revGroups_cons_cons c recs limit upper _ _ e0 es (hg.trans hev)]
        simp [revLastPos]
    · rw [drain_end _ _ _ _ _ _ _ _ _ _ (by simp; omega), List.drop_eq_nil_of_le (by omega)]
      simp [revGroups, revLastPos]

/-- reverse drain of a well-formed segment from reversed index `r` -/
theorem drain_rev_seg {c : ScanCfg} {s limit : Nat} {recs : List Placed} (h : SegOk c s limit recs)
    (upper fuel r lastPos : Nat) (acc : List (List Ev)) (hf : (keyOffs c recs).length - r + 1 ≤ fuel) :
    drainSeg c .rev recs limit upper ((keyOffs c recs).map (·.2)).reverse fuel r lastPos acc =
      .ok (acc ++ revGroups c recs limit upper (((keyOffs c recs).map (·.2)).reverse.drop r),
           revLastPos c lastPos (revGroups c recs limit upper (((keyOffs c recs).map (·.2)).reverse.drop r))) := by
  apply drain_rev_gen
  · intro r hr
    have hr' : r < (keyOffs c recs).length := by simpa using hr
    have ht : (keyOffs c recs).length - 1 - r < (keyOffs c recs).length := by omega
    obtain ⟨group, m, h1, h2, _⟩ := rev_group_at h ht
    refine ⟨group, ?_, ?_⟩
    · rw [← h1]; congr 1
      rw [List.getElem_reverse]; simp
    · rw [show (keyOffs c recs).length - 1 - ((keyOffs c recs).length - 1 - r) = r by omega] at h2
      exact h2
  · simpa using hf

theorem mem_revGroups_flatten (c : ScanCfg) (recs : List Placed) (limit upper : Nat) (offs : List Nat) (e : Ev) :
    e ∈ (revGroups c recs limit upper offs).flatten ↔ ∃ off ∈ offs, e ∈ revGroup c recs limit upper off := by
  simp only [revGroups, List.mem_flatten, List.mem_filter, List.mem_map]
  constructor
  · rintro ⟨g, ⟨⟨off, ho, rfl⟩, _⟩, he⟩
    exact ⟨off, ho, he⟩
  · rintro ⟨off, ho, he⟩
    refine ⟨_, ⟨⟨off, ho, rfl⟩, ?_⟩, he⟩
    cases hg : revGroup c recs limit upper off with
    | nil => rw [hg] at he; cases he
    | cons a l => rfl

/-- the offsets a reverse pass from the `q`-th event walks: those of `K[q], …, K[0]` -/
theorem rev_offsets_drop {α : Type} (K : List α) (q : Nat) (hq : q < K.length) :
    K.reverse.drop (K.length - 1 - q) = (K.take (q + 1)).reverse := by
  rw [List.drop_reverse]
  congr 1
  congr 1
  omega

end SierraModel.Store
