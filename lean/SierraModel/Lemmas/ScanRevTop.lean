/-
The reverse scan of a bucket, top level.
-/
import SierraModel.Lemmas.ScanRevLoop

set_option linter.unusedSimpArgs false
set_option linter.unusedVariables false

namespace SierraModel.Store
open SierraModel.Version

variable {b : Bucket} {c : ScanCfg}

theorem mem_take_pos (h : Inv b) (X : Nat) (e : Ev) :
    e ∈ (keyEvents b.abs c).take (X + 1) ↔ e ∈ keyEvents b.abs c ∧ c.pos e ≤ X := by
  have hnum := keyEvents_pos b.abs c h.seq_ok h.ver_ok
  rw [mem_take_succ_iff]
  constructor
  · rintro ⟨t, ht, htX, rfl⟩
    exact ⟨List.getElem_mem ht, by rw [num_get hnum t ht]; exact htX⟩
  · rintro ⟨hm, hp⟩
    obtain ⟨t, ht, rfl⟩ := List.mem_iff_getElem.1 hm
    rw [num_get hnum t ht] at hp
    exact ⟨t, ht, hp, rfl⟩

theorem take_eq_of_last (h : Inv b) {j : Nat} (hj : j ≤ b.sealed.length) {q P : Nat} (hq : q < (b.K c j).length)
    (hP : b.cnt c j ≤ P) (hqP : q + 1 < (b.K c j).length → P ≤ b.cnt c j + q)
    (hend : b.cnt c j + q < P → b.cnt c (j + 1) = b.cnt c (b.sealed.length + 1)) :
    (keyEvents b.abs c).take (b.cnt c j + Nat.min (P - b.cnt c j) q + 1) = (keyEvents b.abs c).take (P + 1) := by
  rcases natMin_cases (P - b.cnt c j) q with ⟨h1, h2⟩ | ⟨h1, h2⟩ <;> rw [h1]
  · congr 1; omega
  · have hlast : ¬ (q + 1 < (b.K c j).length) := fun hh => by have := hqP hh; omega
    have htot := hend (by omega)
    have hlen := keyEvents_length (c := c) h
    simp only [Bucket.cnt] at htot
    rw [List.take_of_length_le (by rw [hlen]; simp only [Bucket.cnt]; omega),
      List.take_of_length_le (by rw [hlen]; simp only [Bucket.cnt]; omega)]

theorem scan_rev (h : Inv b) (hs : Synced b) (hp : TxPidOk b.abs) (hid : b.sealed.length < 2 ^ 32)
    (c : ScanCfg) (P : Nat) :
    ∃ G, b.scan c .rev P = .ok G ∧ (∀ e, e ∈ G.flatten ↔ e ∈ keyEvents b.abs c ∧ c.pos e ≤ P) ∧
      (∀ g ∈ G, GoodGroup b c g) ∧
      ∃ extra, headsPos c G = (List.range ((keyEvents b.abs c).take (P + 1)).length).reverse ++ extra ∧
        (extra = [] ∨ extra = [0]) := by
  unfold Bucket.scan
  simp only []
  have hhi : b.sealed.length ≤ 2 ^ 32 - 1 := by omega
  rcases newInner_rev (c := c) h hs P (2 ^ 32 - 1) with ⟨_, hk, hc, hn⟩ | ⟨hA, hB⟩
  · -- start in the live segment
    have hlen : 0 < (b.K c b.sealed.length).length := List.length_pos_iff.2 hk
    have hreg : revIter b c b.sealed.length (revStart P (b.cnt c b.sealed.length) (b.K c b.sealed.length).length)
        true (decide (b.sealed.length > 0)) =
        regIter b c b.sealed.length (revStart P (b.cnt c b.sealed.length) (b.K c b.sealed.length).length) := by
      unfold regIter; simp
    rw [hn, hreg]
    obtain ⟨G, h1, h2, h3, extra, h4, h5⟩ := rev_loop (c := c) h hs hp (b.sealed.length + 3) b.sealed.length _ P []
      (Nat.le_refl _) (revStart_lt hlen) hc (fun hh => revStart_le hc hh) (by omega)
    have htake := take_eq_of_last h (Nat.le_refl _) (revStart_lt hlen) hc (fun hh => revStart_le hc hh) (fun _ => rfl)
    refine ⟨G, by simpa using h1, fun e => ?_, h3, extra, ?_, h5⟩
    · rw [h2 e, htake, mem_take_pos h]
    · rw [h4, ← htake, List.length_take, keyEvents_length h]
      have := revStart_lt (P := P) (m := b.cnt c b.sealed.length) hlen
      congr 3
      rcases natMin_cases (P - b.cnt c b.sealed.length)
        (revStart P (b.cnt c b.sealed.length) (b.K c b.sealed.length).length) with ⟨e1, e2⟩ | ⟨e1, e2⟩ <;>
        rw [e1] <;> simp only [Bucket.cnt] <;> omega
  · rcases hB with ⟨j, hjn, _, hk, hc, hmax, hn⟩ | ⟨hall, hL⟩
    · -- start in the newest sealed segment whose first position is at or before `P`
      have hlen : 0 < (b.K c j).length := List.length_pos_iff.2 hk
      have hreg : revIter b c j (revStart P (b.cnt c j) (b.K c j).length) false (decide (j > 0)) =
          regIter b c j (revStart P (b.cnt c j) (b.K c j).length) := by
        unfold regIter
        have : decide (j = b.sealed.length) = false := by simpa using Nat.ne_of_lt hjn
        rw [this]
      rw [hn, hreg]
      obtain ⟨G, h1, h2, h3, extra, h4, h5⟩ := rev_loop (c := c) h hs hp (b.sealed.length + 3) j _ P []
        (Nat.le_of_lt hjn) (revStart_lt hlen) hc (fun hh => revStart_le hc hh) (by omega)
      have htake := take_eq_of_last h (Nat.le_of_lt hjn) (revStart_lt hlen) hc (fun hh => revStart_le hc hh) ?_
      · refine ⟨G, by simpa using h1, fun e => ?_, h3, extra, ?_, h5⟩
        · rw [h2 e, htake, mem_take_pos h]
        · rw [h4, ← htake, List.length_take, keyEvents_length h]
          have := revStart_lt (P := P) (m := b.cnt c j) hlen
          have hmono := cnt_mono b c (show j + 1 ≤ b.sealed.length + 1 by omega)
          congr 3
          rcases natMin_cases (P - b.cnt c j) (revStart P (b.cnt c j) (b.K c j).length) with ⟨e1, e2⟩ | ⟨e1, e2⟩ <;>
            rw [e1] <;> simp only [Bucket.cnt] at hmono ⊢ <;> omega
      intro hlt
      have hq := revStart_lt (P := P) (m := b.cnt c j) hlen
      have hle := cnt_mono b c (show j + 1 ≤ b.sealed.length + 1 by omega)
      rcases Nat.lt_or_ge (b.cnt c (j + 1)) (b.cnt c (b.sealed.length + 1)) with hlt2 | hge
      · exfalso
        obtain ⟨i, a1, a2, a3, a4⟩ := exists_seg b c (j + 1) (b.cnt c (j + 1)) (b.sealed.length + 1)
          (by omega) (Nat.le_refl _) hlt2
        have hcj : b.cnt c (j + 1) ≤ P := by
          by_cases hh : revStart P (b.cnt c j) (b.K c j).length + 1 < (b.K c j).length
          · have := revStart_le hc hh; omega
          · simp only [Bucket.cnt]; omega
        rcases Nat.lt_or_ge i b.sealed.length with hi | hi
        · rcases hmax i (by omega) hi (by omega) with h3 | h3
          · exact a3 h3
          · omega
        · have : i = b.sealed.length := by omega
          subst this
          exact hA ⟨hhi, a3, by omega⟩
      · omega
    · -- the key has no event at or before `P`: it has no event at all
      have hnone : newInner b c .rev P (2 ^ 32 - 1) true = none := by
        rcases hL with ⟨hk, hc, _⟩ | ⟨_, hn⟩
        · exact absurd ⟨hhi, hk, hc⟩ hA
        · exact hn
      rw [hnone]
      have hnil : keyEvents b.abs c = [] := by
        apply List.eq_nil_iff_forall_not_mem.2
        intro e hm
        have hpos : 0 < b.cnt c (b.sealed.length + 1) := by
          rw [← keyEvents_length h]; exact List.length_pos_of_mem hm
        obtain ⟨i, _, a2, a3, a4⟩ := exists_seg b c 0 0 (b.sealed.length + 1) (Nat.zero_le _) (Nat.zero_le _) hpos
        rcases Nat.lt_or_ge i b.sealed.length with hi | hi
        · rcases hall i hi (by omega) with h3 | h3
          · exact a3 h3
          · omega
        · have : i = b.sealed.length := by omega
          subst this
          exact hA ⟨hhi, a3, by omega⟩
      refine ⟨[], by simp [scanLoop], fun e => ?_, by simp, [], by simp [hnil, headsPos], Or.inl rfl⟩
      simp only [List.flatten_nil, List.not_mem_nil, false_iff]
      rintro ⟨hm, _⟩
      rw [hnil] at hm; cases hm

end SierraModel.Store
