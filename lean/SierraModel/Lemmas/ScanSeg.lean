/-
One segment: the key's events with their offsets (`keyOffs`), what `keyInfo` computes on a hydrated
index, offsets in a contiguous layout, one step of `drainSeg`, and `advanceIdx`.
-/
import SierraModel.Lemmas.ScanNum

set_option linter.unusedSimpArgs false
set_option linter.unusedVariables false

namespace SierraModel.Store
open SierraModel.Version

/-- the key's events of a record list, with offsets -/
def keyOffs (c : ScanCfg) (recs : List Placed) : List (Ev × Nat) :=
  (evOffs recs).filter (fun x => c.mine x.1)

theorem keyOffs_nil (c : ScanCfg) : keyOffs c [] = [] := rfl
theorem keyOffs_append (c : ScanCfg) (a b : List Placed) : keyOffs c (a ++ b) = keyOffs c a ++ keyOffs c b := by
  simp [keyOffs, evOffs_append]

theorem keyOffs_cons_ev (c : ScanCfg) (p : Placed) (ps : List Placed) (e : Ev) (h : p.r = .ev e) :
    keyOffs c (p :: ps) = if c.mine e then (e, p.off) :: keyOffs c ps else keyOffs c ps := by
  unfold keyOffs; rw [evOffs_cons_ev p ps e h, List.filter_cons]

theorem keyOffs_cons_commit (c : ScanCfg) (p : Placed) (ps : List Placed) (t n : Nat) (h : p.r = .commit t n) :
    keyOffs c (p :: ps) = keyOffs c ps := by
  unfold keyOffs; rw [evOffs_cons_commit p ps t n h]

theorem keyOffs_map_fst (c : ScanCfg) (recs : List Placed) :
    (keyOffs c recs).map (·.1) = (evsOf recs).filter c.mine := by
  unfold keyOffs evsOf
  rw [List.filter_map]; rfl

theorem keyOffs_sub (c : ScanCfg) (recs : List Placed) {x : Ev × Nat} (h : x ∈ keyOffs c recs) :
    x ∈ evOffs recs := (List.mem_filter.1 h).1

theorem keyOffs_mine (c : ScanCfg) (recs : List Placed) {x : Ev × Nat} (h : x ∈ keyOffs c recs) :
    c.mine x.1 = true := (List.mem_filter.1 h).2

/-- the `i`-th event of the key in a record list -/
theorem keyOffs_split (c : ScanCfg) : ∀ (l : List Placed) (i : Nat), i < (keyOffs c l).length →
    ∃ l1 p l2 e, l = l1 ++ p :: l2 ∧ p.r = .ev e ∧ c.mine e = true ∧ (keyOffs c l1).length = i
  | [], i, h => by simp [keyOffs_nil] at h
  | a :: l, i, h => by
    have lift : ∀ j, j < (keyOffs c l).length → (keyOffs c [a]).length + j = i →
        ∃ l1 p l2 e, a :: l = l1 ++ p :: l2 ∧ p.r = .ev e ∧ c.mine e = true ∧ (keyOffs c l1).length = i := by
      intro j hj hi
      obtain ⟨l1, p, l2, e, he, hp, hm, hl⟩ := keyOffs_split c l j hj
      refine ⟨a :: l1, p, l2, e, by rw [he]; rfl, hp, hm, ?_⟩
      have : keyOffs c (a :: l1) = keyOffs c [a] ++ keyOffs c l1 := keyOffs_append c [a] l1
      rw [this, List.length_append, hl, hi]
    cases hr : a.r with
    | commit t n =>
      rw [keyOffs_cons_commit c a l t n hr] at h
      exact lift i h (by rw [keyOffs_cons_commit c a [] t n hr]; simp [keyOffs_nil])
    | ev e =>
      rw [keyOffs_cons_ev c a l e hr] at h
      by_cases hm : c.mine e = true
      · cases i with
        | zero => exact ⟨[], a, l, e, rfl, hr, hm, rfl⟩
        | succ i =>
          simp only [hm, if_true, List.length_cons] at h
          exact lift i (by omega) (by rw [keyOffs_cons_ev c a [] e hr]; simp [hm, keyOffs_nil]; omega)
      · simp only [hm, if_false] at h
        exact lift i h (by rw [keyOffs_cons_ev c a [] e hr]; simp [hm, keyOffs_nil])

theorem sel_entryOf (c : ScanCfg) (e : Ev) (o : Nat) : c.sel (entryOf e o) = c.mine e := rfl

/-- `keyInfo` on the index of a segment -/
theorem keyInfo_hydrate (c : ScanCfg) (recs : List Placed) :
    keyInfo c (hydrate recs) =
      match keyOffs c recs with
      | [] => none
      | x :: xs => some (c.pos x.1, (x :: xs).map (·.2)) := by
  unfold keyInfo
  rw [hydrate_eq, List.filter_map]
  have : (c.sel ∘ fun x : Ev × Nat => entryOf x.1 x.2) = (fun x : Ev × Nat => c.mine x.1) := by
    funext x; rfl
  rw [this]
  show (match (keyOffs c recs).map (fun x => entryOf x.1 x.2) with | [] => none | e :: es => _) = _
  cases keyOffs c recs with
  | nil => rfl
  | cons x xs =>
    simp only [List.map_cons, List.map_map]
    cases h : c.isStream <;> simp [ScanCfg.pos, h, entryOf, Function.comp_def]

/-! ### offsets in a contiguous layout -/

theorem mem_evOffs {recs : List Placed} {x : Ev × Nat} (h : x ∈ evOffs recs) :
    ∃ p ∈ recs, p.r = .ev x.1 ∧ p.off = x.2 := by
  unfold evOffs at h
  obtain ⟨p, hp, hx⟩ := List.mem_filterMap.1 h
  cases hr : p.r with
  | ev e => rw [hr] at hx; simp at hx; subst hx; exact ⟨p, hp, hr, rfl⟩
  | commit t n => rw [hr] at hx; simp at hx

theorem evOffs_bounds {s : Nat} {recs : List Placed} (hc : Contig s recs) {x : Ev × Nat}
    (h : x ∈ evOffs recs) : s ≤ x.2 ∧ x.2 < endFrom s recs := by
  obtain ⟨p, hp, _, ho⟩ := mem_evOffs h
  have := contig_mem s recs hc p hp
  omega

end SierraModel.Store
