/-
Segments are append-only, also across sealing: `SegExt b b'` — every segment readable in `b`
(`segRecs`) is readable in `b'` under the same id, its records extended, its read limit not lower.
Preserved by every valid raw step (`appendTx` incl. rollover, `sync`).
-/
import SierraModel.Store.ScanStart
import SierraModel.Lemmas.ConcBase
import SierraModel.Lemmas.ScanSeg

set_option linter.unusedSimpArgs false
set_option linter.unusedVariables false

namespace SierraModel.Store
open SierraModel.Version

def SegExt (b b' : Bucket) : Prop :=
  ∀ id recs limit, segRecs b id = some (recs, limit) →
    ∃ recs' limit', segRecs b' id = some (recs', limit') ∧ recs <+: recs' ∧ limit ≤ limit'

theorem SegExt.refl (b : Bucket) : SegExt b b :=
  fun _ recs limit h => ⟨recs, limit, h, List.prefix_refl _, Nat.le_refl _⟩

theorem SegExt.trans {b1 b2 b3 : Bucket} (h12 : SegExt b1 b2) (h23 : SegExt b2 b3) : SegExt b1 b3 := by
  intro id recs limit h
  obtain ⟨r2, l2, e2, p2, le2⟩ := h12 id recs limit h
  obtain ⟨r3, l3, e3, p3, le3⟩ := h23 id r2 l2 e2
  exact ⟨r3, l3, e3, p2.trans p3, Nat.le_trans le2 le3⟩

theorem segRecs_live_ss (b : Bucket) : segRecs b b.live.id = some (b.live.recs, b.live.durable) := by
  simp [segRecs]

/-- a sealed segment found under `id` has that id, below the live id -/
theorem segRecs_sealed_ss {b : Bucket} (h : Inv b) {id : Nat} (hne : id ≠ b.live.id) {recs : List Placed}
    {limit : Nat} (hs : segRecs b id = some (recs, limit)) :
    ∃ s, b.sealed.find? (·.id == id) = some s ∧ s ∈ b.sealed ∧ s.recs = recs ∧ endMax s.recs = limit ∧
      id < b.live.id := by
  unfold segRecs at hs
  have hb : (id == b.live.id) = false := by simpa using hne
  simp only [hb, Bool.false_eq_true, if_false] at hs
  cases hf : b.sealed.find? (·.id == id) with
  | none => rw [hf] at hs; cases hs
  | some s =>
    rw [hf] at hs
    simp only [Option.map_some, Option.some.injEq, Prod.mk.injEq] at hs
    have hm := List.mem_of_find?_eq_some hf
    have hid : s.id = id := by simpa using List.find?_some hf
    refine ⟨s, rfl, hm, hs.1, hs.2, ?_⟩
    have : s.id ∈ b.sealed.map (·.id) := List.mem_map.2 ⟨s, hm, rfl⟩
    rw [h.ids.1, List.mem_range] at this
    rw [h.ids.2, ← hid]; exact this

theorem segRecs_contig {b : Bucket} (h : Inv b) {id : Nat} {recs : List Placed} {limit : Nat}
    (hs : segRecs b id = some (recs, limit)) : Contig SEGMENT_HEADER_SIZE recs := by
  by_cases hid : id = b.live.id
  · subst hid; rw [segRecs_live_ss] at hs
    injection hs with hs; injection hs with h1 _; subst h1; exact h.live_contig
  · obtain ⟨s, _, hm, hr, _⟩ := segRecs_sealed_ss h hid hs
    rw [← hr]; exact (h.sealed_ok s hm).1

theorem segExt_sync {b : Bucket} (h : Inv b) : SegExt b b.sync := by
  intro id recs limit hs
  by_cases hid : id = b.live.id
  · subst hid; rw [segRecs_live_ss] at hs
    injection hs with hs; injection hs with h1 h2; subst h1 h2
    exact ⟨_, _, segRecs_live_ss b.sync, List.prefix_refl _, h.durable_le⟩
  · refine ⟨recs, limit, ?_, List.prefix_refl _, Nat.le_refl _⟩
    have hb : (id == b.live.id) = false := by simpa using hid
    unfold segRecs at hs ⊢
    simpa [Bucket.sync, hb] using hs

theorem segExt_commitTx (b1 : Bucket) (tx : Tx) (vs : List Nat) : SegExt b1 (b1.commitTx tx vs) := by
  intro id recs limit hs
  by_cases hid : id = b1.live.id
  · subst hid; rw [segRecs_live_ss] at hs
    injection hs with hs; injection hs with h1 h2; subst h1 h2
    exact ⟨_, _, segRecs_live_ss (b1.commitTx tx vs), List.prefix_append _ _, Nat.le_refl _⟩
  · refine ⟨recs, limit, ?_, List.prefix_refl _, Nat.le_refl _⟩
    have hb : (id == b1.live.id) = false := by simpa using hid
    unfold segRecs at hs ⊢
    simpa [Bucket.commitTx, hb] using hs

theorem endMax_ge_endFrom {s : Nat} {recs : List Placed} (hc : Contig s recs) (hne : recs ≠ []) :
    endFrom s recs ≤ endMax recs := by
  obtain ⟨p, hp, he⟩ := contig_last s recs hc hne
  have := (foldl_max_ge recs 0).2 p hp
  unfold endMax; omega

theorem segExt_rollover {b : Bucket} (h : Inv b) (hw : b.live.writeOff > SEGMENT_HEADER_SIZE) :
    SegExt b b.rollover := by
  intro id recs limit hs
  have hnone : b.sealed.find? (·.id == b.live.id) = none := by
    rw [List.find?_eq_none]
    intro s hm hh
    have : s.id ∈ b.sealed.map (·.id) := List.mem_map.2 ⟨s, hm, rfl⟩
    rw [h.ids.1, List.mem_range, ← h.ids.2] at this
    simp at hh; omega
  by_cases hid : id = b.live.id
  · subst hid; rw [segRecs_live_ss] at hs
    injection hs with hs; injection hs with h1 h2; subst h1 h2
    refine ⟨b.live.recs, endMax b.live.recs, ?_, List.prefix_refl _, ?_⟩
    · unfold segRecs
      simp [Bucket.rollover, Bucket.sync, List.find?_append, hnone, endMax]
    · have hne : b.live.recs ≠ [] := by
        intro hn
        have := h.writeOff_eq; rw [hn, endFrom_nil] at this; omega
      exact Nat.le_trans h.durable_le (by rw [h.writeOff_eq]; exact endMax_ge_endFrom h.live_contig hne)
  · obtain ⟨s, hf, hm, hr, hl, hlt⟩ := segRecs_sealed_ss h hid hs
    refine ⟨recs, limit, ?_, List.prefix_refl _, Nat.le_refl _⟩
    have hb : (id == b.live.id + 1) = false := by simp; omega
    unfold segRecs
    simp [Bucket.rollover, Bucket.sync, hb, List.find?_append, hf, hr, ← hl, endMax]

theorem segExt_preRoll {b : Bucket} (h : Inv b) (tx : Tx) : SegExt b (b.preRoll tx) := by
  rcases preRoll_cases b tx with e | ⟨e, hw, _⟩ <;> rw [e]
  · exact SegExt.refl b
  · exact segExt_rollover h hw

theorem segExt_rawStep {b : Bucket} (h : Inv b) {op : RawOp} (ok : RawOpOk b op) :
    SegExt b (b.rawStep op) := by
  cases op with
  | sync => exact segExt_sync h
  | appendTx tx =>
    show SegExt b (b.appendTx tx).1
    rcases appendTx_cases h ok with ⟨e, he⟩ | ⟨e, he⟩ | ⟨vs, _, _, _, he⟩ <;> rw [he]
    · exact SegExt.refl b
    · exact segExt_preRoll h tx
    · exact (segExt_preRoll h tx).trans (segExt_commitTx _ tx vs)

theorem segExt_rawRun : ∀ (ops : List RawOp) (b : Bucket), Inv b → RawRunOk b ops → SegExt b (b.rawRun ops)
  | [], b, _, _ => SegExt.refl b
  | op :: ops, b, h, ⟨a, r⟩ =>
    (segExt_rawStep h a).trans (segExt_rawRun ops _ (inv_rawStep h a) r)

end SierraModel.Store
