/-
The atomic scan-start snapshot: each of its offsets is an event record of the key inside a complete
block of the published prefix of the live segment (`OffAt`); this survives every extension of the
segment (`offAt_ext`), with the same `readCommitted` result.
-/
import SierraModel.Lemmas.ScanStart

set_option linter.unusedSimpArgs false
set_option linter.unusedVariables false

namespace SierraModel.Store
open SierraModel.Version

/-- offset `o` is an event record of the key, inside a complete block that ends at or below `limit` -/
def OffAt (recs : List Placed) (limit : Nat) (c : ScanCfg) (o : Nat) : Prop :=
  ∃ P1 b1 p b2 rest e, recs = P1 ++ (b1 ++ p :: b2) ++ rest ∧ Block (b1 ++ p :: b2) ∧ p.r = .ev e ∧
    p.off = o ∧ c.sel (entryOf e o) = true ∧ endFrom SEGMENT_HEADER_SIZE (P1 ++ (b1 ++ p :: b2)) ≤ limit

theorem contig_off_inj : ∀ (s : Nat) (l : List Placed), Contig s l →
    ∀ p ∈ l, ∀ q ∈ l, p.off = q.off → p = q
  | _, [], _, p, hp, _, _, _ => by simp at hp
  | s, a :: l, h, p, hp, q, hq, he => by
    obtain ⟨h1, h2, h3⟩ := h
    rcases List.mem_cons.1 hp with hp1 | hp1 <;> rcases List.mem_cons.1 hq with hq1 | hq1
    · exact hp1.trans hq1.symm
    · subst hp1; have := (contig_mem _ _ h3 q hq1).1; omega
    · subst hq1; have := (contig_mem _ _ h3 p hp1).1; omega
    · exact contig_off_inj _ l h3 p hp1 q hq1 he

/-- the snapshot's offsets in the live segment -/
theorem snap_offAt {b : Bucket} (h : Inv b) {c : ScanCfg} {id : Nat} {offs : List Nat}
    (hs : snapAtomic b c = some (id, offs)) :
    id = b.live.id ∧ ∀ o ∈ offs, OffAt b.live.recs b.live.durable c o := by
  obtain ⟨pre, post, hrec, hpre, _, hidx, _, hdur⟩ := h.live_split
  unfold snapAtomic at hs
  rw [hidx, keyInfo_hydrate] at hs
  cases hk : keyOffs c pre with
  | nil => rw [hk] at hs; cases hs
  | cons x xs =>
    rw [hk] at hs
    simp only [Option.map_some, Option.some.injEq, Prod.mk.injEq] at hs
    obtain ⟨rfl, rfl⟩ := hs
    refine ⟨rfl, ?_⟩
    intro o ho
    obtain ⟨y, hy, rfl⟩ := List.mem_map.1 ho
    rw [← hk] at hy
    obtain ⟨p, hp, hpr, hpo⟩ := mem_evOffs (keyOffs_sub c pre hy)
    have hm := keyOffs_mine c pre hy
    obtain ⟨P1, b1, b2, P2, e, hblk, _⟩ := hpre.split_mem hp
    refine ⟨P1, b1, p, b2, P2 ++ post, y.1, by rw [hrec, e]; simp, hblk, hpr, hpo, hm, ?_⟩
    rw [hdur, e, endFrom_append _ _ P2]; exact le_endFrom _ _

/-- what `OffAt` says about the record and the read at that offset -/
theorem OffAt.read {recs : List Placed} {limit : Nat} {c : ScanCfg} {o : Nat}
    (h : OffAt recs limit c o) (hc : Contig SEGMENT_HEADER_SIZE recs) :
    (∃ p ∈ recs, p.off = o ∧ isKeyRec c p = true ∧ p.off + p.size ≤ limit) ∧
    ∃ e rest, readCommitted recs limit o = some ((e, o) :: rest) ∧ c.sel (entryOf e o) = true := by
  obtain ⟨P1, b1, p, b2, rest, e, rfl, hblk, hpr, rfl, hsel, hl⟩ := h
  constructor
  · refine ⟨p, by simp, rfl, by simp [isKeyRec, hpr, hsel], ?_⟩
    have hc1 := ((contig_append _ _ rest).1 hc).1
    have := (contig_mem _ _ hc1 p (by simp)).2.2
    omega
  · refine ⟨e, evOffs b2, ?_, hsel⟩
    rw [readCommitted_at hc hblk hpr limit hl, evOffs_cons_ev p b2 e hpr]

/-- extension of the segment keeps the offset, the record and the read -/
theorem OffAt.ext {recs recs' : List Placed} {limit limit' : Nat} {c : ScanCfg} {o : Nat}
    (h : OffAt recs limit c o) (hp : recs <+: recs') (hl : limit ≤ limit')
    (hc : Contig SEGMENT_HEADER_SIZE recs') :
    OffAt recs' limit' c o ∧ readCommitted recs' limit' o = readCommitted recs limit o := by
  obtain ⟨ext, rfl⟩ := hp
  obtain ⟨P1, b1, p, b2, rest, e, rfl, hblk, hpr, rfl, hsel, hle⟩ := h
  have e' : P1 ++ (b1 ++ p :: b2) ++ rest ++ ext = P1 ++ (b1 ++ p :: b2) ++ (rest ++ ext) := by simp
  have hc0 := ((contig_append _ _ ext).1 hc).1
  refine ⟨⟨P1, b1, p, b2, rest ++ ext, e, e', hblk, hpr, rfl, hsel, Nat.le_trans hle hl⟩, ?_⟩
  rw [readCommitted_at hc0 hblk hpr limit hle]
  rw [e'] at hc ⊢
  exact readCommitted_at hc hblk hpr limit' (Nat.le_trans hle hl)

/-- (2) for a bucket satisfying the invariant -/
theorem snapshot_consistent_inv {b : Bucket} (h : Inv b) {c : ScanCfg} {id : Nat} {offs : List Nat}
    (hs : snapAtomic b c = some (id, offs)) :
    ∃ recs limit, segRecs b id = some (recs, limit) ∧ OffsetsIn recs c offs ∧
      (∀ p ∈ recs, p.off ∈ offs → p.off + p.size ≤ limit) ∧
      ∀ o ∈ offs, ∃ e rest, readCommitted recs limit o = some ((e, o) :: rest) ∧
        c.sel (entryOf e o) = true := by
  obtain ⟨rfl, hat⟩ := snap_offAt h hs
  refine ⟨_, _, segRecs_live_ss b, ?_, ?_, ?_⟩
  · intro o ho
    obtain ⟨⟨p, hp, h1, h2, _⟩, _⟩ := (hat o ho).read h.live_contig
    exact ⟨p, hp, h1, h2⟩
  · intro q hq ho
    obtain ⟨⟨p, hp, h1, _, h3⟩, _⟩ := (hat _ ho).read h.live_contig
    rw [contig_off_inj _ _ h.live_contig q hq p hp h1.symm]; exact h3
  · intro o ho
    exact ((hat o ho).read h.live_contig).2

/-- (3) for a bucket satisfying the invariant -/
theorem snapshot_stable_inv {b : Bucket} (h : Inv b) {c : ScanCfg} {id : Nat} {offs : List Nat}
    {recs : List Placed} {limit : Nat} (hs : snapAtomic b c = some (id, offs))
    (hseg : segRecs b id = some (recs, limit)) (ops : List RawOp) (hok : RawRunOk b ops) :
    ∃ recs' limit', segRecs (b.rawRun ops) id = some (recs', limit') ∧ recs <+: recs' ∧ limit ≤ limit' ∧
      OffsetsIn recs' c offs ∧
      (∀ p ∈ recs', p.off ∈ offs → p ∈ recs ∧ p.off + p.size ≤ limit) ∧
      ∀ o ∈ offs, readCommitted recs' limit' o = readCommitted recs limit o := by
  obtain ⟨rfl, hat⟩ := snap_offAt h hs
  rw [segRecs_live_ss] at hseg
  injection hseg with hseg; injection hseg with h1 h2; subst h1 h2
  obtain ⟨recs', limit', hs', hpre, hle⟩ := segExt_rawRun ops b h hok _ _ _ (segRecs_live_ss b)
  have hc' := segRecs_contig (inv_rawRun ops b h hok) hs'
  refine ⟨recs', limit', hs', hpre, hle, ?_, ?_, ?_⟩
  · intro o ho
    obtain ⟨⟨p, hp, h1, h2, _⟩, _⟩ := ((hat o ho).ext hpre hle hc').1.read hc'
    exact ⟨p, hp, h1, h2⟩
  · intro q hq ho
    obtain ⟨⟨p, hp, h1, _, h3⟩, _⟩ := (hat _ ho).read h.live_contig
    have hp' : p ∈ recs' := hpre.subset hp
    rw [contig_off_inj _ _ hc' q hq p hp' h1.symm]; exact ⟨hp, h3⟩
  · intro o ho
    exact ((hat o ho).ext hpre hle hc').2

end SierraModel.Store
