/-
A concrete raw history for the scan-start examples (C15): segment size 300, stored size 100.
`ops1`: an event of stream 9 at offset 48 and an event of stream 7 at offset 148 of segment 0,
synced (state `b1`).  `ops2`: a further append to stream 7 — it rolls the segment over and lands at
offset 48 of segment 1 — and a sync (state `b2`).
-/
import SierraModel.Lemmas.ScanStart2
import SierraModel.Lemmas.StoreNumExport

namespace SierraModel.Store.ScanStartEx
open SierraModel.Version

def mkTx (txId eid stream : Nat) : Tx :=
  { pkey := 1, pid := 5, txId := txId, expectedSeq := .any,
    events := [{ eid := eid, stream := stream, expected := .any, tsOk := true, estimate := 100, stored := 100 }] }

def ops1 : List RawOp := [.appendTx (mkTx 1000 1 9), .appendTx (mkTx 1001 2 7), .sync]
def ops2 : List RawOp := [.appendTx (mkTx 1002 3 7), .sync]

def b0 : Bucket := Bucket.new 300 false
def b1 : Bucket := b0.rawRun ops1
def b2 : Bucket := b1.rawRun ops2

/-- scan of stream 7 -/
def cfg : ScanCfg := { isStream := true, key := 7 }

theorem b1_reachable : RawReachable b1 := ⟨300, false, ops1, by decide +kernel, rfl⟩

end SierraModel.Store.ScanStartEx
