/-
What `Inv` / `Synced` give the scan: every segment is well-formed (`SegOk`), `segRecs` finds it,
and `liveKey` / `sealedKey` in terms of `K` / `cnt`.
-/
import SierraModel.Lemmas.ScanBucket

set_option linter.unusedSimpArgs false
set_option linter.unusedVariables false

namespace SierraModel.Store
open SierraModel.Version

variable {b : Bucket} {c : ScanCfg}

theorem find_id : ∀ (l : List Sealed) (k j : Nat) (s : Sealed), l.map (·.id) = List.range' k l.length →
    l[j]? = some s → l.find? (·.id == k + j) = some s
  | [], _, _, _, _, h => by simp at h
  | a :: l, k, j, s, hid, h => by
    simp only [List.map_cons, List.length_cons, List.range'_succ, List.cons.injEq] at hid
    cases j with
    | zero =>
      simp only [List.getElem?_cons_zero, Option.some.injEq] at h
      subst h; simp [List.find?_cons, hid.1]
    | succ j =>
      simp only [List.getElem?_cons_succ] at h
      have := find_id l (k + 1) j s hid.2 h
      have hne : (a.id == k + (j + 1)) = false := by rw [hid.1]; simp
      rw [List.find?_cons, hne]
      rw [show k + (j + 1) = k + 1 + j by omega]; exact this

theorem sealed_id (h : Inv b) {j : Nat} {s : Sealed} (hj : b.sealed[j]? = some s) : s.id = j := by
  have h1 : (b.sealed.map (·.id))[j]? = some s.id := by rw [List.getElem?_map, hj]; rfl
  have hlt : j < b.sealed.length := by
    rcases Nat.lt_or_ge j b.sealed.length with h | h
    · exact h
    · rw [List.getElem?_eq_none h] at hj; cases hj
  rw [h.ids.1, List.getElem?_range hlt] at h1
  exact (Option.some.inj h1).symm

theorem keepOk_of (hp : TxPidOk b.abs) (recs : List Placed) (hsub : ∀ t ∈ committedOf recs, t ∈ b.abs.txs) :
    KeepOk c recs := by
  intro t ht ⟨e, he, hm⟩ e' he'
  cases hc : c.isStream with
  | true => simp [ScanCfg.keep, ScanCfg.mine, hc]
  | false =>
    have := hp t (hsub t ht) e he e' he'
    simp only [ScanCfg.mine, hc, Bool.false_eq_true, if_false, beq_iff_eq] at hm
    simp [ScanCfg.keep, ScanCfg.mine, hc, ← this, hm]

theorem segOk_sealed (h : Inv b) (hp : TxPidOk b.abs) {j : Nat} {s : Sealed} (hj : b.sealed[j]? = some s) :
    SegOk c SEGMENT_HEADER_SIZE (s.recs.foldl (fun a p => max a (p.off + p.size)) 0) s.recs := by
  have hmem : s ∈ b.sealed := List.mem_of_getElem? hj
  obtain ⟨h1, h2, _, h4⟩ := h.sealed_ok s hmem
  refine ⟨h1, h2, ?_, keepOk_of hp _ ?_⟩
  · obtain ⟨q, hq, hq2⟩ := contig_last _ _ h1 h4
    rw [← hq2]; exact (foldl_max_ge s.recs 0).2 q hq
  · intro t ht
    unfold Bucket.abs
    simp only [List.mem_append, List.mem_flatten, List.mem_map]
    exact Or.inl ⟨_, ⟨s, hmem, rfl⟩, ht⟩

theorem segOk_live (h : Inv b) (hs : Synced b) (hp : TxPidOk b.abs) :
    SegOk c SEGMENT_HEADER_SIZE b.live.durable b.live.recs := by
  refine ⟨h.live_contig, h.live_blocks, ?_, keepOk_of hp _ ?_⟩
  · rw [hs.2.1, h.writeOff_eq]; exact Nat.le_refl _
  · intro t ht
    unfold Bucket.abs
    simp only [List.mem_append]
    exact Or.inr ht

theorem segRecs_sealed (h : Inv b) {j : Nat} {s : Sealed} (hj : b.sealed[j]? = some s) :
    segRecs b j = some (s.recs, s.recs.foldl (fun a p => max a (p.off + p.size)) 0) := by
  have hlt : j < b.sealed.length := by
    rcases Nat.lt_or_ge j b.sealed.length with h | h
    · exact h
    · rw [List.getElem?_eq_none h] at hj; cases hj
  have hne : (j == b.live.id) = false := by rw [h.ids.2]; simp; omega
  have hf := find_id b.sealed 0 j s (by rw [h.ids.1, List.range_eq_range']) hj
  rw [Nat.zero_add] at hf
  simp only [segRecs, hne, Bool.false_eq_true, if_false, hf, Option.map_some]

theorem segRecs_live (h : Inv b) : segRecs b b.sealed.length = some (b.live.recs, b.live.durable) := by
  simp [segRecs, h.ids.2]

end SierraModel.Store
