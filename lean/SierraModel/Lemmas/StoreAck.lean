/-
C01 lemmas: an acknowledged transaction's block stays in place and every one of its events is found
by event lookup in every later state.
-/
import SierraModel.Lemmas.StoreLookupAt

set_option linter.unusedSimpArgs false
set_option linter.unusedVariables false

namespace SierraModel.Store
open SierraModel.Version

theorem hasBlock_step {b : Bucket} {pre blk : List Placed} (hb : HasBlock b pre blk) (h : Inv b)
    {op : Op} (ok : OpOk b op) : HasBlock (b.step op) pre blk := by
  cases op with
  | flushPoll => exact hasBlock_sync hb
  | append tx =>
    obtain ⟨x, hres, e⟩ := clientAppend_res h ok
    show HasBlock (b.clientAppend tx).1 pre blk
    rw [e]
    cases hres with
    | invalid e _ => exact hb
    | tooLarge vs _ _ _ => exact hb
    | wrongSeq vs _ _ => exact hasBlock_preRoll hb tx
    | noSpace vs e _ _ _ _ => exact hasBlock_preRoll hb tx
    | badTs vs _ _ _ => exact hasBlock_preRoll hb tx
    | ok vs _ _ _ _ _ => exact hasBlock_sync (hasBlock_commitTx (hasBlock_preRoll hb tx) tx vs)

theorem hasBlock_run {pre blk : List Placed} : ∀ (ops : List Op) (b : Bucket), HasBlock b pre blk →
    Inv b → RunOk b ops → HasBlock (b.run ops) pre blk
  | [], _, hb, _, _ => hb
  | op :: ops, b, hb, h, ⟨a, r⟩ => hasBlock_run ops _ (hasBlock_step hb h a) (inv_step h a) r

theorem Inv.segs_contig {b : Bucket} (h : Inv b) : ∀ recs ∈ b.segs, Contig SEGMENT_HEADER_SIZE recs := by
  intro recs hr
  simp only [Bucket.segs, List.mem_append, List.mem_map, List.mem_singleton] at hr
  rcases hr with ⟨s, hs, rfl⟩ | rfl
  · exact (h.sealed_ok s hs).1
  · exact h.live_contig

/-- event lookup at an event of a block that is in place -/
theorem readTransaction_at {b : Bucket} (h : Inv b) (hs : Synced b) {pre b1 b2 : List Placed}
    {p : Placed} {e : Ev} (hb : HasBlock b pre (b1 ++ p :: b2)) (hblk : Block (b1 ++ p :: b2))
    (he : p.r = .ev e) : b.readTransaction e.eid = some (evOffs (p :: b2)) := by
  obtain ⟨S1, S2, post, hsegs⟩ := hb
  rw [readTransaction_eq h hs, hsegs]
  have hc : Contig SEGMENT_HEADER_SIZE (pre ++ (b1 ++ p :: b2) ++ post) :=
    h.segs_contig _ (by rw [hsegs]; simp)
  refine readTx_at hc hblk he ?_
  rw [← hsegs, ← allRecs_eq_segs, ← h.abs_events]
  exact h.eid_nodup

section mk
variable (pkey pid txId : Nat) (single : Bool)

theorem mkPlaced_all_ev : ∀ (es : List NewEv) (vs : List Nat) (off seq : Nat),
    ∀ p ∈ mkPlaced pkey pid txId single es vs off seq, ∃ e, p.r = .ev e
  | [], _, _, _ => by simp [mkPlaced]
  | e :: es, [], _, _ => by simp [mkPlaced]
  | e :: es, v :: vs, off, seq => by
    intro p hp
    simp only [mkPlaced, List.mem_cons] at hp
    rcases hp with rfl | hp
    · exact ⟨_, rfl⟩
    · exact mkPlaced_all_ev es vs _ _ p hp

theorem mkPlaced_get : ∀ (es : List NewEv) (vs : List Nat) (off seq i : Nat) (hi : i < es.length),
    es.length = vs.length →
    ∃ p v s, (mkPlaced pkey pid txId single es vs off seq)[i]? = some p ∧
      p.r = .ev (mkEv pkey pid txId single es[i] v s)
  | [], _, _, _, _, hi, _ => by simp at hi
  | e :: es, [], _, _, _, _, hl => by simp at hl
  | e :: es, v :: vs, off, seq, 0, _, _ => by
    refine ⟨{ off := off, size := e.stored, r := .ev (mkEv pkey pid txId single e v seq) }, v, seq, ?_, rfl⟩
    simp [mkPlaced]
  | e :: es, v :: vs, off, seq, i + 1, hi, hl => by
    obtain ⟨p, v', s, h1, h2⟩ := mkPlaced_get es vs (off + e.stored) (seq + 1) i
      (by simpa using hi) (by simpa using hl)
    exact ⟨p, v', s, by simpa [mkPlaced] using h1, by simpa using h2⟩

end mk

theorem evOffs_length_of_all_ev : ∀ (l : List Placed), (∀ p ∈ l, ∃ e, p.r = .ev e) →
    (evOffs l).length = l.length
  | [], _ => rfl
  | p :: ps, h => by
    obtain ⟨e, he⟩ := h p (by simp)
    rw [evOffs_cons_ev p ps e he]
    simp [evOffs_length_of_all_ev ps (fun q hq => h q (by simp [hq]))]

theorem zip_fst_snd {α β : Type} : ∀ (l : List (α × β)), (l.map (·.1)).zip (l.map (·.2)) = l
  | [] => rfl
  | x :: xs => by simp [zip_fst_snd xs]

/-- the block of a transaction, split at its `i`-th event -/
theorem txBlock_split (b1 : Bucket) (tx : Tx) (vs : List Nat) (hlen : tx.events.length = vs.length)
    (i : Nat) (hi : i < tx.events.length) :
    ∃ c1 p c2 e, b1.txBlock tx vs = c1 ++ p :: c2 ∧ p.r = .ev e ∧ e.eid = (tx.events[i]).eid ∧
      evOffs (p :: c2) = (evOffs (b1.txPlaced tx vs)).drop i := by
  obtain ⟨p, v, s, hget, hp⟩ := mkPlaced_get tx.pkey tx.pid tx.txId tx.single tx.events vs
    b1.live.writeOff (b1.nextPartSeq tx.pid) i hi hlen
  have hlt : i < (b1.txPlaced tx vs).length := by
    unfold Bucket.txPlaced; rw [mkPlaced_length _ _ _ _ _ _ _ _ hlen]; exact hi
  have hpi : (b1.txPlaced tx vs)[i] = p := by
    have : (b1.txPlaced tx vs)[i]? = some p := hget
    rw [List.getElem?_eq_getElem hlt] at this
    exact Option.some.inj this
  have hsplit : b1.txPlaced tx vs = (b1.txPlaced tx vs).take i ++ p :: (b1.txPlaced tx vs).drop (i + 1) := by
    conv => lhs; rw [← List.take_append_drop i (b1.txPlaced tx vs)]
    rw [List.drop_eq_getElem_cons hlt, hpi]
  have hall : ∀ q ∈ b1.txPlaced tx vs, ∃ e, q.r = .ev e :=
    mkPlaced_all_ev tx.pkey tx.pid tx.txId tx.single tx.events vs b1.live.writeOff (b1.nextPartSeq tx.pid)
  have htake : (evOffs ((b1.txPlaced tx vs).take i)).length = i := by
    rw [evOffs_length_of_all_ev _ (fun q hq => hall q (List.mem_of_mem_take hq))]
    rw [List.length_take]; omega
  have hdrop : ∀ rest, evOffs (p :: ((b1.txPlaced tx vs).drop (i + 1) ++ rest))
      = (evOffs (b1.txPlaced tx vs ++ rest)).drop i := by
    intro rest
    conv => rhs; rw [hsplit]
    rw [List.append_assoc, evOffs_append, List.drop_left' htake]
    simp
  unfold Bucket.txBlock
  split
  · refine ⟨_, p, _, _, hsplit, hp, rfl, ?_⟩
    have := hdrop []
    simpa using this
  · refine ⟨(b1.txPlaced tx vs).take i, p, (b1.txPlaced tx vs).drop (i + 1) ++
        [{ off := b1.live.writeOff + storedSum tx.events, size := COMMIT_SIZE, r := .commit tx.txId tx.events.length }],
      _, ?_, hp, rfl, ?_⟩
    · conv => lhs; rw [hsplit]
      simp
    · rw [hdrop, evOffs_append, evOffs_cons_commit _ [] _ _ rfl, evOffs_nil, List.append_nil]

end SierraModel.Store
