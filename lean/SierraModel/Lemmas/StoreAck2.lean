/-
C01 lemmas (continued): acknowledged ⇒ fsynced + published; lookup of acknowledged events; the raw
(`appendTx` / `sync`) history for the ack rule.
-/
import SierraModel.Lemmas.StoreAck

set_option linter.unusedSimpArgs false
set_option linter.unusedVariables false

namespace SierraModel.Store
open SierraModel.Version

/-! ### raw history: appends without the client's wait, explicit syncs -/

inductive RawOp where
  | appendTx (tx : Tx)
  | sync

def Bucket.rawStep (b : Bucket) : RawOp → Bucket
  | .appendTx tx => (b.appendTx tx).1
  | .sync => b.sync

def Bucket.rawRun (b : Bucket) : List RawOp → Bucket
  | [] => b
  | op :: ops => (b.rawStep op).rawRun ops

def RawOpOk (b : Bucket) : RawOp → Prop
  | .appendTx tx => TxOk b tx
  | .sync => True

def RawRunOk : Bucket → List RawOp → Prop
  | _, [] => True
  | b, op :: ops => RawOpOk b op ∧ RawRunOk (b.rawStep op) ops

instance (b : Bucket) : (op : RawOp) → Decidable (RawOpOk b op)
  | .appendTx tx => inferInstanceAs (Decidable (TxOk b tx))
  | .sync => inferInstanceAs (Decidable True)

instance RawRunOk.dec : (b : Bucket) → (ops : List RawOp) → Decidable (RawRunOk b ops)
  | _, [] => inferInstanceAs (Decidable True)
  | b, op :: ops => @instDecidableAnd _ _ _ (RawRunOk.dec (b.rawStep op) ops)

theorem inv_rawStep {b : Bucket} (h : Inv b) {op : RawOp} (ok : RawOpOk b op) : Inv (b.rawStep op) := by
  cases op with
  | appendTx tx => exact inv_appendTx h ok
  | sync => exact inv_sync h

theorem inv_rawRun : ∀ (ops : List RawOp) (b : Bucket), Inv b → RawRunOk b ops → Inv (b.rawRun ops)
  | [], _, h, _ => h
  | op :: ops, b, h, ⟨a, r⟩ => inv_rawRun ops _ (inv_rawStep h a) r

/-! ### acknowledged ⇒ fsynced and published -/

theorem mem_hydrate_off {recs : List Placed} {en : Entry} (h : en ∈ hydrate recs) :
    ∃ p ∈ recs, p.off = en.off := by
  unfold hydrate at h
  obtain ⟨p, hp, hh⟩ := List.mem_filterMap.1 h
  refine ⟨p, hp, ?_⟩
  cases hr : p.r with
  | ev e => simp [hr] at hh; subst hh; rfl
  | commit t n => simp [hr] at hh

theorem ack_fsynced {b : Bucket} (h : Inv b) {tx : Tx} (ht : TxOk b tx) {b' : Bucket} {r : AppendOk}
    (hx : b.clientAppend tx = (b', .ok r)) :
    b'.live.durable ≥ r.writeOff ∧ b'.live.pending = [] ∧
    ∀ o ∈ r.offsets, ∃ p ∈ b'.live.recs, p.off = o ∧ p.off + p.size ≤ b'.live.durable := by
  have hi' : Inv b' := by have := inv_clientAppend h ht; rw [hx] at this; exact this
  obtain ⟨vs, _, _, _, _, hb', hr, _⟩ := accepted_spec h ht hx
  refine ⟨?_, ?_, ?_⟩
  · rw [hb', hr]; exact Nat.le_refl _
  · rw [hb']; rfl
  · intro o ho
    rw [hr] at ho
    simp only [okReply, List.mem_map] at ho
    obtain ⟨en, hen, rfl⟩ := ho
    obtain ⟨p, hp, hoff⟩ := mem_hydrate_off hen
    have hmem : p ∈ b'.live.recs := by
      rw [hb']
      show p ∈ (b.preRoll tx).live.recs ++ (b.preRoll tx).txBlock tx vs
      apply List.mem_append_right
      unfold Bucket.txBlock
      split
      · exact hp
      · exact List.mem_append_left _ hp
    refine ⟨p, hmem, hoff, ?_⟩
    have hd : b'.live.durable = b'.live.writeOff := by rw [hb']; rfl
    rw [hd, hi'.writeOff_eq]
    exact (contig_mem _ _ hi'.live_contig p hmem).2.2

/-! ### lookup of acknowledged events -/

theorem acked_lookup {b : Bucket} (h : Inv b) (hs : Synced b) {tx : Tx} (ht : TxOk b tx) {b' : Bucket}
    {r : AppendOk} (hx : b.clientAppend tx = (b', .ok r)) (ops : List Op) (hok : RunOk b' ops)
    (i : Nat) (hi : i < tx.events.length) :
    ∃ evs, b.abs.append tx = .ok ({ txs := b.abs.txs ++ [evs] }, r.first, r.last) ∧
      evs.length = tx.events.length ∧ r.offsets.length = tx.events.length ∧
      (b'.run ops).readTransaction (tx.events[i]).eid = some ((evs.zip r.offsets).drop i) := by
  have hc' : CInv b' := by
    have h1 := inv_clientAppend h ht; have h2 := synced_clientAppend h hs ht
    rw [hx] at h1 h2; exact ⟨h1, h2⟩
  obtain ⟨vs, _, hlen, happ, _, hb', hr, _⟩ := accepted_spec h ht hx
  have hblock : HasBlock b' (b.preRoll tx).live.recs ((b.preRoll tx).txBlock tx vs) :=
    ⟨(b.preRoll tx).sealed.map (·.recs), [], [], by rw [hb']; simp [Bucket.segs, Bucket.sync, Bucket.commitTx]⟩
  have hrun := hasBlock_run ops b' hblock hc'.1 hok
  have hcr := cinv_run ops b' hc' hok
  obtain ⟨c1, p, c2, e, hsplit, hp, heid, hdrop⟩ := txBlock_split (b.preRoll tx) tx vs hlen.symm i hi
  have hblk := txBlock_block (b.preRoll tx) tx vs ht.1 hlen.symm
  rw [hsplit] at hrun hblk
  have hread := readTransaction_at hcr.1 hcr.2 hrun hblk hp
  have hevs : newEvs b tx vs = (evOffs ((b.preRoll tx).txPlaced tx vs)).map (·.1) := by
    have : evsOf ((b.preRoll tx).txPlaced tx vs) = newEvs b tx vs := by
      unfold Bucket.txPlaced newEvs
      rw [evsOf_mkPlaced, preRoll_nextPartSeq h]
    rw [← this]; rfl
  have hoffs : r.offsets = (evOffs ((b.preRoll tx).txPlaced tx vs)).map (·.2) := by
    rw [hr]; simp only [okReply]
    rw [hydrate_eq, List.map_map]; rfl
  have hl1 : (newEvs b tx vs).length = tx.events.length := by
    unfold newEvs; exact mkEvs_length _ _ _ _ _ _ _ hlen.symm
  refine ⟨newEvs b tx vs, happ, hl1, ?_, ?_⟩
  · rw [hoffs, List.length_map, ← hl1, hevs, List.length_map]
  · rw [← heid, hread, hdrop, hevs, hoffs, zip_fst_snd]

end SierraModel.Store
