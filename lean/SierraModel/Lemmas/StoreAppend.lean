/-
The pieces of `Bucket.appendTx`: `validateVersions` against `Spec.checkEvents`, `writeEvents`,
the records / events an accepted transaction produces (`mkPlaced`, `mkEvs`).
-/
import SierraModel.Lemmas.StoreLayout

set_option linter.unusedSimpArgs false
set_option linter.unusedVariables false

namespace SierraModel.Store
open SierraModel.Version

/-- the version an event gets when the stream's current version is `c` -/
def nextV : Option Nat → Nat
  | some v => v + 1
  | none => 0

theorem filter_of_find_none (seen : List (Nat × Nat)) (st : Nat)
    (h : seen.find? (·.1 == st) = none) : seen.filter (·.1 != st) = seen := by
  rw [List.filter_eq_self]
  intro a ha
  have := List.find?_eq_none.1 h a ha
  simpa [bne] using this

theorem except_map_map {ε α β γ : Type} (f : α → β) (g : β → γ) (x : Except ε α) :
    (x.map f).map g = x.map (g ∘ f) := by cases x <;> rfl

/-- `validate_event_versions` is the specification's per-event check, given that the writer-side
stream lookup agrees with the specification -/
theorem validate_eq_check (b : Bucket) (s : Spec) (pkey : Nat)
    (hL : ∀ st, b.streamLatestW st = s.streamLatest st) :
    ∀ (es : List NewEv) (seen : List (Nat × Nat)),
      (validateVersions b pkey es seen).map (·.map nextV) = s.checkEvents pkey es seen
  | [], seen => rfl
  | e :: es, seen => by
    have ih := validate_eq_check b s pkey hL es
    unfold validateVersions Spec.checkEvents
    cases hf : seen.find? (·.1 == e.stream) with
    | some kv =>
      obtain ⟨k, latest⟩ := kv
      cases hx : e.expected with
      | empty => simp [storeAccepts, Except.map]
      | exact v =>
        by_cases hv : latest = v
        · subst hv
          simp only [storeAccepts, bne_self_eq_false, Bool.false_eq_true, if_false, beq_self_eq_true,
            Bool.not_true, except_map_map]
          rw [← ih]; simp [except_map_map, Function.comp_def, nextV]
        · have : (v == latest) = false := by simp; omega
          simp [storeAccepts, hv, this, Except.map]
      | any =>
        simp only [storeAccepts, Bool.not_true, Bool.false_eq_true, if_false, except_map_map]
        rw [← ih]; simp [except_map_map, Function.comp_def, nextV]
      | exists_ =>
        simp only [storeAccepts, Bool.not_true, Bool.false_eq_true, if_false, except_map_map]
        rw [← ih]; simp [except_map_map, Function.comp_def, nextV]
    | none =>
      rw [hL e.stream, filter_of_find_none seen e.stream hf]
      cases hs : s.streamLatest e.stream with
      | some kv =>
        obtain ⟨k, version⟩ := kv
        by_cases hk : k = pkey
        · subst hk
          cases hx : e.expected with
          | empty => simp [storeAccepts, Except.map]
          | exact v =>
            by_cases hv : version = v
            · subst hv
              simp only [storeAccepts, bne_self_eq_false, Bool.false_eq_true, if_false,
                beq_self_eq_true, Bool.not_true, except_map_map]
              rw [← ih]; simp [except_map_map, Function.comp_def, nextV]
            · have : (v == version) = false := by simp; omega
              simp [storeAccepts, hv, this, Except.map]
          | any =>
            simp only [storeAccepts, bne_self_eq_false, Bool.not_true, Bool.false_eq_true, if_false,
              except_map_map]
            rw [← ih]; simp [except_map_map, Function.comp_def, nextV]
          | exists_ =>
            simp only [storeAccepts, bne_self_eq_false, Bool.not_true, Bool.false_eq_true, if_false,
              except_map_map]
            rw [← ih]; simp [except_map_map, Function.comp_def, nextV]
        · simp [hk, Except.map]
      | none =>
        cases hx : e.expected with
        | empty =>
          simp only [storeAccepts, Bool.not_true, Bool.false_eq_true, if_false, except_map_map]
          rw [← ih]; simp [except_map_map, Function.comp_def, nextV]
        | exact v => simp [storeAccepts, Except.map]
        | any =>
          simp only [storeAccepts, Bool.not_true, Bool.false_eq_true, if_false, except_map_map]
          rw [← ih]; simp [except_map_map, Function.comp_def, nextV]
        | exists_ => simp [storeAccepts, Except.map]

/-! ### the records / events of a transaction -/

def mkEv (pkey pid txId : Nat) (single : Bool) (e : NewEv) (v seq : Nat) : Ev :=
  { eid := e.eid, pkey := pkey, pid := pid, seq := seq, stream := e.stream, version := v, tx := txId,
    single := single }

/-- the events of a transaction with versions `vs`, sequences from `seq` -/
def mkEvs (pkey pid txId : Nat) (single : Bool) : List NewEv → List Nat → Nat → List Ev
  | e :: es, v :: vs, seq => mkEv pkey pid txId single e v seq :: mkEvs pkey pid txId single es vs (seq + 1)
  | _, _, _ => []

/-- the event records of a transaction, laid out from `off` -/
def mkPlaced (pkey pid txId : Nat) (single : Bool) : List NewEv → List Nat → Nat → Nat → List Placed
  | e :: es, v :: vs, off, seq =>
    { off := off, size := e.stored, r := .ev (mkEv pkey pid txId single e v seq) } ::
      mkPlaced pkey pid txId single es vs (off + e.stored) (seq + 1)
  | _, _, _, _ => []

def storedSum (es : List NewEv) : Nat := (es.map (·.stored)).sum

theorem storedSum_cons (e : NewEv) (es : List NewEv) : storedSum (e :: es) = e.stored + storedSum es := by
  simp [storedSum]

theorem writeEvents_ok (pkey pid txId : Nat) (single : Bool) (limit : Nat) :
    ∀ (es : List NewEv) (curs : List (Option Nat)) (off seq : Nat) (acc : List Placed),
      es.length = curs.length → (∀ e ∈ es, e.tsOk = true) → off + storedSum es ≤ limit →
      writeEvents pkey pid txId single limit es curs off seq acc =
        .ok (acc ++ mkPlaced pkey pid txId single es (curs.map nextV) off seq, off + storedSum es,
             seq + es.length)
  | [], curs, off, seq, acc, _, _, _ => by
    cases curs <;> simp [writeEvents, mkPlaced, storedSum]
  | e :: es, [], _, _, _, hl, _, _ => by simp at hl
  | e :: es, c :: curs, off, seq, acc, hl, hts, hfit => by
    have h1 : e.tsOk = true := hts e (by simp)
    rw [storedSum_cons] at hfit
    have h2 : ¬ (off + e.stored > limit) := by omega
    unfold writeEvents
    simp only [h1, Bool.not_true, Bool.false_eq_true, if_false, h2]
    rw [writeEvents_ok pkey pid txId single limit es curs _ _ _ (by simpa using hl)
      (fun x hx => hts x (by simp [hx])) (by omega)]
    simp only [mkPlaced, List.map_cons, storedSum_cons, List.length_cons, mkEv]
    cases c <;> simp [nextV] <;> omega

theorem writeEvents_inv (pkey pid txId : Nat) (single : Bool) (limit : Nat) :
    ∀ (es : List NewEv) (curs : List (Option Nat)) (off seq : Nat) (acc placed : List Placed)
      (off' seq' : Nat),
      writeEvents pkey pid txId single limit es curs off seq acc = .ok (placed, off', seq') →
      (∀ e ∈ es, e.tsOk = true) ∧ (es ≠ [] → off + storedSum es ≤ limit) ∧ es.length ≤ curs.length
  | [], curs, off, seq, acc, _, _, _, _ => by simp
  | e :: es, [], _, _, _, _, _, _, h => by simp [writeEvents] at h
  | e :: es, c :: curs, off, seq, acc, placed, off', seq', h => by
    unfold writeEvents at h
    by_cases h1 : e.tsOk = true
    · by_cases h2 : off + e.stored > limit
      · simp [h1, h2] at h
      · simp only [h1, Bool.not_true, Bool.false_eq_true, if_false, h2] at h
        have ih := writeEvents_inv pkey pid txId single limit es curs _ _ _ _ _ _ h
        refine ⟨?_, ?_, by simpa using ih.2.2⟩
        · intro x hx
          rcases List.mem_cons.1 hx with rfl | hx
          · exact h1
          · exact ih.1 x hx
        · intro _
          rw [storedSum_cons]
          cases es with
          | nil => simp [storedSum]; omega
          | cons x xs => have := ih.2.1 (by simp); omega
    · simp [h1] at h

theorem writeEvents_err (pkey pid txId : Nat) (single : Bool) (limit : Nat) :
    ∀ (es : List NewEv) (curs : List (Option Nat)) (off seq : Nat) (acc : List Placed)
      (err : Err) (part : List Placed), es.length = curs.length →
      writeEvents pkey pid txId single limit es curs off seq acc = .error (err, part) →
      err = .full ∨ (err = .badTimestamp ∧ ∃ e ∈ es, e.tsOk = false)
  | [], curs, off, seq, acc, _, _, _, h => by simp [writeEvents] at h
  | e :: es, [], _, _, _, _, _, hl, _ => by simp at hl
  | e :: es, c :: curs, off, seq, acc, err, part, hl, h => by
    unfold writeEvents at h
    by_cases h1 : e.tsOk = true
    · by_cases h2 : off + e.stored > limit
      · simp [h1, h2] at h; exact Or.inl h.1.symm
      · simp only [h1, Bool.not_true, Bool.false_eq_true, if_false, h2] at h
        rcases writeEvents_err pkey pid txId single limit es curs _ _ _ _ _ (by simpa using hl) h with
          h | ⟨h, x, hx, hx2⟩
        · exact Or.inl h
        · exact Or.inr ⟨h, x, by simp [hx], hx2⟩
    · simp [h1] at h
      exact Or.inr ⟨h.1.symm, e, by simp, by simpa using h1⟩

/-! ### facts about `mkPlaced` / `mkEvs` -/

section mk
variable (pkey pid txId : Nat) (single : Bool)

theorem mkPlaced_length : ∀ (es : List NewEv) (vs : List Nat) (off seq : Nat), es.length = vs.length →
    (mkPlaced pkey pid txId single es vs off seq).length = es.length
  | [], _, _, _, _ => by simp [mkPlaced]
  | e :: es, [], _, _, h => by simp at h
  | e :: es, v :: vs, off, seq, h => by
    simp [mkPlaced, mkPlaced_length es vs _ _ (by simpa using h)]

theorem evsOf_mkPlaced : ∀ (es : List NewEv) (vs : List Nat) (off seq : Nat),
    evsOf (mkPlaced pkey pid txId single es vs off seq) = mkEvs pkey pid txId single es vs seq
  | [], _, _, _ => by simp [mkPlaced, mkEvs, evsOf_nil]
  | e :: es, [], _, _ => by simp [mkPlaced, mkEvs, evsOf_nil]
  | e :: es, v :: vs, off, seq => by
    simp only [mkPlaced, mkEvs]
    rw [evsOf_cons_ev _ _ _ rfl, evsOf_mkPlaced es vs]

theorem mkEvs_length : ∀ (es : List NewEv) (vs : List Nat) (seq : Nat), es.length = vs.length →
    (mkEvs pkey pid txId single es vs seq).length = es.length
  | [], _, _, _ => by simp [mkEvs]
  | e :: es, [], _, h => by simp at h
  | e :: es, v :: vs, seq, h => by simp [mkEvs, mkEvs_length es vs _ (by simpa using h)]

theorem contig_mkPlaced : ∀ (es : List NewEv) (vs : List Nat) (off seq : Nat),
    (∀ e ∈ es, 0 < e.stored) → Contig off (mkPlaced pkey pid txId single es vs off seq)
  | [], _, _, _, _ => by simp [mkPlaced, Contig]
  | e :: es, [], _, _, _ => by simp [mkPlaced, Contig]
  | e :: es, v :: vs, off, seq, h => by
    simp only [mkPlaced, Contig]
    exact ⟨trivial, h e (by simp), contig_mkPlaced es vs _ _ (fun x hx => h x (by simp [hx]))⟩

theorem endFrom_mkPlaced : ∀ (es : List NewEv) (vs : List Nat) (off seq : Nat), es.length = vs.length →
    endFrom off (mkPlaced pkey pid txId single es vs off seq) = off + storedSum es
  | [], _, _, _, _ => by simp [mkPlaced, endFrom_nil, storedSum]
  | e :: es, [], _, _, h => by simp at h
  | e :: es, v :: vs, off, seq, h => by
    simp only [mkPlaced, endFrom_cons, storedSum_cons]
    rw [endFrom_mkPlaced es vs _ _ (by simpa using h)]; omega

theorem mkPlaced_isEvOf (hs : single = false) : ∀ (es : List NewEv) (vs : List Nat) (off seq : Nat),
    ∀ p ∈ mkPlaced pkey pid txId single es vs off seq, IsEvOf txId p
  | [], _, _, _ => by simp [mkPlaced]
  | e :: es, [], _, _ => by simp [mkPlaced]
  | e :: es, v :: vs, off, seq => by
    intro p hp
    simp only [mkPlaced, List.mem_cons] at hp
    rcases hp with rfl | hp
    · exact ⟨_, rfl, by simp [mkEv, hs], by simp [mkEv]⟩
    · exact mkPlaced_isEvOf hs es vs _ _ p hp

end mk

/-- the records an accepted transaction appends form one complete block -/
theorem block_of_tx (pkey pid txId : Nat) (es : List NewEv) (vs : List Nat) (off seq off2 : Nat)
    (hne : es ≠ []) (hl : es.length = vs.length) :
    Block (if (es.length == 1) = true then mkPlaced pkey pid txId (es.length == 1) es vs off seq
      else mkPlaced pkey pid txId (es.length == 1) es vs off seq ++
        [{ off := off2, size := COMMIT_SIZE, r := .commit txId es.length }]) := by
  by_cases h1 : es.length = 1
  · simp only [h1, beq_self_eq_true, if_true]
    match es, vs, h1, hl with
    | [e], [v], _, _ =>
      simp only [mkPlaced]
      exact Block.single _ _ rfl rfl
  · have hb : (es.length == 1) = false := by simpa using h1
    simp only [hb, Bool.false_eq_true, if_false]
    have hlen := mkPlaced_length pkey pid txId false es vs off seq hl
    have := Block.multi (mkPlaced pkey pid txId false es vs off seq)
      { off := off2, size := COMMIT_SIZE, r := .commit txId es.length } txId
      (by rw [hlen]; cases es with
          | nil => exact absurd rfl hne
          | cons a t => cases t with
            | nil => simp at h1
            | cons => simp)
      (mkPlaced_isEvOf pkey pid txId false rfl es vs off seq) (by rw [hlen])
    exact this

end SierraModel.Store
