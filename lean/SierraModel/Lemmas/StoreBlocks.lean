/-
Record lists of one segment: events with offsets (`evOffs`), complete blocks (`Block`, `Blocks`),
layout (`Contig`), and what `hydrate`, `committedOf`, `readCommitted` compute on them.
-/
import SierraModel.Store.Spec

set_option linter.unusedSimpArgs false
set_option linter.unusedVariables false

namespace SierraModel.Store

/-- events of a record list with their offsets -/
def evOffs (recs : List Placed) : List (Ev × Nat) :=
  recs.filterMap (fun p => match p.r with | .ev e => some (e, p.off) | .commit _ _ => none)

/-- events of a record list -/
def evsOf (recs : List Placed) : List Ev := (evOffs recs).map (·.1)

theorem evOffs_nil : evOffs [] = [] := rfl
theorem evOffs_append (a b : List Placed) : evOffs (a ++ b) = evOffs a ++ evOffs b := by
  simp [evOffs, List.filterMap_append]
theorem evsOf_append (a b : List Placed) : evsOf (a ++ b) = evsOf a ++ evsOf b := by
  simp [evsOf, evOffs_append]
theorem evsOf_nil : evsOf [] = [] := rfl

theorem evOffs_cons_ev (p : Placed) (ps : List Placed) (e : Ev) (h : p.r = .ev e) :
    evOffs (p :: ps) = (e, p.off) :: evOffs ps := by
  simp [evOffs, List.filterMap_cons, h]

theorem evOffs_cons_commit (p : Placed) (ps : List Placed) (t n : Nat) (h : p.r = .commit t n) :
    evOffs (p :: ps) = evOffs ps := by
  simp [evOffs, List.filterMap_cons, h]

theorem evsOf_cons_ev (p : Placed) (ps : List Placed) (e : Ev) (h : p.r = .ev e) :
    evsOf (p :: ps) = e :: evsOf ps := by
  simp [evsOf, evOffs_cons_ev p ps e h]

theorem evsOf_cons_commit (p : Placed) (ps : List Placed) (t n : Nat) (h : p.r = .commit t n) :
    evsOf (p :: ps) = evsOf ps := by
  simp [evsOf, evOffs_cons_commit p ps t n h]

theorem hydrate_eq (recs : List Placed) :
    hydrate recs = (evOffs recs).map (fun x => entryOf x.1 x.2) := by
  induction recs with
  | nil => rfl
  | cons p ps ih =>
    cases hr : p.r with
    | ev e => simp [hydrate, evOffs, List.filterMap_cons, hr] at ih ⊢; exact ih
    | commit t n => simp [hydrate, evOffs, List.filterMap_cons, hr] at ih ⊢; exact ih

theorem hydrate_append (a b : List Placed) : hydrate (a ++ b) = hydrate a ++ hydrate b := by
  simp [hydrate, List.filterMap_append]

theorem hydrate_nil : hydrate [] = [] := rfl

/-! ### blocks -/

/-- `p` is an event record of the multi-event transaction `t` -/
def IsEvOf (t : Nat) (p : Placed) : Prop := ∃ e, p.r = .ev e ∧ e.single = false ∧ e.tx = t

/-- a complete block: one flagged event, or ≥ 2 unflagged events of one transaction followed by
its commit record carrying the event count -/
inductive Block : List Placed → Prop
  | single (p : Placed) (e : Ev) : p.r = .ev e → e.single = true → Block [p]
  | multi (ps : List Placed) (c : Placed) (t : Nat) : 2 ≤ ps.length → (∀ p ∈ ps, IsEvOf t p) →
      c.r = .commit t ps.length → Block (ps ++ [c])

/-- a concatenation of complete blocks (no orphans) -/
inductive Blocks : List Placed → Prop
  | nil : Blocks []
  | cons (b rest : List Placed) : Block b → Blocks rest → Blocks (b ++ rest)

theorem Blocks.append {a b : List Placed} (ha : Blocks a) (hb : Blocks b) : Blocks (a ++ b) := by
  induction ha with
  | nil => simpa using hb
  | cons blk rest hblk _ ih => rw [List.append_assoc]; exact Blocks.cons _ _ hblk ih

theorem Blocks.snoc {a blk : List Placed} (ha : Blocks a) (hb : Block blk) : Blocks (a ++ blk) := by
  have := Blocks.append ha (Blocks.cons blk [] hb Blocks.nil)
  simpa using this

theorem evOffs_isEvOf {t : Nat} : ∀ (ps : List Placed), (∀ p ∈ ps, IsEvOf t p) →
    (evOffs ps).length = ps.length
  | [], _ => rfl
  | p :: ps, h => by
    obtain ⟨e, he, _, _⟩ := h p (by simp)
    rw [evOffs_cons_ev p ps e he]
    simp [evOffs_isEvOf ps (fun q hq => h q (by simp [hq]))]

/-! ### `committedOf` on blocks -/

theorem committedAux_evs {t : Nat} (rest : List Placed) (out : List SpecTx) :
    ∀ (ps : List Placed) (acc : List Ev), (∀ p ∈ ps, IsEvOf t p) →
      committedAux (ps ++ rest) (some t) acc out = committedAux rest (some t) (acc ++ evsOf ps) out
  | [], acc, _ => by simp [evsOf_nil]
  | p :: ps, acc, h => by
    obtain ⟨e, he, hs, ht⟩ := h p (by simp)
    have ih := committedAux_evs rest out ps (acc ++ [e]) (fun q hq => h q (by simp [hq]))
    rw [evsOf_cons_ev p ps e he]
    simp only [List.cons_append, committedAux, he, hs, ht]
    simpa using ih

theorem committedAux_block {blk : List Placed} (hb : Block blk) (rest : List Placed) (out : List SpecTx) :
    committedAux (blk ++ rest) none [] out = committedAux rest none [] (out ++ [evsOf blk]) := by
  cases hb with
  | single p e he hs =>
    simp [committedAux, he, hs, evsOf_cons_ev p [] e he, evsOf_nil]
  | multi ps c t hlen hps hc =>
    match ps, hlen, hps with
    | p :: ps, hlen, hps =>
      obtain ⟨e, he, hs, ht⟩ := hps p (by simp)
      have h2 := committedAux_evs (t := t) (c :: rest) out ps [e] (fun q hq => hps q (by simp [hq]))
      have hev : evsOf ((p :: ps) ++ [c]) = e :: evsOf ps := by
        rw [List.cons_append, evsOf_cons_ev p _ e he, evsOf_append, evsOf_cons_commit c [] _ _ hc]
        simp [evsOf_nil]
      rw [hev]
      simp only [List.cons_append, List.append_assoc, committedAux, he, hs, ht]
      simp only [List.singleton_append] at h2
      simp [h2, committedAux, hc]

theorem committedAux_blocks {recs : List Placed} (h : Blocks recs) :
    ∀ (rest : List Placed) (out : List SpecTx), ∃ txs : List SpecTx,
      committedAux (recs ++ rest) none [] out = committedAux rest none [] (out ++ txs) ∧
      txs.flatten = evsOf recs ∧ (∀ t ∈ txs, t ≠ []) := by
  induction h with
  | nil => intro rest out; exact ⟨[], by simp, by simp [evsOf_nil], by simp⟩
  | cons blk more hb _ ih =>
    intro rest out
    obtain ⟨txs, h1, h2, h3⟩ := ih rest (out ++ [evsOf blk])
    refine ⟨evsOf blk :: txs, ?_, ?_, ?_⟩
    · rw [List.append_assoc, committedAux_block hb, h1]; simp
    · simp [h2, evsOf_append]
    · intro t ht
      rcases List.mem_cons.1 ht with rfl | ht
      · cases hb with
        | single p e he hs => simp [evsOf_cons_ev p [] e he]
        | multi ps c t' hlen hps hc =>
          match ps, hlen, hps with
          | p :: ps, _, hps =>
            obtain ⟨e, he, _, _⟩ := hps p (by simp)
            simp [evsOf_cons_ev p _ e he]
      · exact h3 t ht

theorem committedAux_out : ∀ (l : List Placed) (pend : Option Nat) (acc : List Ev) (out : List SpecTx),
    committedAux l pend acc out = out ++ committedAux l pend acc []
  | [], _, _, out => by simp [committedAux]
  | p :: ps, pend, acc, out => by
    cases hr : p.r with
    | ev e =>
      simp only [committedAux, hr]
      split
      · rw [committedAux_out ps none [] (out ++ [[e]]), committedAux_out ps none [] ([] ++ [[e]])]; simp
      · split
        · exact committedAux_out ps _ _ out
        · exact committedAux_out ps _ _ out
    | commit t n =>
      simp only [committedAux, hr]
      split
      · rw [committedAux_out ps none [] (out ++ [acc]), committedAux_out ps none [] ([] ++ [acc])]; simp
      · exact committedAux_out ps _ _ out

theorem committedOf_block_cons {blk : List Placed} (hb : Block blk) (rest : List Placed) :
    committedOf (blk ++ rest) = evsOf blk :: committedOf rest := by
  unfold committedOf
  rw [committedAux_block hb, committedAux_out]; simp

theorem committedOf_nil : committedOf [] = [] := rfl

/-- committed transactions of a well-formed list followed by anything -/
theorem committedOf_blocks_append {recs : List Placed} (h : Blocks recs) (rest : List Placed) :
    committedOf (recs ++ rest) = committedOf recs ++ committedOf rest := by
  induction h with
  | nil => simp [committedOf_nil]
  | cons blk more hb _ ih =>
    rw [List.append_assoc, committedOf_block_cons hb, committedOf_block_cons hb, ih]; simp

theorem committedOf_block {blk : List Placed} (hb : Block blk) : committedOf blk = [evsOf blk] := by
  have := committedOf_block_cons hb []
  simpa [committedOf_nil] using this

theorem committedOf_snoc_block {recs blk : List Placed} (h : Blocks recs) (hb : Block blk) :
    committedOf (recs ++ blk) = committedOf recs ++ [evsOf blk] := by
  rw [committedOf_blocks_append h, committedOf_block hb]

theorem committedOf_flatten {recs : List Placed} (h : Blocks recs) :
    (committedOf recs).flatten = evsOf recs := by
  induction h with
  | nil => rfl
  | cons blk more hb _ ih => rw [committedOf_block_cons hb]; simp [ih, evsOf_append]

theorem evsOf_block_ne_nil {blk : List Placed} (hb : Block blk) : evsOf blk ≠ [] := by
  cases hb with
  | single p e he hs => simp [evsOf_cons_ev p [] e he]
  | multi ps c t' hlen hps hc =>
    match ps, hlen, hps with
    | p :: ps, _, hps =>
      obtain ⟨e, he, _, _⟩ := hps p (by simp)
      simp [evsOf_cons_ev p _ e he]

theorem committedOf_ne_nil {recs : List Placed} (h : Blocks recs) : ∀ t ∈ committedOf recs, t ≠ [] := by
  induction h with
  | nil => simp [committedOf_nil]
  | cons blk more hb _ ih =>
    rw [committedOf_block_cons hb]
    intro t ht
    rcases List.mem_cons.1 ht with rfl | ht
    · exact evsOf_block_ne_nil hb
    · exact ih t ht

/-- the crash state: events of a transaction without commit record are ignored -/
theorem committedAux_tail {t : Nat} (out : List SpecTx) :
    ∀ (ps : List Placed) (pend : Option Nat) (acc : List Ev),
      (∀ p ∈ ps, ∃ e, p.r = .ev e ∧ e.single = false) → committedAux ps pend acc out = out
  | [], _, _, _ => rfl
  | p :: ps, pend, acc, h => by
    obtain ⟨e, he, hs⟩ := h p (by simp)
    simp only [committedAux, he, hs, Bool.false_eq_true, if_false]
    split <;> exact committedAux_tail (t := t) out ps _ _ (fun q hq => h q (by simp [hq]))

end SierraModel.Store
