/-
Lemmas behind C02: accepted / rejected appends against `Spec.append`, latest-version queries.
-/
import SierraModel.Lemmas.StoreRun

set_option linter.unusedSimpArgs false
set_option linter.unusedVariables false

namespace SierraModel.Store
open SierraModel.Version

/-- the events an accepted transaction gets -/
def newEvs (b : Bucket) (tx : Tx) (vs : List Nat) : List Ev :=
  mkEvs tx.pkey tx.pid tx.txId tx.single tx.events vs (b.abs.nextSeq tx.pid)

theorem seqCur_eq (n : Nat) : seqCur n = (if (n == 0) = true then Current.empty else Current.current (n - 1)) := rfl

theorem preRoll_nextPartSeq {b : Bucket} (h : Inv b) (tx : Tx) (pid : Nat) :
    (b.preRoll tx).nextPartSeq pid = b.abs.nextSeq pid := by
  rw [(inv_preRoll h tx).nextPartSeq_eq, abs_preRoll]

/-- everything about an accepted client append -/
theorem accepted_spec {b : Bucket} (h : Inv b) {tx : Tx} (ht : TxOk b tx) {b' : Bucket} {r : AppendOk}
    (hx : b.clientAppend tx = (b', .ok r)) :
    ∃ vs, b.abs.checkEvents tx.pkey tx.events [] = .ok vs ∧ vs.length = tx.events.length ∧
      b.abs.append tx = .ok ({ txs := b.abs.txs ++ [newEvs b tx vs] }, r.first, r.last) ∧
      b'.abs = { txs := b.abs.txs ++ [newEvs b tx vs] } ∧
      b' = ((b.preRoll tx).commitTx tx vs).sync ∧ r = okReply (b.preRoll tx) tx vs ∧
      (b.preRoll tx).live.writeOff + storedSum tx.events + tx.commitLen ≤ b.segSize := by
  obtain ⟨x, hres, e⟩ := clientAppend_res h ht
  rw [hx] at e
  cases hres with
  | ok vs hc _ hseq hts hfit =>
    simp only [Prod.mk.injEq, Except.ok.injEq] at e
    obtain ⟨rfl, rfl⟩ := e
    have hi := inv_preRoll h tx
    have hlen := (h.check_verOk tx vs 0 hc).2
    have hn := preRoll_nextPartSeq h tx tx.pid
    refine ⟨vs, hc, hlen, ?_, ?_, rfl, rfl, hfit⟩
    · rw [hn, seqCur_eq] at hseq
      have := spec_append_ok b.abs tx vs hc hseq hts
      rw [this]
      simp only [okReply, hn, newEvs, Tx.single]
    · rw [abs_sync, abs_commitTx hi tx vs ht.1 hlen.symm, evsOf_txBlock, abs_preRoll, hn]
      rfl
  | invalid e _ => simp at e
  | tooLarge vs _ _ _ => simp at e
  | wrongSeq vs _ _ => simp at e
  | noSpace vs e _ _ _ _ => simp at e
  | badTs vs _ _ _ => simp at e

theorem spec_append_unfold (s : Spec) (tx : Tx) : s.append tx =
    match s.checkEvents tx.pkey tx.events [] with
    | .error e => .error e
    | .ok vs =>
      if (!storeAccepts tx.expectedSeq (seqCur (s.nextSeq tx.pid))) = true then .error .wrongSeq
      else if tx.events.any (fun e => !e.tsOk) = true then .error .badTimestamp
      else .ok ({ txs := s.txs ++ [(tx.events.zip vs).zipIdx.map (fun ((e, v), i) =>
        ({ eid := e.eid, pkey := tx.pkey, pid := tx.pid, seq := s.nextSeq tx.pid + i, stream := e.stream,
           version := v, tx := tx.txId, single := tx.events.length == 1 } : Ev))] },
        s.nextSeq tx.pid, s.nextSeq tx.pid + tx.events.length - 1) := rfl

/-- what `Spec.append` returning `.ok` means -/
theorem spec_append_inv (s : Spec) (tx : Tx) (x : Spec × Nat × Nat) (h : s.append tx = .ok x) :
    ∃ vs, s.checkEvents tx.pkey tx.events [] = .ok vs ∧
      storeAccepts tx.expectedSeq (seqCur (s.nextSeq tx.pid)) = true ∧ (∀ e ∈ tx.events, e.tsOk = true) := by
  rw [spec_append_unfold] at h
  cases hc : s.checkEvents tx.pkey tx.events [] with
  | error e => rw [hc] at h; cases h
  | ok vs =>
    rw [hc] at h
    simp only [] at h
    cases hs : storeAccepts tx.expectedSeq (seqCur (s.nextSeq tx.pid)) with
    | false => rw [hs] at h; simp only [Bool.not_false, if_true] at h; cases h
    | true =>
      rw [hs] at h
      simp only [Bool.not_true, Bool.false_eq_true, if_false] at h
      refine ⟨vs, rfl, rfl, ?_⟩
      by_cases ha : tx.events.any (fun e => !e.tsOk) = true
      · rw [if_pos ha] at h; cases h
      · intro e he
        simp only [Bool.not_eq_true, List.any_eq_false] at ha
        simpa using ha e he

/-- the specification rejects in each rejecting `AppendRes` case other than the space cases -/
theorem spec_err_of_checks (s : Spec) (tx : Tx) :
    (∀ e, s.checkEvents tx.pkey tx.events [] = .error e → s.append tx = .error e) ∧
    (∀ vs, s.checkEvents tx.pkey tx.events [] = .ok vs →
      storeAccepts tx.expectedSeq (seqCur (s.nextSeq tx.pid)) = false → s.append tx = .error .wrongSeq) ∧
    (∀ vs, s.checkEvents tx.pkey tx.events [] = .ok vs →
      storeAccepts tx.expectedSeq (seqCur (s.nextSeq tx.pid)) = true → (∃ e ∈ tx.events, e.tsOk = false) →
      s.append tx = .error .badTimestamp) := by
  refine ⟨?_, ?_, ?_⟩
  · intro e hc; rw [spec_append_unfold, hc]
  · intro vs hc hs; rw [spec_append_unfold, hc]; simp only [hs, Bool.not_false, if_true]
  · intro vs hc hs ⟨e, he, hts⟩
    have : tx.events.any (fun e => !e.tsOk) = true := by
      rw [List.any_eq_true]; exact ⟨e, he, by simp [hts]⟩
    rw [spec_append_unfold, hc]
    simp only [hs, this, Bool.not_true, Bool.false_eq_true, if_false, if_true]

end SierraModel.Store
