/-
Lemmas behind C02 (continued): rejected appends, latest-version queries.
-/
import SierraModel.Lemmas.StoreC02

set_option linter.unusedSimpArgs false
set_option linter.unusedVariables false

namespace SierraModel.Store
open SierraModel.Version

/-- a rejected client append: the state is `b` or `b.preRoll tx` (= `b` or `b.rollover`), and the reason is space or a
rejection by the specification -/
theorem rejected_cases {b : Bucket} (h : Inv b) {tx : Tx} (ht : TxOk b tx) {e : Err}
    (hx : (b.clientAppend tx).2 = .error e) :
    ((b.clientAppend tx).1 = b ∨ (b.clientAppend tx).1 = b.preRoll tx) ∧
    (e ∈ [Err.tooLarge, Err.full] ∨ ∃ e', b.abs.append tx = .error e') := by
  obtain ⟨x, hres, he⟩ := clientAppend_res h ht
  rw [he] at hx ⊢
  have hpre : b.preRoll tx = b ∨ b.preRoll tx = b.preRoll tx := Or.inr rfl
  have hn := preRoll_nextPartSeq h tx tx.pid
  obtain ⟨s1, s2, s3⟩ := spec_err_of_checks b.abs tx
  cases hres with
  | invalid e' hc =>
    simp only [Except.error.injEq] at hx; subst hx
    exact ⟨Or.inl rfl, Or.inr ⟨_, s1 _ hc⟩⟩
  | tooLarge vs _ _ _ =>
    simp only [Except.error.injEq] at hx; subst hx
    exact ⟨Or.inl rfl, Or.inl (by simp)⟩
  | wrongSeq vs hc hs =>
    simp only [Except.error.injEq] at hx; subst hx
    rw [hn] at hs
    exact ⟨hpre, Or.inr ⟨_, s2 vs hc hs⟩⟩
  | noSpace vs e' _ _ hor _ =>
    simp only [Except.error.injEq] at hx; subst hx
    refine ⟨hpre, Or.inl ?_⟩
    rcases hor with rfl | rfl <;> simp
  | badTs vs hc hs hb =>
    simp only [Except.error.injEq] at hx; subst hx
    rw [hn] at hs
    exact ⟨hpre, Or.inr ⟨_, s3 vs hc hs hb⟩⟩
  | ok vs _ _ _ _ _ => simp at hx

/-- whatever the specification rejects, the implementation rejects -/
theorem spec_rejects {b : Bucket} (h : Inv b) {tx : Tx} (ht : TxOk b tx) {e : Err}
    (hs : b.abs.append tx = .error e) : ∃ e', (b.clientAppend tx).2 = .error e' := by
  rcases hr : (b.clientAppend tx).2 with e' | r
  · exact ⟨e', rfl⟩
  · exfalso
    have hx : b.clientAppend tx = ((b.clientAppend tx).1, .ok r) := by rw [← hr]
    obtain ⟨vs, _, _, happ, _⟩ := accepted_spec h ht hx
    rw [hs] at happ; cases happ

/-! ### latest-version / latest-sequence queries -/

theorem streamVersion_eq {b : Bucket} (h : Inv b) (hs : Synced b) (st : Nat) :
    b.streamVersion st = b.abs.streamLatest st := by
  rw [← h.streamLatestW_eq]
  unfold Bucket.streamVersion Bucket.streamLatestW lastWhere lastOf
  rw [hs.1]
  rfl

theorem partitionSequence_eq {b : Bucket} (h : Inv b) (hs : Synced b) (pid : Nat) :
    b.partitionSequence pid =
      (if b.abs.nextSeq pid = 0 then none else some (b.abs.nextSeq pid - 1)) := by
  have key : b.abs.nextSeq pid =
      ((b.allIdx.reverse.find? (·.pid == pid)).map (·.seq + 1)).getD 0 := by
    rw [nextSeq_eq, h.abs_events, h.allIdx_eq]
    have := find_hydrate b.allRecs (·.pid == pid) (·.pid == pid) (·.seq + 1) (·.seq + 1)
      (fun _ _ => rfl) (fun _ _ => rfl)
    rw [this]
    unfold nextSeqOf
    cases (evsOf b.allRecs).reverse.find? (·.pid == pid) <;> rfl
  rw [key, allIdx_find, hs.1]
  unfold Bucket.partitionSequence lastOf
  simp only [List.reverse_nil, List.find?_nil, Option.none_or]
  cases h2 : b.live.index.reverse.find? (·.pid == pid) with
  | some e => simp
  | none =>
    cases h3 : b.sealed.reverse.findSome? (fun s => s.index.reverse.find? (·.pid == pid)) with
    | some e => simp
    | none => simp

end SierraModel.Store
