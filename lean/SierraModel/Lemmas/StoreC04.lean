/-
C04 lemmas: `readCommitted` on well-formed segments and on segments with an uncommitted tail.
-/
import SierraModel.Lemmas.StoreExamples

set_option linter.unusedSimpArgs false
set_option linter.unusedVariables false

namespace SierraModel.Store

theorem evOffs_tx_of_isEvOf {t : Nat} : ∀ (l : List Placed), (∀ q ∈ l, IsEvOf t q) →
    ∀ x ∈ evOffs l, x.1.tx = t
  | [], _, x, hx => by simp [evOffs_nil] at hx
  | q :: qs, h, x, hx => by
    obtain ⟨e, he, _, ht⟩ := h q (by simp)
    rw [evOffs_cons_ev q qs e he] at hx
    rcases List.mem_cons.1 hx with rfl | hx
    · exact ht
    · exact evOffs_tx_of_isEvOf qs (fun y hy => h y (by simp [hy])) x hx

/-- the group read from an event of a block only contains events of that event's transaction -/
theorem block_suffix_one_tx {b1 b2 : List Placed} {p : Placed} {e : Ev} (hb : Block (b1 ++ p :: b2))
    (he : p.r = .ev e) : ∀ x ∈ evOffs (p :: b2), x.1.tx = e.tx := by
  rcases hb.at_event he with ⟨_, rfl, rfl⟩ | ⟨t, b2', c, n, rfl, ⟨e', he', _, ht⟩, _, h2, hc⟩
  · intro x hx
    rw [evOffs_cons_ev p [] e he, evOffs_nil] at hx
    simp at hx; subst hx; rfl
  · rw [he] at he'; cases he'
    intro x hx
    rw [evOffs_cons_ev p _ e he, evOffs_append, evOffs_cons_commit c [] _ _ hc, evOffs_nil,
      List.append_nil] at hx
    rcases List.mem_cons.1 hx with rfl | hx
    · rfl
    · rw [ht]; exact evOffs_tx_of_isEvOf b2' h2 x hx

theorem mem_of_mem_takeWhile {α : Type} (p : α → Bool) : ∀ (l : List α) (x : α), x ∈ l.takeWhile p → x ∈ l
  | [], _, h => by simp at h
  | a :: l, x, h => by
    rw [List.takeWhile_cons] at h
    split at h
    · rcases List.mem_cons.1 h with rfl | h
      · simp
      · exact List.mem_cons_of_mem _ (mem_of_mem_takeWhile p l x h)
    · simp at h

theorem dropWhile_all {α : Type} (p : α → Bool) : ∀ (l : List α), (∀ x ∈ l, p x = true) → l.dropWhile p = []
  | [], _ => rfl
  | a :: l, h => by
    rw [List.dropWhile_cons, if_pos (h a (by simp))]
    exact dropWhile_all p l (fun x hx => h x (by simp [hx]))

/-- events of a transaction without its commit record at the end of a segment (the crash state)
are not returned by `readCommitted`, whatever the limit -/
theorem readCommitted_tail {s : Nat} {good t1 t2 : List Placed} {q : Placed}
    (hc : Contig s (good ++ (t1 ++ q :: t2)))
    (ht : ∀ x ∈ t1 ++ q :: t2, ∃ e, x.r = .ev e ∧ e.single = false) (limit : Nat) :
    readCommitted (good ++ (t1 ++ q :: t2)) limit q.off = none := by
  have e1 : good ++ (t1 ++ q :: t2) = (good ++ t1) ++ q :: t2 := by simp
  rw [e1] at hc ⊢
  have hcA : Contig s ((good ++ t1) ++ [q]) := by
    have h1 := (contig_append s (good ++ t1) (q :: t2)).1 hc
    exact (contig_append s (good ++ t1) [q]).2 ⟨h1.1, h1.2.1, h1.2.2.1, trivial⟩
  have hlt : ∀ x ∈ good ++ t1, decide (x.off < q.off) = true := by
    intro x hx
    have h1 := (contig_append s (good ++ t1) [q]).1 hcA
    have h2 := contig_mem s _ h1.1 x hx
    have h3 := h1.2.1
    simp only [decide_eq_true_eq]; omega
  have htail2 : ∀ x ∈ q :: visible t2 limit, ∃ e, x.r = .ev e ∧ e.single = false := by
    intro x hx
    rcases List.mem_cons.1 hx with rfl | hx
    · exact ht x (by simp)
    · exact ht x (by simp [mem_of_mem_takeWhile _ t2 x hx])
  unfold readCommitted visible
  rw [List.takeWhile_append]
  split
  · rw [List.takeWhile_cons]
    split
    · rw [dropWhile_contig s (good ++ t1) q _ hcA]
      exact readAux_tail _ _ _ htail2
    · rw [List.append_nil, dropWhile_all _ _ hlt]; rfl
  · rw [dropWhile_all _ _ (fun x hx => hlt x (mem_of_mem_takeWhile _ _ x hx))]; rfl

instance Contig.dec : (s : Nat) → (l : List Placed) → Decidable (Contig s l)
  | _, [] => isTrue trivial
  | s, p :: ps =>
    have : Decidable (Contig (s + p.size) ps) := Contig.dec (s + p.size) ps
    inferInstanceAs (Decidable (p.off = s ∧ 0 < p.size ∧ Contig (s + p.size) ps))

end SierraModel.Store
