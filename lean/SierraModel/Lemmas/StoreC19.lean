/-
C19 lemma: a transaction the specification accepts and whose stored size fits an empty segment is
accepted.
-/
import SierraModel.Lemmas.StoreAck2

set_option linter.unusedSimpArgs false
set_option linter.unusedVariables false

namespace SierraModel.Store
open SierraModel.Version

/-- what the compressor guarantees about the stored size of an event (zstd's bound; no compression:
the stored record is exactly the estimate) -/
def StoredOk (b : Bucket) (tx : Tx) : Prop :=
  ∀ e ∈ tx.events, if b.compression = true then e.stored ≤ e.estimate + 4 + e.estimate / 256 + 64
    else e.stored = e.estimate

instance (b : Bucket) (tx : Tx) : Decidable (StoredOk b tx) := by unfold StoredOk; exact inferInstance

theorem storedSum_eq_est : ∀ (es : List NewEv), (∀ e ∈ es, e.stored = e.estimate) →
    storedSum es = (es.map (·.estimate)).sum
  | [], _ => rfl
  | e :: es, h => by
    rw [storedSum_cons, storedSum_eq_est es (fun x hx => h x (by simp [hx])), h e (by simp)]; simp

theorem storedSum_le_bound : ∀ (es : List NewEv),
    (∀ e ∈ es, e.stored ≤ e.estimate + 4 + e.estimate / 256 + 64) →
    storedSum es ≤ (es.map (fun e => e.estimate + 4 + e.estimate / 256 + 64)).sum
  | [], _ => by simp [storedSum]
  | e :: es, h => by
    rw [storedSum_cons]
    have := storedSum_le_bound es (fun x hx => h x (by simp [hx]))
    have := h e (by simp)
    simp only [List.map_cons, List.sum_cons]; omega

theorem commitLen_le (tx : Tx) : tx.commitLen ≤ COMMIT_SIZE := by
  unfold Tx.commitLen; split <;> simp

theorem upper_ge {b : Bucket} {tx : Tx} (hso : StoredOk b tx) :
    storedSum tx.events + tx.commitLen ≤ b.upper tx := by
  unfold Bucket.upper
  cases hc : b.compression with
  | true =>
    simp only [if_true]
    have := storedSum_le_bound tx.events (fun e he => by have := hso e he; simpa [hc] using this)
    have := commitLen_le tx
    omega
  | false =>
    simp only [Bool.false_eq_true, if_false]
    have := storedSum_eq_est tx.events (fun e he => by have := hso e he; simpa [hc] using this)
    unfold Tx.estSize Tx.commitLen
    omega

theorem fits_accepted {b : Bucket} (h : Inv b) {tx : Tx} (ht : TxOk b tx) (hso : StoredOk b tx)
    {x : Spec × Nat × Nat} (hspec : b.abs.append tx = .ok x)
    (hfit : SEGMENT_HEADER_SIZE + storedSum tx.events + tx.commitLen ≤ b.segSize) :
    ∃ r, (b.clientAppend tx).2 = .ok r := by
  obtain ⟨vs0, hc0, hs0, hts0⟩ := spec_append_inv b.abs tx x hspec
  obtain ⟨y, hres, e⟩ := clientAppend_res h ht
  rw [e]
  have hn := preRoll_nextPartSeq h tx tx.pid
  cases hres with
  | invalid e' hc => rw [hc0] at hc; cases hc
  | tooLarge vs _ hcomp hbig =>
    exfalso
    have := storedSum_eq_est tx.events (fun e he => by have := hso e he; simpa [hcomp] using this)
    unfold Tx.estSize at hbig; unfold Tx.commitLen at hfit
    omega
  | wrongSeq vs _ hs => rw [hn, hs0] at hs; cases hs
  | noSpace vs e' _ _ _ hno =>
    exfalso; apply hno
    unfold Bucket.preRoll
    split
    · show SEGMENT_HEADER_SIZE + storedSum tx.events + tx.commitLen ≤ b.segSize
      exact hfit
    · rename_i hcond
      simp only [Bool.and_eq_true, decide_eq_true_eq, not_and] at hcond
      have hu := upper_ge hso
      have hh := h.hdr_le
      by_cases hw : b.live.writeOff > SEGMENT_HEADER_SIZE
      · have := hcond hw; omega
      · have : b.live.writeOff = SEGMENT_HEADER_SIZE := by omega
        rw [this]; exact hfit
  | badTs vs _ _ hb =>
    obtain ⟨e', he', hf⟩ := hb
    rw [hts0 e' he'] at hf; cases hf
  | ok vs _ _ _ _ _ => exact ⟨_, rfl⟩

end SierraModel.Store
