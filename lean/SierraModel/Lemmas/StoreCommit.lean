/-
Preservation of `Inv` by the commit of an accepted transaction (`Bucket.commitTx`).
-/
import SierraModel.Lemmas.StorePres

set_option linter.unusedSimpArgs false
set_option linter.unusedVariables false

namespace SierraModel.Store
open SierraModel.Version

section blk
variable (b1 : Bucket) (tx : Tx) (vs : List Nat)

theorem txBlock_block (hne : tx.events ≠ []) (hlen : tx.events.length = vs.length) :
    Block (b1.txBlock tx vs) := by
  have := block_of_tx tx.pkey tx.pid tx.txId tx.events vs b1.live.writeOff (b1.nextPartSeq tx.pid)
    (b1.live.writeOff + storedSum tx.events) hne hlen
  unfold Bucket.txBlock Bucket.txPlaced Tx.single
  exact this

theorem evsOf_txBlock :
    evsOf (b1.txBlock tx vs) = mkEvs tx.pkey tx.pid tx.txId tx.single tx.events vs (b1.nextPartSeq tx.pid) := by
  unfold Bucket.txBlock Bucket.txPlaced
  split
  · exact evsOf_mkPlaced _ _ _ _ _ _ _ _
  · rw [evsOf_append, evsOf_cons_commit _ [] _ _ rfl, evsOf_nil, List.append_nil]
    exact evsOf_mkPlaced _ _ _ _ _ _ _ _

theorem hydrate_txBlock : hydrate (b1.txBlock tx vs) = hydrate (b1.txPlaced tx vs) := by
  unfold Bucket.txBlock
  split
  · rfl
  · rw [hydrate_append]; simp [hydrate]

theorem evOffs_txBlock : evOffs (b1.txBlock tx vs) = evOffs (b1.txPlaced tx vs) := by
  unfold Bucket.txBlock
  split
  · rfl
  · rw [evOffs_append, evOffs_cons_commit _ [] _ _ rfl, evOffs_nil, List.append_nil]

theorem contig_txBlock (hpos : ∀ e ∈ tx.events, 0 < e.stored) (hlen : tx.events.length = vs.length) :
    Contig b1.live.writeOff (b1.txBlock tx vs) := by
  have h1 : Contig b1.live.writeOff (b1.txPlaced tx vs) := contig_mkPlaced _ _ _ _ _ _ _ _ hpos
  unfold Bucket.txBlock
  split
  · exact h1
  · refine (contig_append _ _ _).2 ⟨h1, ?_⟩
    unfold Bucket.txPlaced
    rw [endFrom_mkPlaced _ _ _ _ _ _ _ _ hlen]
    exact ⟨rfl, by simp [COMMIT_SIZE], trivial⟩

theorem endFrom_txBlock (hlen : tx.events.length = vs.length) :
    endFrom b1.live.writeOff (b1.txBlock tx vs) = b1.live.writeOff + storedSum tx.events + tx.commitLen := by
  have h1 : endFrom b1.live.writeOff (b1.txPlaced tx vs) = b1.live.writeOff + storedSum tx.events :=
    endFrom_mkPlaced _ _ _ _ _ _ _ _ hlen
  unfold Bucket.txBlock Tx.commitLen
  split
  · simpa using h1
  · rw [endFrom_append, h1]; simp [endFrom]

end blk

theorem abs_commitTx {b1 : Bucket} (h : Inv b1) (tx : Tx) (vs : List Nat) (hne : tx.events ≠ [])
    (hlen : tx.events.length = vs.length) :
    (b1.commitTx tx vs).abs = { txs := b1.abs.txs ++ [evsOf (b1.txBlock tx vs)] } := by
  unfold Bucket.commitTx Bucket.abs
  simp only []
  rw [committedOf_snoc_block h.live_blocks (txBlock_block b1 tx vs hne hlen), List.append_assoc]

theorem events_snoc (s : Spec) (t : SpecTx) :
    ({ txs := s.txs ++ [t] } : Spec).events = s.events ++ t := by
  simp [Spec.events]

theorem mem_evsOf_tx : ∀ (recs : List Placed) (e : Ev), e ∈ evsOf recs →
    e.tx ∈ recs.map (fun p => recTx p.r)
  | [], e, h => by simp [evsOf_nil] at h
  | p :: ps, e, h => by
    cases hr : p.r with
    | ev e' =>
      rw [evsOf_cons_ev p ps e' hr] at h
      rcases List.mem_cons.1 h with rfl | h
      · simp [hr, recTx]
      · simp only [List.map_cons, List.mem_cons]; exact Or.inr (mem_evsOf_tx ps e h)
    | commit t n =>
      rw [evsOf_cons_commit p ps t n hr] at h
      simp only [List.map_cons, List.mem_cons]; exact Or.inr (mem_evsOf_tx ps e h)

theorem inv_commitTx {b1 : Bucket} (h : Inv b1) {tx : Tx} (ht : TxOk b1 tx) (vs : List Nat)
    (hc : b1.abs.checkEvents tx.pkey tx.events [] = .ok vs) : Inv (b1.commitTx tx vs) := by
  obtain ⟨hne, hpos, hnd, hfresh, htx⟩ := ht
  have hver := h.check_verOk tx vs (b1.nextPartSeq tx.pid) hc
  have hlen : tx.events.length = vs.length := hver.2.symm
  have habs := abs_commitTx h tx vs hne hlen
  have hev : (b1.commitTx tx vs).abs.events = b1.abs.events ++
      mkEvs tx.pkey tx.pid tx.txId tx.single tx.events vs (b1.nextPartSeq tx.pid) := by
    rw [habs, events_snoc, evsOf_txBlock]
  have hblk := txBlock_block b1 tx vs hne hlen
  have hnext : b1.nextPartSeq tx.pid = nextSeqOf b1.abs.events tx.pid := h.nextPartSeq_eq tx.pid
  exact {
    sealed_ok := h.sealed_ok
    live_contig := by
      show Contig _ (b1.live.recs ++ b1.txBlock tx vs)
      refine (contig_append _ _ _).2 ⟨h.live_contig, ?_⟩
      rw [← h.writeOff_eq]; exact contig_txBlock b1 tx vs hpos hlen
    writeOff_eq := by
      show b1.live.writeOff + storedSum tx.events + tx.commitLen = endFrom _ (b1.live.recs ++ b1.txBlock tx vs)
      rw [endFrom_append, ← h.writeOff_eq, endFrom_txBlock b1 tx vs hlen]
    live_split := by
      obtain ⟨pre, post, e, h1, h2, h3, h4, h5⟩ := h.live_split
      refine ⟨pre, post ++ b1.txBlock tx vs, ?_, h1, h2.snoc hblk, h3, ?_, h5⟩
      · show b1.live.recs ++ _ = _
        rw [e, List.append_assoc]
      · show b1.live.pending ++ hydrate (b1.txPlaced tx vs) = _
        rw [hydrate_append, h4, hydrate_txBlock]
    watch_eq := h.watch_eq
    seq_ok := by
      rw [hev, hnext]; exact seqOk_append_mkEvs _ _ _ _ _ _ _ h.seq_ok
    ver_ok := by rw [hev]; exact hver.1
    eid_nodup := by
      rw [hev, List.map_append, mkEvs_eids _ _ _ _ _ _ _ hlen, List.nodup_append]
      refine ⟨h.eid_nodup, hnd, ?_⟩
      intro a ha b hb hab
      subst hab
      obtain ⟨e, he, rfl⟩ := List.mem_map.1 hb
      apply hfresh e he
      unfold Bucket.eids
      rw [← h.abs_events]; exact ha
    tx_distinct := by
      rw [habs]
      show List.Pairwise _ (b1.abs.txs ++ [_])
      rw [List.pairwise_append]
      refine ⟨h.tx_distinct, by simp, ?_⟩
      intro t1 ht1 t2 ht2 e1 he1 e2 he2 heq
      simp only [List.mem_singleton] at ht2; subst ht2
      rw [evsOf_txBlock] at he2
      have h2 := (mkEvs_mem _ _ _ _ _ _ _ e2 he2).2.2.1
      apply htx
      have : e1 ∈ b1.abs.events := by
        unfold Spec.events; exact List.mem_flatten.2 ⟨t1, ht1, he1⟩
      rw [h.abs_events] at this
      have := mem_evsOf_tx _ _ this
      unfold Bucket.txIds
      rw [← h2, ← heq]; exact this
    tx_uniform := by
      rw [habs]
      intro t ht
      simp only [List.mem_append, List.mem_singleton] at ht
      rcases ht with ht | rfl
      · exact h.tx_uniform t ht
      · intro e1 he1 e2 he2
        rw [evsOf_txBlock] at he1 he2
        rw [(mkEvs_mem _ _ _ _ _ _ _ e1 he1).2.2.1, (mkEvs_mem _ _ _ _ _ _ _ e2 he2).2.2.1]
    cache_ok := by
      intro pid n hm
      rw [nextSeq_eq, hev, nextSeqOf_append_mkEvs _ _ _ _ _ _ _ _ _ hlen]
      simp only [Bucket.commitTx, List.mem_cons, Prod.mk.injEq, List.mem_filter] at hm
      rcases hm with ⟨rfl, rfl⟩ | ⟨hm, hp⟩
      · simp [hne]
      · have hp' : ¬ tx.pid = pid := by
          intro heq; subst heq; simp at hp
        simp only [hp', false_and, if_false]
        exact h.cache_ok _ _ hm
    cache_pending := by
      intro e he
      simp only [Bucket.commitTx, List.mem_append] at he
      by_cases hp : e.pid = tx.pid
      · exact ⟨b1.nextPartSeq tx.pid + tx.events.length, by simp [Bucket.commitTx, hp]⟩
      · rcases he with he | he
        · obtain ⟨n, hn⟩ := h.cache_pending e he
          exact ⟨n, by simp [Bucket.commitTx, hp, hn]⟩
        · exfalso; apply hp
          rw [hydrate_eq] at he
          obtain ⟨x, hx, rfl⟩ := List.mem_map.1 he
          have : x.1 ∈ evsOf (b1.txPlaced tx vs) := List.mem_map.2 ⟨x, hx, rfl⟩
          unfold Bucket.txPlaced at this
          rw [evsOf_mkPlaced] at this
          exact (mkEvs_mem _ _ _ _ _ _ _ _ this).2.1
    ids := h.ids }

end SierraModel.Store
