/-
A small concrete history used by the non-vacuity examples of C01 / C02 / C04 / C19.
-/
import SierraModel.Lemmas.StoreNumExport

namespace SierraModel.Store.Ex
open SierraModel.Store SierraModel.Version

def ev (eid stream : Nat) (exp : Expected) : NewEv :=
  { eid := eid, stream := stream, expected := exp, tsOk := true, estimate := 100, stored := 100 }

/-- single-event transaction -/
def tx1 : Tx := { pkey := 7, pid := 1, txId := 1001, expectedSeq := Expected.any, events := [ev 1 10 .empty] }
/-- three events, two streams, expectations that refer to earlier events of the same transaction -/
def tx2 : Tx := { pkey := 7, pid := 1, txId := 1002, expectedSeq := Expected.exact 0, events := [ev 2 10 (.exact 0), ev 3 11 .any, ev 4 10 (.exact 1)] }
/-- rejected: wrong expected version -/
def txBad : Tx := { pkey := 7, pid := 1, txId := 1003, expectedSeq := Expected.any, events := [ev 5 10 (.exact 7)] }
/-- rejected for space: larger than a segment -/
def txBig : Tx := { pkey := 7, pid := 1, txId := 1004, expectedSeq := Expected.any, events := [{ ev 6 12 .any with estimate := 5000, stored := 5000 }] }
/-- a later accepted one -/
def tx3 : Tx := { pkey := 7, pid := 1, txId := 1005, expectedSeq := Expected.any, events := [ev 7 11 .exists_, ev 8 12 .empty] }

def b0 : Bucket := Bucket.new 4096 false
/-- small segments: the third append rolls the segment over -/
def bSmall : Bucket := Bucket.new 600 false

def ops1 : List Op := [.append tx1, .append txBad]

end SierraModel.Store.Ex
