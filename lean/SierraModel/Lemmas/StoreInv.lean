/-
The bucket invariant `Inv`, the client-level history (`Op`, `Bucket.step`, `Bucket.run`), input
validity (`TxOk`, `RunOk`) and what `Inv` says about the writer-side lookups.

Index of the store lemma files (import chain, each imports the previous one):
  StoreBlocks   `evOffs`/`evsOf`, `Block`/`Blocks`, `committedOf` on blocks (`committedOf_snoc_block`,
                `committedOf_flatten`, `committedAux_tail`)
  StoreLayout   `Contig`/`endFrom`, `visible_*`, `dropWhile_contig`, `readCommitted_at`, `readAux_tail`
  StoreAppend   `validate_eq_check` (validateVersions = Spec.checkEvents), `writeEvents_ok/_inv/_err`,
                `mkEvs`/`mkPlaced`, `block_of_tx`
  StoreNum      `SeqOk`/`VerOk`, `checkEvents_verOk`, `spec_append_ok`
  StoreInv      (this file) `Op`, `TxOk`, `RunOk`, `Inv`, `Synced`
  StoreLookup   `Inv.abs_events`, `Inv.allIdx_eq`, `Inv.streamLatestW_eq`, `Inv.nextPartSeq_eq`
  StoreStep/Res `appendTx_unfold`, `AppendRes`, `appendTx_res` (all outcomes of an append)
  StorePres     `inv_new`, `inv_sync`, `inv_rollover`, `inv_preRoll`
  StoreCommit   `inv_commitTx`, `abs_commitTx`
  StoreRun      `inv_appendTx`, `clientAppend_res`, `CInv`, `cinv_run`, `inv_run`
  StoreC02(b)   `accepted_spec`, `rejected_cases`, `spec_rejects`, `streamVersion_eq`, `partitionSequence_eq`
  StoreQuery    `readTransaction_eq` (lookup only depends on `Bucket.segs`), `segLookup_at`
  StoreLookupAt `readTx_at`, `HasBlock` and its stability
  StoreAck(2)   `readTransaction_at`, raw history (`RawOp`, `inv_rawRun`), `ack_fsynced`, `acked_lookup`
  StoreC19      `StoredOk`, `fits_accepted`
  StoreVersions `versions_spec`
  StoreNumExport `SeqOk.range`, `VerOk.range`, `VerOk.one_pkey`, `Inv.seqs_range`, …, `Reachable`
  StoreC04      `readCommitted_tail`, `block_suffix_one_tx`
-/
import SierraModel.Lemmas.StoreNum

set_option linter.unusedSimpArgs false
set_option linter.unusedVariables false

namespace SierraModel.Store
open SierraModel.Version

/-! ### histories -/

inductive Op where
  | append (tx : Tx)
  | flushPoll

def Bucket.step (b : Bucket) : Op → Bucket
  | .append tx => (b.clientAppend tx).1
  | .flushPoll => b.sync

def Bucket.run (b : Bucket) : List Op → Bucket
  | [] => b
  | op :: ops => (b.step op).run ops

/-- all records of the bucket, oldest first -/
def Bucket.allRecs (b : Bucket) : List Placed := (b.sealed.map (·.recs)).flatten ++ b.live.recs

def recTx : Rec → Nat
  | .ev e => e.tx
  | .commit t _ => t

/-- event ids in use -/
def Bucket.eids (b : Bucket) : List Nat := (evsOf b.allRecs).map (·.eid)
/-- transaction ids in use (event records and commit records) -/
def Bucket.txIds (b : Bucket) : List Nat := b.allRecs.map (fun p => recTx p.r)

/-- validity of an append request: fresh ids, non-empty, positive stored sizes.  Nothing about
expectations, sizes, timestamps. -/
def TxOk (b : Bucket) (tx : Tx) : Prop :=
  tx.events ≠ [] ∧ (∀ e ∈ tx.events, 0 < e.stored) ∧ (tx.events.map (·.eid)).Nodup ∧
  (∀ e ∈ tx.events, e.eid ∉ b.eids) ∧ tx.txId ∉ b.txIds

instance (b : Bucket) (tx : Tx) : Decidable (TxOk b tx) := by unfold TxOk; exact inferInstance

def OpOk (b : Bucket) : Op → Prop
  | .append tx => TxOk b tx
  | .flushPoll => True

instance (b : Bucket) : (op : Op) → Decidable (OpOk b op)
  | .append tx => inferInstanceAs (Decidable (TxOk b tx))
  | .flushPoll => inferInstanceAs (Decidable True)

def RunOk : Bucket → List Op → Prop
  | _, [] => True
  | b, op :: ops => OpOk b op ∧ RunOk (b.step op) ops

instance RunOk.dec : (b : Bucket) → (ops : List Op) → Decidable (RunOk b ops)
  | _, [] => inferInstanceAs (Decidable True)
  | b, op :: ops => @instDecidableAnd _ _ _ (RunOk.dec (b.step op) ops)

theorem run_cons (b : Bucket) (op : Op) (ops : List Op) : b.run (op :: ops) = (b.step op).run ops := rfl

theorem run_append (b : Bucket) : ∀ (ops ops' : List Op), b.run (ops ++ ops') = (b.run ops).run ops'
  | [], _ => rfl
  | op :: ops, ops' => by simp only [List.cons_append, run_cons]; exact run_append _ ops ops'

theorem runOk_append : ∀ (b : Bucket) (ops ops' : List Op),
    RunOk b (ops ++ ops') ↔ RunOk b ops ∧ RunOk (b.run ops) ops'
  | b, [], ops' => by simp [RunOk, Bucket.run]
  | b, op :: ops, ops' => by
    simp only [List.cons_append, RunOk, run_cons, runOk_append (b.step op) ops ops', and_assoc]

/-! ### the invariant -/

/-- the invariant of one bucket; holds in every state reachable by `appendTx` / `sync` steps (and
hence by client-level steps, which additionally keep `Synced`) -/
structure Inv (b : Bucket) : Prop where
  /-- (i)-(iii) sealed segments: layout, complete blocks, closed index = hydrate, non-empty -/
  sealed_ok : ∀ s ∈ b.sealed, Contig SEGMENT_HEADER_SIZE s.recs ∧ Blocks s.recs ∧
    s.index = hydrate s.recs ∧ s.recs ≠ []
  /-- (i) live layout -/
  live_contig : Contig SEGMENT_HEADER_SIZE b.live.recs
  writeOff_eq : b.live.writeOff = endFrom SEGMENT_HEADER_SIZE b.live.recs
  /-- (ii)-(iv) live segment: fsynced + published blocks, then written + pending blocks -/
  live_split : ∃ pre post, b.live.recs = pre ++ post ∧ Blocks pre ∧ Blocks post ∧
    b.live.index = hydrate pre ∧ b.live.pending = hydrate post ∧
    b.live.durable = endFrom SEGMENT_HEADER_SIZE pre
  /-- (iv) the watch value is the fsynced offset of THIS segment -/
  watch_eq : b.live.watch = b.live.durable
  /-- (v) numbering -/
  seq_ok : SeqOk b.abs.events
  ver_ok : VerOk b.abs.events
  eid_nodup : (b.abs.events.map (·.eid)).Nodup
  /-- (ii) transaction ids -/
  tx_distinct : b.abs.txs.Pairwise (fun t1 t2 => ∀ e1 ∈ t1, ∀ e2 ∈ t2, e1.tx ≠ e2.tx)
  tx_uniform : ∀ t ∈ b.abs.txs, ∀ e1 ∈ t, ∀ e2 ∈ t, e1.tx = e2.tx
  /-- (vi) the sequence cache -/
  cache_ok : ∀ pid n, (pid, n) ∈ b.nextSeq → n = b.abs.nextSeq pid
  cache_pending : ∀ e ∈ b.live.pending, ∃ n, (e.pid, n) ∈ b.nextSeq
  /-- (vii) segment ids -/
  ids : b.sealed.map (·.id) = List.range b.sealed.length ∧ b.live.id = b.sealed.length

/-- (iv) the state after a client-level step: everything written is fsynced and published -/
def Synced (b : Bucket) : Prop :=
  b.live.pending = [] ∧ b.live.durable = b.live.writeOff ∧ b.live.watch = b.live.writeOff

theorem Inv.live_blocks {b : Bucket} (h : Inv b) : Blocks b.live.recs := by
  obtain ⟨pre, post, e, h1, h2, _⟩ := h.live_split
  rw [e]; exact h1.append h2

theorem Inv.index_eq {b : Bucket} (h : Inv b) :
    b.live.index ++ b.live.pending = hydrate b.live.recs := by
  obtain ⟨pre, post, e, _, _, h3, h4, _⟩ := h.live_split
  rw [e, h3, h4, hydrate_append]

theorem Inv.durable_le {b : Bucket} (h : Inv b) : b.live.durable ≤ b.live.writeOff := by
  obtain ⟨pre, post, e, _, _, _, _, h5⟩ := h.live_split
  rw [h5, h.writeOff_eq, e, endFrom_append]; exact le_endFrom _ _

theorem Inv.watch_le {b : Bucket} (h : Inv b) : b.live.watch ≤ b.live.durable := by
  rw [h.watch_eq]; exact Nat.le_refl _

theorem Inv.hdr_le {b : Bucket} (h : Inv b) : SEGMENT_HEADER_SIZE ≤ b.live.writeOff := by
  rw [h.writeOff_eq]; exact le_endFrom _ _

theorem Inv.synced_index {b : Bucket} (h : Inv b) (hs : Synced b) :
    b.live.index = hydrate b.live.recs := by
  have := h.index_eq; rw [hs.1] at this; simpa using this

end SierraModel.Store
