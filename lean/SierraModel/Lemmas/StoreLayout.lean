/-
Record layout (`Contig`, `endFrom`) and `readCommitted` on well-formed record lists.
-/
import SierraModel.Lemmas.StoreBlocks

set_option linter.unusedSimpArgs false
set_option linter.unusedVariables false

namespace SierraModel.Store

/-- end offset of records laid out from `s` -/
def endFrom (s : Nat) (recs : List Placed) : Nat := s + (recs.map (·.size)).sum

/-- offsets contiguous from `s`, sizes positive -/
def Contig : Nat → List Placed → Prop
  | _, [] => True
  | s, p :: ps => p.off = s ∧ 0 < p.size ∧ Contig (s + p.size) ps

theorem endFrom_nil (s : Nat) : endFrom s [] = s := by simp [endFrom]
theorem endFrom_cons (s : Nat) (p : Placed) (ps : List Placed) :
    endFrom s (p :: ps) = endFrom (s + p.size) ps := by simp [endFrom]; omega
theorem endFrom_append (s : Nat) (a b : List Placed) :
    endFrom s (a ++ b) = endFrom (endFrom s a) b := by simp [endFrom]; omega
theorem le_endFrom (s : Nat) (a : List Placed) : s ≤ endFrom s a := by simp [endFrom]

theorem contig_append : ∀ (s : Nat) (a b : List Placed),
    Contig s (a ++ b) ↔ Contig s a ∧ Contig (endFrom s a) b
  | s, [], b => by simp [Contig, endFrom_nil]
  | s, p :: ps, b => by
    simp only [List.cons_append, Contig, endFrom_cons, contig_append (s + p.size) ps b]
    constructor
    · rintro ⟨h1, h2, h3, h4⟩; exact ⟨⟨h1, h2, h3⟩, h4⟩
    · rintro ⟨⟨h1, h2, h3⟩, h4⟩; exact ⟨h1, h2, h3, h4⟩

theorem contig_mem : ∀ (s : Nat) (recs : List Placed), Contig s recs → ∀ p ∈ recs,
    s ≤ p.off ∧ 0 < p.size ∧ p.off + p.size ≤ endFrom s recs
  | s, q :: qs, h, p, hp => by
    obtain ⟨h1, h2, h3⟩ := h
    rw [endFrom_cons]
    rcases List.mem_cons.1 hp with rfl | hp
    · exact ⟨by omega, h2, by have := le_endFrom (s + p.size) qs; omega⟩
    · have := contig_mem (s + q.size) qs h3 p hp
      omega

theorem visible_all (recs : List Placed) (limit : Nat) (h : ∀ p ∈ recs, p.off + p.size ≤ limit) :
    visible recs limit = recs := by
  unfold visible
  induction recs with
  | nil => rfl
  | cons q qs ih =>
    have := h q (by simp)
    simp only [List.takeWhile_cons, this, decide_true, if_true]
    rw [ih (fun p hp => h p (by simp [hp]))]

theorem visible_contig (s : Nat) (recs : List Placed) (limit : Nat) (h : Contig s recs)
    (hl : endFrom s recs ≤ limit) : visible recs limit = recs :=
  visible_all recs limit (fun p hp => Nat.le_trans (contig_mem s recs h p hp).2.2 hl)

theorem foldl_max_ge : ∀ (recs : List Placed) (a : Nat),
    a ≤ recs.foldl (fun a p => max a (p.off + p.size)) a ∧
    ∀ p ∈ recs, p.off + p.size ≤ recs.foldl (fun a p => max a (p.off + p.size)) a
  | [], a => by simp
  | q :: qs, a => by
    have ih := foldl_max_ge qs (max a (q.off + q.size))
    refine ⟨by simp only [List.foldl_cons]; omega, ?_⟩
    intro p hp
    simp only [List.foldl_cons]
    rcases List.mem_cons.1 hp with rfl | hp
    · omega
    · exact ih.2 p hp

theorem visible_foldl (recs : List Placed) :
    visible recs (recs.foldl (fun a p => max a (p.off + p.size)) 0) = recs :=
  visible_all recs _ (foldl_max_ge recs 0).2

theorem dropWhile_contig : ∀ (s : Nat) (pre : List Placed) (p : Placed) (post : List Placed),
    Contig s (pre ++ [p]) →
    (pre ++ p :: post).dropWhile (fun q => decide (q.off < p.off)) = p :: post
  | s, [], p, post, _ => by simp [List.dropWhile_cons]
  | s, q :: qs, p, post, h => by
    obtain ⟨h1, h2, h3⟩ := h
    have hp := (contig_mem _ _ h3 p (by simp)).1
    have : q.off < p.off := by omega
    simp only [List.cons_append, List.dropWhile_cons, this, decide_true, if_true]
    exact dropWhile_contig _ qs p post h3

/-! ### `readCommitted` -/

theorem readAux_ne_some_nil : ∀ (l : List Placed) (pend : Option Nat) (acc : List (Ev × Nat)),
    readCommittedAux l pend acc ≠ some []
  | [], _, _ => by simp [readCommittedAux]
  | p :: ps, pend, acc => by
    cases hr : p.r with
    | ev e =>
      simp only [readCommittedAux, hr]
      split
      · simp
      · split <;> exact readAux_ne_some_nil ps _ _
    | commit t n =>
      simp only [readCommittedAux, hr]
      split
      · rename_i h
        simp only [Bool.and_eq_true, Bool.not_eq_true', List.isEmpty_eq_false_iff] at h
        intro hh; exact h.2 (Option.some.inj hh)
      · simp

theorem readAux_evs {t : Nat} (rest : List Placed) :
    ∀ (ps : List Placed) (acc : List (Ev × Nat)), (∀ p ∈ ps, IsEvOf t p) →
      readCommittedAux (ps ++ rest) (some t) acc = readCommittedAux rest (some t) (acc ++ evOffs ps)
  | [], acc, _ => by simp [evOffs_nil]
  | p :: ps, acc, h => by
    obtain ⟨e, he, hs, ht⟩ := h p (by simp)
    have ih := readAux_evs rest ps (acc ++ [(e, p.off)]) (fun q hq => h q (by simp [hq]))
    rw [evOffs_cons_ev p ps e he]
    simp only [List.cons_append, readCommittedAux, he, hs, ht]
    simpa using ih

/-- events of an uncommitted tail: nothing is returned -/
theorem readAux_tail : ∀ (ps : List Placed) (pend : Option Nat) (acc : List (Ev × Nat)),
    (∀ p ∈ ps, ∃ e, p.r = .ev e ∧ e.single = false) → readCommittedAux ps pend acc = none
  | [], _, _, _ => rfl
  | p :: ps, pend, acc, h => by
    obtain ⟨e, he, hs⟩ := h p (by simp)
    simp only [readCommittedAux, he, hs, Bool.false_eq_true, if_false]
    split <;> exact readAux_tail ps _ _ (fun q hq => h q (by simp [hq]))

/-- what an event record inside a block looks like -/
theorem Block.at_event {b1 b2 : List Placed} {p : Placed} {e : Ev} (hb : Block (b1 ++ p :: b2))
    (he : p.r = .ev e) :
    (e.single = true ∧ b1 = [] ∧ b2 = []) ∨
    (∃ t b2' c n, b2 = b2' ++ [c] ∧ IsEvOf t p ∧ (∀ q ∈ b1, IsEvOf t q) ∧ (∀ q ∈ b2', IsEvOf t q) ∧
      c.r = .commit t n) := by
  generalize hl : b1 ++ p :: b2 = l at hb
  cases hb with
  | single q e' he' hs =>
    left
    cases b1 with
    | nil => simp at hl; obtain ⟨rfl, rfl⟩ := hl; rw [he] at he'; cases he'; exact ⟨hs, rfl, rfl⟩
    | cons x xs => simp at hl
  | multi ps c t hlen hps hc =>
    right
    rcases List.eq_nil_or_concat b2 with rfl | ⟨b2', c', rfl⟩
    · have := List.append_inj' hl (by simp)
      simp at this; rw [this.2, hc] at he; cases he
    · have h := List.append_inj' (s₁ := b1 ++ p :: b2') (t₁ := [c']) (s₂ := ps) (t₂ := [c])
        (by simpa using hl) (by simp)
      obtain ⟨h1, h2⟩ := h
      simp at h2; subst h2; subst h1
      exact ⟨t, b2', c', _, by simp, hps p (by simp), fun q hq => hps q (by simp [hq]),
        fun q hq => hps q (by simp [hq]), hc⟩

/-- reading from an event of a block returns that event and its later siblings -/
theorem readAux_block_suffix {b1 b2 : List Placed} {p : Placed} {e : Ev} (hb : Block (b1 ++ p :: b2))
    (he : p.r = .ev e) (rest : List Placed) :
    readCommittedAux (p :: b2 ++ rest) none [] = some (evOffs (p :: b2)) := by
  rcases hb.at_event he with ⟨hs, rfl, rfl⟩ | ⟨t, b2', c, n, rfl, ⟨e', he', hs, ht⟩, _, h2, hc⟩
  · simp [readCommittedAux, he, hs, evOffs_cons_ev p [] e he, evOffs_nil]
  · rw [he] at he'; cases he'
    subst ht
    have h := readAux_evs (t := e.tx) (c :: rest) b2' [(e, p.off)] h2
    rw [evOffs_cons_ev p _ e he, evOffs_append, evOffs_cons_commit c [] _ _ hc, evOffs_nil]
    simp only [List.cons_append, List.append_assoc, readCommittedAux, he, hs]
    simp only [List.singleton_append] at h
    simp [h, readCommittedAux, hc]

theorem visible_append_of_le (s : Nat) (a b : List Placed) (limit : Nat) (h : Contig s a)
    (hl : endFrom s a ≤ limit) : visible (a ++ b) limit = a ++ visible b limit := by
  unfold visible
  apply List.takeWhile_append_of_pos
  intro q hq
  have := (contig_mem s a h q hq).2.2
  simp; omega

/-- `readCommitted` at the offset of an event of a complete block below the limit: that event and
all its later siblings, nothing else -/
theorem readCommitted_at {s : Nat} {pre b1 b2 post : List Placed} {p : Placed} {e : Ev}
    (hc : Contig s (pre ++ (b1 ++ p :: b2) ++ post)) (hb : Block (b1 ++ p :: b2)) (he : p.r = .ev e)
    (limit : Nat) (hl : endFrom s (pre ++ (b1 ++ p :: b2)) ≤ limit) :
    readCommitted (pre ++ (b1 ++ p :: b2) ++ post) limit p.off = some (evOffs (p :: b2)) := by
  unfold readCommitted
  have hc1 := ((contig_append s _ post).1 hc).1
  rw [visible_append_of_le s _ post limit hc1 hl]
  have e1 : pre ++ (b1 ++ p :: b2) ++ visible post limit
      = (pre ++ b1) ++ p :: (b2 ++ visible post limit) := by simp
  have hc2 : Contig s ((pre ++ b1) ++ p :: b2) := by simpa using hc1
  have hc3 : Contig s ((pre ++ b1) ++ [p]) := by
    have h1 := (contig_append s (pre ++ b1) (p :: b2)).1 hc2
    exact (contig_append s (pre ++ b1) [p]).2 ⟨h1.1, h1.2.1, h1.2.2.1, trivial⟩
  rw [e1, dropWhile_contig s (pre ++ b1) p _ hc3]
  exact readAux_block_suffix hb he _

end SierraModel.Store
