/-
Under `Inv`: the abstraction is the event list of all records, all indexes together are its
hydration, and the writer-side lookups (`streamLatestW`, `nextPartSeq`) agree with the specification.
-/
import SierraModel.Lemmas.StoreInv

set_option linter.unusedSimpArgs false
set_option linter.unusedVariables false

namespace SierraModel.Store
open SierraModel.Version

theorem find_rev_flatten {α : Type} (L : List (List α)) (p : α → Bool) :
    L.flatten.reverse.find? p = L.reverse.findSome? (fun l => l.reverse.find? p) := by
  rw [List.reverse_flatten, List.find?_flatten, ← List.map_reverse, List.findSome?_map]
  rfl

/-- lookups in a hydrated index are lookups in the event list -/
theorem find_hydrate {β : Type} (recs : List Placed) (p : Entry → Bool) (p' : Ev → Bool)
    (g : Entry → β) (g' : Ev → β) (hp : ∀ e off, p (entryOf e off) = p' e)
    (hg : ∀ e off, g (entryOf e off) = g' e) :
    ((hydrate recs).reverse.find? p).map g = ((evsOf recs).reverse.find? p').map g' := by
  rw [hydrate_eq, evsOf, ← List.map_reverse, ← List.map_reverse, List.find?_map, List.find?_map]
  simp only [Option.map_map]
  have e1 : (p ∘ fun x : Ev × Nat => entryOf x.1 x.2) = (p' ∘ fun x : Ev × Nat => x.1) := by
    funext x; simp [hp]
  rw [e1]
  congr 1
  funext x; simp [hg]

theorem latest_hydrate (recs : List Placed) (st : Nat) :
    ((hydrate recs).reverse.find? (·.stream == st)).map (fun e => (e.pkey, e.version)) =
      latestOf (evsOf recs) st :=
  find_hydrate recs _ (·.stream == st) _ (fun e => (e.pkey, e.version)) (fun _ _ => rfl) (fun _ _ => rfl)

theorem seq_hydrate (recs : List Placed) (pid : Nat) :
    ((hydrate recs).reverse.find? (·.pid == pid)).map (·.seq) =
      ((evsOf recs).reverse.find? (·.pid == pid)).map (·.seq) :=
  find_hydrate recs _ (·.pid == pid) _ (·.seq) (fun _ _ => rfl) (fun _ _ => rfl)

/-- all index entries of the bucket, oldest first -/
def Bucket.allIdx (b : Bucket) : List Entry :=
  (b.sealed.map (·.index)).flatten ++ (b.live.index ++ b.live.pending)

theorem map_congr_mem {α β : Type} (l : List α) (f g : α → β) (h : ∀ a ∈ l, f a = g a) :
    l.map f = l.map g := List.map_congr_left h

theorem Inv.allIdx_eq {b : Bucket} (h : Inv b) : b.allIdx = hydrate b.allRecs := by
  unfold Bucket.allIdx Bucket.allRecs
  rw [hydrate_append, h.index_eq]
  congr 1
  unfold hydrate
  rw [List.filterMap_flatten, List.map_map]
  congr 1
  apply List.map_congr_left
  intro s hs
  exact (h.sealed_ok s hs).2.2.1

theorem Inv.abs_events {b : Bucket} (h : Inv b) : b.abs.events = evsOf b.allRecs := by
  unfold Bucket.abs Spec.events Bucket.allRecs
  simp only [List.flatten_append]
  rw [evsOf_append, committedOf_flatten h.live_blocks]
  congr 1
  unfold evsOf evOffs
  rw [List.filterMap_flatten, List.map_flatten, List.flatten_flatten]
  congr 1
  rw [List.map_map, List.map_map, List.map_map]
  apply List.map_congr_left
  intro s hs
  exact committedOf_flatten (h.sealed_ok s hs).2.1

theorem allIdx_find (b : Bucket) (p : Entry → Bool) :
    b.allIdx.reverse.find? p = (b.live.pending.reverse.find? p).or ((b.live.index.reverse.find? p).or
      (b.sealed.reverse.findSome? (fun s => s.index.reverse.find? p))) := by
  unfold Bucket.allIdx
  rw [List.reverse_append, List.reverse_append, List.find?_append, List.find?_append, find_rev_flatten,
    ← List.map_reverse, List.findSome?_map, Option.or_assoc]
  rfl

theorem Inv.streamLatestW_eq {b : Bucket} (h : Inv b) (st : Nat) :
    b.streamLatestW st = b.abs.streamLatest st := by
  rw [streamLatest_eq, h.abs_events, ← latest_hydrate, ← h.allIdx_eq, allIdx_find]
  unfold Bucket.streamLatestW lastWhere
  cases h1 : b.live.pending.reverse.find? (·.stream == st) with
  | some e => simp
  | none =>
    cases h2 : b.live.index.reverse.find? (·.stream == st) with
    | some e => simp
    | none => simp

theorem Inv.nextPartSeq_eq {b : Bucket} (h : Inv b) (pid : Nat) :
    b.nextPartSeq pid = b.abs.nextSeq pid := by
  unfold Bucket.nextPartSeq
  cases hc : b.nextSeq.find? (·.1 == pid) with
  | some kv =>
    obtain ⟨k, n⟩ := kv
    have hm := List.mem_of_find?_eq_some hc
    have hk : k = pid := by simpa using List.find?_some hc
    subst hk
    exact h.cache_ok _ _ hm
  | none =>
    have hp : b.live.pending.reverse.find? (·.pid == pid) = none := by
      rw [List.find?_eq_none]
      intro e he
      obtain ⟨n, hn⟩ := h.cache_pending e (List.mem_reverse.1 he)
      have := List.find?_eq_none.1 hc _ hn
      simpa using this
    have key : b.abs.nextSeq pid =
        ((b.allIdx.reverse.find? (·.pid == pid)).map (·.seq + 1)).getD 0 := by
      rw [nextSeq_eq, h.abs_events, h.allIdx_eq]
      have := find_hydrate b.allRecs (·.pid == pid) (·.pid == pid) (·.seq + 1) (·.seq + 1)
        (fun _ _ => rfl) (fun _ _ => rfl)
      rw [this]
      unfold nextSeqOf
      cases (evsOf b.allRecs).reverse.find? (·.pid == pid) <;> rfl
    rw [key, allIdx_find, hp]
    unfold lastWhere
    cases h2 : b.live.index.reverse.find? (·.pid == pid) with
    | some e => simp
    | none =>
      cases h3 : b.sealed.reverse.findSome? (fun s => s.index.reverse.find? (·.pid == pid)) with
      | some e => simp
      | none => simp

end SierraModel.Store
