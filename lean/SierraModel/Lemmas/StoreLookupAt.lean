/-
Event lookup finds a committed block wherever it sits, and a committed block stays where it is.
-/
import SierraModel.Lemmas.StoreQuery

set_option linter.unusedSimpArgs false
set_option linter.unusedVariables false

namespace SierraModel.Store
open SierraModel.Version

theorem mem_evsOf_iff {recs : List Placed} {e : Ev} : e ∈ evsOf recs ↔ ∃ p ∈ recs, p.r = .ev e := by
  induction recs with
  | nil => simp [evsOf_nil]
  | cons q qs ih =>
    cases hr : q.r with
    | ev e' =>
      rw [evsOf_cons_ev q qs e' hr, List.mem_cons, ih]
      constructor
      · rintro (rfl | ⟨p, hp, h⟩)
        · exact ⟨q, by simp, hr⟩
        · exact ⟨p, by simp [hp], h⟩
      · rintro ⟨p, hp, h⟩
        rcases List.mem_cons.1 hp with rfl | hp
        · rw [hr] at h; cases h; exact Or.inl rfl
        · exact Or.inr ⟨p, hp, h⟩
    | commit t n =>
      rw [evsOf_cons_commit q qs t n hr, ih]
      constructor
      · rintro ⟨p, hp, h⟩; exact ⟨p, by simp [hp], h⟩
      · rintro ⟨p, hp, h⟩
        rcases List.mem_cons.1 hp with rfl | hp
        · rw [hr] at h; cases h
        · exact ⟨p, hp, h⟩

theorem mem_evsOf_flatten {S : List (List Placed)} {recs : List Placed} {e : Ev} (hr : recs ∈ S)
    (he : e ∈ evsOf recs) : e ∈ evsOf S.flatten := by
  obtain ⟨p, hp, h⟩ := mem_evsOf_iff.1 he
  exact mem_evsOf_iff.2 ⟨p, List.mem_flatten.2 ⟨recs, hr, hp⟩, h⟩

/-- event lookup over all segments, at an event of a complete block of one of them -/
theorem readTx_at {S1 S2 : List (List Placed)} {pre b1 b2 post : List Placed} {p : Placed} {e : Ev}
    (hc : Contig SEGMENT_HEADER_SIZE (pre ++ (b1 ++ p :: b2) ++ post)) (hb : Block (b1 ++ p :: b2))
    (he : p.r = .ev e)
    (hnd : ((evsOf (S1 ++ [pre ++ (b1 ++ p :: b2) ++ post] ++ S2).flatten).map (·.eid)).Nodup) :
    readTx (S1 ++ [pre ++ (b1 ++ p :: b2) ++ post] ++ S2) e.eid = some (evOffs (p :: b2)) := by
  have hmem : e ∈ evsOf (pre ++ (b1 ++ p :: b2) ++ post) :=
    mem_evsOf_iff.2 ⟨p, by simp, he⟩
  have hfl : (S1 ++ [pre ++ (b1 ++ p :: b2) ++ post] ++ S2).flatten
      = (S1.flatten ++ (pre ++ (b1 ++ p :: b2) ++ post)) ++ S2.flatten := by simp
  rw [hfl, evsOf_append] at hnd
  have hnd1 : ((evsOf (pre ++ (b1 ++ p :: b2) ++ post)).map (·.eid)).Nodup := by
    rw [List.map_append, List.nodup_append] at hnd
    have := hnd.1
    rw [evsOf_append, List.map_append, List.nodup_append] at this
    exact this.2.1
  have hS2 : S2.reverse.findSome? (segLookup e.eid) = none := by
    rw [List.findSome?_eq_none_iff]
    intro recs' hr'
    unfold segLookup
    have : (hydrate recs').find? (·.eid == e.eid) = none := by
      rw [List.find?_eq_none]
      intro en hen
      obtain ⟨e', he', heq⟩ := mem_hydrate hen
      have h1 : e' ∈ evsOf S2.flatten := mem_evsOf_flatten (List.mem_reverse.1 hr') he'
      have h2 : e ∈ evsOf (S1.flatten ++ (pre ++ (b1 ++ p :: b2) ++ post)) := by
        rw [evsOf_append]; exact List.mem_append_right _ hmem
      have := nodup_map_append_disjoint (·.eid) _ _ hnd h2 h1
      simp only [beq_iff_eq]; rw [heq]; exact fun hh => this hh.symm
    rw [this]
  unfold readTx
  rw [List.reverse_append, List.reverse_append, List.findSome?_append, hS2]
  simp only [List.reverse_cons, List.reverse_nil, List.nil_append, List.singleton_append,
    List.findSome?_cons, Option.none_or]
  rw [segLookup_at hc hb he hnd1]
  rfl

/-- the block `blk` sits after `pre` in some segment -/
def HasBlock (b : Bucket) (pre blk : List Placed) : Prop :=
  ∃ S1 S2 post, b.segs = S1 ++ [pre ++ blk ++ post] ++ S2

theorem hasBlock_sync {b : Bucket} {pre blk : List Placed} (h : HasBlock b pre blk) :
    HasBlock b.sync pre blk := h

theorem hasBlock_rollover {b : Bucket} {pre blk : List Placed} (h : HasBlock b pre blk) :
    HasBlock b.rollover pre blk := by
  obtain ⟨S1, S2, post, e⟩ := h
  exact ⟨S1, S2 ++ [[]], post, by rw [segs_rollover, e]; simp⟩

theorem hasBlock_preRoll {b : Bucket} {pre blk : List Placed} (h : HasBlock b pre blk) (tx : Tx) :
    HasBlock (b.preRoll tx) pre blk := by
  rcases preRoll_cases b tx with e | ⟨e, _, _⟩ <;> rw [e]
  · exact h
  · exact hasBlock_rollover h

theorem segs_commitTx (b1 : Bucket) (tx : Tx) (vs : List Nat) :
    (b1.commitTx tx vs).segs = b1.sealed.map (·.recs) ++ [b1.live.recs ++ b1.txBlock tx vs] := rfl

theorem hasBlock_commitTx {b : Bucket} {pre blk : List Placed} (h : HasBlock b pre blk) (tx : Tx)
    (vs : List Nat) : HasBlock (b.commitTx tx vs) pre blk := by
  obtain ⟨S1, S2, post, e⟩ := h
  rw [Bucket.segs] at e
  rcases List.eq_nil_or_concat S2 with rfl | ⟨S2', L, rfl⟩
  · simp only [List.append_nil] at e
    have := List.append_inj' e (by simp)
    obtain ⟨h1, h2⟩ := this
    simp only [List.cons.injEq, and_true] at h2
    refine ⟨S1, [], post ++ b.txBlock tx vs, ?_⟩
    rw [segs_commitTx, h1, h2]; simp
  · have e' : b.sealed.map (·.recs) ++ [b.live.recs] = (S1 ++ [pre ++ blk ++ post] ++ S2') ++ [L] := by
      rw [e]; simp
    have := List.append_inj' e' (by simp)
    obtain ⟨h1, h2⟩ := this
    simp only [List.cons.injEq, and_true] at h2
    refine ⟨S1, S2' ++ [L ++ b.txBlock tx vs], post, ?_⟩
    rw [segs_commitTx, h1, h2]; simp

end SierraModel.Store
