/-
Numbering of the committed events (oldest first): partition sequences, stream versions, event ids;
`Spec.checkEvents` assigns versions that keep the numbering.
-/
import SierraModel.Lemmas.StoreAppend

set_option linter.unusedSimpArgs false
set_option linter.unusedVariables false

namespace SierraModel.Store
open SierraModel.Version

/-- latest (pkey, version) of a stream in an event list (oldest first) -/
def latestOf (evs : List Ev) (st : Nat) : Option (Nat × Nat) :=
  (evs.reverse.find? (·.stream == st)).map (fun e => (e.pkey, e.version))

/-- next partition sequence in an event list (oldest first) -/
def nextSeqOf (evs : List Ev) (pid : Nat) : Nat :=
  match evs.reverse.find? (·.pid == pid) with
  | some e => e.seq + 1
  | none => 0

theorem streamLatest_eq (s : Spec) (st : Nat) : s.streamLatest st = latestOf s.events st := rfl
theorem nextSeq_eq (s : Spec) (pid : Nat) : s.nextSeq pid = nextSeqOf s.events pid := rfl

/-- newest first: every event carries the next sequence of its partition -/
def SeqOkR : List Ev → Prop
  | [] => True
  | e :: older => SeqOkR older ∧ e.seq = nextSeqOf older.reverse e.pid

/-- newest first: every event carries the next version of its stream and the stream's partition key -/
def VerOkR : List Ev → Prop
  | [] => True
  | e :: older => VerOkR older ∧
      (match latestOf older.reverse e.stream with
       | some (k, v) => e.pkey = k ∧ e.version = v + 1
       | none => e.version = 0)

def SeqOk (evs : List Ev) : Prop := SeqOkR evs.reverse
def VerOk (evs : List Ev) : Prop := VerOkR evs.reverse

theorem seqOk_snoc (evs : List Ev) (e : Ev) :
    SeqOk (evs ++ [e]) ↔ SeqOk evs ∧ e.seq = nextSeqOf evs e.pid := by
  simp [SeqOk, SeqOkR]

theorem verOk_snoc (evs : List Ev) (e : Ev) :
    VerOk (evs ++ [e]) ↔ VerOk evs ∧
      (match latestOf evs e.stream with
       | some (k, v) => e.pkey = k ∧ e.version = v + 1
       | none => e.version = 0) := by
  simp [VerOk, VerOkR]

theorem latestOf_snoc (evs : List Ev) (e : Ev) (st : Nat) :
    latestOf (evs ++ [e]) st = if e.stream = st then some (e.pkey, e.version) else latestOf evs st := by
  simp only [latestOf, List.reverse_append, List.reverse_cons, List.reverse_nil, List.nil_append,
    List.singleton_append, List.find?_cons]
  by_cases h : e.stream = st
  · simp [h]
  · have hb : (e.stream == st) = false := by simpa using h
    simp [h, hb]

theorem nextSeqOf_snoc (evs : List Ev) (e : Ev) (pid : Nat) :
    nextSeqOf (evs ++ [e]) pid = if e.pid = pid then e.seq + 1 else nextSeqOf evs pid := by
  simp only [nextSeqOf, List.reverse_append, List.reverse_cons, List.reverse_nil, List.nil_append,
    List.singleton_append, List.find?_cons]
  by_cases h : e.pid = pid
  · simp [h]
  · have hb : (e.pid == pid) = false := by simpa using h
    simp [h, hb]

section mk
variable (pkey pid txId : Nat) (single : Bool)

theorem seqOk_append_mkEvs : ∀ (es : List NewEv) (vs : List Nat) (evs : List Ev), SeqOk evs →
    SeqOk (evs ++ mkEvs pkey pid txId single es vs (nextSeqOf evs pid))
  | [], _, evs, h => by simpa [mkEvs] using h
  | e :: es, [], evs, h => by simpa [mkEvs] using h
  | e :: es, v :: vs, evs, h => by
    simp only [mkEvs]
    have h1 : SeqOk (evs ++ [mkEv pkey pid txId single e v (nextSeqOf evs pid)]) :=
      (seqOk_snoc _ _).2 ⟨h, by simp [mkEv]⟩
    have h2 := seqOk_append_mkEvs es vs _ h1
    rw [nextSeqOf_snoc] at h2
    simpa [mkEv] using h2

theorem nextSeqOf_append_mkEvs : ∀ (es : List NewEv) (vs : List Nat) (evs : List Ev) (seq pid' : Nat),
    es.length = vs.length →
    nextSeqOf (evs ++ mkEvs pkey pid txId single es vs seq) pid' =
      if pid = pid' ∧ es ≠ [] then seq + es.length else nextSeqOf evs pid'
  | [], _, evs, _, _, _ => by simp [mkEvs]
  | e :: es, [], evs, _, _, h => by simp at h
  | e :: es, v :: vs, evs, seq, pid', h => by
    simp only [mkEvs]
    have := nextSeqOf_append_mkEvs es vs (evs ++ [mkEv pkey pid txId single e v seq]) (seq + 1) pid'
      (by simpa using h)
    simp only [List.append_assoc, List.singleton_append] at this
    rw [this, nextSeqOf_snoc]
    by_cases hp : pid = pid'
    · subst hp
      cases es with
      | nil => simp [mkEv]
      | cons x xs => simp; omega
    · simp [hp, mkEv]

theorem mkEvs_eids : ∀ (es : List NewEv) (vs : List Nat) (seq : Nat), es.length = vs.length →
    (mkEvs pkey pid txId single es vs seq).map (·.eid) = es.map (·.eid)
  | [], _, _, _ => by simp [mkEvs]
  | e :: es, [], _, h => by simp at h
  | e :: es, v :: vs, seq, h => by
    simp [mkEvs, mkEv, mkEvs_eids es vs (seq + 1) (by simpa using h)]

theorem mkEvs_mem : ∀ (es : List NewEv) (vs : List Nat) (seq : Nat),
    ∀ x ∈ mkEvs pkey pid txId single es vs seq,
      x.pkey = pkey ∧ x.pid = pid ∧ x.tx = txId ∧ x.single = single ∧ ∃ e ∈ es, x.eid = e.eid ∧ x.stream = e.stream
  | [], _, _ => by simp [mkEvs]
  | e :: es, [], _ => by simp [mkEvs]
  | e :: es, v :: vs, seq => by
    intro x hx
    simp only [mkEvs, List.mem_cons] at hx
    rcases hx with rfl | hx
    · exact ⟨rfl, rfl, rfl, rfl, e, by simp, rfl, rfl⟩
    · obtain ⟨a, b, c, d, y, hy, hy2⟩ := mkEvs_mem es vs _ x hx
      exact ⟨a, b, c, d, y, by simp [hy], hy2⟩

end mk

theorem find_filter_ne : ∀ (seen : List (Nat × Nat)) (a st : Nat), st ≠ a →
    (seen.filter (·.1 != a)).find? (·.1 == st) = seen.find? (·.1 == st)
  | [], _, _, _ => rfl
  | x :: xs, a, st, h => by
    by_cases hx : x.1 = a
    · have h1 : (x.1 != a) = false := by simp [hx]
      have h2 : (x.1 == st) = false := by simp [hx]; omega
      simp only [List.filter_cons, h1, Bool.false_eq_true, if_false, List.find?_cons, h2]
      exact find_filter_ne xs a st h
    · have h1 : (x.1 != a) = true := by simp [hx]
      simp only [List.filter_cons, h1, if_true, List.find?_cons]
      rw [find_filter_ne xs a st h]

/-- the versions `Spec.checkEvents` assigns continue the stream numbering -/
theorem checkEvents_verOk (s : Spec) (pkey pid txId : Nat) (single : Bool) :
    ∀ (es : List NewEv) (seen : List (Nat × Nat)) (vs : List Nat) (cur : List Ev) (seq : Nat),
      s.checkEvents pkey es seen = .ok vs →
      (∀ st, seen.find? (·.1 == st) = none → latestOf cur st = s.streamLatest st) →
      (∀ st k v, seen.find? (·.1 == st) = some (k, v) → latestOf cur st = some (pkey, v)) →
      VerOk cur → VerOk (cur ++ mkEvs pkey pid txId single es vs seq) ∧ vs.length = es.length
  | [], seen, vs, cur, seq, h, _, _, hv => by
    simp [Spec.checkEvents] at h; subst h; simpa [mkEvs] using hv
  | e :: es, seen, vs, cur, seq, h, hA, hB, hv => by
    unfold Spec.checkEvents at h
    -- the current version `c` the specification sees, and what it means for `cur`
    have key : ∀ (c : Option Nat),
        (match c with | some v => latestOf cur e.stream = some (pkey, v) | none => latestOf cur e.stream = none) →
        (s.checkEvents pkey es ((e.stream, nextV c) :: seen.filter (·.1 != e.stream))).map (nextV c :: ·) = .ok vs →
        VerOk (cur ++ mkEvs pkey pid txId single (e :: es) vs seq) ∧ vs.length = (e :: es).length := by
      intro c hc hrec
      cases hr : s.checkEvents pkey es ((e.stream, nextV c) :: seen.filter (·.1 != e.stream)) with
      | error err => simp [hr, Except.map] at hrec
      | ok vs' =>
        simp [hr, Except.map] at hrec; subst hrec
        let ev := mkEv pkey pid txId single e (nextV c) seq
        have hv1 : VerOk (cur ++ [ev]) := by
          refine (verOk_snoc _ _).2 ⟨hv, ?_⟩
          cases c with
          | some v => simp only [ev, mkEv] at *; rw [hc]; simp [nextV]
          | none => simp only [ev, mkEv] at *; rw [hc]; simp [nextV]
        have ih := checkEvents_verOk s pkey pid txId single es _ vs' (cur ++ [ev]) (seq + 1) hr
          (by
            intro st hst
            by_cases hse : st = e.stream
            · subst hse; simp at hst
            · have h2 : (e.stream == st) = false := by simp; omega
              simp only [List.find?_cons, h2] at hst
              rw [find_filter_ne seen e.stream st hse] at hst
              rw [latestOf_snoc]; simp only [ev, mkEv]
              rw [if_neg (by omega)]; exact hA st hst)
          (by
            intro st k v hst
            by_cases hse : st = e.stream
            · subst hse; simp at hst
              rw [latestOf_snoc]; simp [ev, mkEv, hst.2]
            · have h2 : (e.stream == st) = false := by simp; omega
              simp only [List.find?_cons, h2] at hst
              rw [find_filter_ne seen e.stream st hse] at hst
              rw [latestOf_snoc]; simp only [ev, mkEv]
              rw [if_neg (by omega)]; exact hB st k v hst)
          hv1
        refine ⟨?_, by simp [ih.2]⟩
        simp only [mkEvs]
        have := ih.1
        simpa [ev] using this
    cases hf : seen.find? (·.1 == e.stream) with
    | some kv =>
      obtain ⟨k, v⟩ := kv
      simp only [hf] at h
      by_cases hacc : storeAccepts e.expected (.current v) = true
      · simp only [hacc, Bool.not_true, Bool.false_eq_true, if_false] at h
        exact key (some v) (hB _ _ _ hf) h
      · simp [hacc] at h
    | none =>
      simp only [hf] at h
      have hlat := hA _ hf
      cases hs : s.streamLatest e.stream with
      | some kv =>
        obtain ⟨k, v⟩ := kv
        simp only [hs] at h
        by_cases hk : k = pkey
        · subst hk
          simp only [bne_self_eq_false, Bool.false_eq_true, if_false] at h
          by_cases hacc : storeAccepts e.expected (.current v) = true
          · simp only [hacc, Bool.not_true, Bool.false_eq_true, if_false] at h
            exact key (some v) (by rw [hlat, hs]) h
          · simp [hacc] at h
        · simp [hk] at h
      | none =>
        simp only [hs] at h
        by_cases hacc : storeAccepts e.expected .empty = true
        · simp only [hacc, Bool.not_true, Bool.false_eq_true, if_false] at h
          exact key none (by rw [hlat, hs]) h
        · simp [hacc] at h

/-- the events `Spec.append` builds are `mkEvs` -/
theorem spec_evs_eq (pkey pid txId : Nat) (single : Bool) (next : Nat) :
    ∀ (es : List NewEv) (vs : List Nat) (k : Nat),
      ((es.zip vs).zipIdx k).map (fun (x : (NewEv × Nat) × Nat) =>
        ({ eid := x.1.1.eid, pkey := pkey, pid := pid, seq := next + x.2, stream := x.1.1.stream,
           version := x.1.2, tx := txId, single := single } : Ev)) =
      mkEvs pkey pid txId single es vs (next + k)
  | [], _, _ => by simp [mkEvs]
  | e :: es, [], _ => by simp [mkEvs]
  | e :: es, v :: vs, k => by
    simp only [List.zip_cons_cons, List.zipIdx_cons, List.map_cons, mkEvs, mkEv]
    rw [spec_evs_eq pkey pid txId single next es vs (k + 1)]
    rfl

theorem spec_append_ok (s : Spec) (tx : Tx) (vs : List Nat)
    (h1 : s.checkEvents tx.pkey tx.events [] = .ok vs)
    (h2 : storeAccepts tx.expectedSeq
      (if (s.nextSeq tx.pid == 0) = true then .empty else .current (s.nextSeq tx.pid - 1)) = true)
    (h3 : ∀ e ∈ tx.events, e.tsOk = true) :
    s.append tx = .ok ({ txs := s.txs ++ [mkEvs tx.pkey tx.pid tx.txId (tx.events.length == 1) tx.events vs
      (s.nextSeq tx.pid)] }, s.nextSeq tx.pid, s.nextSeq tx.pid + tx.events.length - 1) := by
  unfold Spec.append
  have h3' : tx.events.any (fun e => !e.tsOk) = false := by
    rw [List.any_eq_false]; intro e he; simp [h3 e he]
  simp only [h1, h2, h3', Bool.not_true, Bool.false_eq_true, if_false]
  have := spec_evs_eq tx.pkey tx.pid tx.txId (tx.events.length == 1) (s.nextSeq tx.pid) tx.events vs 0
  simp only [Nat.add_zero] at this
  rw [← this]

end SierraModel.Store
