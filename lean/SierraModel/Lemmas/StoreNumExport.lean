/-
Readable consequences of the numbering invariants `SeqOk` / `VerOk` (Inv (v)): sequences of a
partition are 0,1,2,…; versions of a stream are 0,1,2,…; one partition key per stream.
-/
import SierraModel.Lemmas.StoreVersions

set_option linter.unusedSimpArgs false
set_option linter.unusedVariables false

namespace SierraModel.Store
open SierraModel.Version

/-- number of events of a stream so far, read off its latest version -/
def verCount (evs : List Ev) (st : Nat) : Nat :=
  match latestOf evs st with
  | some (_, v) => v + 1
  | none => 0

theorem seqOkR_range : ∀ (l : List Ev), SeqOkR l → ∀ pid,
    (l.reverse.filter (·.pid == pid)).map (·.seq) = List.range (nextSeqOf l.reverse pid)
  | [], _, pid => by simp [nextSeqOf]
  | e :: older, ⟨h1, h2⟩, pid => by
    have ih := seqOkR_range older h1 pid
    rw [List.reverse_cons, List.filter_append, List.map_append, ih, nextSeqOf_snoc]
    by_cases hp : e.pid = pid
    · subst hp
      simp only [List.filter_cons, beq_self_eq_true, if_true, List.filter_nil, List.map_cons, List.map_nil]
      rw [h2, List.range_succ]
    · have : (e.pid == pid) = false := by simpa using hp
      simp [List.filter_cons, this, hp]

/-- per partition id the sequences are 0,1,2,… in log order -/
theorem SeqOk.range {evs : List Ev} (h : SeqOk evs) (pid : Nat) :
    (evs.filter (·.pid == pid)).map (·.seq) = List.range (nextSeqOf evs pid) := by
  have := seqOkR_range evs.reverse h pid
  simpa using this

theorem verCount_snoc (evs : List Ev) (e : Ev) (st : Nat) :
    verCount (evs ++ [e]) st = if e.stream = st then e.version + 1 else verCount evs st := by
  unfold verCount; rw [latestOf_snoc]
  by_cases h : e.stream = st <;> simp [h]

theorem verOkR_range : ∀ (l : List Ev), VerOkR l → ∀ st,
    (l.reverse.filter (·.stream == st)).map (·.version) = List.range (verCount l.reverse st)
  | [], _, st => by simp [verCount, latestOf]
  | e :: older, ⟨h1, h2⟩, st => by
    have ih := verOkR_range older h1 st
    rw [List.reverse_cons, List.filter_append, List.map_append, ih, verCount_snoc]
    by_cases hp : e.stream = st
    · subst hp
      simp only [List.filter_cons, beq_self_eq_true, if_true, List.filter_nil, List.map_cons, List.map_nil]
      have : e.version = verCount older.reverse e.stream := by
        unfold verCount
        cases hl : latestOf older.reverse e.stream with
        | none => rw [hl] at h2; exact h2
        | some kv => obtain ⟨k, v⟩ := kv; rw [hl] at h2; exact h2.2
      rw [← this, List.range_succ]
    · have : (e.stream == st) = false := by simpa using hp
      simp [List.filter_cons, this, hp]

/-- per stream the versions are 0,1,2,… in log order -/
theorem VerOk.range {evs : List Ev} (h : VerOk evs) (st : Nat) :
    (evs.filter (·.stream == st)).map (·.version) = List.range (verCount evs st) := by
  have := verOkR_range evs.reverse h st
  simpa using this

theorem verOkR_pkey : ∀ (l : List Ev), VerOkR l → ∀ e ∈ l, ∃ v, latestOf l.reverse e.stream = some (e.pkey, v)
  | [], _, e, he => by simp at he
  | x :: older, ⟨h1, h2⟩, e, he => by
    rw [List.reverse_cons, latestOf_snoc]
    rcases List.mem_cons.1 he with rfl | he
    · exact ⟨e.version, by simp⟩
    · obtain ⟨v, hv⟩ := verOkR_pkey older h1 e he
      by_cases hs : x.stream = e.stream
      · rw [hs, hv] at h2
        exact ⟨x.version, by simp [hs, h2.1]⟩
      · exact ⟨v, by simp [hs, hv]⟩

/-- all events of a stream carry the stream's partition key -/
theorem VerOk.one_pkey {evs : List Ev} (h : VerOk evs) {e1 e2 : Ev} (h1 : e1 ∈ evs) (h2 : e2 ∈ evs)
    (hs : e1.stream = e2.stream) : e1.pkey = e2.pkey := by
  obtain ⟨v1, hv1⟩ := verOkR_pkey evs.reverse h e1 (List.mem_reverse.2 h1)
  obtain ⟨v2, hv2⟩ := verOkR_pkey evs.reverse h e2 (List.mem_reverse.2 h2)
  rw [hs, hv2] at hv1
  simp only [Option.some.injEq, Prod.mk.injEq] at hv1
  exact hv1.1.symm

/-! ### Inv (v), (vi), (vii) as named projections -/

theorem Inv.seqs_range {b : Bucket} (h : Inv b) (pid : Nat) :
    (b.abs.events.filter (·.pid == pid)).map (·.seq) = List.range (b.abs.nextSeq pid) := h.seq_ok.range pid

theorem Inv.versions_range {b : Bucket} (h : Inv b) (st : Nat) :
    (b.abs.events.filter (·.stream == st)).map (·.version) = List.range (verCount b.abs.events st) :=
  h.ver_ok.range st

theorem Inv.stream_one_pkey {b : Bucket} (h : Inv b) {e1 e2 : Ev} (h1 : e1 ∈ b.abs.events)
    (h2 : e2 ∈ b.abs.events) (hs : e1.stream = e2.stream) : e1.pkey = e2.pkey := h.ver_ok.one_pkey h1 h2 hs

theorem Inv.tx_in_one_segment {b : Bucket} (h : Inv b) : ∀ recs ∈ b.segs, Blocks recs := by
  intro recs hr
  simp only [Bucket.segs, List.mem_append, List.mem_map, List.mem_singleton] at hr
  rcases hr with ⟨s, hs, rfl⟩ | rfl
  · exact (h.sealed_ok s hs).2.1
  · exact h.live_blocks

end SierraModel.Store

namespace SierraModel.Store

/-- states reachable by a valid client-level history from a fresh bucket -/
def Reachable (b : Bucket) : Prop :=
  ∃ (segSize : Nat) (c : Bool) (ops : List Op),
    RunOk (Bucket.new segSize c) ops ∧ b = (Bucket.new segSize c).run ops

theorem Reachable.cinv {b : Bucket} (h : Reachable b) : CInv b := by
  obtain ⟨s, c, ops, ok, rfl⟩ := h
  exact cinv_run ops _ (cinv_new s c) ok

theorem Reachable.run {b : Bucket} (h : Reachable b) {ops : List Op} (ok : RunOk b ops) :
    Reachable (b.run ops) := by
  obtain ⟨s, c, ops0, ok0, rfl⟩ := h
  exact ⟨s, c, ops0 ++ ops, (runOk_append _ _ _).2 ⟨ok0, ok⟩, (run_append _ _ _).symm⟩

/-- states reachable by a valid raw history (`appendTx` without the client's wait, `sync`) -/
def RawReachable (b : Bucket) : Prop :=
  ∃ (segSize : Nat) (c : Bool) (ops : List RawOp),
    RawRunOk (Bucket.new segSize c) ops ∧ b = (Bucket.new segSize c).rawRun ops

theorem RawReachable.inv {b : Bucket} (h : RawReachable b) : Inv b := by
  obtain ⟨s, c, ops, ok, rfl⟩ := h
  exact inv_rawRun ops _ (inv_new s c) ok

end SierraModel.Store
