/-
Preservation of `Inv`: `Bucket.new`, `sync`, `rollover`, the pre-append rollover decision.
-/
import SierraModel.Lemmas.StoreRes

set_option linter.unusedSimpArgs false
set_option linter.unusedVariables false

namespace SierraModel.Store
open SierraModel.Version

theorem inv_new (segSize : Nat) (c : Bool) : Inv (Bucket.new segSize c) where
  sealed_ok := by simp [Bucket.new]
  live_contig := by simp [Bucket.new, Contig]
  writeOff_eq := by simp [Bucket.new, endFrom_nil]
  live_split := ⟨[], [], rfl, Blocks.nil, Blocks.nil, rfl, rfl, by simp [Bucket.new, endFrom_nil]⟩
  watch_eq := rfl
  seq_ok := by simp [Bucket.new, Bucket.abs, Spec.events, committedOf_nil, SeqOk, SeqOkR]
  ver_ok := by simp [Bucket.new, Bucket.abs, Spec.events, committedOf_nil, VerOk, VerOkR]
  eid_nodup := by simp [Bucket.new, Bucket.abs, Spec.events, committedOf_nil]
  tx_distinct := by simp [Bucket.new, Bucket.abs, committedOf_nil]
  tx_uniform := by simp [Bucket.new, Bucket.abs, committedOf_nil]
  cache_ok := by simp [Bucket.new]
  cache_pending := by simp [Bucket.new]
  ids := by simp [Bucket.new]

theorem synced_new (segSize : Nat) (c : Bool) : Synced (Bucket.new segSize c) := ⟨rfl, rfl, rfl⟩

theorem abs_sync (b : Bucket) : b.sync.abs = b.abs := rfl
theorem allRecs_sync (b : Bucket) : b.sync.allRecs = b.allRecs := rfl
theorem synced_sync (b : Bucket) : Synced b.sync := ⟨rfl, rfl, rfl⟩

theorem inv_sync {b : Bucket} (h : Inv b) : Inv b.sync where
  sealed_ok := h.sealed_ok
  live_contig := h.live_contig
  writeOff_eq := h.writeOff_eq
  live_split := by
    obtain ⟨pre, post, e, h1, h2, h3, h4, h5⟩ := h.live_split
    refine ⟨pre ++ post, [], by simp [Bucket.sync, e], h1.append h2, Blocks.nil, ?_, rfl, ?_⟩
    · simp [Bucket.sync, h3, h4, hydrate_append]
    · show b.live.writeOff = _
      rw [h.writeOff_eq, e]
  watch_eq := rfl
  seq_ok := h.seq_ok
  ver_ok := h.ver_ok
  eid_nodup := h.eid_nodup
  tx_distinct := h.tx_distinct
  tx_uniform := h.tx_uniform
  cache_ok := h.cache_ok
  cache_pending := by simp [Bucket.sync]
  ids := h.ids

theorem abs_rollover (b : Bucket) : b.rollover.abs = b.abs := by
  simp [Bucket.rollover, Bucket.sync, Bucket.abs, committedOf_nil]

theorem allRecs_rollover (b : Bucket) : b.rollover.allRecs = b.allRecs := by
  simp [Bucket.rollover, Bucket.sync, Bucket.allRecs]

theorem synced_rollover (b : Bucket) : Synced b.rollover := ⟨rfl, rfl, rfl⟩

theorem inv_rollover {b : Bucket} (h : Inv b) (hw : b.live.writeOff > SEGMENT_HEADER_SIZE) :
    Inv b.rollover where
  sealed_ok := by
    intro s hs
    simp only [Bucket.rollover, Bucket.sync, List.mem_append, List.mem_singleton] at hs
    rcases hs with hs | rfl
    · exact h.sealed_ok s hs
    · refine ⟨h.live_contig, h.live_blocks, h.index_eq, ?_⟩
      intro hnil
      have := h.writeOff_eq
      simp only [] at hnil
      rw [hnil, endFrom_nil] at this
      omega
  live_contig := by simp [Bucket.rollover, Contig]
  writeOff_eq := by simp [Bucket.rollover, endFrom_nil]
  live_split := ⟨[], [], rfl, Blocks.nil, Blocks.nil, rfl, rfl, by simp [Bucket.rollover, endFrom_nil]⟩
  watch_eq := rfl
  seq_ok := by rw [abs_rollover]; exact h.seq_ok
  ver_ok := by rw [abs_rollover]; exact h.ver_ok
  eid_nodup := by rw [abs_rollover]; exact h.eid_nodup
  tx_distinct := by rw [abs_rollover]; exact h.tx_distinct
  tx_uniform := by rw [abs_rollover]; exact h.tx_uniform
  cache_ok := by rw [abs_rollover]; exact h.cache_ok
  cache_pending := by simp [Bucket.rollover]
  ids := by
    obtain ⟨h1, h2⟩ := h.ids
    constructor
    · simp only [Bucket.rollover, Bucket.sync, List.map_append, List.map_cons, List.map_nil,
        List.length_append, List.length_cons, List.length_nil]
      rw [List.range_succ, h1, h2]
    · simp [Bucket.rollover, Bucket.sync, h2]

theorem preRoll_cases (b : Bucket) (tx : Tx) :
    (b.preRoll tx = b) ∨
    (b.preRoll tx = b.rollover ∧ b.live.writeOff > SEGMENT_HEADER_SIZE ∧ b.live.writeOff + b.upper tx > b.segSize) := by
  unfold Bucket.preRoll
  split
  · rename_i hc
    simp only [Bool.and_eq_true, decide_eq_true_eq] at hc
    exact Or.inr ⟨rfl, hc.1, hc.2⟩
  · exact Or.inl rfl

theorem abs_preRoll (b : Bucket) (tx : Tx) : (b.preRoll tx).abs = b.abs := by
  rcases preRoll_cases b tx with h | ⟨h, _, _⟩ <;> rw [h]
  exact abs_rollover b

theorem allRecs_preRoll (b : Bucket) (tx : Tx) : (b.preRoll tx).allRecs = b.allRecs := by
  rcases preRoll_cases b tx with h | ⟨h, _, _⟩ <;> rw [h]
  exact allRecs_rollover b

theorem inv_preRoll {b : Bucket} (h : Inv b) (tx : Tx) : Inv (b.preRoll tx) := by
  rcases preRoll_cases b tx with e | ⟨e, hw, _⟩ <;> rw [e]
  · exact h
  · exact inv_rollover h hw

theorem synced_preRoll {b : Bucket} (h : Synced b) (tx : Tx) : Synced (b.preRoll tx) := by
  rcases preRoll_cases b tx with e | ⟨e, _, _⟩ <;> rw [e]
  · exact h
  · exact synced_rollover b

theorem txOk_preRoll {b : Bucket} {tx : Tx} (h : TxOk b tx) : TxOk (b.preRoll tx) tx := by
  unfold TxOk Bucket.eids Bucket.txIds at *
  rw [allRecs_preRoll]; exact h

end SierraModel.Store
