/-
Event lookup (`Bucket.readTransaction`) in synced states, in terms of the segments' record lists.
-/
import SierraModel.Lemmas.StoreC02b

set_option linter.unusedSimpArgs false
set_option linter.unusedVariables false

namespace SierraModel.Store
open SierraModel.Version

/-- record lists of all segments, oldest first -/
def Bucket.segs (b : Bucket) : List (List Placed) := b.sealed.map (·.recs) ++ [b.live.recs]

def endMax (recs : List Placed) : Nat := recs.foldl (fun a p => max a (p.off + p.size)) 0

/-- lookup of an event id in one segment -/
def segLookup (eid : Nat) (recs : List Placed) : Option (Option (List (Ev × Nat))) :=
  match (hydrate recs).find? (·.eid == eid) with
  | some e => some (readCommitted recs (endMax recs) e.off)
  | none => none

/-- event lookup over the segments, newest first -/
def readTx (segs : List (List Placed)) (eid : Nat) : Option (List (Ev × Nat)) :=
  (segs.reverse.findSome? (segLookup eid)).join

theorem allRecs_eq_segs (b : Bucket) : b.allRecs = b.segs.flatten := by
  simp [Bucket.allRecs, Bucket.segs]

theorem readCommitted_limit (recs : List Placed) (l1 l2 off : Nat)
    (h1 : ∀ p ∈ recs, p.off + p.size ≤ l1) (h2 : ∀ p ∈ recs, p.off + p.size ≤ l2) :
    readCommitted recs l1 off = readCommitted recs l2 off := by
  unfold readCommitted
  rw [visible_all recs l1 h1, visible_all recs l2 h2]

theorem findSome_congr_mem {α β : Type} (f g : α → Option β) :
    ∀ (l : List α), (∀ a ∈ l, f a = g a) → l.findSome? f = l.findSome? g
  | [], _ => rfl
  | a :: l, h => by
    simp only [List.findSome?_cons, h a (by simp)]
    rw [findSome_congr_mem f g l (fun x hx => h x (by simp [hx]))]

/-- in a synced state event lookup only depends on the segments' record lists -/
theorem readTransaction_eq {b : Bucket} (h : Inv b) (hs : Synced b) (eid : Nat) :
    b.readTransaction eid = readTx b.segs eid := by
  have hidx := h.synced_index hs
  have hlim : ∀ off, readCommitted b.live.recs b.live.durable off
      = readCommitted b.live.recs (endMax b.live.recs) off := by
    intro off
    apply readCommitted_limit
    · intro p hp
      rw [hs.2.1, h.writeOff_eq]
      exact (contig_mem _ _ h.live_contig p hp).2.2
    · exact (foldl_max_ge _ 0).2
  have hsealed : ∀ f : Sealed → Option (Option (List (Ev × Nat))),
      (∀ s ∈ b.sealed, f s = segLookup eid s.recs) →
      b.sealed.reverse.findSome? f = (b.sealed.map (·.recs)).reverse.findSome? (segLookup eid) := by
    intro f hf
    rw [← List.map_reverse, List.findSome?_map]
    apply findSome_congr_mem
    intro s hs'
    exact hf s (List.mem_reverse.1 hs')
  have hlive : segLookup eid b.live.recs =
      (b.live.index.find? (·.eid == eid)).map (fun e => readCommitted b.live.recs b.live.durable e.off) := by
    unfold segLookup; rw [← hidx]
    cases b.live.index.find? (·.eid == eid) <;> simp [hlim]
  unfold Bucket.readTransaction readTx Bucket.segs
  rw [List.reverse_append, List.reverse_cons, List.reverse_nil, List.nil_append, List.singleton_append,
    List.findSome?_cons, hlive]
  rw [hsealed _ (by
    intro s hs'
    have := (h.sealed_ok s hs').2.2.1
    simp only [segLookup, endMax, this]
    cases List.find? (fun x => x.eid == eid) (hydrate s.recs) <;> rfl)]
  cases hf : b.live.index.find? (·.eid == eid) <;> simp

/-- every record of a well-formed list lies in one of its blocks -/
theorem Blocks.split_mem {recs : List Placed} (h : Blocks recs) {p : Placed} (hp : p ∈ recs) :
    ∃ pre b1 b2 post, recs = pre ++ (b1 ++ p :: b2) ++ post ∧ Block (b1 ++ p :: b2) ∧ Blocks pre := by
  induction h with
  | nil => simp at hp
  | cons blk rest hb _ ih =>
    rcases List.mem_append.1 hp with hp | hp
    · obtain ⟨b1, b2, rfl⟩ := List.append_of_mem hp
      exact ⟨[], b1, b2, rest, by simp, hb, Blocks.nil⟩
    · obtain ⟨pre, b1, b2, post, e, hb', hpre⟩ := ih hp
      refine ⟨blk ++ pre, b1, b2, post, ?_, hb', Blocks.cons _ _ hb hpre⟩
      rw [e]; simp

theorem segLookup_nil (eid : Nat) : segLookup eid [] = none := rfl

theorem readTx_snoc_nil (segs : List (List Placed)) (eid : Nat) :
    readTx (segs ++ [[]]) eid = readTx segs eid := by
  unfold readTx
  rw [List.reverse_append, List.reverse_cons, List.reverse_nil, List.nil_append, List.singleton_append,
    List.findSome?_cons, segLookup_nil]

theorem segs_rollover (b : Bucket) : b.rollover.segs = b.segs ++ [[]] := by
  simp [Bucket.segs, Bucket.rollover, Bucket.sync]

theorem readTx_preRoll (b : Bucket) (tx : Tx) (eid : Nat) :
    readTx (b.preRoll tx).segs eid = readTx b.segs eid := by
  rcases preRoll_cases b tx with h | ⟨h, _, _⟩ <;> rw [h]
  rw [segs_rollover, readTx_snoc_nil]

theorem mem_hydrate {recs : List Placed} {en : Entry} (h : en ∈ hydrate recs) :
    ∃ e ∈ evsOf recs, en.eid = e.eid := by
  rw [hydrate_eq] at h
  obtain ⟨x, hx, rfl⟩ := List.mem_map.1 h
  exact ⟨x.1, List.mem_map.2 ⟨x, hx, rfl⟩, rfl⟩

theorem nodup_map_append_disjoint {α β : Type} (f : α → β) (l1 l2 : List α)
    (h : ((l1 ++ l2).map f).Nodup) {a b : α} (ha : a ∈ l1) (hb : b ∈ l2) : f a ≠ f b := by
  rw [List.map_append, List.nodup_append] at h
  exact h.2.2 _ (List.mem_map.2 ⟨a, ha, rfl⟩) _ (List.mem_map.2 ⟨b, hb, rfl⟩)

theorem contig_last : ∀ (s : Nat) (l : List Placed), Contig s l → l ≠ [] →
    ∃ q ∈ l, q.off + q.size = endFrom s l
  | s, [], _, h => absurd rfl h
  | s, [q], h, _ => ⟨q, by simp, by rw [endFrom_cons, endFrom_nil, h.1]⟩
  | s, q :: q' :: r, h, _ => by
    obtain ⟨x, hx, hx2⟩ := contig_last (s + q.size) (q' :: r) h.2.2 (by simp)
    exact ⟨x, by simp [hx], by rw [endFrom_cons, hx2]⟩

/-- event lookup in one segment, at an event of a complete block -/
theorem segLookup_at {pre b1 b2 post : List Placed} {p : Placed} {e : Ev}
    (hc : Contig SEGMENT_HEADER_SIZE (pre ++ (b1 ++ p :: b2) ++ post)) (hb : Block (b1 ++ p :: b2))
    (he : p.r = .ev e) (hnd : ((evsOf (pre ++ (b1 ++ p :: b2) ++ post)).map (·.eid)).Nodup) :
    segLookup e.eid (pre ++ (b1 ++ p :: b2) ++ post) = some (some (evOffs (p :: b2))) := by
  have e1 : pre ++ (b1 ++ p :: b2) ++ post = (pre ++ b1) ++ p :: (b2 ++ post) := by simp
  have hfind : (hydrate (pre ++ (b1 ++ p :: b2) ++ post)).find? (·.eid == e.eid)
      = some (entryOf e p.off) := by
    rw [e1, hydrate_append, List.find?_append]
    have hnone : (hydrate (pre ++ b1)).find? (·.eid == e.eid) = none := by
      rw [List.find?_eq_none]
      intro en hen
      obtain ⟨e', he', heq⟩ := mem_hydrate hen
      rw [e1, evsOf_append, evsOf_cons_ev p _ e he] at hnd
      have := nodup_map_append_disjoint (·.eid) _ _ hnd he' (List.mem_cons_self)
      simp only [beq_iff_eq]; rw [heq]; exact this
    rw [hnone]
    have : hydrate (p :: (b2 ++ post)) = entryOf e p.off :: hydrate (b2 ++ post) := by
      simp [hydrate, he]
    rw [this]
    simp [entryOf]
  unfold segLookup
  rw [hfind]
  simp only [entryOf]
  congr 1
  exact readCommitted_at hc hb he _ (by
    have hc1 := ((contig_append _ _ post).1 hc).1
    obtain ⟨q, hq, hq2⟩ := contig_last _ _ hc1 (by simp)
    rw [← hq2]
    exact (foldl_max_ge _ 0).2 q (by simp only [List.mem_append] at hq ⊢; exact Or.inl hq))

end SierraModel.Store
