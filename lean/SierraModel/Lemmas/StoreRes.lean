/-
`appendTx_res`: under `Inv`, the outcome of `appendTx` is one of the `AppendRes` cases.
-/
import SierraModel.Lemmas.StoreStep

set_option linter.unusedSimpArgs false
set_option linter.unusedVariables false

namespace SierraModel.Store
open SierraModel.Version

theorem preRoll_segSize (b : Bucket) (tx : Tx) : (b.preRoll tx).segSize = b.segSize := by
  unfold Bucket.preRoll; split <;> rfl

theorem appendTx_res {b : Bucket} (h : Inv b) (tx : Tx) (hne : tx.events ≠ []) :
    AppendRes b tx (b.appendTx tx) := by
  have hv := h.validate_eq tx
  rw [appendTx_unfold]
  cases hval : validateVersions b tx.pkey tx.events [] with
  | error e =>
    rw [hval] at hv
    exact AppendRes.invalid e hv.symm
  | ok curs =>
    rw [hval] at hv
    have hc : b.abs.checkEvents tx.pkey tx.events [] = .ok (curs.map nextV) := hv.symm
    have hlen : tx.events.length = curs.length := by
      have := (h.check_verOk tx _ 0 hc).2; simpa using this.symm
    simp only []
    by_cases htl : b.compression = false ∧ tx.estSize + SEGMENT_HEADER_SIZE > b.segSize
    · have : (!b.compression && decide (tx.estSize + SEGMENT_HEADER_SIZE > b.segSize)) = true := by
        simp [htl.1, htl.2]
      rw [if_pos this]
      exact AppendRes.tooLarge _ hc htl.1 htl.2
    · have : ¬ (!b.compression && decide (tx.estSize + SEGMENT_HEADER_SIZE > b.segSize)) = true := by
        intro hh; apply htl; simpa using hh
      rw [if_neg this]
      cases hseq : storeAccepts tx.expectedSeq (seqCur ((b.preRoll tx).nextPartSeq tx.pid)) with
      | false =>
        simp only [Bool.not_false, if_true]
        exact AppendRes.wrongSeq _ hc hseq
      | true =>
        simp only [Bool.not_true, Bool.false_eq_true, if_false]
        rw [preRoll_segSize]
        cases hw : writeEvents tx.pkey tx.pid tx.txId tx.single b.segSize tx.events curs
            (b.preRoll tx).live.writeOff ((b.preRoll tx).nextPartSeq tx.pid) [] with
        | error ep =>
          obtain ⟨e, part⟩ := ep
          simp only []
          rcases writeEvents_err _ _ _ _ _ _ _ _ _ _ _ _ hlen hw with rfl | ⟨rfl, hbad⟩
          · have hfull := writeEvents_full _ _ _ _ _ _ _ _ _ _ _ hlen hw
            refine AppendRes.noSpace _ _ hc hseq ?_ (by omega)
            split <;> simp
          · simp only [show (Err.badTimestamp == Err.full) = false from rfl, Bool.false_and,
              Bool.false_eq_true, if_false]
            exact AppendRes.badTs _ hc hseq hbad
        | ok res =>
          obtain ⟨placed, off, nextAfter⟩ := res
          have hinv := writeEvents_inv _ _ _ _ _ _ _ _ _ _ _ _ _ hw
          have hfit := hinv.2.1 hne
          have hok := writeEvents_ok tx.pkey tx.pid tx.txId tx.single b.segSize tx.events curs
            (b.preRoll tx).live.writeOff ((b.preRoll tx).nextPartSeq tx.pid) [] hlen hinv.1 hfit
          rw [hw] at hok
          simp only [Except.ok.injEq, Prod.mk.injEq, List.nil_append] at hok
          obtain ⟨rfl, rfl, rfl⟩ := hok
          simp only []
          by_cases hcf : (!tx.single && decide ((b.preRoll tx).live.writeOff + storedSum tx.events + COMMIT_SIZE > b.segSize)) = true
          · rw [if_pos hcf]
            simp only [Bool.and_eq_true, Bool.not_eq_true', decide_eq_true_eq] at hcf
            refine AppendRes.noSpace _ _ hc hseq ?_ ?_
            · split <;> simp
            · simp only [Tx.commitLen, hcf.1, Bool.false_eq_true, if_false]; omega
          · rw [if_neg hcf]
            have hfit2 : (b.preRoll tx).live.writeOff + storedSum tx.events + tx.commitLen ≤ b.segSize := by
              unfold Tx.commitLen
              cases hs : tx.single with
              | true => simp; omega
              | false =>
                simp only [hs, Bool.not_false, Bool.true_and, decide_eq_true_eq] at hcf
                simp; omega
            have key := AppendRes.ok (b := b) (tx := tx) (curs.map nextV) hc htl hseq hinv.1 hfit2
            rw [filterMap_eq_hydrate]
            refine Eq.mpr (congrArg (AppendRes b tx) ?_) key
            unfold Bucket.commitTx okReply Bucket.txBlock Bucket.txPlaced Tx.commitLen
            rw [preRoll_segSize]
            cases hs : tx.single <;> simp

end SierraModel.Store
