/-
`Inv` (and `Synced`) along client-level histories: `inv_run`.
-/
import SierraModel.Lemmas.StoreCommit

set_option linter.unusedSimpArgs false
set_option linter.unusedVariables false

namespace SierraModel.Store
open SierraModel.Version

theorem storedSum_pos (es : List NewEv) (hne : es ≠ []) (hpos : ∀ e ∈ es, 0 < e.stored) :
    0 < storedSum es := by
  cases es with
  | nil => exact absurd rfl hne
  | cons e es => rw [storedSum_cons]; have := hpos e (by simp); omega

/-- the outcome of `appendTx` with what it means for the state -/
theorem appendTx_res' {b : Bucket} (h : Inv b) {tx : Tx} (ht : TxOk b tx) :
    AppendRes b tx (b.appendTx tx) := appendTx_res h tx ht.1

theorem inv_of_appendRes {b : Bucket} (h : Inv b) {tx : Tx} (ht : TxOk b tx)
    {x : Bucket × Except Err AppendOk} (hx : AppendRes b tx x) : Inv x.1 := by
  cases hx with
  | invalid e _ => exact h
  | tooLarge vs _ _ _ => exact h
  | wrongSeq vs _ _ => exact inv_preRoll h tx
  | noSpace vs e _ _ _ _ => exact inv_preRoll h tx
  | badTs vs _ _ _ => exact inv_preRoll h tx
  | ok vs hc _ _ _ _ =>
    exact inv_commitTx (inv_preRoll h tx) (txOk_preRoll ht) vs (by rw [abs_preRoll]; exact hc)

theorem inv_appendTx {b : Bucket} (h : Inv b) {tx : Tx} (ht : TxOk b tx) : Inv (b.appendTx tx).1 :=
  inv_of_appendRes h ht (appendTx_res' h ht)

theorem clientAppend_err {b b' : Bucket} {tx : Tx} {e : Err} (hx : b.appendTx tx = (b', .error e)) :
    b.clientAppend tx = (b', .error e) := by
  unfold Bucket.clientAppend; rw [hx]

/-- an accepted append is always followed by the `sync` (its write offset is beyond the watch) -/
theorem clientAppend_ok {b b' : Bucket} (h : Inv b) {tx : Tx} (ht : TxOk b tx) {r : AppendOk}
    (hx : b.appendTx tx = (b', .ok r)) : b.clientAppend tx = (b'.sync, .ok r) := by
  have hres := appendTx_res' h ht
  rw [hx] at hres
  unfold Bucket.clientAppend; rw [hx]
  simp only []
  generalize hy : (b', (Except.ok r : Except Err AppendOk)) = y at hres
  cases hres with
  | ok vs hc _ _ _ _ =>
    simp only [Prod.mk.injEq, Except.ok.injEq] at hy
    obtain ⟨rfl, rfl⟩ := hy
    have hi := inv_preRoll h tx
    have h1 : (b.preRoll tx).live.watch ≤ (b.preRoll tx).live.writeOff :=
      Nat.le_trans hi.watch_le hi.durable_le
    have h2 := storedSum_pos tx.events ht.1 ht.2.1
    have : ¬ ((b.preRoll tx).commitTx tx vs).live.watch ≥ (okReply (b.preRoll tx) tx vs).writeOff := by
      show ¬ (b.preRoll tx).live.watch ≥ (b.preRoll tx).live.writeOff + storedSum tx.events + tx.commitLen
      omega
    rw [if_neg this]
  | invalid e _ => simp at hy
  | tooLarge vs _ _ _ => simp at hy
  | wrongSeq vs _ _ => simp at hy
  | noSpace vs e _ _ _ _ => simp at hy
  | badTs vs _ _ _ => simp at hy

/-- the client-level outcome: the `AppendRes` cases with the state synced after an accepted append -/
theorem clientAppend_res {b : Bucket} (h : Inv b) {tx : Tx} (ht : TxOk b tx) :
    ∃ x, AppendRes b tx x ∧
      b.clientAppend tx = (match x.2 with | .ok _ => x.1.sync | .error _ => x.1, x.2) := by
  refine ⟨b.appendTx tx, appendTx_res' h ht, ?_⟩
  rcases hx : b.appendTx tx with ⟨b', r | r⟩
  · exact clientAppend_err hx
  · exact clientAppend_ok h ht hx

theorem inv_clientAppend {b : Bucket} (h : Inv b) {tx : Tx} (ht : TxOk b tx) :
    Inv (b.clientAppend tx).1 := by
  obtain ⟨x, hx, e⟩ := clientAppend_res h ht
  rw [e]
  have := inv_of_appendRes h ht hx
  rcases x with ⟨b', r | r⟩
  · exact this
  · exact inv_sync this

theorem synced_clientAppend {b : Bucket} (h : Inv b) (hs : Synced b) {tx : Tx} (ht : TxOk b tx) :
    Synced (b.clientAppend tx).1 := by
  obtain ⟨x, hx, e⟩ := clientAppend_res h ht
  rw [e]
  cases hx with
  | invalid e _ => exact hs
  | tooLarge vs _ _ _ => exact hs
  | wrongSeq vs _ _ => exact synced_preRoll hs tx
  | noSpace vs e _ _ _ _ => exact synced_preRoll hs tx
  | badTs vs _ _ _ => exact synced_preRoll hs tx
  | ok vs hc _ _ _ _ => exact synced_sync _

/-- the client-level invariant -/
def CInv (b : Bucket) : Prop := Inv b ∧ Synced b

theorem cinv_new (segSize : Nat) (c : Bool) : CInv (Bucket.new segSize c) :=
  ⟨inv_new segSize c, synced_new segSize c⟩

theorem cinv_step {b : Bucket} (h : CInv b) {op : Op} (ok : OpOk b op) : CInv (b.step op) := by
  cases op with
  | append tx => exact ⟨inv_clientAppend h.1 ok, synced_clientAppend h.1 h.2 ok⟩
  | flushPoll => exact ⟨inv_sync h.1, synced_sync b⟩

theorem cinv_run : ∀ (ops : List Op) (b : Bucket), CInv b → RunOk b ops → CInv (b.run ops)
  | [], _, h, _ => h
  | op :: ops, b, h, ⟨a, r⟩ => cinv_run ops _ (cinv_step h a) r

theorem inv_step {b : Bucket} (h : Inv b) {op : Op} (ok : OpOk b op) : Inv (b.step op) := by
  cases op with
  | append tx => exact inv_clientAppend h ok
  | flushPoll => exact inv_sync h

theorem inv_run : ∀ (ops : List Op) (b : Bucket), Inv b → RunOk b ops → Inv (b.run ops)
  | [], _, h, _ => h
  | op :: ops, b, h, ⟨a, r⟩ => inv_run ops _ (inv_step h a) r

end SierraModel.Store
