/-
`Bucket.appendTx` in closed form: every outcome of an append (`AppendRes`), stated against the
specification's checks on `b.abs`.
-/
import SierraModel.Lemmas.StoreLookup

set_option linter.unusedSimpArgs false
set_option linter.unusedVariables false

namespace SierraModel.Store
open SierraModel.Version

def Tx.single (tx : Tx) : Bool := tx.events.length == 1
def Tx.commitLen (tx : Tx) : Nat := if tx.single then 0 else COMMIT_SIZE
def Tx.estSize (tx : Tx) : Nat := (tx.events.map (·.estimate)).sum + (if tx.single then 0 else COMMIT_SIZE)
def Bucket.upper (b : Bucket) (tx : Tx) : Nat :=
  if b.compression then (tx.events.map (fun e => e.estimate + 4 + e.estimate / 256 + 64)).sum + COMMIT_SIZE
  else tx.estSize
/-- the pre-append rollover decision -/
def Bucket.preRoll (b : Bucket) (tx : Tx) : Bucket :=
  if b.live.writeOff > SEGMENT_HEADER_SIZE && b.live.writeOff + b.upper tx > b.segSize then b.rollover else b
def seqCur (n : Nat) : Current := if n == 0 then .empty else .current (n - 1)

/-- event records of an accepted transaction in `b1` -/
def Bucket.txPlaced (b1 : Bucket) (tx : Tx) (vs : List Nat) : List Placed :=
  mkPlaced tx.pkey tx.pid tx.txId tx.single tx.events vs b1.live.writeOff (b1.nextPartSeq tx.pid)

/-- all records (with the commit record) of an accepted transaction in `b1` -/
def Bucket.txBlock (b1 : Bucket) (tx : Tx) (vs : List Nat) : List Placed :=
  if tx.single then b1.txPlaced tx vs
  else b1.txPlaced tx vs ++ [{ off := b1.live.writeOff + storedSum tx.events, size := COMMIT_SIZE,
                               r := .commit tx.txId tx.events.length }]

/-- the bucket after the records of an accepted transaction were written -/
def Bucket.commitTx (b1 : Bucket) (tx : Tx) (vs : List Nat) : Bucket :=
  { b1 with
    live := { b1.live with recs := b1.live.recs ++ b1.txBlock tx vs,
                           writeOff := b1.live.writeOff + storedSum tx.events + tx.commitLen,
                           pending := b1.live.pending ++ hydrate (b1.txPlaced tx vs) },
    nextSeq := (tx.pid, b1.nextPartSeq tx.pid + tx.events.length) :: b1.nextSeq.filter (·.1 != tx.pid) }

def okReply (b1 : Bucket) (tx : Tx) (vs : List Nat) : AppendOk :=
  { first := b1.nextPartSeq tx.pid, last := b1.nextPartSeq tx.pid + tx.events.length - 1,
    versions := (hydrate (b1.txPlaced tx vs)).foldl (fun vs e => setVersion vs e.stream e.version) [],
    offsets := (hydrate (b1.txPlaced tx vs)).map (·.off),
    writeOff := b1.live.writeOff + storedSum tx.events + tx.commitLen }

/-- every outcome of `appendTx` -/
inductive AppendRes (b : Bucket) (tx : Tx) : Bucket × Except Err AppendOk → Prop
  | invalid (e : Err) : b.abs.checkEvents tx.pkey tx.events [] = .error e → AppendRes b tx (b, .error e)
  | tooLarge (vs : List Nat) : b.abs.checkEvents tx.pkey tx.events [] = .ok vs →
      b.compression = false → tx.estSize + SEGMENT_HEADER_SIZE > b.segSize →
      AppendRes b tx (b, .error .tooLarge)
  | wrongSeq (vs : List Nat) : b.abs.checkEvents tx.pkey tx.events [] = .ok vs →
      storeAccepts tx.expectedSeq (seqCur ((b.preRoll tx).nextPartSeq tx.pid)) = false →
      AppendRes b tx (b.preRoll tx, .error .wrongSeq)
  | noSpace (vs : List Nat) (e : Err) : b.abs.checkEvents tx.pkey tx.events [] = .ok vs →
      storeAccepts tx.expectedSeq (seqCur ((b.preRoll tx).nextPartSeq tx.pid)) = true →
      (e = .tooLarge ∨ e = .full) →
      ¬ ((b.preRoll tx).live.writeOff + storedSum tx.events + tx.commitLen ≤ b.segSize) →
      AppendRes b tx (b.preRoll tx, .error e)
  | badTs (vs : List Nat) : b.abs.checkEvents tx.pkey tx.events [] = .ok vs →
      storeAccepts tx.expectedSeq (seqCur ((b.preRoll tx).nextPartSeq tx.pid)) = true →
      (∃ e ∈ tx.events, e.tsOk = false) →
      AppendRes b tx (b.preRoll tx, .error .badTimestamp)
  | ok (vs : List Nat) : b.abs.checkEvents tx.pkey tx.events [] = .ok vs →
      ¬ (b.compression = false ∧ tx.estSize + SEGMENT_HEADER_SIZE > b.segSize) →
      storeAccepts tx.expectedSeq (seqCur ((b.preRoll tx).nextPartSeq tx.pid)) = true →
      (∀ e ∈ tx.events, e.tsOk = true) →
      (b.preRoll tx).live.writeOff + storedSum tx.events + tx.commitLen ≤ b.segSize →
      AppendRes b tx ((b.preRoll tx).commitTx tx vs, .ok (okReply (b.preRoll tx) tx vs))

theorem filterMap_eq_hydrate (placed : List Placed) :
    placed.filterMap (fun p => match p.r with | .ev e => some (entryOf e p.off) | _ => none) = hydrate placed := by
  unfold hydrate
  congr 1
  funext p
  cases p.r <;> rfl

theorem writeEvents_full (pkey pid txId : Nat) (single : Bool) (limit : Nat) :
    ∀ (es : List NewEv) (curs : List (Option Nat)) (off seq : Nat) (acc : List Placed)
      (part : List Placed), es.length = curs.length →
      writeEvents pkey pid txId single limit es curs off seq acc = .error (.full, part) →
      off + storedSum es > limit
  | [], curs, off, seq, acc, _, _, h => by simp [writeEvents] at h
  | e :: es, [], _, _, _, _, hl, _ => by simp at hl
  | e :: es, c :: curs, off, seq, acc, part, hl, h => by
    unfold writeEvents at h
    rw [storedSum_cons]
    by_cases h1 : e.tsOk = true
    · by_cases h2 : off + e.stored > limit
      · omega
      · simp only [h1, Bool.not_true, Bool.false_eq_true, if_false, h2] at h
        have := writeEvents_full pkey pid txId single limit es curs _ _ _ _ (by simpa using hl) h
        omega
    · simp [h1] at h

/-- under `Inv`, `validateVersions` is `checkEvents` on the abstraction -/
theorem Inv.validate_eq {b : Bucket} (h : Inv b) (tx : Tx) :
    (validateVersions b tx.pkey tx.events []).map (·.map nextV) = b.abs.checkEvents tx.pkey tx.events [] :=
  validate_eq_check b b.abs tx.pkey h.streamLatestW_eq tx.events []

theorem Inv.check_verOk {b : Bucket} (h : Inv b) (tx : Tx) (vs : List Nat) (seq : Nat)
    (hc : b.abs.checkEvents tx.pkey tx.events [] = .ok vs) :
    VerOk (b.abs.events ++ mkEvs tx.pkey tx.pid tx.txId tx.single tx.events vs seq) ∧
    vs.length = tx.events.length :=
  checkEvents_verOk b.abs tx.pkey tx.pid tx.txId tx.single tx.events [] vs b.abs.events seq hc
    (fun _ _ => rfl) (fun _ _ _ hh => by simp at hh) h.ver_ok

theorem appendTx_unfold (b : Bucket) (tx : Tx) : b.appendTx tx =
    match validateVersions b tx.pkey tx.events [] with
    | .error e => (b, .error e)
    | .ok curs =>
      if (!b.compression && decide (tx.estSize + SEGMENT_HEADER_SIZE > b.segSize)) = true then (b, .error .tooLarge)
      else
        if (!storeAccepts tx.expectedSeq (seqCur ((b.preRoll tx).nextPartSeq tx.pid))) = true then
          (b.preRoll tx, .error .wrongSeq)
        else
          match writeEvents tx.pkey tx.pid tx.txId tx.single (b.preRoll tx).segSize tx.events curs
              (b.preRoll tx).live.writeOff ((b.preRoll tx).nextPartSeq tx.pid) [] with
          | .error (e, _) =>
            (b.preRoll tx, .error (if (e == .full && (b.preRoll tx).live.writeOff == SEGMENT_HEADER_SIZE) = true then .tooLarge else e))
          | .ok (placed, off, nextAfter) =>
            if (!tx.single && decide (off + COMMIT_SIZE > (b.preRoll tx).segSize)) = true then
              (b.preRoll tx, .error (if ((b.preRoll tx).live.writeOff == SEGMENT_HEADER_SIZE) = true then .tooLarge else .full))
            else
              ({ (b.preRoll tx) with
                  live := { (b.preRoll tx).live with
                    recs := (b.preRoll tx).live.recs ++
                      (if tx.single = true then placed else placed ++ [{ off := off, size := COMMIT_SIZE, r := .commit tx.txId tx.events.length }]),
                    writeOff := (if tx.single = true then off else off + COMMIT_SIZE),
                    pending := (b.preRoll tx).live.pending ++
                      placed.filterMap (fun p => match p.r with | .ev e => some (entryOf e p.off) | _ => none) },
                  nextSeq := (tx.pid, nextAfter) :: (b.preRoll tx).nextSeq.filter (·.1 != tx.pid) },
               .ok { first := (b.preRoll tx).nextPartSeq tx.pid, last := nextAfter - 1,
                     versions := (placed.filterMap (fun p => match p.r with | .ev e => some (entryOf e p.off) | _ => none)).foldl
                        (fun vs e => setVersion vs e.stream e.version) [],
                     offsets := (placed.filterMap (fun p => match p.r with | .ev e => some (entryOf e p.off) | _ => none)).map (·.off),
                     writeOff := (if tx.single = true then off else off + COMMIT_SIZE) }) := rfl

end SierraModel.Store
