/-
The `versions` field of the reply of an accepted append: per stream of the transaction the last
version assigned to it.
-/
import SierraModel.Lemmas.StoreC19

set_option linter.unusedSimpArgs false
set_option linter.unusedVariables false

namespace SierraModel.Store
open SierraModel.Version

theorem mem_setVersion (vs : List (Nat × Nat)) (s v st w : Nat) :
    (st, w) ∈ setVersion vs s v ↔ (st = s ∧ w = v) ∨ (st ≠ s ∧ (st, w) ∈ vs) := by
  unfold setVersion
  by_cases hany : vs.any (·.1 == s) = true
  · rw [if_pos hany]
    simp only [List.any_eq_true, beq_iff_eq] at hany
    obtain ⟨x, hx, hxs⟩ := hany
    simp only [List.mem_map]
    constructor
    · rintro ⟨y, hy, hyeq⟩
      by_cases hys : y.1 = s
      · simp only [hys, beq_self_eq_true, if_true, Prod.mk.injEq] at hyeq
        exact Or.inl ⟨hyeq.1.symm, hyeq.2.symm⟩
      · have : (y.1 == s) = false := by simpa using hys
        simp only [this, Bool.false_eq_true, if_false] at hyeq
        subst hyeq
        exact Or.inr ⟨hys, hy⟩
    · rintro (⟨rfl, rfl⟩ | ⟨hne, hm⟩)
      · exact ⟨x, hx, by simp [hxs]⟩
      · refine ⟨(st, w), hm, ?_⟩
        have : (st == s) = false := by simpa using hne
        simp [this]
  · rw [if_neg hany]
    simp only [Bool.not_eq_true, List.any_eq_false, beq_iff_eq] at hany
    simp only [List.mem_append, List.mem_singleton, Prod.mk.injEq]
    constructor
    · rintro (hm | ⟨rfl, rfl⟩)
      · exact Or.inr ⟨fun hh => hany _ hm (by simpa using hh), hm⟩
      · exact Or.inl ⟨rfl, rfl⟩
    · rintro (⟨rfl, rfl⟩ | ⟨_, hm⟩)
      · exact Or.inr ⟨rfl, rfl⟩
      · exact Or.inl hm

theorem mem_foldl_setVersion : ∀ (entries : List Entry) (acc : List (Nat × Nat)) (st w : Nat),
    (st, w) ∈ entries.foldl (fun vs e => setVersion vs e.stream e.version) acc ↔
      (match entries.reverse.find? (·.stream == st) with
       | some e => w = e.version
       | none => (st, w) ∈ acc)
  | [], acc, st, w => by simp
  | e :: es, acc, st, w => by
    rw [List.foldl_cons, mem_foldl_setVersion es, List.reverse_cons, List.find?_append]
    cases hf : es.reverse.find? (·.stream == st) with
    | some e' => simp
    | none =>
      simp only [Option.none_or, List.find?_cons, List.find?_nil]
      rw [mem_setVersion]
      by_cases hs : e.stream = st
      · subst hs; simp
      · have : (e.stream == st) = false := by simpa using hs
        simp only [this]
        constructor
        · rintro (⟨rfl, _⟩ | ⟨_, hm⟩)
          · exact absurd rfl hs
          · exact hm
        · intro hm; exact Or.inr ⟨fun hh => hs hh.symm, hm⟩

theorem latestOf_append (a b : List Ev) (st : Nat) :
    latestOf (a ++ b) st = (latestOf b st).or (latestOf a st) := by
  unfold latestOf
  rw [List.reverse_append, List.find?_append]
  cases b.reverse.find? (·.stream == st) <;> simp

theorem mkEvs_stream_mem (pkey pid txId : Nat) (single : Bool) :
    ∀ (es : List NewEv) (vs : List Nat) (seq : Nat), es.length = vs.length →
      ∀ e ∈ es, ∃ x ∈ mkEvs pkey pid txId single es vs seq, x.stream = e.stream
  | [], _, _, _ => by simp
  | e :: es, [], _, h => by simp at h
  | e :: es, v :: vs, seq, h => by
    intro e' he'
    rcases List.mem_cons.1 he' with rfl | he'
    · exact ⟨mkEv pkey pid txId single e' v seq, by simp [mkEvs], rfl⟩
    · obtain ⟨x, hx, hxs⟩ := mkEvs_stream_mem pkey pid txId single es vs (seq + 1) (by simpa using h) e' he'
      exact ⟨x, by simp [mkEvs, hx], hxs⟩

/-- the reply's `versions`: exactly the streams of the transaction, each with the stream's latest
version after the append -/
theorem versions_spec {b : Bucket} (h : Inv b) {tx : Tx} (ht : TxOk b tx) {b' : Bucket} {r : AppendOk}
    (hx : b.clientAppend tx = (b', .ok r)) :
    (∀ st w, (st, w) ∈ r.versions → b'.abs.streamLatest st = some (tx.pkey, w)) ∧
    (∀ e ∈ tx.events, ∃ w, (e.stream, w) ∈ r.versions) := by
  obtain ⟨vs, _, hlen, _, habs, _, hr, _⟩ := accepted_spec h ht hx
  have hev : evsOf ((b.preRoll tx).txPlaced tx vs) = newEvs b tx vs := by
    unfold Bucket.txPlaced newEvs
    rw [evsOf_mkPlaced, preRoll_nextPartSeq h]
  have key : ∀ st w, (st, w) ∈ r.versions ↔
      ((newEvs b tx vs).reverse.find? (·.stream == st)).map (·.version) = some w := by
    intro st w
    rw [hr]; simp only [okReply]
    rw [mem_foldl_setVersion, ← hev]
    have := find_hydrate ((b.preRoll tx).txPlaced tx vs) (·.stream == st) (·.stream == st)
      (·.version) (·.version) (fun _ _ => rfl) (fun _ _ => rfl)
    rw [← this]
    cases (hydrate ((b.preRoll tx).txPlaced tx vs)).reverse.find? (·.stream == st) with
    | some e => simp; exact eq_comm
    | none => simp
  constructor
  · intro st w hm
    rw [habs, streamLatest_eq, events_snoc, latestOf_append]
    have hk := (key st w).1 hm
    unfold latestOf
    cases hf : (newEvs b tx vs).reverse.find? (·.stream == st) with
    | none => rw [hf] at hk; simp at hk
    | some e' =>
      rw [hf] at hk
      simp only [Option.map_some, Option.some.injEq] at hk
      have hm' : e' ∈ newEvs b tx vs := List.mem_reverse.1 (List.mem_of_find?_eq_some hf)
      have hp := (mkEvs_mem _ _ _ _ _ _ _ e' hm').1
      simp [hk, hp]
  · intro e he
    obtain ⟨x, hx', hxs⟩ := mkEvs_stream_mem tx.pkey tx.pid tx.txId tx.single tx.events vs
      (b.abs.nextSeq tx.pid) hlen.symm e he
    have hx'' : x ∈ (newEvs b tx vs).reverse := List.mem_reverse.2 hx'
    cases hf : (newEvs b tx vs).reverse.find? (·.stream == e.stream) with
    | none =>
      have := List.find?_eq_none.1 hf x hx''
      simp [hxs] at this
    | some e' =>
      exact ⟨e'.version, (key _ _).2 (by rw [hf]; rfl)⟩

end SierraModel.Store
