/-
Invariant of the subscription step system (model: Cluster/Subscription.lean) and its preservation
by every action.  Used by Props/C09.lean.
-/
import SierraModel.Cluster.Subscription

namespace SierraModel.Subscription

/-! ### derived quantities -/

/-- next sequence of partition p the broadcaster will send -/
def nxt (s : Sys) (p : Nat) : Nat :=
  match s.job with
  | some (q, nx, _) => if q = p then nx else s.cur p
  | none => s.cur p

/-- next position key k wants -/
def need (s : Sys) (k : Key) : Nat := (s.frm k).getD (s.start k)

/-- positions delivered for key k, in delivery order -/
def dl (s : Sys) (k : Key) : List Nat := (s.out.filter k.matches).map k.pos

/-- number of acknowledged records -/
def acked (s : Sys) : Nat :=
  match s.lastAck with
  | some a => a + 1
  | none => 0

/-! ### small facts -/

@[simp] theorem upd_same {α β : Type} [DecidableEq α] (f : α → β) (a : α) (b : β) :
    upd f a b a = b := by simp [upd]

theorem upd_other {α β : Type} [DecidableEq α] (f : α → β) (a x : α) (b : β) (h : x ≠ a) :
    upd f a b x = f x := by simp [upd, h]

theorem Key.matches_pid {k : Key} {e : Ev} (h : k.matches e = true) : e.p = k.pid := by
  cases k <;> simp [Key.matches, Key.pid] at * <;> omega

/-- two keys of the same kind matching one event are equal -/
theorem Key.matches_unique {k k' : Key} {e : Ev} (hk : k.isPart = k'.isPart)
    (h : k.matches e = true) (h' : k'.matches e = true) : k = k' := by
  cases k <;> cases k' <;> simp [Key.matches, Key.isPart] at * <;> omega

/-! ### well-formed logs -/

/-- events of a partition log carry their partition, their index as sequence, and for every key
the j-th matching event has position j -/
structure LogWF (p : Nat) (l : List Ev) : Prop where
  hp : ∀ e ∈ l, e.p = p
  hseq : ∀ (i : Nat) (e : Ev), l[i]? = some e → e.seq = i
  hpos : ∀ k : Key, k.pid = p → ∀ (j : Nat) (e : Ev), (l.filter k.matches)[j]? = some e → k.pos e = j

theorem LogWF.nil (p : Nat) : LogWF p [] := by
  constructor <;> simp

theorem filter_matches_part {p : Nat} {l : List Ev} (h : ∀ e ∈ l, e.p = p) :
    l.filter (Key.part p).matches = l := by
  apply List.filter_eq_self.mpr
  intro e he
  simp [Key.matches, h e he]

theorem filter_matches_stream {p st : Nat} {l : List Ev} (h : ∀ e ∈ l, e.p = p) :
    l.filter (Key.stream p st).matches = l.filter (fun e => e.s == st) := by
  apply List.filter_congr
  intro e he
  simp [Key.matches, h e he]

theorem LogWF.snoc {p : Nat} {l : List Ev} (h : LogWF p l) (st : Nat) :
    LogWF p (l ++ [⟨p, l.length, st, (l.filter (fun e => e.s == st)).length⟩]) := by
  constructor
  · intro e he
    rcases List.mem_append.mp he with he | he
    · exact h.hp e he
    · simp at he; subst he; rfl
  · intro i e hi
    by_cases hlt : i < l.length
    · rw [List.getElem?_append_left hlt] at hi; exact h.hseq i e hi
    · have hge : l.length ≤ i := Nat.le_of_not_lt hlt
      rw [List.getElem?_append_right hge] at hi
      by_cases h0 : i - l.length = 0
      · rw [h0] at hi; simp at hi; subst hi; simp; omega
      · have : ([({ p := p, seq := l.length, s := st, ver := (l.filter fun e => e.s == st).length } : Ev)])[i - l.length]? = none := by
          apply List.getElem?_eq_none; simp; omega
        rw [this] at hi; cases hi
  · intro k hk j e hj
    rw [List.filter_append] at hj
    by_cases hlt : j < (l.filter k.matches).length
    · rw [List.getElem?_append_left hlt] at hj; exact h.hpos k hk j e hj
    · have hge : (l.filter k.matches).length ≤ j := Nat.le_of_not_lt hlt
      rw [List.getElem?_append_right hge] at hj
      have hmem : e ∈ List.filter k.matches [({ p := p, seq := l.length, s := st, ver := (l.filter fun e => e.s == st).length } : Ev)] :=
        List.mem_of_getElem? hj
      have hlen : (List.filter k.matches [({ p := p, seq := l.length, s := st, ver := (l.filter fun e => e.s == st).length } : Ev)]).length ≤ 1 := by
        exact Nat.le_trans (List.length_filter_le _ _) (by simp)
      have hj0 : j - (l.filter k.matches).length = 0 := by
        have := (List.getElem?_eq_some_iff.mp hj).1
        omega
      have hje : j = (l.filter k.matches).length := by omega
      rw [List.mem_filter] at hmem
      have he : e = ⟨p, l.length, st, (l.filter fun e => e.s == st).length⟩ := by simpa using hmem.1
      have hm := hmem.2
      subst he
      cases k with
      | part q =>
        simp [Key.pid] at hk; subst hk
        rw [hje, filter_matches_part h.hp]; rfl
      | stream q s' =>
        simp [Key.pid] at hk; subst hk
        simp [Key.matches] at hm; subst hm
        rw [hje, filter_matches_stream h.hp]; rfl

theorem LogWF.lookup {p : Nat} {l : List Ev} (h : LogWF p l) {e : Ev} (he : e ∈ l) :
    l[e.seq]? = some e := by
  obtain ⟨i, hi⟩ := List.getElem?_of_mem he
  have := h.hseq i e hi
  rw [this]; exact hi

theorem LogWF.seq_lt {p : Nat} {l : List Ev} (h : LogWF p l) {e : Ev} (he : e ∈ l) :
    e.seq < l.length := by
  have := h.lookup he
  exact (List.getElem?_eq_some_iff.mp this).1

theorem LogWF.seq_inj {p : Nat} {l : List Ev} (h : LogWF p l) {e e' : Ev} (he : e ∈ l)
    (he' : e' ∈ l) (hs : e.seq = e'.seq) : e = e' := by
  have h1 := h.lookup he
  have h2 := h.lookup he'
  rw [hs] at h1; rw [h1] at h2; exact Option.some.inj h2

theorem LogWF.sorted {p : Nat} {l : List Ev} (h : LogWF p l) :
    l.Pairwise (fun a b => a.seq < b.seq) := by
  rw [List.pairwise_iff_getElem]
  intro i j hi hj hij
  have h1 := h.hseq i l[i] (List.getElem?_eq_getElem hi)
  have h2 := h.hseq j l[j] (List.getElem?_eq_getElem hj)
  omega

/-- a matching event sits at its position in the list of matching events -/
theorem LogWF.at_pos {p : Nat} {l : List Ev} (h : LogWF p l) {k : Key} (hk : k.pid = p) {e : Ev}
    (he : e ∈ l) (hm : k.matches e = true) : (l.filter k.matches)[k.pos e]? = some e := by
  have hmem : e ∈ l.filter k.matches := List.mem_filter.mpr ⟨he, hm⟩
  obtain ⟨j, hj⟩ := List.getElem?_of_mem hmem
  have := h.hpos k hk j e hj
  rw [this]; exact hj

/-- among matching events, positions and sequences are ordered alike -/
theorem LogWF.pos_lt_seq_lt {p : Nat} {l : List Ev} (h : LogWF p l) {k : Key} (hk : k.pid = p)
    {e e' : Ev} (he : e ∈ l) (he' : e' ∈ l) (hm : k.matches e = true) (hm' : k.matches e' = true)
    (hlt : k.pos e < k.pos e') : e.seq < e'.seq := by
  have h1 := h.at_pos hk he hm
  have h2 := h.at_pos hk he' hm'
  have hs : (l.filter k.matches).Pairwise (fun a b => a.seq < b.seq) :=
    h.sorted.sublist List.filter_sublist
  rw [List.pairwise_iff_getElem] at hs
  obtain ⟨hi, hie⟩ := List.getElem?_eq_some_iff.mp h1
  obtain ⟨hj, hje⟩ := List.getElem?_eq_some_iff.mp h2
  have := hs _ _ hi hj hlt
  rw [hie, hje] at this; exact this

/-- the matching events below a watermark w are exactly those with a position below their count -/
theorem LogWF.seq_ge_of_pos_ge {p : Nat} {l : List Ev} (h : LogWF p l) {k : Key} (hk : k.pid = p)
    (w : Nat) {e : Ev} (he : e ∈ l) (hm : k.matches e = true)
    (hpos : ((l.take w).filter k.matches).length ≤ k.pos e) : w ≤ e.seq := by
  have h1 := h.at_pos hk he hm
  have hsplit : l.filter k.matches = (l.take w).filter k.matches ++ (l.drop w).filter k.matches := by
    rw [← List.filter_append, List.take_append_drop]
  rw [hsplit, List.getElem?_append_right hpos] at h1
  have hmem : e ∈ (l.drop w).filter k.matches := List.mem_of_getElem? h1
  have hmem2 : e ∈ l.drop w := (List.mem_filter.mp hmem).1
  obtain ⟨i, hi⟩ := List.getElem?_of_mem hmem2
  rw [List.getElem?_drop] at hi
  have := h.hseq _ e hi
  omega

theorem LogWF.pos_lt_of_seq_lt {p : Nat} {l : List Ev} (h : LogWF p l) {k : Key} (hk : k.pid = p)
    (w : Nat) {e : Ev} (he : e ∈ l) (hm : k.matches e = true) (hs : e.seq < w) :
    k.pos e < ((l.take w).filter k.matches).length := by
  have hl := h.lookup he
  have hmem : e ∈ l.take w := by
    have : (l.take w)[e.seq]? = some e := by rw [List.getElem?_take]; simp [hs, hl]
    exact List.mem_of_getElem? this
  have hmem2 : e ∈ (l.take w).filter k.matches := List.mem_filter.mpr ⟨hmem, hm⟩
  obtain ⟨j, hj⟩ := List.getElem?_of_mem hmem2
  have hjlt := (List.getElem?_eq_some_iff.mp hj).1
  have hsplit : l.filter k.matches = (l.take w).filter k.matches ++ (l.drop w).filter k.matches := by
    rw [← List.filter_append, List.take_append_drop]
  have : (l.filter k.matches)[j]? = some e := by
    rw [hsplit, List.getElem?_append_left hjlt]; exact hj
  have := h.hpos k hk j e this
  omega

/-- converse: a matching event whose position is below the count of matching events under w is
itself under w -/
theorem LogWF.seq_lt_of_pos_lt {p : Nat} {l : List Ev} (h : LogWF p l) {k : Key} (hk : k.pid = p)
    (w : Nat) {e : Ev} (he : e ∈ l) (hm : k.matches e = true)
    (hpos : k.pos e < ((l.take w).filter k.matches).length) : e.seq < w := by
  have h1 := h.at_pos hk he hm
  have hsplit : l.filter k.matches = (l.take w).filter k.matches ++ (l.drop w).filter k.matches := by
    rw [← List.filter_append, List.take_append_drop]
  rw [hsplit, List.getElem?_append_left hpos] at h1
  have hmem : e ∈ (l.take w).filter k.matches := List.mem_of_getElem? h1
  have hmem2 : e ∈ l.take w := (List.mem_filter.mp hmem).1
  obtain ⟨i, hi⟩ := List.getElem?_of_mem hmem2
  have hlt : i < (l.take w).length := (List.getElem?_eq_some_iff.mp hi).1
  rw [List.getElem?_take] at hi
  have hiw : i < w := by
    have := List.length_take_le w l; omega
  simp only [hiw, if_true] at hi
  have := h.hseq i e hi
  omega

end SierraModel.Subscription
