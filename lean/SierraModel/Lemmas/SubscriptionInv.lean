/-
The invariant of the subscription step system and its preservation by the environment and the
broadcaster.  (The subscription task's own steps: Lemmas/SubscriptionTask.lean.)
-/
import SierraModel.Lemmas.Subscription

namespace SierraModel.Subscription

/-- what the parked subscription task knows -/
def PcOK (s : Sys) : Prop :=
  match s.pc with
  | .off => s.keys = []
  | .start => s.opened = []
  | .batch k => k ∈ s.opened
  | .hsend k _ => k ∈ s.opened ∧ ∃ e rest, s.iter k = e :: rest ∧ e.seq < s.wm k.pid
  | .live => s.opened = [] ∧ s.todo = []
  | .lsend e k =>
    s.opened = [] ∧ s.todo = [] ∧ k ∈ s.keys ∧ k.matches e = true ∧ e.seq < s.wm e.p ∧
      (s.log e.p)[e.seq]? = some e ∧ (s.lost k = false → k.pos e = need s k)

/-- every event key k still wants is in its open iterator, or will come through the ring
(queued or not yet sent, and not below the watermark sampled at subscribe), or is the record
in flight; unless the ring lagged -/
def SafeKey (s : Sys) (k : Key) : Prop :=
  ∀ e ∈ s.log k.pid, k.matches e = true → need s k ≤ k.pos e →
    e ∈ s.iter k ∨ s.lagged = true ∨
    (s.startWm k.pid ≤ e.seq ∧ ((k.pid, e.seq) ∈ s.queue ∨ nxt s k.pid ≤ e.seq)) ∨
    s.pc = .lsend e k

structure Inv (s : Sys) : Prop where
  logwf : ∀ p, LogWF p (s.log p)
  wm_le : ∀ p, s.wm p ≤ (s.log p).length
  cur_le : ∀ p, s.cur p ≤ s.wm p
  job_ok : ∀ p nx to, s.job = some (p, nx, to) → nx < to ∧ to ≤ s.wm p
  q_lt : ∀ p i, (p, i) ∈ s.queue → i < nxt s p
  q_sorted : s.queue.Pairwise (fun a b => a.1 = b.1 → a.2 < b.2)
  swm_le : ∀ p, s.startWm p ≤ s.wm p
  subd_ok : s.subd = true ∨ s.keys = []
  keys_nodup : s.keys.Nodup
  keys_kind : ∀ k ∈ s.keys, ∀ k' ∈ s.keys, k.isPart = k'.isPart
  todo_sub : ∀ k ∈ s.todo, k ∈ s.keys ∧ (s.frm k).isSome = true
  todo_nodup : s.todo.Nodup
  opened_sub : ∀ k ∈ s.opened, k ∈ s.keys
  opened_nodup : s.opened.Nodup
  iter_closed : ∀ k, k ∉ s.opened → s.iter k = []
  iter_ok : ∀ k, s.iter k <+: (mlist s k).drop (need s k)
  deliv : ∀ k ∈ s.keys, s.lost k = false →
    dl s k = List.range' (s.start k) (need s k - s.start k) ∧ s.start k ≤ need s k
  safe : ∀ k ∈ s.keys, s.lost k = false → k ∉ s.todo → SafeKey s k
  out_ok : ∀ e ∈ s.out, e.seq < s.wm e.p ∧ (s.log e.p)[e.seq]? = some e
  win : s.out.length ≤ acked s + s.window
  ack_lt : ∀ a, s.lastAck = some a → a < s.out.length
  latest_part : ∀ k ∈ s.keys, k.isPart = true → s.frm k = none → s.start k = s.startWm k.pid
  latest_start : ∀ k ∈ s.keys, s.frm k = none →
    s.start k = (((s.log k.pid).take (s.startWm k.pid)).filter k.matches).length
  lost_stream : ∀ k, s.lost k = true → k.isPart = false
  pc_ok : PcOK s

theorem nxt_le_wm {s : Sys} (h : Inv s) (p : Nat) : nxt s p ≤ s.wm p := by
  unfold nxt
  split
  · rename_i q nx to hj
    split
    · rename_i hq; subst hq
      have := (h.job_ok q nx to hj).1; have := (h.job_ok q nx to hj).2; omega
    · exact h.cur_le p
  · exact h.cur_le p

theorem inv_init (cap : Nat) : Inv (init cap) := by
  constructor <;> simp [init, LogWF.nil, nxt, PcOK, acked, mlist, need, dl]

/-- close a goal that is literally a field of the invariant `h` (up to unfolding projections) -/
syntax "frame " ident : tactic
macro_rules
  | `(tactic| frame $h:ident) => `(tactic| first
      | exact (Inv.logwf $h :) | exact (Inv.wm_le $h :) | exact (Inv.cur_le $h :) | exact (Inv.job_ok $h :)
      | exact (Inv.q_lt $h :) | exact (Inv.q_sorted $h :) | exact (Inv.swm_le $h :) | exact (Inv.subd_ok $h :)
      | exact (Inv.keys_nodup $h :) | exact (Inv.keys_kind $h :) | exact (Inv.todo_sub $h :)
      | exact (Inv.todo_nodup $h :) | exact (Inv.opened_sub $h :) | exact (Inv.opened_nodup $h :)
      | exact (Inv.iter_closed $h :) | exact (Inv.iter_ok $h :) | exact (Inv.deliv $h :) | exact (Inv.safe $h :)
      | exact (Inv.out_ok $h :) | exact (Inv.win $h :) | exact (Inv.ack_lt $h :) | exact (Inv.latest_part $h :)
      | exact (Inv.latest_start $h :) | exact (Inv.lost_stream $h :) | exact (Inv.pc_ok $h :))


theorem inv_other {s : Sys} (h : Inv s) (b : Bool) : Inv { s with other := b } := by
  constructor <;> frame h

theorem inv_ack {s : Sys} (h : Inv s) (c : Nat) (hc : canAck s c = true) :
    Inv { s with lastAck := some c } := by
  have hc1 : c < s.out.length := by
    unfold canAck at hc; simp at hc; exact hc.1
  have hc2 : acked s ≤ c + 1 := by
    unfold canAck at hc; simp at hc
    cases hl : s.lastAck with
    | none => simp [acked, hl]
    | some a => simp [hl] at hc; simp [acked, hl]; omega
  constructor
  case win =>
    have := h.win
    show s.out.length ≤ (c + 1) + s.window
    omega
  case ack_lt =>
    intro a ha
    have : c = a := by simpa using ha
    show a < s.out.length
    omega
  all_goals frame h

/-- raising watermarks and (re)starting the broadcaster without moving `nxt` -/
theorem inv_wm {s : Sys} (h : Inv s) (w' : Nat → Nat) (j' : Option (Nat × Nat × Nat))
    (hmono : ∀ q, s.wm q ≤ w' q) (hlen : ∀ q, w' q ≤ (s.log q).length)
    (hjob : ∀ p nx to, j' = some (p, nx, to) → nx < to ∧ to ≤ w' p)
    (hnxt : ∀ q, nxt { s with wm := w', job := j' } q = nxt s q) :
    Inv { s with wm := w', job := j' } := by
  constructor
  case wm_le => exact hlen
  case cur_le => intro q; exact Nat.le_trans (h.cur_le q) (hmono q)
  case job_ok => exact hjob
  case q_lt => intro q i hi; rw [hnxt]; exact h.q_lt q i hi
  case swm_le => intro q; exact Nat.le_trans (h.swm_le q) (hmono q)
  case out_ok =>
    intro e he
    exact ⟨Nat.lt_of_lt_of_le (h.out_ok e he).1 (hmono e.p), (h.out_ok e he).2⟩
  case safe =>
    intro k hk hl ht e he hm hn
    have := h.safe k hk hl ht e he hm hn
    simp only [hnxt]
    exact this
  case pc_ok =>
    have hp := h.pc_ok
    unfold PcOK at hp ⊢
    cases hpc : s.pc with
    | off => simp only [hpc] at hp ⊢; exact hp
    | start => simp only [hpc] at hp ⊢; exact hp
    | batch k => simp only [hpc] at hp ⊢; exact hp
    | live => simp only [hpc] at hp ⊢; exact hp
    | hsend k n =>
      simp only [hpc] at hp ⊢
      obtain ⟨h1, e, rest, h2, h3⟩ := hp
      exact ⟨h1, e, rest, h2, Nat.lt_of_lt_of_le h3 (hmono k.pid)⟩
    | lsend e k =>
      simp only [hpc] at hp ⊢
      obtain ⟨h1, h2, h3, h4, h5, h6, h7⟩ := hp
      exact ⟨h1, h2, h3, h4, Nat.lt_of_lt_of_le h5 (hmono e.p), h6, h7⟩
  all_goals frame h

theorem upd_mono {s : Sys} {p n : Nat} (hlt : s.wm p < n) (q : Nat) : s.wm q ≤ upd s.wm p n q := by
  unfold upd; split
  · rename_i hq; subst hq; omega
  · exact Nat.le_refl _

theorem inv_advance {s : Sys} (h : Inv s) (p n : Nat) (hc : canConfirm s p n = true) :
    Inv (doAdvance s p n) := by
  simp [canConfirm] at hc
  obtain ⟨⟨hj, hlt⟩, hle⟩ := hc
  have hjn : s.job = none := by cases hs : s.job <;> simp [hs] at hj; rfl
  have := inv_wm h (upd s.wm p n) s.job (upd_mono hlt)
    (by intro q; unfold upd; split
        · rename_i hq; subst hq; exact hle
        · exact h.wm_le q)
    (by intro a b c hj'; rw [hjn] at hj'; cases hj')
    (by intro q; rfl)
  exact this

theorem inv_confirm {s : Sys} (h : Inv s) (p n : Nat) (hc : canConfirm s p n = true) :
    Inv (doConfirm s p n) := by
  simp [canConfirm] at hc
  obtain ⟨⟨hj, hlt⟩, hle⟩ := hc
  have hjn : s.job = none := by cases hs : s.job <;> simp [hs] at hj; rfl
  apply inv_wm h (upd s.wm p n) (if s.cur p < n then some (p, s.cur p, n) else none) (upd_mono hlt)
  · intro q; unfold upd; split
    · rename_i hq; subst hq; exact hle
    · exact h.wm_le q
  · intro a b c hj'
    split at hj'
    · rename_i hcn
      simp at hj'; obtain ⟨rfl, rfl, rfl⟩ := hj'
      exact ⟨hcn, by simp⟩
    · cases hj'
  · intro q
    show (match (if s.cur p < n then some (p, s.cur p, n) else none : Option (Nat × Nat × Nat)) with
      | some (q', nx, _) => if q' = q then nx else s.cur q
      | none => s.cur q) = nxt s q
    unfold nxt
    rw [hjn]
    by_cases hcn : s.cur p < n
    · simp only [hcn, if_true]
      by_cases hq : p = q
      · subst hq; simp
      · simp [hq]
    · simp [hcn]

theorem prefix_drop_append {α : Type} {a l : List α} (x : List α) (n : Nat) (h : a <+: l.drop n) :
    a <+: (l ++ x).drop n := by
  by_cases hn : n ≤ l.length
  · rw [List.drop_append_of_le_length hn]
    exact List.IsPrefix.trans h (List.prefix_append _ _)
  · have : l.drop n = [] := List.drop_eq_nil_of_le (by omega)
    rw [this] at h
    have : a = [] := List.prefix_nil.mp h
    subst this; exact List.nil_prefix

theorem getElem?_snoc_of_some {α : Type} {l : List α} {i : Nat} {x y : α} (h : l[i]? = some x) :
    (l ++ [y])[i]? = some x := by
  have := (List.getElem?_eq_some_iff.mp h).1
  rw [List.getElem?_append_left this]; exact h

theorem inv_append {s : Sys} (h : Inv s) (p st : Nat) : Inv (doAppend s p st) := by
  have hlog : ∀ q, (doAppend s p st).log q =
      if q = p then s.log p ++ [⟨p, (s.log p).length, st, ((s.log p).filter (fun e => e.s == st)).length⟩]
      else s.log q := by
    intro q; simp [doAppend, upd]
  have hlook : ∀ (q i : Nat) (x : Ev), (s.log q)[i]? = some x → ((doAppend s p st).log q)[i]? = some x := by
    intro q i x hx
    rw [hlog]; split
    · rename_i hq; subst hq; exact getElem?_snoc_of_some hx
    · exact hx
  constructor
  case logwf =>
    intro q; rw [hlog]; split
    · rename_i hq; subst hq; exact (h.logwf q).snoc st
    · exact h.logwf q
  case wm_le =>
    intro q; rw [hlog]; split
    · rename_i hq; subst hq; have := h.wm_le q; show s.wm q ≤ _; simp; omega
    · exact h.wm_le q
  case iter_ok =>
    intro k
    have := h.iter_ok k
    show s.iter k <+: (((doAppend s p st).log k.pid).filter k.matches).drop (need s k)
    rw [hlog]; split
    · rename_i hq
      rw [List.filter_append]
      rw [← hq]
      exact prefix_drop_append _ _ this
    · exact this
  case safe =>
    intro k hk hl ht e he hm hn
    have he' : e ∈ (doAppend s p st).log k.pid := he
    rw [hlog] at he'
    split at he'
    · rename_i hq
      rcases List.mem_append.mp he' with he1 | he1
      · rw [← hq] at he1
        exact h.safe k hk hl ht e he1 hm hn
      · simp at he1
        right; right; left
        have hseq : e.seq = (s.log k.pid).length := by rw [he1, hq]
        have h1 := h.wm_le k.pid
        have h2 := nxt_le_wm h k.pid
        have h3 := h.swm_le k.pid
        constructor
        · show s.startWm k.pid ≤ e.seq
          omega
        · right
          show nxt s k.pid ≤ e.seq
          omega
    · exact h.safe k hk hl ht e he' hm hn
  case out_ok =>
    intro e he
    exact ⟨(h.out_ok e he).1, hlook _ _ _ (h.out_ok e he).2⟩
  case latest_start =>
    intro k hk hf
    have := h.latest_start k hk hf
    show s.start k = ((((doAppend s p st).log k.pid).take (s.startWm k.pid)).filter k.matches).length
    rw [hlog]; split
    · rename_i hq
      have hle : s.startWm k.pid ≤ (s.log p).length := by
        rw [← hq]; exact Nat.le_trans (h.swm_le k.pid) (h.wm_le k.pid)
      rw [List.take_append_of_le_length hle, ← hq]; exact this
    · exact this
  case pc_ok =>
    have hp := h.pc_ok
    unfold PcOK at hp ⊢
    cases hpc : s.pc with
    | off => simp only [doAppend, hpc] at hp ⊢; exact hp
    | start => simp only [doAppend, hpc] at hp ⊢; exact hp
    | batch k => simp only [doAppend, hpc] at hp ⊢; exact hp
    | live => simp only [doAppend, hpc] at hp ⊢; exact hp
    | hsend k n => simp only [doAppend, hpc] at hp ⊢; exact hp
    | lsend e k =>
      have hpc' : (doAppend s p st).pc = .lsend e k := hpc
      simp only [hpc] at hp
      simp only [hpc']
      obtain ⟨h1, h2, h3, h4, h5, h6, h7⟩ := hp
      exact ⟨h1, h2, h3, h4, h5, hlook _ _ _ h6, h7⟩
  all_goals frame h

/-- a step of the broadcaster: only the ring, the lag flag, the job and the cursors change -/
theorem inv_ring {s : Sys} (h : Inv s) (Q : List (Nat × Nat)) (L : Bool) (J : Option (Nat × Nat × Nat))
    (C : Nat → Nat)
    (hcur : ∀ q, C q ≤ s.wm q)
    (hjob : ∀ p nx to, J = some (p, nx, to) → nx < to ∧ to ≤ s.wm p)
    (hqlt : ∀ q i, (q, i) ∈ Q → i < nxt { s with queue := Q, lagged := L, job := J, cur := C } q)
    (hqs : Q.Pairwise (fun a b => a.1 = b.1 → a.2 < b.2))
    (hlag : s.lagged = true → L = true)
    (hsafe : s.keys ≠ [] → L = true ∨ ∀ q i, ((q, i) ∈ s.queue ∨ nxt s q ≤ i) →
        ((q, i) ∈ Q ∨ nxt { s with queue := Q, lagged := L, job := J, cur := C } q ≤ i)) :
    Inv { s with queue := Q, lagged := L, job := J, cur := C } := by
  constructor
  case cur_le => exact hcur
  case job_ok => exact hjob
  case q_lt => exact hqlt
  case q_sorted => exact hqs
  case safe =>
    intro k hk hl ht e he hm hn
    have hne : s.keys ≠ [] := by intro h0; rw [h0] at hk; cases hk
    rcases h.safe k hk hl ht e he hm hn with h1 | h1 | h1 | h1
    · left; exact h1
    · right; left; exact hlag h1
    · rcases hsafe hne with h2 | h2
      · right; left; exact h2
      · right; right; left
        exact ⟨h1.1, h2 _ _ h1.2⟩
    · right; right; right; exact h1
  all_goals frame h

theorem pairwise_snoc {α : Type} {R : α → α → Prop} {l : List α} {x : α} (h : l.Pairwise R)
    (hx : ∀ a ∈ l, R a x) : (l ++ [x]).Pairwise R := by
  rw [List.pairwise_append]
  refine ⟨h, List.pairwise_singleton _ _, ?_⟩
  intro a ha b hb
  simp at hb; subst hb; exact hx a ha

theorem inv_bsend {s s' : Sys} (h : Inv s) (hs : doBsend s = some s') : Inv s' := by
  unfold doBsend at hs
  split at hs
  · cases hs
  · rename_i p nx to hj
    have hjo := h.job_ok p nx to hj
    have hn : ∀ q, nxt s q = if p = q then nx else s.cur q := by
      intro q; unfold nxt; rw [hj]
    split at hs
    · -- no receiver
      rename_i hrecv
      simp at hrecv
      have hkeys : s.keys = [] := by
        rcases h.subd_ok with h1 | h1
        · rw [hrecv.1] at h1; cases h1
        · exact h1
      cases hs
      have hn' : ∀ q, nxt { s with queue := s.queue, lagged := s.lagged, job := none, cur := upd s.cur p nx } q = nxt s q := by
        intro q; rw [hn]; unfold nxt upd; simp only []
        by_cases hq : p = q
        · subst hq; simp
        · have : ¬ q = p := fun h => hq h.symm
          simp [hq, this]
      apply inv_ring h s.queue s.lagged none (upd s.cur p nx)
      · intro q; unfold upd; split
        · rename_i hq; subst hq; omega
        · exact h.cur_le q
      · intro a b c h0; cases h0
      · intro q i hi; rw [hn']; exact h.q_lt q i hi
      · exact h.q_sorted
      · exact id
      · intro hne; exact absurd hkeys hne
    · rename_i hrecv
      -- the ring after the send
      have key : ∀ (J : Option (Nat × Nat × Nat)) (C : Nat → Nat),
          (∀ q, C q ≤ s.wm q) → (∀ a b c, J = some (a, b, c) → b < c ∧ c ≤ s.wm a) →
          (∀ (Q : List (Nat × Nat)) (L : Bool) (q : Nat), nxt { s with queue := Q, lagged := L, job := J, cur := C } q = if p = q then nx + 1 else s.cur q) →
          Inv { (if s.subd = true then push s (p, nx) else s) with job := J, cur := C } := by
        intro J C hC hJ hN
        by_cases hsub : s.subd = true
        · simp only [hsub, if_true]
          unfold push
          by_cases hcap : s.queue.length < s.cap
          · simp only [hcap, if_true]
            apply inv_ring h (s.queue ++ [(p, nx)]) s.lagged J C hC hJ
            · intro q i hi
              rw [hN]
              rcases List.mem_append.mp hi with h1 | h1
              · have := h.q_lt q i h1; rw [hn] at this
                split at this <;> simp_all <;> omega
              · simp at h1; obtain ⟨rfl, rfl⟩ := h1; simp
            · apply pairwise_snoc h.q_sorted
              intro a ha heq
              have := h.q_lt a.1 a.2 ha
              rw [hn] at this
              simp at heq
              simp [heq] at this; exact this
            · exact id
            · intro _; right
              intro q i hi
              rw [hN]
              rcases hi with h1 | h1
              · left; exact List.mem_append_left _ h1
              · rw [hn] at h1
                by_cases hq : p = q
                · subst hq; simp at h1 ⊢
                  by_cases hi : i = nx
                  · left; right; exact hi
                  · right; omega
                · simp [hq] at h1 ⊢; right; exact h1
          · simp only [hcap, if_false]
            apply inv_ring h (s.queue.tail ++ [(p, nx)]) true J C hC hJ
            · intro q i hi
              rw [hN]
              rcases List.mem_append.mp hi with h1 | h1
              · have := h.q_lt q i (List.mem_of_mem_tail h1); rw [hn] at this
                split at this <;> simp_all <;> omega
              · simp at h1; obtain ⟨rfl, rfl⟩ := h1; simp
            · apply pairwise_snoc (h.q_sorted.sublist (List.tail_sublist _))
              intro a ha heq
              have := h.q_lt a.1 a.2 (List.mem_of_mem_tail ha)
              rw [hn] at this
              simp at heq
              simp [heq] at this; exact this
            · intro _; rfl
            · intro _; left; rfl
        · have hkeys : s.keys = [] := by
            rcases h.subd_ok with h1 | h1
            · exact absurd h1 hsub
            · exact h1
          simp only [hsub]
          apply inv_ring h s.queue s.lagged J C hC hJ
          · intro q i hi
            rw [hN]
            have := h.q_lt q i hi; rw [hn] at this
            split at this <;> simp_all <;> omega
          · exact h.q_sorted
          · exact id
          · intro hne; exact absurd hkeys hne
      have hcur_eq : (if s.subd = true then push s (p, nx) else s).cur = s.cur := by
        by_cases hsub : s.subd = true
        · simp only [hsub, if_true]; unfold push; split <;> rfl
        · simp only [hsub]; rfl
      by_cases hlt : nx + 1 < to
      · simp only [if_pos hlt] at hs
        cases hs
        show Inv { (if s.subd = true then push s (p, nx) else s) with job := some (p, nx + 1, to), cur := (if s.subd = true then push s (p, nx) else s).cur }
        rw [hcur_eq]
        apply key (some (p, nx + 1, to)) _ h.cur_le
        · intro a b c h0; simp at h0; obtain ⟨rfl, rfl, rfl⟩ := h0; exact ⟨hlt, hjo.2⟩
        · intro Q L q; unfold nxt; simp only []
      · simp only [if_neg hlt] at hs
        cases hs
        rw [hcur_eq]
        apply key none (upd s.cur p (nx + 1))
        · intro q; unfold upd; split
          · rename_i hq; subst hq; omega
          · exact h.cur_le q
        · intro a b c h0; cases h0
        · intro Q L q; unfold nxt upd; simp only []
          by_cases hq : p = q
          · subst hq; simp
          · have : ¬ q = p := fun h => hq h.symm
            simp [hq, this]

end SierraModel.Subscription
