/-
Every step of the subscription task preserves the invariant; `step` preserves it.
-/
import SierraModel.Lemmas.SubscriptionTask

namespace SierraModel.Subscription

theorem inv_chooseNext {s s' : Sys} (b : InvB s) (hs : Safe0All s) (ch : Option Key)
    (h : chooseNext s ch = some s') : Inv s' := by
  unfold chooseNext at h
  by_cases hop : s.opened ≠ []
  · rw [if_pos hop] at h
    cases ch with
    | none => cases h
    | some k =>
      simp only [] at h
      by_cases hk : k ∈ s.opened
      · simp only [hk, if_true] at h
        cases h
        exact Inv.ofBase (invB_setpc b _) (safe0_setpc hs _) (by show k ∈ s.opened; exact hk)
      · simp only [hk, if_false] at h; cases h
  · rw [if_neg hop] at h
    have hop' : s.opened = [] := by simpa using hop
    by_cases htd : s.todo ≠ []
    · rw [if_pos htd] at h
      cases ch with
      | none => cases h
      | some k =>
        simp only [] at h
        by_cases hk : k ∈ s.todo
        · simp only [hk, if_true] at h
          cases hf : s.frm k with
          | none => simp only [hf] at h; cases h
          | some f =>
            simp only [hf] at h
            cases h
            obtain ⟨b', hs'⟩ := inv_openK b hs hop' hk hf
            exact Inv.ofBase b' hs' (by show k ∈ [k]; simp)
        · simp only [hk, if_false] at h; cases h
    · rw [if_neg htd] at h
      have htd' : s.todo = [] := by simpa using htd
      cases ch with
      | some k => cases h
      | none =>
        simp only [] at h
        cases h
        exact Inv.ofBase (invB_setpc b _) (safe0_setpc hs _) ⟨hop', htd'⟩

theorem needHist_sub (s : Sys) : ∀ k ∈ needHist s, k ∈ s.keys ∧ (s.frm k).isSome = true := by
  intro k hk
  simpa [needHist, List.mem_filter] using hk

theorem frm_none_of_not_needHist {s : Sys} {k : Key} (hk : k ∈ s.keys) (h : k ∉ needHist s) :
    s.frm k = none := by
  simp only [needHist, List.mem_filter, not_and] at h
  have := h hk
  cases hf : s.frm k with
  | none => rfl
  | some f => simp [hf] at this

theorem beginHist_streams {s : Sys} (ch : Option Key) (hk : s.kind = .stream ∨ s.kind = .streams) :
    beginHist s ch = chooseNext { s with todo := needHist s, opened := [] } ch := by
  unfold beginHist
  rcases hk with h | h <;> rw [h]

theorem beginHist_parts {s : Sys} (ch : Option Key) (hk : s.kind = .parts) :
    beginHist s ch = chooseNext (openAll { s with todo := [] } (needHist s)) ch := by
  unfold beginHist
  rw [hk]

theorem beginHist_part {s : Sys} (ch : Option Key) (hk : s.kind = .part) {k : Key} (hkeys : s.keys = [k]) :
    beginHist s ch = match s.frm k with
      | some f => if f < s.wm k.pid then chooseNext (openAll { s with todo := [] } [k]) ch
                  else chooseNext { s with todo := [], opened := [] } ch
      | none => chooseNext { s with todo := [], opened := [] } ch := by
  unfold beginHist
  rw [hk]
  simp only []
  rw [hkeys]
  rfl

theorem beginHist_part_none {s : Sys} (ch : Option Key) (hk : s.kind = .part) (hkeys : ∀ k, s.keys ≠ [k]) :
    beginHist s ch = none := by
  unfold beginHist
  rw [hk]
  simp only []

/-- `read_history` from a state whose position-less keys are safe -/
theorem inv_beginHist {s s' : Sys} (b : InvB s) (hop : s.opened = [])
    (hpre : ∀ k ∈ s.keys, s.lost k = false → s.frm k = none → SafeKey0 s k) (ch : Option Key)
    (h : beginHist s ch = some s') : Inv s' := by
  have hnd : (needHist s).Nodup := List.Pairwise.filter _ b.keys_nodup
  have hstreams : chooseNext { s with todo := needHist s, opened := [] } ch = some s' → Inv s' := by
    intro h
    apply inv_chooseNext (invB_settodo b hop (needHist s) (needHist_sub s) hnd) _ ch h
    intro k hk hl ht e he hm hn
    exact hpre k hk hl (frm_none_of_not_needHist hk ht) e he hm hn
  have hempty : chooseNext { s with todo := [], opened := [] } ch = some s' →
      (∀ k ∈ s.keys, s.lost k = false → SafeKey0 s k) → Inv s' := by
    intro h hsafe
    apply inv_chooseNext (invB_settodo b hop [] (by intro k hk; cases hk) List.Pairwise.nil) _ ch h
    intro k hk hl _
    exact hsafe k hk hl
  cases hkind : s.kind with
  | stream => rw [beginHist_streams ch (Or.inl hkind)] at h; exact hstreams h
  | streams => rw [beginHist_streams ch (Or.inr hkind)] at h; exact hstreams h
  | parts =>
    rw [beginHist_parts ch hkind] at h
    obtain ⟨b', hs'⟩ := inv_openAll b hop (needHist s) (needHist_sub s) hnd
      (fun k hk hl hnot => hpre k hk hl (frm_none_of_not_needHist hk hnot))
    exact inv_chooseNext b' hs' ch h
  | part =>
    by_cases hex : ∃ k, s.keys = [k]
    · obtain ⟨k, hkeys⟩ := hex
      rw [beginHist_part ch hkind hkeys] at h
      have hk : k ∈ s.keys := by rw [hkeys]; simp
      have honly : ∀ k' ∈ s.keys, k' = k := by intro k' hk'; rw [hkeys] at hk'; simpa using hk'
      cases hf : s.frm k with
      | none =>
        simp only [hf] at h
        apply hempty h
        intro k' hk' hl
        have := honly k' hk'; subst this
        exact hpre k' hk hl hf
      | some f =>
        simp only [hf] at h
        by_cases hlt : f < s.wm k.pid
        · rw [if_pos hlt] at h
          obtain ⟨b', hs'⟩ := inv_openAll b hop [k] (by intro k' hk'; simp at hk'; subst hk'; exact ⟨hk, by simp [hf]⟩)
            (by simp) (by intro k' hk' _ hnot; exact absurd (by simp [honly k' hk']) hnot)
          exact inv_chooseNext b' hs' ch h
        · rw [if_neg hlt] at h
          apply hempty h
          intro k' hk' hl e he hm hn
          have := honly k' hk'; subst this
          -- `can_read(from)` failed: everything wanted is at or beyond the watermark
          have hneed : need s k' = f := by unfold need; rw [hf]; rfl
          have h1 := (b.logwf k'.pid).pos_le_seq rfl he hm
          have h2 := nxt_le_wmB b k'.pid
          have h3 := b.swm_le k'.pid
          right; right
          refine ⟨?_, Or.inr ?_⟩ <;> omega
    · have : ∀ k, s.keys ≠ [k] := fun k hk => hex ⟨k, hk⟩
      rw [beginHist_part_none ch hkind this] at h
      cases h

theorem noChoice_some {ch : Option Key} {r s' : Sys} (h : noChoice ch r = some s') : s' = r := by
  unfold noChoice at h
  cases ch with
  | none => simp at h; exact h.symm
  | some k => cases h

/-- everything an iterator still yields is at or beyond its head -/
theorem iter_ge_head {s : Sys} (b : InvB s) {k : Key} {e : Ev} {rest : List Ev}
    (hit : s.iter k = e :: rest) : ∀ x ∈ s.iter k, e.seq ≤ x.seq := by
  have hs := iter_sorted b k
  rw [hit] at hs ⊢
  intro x hx
  rcases List.mem_cons.mp hx with h1 | h1
  · subst h1; exact Nat.le_refl _
  · exact Nat.le_of_lt ((List.pairwise_cons.mp hs).1 x h1)

/-- `break 'iter`: the head is not confirmed, so nothing the iterator holds has been sent -/
theorem drop_ok {s : Sys} (b : InvB s) {k : Key} {e : Ev} {rest : List Ev}
    (hit : s.iter k = e :: rest) (hwm : ¬ e.seq < s.wm k.pid) :
    ∀ x ∈ s.iter k, s.startWm k.pid ≤ x.seq ∧ nxt s k.pid ≤ x.seq := by
  intro x hx
  have h1 := iter_ge_head b hit x hx
  have h2 := nxt_le_wmB b k.pid
  have h3 := b.swm_le k.pid
  constructor <;> omega

theorem inv_sub_start {s s' : Sys} (h : Inv s) (hpc : s.pc = .start) (ch : Option Key)
    (hs : beginHist s ch = some s') : Inv s' := by
  have hp := h.pc_ok
  unfold PcOK at hp; rw [hpc] at hp
  have hs0 := h.safe0 (by intro e k; rw [hpc]; intro hc; cases hc)
  apply inv_beginHist h.base hp _ ch hs
  intro k hk hl hf
  apply hs0 k hk hl
  intro ht
  have := (h.todo_sub k ht).2
  rw [hf] at this; cases this

theorem inv_sub_batch {s s' : Sys} (h : Inv s) {k : Key} (hpc : s.pc = .batch k) (ch : Option Key)
    (n0 : Nat) (hs : subStep s ch n0 = some s') : Inv s' := by
  have hp := h.pc_ok
  unfold PcOK at hp; rw [hpc] at hp
  have hs0 := h.safe0 (by intro e k; rw [hpc]; intro hc; cases hc)
  unfold subStep at hs
  rw [hpc] at hs
  simp only [] at hs
  cases hit : s.iter k with
  | nil =>
    rw [hit] at hs
    simp only [] at hs
    split at hs
    · cases hs
    · obtain ⟨b', hs'⟩ := inv_dropIter h.base hs0 k (by intro e he; rw [hit] at he; cases he)
      exact inv_chooseNext b' hs' ch hs
  | cons e rest =>
    rw [hit] at hs
    simp only [] at hs
    split at hs
    · cases hs
    · split at hs
      · rename_i hwm
        have := noChoice_some hs; subst this
        exact Inv.ofBase (invB_setpc h.base _) (safe0_setpc hs0 _)
          (by show k ∈ s.opened ∧ ∃ e rest, s.iter k = e :: rest ∧ e.seq < s.wm k.pid
              exact ⟨hp, e, rest, hit, hwm⟩)
      · rename_i hwm
        obtain ⟨b', hs'⟩ := inv_dropIter h.base hs0 k (drop_ok h.base hit hwm)
        exact inv_chooseNext b' hs' ch hs

/-- history: deliver the head of k's iterator -/
theorem inv_deliverH {s : Sys} (h : Inv s) {k : Key} {e : Ev} {rest : List Ev}
    (hpc : ∀ e k, s.pc ≠ .lsend e k) (hko : k ∈ s.opened) (hit : s.iter k = e :: rest)
    (hwm : e.seq < s.wm k.pid) (hroom : room s = true) :
    InvB (deliver { s with iter := upd s.iter k rest } e k) ∧
    Safe0All (deliver { s with iter := upd s.iter k rest } e k) := by
  have b := h.base
  have hs0 := h.safe0 hpc
  have hk : k ∈ s.keys := b.opened_sub k hko
  have hmem : e ∈ s.iter k := by rw [hit]; simp
  obtain ⟨helog, hm⟩ := iter_mem b hmem
  have hep : e.p = k.pid := Key.matches_pid hm
  obtain ⟨hpos, hrest⟩ := iter_head_pos b hit
  refine ⟨?_, ?_⟩
  · apply invB_deliver b (upd s.iter k rest) hk hm (by rw [hep]; exact hwm)
      (by rw [hep]; exact (b.logwf k.pid).lookup helog) hroom (fun _ => hpos)
    · intro k' hk'
      have hne : k' ≠ k := by intro hc; subst hc; exact hk' hko
      rw [upd_other _ _ _ _ hne]; exact b.iter_closed k' hk'
    · intro k'
      by_cases hkk : k' = k
      · subst hkk; simp only [if_true, upd_same]; rw [hpos]; exact hrest
      · simp only [hkk, if_false]; rw [upd_other _ _ _ _ hkk]; exact b.iter_ok k'
  · intro k' hk' hl ht x hx hmx hn
    rw [need_deliver] at hn
    show x ∈ upd s.iter k rest k' ∨ _
    by_cases hkk : k' = k
    · subst hkk
      simp only [if_true] at hn
      rw [upd_same]
      have hn' : need s k' ≤ k'.pos x := by omega
      rcases hs0 k' hk' hl ht x hx hmx hn' with h1 | h1 | h1
      · rw [hit] at h1
        rcases List.mem_cons.mp h1 with h2 | h2
        · subst h2; omega
        · left; exact h2
      · right; left; exact h1
      · right; right; exact h1
    · simp only [hkk, if_false] at hn
      rw [upd_other _ _ _ _ hkk]
      exact hs0 k' hk' hl ht x hx hmx hn

theorem subStep_hsend_eq {s : Sys} {k : Key} {n : Nat} (hpc : s.pc = .hsend k n) (ch : Option Key)
    (n0 : Nat) : subStep s ch n0 =
      if n0 ≠ 0 then none else
      match s.iter k with
      | [] => none
      | e :: rest =>
        if !(room s) then none else
        if n ≤ 1 then chooseNext (deliver { s with iter := upd s.iter k rest } e k) ch
        else match rest with
          | [] => chooseNext (deliver { s with iter := upd s.iter k rest } e k) ch
          | e' :: _ =>
            if e'.seq < s.wm k.pid then
              noChoice ch { (deliver { s with iter := upd s.iter k rest } e k) with pc := .hsend k (n - 1) }
            else chooseNext (dropIter (deliver { s with iter := upd s.iter k rest } e k) k) ch := by
  unfold subStep
  rw [hpc]
  simp only []
  rfl

theorem inv_sub_hsend {s s' : Sys} (h : Inv s) {k : Key} {n : Nat} (hpc : s.pc = .hsend k n)
    (ch : Option Key) (n0 : Nat) (hs : subStep s ch n0 = some s') : Inv s' := by
  have hp := h.pc_ok
  unfold PcOK at hp; rw [hpc] at hp
  obtain ⟨hko, e, rest, hit, hwm⟩ := hp
  have hpcl : ∀ e k, s.pc ≠ .lsend e k := by intro e k; rw [hpc]; intro hc; cases hc
  rw [subStep_hsend_eq hpc] at hs
  split at hs
  · cases hs
  rw [hit] at hs
  simp only [] at hs
  split at hs
  · cases hs
  rename_i hroom
  have hroom' : room s = true := by simpa using hroom
  obtain ⟨b1, s1⟩ := inv_deliverH h hpcl hko hit hwm hroom'
  split at hs
  · exact inv_chooseNext b1 s1 ch hs
  · cases hrest : rest with
    | nil =>
      rw [hrest] at hs
      simp only [] at hs
      rw [← hrest] at hs
      exact inv_chooseNext b1 s1 ch hs
    | cons e' rest' =>
      rw [hrest] at hs
      simp only [] at hs
      rw [← hrest] at hs
      have hit1 : (deliver { s with iter := upd s.iter k rest } e k).iter k = e' :: rest' := by
        show upd s.iter k rest k = _
        rw [upd_same, hrest]
      split at hs
      · rename_i hwm'
        have := noChoice_some hs; subst this
        exact Inv.ofBase (invB_setpc b1 _) (safe0_setpc s1 _)
          (by show k ∈ s.opened ∧ ∃ (x : Ev) (r : List Ev), upd s.iter k rest k = x :: r ∧ x.seq < s.wm k.pid
              exact ⟨hko, e', rest', hit1, hwm'⟩)
      · rename_i hwm'
        obtain ⟨b', hs'⟩ := inv_dropIter b1 s1 k (drop_ok b1 hit1 hwm')
        exact inv_chooseNext b' hs' ch hs

theorem need_onLag {s : Sys} (b : InvB s) (k : Key) : need (onLag s) k = need s k := by
  unfold need onLag
  simp only []
  cases hf : s.frm k with
  | some f => rfl
  | none =>
    simp only []
    by_cases hc : (k.isPart && decide (k ∈ s.keys)) = true
    · rw [if_pos hc]
      simp at hc
      simp [b.latest_part k hc.2 hc.1 hf]
    · rw [if_neg hc]

/-- `Lagged`: re-read history; only streams followed from LATEST that delivered nothing are lost -/
theorem inv_sub_lag {s s' : Sys} (h : Inv s) (hpc : s.pc = .live) (ch : Option Key)
    (hs : beginHist (onLag s) ch = some s') : Inv s' := by
  have hp := h.pc_ok
  unfold PcOK at hp; rw [hpc] at hp
  have b := h.base
  have hfrm : ∀ k, (onLag s).frm k = none →
      s.frm k = none ∧ ¬ ((k.isPart && decide (k ∈ s.keys)) = true) := by
    intro k hk
    have hk' : (match s.frm k with
      | some f => some f
      | none => if (k.isPart && decide (k ∈ s.keys)) = true then some (s.startWm k.pid) else none) = none := hk
    cases hf : s.frm k with
    | some f => rw [hf] at hk'; cases hk'
    | none =>
      rw [hf] at hk'
      simp only [] at hk'
      refine ⟨rfl, ?_⟩
      intro hc; rw [if_pos hc] at hk'; cases hk'
  have b' : InvB (onLag s) := by
    constructor
    case todo_sub => intro k hk; have : k ∈ s.todo := hk; rw [hp.2] at this; cases this
    case iter_ok => intro k; rw [need_onLag b]; exact b.iter_ok k
    case deliv =>
      intro k hk hl
      rw [need_onLag b]
      have hl' : (s.lost k || (!k.isPart && decide (k ∈ s.keys) && (s.frm k).isNone)) = false := hl
      have : s.lost k = false := by
        cases hx : s.lost k with
        | false => rfl
        | true => simp [hx] at hl'
      exact b.deliv k hk this
    case latest_part =>
      intro k hk hpart hf
      have := (hfrm k hf).2
      have hk' : k ∈ s.keys := hk
      simp [hpart, hk'] at this
    case latest_start =>
      intro k hk hf
      exact b.latest_start k hk (hfrm k hf).1
    case lost_stream =>
      intro k hl
      have hl' : (s.lost k || (!k.isPart && decide (k ∈ s.keys) && (s.frm k).isNone)) = true := hl
      cases hx : s.lost k with
      | true => exact b.lost_stream k hx
      | false =>
        simp [hx] at hl'
        exact hl'.1.1
    all_goals frameB b
  apply inv_beginHist b' hp.1 _ ch hs
  intro k hk hl hf
  have hl' : (s.lost k || (!k.isPart && decide (k ∈ s.keys) && (s.frm k).isNone)) = false := hl
  obtain ⟨hf0, hnp⟩ := hfrm k hf
  have hk' : k ∈ s.keys := hk
  simp [hk', hf0] at hl' hnp
  simp [hnp] at hl'

theorem subStep_live_eq {s : Sys} (hpc : s.pc = .live) (ch : Option Key) (n0 : Nat) :
    subStep s ch n0 =
      if n0 ≠ 0 then none else
      if s.lagged = true then beginHist (onLag s) ch
      else match s.queue with
        | [] => none
        | (p, i) :: q =>
          match (s.log p)[i]? with
          | none => none
          | some e => noChoice ch (liveRecv { s with queue := q } e) := by
  unfold subStep
  rw [hpc]
  simp only []
  rfl

/-- `recv` of the oldest unread slot, the F20 filter and `has_seen` -/
theorem inv_sub_recv {s : Sys} (h : Inv s) (hpc : s.pc = .live) (hlag : s.lagged = false)
    {p i : Nat} {q : List (Nat × Nat)} {e : Ev} (hq : s.queue = (p, i) :: q)
    (hlk : (s.log p)[i]? = some e) : Inv (liveRecv { s with queue := q } e) := by
  have hp := h.pc_ok
  unfold PcOK at hp; rw [hpc] at hp
  obtain ⟨hop, htd⟩ := hp
  have b := h.base
  have wf := h.logwf p
  have hel : e ∈ s.log p := List.mem_of_getElem? hlk
  have hseq : e.seq = i := wf.hseq i e hlk
  have hep : e.p = p := wf.hp e hel
  have hi : i < nxt s p := h.q_lt p i (by rw [hq]; simp)
  have hqs := h.q_sorted
  rw [hq] at hqs
  obtain ⟨hhead, hqs'⟩ := List.pairwise_cons.mp hqs
  have hwm : e.seq < s.wm e.p := by
    have := nxt_le_wm h p; rw [hep]; omega
  have hlook : (s.log e.p)[e.seq]? = some e := by rw [hep, hseq]; exact hlk
  have b1 : InvB { s with queue := q } := by
    constructor
    case q_lt => intro p' i' hm; exact h.q_lt p' i' (by rw [hq]; exact List.mem_cons_of_mem _ hm)
    case q_sorted => exact hqs'
    all_goals frameB b
  have hiter : ∀ k, s.iter k = [] := fun k => h.iter_closed k (by rw [hop]; simp)
  -- wanted events other than e are still queued or unsent
  have hother : ∀ k' ∈ s.keys, s.lost k' = false → ∀ e' ∈ s.log k'.pid, k'.matches e' = true →
      need s k' ≤ k'.pos e' → e' ≠ e →
      s.startWm k'.pid ≤ e'.seq ∧ ((k'.pid, e'.seq) ∈ q ∨ nxt s k'.pid ≤ e'.seq) := by
    intro k' hk' hl e' he' hm' hn' hne
    rcases h.safe k' hk' hl (by rw [htd]; simp) e' he' hm' hn' with h1 | h1 | h1 | h1
    · rw [hiter] at h1; cases h1
    · rw [hlag] at h1; cases h1
    · refine ⟨h1.1, ?_⟩
      rcases h1.2 with h2 | h2
      · rw [hq] at h2
        rcases List.mem_cons.mp h2 with h3 | h3
        · exfalso
          have hpid : k'.pid = p := by injection h3
          have hsq : e'.seq = i := by injection h3
          rw [hpid] at he'
          exact hne (wf.seq_inj he' hel (by rw [hsq, hseq]))
        · exact Or.inl h3
      · exact Or.inr h2
    · rw [hpc] at h1; cases h1
  -- if e itself is wanted by k', it is not below the watermark sampled by `subscribe`
  have hself : ∀ k' ∈ s.keys, s.lost k' = false → k'.matches e = true → need s k' ≤ k'.pos e →
      s.startWm e.p ≤ e.seq := by
    intro k' hk' hl hm' hn'
    have hpid : k'.pid = p := by rw [← Key.matches_pid hm', hep]
    rcases h.safe k' hk' hl (by rw [htd]; simp) e (by rw [hpid]; exact hel) hm' hn' with h1 | h1 | h1 | h1
    · rw [hiter] at h1; cases h1
    · rw [hlag] at h1; cases h1
    · rw [hep, ← hpid]; exact h1.1
    · rw [hpc] at h1; cases h1
  -- the record is dropped: it was wanted by nobody
  have hskip : (∀ k' ∈ s.keys, s.lost k' = false → k'.matches e = true → need s k' ≤ k'.pos e → False) →
      Inv { s with queue := q } := by
    intro hno
    refine Inv.ofBase b1 ?_ (by unfold PcOK; simp only [hpc]; exact ⟨hop, htd⟩)
    intro k' hk' hl _ e' he' hm' hn'
    right; right
    apply hother k' hk' hl e' he' hm' hn'
    intro hc; subst hc
    exact hno k' hk' hl hm' hn'
  unfold liveRecv
  simp only []
  split
  · rename_i hlt
    apply hskip
    intro k' hk' hl hm' hn'
    have := hself k' hk' hl hm' hn'
    omega
  · rename_i hge
    split
    · rename_i hfind
      apply hskip
      intro k' hk' _ hm' _
      have := List.find?_eq_none.mp hfind k' hk'
      simp [hm'] at this
    · rename_i k hfind
      have hk : k ∈ s.keys := List.mem_of_find?_eq_some hfind
      have hm : k.matches e = true := by simpa using List.find?_some hfind
      have hpid : k.pid = p := by rw [← Key.matches_pid hm, hep]
      have honly : ∀ k' ∈ s.keys, k'.matches e = true → k' = k :=
        fun k' hk' hm' => Key.matches_unique (h.keys_kind k' hk' k hk) hm' hm
      -- the record goes to `send_record`
      have hsend : need s k ≤ k.pos e →
          Inv { ({ s with queue := q } : Sys) with pc := .lsend e k } := by
        intro hge'
        have hposeq : s.lost k = false → k.pos e = need s k := by
          intro hl
          apply Nat.le_antisymm _ hge'
          apply Nat.le_of_not_lt
          intro hlt'
          -- the event at position `need` would have been skipped
          have hat := (h.logwf k.pid).at_pos rfl (by rw [hpid]; exact hel) hm
          have hlen : k.pos e < ((s.log k.pid).filter k.matches).length :=
            (List.getElem?_eq_some_iff.mp hat).1
          have hlt2 : need s k < ((s.log k.pid).filter k.matches).length := by omega
          let e0 := ((s.log k.pid).filter k.matches)[need s k]
          have he0 : ((s.log k.pid).filter k.matches)[need s k]? = some e0 := List.getElem?_eq_getElem hlt2
          have hmem0 := List.mem_filter.mp (List.mem_of_getElem? he0)
          have hpos0 : k.pos e0 = need s k := (h.logwf k.pid).hpos k rfl _ _ he0
          have hne0 : e0 ≠ e := by intro hc; rw [hc] at hpos0; omega
          have hseq0 : e0.seq < e.seq :=
            (h.logwf k.pid).pos_lt_seq_lt rfl hmem0.1 (by rw [hpid]; exact hel) hmem0.2 hm (by omega)
          have := hother k hk hl e0 hmem0.1 hmem0.2 (by omega) hne0
          rcases this.2 with h2 | h2
          · have := hhead _ h2 hpid.symm
            simp at this; omega
          · rw [hpid] at h2; omega
        constructor
        case safe =>
          intro k' hk' hl _ e' he' hm' hn'
          by_cases hc : e' = e
          · subst hc
            have := honly k' hk' hm'; subst this
            right; right; right; rfl
          · right; right; left
            exact hother k' hk' hl e' he' hm' hn' hc
        case pc_ok =>
          unfold PcOK; simp only []
          exact ⟨hop, htd, hk, hm, hwm, hlook, hposeq⟩
        all_goals frameB b1
      cases hf : s.frm k with
      | some f =>
        simp only []
        split
        · rename_i hlt
          apply hskip
          intro k' hk' _ hm' hn'
          have := honly k' hk' hm'; subst this
          have : need s k' = f := by unfold need; rw [hf]; rfl
          omega
        · rename_i hnlt
          apply hsend
          have : need s k = f := by unfold need; rw [hf]; rfl
          omega
      | none =>
        simp only []
        apply hsend
        have hst := h.latest_start k hk hf
        have hneed : need s k = s.start k := by unfold need; rw [hf]; rfl
        rw [hneed, hst]
        apply Nat.le_of_not_lt
        intro hlt
        have := (h.logwf k.pid).seq_lt_of_pos_lt rfl (s.startWm k.pid) (by rw [hpid]; exact hel) hm hlt
        rw [hpid, ← hep] at this
        exact hge this

/-- the live loop's `send_record` and `update_state` -/
theorem inv_sub_lsend {s : Sys} (h : Inv s) {e : Ev} {k : Key} (hpc : s.pc = .lsend e k)
    (hroom : room s = true) : Inv { (deliver s e k) with pc := .live } := by
  have hp := h.pc_ok
  unfold PcOK at hp; rw [hpc] at hp
  obtain ⟨hop, htd, hk, hm, hwm, hlook, hpos⟩ := hp
  have b := h.base
  have hiter : ∀ k, s.iter k = [] := fun k => h.iter_closed k (by rw [hop]; simp)
  have b1 : InvB (deliver { s with iter := s.iter } e k) :=
    invB_deliver b s.iter hk hm hwm hlook hroom hpos b.iter_closed
      (by intro k'; rw [hiter]; exact List.nil_prefix)
  refine Inv.ofBase (invB_setpc b1 _) ?_ (by unfold PcOK; simp only []; exact ⟨hop, htd⟩)
  intro k' hk' hl ht x hx hmx hn
  have hn' : need (deliver { s with iter := s.iter } e k) k' ≤ k'.pos x := hn
  rw [need_deliver] at hn'
  have ht' : k' ∉ s.todo := by rw [htd]; simp
  by_cases hkk : k' = k
  · subst hkk
    simp only [if_true] at hn'
    have hpe := hpos hl
    rcases h.safe k' hk' hl ht' x hx hmx (by omega) with h1 | h1 | h1 | h1
    · left; exact h1
    · right; left; exact h1
    · right; right; exact h1
    · rw [hpc] at h1
      injection h1 with h2 h3
      subst h2; omega
  · simp only [hkk, if_false] at hn'
    rcases h.safe k' hk' hl ht' x hx hmx hn' with h1 | h1 | h1 | h1
    · left; exact h1
    · right; left; exact h1
    · right; right; exact h1
    · rw [hpc] at h1
      injection h1 with h2 h3
      exact absurd h3.symm hkk

theorem subStep_lsend_eq {s : Sys} {e : Ev} {k : Key} (hpc : s.pc = .lsend e k) (ch : Option Key)
    (n0 : Nat) : subStep s ch n0 =
      if n0 ≠ 0 then none else
      if !(room s) then none else noChoice ch { (deliver s e k) with pc := .live } := by
  unfold subStep
  rw [hpc]

theorem inv_subStep {s s' : Sys} (h : Inv s) (ch : Option Key) (n0 : Nat)
    (hs : subStep s ch n0 = some s') : Inv s' := by
  cases hpc : s.pc with
  | off => unfold subStep at hs; rw [hpc] at hs; cases hs
  | start =>
    unfold subStep at hs; rw [hpc] at hs
    simp only [] at hs
    split at hs
    · cases hs
    · exact inv_sub_start h hpc ch hs
  | batch k => exact inv_sub_batch h hpc ch n0 hs
  | hsend k n => exact inv_sub_hsend h hpc ch n0 hs
  | live =>
    rw [subStep_live_eq hpc] at hs
    split at hs
    · cases hs
    · split at hs
      · exact inv_sub_lag h hpc ch hs
      · rename_i hlag
        have hlag' : s.lagged = false := by simpa using hlag
        split at hs
        · cases hs
        · rename_i p i q hq
          split at hs
          · cases hs
          · rename_i e hlk
            have := noChoice_some hs; subst this
            exact inv_sub_recv h hpc hlag' hq hlk
  | lsend e k =>
    rw [subStep_lsend_eq hpc] at hs
    split at hs
    · cases hs
    · split at hs
      · cases hs
      · rename_i hroom
        have hroom' : room s = true := by simpa using hroom
        have := noChoice_some hs; subst this
        exact inv_sub_lsend h hpc hroom'

theorem inv_step {s s' : Sys} (h : Inv s) (a : Action) (hs : step s a = some s') : Inv s' := by
  cases a with
  | append p st => simp [step] at hs; subst hs; exact inv_append h p st
  | confirm p n =>
    simp only [step] at hs
    split at hs
    · rename_i hc; simp at hs; subst hs; exact inv_confirm h p n hc
    · cases hs
  | advance p n =>
    simp only [step] at hs
    split at hs
    · rename_i hc; simp at hs; subst hs; exact inv_advance h p n hc
    · cases hs
  | bsend => exact inv_bsend h hs
  | otherOn => simp [step] at hs; subst hs; exact inv_other h true
  | otherOff => simp [step] at hs; subst hs; exact inv_other h false
  | subscribe kd ks w => exact inv_subscribe h kd ks w hs
  | ack c =>
    simp only [step] at hs
    split at hs
    · rename_i hc; simp at hs; subst hs; exact inv_ack h c hc
    · cases hs
  | sub ch n => exact inv_subStep h ch n hs

/-- the invariant holds after every schedule -/
theorem inv_run {s s' : Sys} (h : Inv s) (as : List Action) (hs : run s as = some s') : Inv s' := by
  induction as generalizing s with
  | nil => simp [run] at hs; subst hs; exact h
  | cons a as ih =>
    simp only [run] at hs
    split at hs
    · rename_i s1 h1; exact ih (inv_step h a h1) hs
    · cases hs

end SierraModel.Subscription
