/-
Preservation of the subscription invariant by `subscribe` and by the steps of the subscription
task (history, live loop, lag).
-/
import SierraModel.Lemmas.SubscriptionInv

namespace SierraModel.Subscription

theorem kindOk_same {kd : Kind} {ks : List Key} (h : kindOk kd ks = true) :
    ∀ k ∈ ks, ∀ k' ∈ ks, k.isPart = k'.isPart := by
  have hall : (∀ k ∈ ks, k.isPart = true) ∨ (∀ k ∈ ks, k.isPart = false) := by
    cases kd with
    | part =>
      match ks, h with
      | [k], h => left; intro k' hk'; simp at hk'; subst hk'; simpa [kindOk] using h
    | parts => left; simpa [kindOk] using h
    | stream =>
      match ks, h with
      | [k], h => right; intro k' hk'; simp at hk'; subst hk'; simpa [kindOk] using h
    | streams => right; simpa [kindOk] using h
  intro k hk k' hk'
  rcases hall with h1 | h1 <;> rw [h1 k hk, h1 k' hk']

theorem wpos_part {s : Sys} (h : Inv s) (p : Nat) : wpos s (Key.part p) = s.wm p := by
  unfold wpos
  simp only [Key.pid]
  have : ∀ e ∈ (s.log p).take (s.wm p), e.p = p :=
    fun e he => (h.logwf p).hp e (List.mem_of_mem_take he)
  rw [filter_matches_part this, List.length_take]
  exact Nat.min_eq_left (h.wm_le p)

theorem inv_subscribe {s s' : Sys} (h : Inv s) (kd : Kind) (ks : List (Key × Option Nat)) (w : Nat)
    (hs : doSubscribe s kd ks w = some s') : Inv s' := by
  unfold doSubscribe at hs
  simp only [] at hs
  split at hs
  · cases hs
  split at hs
  · cases hs
  split at hs
  · cases hs
  rename_i hpc hkind hnd
  simp at hkind hnd
  cases hs
  have hneed : ∀ k, (match lookupFrom ks k with | some f => some f | none => none : Option Nat).getD
      (match lookupFrom ks k with | some f => f | none => wpos s k) =
      (match lookupFrom ks k with | some f => f | none => wpos s k) := by
    intro k; cases lookupFrom ks k <;> rfl
  constructor
  case logwf => exact h.logwf
  case wm_le => exact h.wm_le
  case cur_le => exact h.cur_le
  case job_ok => exact h.job_ok
  case q_lt => intro p i hi; cases hi
  case q_sorted => exact List.Pairwise.nil
  case swm_le => intro p; exact Nat.le_refl _
  case subd_ok => left; rfl
  case keys_nodup => exact hnd
  case keys_kind => exact kindOk_same hkind
  case todo_sub =>
    intro k hk
    simp only [needHist, List.mem_filter] at hk
    exact hk
  case todo_nodup => exact List.Pairwise.filter _ hnd
  case opened_sub => intro k hk; cases hk
  case opened_nodup => exact List.Pairwise.nil
  case iter_closed => intro k _; rfl
  case iter_ok => intro k; exact List.nil_prefix
  case deliv =>
    intro k _ _
    simp only [dl, need, List.filter_nil, List.map_nil]
    cases lookupFrom ks k <;> simp
  case safe =>
    intro k hk _ ht e he hm hn
    have hfrm : lookupFrom ks k = none := by
      simp only [needHist, List.mem_filter, not_and] at ht
      have := ht hk
      cases hl : lookupFrom ks k with
      | none => rfl
      | some f => simp [hl] at this
    simp only [need, hfrm, Option.getD_none] at hn
    have hge := (h.logwf k.pid).seq_ge_of_pos_ge rfl (s.wm k.pid) he hm hn
    right; right; left
    refine ⟨hge, Or.inr ?_⟩
    have := nxt_le_wm h k.pid
    show nxt s k.pid ≤ e.seq
    omega
  case out_ok => intro e he; cases he
  case win => simp
  case ack_lt => intro a ha; cases ha
  case latest_part =>
    intro k _ hp hf
    have hf' : lookupFrom ks k = none := hf
    show (match lookupFrom ks k with | some f => f | none => wpos s k) = s.wm k.pid
    rw [hf']
    cases k with
    | part p => exact wpos_part h p
    | stream p st => simp [Key.isPart] at hp
  case latest_start =>
    intro k _ hf
    have hf' : lookupFrom ks k = none := hf
    show (match lookupFrom ks k with | some f => f | none => wpos s k) = _
    rw [hf']; rfl
  case lost_stream => intro k hk; cases hk
  case pc_ok => show ([] : List Key) = []; rfl

/-! ### the invariant without its program-counter dependent parts -/

def SafeKey0 (s : Sys) (k : Key) : Prop :=
  ∀ e ∈ s.log k.pid, k.matches e = true → need s k ≤ k.pos e →
    e ∈ s.iter k ∨ s.lagged = true ∨
    (s.startWm k.pid ≤ e.seq ∧ ((k.pid, e.seq) ∈ s.queue ∨ nxt s k.pid ≤ e.seq))

def Safe0All (s : Sys) : Prop := ∀ k ∈ s.keys, s.lost k = false → k ∉ s.todo → SafeKey0 s k

structure InvB (s : Sys) : Prop where
  logwf : ∀ p, LogWF p (s.log p)
  wm_le : ∀ p, s.wm p ≤ (s.log p).length
  cur_le : ∀ p, s.cur p ≤ s.wm p
  job_ok : ∀ p nx to, s.job = some (p, nx, to) → nx < to ∧ to ≤ s.wm p
  q_lt : ∀ p i, (p, i) ∈ s.queue → i < nxt s p
  q_sorted : s.queue.Pairwise (fun a b => a.1 = b.1 → a.2 < b.2)
  swm_le : ∀ p, s.startWm p ≤ s.wm p
  subd_ok : s.subd = true ∨ s.keys = []
  keys_nodup : s.keys.Nodup
  keys_kind : ∀ k ∈ s.keys, ∀ k' ∈ s.keys, k.isPart = k'.isPart
  todo_sub : ∀ k ∈ s.todo, k ∈ s.keys ∧ (s.frm k).isSome = true
  todo_nodup : s.todo.Nodup
  opened_sub : ∀ k ∈ s.opened, k ∈ s.keys
  opened_nodup : s.opened.Nodup
  iter_closed : ∀ k, k ∉ s.opened → s.iter k = []
  iter_ok : ∀ k, s.iter k <+: (mlist s k).drop (need s k)
  deliv : ∀ k ∈ s.keys, s.lost k = false →
    dl s k = List.range' (s.start k) (need s k - s.start k) ∧ s.start k ≤ need s k
  out_ok : ∀ e ∈ s.out, e.seq < s.wm e.p ∧ (s.log e.p)[e.seq]? = some e
  win : s.out.length ≤ acked s + s.window
  ack_lt : ∀ a, s.lastAck = some a → a < s.out.length
  latest_part : ∀ k ∈ s.keys, k.isPart = true → s.frm k = none → s.start k = s.startWm k.pid
  latest_start : ∀ k ∈ s.keys, s.frm k = none →
    s.start k = (((s.log k.pid).take (s.startWm k.pid)).filter k.matches).length
  lost_stream : ∀ k, s.lost k = true → k.isPart = false

theorem Inv.base {s : Sys} (h : Inv s) : InvB s :=
  ⟨h.logwf, h.wm_le, h.cur_le, h.job_ok, h.q_lt, h.q_sorted, h.swm_le, h.subd_ok, h.keys_nodup,
   h.keys_kind, h.todo_sub, h.todo_nodup, h.opened_sub, h.opened_nodup, h.iter_closed, h.iter_ok,
   h.deliv, h.out_ok, h.win, h.ack_lt, h.latest_part, h.latest_start, h.lost_stream⟩

theorem Inv.ofBase {s : Sys} (b : InvB s) (hs : Safe0All s) (hp : PcOK s) : Inv s :=
  ⟨b.logwf, b.wm_le, b.cur_le, b.job_ok, b.q_lt, b.q_sorted, b.swm_le, b.subd_ok, b.keys_nodup,
   b.keys_kind, b.todo_sub, b.todo_nodup, b.opened_sub, b.opened_nodup, b.iter_closed, b.iter_ok,
   b.deliv,
   (fun k hk hl ht e he hm hn => by
      rcases hs k hk hl ht e he hm hn with h1 | h1 | h1
      · exact Or.inl h1
      · exact Or.inr (Or.inl h1)
      · exact Or.inr (Or.inr (Or.inl h1))),
   b.out_ok, b.win, b.ack_lt, b.latest_part, b.latest_start, b.lost_stream, hp⟩

/-- outside the live loop's send the record-in-flight clause is void -/
theorem Inv.safe0 {s : Sys} (h : Inv s) (hpc : ∀ e k, s.pc ≠ .lsend e k) : Safe0All s := by
  intro k hk hl ht e he hm hn
  rcases h.safe k hk hl ht e he hm hn with h1 | h1 | h1 | h1
  · exact Or.inl h1
  · exact Or.inr (Or.inl h1)
  · exact Or.inr (Or.inr h1)
  · exact absurd h1 (hpc e k)

syntax "frameB " ident : tactic
macro_rules
  | `(tactic| frameB $h:ident) => `(tactic| first
      | exact (InvB.logwf $h :) | exact (InvB.wm_le $h :) | exact (InvB.cur_le $h :)
      | exact (InvB.job_ok $h :) | exact (InvB.q_lt $h :) | exact (InvB.q_sorted $h :)
      | exact (InvB.swm_le $h :) | exact (InvB.subd_ok $h :) | exact (InvB.keys_nodup $h :)
      | exact (InvB.keys_kind $h :) | exact (InvB.todo_sub $h :) | exact (InvB.todo_nodup $h :)
      | exact (InvB.opened_sub $h :) | exact (InvB.opened_nodup $h :)
      | exact (InvB.iter_closed $h :) | exact (InvB.iter_ok $h :) | exact (InvB.deliv $h :)
      | exact (InvB.out_ok $h :) | exact (InvB.win $h :) | exact (InvB.ack_lt $h :)
      | exact (InvB.latest_part $h :) | exact (InvB.latest_start $h :) | exact (InvB.lost_stream $h :))

theorem invB_setpc {s : Sys} (b : InvB s) (pc : Pc) : InvB { s with pc := pc } := by
  constructor <;> frameB b

theorem safe0_setpc {s : Sys} (h : Safe0All s) (pc : Pc) : Safe0All { s with pc := pc } := h

theorem nxt_le_wmB {s : Sys} (h : InvB s) (p : Nat) : nxt s p ≤ s.wm p := by
  unfold nxt
  split
  · rename_i q nx to hj
    split
    · rename_i hq; subst hq
      have := (h.job_ok q nx to hj).1; have := (h.job_ok q nx to hj).2; omega
    · exact h.cur_le p
  · exact h.cur_le p

/-- what an open iterator still yields is sorted by sequence and consists of matching log events -/
theorem iter_mem {s : Sys} (b : InvB s) {k : Key} {e : Ev} (he : e ∈ s.iter k) :
    e ∈ s.log k.pid ∧ k.matches e = true := by
  have h1 : e ∈ (mlist s k).drop (need s k) := (b.iter_ok k).subset he
  have h2 : e ∈ mlist s k := List.mem_of_mem_drop h1
  exact List.mem_filter.mp h2

theorem iter_sorted {s : Sys} (b : InvB s) (k : Key) :
    (s.iter k).Pairwise (fun a c => a.seq < c.seq) := by
  have h1 : (s.log k.pid).Pairwise (fun a c => a.seq < c.seq) := (b.logwf k.pid).sorted
  have h2 : (mlist s k).Pairwise (fun a c => a.seq < c.seq) := h1.sublist List.filter_sublist
  have h3 := h2.sublist (List.drop_sublist (need s k) (mlist s k))
  exact h3.sublist (b.iter_ok k).sublist

/-- the head of an open iterator is the event at the wanted position -/
theorem iter_head_pos {s : Sys} (b : InvB s) {k : Key} {e : Ev} {rest : List Ev}
    (hit : s.iter k = e :: rest) : k.pos e = need s k ∧ rest <+: (mlist s k).drop (need s k + 1) := by
  have hp := b.iter_ok k
  rw [hit] at hp
  obtain ⟨t, ht⟩ := hp
  have h0 : ((mlist s k).drop (need s k))[0]? = some e := by rw [← ht]; rfl
  rw [List.getElem?_drop] at h0
  have := (b.logwf k.pid).hpos k rfl _ e h0
  refine ⟨by simpa using this, ?_⟩
  have hd : (mlist s k).drop (need s k + 1) = ((mlist s k).drop (need s k)).drop 1 := by
    rw [List.drop_drop]
  rw [hd, ← ht]
  exact ⟨t, rfl⟩

theorem need_deliver (s : Sys) (it : Key → List Ev) (e : Ev) (k k' : Key) :
    need (deliver { s with iter := it } e k) k' = if k' = k then k.pos e + 1 else need s k' := by
  unfold need deliver upd
  by_cases h : k' = k
  · simp [h]
  · simp [h]

theorem room_win {s : Sys} (hroom : room s = true) (hack : ∀ a, s.lastAck = some a → a < s.out.length) :
    s.out.length + 1 ≤ acked s + s.window := by
  unfold room at hroom
  unfold acked
  cases hl : s.lastAck with
  | none => simp [hl] at hroom ⊢; omega
  | some a => simp [hl] at hroom ⊢; have := hack a hl; omega

/-- `send_record` of a record that is the next wanted one of key k -/
theorem invB_deliver {s : Sys} (b : InvB s) (it : Key → List Ev) {k : Key} {e : Ev} (hk : k ∈ s.keys)
    (hm : k.matches e = true) (hwm : e.seq < s.wm e.p) (hlook : (s.log e.p)[e.seq]? = some e)
    (hroom : room s = true) (hpos : s.lost k = false → k.pos e = need s k)
    (hclosed : ∀ k', k' ∉ s.opened → it k' = [])
    (hok : ∀ k', it k' <+: (mlist s k').drop (if k' = k then k.pos e + 1 else need s k')) :
    InvB (deliver { s with iter := it } e k) := by
  constructor
  case iter_closed => exact hclosed
  case iter_ok => intro k'; rw [need_deliver]; exact hok k'
  case todo_sub =>
    intro k' hk'
    refine ⟨(b.todo_sub k' hk').1, ?_⟩
    show (upd s.frm k (some (k.pos e + 1)) k').isSome = true
    unfold upd; split
    · rfl
    · exact (b.todo_sub k' hk').2
  case deliv =>
    intro k' hk' hl
    rw [need_deliver]
    have hold := b.deliv k' hk' hl
    by_cases hkk : k' = k
    · subst hkk
      simp only [if_true]
      have hp := hpos hl
      have hdl : dl (deliver { s with iter := it } e k') k' = dl s k' ++ [k'.pos e] := by
        simp [dl, deliver, List.filter_append, hm]
      rw [hdl, hold.1, hp]
      show List.range' (s.start k') (need s k' - s.start k') ++ [need s k'] =
          List.range' (s.start k') (need s k' + 1 - s.start k') ∧ s.start k' ≤ need s k' + 1
      have h1 := hold.2
      have : need s k' + 1 - s.start k' = (need s k' - s.start k') + 1 := by omega
      rw [this, List.range'_1_concat]
      refine ⟨?_, by omega⟩
      congr 2
      omega
    · simp only [hkk, if_false]
      have hnm : k'.matches e = false := by
        cases hx : k'.matches e with
        | false => rfl
        | true => exact absurd (Key.matches_unique (b.keys_kind k' hk' k hk) hx hm) hkk
      have hdl : dl (deliver { s with iter := it } e k) k' = dl s k' := by
        simp [dl, deliver, List.filter_append, hnm]
      rw [hdl]; exact hold
  case out_ok =>
    intro x hx
    have hx' : x ∈ s.out ++ [e] := hx
    rcases List.mem_append.mp hx' with h1 | h1
    · exact b.out_ok x h1
    · simp at h1; subst h1; exact ⟨hwm, hlook⟩
  case win =>
    show (s.out ++ [e]).length ≤ acked s + s.window
    have := room_win hroom b.ack_lt
    simp; omega
  case ack_lt =>
    intro a ha
    have := b.ack_lt a ha
    show a < (s.out ++ [e]).length
    simp; omega
  case latest_part =>
    intro k' hk' hp hf
    have hf' : upd s.frm k (some (k.pos e + 1)) k' = none := hf
    unfold upd at hf'
    split at hf'
    · cases hf'
    · exact b.latest_part k' hk' hp hf'
  case latest_start =>
    intro k' hk' hf
    have hf' : upd s.frm k (some (k.pos e + 1)) k' = none := hf
    unfold upd at hf'
    split at hf'
    · cases hf'
    · exact b.latest_start k' hk' hf'
  all_goals frameB b

theorem LogWF.pos_le_seq {p : Nat} {l : List Ev} (h : LogWF p l) {k : Key} (hk : k.pid = p) {e : Ev}
    (he : e ∈ l) (hm : k.matches e = true) : k.pos e ≤ e.seq := by
  have h1 := h.pos_lt_of_seq_lt hk (e.seq + 1) he hm (Nat.lt_succ_self _)
  have h2 : ((l.take (e.seq + 1)).filter k.matches).length ≤ (l.take (e.seq + 1)).length :=
    List.length_filter_le _ _
  have h3 : (l.take (e.seq + 1)).length ≤ e.seq + 1 := List.length_take_le _ _
  omega

/-- every matching log event at or beyond position f is in a fresh iterator from f -/
theorem mem_snap {s : Sys} (b : InvB s) {k : Key} {f : Nat} {e : Ev} (he : e ∈ s.log k.pid)
    (hm : k.matches e = true) (hf : f ≤ k.pos e) : e ∈ snap s k f := by
  have h1 := (b.logwf k.pid).at_pos rfl he hm
  have h2 : ((mlist s k).drop f)[k.pos e - f]? = some e := by
    rw [List.getElem?_drop]
    have : f + (k.pos e - f) = k.pos e := by omega
    rw [this]; exact h1
  exact List.mem_of_getElem? h2

theorem inv_dropIter {s : Sys} (b : InvB s) (hs : Safe0All s) (k : Key)
    (hdrop : ∀ e ∈ s.iter k, s.startWm k.pid ≤ e.seq ∧ nxt s k.pid ≤ e.seq) :
    InvB (dropIter s k) ∧ Safe0All (dropIter s k) := by
  refine ⟨?_, ?_⟩
  · constructor
    case opened_sub => intro k' hk'; exact b.opened_sub k' (List.mem_of_mem_erase hk')
    case opened_nodup => exact b.opened_nodup.erase k
    case iter_closed =>
      intro k' hk'
      show upd s.iter k [] k' = []
      unfold upd; split
      · rfl
      · rename_i hne
        apply b.iter_closed
        intro hmem
        exact hk' ((List.mem_erase_of_ne hne).mpr hmem)
    case iter_ok =>
      intro k'
      show upd s.iter k [] k' <+: _
      unfold upd; split
      · exact List.nil_prefix
      · exact b.iter_ok k'
    all_goals frameB b
  · intro k' hk' hl ht e he hm hn
    have := hs k' hk' hl ht e he hm hn
    show e ∈ upd s.iter k [] k' ∨ _
    unfold upd
    by_cases hkk : k' = k
    · subst hkk
      simp only [if_true]
      rcases this with h1 | h1 | h1
      · right; right
        have := hdrop e h1
        exact ⟨this.1, Or.inr this.2⟩
      · right; left; exact h1
      · right; right; exact h1
    · simp only [hkk, if_false]; exact this

theorem inv_openK {s : Sys} (b : InvB s) (hs : Safe0All s) (hop : s.opened = []) {k : Key} {f : Nat}
    (hk : k ∈ s.todo) (hf : s.frm k = some f) :
    InvB (openK s k f) ∧ Safe0All (openK s k f) := by
  have hneed : need s k = f := by unfold need; rw [hf]; rfl
  refine ⟨?_, ?_⟩
  · constructor
    case todo_sub => intro k' hk'; exact b.todo_sub k' (List.mem_of_mem_erase hk')
    case todo_nodup => exact b.todo_nodup.erase k
    case opened_sub => intro k' hk'; simp [openK] at hk'; subst hk'; exact (b.todo_sub k' hk).1
    case opened_nodup => simp [openK]
    case iter_closed =>
      intro k' hk'
      have hne : k' ≠ k := by intro h; subst h; simp [openK] at hk'
      show upd s.iter k (snap s k f) k' = []
      rw [upd_other _ _ _ _ hne]
      apply b.iter_closed; rw [hop]; simp
    case iter_ok =>
      intro k'
      show upd s.iter k (snap s k f) k' <+: (mlist s k').drop (need s k')
      unfold upd; split
      · rename_i h; subst h; rw [hneed]; exact List.prefix_refl _
      · exact b.iter_ok k'
    all_goals frameB b
  · intro k' hk' hl ht e he hm hn
    show e ∈ upd s.iter k (snap s k f) k' ∨ _
    by_cases hkk : k' = k
    · subst hkk
      left; rw [upd_same]
      have hn' : need s k' ≤ k'.pos e := hn
      rw [hneed] at hn'
      exact mem_snap b he hm hn'
    · rw [upd_other _ _ _ _ hkk]
      have ht' : k' ∉ s.todo := fun hmem => ht ((List.mem_erase_of_ne hkk).mpr hmem)
      exact hs k' hk' hl ht' e he hm hn

theorem inv_openAll {s : Sys} (b : InvB s) (hop : s.opened = []) (ks : List Key)
    (hks : ∀ k ∈ ks, k ∈ s.keys ∧ (s.frm k).isSome = true) (hnd : ks.Nodup)
    (hpre : ∀ k ∈ s.keys, s.lost k = false → k ∉ ks → SafeKey0 s k) :
    InvB (openAll { s with todo := [] } ks) ∧ Safe0All (openAll { s with todo := [] } ks) := by
  have hiter : ∀ k, (openAll { s with todo := [] } ks).iter k =
      if k ∈ ks then snap s k ((s.frm k).getD 0) else s.iter k := fun k => rfl
  have hneed : ∀ k ∈ ks, (s.frm k).getD 0 = need s k := by
    intro k hk
    have := (hks k hk).2
    unfold need
    cases hf : s.frm k with
    | none => simp [hf] at this
    | some f => rfl
  refine ⟨?_, ?_⟩
  · constructor
    case todo_sub => intro k hk; cases hk
    case todo_nodup => exact List.Pairwise.nil
    case opened_sub => intro k hk; exact (hks k hk).1
    case opened_nodup => exact hnd
    case iter_closed =>
      intro k hk
      rw [hiter]
      have hk' : k ∉ ks := hk
      simp only [hk', if_false]
      apply b.iter_closed; rw [hop]; simp
    case iter_ok =>
      intro k
      rw [hiter]
      show _ <+: (mlist s k).drop (need s k)
      split
      · rename_i hk; rw [hneed k hk]; exact List.prefix_refl _
      · exact b.iter_ok k
    all_goals frameB b
  · intro k hk hl _ e he hm hn
    show e ∈ (openAll { s with todo := [] } ks).iter k ∨ _
    rw [hiter]
    by_cases hmem : k ∈ ks
    · left; simp only [hmem, if_true]
      rw [hneed k hmem]
      have hn' : need s k ≤ k.pos e := hn
      exact mem_snap b he hm hn'
    · simp only [hmem, if_false]
      exact hpre k hk hl hmem e he hm hn

theorem invB_settodo {s : Sys} (b : InvB s) (hop : s.opened = []) (T : List Key)
    (hT : ∀ k ∈ T, k ∈ s.keys ∧ (s.frm k).isSome = true) (hnd : T.Nodup) :
    InvB { s with todo := T, opened := [] } := by
  constructor
  case todo_sub => exact hT
  case todo_nodup => exact hnd
  case opened_sub => intro k hk; cases hk
  case opened_nodup => exact List.Pairwise.nil
  case iter_closed => intro k _; apply b.iter_closed; rw [hop]; simp
  all_goals frameB b

end SierraModel.Subscription
