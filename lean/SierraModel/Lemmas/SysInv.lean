/-
Helper lemmas for C18: invariants of the shared-segment state machine (`Sys`).
-/
import SierraModel.Seglog.Sys
import SierraModel.Lemmas.Record

namespace SierraModel.Seglog

/-! ### byte-list surgery -/

theorem slice_length (b : Bytes) (off n : Nat) : (slice b off n).length = min n (b.length - off) := by
  simp [slice]

theorem slice_slice_len (b : Bytes) (off n : Nat) :
    slice b off (slice b off n).length = slice b off n := by
  simp only [slice, List.length_take, List.length_drop]
  rw [List.take_eq_take_iff]; simp

theorem slice_sub (b : Bytes) (a n off len : Nat) (h1 : a ≤ off) (h2 : off + len ≤ a + n) :
    slice (slice b a n) (off - a) len = slice b off len := by
  simp only [slice]
  rw [List.drop_take, List.drop_drop, List.take_take]
  have : a + (off - a) = off := by omega
  rw [this, Nat.min_eq_left (by omega)]

theorem slice_take (b : Bytes) (limit off n : Nat) (h : off + n ≤ limit) :
    slice (b.take limit) off n = slice b off n := by
  simp only [slice]
  rw [List.drop_take, List.take_take, Nat.min_eq_left (by omega)]

theorem pwrite_length (f : Bytes) (off : Nat) (d : Bytes) :
    (pwrite f off d).length = max f.length (off + d.length) := by
  unfold pwrite
  split <;> simp <;> omega

/-- writing at `off ≤ |f|` leaves everything below `k ≤ off` alone -/
theorem pwrite_take_below (f : Bytes) (off : Nat) (d : Bytes) (k : Nat) (hk : k ≤ off) (ho : off ≤ f.length) :
    (pwrite f off d).take k = f.take k := by
  unfold pwrite
  rw [if_neg (by omega)]
  rw [List.append_assoc, List.take_append_of_le_length (by simp; omega), List.take_take,
    Nat.min_eq_left hk]

theorem pwrite_take_end (f : Bytes) (off : Nat) (d : Bytes) (ho : off ≤ f.length) :
    (pwrite f off d).take (off + d.length) = f.take off ++ d := by
  unfold pwrite
  rw [if_neg (by omega)]
  have : (f.take off ++ d).length = off + d.length := by simp; omega
  rw [← this, List.take_left']
  rfl

/-! ### the writer's BufWriter -/

/-- (A) writer bookkeeping invariant -/
def WInv (w : Writer) : Prop :=
  w.cursor + w.buf.length = w.writeOffset ∧ w.flushed ≤ w.cursor ∧ w.cursor ≤ w.file.length

/-- the file as the writer sees it: OS-visible bytes below the cursor, then the pending bytes -/
def Writer.logical (w : Writer) : Bytes := w.file.take w.cursor ++ w.buf

/-- what pushing `d` through the BufWriter does (`w.cursor ≤ |w.file|` assumed) -/
structure BufStep (w w' : Writer) (d : Bytes) : Prop where
  hH : w'.H = w.H
  hsize : w'.size = w.size
  hwo : w'.writeOffset = w.writeOffset
  hfl : w'.flushed = w.flushed
  hep : w'.epoch = w.epoch
  hcur : w'.cursor + w'.buf.length = w.cursor + w.buf.length + d.length
  hmono : w.cursor ≤ w'.cursor
  hlen : w'.cursor ≤ w'.file.length
  hbelow : ∀ k ≤ w.cursor, w'.file.take k = w.file.take k
  hlog : w'.logical = w.logical ++ d

theorem BufStep.trans {w w1 w2 : Writer} {d1 d2 : Bytes} (a : BufStep w w1 d1) (b : BufStep w1 w2 d2) :
    BufStep w w2 (d1 ++ d2) where
  hH := b.hH.trans a.hH
  hsize := b.hsize.trans a.hsize
  hwo := b.hwo.trans a.hwo
  hfl := b.hfl.trans a.hfl
  hep := b.hep.trans a.hep
  hcur := by rw [b.hcur, a.hcur, List.length_append]; omega
  hmono := Nat.le_trans a.hmono b.hmono
  hlen := b.hlen
  hbelow := fun k hk => (b.hbelow k (Nat.le_trans hk a.hmono)).trans (a.hbelow k hk)
  hlog := by rw [b.hlog, a.hlog, List.append_assoc]

theorem BufStep.refl (w : Writer) (h : w.cursor ≤ w.file.length) : BufStep w w [] :=
  ⟨rfl, rfl, rfl, rfl, rfl, by simp, Nat.le_refl _, h, fun _ _ => rfl, by simp⟩

theorem bufStep_buffer (w : Writer) (d : Bytes) (h : w.cursor ≤ w.file.length) :
    BufStep w { w with buf := w.buf ++ d } d :=
  ⟨rfl, rfl, rfl, rfl, rfl, by simp; omega, Nat.le_refl _, h, fun _ _ => rfl,
    by simp [Writer.logical]⟩

theorem bufStep_through (w : Writer) (d : Bytes) (h : w.cursor ≤ w.file.length) (hb : w.buf = []) :
    BufStep w { w with file := pwrite w.file w.cursor d, cursor := w.cursor + d.length } d :=
  ⟨rfl, rfl, rfl, rfl, rfl, by simp [hb], Nat.le_add_right _ _,
    by simp only [pwrite_length]; omega,
    fun k hk => pwrite_take_below _ _ _ _ hk h,
    by simp only [Writer.logical, hb, List.append_nil]; exact pwrite_take_end _ _ _ h⟩

theorem bufStep_flush (w : Writer) (h : w.cursor ≤ w.file.length) : BufStep w w.flushBuf [] :=
  ⟨rfl, rfl, rfl, rfl, rfl, by simp [Writer.flushBuf], Nat.le_add_right _ _,
    by simp only [Writer.flushBuf, pwrite_length]; omega,
    fun k hk => pwrite_take_below _ _ _ _ hk h,
    by simp only [Writer.logical, Writer.flushBuf, List.append_nil]; exact pwrite_take_end _ _ _ h⟩

theorem flushBuf_buf (w : Writer) : w.flushBuf.buf = [] := rfl

theorem bufStep_write (w : Writer) (d : Bytes) (h : w.cursor ≤ w.file.length) :
    BufStep w (w.bufWrite d) d := by
  unfold Writer.bufWrite
  simp only []
  split
  · exact bufStep_buffer w d h
  · rename_i hsp
    have h1 : BufStep w (if d.length > WRITE_BUF_SIZE - w.buf.length then w.flushBuf else w) [] := by
      split
      · exact bufStep_flush w h
      · exact BufStep.refl w h
    split
    · rename_i hge
      have hb : (if d.length > WRITE_BUF_SIZE - w.buf.length then w.flushBuf else w).buf = [] := by
        split
        · rfl
        · apply List.eq_nil_of_length_eq_zero; unfold WRITE_BUF_SIZE at *; omega
      exact h1.trans (bufStep_through _ d h1.hlen hb)
    · exact h1.trans (bufStep_buffer _ d h1.hlen)

/-! ### `append` -/

def compressOf (w : Writer) (data : Bytes) : Bool := w.compression && decide (data.length ≥ MIN_COMPRESSION_SIZE)
def storedOf (w : Writer) (data z : Bytes) : Bytes := if compressOf w data then z else data
def totalOf (w : Writer) (data z : Bytes) : Nat := RECORD_HEAD_SIZE + w.H + (storedOf w data z).length

/-- the bytes `append` pushes through the BufWriter -/
def appendBytes (w : Writer) (hdr data z : Bytes) : Bytes :=
  let lenBytes := le32 ((w.H + (storedOf w data z).length) + (if compressOf w data then COMPRESSION_FLAG else 0))
  lenBytes ++ le32 (crc32 (lenBytes ++ hdr ++ storedOf w data z)).toNat ++ hdr ++ storedOf w data z

theorem appendBytes_length (w : Writer) (hdr data z : Bytes) :
    (appendBytes w hdr data z).length = RECORD_HEAD_SIZE + hdr.length + (storedOf w data z).length := by
  simp [appendBytes, le32_length, RECORD_HEAD_SIZE]; omega

theorem appendBytes_eq (w : Writer) (hdr data z : Bytes) (hh : hdr.length = w.H) :
    appendBytes w hdr data z = encodeRec hdr (storedOf w data z) (compressOf w data) := by
  simp [appendBytes, encodeRec, hh]

def lenBytesOf (w : Writer) (data z : Bytes) : Bytes :=
  le32 ((w.H + (storedOf w data z).length) + (if compressOf w data then COMPRESSION_FLAG else 0))

def crcBytesOf (w : Writer) (hdr data z : Bytes) : Bytes :=
  le32 (crc32 (lenBytesOf w data z ++ hdr ++ storedOf w data z)).toNat

theorem append_eq (w : Writer) (hdr data z : Bytes) :
    w.append hdr data z =
      if w.writeOffset + totalOf w data z > w.size then (w, .full)
      else ({ (((({ w with dirty := true } : Writer).bufWrite (lenBytesOf w data z)).bufWrite
                (crcBytesOf w hdr data z)).bufWrite hdr).bufWrite (storedOf w data z) with
              writeOffset := w.writeOffset + totalOf w data z }, .ok w.writeOffset (totalOf w data z)) := rfl

theorem append_cases (w : Writer) (hdr data z : Bytes) (h : w.cursor ≤ w.file.length) :
    w.append hdr data z = (w, .full) ∨
    ∃ w2, BufStep w w2 (appendBytes w hdr data z) ∧
      w.append hdr data z = ({ w2 with writeOffset := w.writeOffset + totalOf w data z },
        .ok w.writeOffset (totalOf w data z)) := by
  rw [append_eq]
  by_cases hf : w.writeOffset + totalOf w data z > w.size
  · rw [if_pos hf]; exact Or.inl rfl
  · rw [if_neg hf]
    right
    refine ⟨_, ?_, rfl⟩
    have h0 : BufStep w { w with dirty := true } [] :=
      ⟨rfl, rfl, rfl, rfl, rfl, by simp, Nat.le_refl _, h, fun _ _ => rfl, by simp [Writer.logical]⟩
    have h1 := bufStep_write { w with dirty := true } (lenBytesOf w data z) h0.hlen
    have h2 := bufStep_write _ (crcBytesOf w hdr data z) h1.hlen
    have h3 := bufStep_write _ hdr h2.hlen
    have h4 := bufStep_write _ (storedOf w data z) h3.hlen
    have := (((h0.trans h1).trans h2).trans h3).trans h4
    simpa [appendBytes, crcBytesOf, lenBytesOf] using this

/-! ### runs -/

/-- minimal op validity: an appended header has the segment's fixed header size (`[u8; H]` in Rust) -/
def HdrOk (s : Sys) : Op → Prop
  | .append hdr _ _ => hdr.length = s.w.H
  | _ => True

/-- every op satisfies `P` in the state it is applied to -/
def RunP (P : Sys → Op → Prop) : Sys → List Op → Prop
  | _, [] => True
  | s, op :: ops => P s op ∧ RunP P (s.step op).1 ops

theorem RunP.mono {P Q : Sys → Op → Prop} (h : ∀ s op, P s op → Q s op) :
    ∀ (ops : List Op) (s : Sys), RunP P s ops → RunP Q s ops
  | [], _, _ => trivial
  | _ :: ops, _, ⟨a, b⟩ => ⟨h _ _ a, RunP.mono h ops _ b⟩

theorem run_cons (s : Sys) (op : Op) (ops : List Op) : s.run (op :: ops) = (s.step op).1.run ops := rfl

theorem run_inv {P : Sys → Op → Prop} {I : Sys → Prop}
    (hstep : ∀ s op, I s → P s op → I (s.step op).1) :
    ∀ (ops : List Op) (s : Sys), I s → RunP P s ops → I (s.run ops)
  | [], _, h, _ => h
  | op :: ops, s, h, ⟨a, b⟩ => by
    rw [run_cons]; exact run_inv hstep ops _ (hstep s op h a) b

/-! ### step equations -/

theorem step_append (s : Sys) (hdr data z : Bytes) :
    (s.step (.append hdr data z)).1 =
      { s with w := (s.w.append hdr data z).1,
               recs := match (s.w.append hdr data z).2 with
                 | .ok off _ => s.recs ++ [{ off := off, hdr := hdr, stored := storedOf s.w data z, compressed := compressOf s.w data }]
                 | .full => s.recs } := by
  simp only [Sys.step]
  rcases s.w.append hdr data z with ⟨w', r⟩
  cases r <;> rfl

theorem step_readSeq_w (s : Sys) (ri off : Nat) : (s.step (.readSeq ri off)).1.w = s.w := by
  simp only [Sys.step]
  split <;> rfl

theorem replaceHeader_ok {H : Nat} {file : Bytes} {fl off : Nat} {hdr file' : Bytes}
    (h : replaceHeader H file fl off hdr = .ok file') :
    ∃ rec, parseAt H file fl off = .ok rec ∧
      file' = pwrite file (off + 4)
        (le32 (crc32 (le32 ((rec.len - RECORD_HEAD_SIZE) + (if rec.compressed then COMPRESSION_FLAG else 0)) ++ hdr ++ rec.stored)).toNat ++ hdr) := by
  unfold replaceHeader at h
  split at h
  · cases h
  · rename_i rec hp
    refine ⟨rec, hp, ?_⟩
    simp only [Except.ok.injEq] at h
    exact h.symm

/-! ### (A), (B): what one step does to the writer -/

structure WRel (w w' : Writer) : Prop where
  inv : WInv w'
  hH : w'.H = w.H
  epoch_le : w.epoch ≤ w'.epoch
  stable : w'.epoch = w.epoch → w.flushed ≤ w'.flushed ∧ w'.file.take w.flushed = w.file.take w.flushed

theorem WRel.refl {w : Writer} (h : WInv w) : WRel w w := ⟨h, rfl, Nat.le_refl _, fun _ => ⟨Nat.le_refl _, rfl⟩⟩

theorem wrel_append (w : Writer) (hdr data z : Bytes) (hi : WInv w) (hh : hdr.length = w.H) :
    WRel w (w.append hdr data z).1 := by
  obtain ⟨h1, h2, h3⟩ := hi
  rcases append_cases w hdr data z h3 with h | ⟨w2, b, h⟩
  · rw [h]; exact WRel.refl ⟨h1, h2, h3⟩
  · rw [h]
    have hl := appendBytes_length w hdr data z
    refine ⟨⟨?_, ?_, b.hlen⟩, b.hH, Nat.le_of_eq b.hep.symm, fun _ => ⟨Nat.le_of_eq b.hfl.symm, b.hbelow _ h2⟩⟩
    · show w2.cursor + w2.buf.length = w.writeOffset + totalOf w data z
      rw [b.hcur, hl, h1, hh]; unfold totalOf; omega
    · show w2.flushed ≤ w2.cursor
      rw [b.hfl]; exact Nat.le_trans h2 b.hmono

theorem wrel_flush (w : Writer) (hi : WInv w) : WRel w w.flushBuf := by
  obtain ⟨h1, h2, h3⟩ := hi
  have b := bufStep_flush w h3
  refine ⟨⟨?_, ?_, b.hlen⟩, b.hH, Nat.le_of_eq b.hep.symm, fun _ => ⟨Nat.le_of_eq b.hfl.symm, b.hbelow _ h2⟩⟩
  · rw [b.hwo, b.hcur]; simpa using h1
  · rw [b.hfl]; exact Nat.le_trans h2 b.hmono

theorem wrel_sync (w : Writer) (hi : WInv w) : WRel w w.sync := by
  unfold Writer.sync
  split
  · have r := wrel_flush w hi
    obtain ⟨⟨r1, r2, r3⟩, rH, re, rs⟩ := r
    have hb : w.flushBuf.buf = [] := rfl
    rw [hb] at r1
    simp only [List.length_nil, Nat.add_zero] at r1
    refine ⟨⟨by simpa [hb] using r1, Nat.le_of_eq r1.symm, r3⟩, rH, re, fun he => ⟨?_, (rs he).2⟩⟩
    show w.flushed ≤ w.flushBuf.writeOffset
    rw [← r1]; exact Nat.le_trans (rs he).1 r2
  · exact WRel.refl hi

theorem wrel_setLen (w : Writer) (off : Nat) (hi : WInv w) : WRel w (w.setLen off) := by
  unfold Writer.setLen
  split
  · exact WRel.refl hi
  · refine ⟨⟨rfl, Nat.le_refl _, ?_⟩, rfl, ?_, ?_⟩
    · show off ≤ (pwrite _ off _).length
      rw [pwrite_length]; omega
    · show w.epoch ≤ w.flushBuf.epoch + 1
      exact Nat.le_succ _
    · intro he
      have : w.flushBuf.epoch + 1 = w.epoch := he
      have h2 : w.flushBuf.epoch = w.epoch := rfl
      omega

theorem step_wrel (s : Sys) (op : Op) (hi : WInv s.w) (ok : HdrOk s op) : WRel s.w (s.step op).1.w := by
  cases op with
  | append hdr data z => rw [step_append]; exact wrel_append s.w hdr data z hi ok
  | flush => exact wrel_flush s.w hi
  | sync => exact wrel_sync s.w hi
  | setLen off => exact wrel_setLen s.w off hi
  | compress b => exact ⟨hi, rfl, Nat.le_refl _, fun _ => ⟨Nat.le_refl _, rfl⟩⟩
  | readRandom off => exact WRel.refl hi
  | readSeq ri off => rw [step_readSeq_w]; exact WRel.refl hi
  | replace off hdr =>
    simp only [Sys.step]
    split
    · rename_i file' hr
      obtain ⟨rec, _, hf⟩ := replaceHeader_ok hr
      obtain ⟨h1, h2, h3⟩ := hi
      refine ⟨⟨h1, h2, ?_⟩, rfl, Nat.le_succ _, fun he => ?_⟩
      · show s.w.cursor ≤ file'.length
        rw [hf, pwrite_length]; omega
      · have : s.w.epoch + 1 = s.w.epoch := he
        omega
    · exact WRel.refl hi

/-! ### (E) `parseAt` never looks beyond its limit -/

theorem parseAt_ok_bound {H : Nat} {bytes : Bytes} {limit off : Nat} {r : Rec}
    (h : parseAt H bytes limit off = .ok r) : off + r.len ≤ limit := by
  unfold parseAt at h
  simp only [] at h
  split at h; · cases h
  split at h; · cases h
  split at h; · cases h
  split at h; · cases h
  split at h; · cases h
  split at h; · cases h
  cases h
  simp only []
  omega

/-! ### the read-ahead cache -/

def CacheOk (c : Cache) (file : Bytes) (flushed epoch : Nat) : Prop :=
  c.epoch = epoch → c.bytes = slice file c.off c.bytes.length ∧ c.off + c.bytes.length ≤ flushed

theorem cache_miss_aux (file : Bytes) (off len flushed epoch cOff required : Nat)
    (hco : cOff ≤ off) (hreq : off + len - cOff ≤ required)
    (hf : flushed ≤ file.length) (hb : off + len ≤ flushed) :
    (if (decide (off < cOff) || decide (off + len > cOff + (slice file cOff (min required (flushed - cOff))).length)) = true
      then (({ off := cOff, bytes := slice file cOff (min required (flushed - cOff)), epoch := epoch } : Cache), (none : Option Bytes))
      else ({ off := cOff, bytes := slice file cOff (min required (flushed - cOff)), epoch := epoch },
            some (slice (slice file cOff (min required (flushed - cOff))) (off - cOff) len)))
    = ({ off := cOff, bytes := slice file cOff (min required (flushed - cOff)), epoch := epoch }, some (slice file off len))
    ∧ CacheOk { off := cOff, bytes := slice file cOff (min required (flushed - cOff)), epoch := epoch } file flushed epoch := by
  have hlen : (slice file cOff (min required (flushed - cOff))).length = min required (flushed - cOff) := by
    rw [slice_length]; omega
  have hno : (decide (off < cOff) || decide (off + len > cOff + (slice file cOff (min required (flushed - cOff))).length)) = false := by
    rw [hlen]; simp; omega
  constructor
  · rw [if_neg (by rw [hno]; simp), slice_sub _ _ _ _ _ hco (by omega)]
  · intro _
    exact ⟨(slice_slice_len _ _ _).symm, by show cOff + (slice file cOff _).length ≤ flushed; rw [hlen]; omega⟩

theorem cache_read_spec (c : Cache) (file : Bytes) (off len flushed epoch : Nat)
    (hc : CacheOk c file flushed epoch) (hf : flushed ≤ file.length) (hb : off + len ≤ flushed) :
    (c.read file off len flushed epoch).2 = some (slice file off len) ∧
    CacheOk (c.read file off len flushed epoch).1 file flushed epoch ∧
    ((c.read file off len flushed epoch).1 = c ∨ (c.read file off len flushed epoch).1.epoch = epoch) := by
  unfold Cache.read
  split
  · rename_i hhit
    simp only [Bool.and_eq_true, beq_iff_eq, decide_eq_true_eq] at hhit
    obtain ⟨⟨he, h1⟩, h2⟩ := hhit
    obtain ⟨hb1, hb2⟩ := hc he
    refine ⟨?_, hc, Or.inl rfl⟩
    show some (slice c.bytes (off - c.off) len) = _
    rw [hb1, slice_sub _ _ _ _ _ h1 h2]
  · have hreq : off + len - (off - off % READ_AHEAD_SIZE) ≤ (max (off + len - (off - off % READ_AHEAD_SIZE)) READ_AHEAD_SIZE + PAGE_SIZE - 1) / PAGE_SIZE * PAGE_SIZE := by
      unfold PAGE_SIZE READ_AHEAD_SIZE; omega
    obtain ⟨a, b⟩ := cache_miss_aux file off len flushed epoch _ _ (Nat.sub_le off (off % READ_AHEAD_SIZE)) hreq hf hb
    simp only []
    rw [a]
    exact ⟨rfl, b, Or.inr rfl⟩

/-- (D) core: through a valid cache, `readSeq` takes exactly `parseAt`'s decisions -/
theorem readSeq_spec (r : Reader) (H : Nat) (file : Bytes) (flushed epoch off : Nat)
    (hc : CacheOk r.cache file flushed epoch) (hf : flushed ≤ file.length) :
    (r.readSeq H file flushed epoch off).2 = parseAt H file flushed off ∧
    CacheOk (r.readSeq H file flushed epoch off).1.cache file flushed epoch ∧
    ((r.readSeq H file flushed epoch off).1.cache = r.cache ∨
      (r.readSeq H file flushed epoch off).1.cache.epoch = epoch) := by
  unfold Reader.readSeq parseAt
  by_cases h8 : off + RECORD_HEAD_SIZE > flushed
  · rw [if_pos h8, if_pos h8]; exact ⟨rfl, hc, Or.inl rfl⟩
  · rw [if_neg h8, if_neg h8]
    obtain ⟨a1, a2, a3⟩ := cache_read_spec r.cache file off RECORD_HEAD_SIZE flushed epoch hc hf (by omega)
    rcases hr : r.cache.read file off RECORD_HEAD_SIZE flushed epoch with ⟨c1, o1⟩
    rw [hr] at a1 a2 a3
    simp only [] at a1 a2 a3
    subst a1
    simp only []
    by_cases hz : (slice file off RECORD_HEAD_SIZE).all (· == 0) = true
    · rw [if_pos hz, if_pos hz]; exact ⟨rfl, a2, a3⟩
    · rw [if_neg hz, if_neg hz]
      by_cases hp : off + RECORD_HEAD_SIZE + fromLe32 ((slice file off RECORD_HEAD_SIZE).take 4) % COMPRESSION_FLAG > flushed
      · rw [if_pos hp, if_pos hp]; exact ⟨rfl, a2, a3⟩
      · rw [if_neg hp, if_neg hp]
        by_cases hH : fromLe32 ((slice file off RECORD_HEAD_SIZE).take 4) % COMPRESSION_FLAG < H
        · rw [if_pos hH, if_pos hH]; exact ⟨rfl, a2, a3⟩
        · rw [if_neg hH, if_neg hH]
          obtain ⟨b1, b2, b3⟩ := cache_read_spec c1 file (off + RECORD_HEAD_SIZE)
            (fromLe32 ((slice file off RECORD_HEAD_SIZE).take 4) % COMPRESSION_FLAG) flushed epoch a2 hf (by omega)
          rcases hr2 : c1.read file (off + RECORD_HEAD_SIZE)
            (fromLe32 ((slice file off RECORD_HEAD_SIZE).take 4) % COMPRESSION_FLAG) flushed epoch with ⟨c2, o2⟩
          rw [hr2] at b1 b2 b3
          simp only [] at b1 b2 b3
          subst b1
          simp only []
          have b3' : c2 = r.cache ∨ c2.epoch = epoch := by
            rcases b3 with h | h
            · rw [h]; exact a3
            · exact Or.inr h
          split
          · exact ⟨rfl, b2, b3'⟩
          · split
            · exact ⟨rfl, b2, b3'⟩
            · exact ⟨rfl, b2, b3'⟩

/-! ### (C) cache invariant of the system -/

/-- every reader's cache is either from an older epoch (never hit) or an exact copy of published bytes -/
def CacheValid (s : Sys) : Prop :=
  ∀ r ∈ s.readers, r.cache.epoch ≤ s.w.epoch ∧
    (r.cache.epoch = s.w.epoch →
      (r.cache.bytes = slice s.w.file r.cache.off r.cache.bytes.length ∧
       r.cache.off + r.cache.bytes.length ≤ s.w.flushed))

theorem step_readers (s : Sys) (op : Op) (h : ∀ ri off, op ≠ .readSeq ri off) :
    (s.step op).1.readers = s.readers := by
  cases op with
  | append hdr data z => rw [step_append]
  | readSeq ri off => exact absurd rfl (h ri off)
  | replace off hdr => simp only [Sys.step]; split <;> rfl
  | _ => rfl

theorem cacheOk_of_wrel {w w' : Writer} (h : WRel w w') (c : Cache) (hle : c.epoch ≤ w.epoch)
    (hc : CacheOk c w.file w.flushed w.epoch) : CacheOk c w'.file w'.flushed w'.epoch := by
  intro he
  have hee : w'.epoch = w.epoch := Nat.le_antisymm (by omega) h.epoch_le
  obtain ⟨h1, h2⟩ := hc (he.trans hee)
  obtain ⟨s1, s2⟩ := h.stable hee
  refine ⟨?_, Nat.le_trans h2 s1⟩
  rw [← slice_take w'.file w.flushed _ _ h2, s2, slice_take _ _ _ _ h2]
  exact h1

theorem step_cache_valid (s : Sys) (op : Op) (hi : WInv s.w) (hc : CacheValid s) (ok : HdrOk s op) :
    CacheValid (s.step op).1 := by
  have hw := step_wrel s op hi ok
  by_cases hrs : ∃ ri off, op = .readSeq ri off
  · obtain ⟨ri, off, rfl⟩ := hrs
    simp only [Sys.step]
    split
    · rename_i r0 hr0
      have hm : r0 ∈ s.readers := List.mem_of_getElem? hr0
      obtain ⟨e0, c0⟩ := hc r0 hm
      obtain ⟨_, a2, a3⟩ := readSeq_spec r0 s.w.H s.w.file s.w.flushed s.w.epoch off c0
        (Nat.le_trans hi.2.1 hi.2.2)
      intro r hr
      rcases List.mem_or_eq_of_mem_set hr with h | h
      · exact hc r h
      · subst h
        refine ⟨?_, a2⟩
        rcases a3 with h | h
        · rw [h]; exact e0
        · exact Nat.le_of_eq h
    · exact hc
  · have hr := step_readers s op (fun ri off h => hrs ⟨ri, off, h⟩)
    intro r hm
    rw [hr] at hm
    obtain ⟨e0, c0⟩ := hc r hm
    exact ⟨Nat.le_trans e0 hw.epoch_le, cacheOk_of_wrel hw r.cache e0 c0⟩
end SierraModel.Seglog

namespace SierraModel.Seglog

/-- `WInv ∧ CacheValid` is inductive -/
def Inv (s : Sys) : Prop := WInv s.w ∧ CacheValid s

theorem inv_create (H size start : Nat) (h : start ≤ size) : Inv (Sys.create H size start) := by
  refine ⟨⟨rfl, Nat.le_refl _, by simpa [Sys.create, Writer.create] using h⟩, ?_⟩
  intro r hr
  simp only [Sys.create, List.mem_cons, List.not_mem_nil, or_false, or_self] at hr
  subst hr
  exact ⟨Nat.le_refl _, fun _ => ⟨by simp [slice], Nat.zero_le _⟩⟩

theorem inv_step (s : Sys) (op : Op) (hi : Inv s) (ok : HdrOk s op) : Inv (s.step op).1 :=
  ⟨(step_wrel s op hi.1 ok).inv, step_cache_valid s op hi.1 hi.2 ok⟩

theorem inv_run (ops : List Op) (s : Sys) (hi : Inv s) (ok : RunP HdrOk s ops) : Inv (s.run ops) :=
  run_inv inv_step ops s hi ok

end SierraModel.Seglog

namespace SierraModel.Seglog

instance HdrOk.dec (s : Sys) : (op : Op) → Decidable (HdrOk s op)
  | .append hdr _ _ => inferInstanceAs (Decidable (hdr.length = s.w.H))
  | .flush => inferInstanceAs (Decidable True)
  | .sync => inferInstanceAs (Decidable True)
  | .setLen _ => inferInstanceAs (Decidable True)
  | .compress _ => inferInstanceAs (Decidable True)
  | .readRandom _ => inferInstanceAs (Decidable True)
  | .readSeq _ _ => inferInstanceAs (Decidable True)
  | .replace _ _ => inferInstanceAs (Decidable True)

instance RunP.dec (P : Sys → Op → Prop) [inst : ∀ s op, Decidable (P s op)] :
    (s : Sys) → (ops : List Op) → Decidable (RunP P s ops)
  | _, [] => inferInstanceAs (Decidable True)
  | s, op :: ops => @instDecidableAnd _ _ (inst s op) (RunP.dec P (s.step op).1 ops)

deriving instance DecidableEq for Except

instance WInv.dec (w : Writer) : Decidable (WInv w) := by unfold WInv; exact inferInstance

end SierraModel.Seglog

namespace SierraModel.Seglog

/-! ### ghost records and their encodings -/

def Ghost.toRecIn (g : Ghost) : RecIn := (g.hdr, g.stored, g.compressed)
def Ghost.enc (g : Ghost) : Bytes := encodeRec g.hdr g.stored g.compressed
def genc (gs : List Ghost) : Bytes := encodeAll (gs.map Ghost.toRecIn)

theorem genc_nil : genc [] = [] := rfl
theorem genc_cons (g : Ghost) (gs : List Ghost) : genc (g :: gs) = g.enc ++ genc gs := by
  simp [genc, encodeAll, Ghost.enc, Ghost.toRecIn]
theorem genc_append (a b : List Ghost) : genc (a ++ b) = genc a ++ genc b := by
  simp [genc, encodeAll]
theorem genc_single (g : Ghost) : genc [g] = g.enc := by rw [genc_cons, genc_nil, List.append_nil]

/-- each ghost record sits at its `off`: offsets are the running sum of the encoded lengths -/
def Offs : Nat → List Ghost → Prop
  | _, [] => True
  | o, g :: gs => g.off = o ∧ Offs (o + g.enc.length) gs

theorem Offs_append (a b : List Ghost) : ∀ o, Offs o (a ++ b) ↔ Offs o a ∧ Offs (o + (genc a).length) b := by
  induction a with
  | nil => intro o; simp [Offs, genc_nil]
  | cons g a ih =>
    intro o
    simp only [List.cons_append, Offs, ih, genc_cons, List.length_append, Nat.add_assoc, and_assoc]

theorem Ghost.enc_length (g : Ghost) : g.enc.length = RECORD_HEAD_SIZE + g.hdr.length + g.stored.length :=
  encodeRec_length _ _ _

theorem Ghost.enc_length_wf {H : Nat} {g : Ghost} (wf : WF H g.hdr g.stored g.compressed) :
    g.enc.length = g.len H := by
  rw [Ghost.enc_length, wf.hlen]; unfold Ghost.len; omega

theorem Offs_mem_ge : ∀ (gs : List Ghost) (o : Nat), Offs o gs → ∀ x ∈ gs, o ≤ x.off ∧ x.off + x.enc.length ≤ o + (genc gs).length := by
  intro gs
  induction gs with
  | nil => intro o _ x hx; cases hx
  | cons g gs ih =>
    intro o ⟨h1, h2⟩ x hx
    rw [genc_cons, List.length_append]
    rcases List.mem_cons.1 hx with rfl | hx
    · omega
    · have := ih _ h2 x hx; omega

/-! ### `parseAt` / `iterFrom` only look below the limit -/

theorem parseAt_congr (H : Nat) (b b' : Bytes) (limit off : Nat) (h : b.take limit = b'.take limit) :
    parseAt H b limit off = parseAt H b' limit off := by
  unfold parseAt
  by_cases h8 : off + RECORD_HEAD_SIZE > limit
  · rw [if_pos h8, if_pos h8]
  · rw [if_neg h8, if_neg h8]
    have hs : slice b off RECORD_HEAD_SIZE = slice b' off RECORD_HEAD_SIZE := by
      rw [← slice_take b limit _ _ (by omega), h, slice_take _ _ _ _ (by omega)]
    rw [hs]
    simp only []
    split
    · rfl
    · by_cases hp : off + RECORD_HEAD_SIZE + fromLe32 ((slice b' off RECORD_HEAD_SIZE).take 4) % COMPRESSION_FLAG > limit
      · rw [if_pos hp, if_pos hp]
      · rw [if_neg hp, if_neg hp]
        have hs2 : slice b (off + RECORD_HEAD_SIZE) (fromLe32 ((slice b' off RECORD_HEAD_SIZE).take 4) % COMPRESSION_FLAG)
            = slice b' (off + RECORD_HEAD_SIZE) (fromLe32 ((slice b' off RECORD_HEAD_SIZE).take 4) % COMPRESSION_FLAG) := by
          rw [← slice_take b limit _ _ (by omega), h, slice_take _ _ _ _ (by omega)]
        rw [hs2]

theorem iterFrom_congr (H : Nat) (b b' : Bytes) (limit : Nat) (h : b.take limit = b'.take limit) :
    ∀ fuel off, iterFrom H b limit fuel off = iterFrom H b' limit fuel off := by
  intro fuel
  induction fuel with
  | zero => intro off; rfl
  | succ n ih =>
    intro off
    unfold iterFrom
    rw [parseAt_congr H b b' limit off h]
    split
    · rw [ih]
    all_goals rfl

end SierraModel.Seglog

namespace SierraModel.Seglog

/-! ### (F) ghost invariant -/

/-- the bytes the writer has accepted from `start` on (OS-visible part below the cursor, then the
BufWriter's pending bytes) are exactly the encodings of the ghost records in order, each ghost
record sits at its offset and is well-formed, and the flushed offset is a record boundary -/
structure GI (w : Writer) (start : Nat) (recs : List Ghost) : Prop where
  bytes : ∃ P : Bytes, P.length = start ∧ w.logical = P ++ genc recs
  offs : Offs start recs
  wf : ∀ g ∈ recs, WF w.H g.hdr g.stored g.compressed
  fl : ∃ ra rb, recs = ra ++ rb ∧ w.flushed = start + (genc ra).length

def GInv (s : Sys) : Prop := GI s.w s.start s.recs

theorem logical_length (w : Writer) (h : w.cursor ≤ w.file.length) :
    w.logical.length = w.cursor + w.buf.length := by
  simp [Writer.logical, Nat.min_eq_left h]

theorem GI.writeOffset_eq {w : Writer} {start : Nat} {recs : List Ghost} (hw : WInv w) (hg : GI w start recs) :
    w.writeOffset = start + (genc recs).length := by
  obtain ⟨P, hP, hl⟩ := hg.bytes
  have := logical_length w hw.2.2
  rw [hl, List.length_append, hP] at this
  rw [← hw.1]; omega

theorem file_take_flushed {w : Writer} (hw : WInv w) : w.file.take w.flushed = w.logical.take w.flushed := by
  obtain ⟨_, h2, h3⟩ := hw
  unfold Writer.logical
  rw [List.take_append_of_le_length (by simp; omega), List.take_take, Nat.min_eq_left h2]

theorem parseAt_logical {w : Writer} (hw : WInv w) (off : Nat) :
    parseAt w.H w.file w.flushed off = parseAt w.H w.logical w.flushed off :=
  parseAt_congr _ _ _ _ _ (file_take_flushed hw)

theorem mem_split_off {start : Nat} {recs : List Ghost} (ho : Offs start recs) {g : Ghost} (hg : g ∈ recs) :
    ∃ ra rb, recs = ra ++ g :: rb ∧ g.off = start + (genc ra).length := by
  obtain ⟨ra, rb, h⟩ := List.append_of_mem hg
  refine ⟨ra, rb, h, ?_⟩
  rw [h, Offs_append] at ho
  exact ho.2.1

/-- (F) core: a flushed ghost record parses back as itself -/
theorem ghost_parse {w : Writer} {start : Nat} {recs : List Ghost} (hw : WInv w) (hg : GI w start recs)
    {g : Ghost} (hm : g ∈ recs) (hfl : g.off + g.len w.H ≤ w.flushed) :
    parseAt w.H w.file w.flushed g.off =
      .ok { hdr := g.hdr, stored := g.stored, compressed := g.compressed, len := g.len w.H } := by
  obtain ⟨P, hP, hl⟩ := hg.bytes
  obtain ⟨ra, rb, hs, ho⟩ := mem_split_off hg.offs hm
  have wf := hg.wf g hm
  rw [parseAt_logical hw, hl, hs, genc_append, genc_cons]
  have h1 : P ++ (genc ra ++ (g.enc ++ genc rb)) = (P ++ genc ra) ++ encodeRec g.hdr g.stored g.compressed ++ genc rb := by
    simp [Ghost.enc, List.append_assoc]
  have h2 : g.off = (P ++ genc ra).length := by rw [List.length_append, hP]; exact ho
  rw [h1, h2]
  apply parseAt_encode _ _ _ _ _ _ wf
  rw [← h2]
  have := Ghost.enc_length_wf wf
  unfold Ghost.enc at this
  omega

end SierraModel.Seglog

namespace SierraModel.Seglog

theorem GI.transfer {w w' : Writer} {start : Nat} {recs : List Ghost} (hg : GI w start recs)
    (hl : w'.logical = w.logical) (hH : w'.H = w.H) (hf : w'.flushed = w.flushed) : GI w' start recs :=
  ⟨by rw [hl]; exact hg.bytes, hg.offs, by rw [hH]; exact hg.wf, by rw [hf]; exact hg.fl⟩

theorem gi_flush {w : Writer} {start : Nat} {recs : List Ghost} (hw : WInv w) (hg : GI w start recs) :
    GI w.flushBuf start recs := by
  have b := bufStep_flush w hw.2.2
  exact hg.transfer (by simpa using b.hlog) b.hH b.hfl

theorem gi_sync {w : Writer} {start : Nat} {recs : List Ghost} (hw : WInv w) (hg : GI w start recs) :
    GI w.sync start recs := by
  unfold Writer.sync
  split
  · have g1 := gi_flush hw hg
    have w1 := (wrel_flush w hw).inv
    refine ⟨g1.bytes, g1.offs, g1.wf, recs, [], (List.append_nil _).symm, ?_⟩
    exact g1.writeOffset_eq w1
  · exact hg

theorem wf_append {w : Writer} {hdr data z : Bytes} (hh : hdr.length = w.H)
    (hs : w.H + max data.length z.length < 2 ^ 31) (hz : 4 ≤ z.length) :
    WF w.H hdr (storedOf w data z) (compressOf w data) := by
  refine ⟨hh, ?_, ?_⟩
  · unfold storedOf; split <;> omega
  · intro hc; unfold storedOf; rw [if_pos hc]; exact hz

theorem gi_append {w : Writer} {start : Nat} {recs : List Ghost} (hdr data z : Bytes) (hw : WInv w)
    (hg : GI w start recs) (hh : hdr.length = w.H)
    (hs : w.H + max data.length z.length < 2 ^ 31) (hz : 4 ≤ z.length) :
    GI (w.append hdr data z).1 start
      (match (w.append hdr data z).2 with
        | .ok off _ => recs ++ [{ off := off, hdr := hdr, stored := storedOf w data z, compressed := compressOf w data }]
        | .full => recs) := by
  rcases append_cases w hdr data z hw.2.2 with h | ⟨w2, b, h⟩
  · rw [h]; exact hg
  · rw [h]
    simp only []
    obtain ⟨P, hP, hl⟩ := hg.bytes
    obtain ⟨ra, rb, hr, hf⟩ := hg.fl
    have hwo := hg.writeOffset_eq hw
    refine ⟨⟨P, hP, ?_⟩, ?_, ?_, ra, rb ++ [_], by rw [hr, List.append_assoc], ?_⟩
    · show w2.logical = _
      rw [b.hlog, hl, genc_append, genc_single, appendBytes_eq w hdr data z hh, List.append_assoc]
      rfl
    · rw [Offs_append]
      exact ⟨hg.offs, hwo, trivial⟩
    · intro g hm
      show WF w2.H _ _ _
      rw [b.hH]
      rcases List.mem_append.1 hm with hm | hm
      · exact hg.wf g hm
      · rw [List.mem_singleton.1 hm]; exact wf_append hh hs hz
    · show w2.flushed = _
      rw [b.hfl]; exact hf

end SierraModel.Seglog

namespace SierraModel.Seglog

theorem filter_boundary (H start : Nat) (ra : List Ghost) (g : Ghost) (rb : List Ghost)
    (ho : Offs start (ra ++ g :: rb)) (hwf : ∀ x ∈ ra ++ g :: rb, WF H x.hdr x.stored x.compressed) :
    (ra ++ g :: rb).filter (fun x => decide (x.off + x.len H ≤ g.off)) = ra := by
  rw [Offs_append] at ho
  obtain ⟨ho1, ho2⟩ := ho
  have hgo : g.off = start + (genc ra).length := ho2.1
  rw [List.filter_append]
  have h1 : ra.filter (fun x => decide (x.off + x.len H ≤ g.off)) = ra := by
    rw [List.filter_eq_self]
    intro x hx
    have := (Offs_mem_ge ra start ho1 x hx).2
    rw [Ghost.enc_length_wf (hwf x (List.mem_append_left _ hx))] at this
    simp only [decide_eq_true_eq]; omega
  have h2 : (g :: rb).filter (fun x => decide (x.off + x.len H ≤ g.off)) = [] := by
    rw [List.filter_eq_nil_iff]
    intro x hx
    have := (Offs_mem_ge (g :: rb) _ ho2 x hx).1
    intro hd
    have hd' := of_decide_eq_true hd
    simp only [Ghost.len, RECORD_HEAD_SIZE] at hd'
    omega
  rw [h1, h2, List.append_nil]

theorem gi_setLen {w : Writer} {start : Nat} {recs : List Ghost} (off : Nat) (hw : WInv w)
    (hg : GI w start recs) (ok : off ≥ w.writeOffset ∨ ∃ g ∈ recs, off = g.off) :
    GI (w.setLen off) start
      (if off ≥ w.writeOffset then recs else recs.filter (fun g => g.off + g.len w.H ≤ off)) := by
  by_cases h : off ≥ w.writeOffset
  · unfold Writer.setLen; rw [if_pos h, if_pos h]; exact hg
  · obtain ⟨g, hm, rfl⟩ := ok.resolve_left h
    obtain ⟨ra, rb, hs, ho⟩ := mem_split_off hg.offs hm
    obtain ⟨P, hP, hl⟩ := hg.bytes
    have hoffs := hg.offs
    have hwf := hg.wf
    rw [hs] at hoffs hwf
    unfold Writer.setLen
    rw [if_neg h, if_neg h, hs, filter_boundary w.H start ra g rb hoffs hwf]
    have b := bufStep_flush w hw.2.2
    have hb : w.flushBuf.buf = [] := rfl
    have hc1 : w.flushBuf.cursor = w.writeOffset := by
      have := b.hcur; rw [hb] at this; simp at this; rw [this]; exact hw.1
    have hlog1 : w.flushBuf.file.take w.flushBuf.cursor = P ++ genc (ra ++ g :: rb) := by
      have := b.hlog; rw [List.append_nil, hl, hs] at this
      rw [← this, Writer.logical, hb, List.append_nil]
    refine ⟨⟨P, hP, ?_⟩, ((Offs_append ra (g :: rb) start).1 hoffs).1,
      fun x hx => hwf x (List.mem_append_left _ hx), ra, [], (List.append_nil _).symm, ho⟩
    show (pwrite w.flushBuf.file g.off _).take g.off ++ w.flushBuf.buf = P ++ genc ra
    rw [hb, List.append_nil, pwrite_take_below _ _ _ _ (Nat.le_refl _) (by have := b.hlen; omega)]
    have h3 : w.flushBuf.file.take g.off = (w.flushBuf.file.take w.flushBuf.cursor).take g.off := by
      rw [List.take_take, Nat.min_eq_left (by omega)]
    rw [h3, hlog1, genc_append, ← List.append_assoc, List.take_left']
    rw [List.length_append, hP]; exact ho.symm

end SierraModel.Seglog

namespace SierraModel.Seglog

theorem pwrite_mid (a m m' b : Bytes) (h : m'.length = m.length) :
    pwrite (a ++ m ++ b) a.length m' = a ++ m' ++ b := by
  unfold pwrite
  rw [if_neg (by simp)]
  simp only []
  have h1 : (a ++ m ++ b).take a.length = a := by rw [List.append_assoc, List.take_left']; rfl
  have h2 : (a ++ m ++ b).drop (a.length + m'.length) = b := by
    rw [h, ← List.length_append, List.drop_left']; rfl
  rw [h1, h2]

theorem pwrite_append (a b : Bytes) (off : Nat) (d : Bytes) (h : off + d.length ≤ a.length) :
    pwrite (a ++ b) off d = pwrite a off d ++ b := by
  unfold pwrite
  rw [if_neg (by simp; omega), if_neg (by omega)]
  simp only []
  rw [List.take_append_of_le_length (by omega), List.drop_append_of_le_length h]
  simp [List.append_assoc]

theorem pwrite_take (f : Bytes) (off : Nat) (d : Bytes) (k : Nat) (hk : k ≤ f.length) (h : off + d.length ≤ k) :
    (pwrite f off d).take k = pwrite (f.take k) off d := by
  have hsplit : f = f.take k ++ f.drop k := (List.take_append_drop k f).symm
  have hl : (f.take k).length = k := by simp; omega
  conv => lhs; rw [hsplit]
  rw [pwrite_append _ _ _ _ (by omega), List.take_left']
  rw [pwrite_length]; omega

theorem genc_map_length (f : Ghost → Ghost) :
    ∀ (l : List Ghost), (∀ x ∈ l, (f x).enc.length = x.enc.length) → (genc (l.map f)).length = (genc l).length := by
  intro l
  induction l with
  | nil => intro _; rfl
  | cons x l ih =>
    intro h
    rw [List.map_cons, genc_cons, genc_cons, List.length_append, List.length_append,
      h x (by simp), ih (fun y hy => h y (by simp [hy]))]

theorem map_eq_self_of {α : Type} (f : α → α) (l : List α) (h : ∀ x ∈ l, f x = x) : l.map f = l := by
  induction l with
  | nil => rfl
  | cons x l ih => rw [List.map_cons, h x (by simp), ih (fun y hy => h y (by simp [hy]))]

end SierraModel.Seglog

namespace SierraModel.Seglog

theorem gi_replace {w : Writer} {start : Nat} {recs : List Ghost} (off : Nat) (hdr file' : Bytes)
    (hw : WInv w) (hg : GI w start recs) (hh : hdr.length = w.H)
    (ok : ∃ g ∈ recs, g.off = off ∧ g.off + g.len w.H ≤ w.flushed)
    (hr : replaceHeader w.H w.file w.flushed off hdr = .ok file') :
    GI { w with file := file', durable := file', epoch := w.epoch + 1 } start
      (recs.map (fun g => if g.off == off then { g with hdr := hdr } else g)) := by
  obtain ⟨g, hm, rfl, hfl⟩ := ok
  obtain ⟨ra, rb, hs, ho⟩ := mem_split_off hg.offs hm
  obtain ⟨P, hP, hl⟩ := hg.bytes
  obtain ⟨rec, hp, hf⟩ := replaceHeader_ok hr
  rw [ghost_parse hw hg hm hfl] at hp
  cases hp
  simp only [] at hf
  have wf := hg.wf g hm
  have wf' : WF w.H hdr g.stored g.compressed := ⟨hh, wf.small, wf.zlen⟩
  have hoffs := hg.offs
  rw [hs, Offs_append] at hoffs
  obtain ⟨ho1, ho2, ho3⟩ := hoffs
  -- the map only touches `g`
  have hmap : recs.map (fun x => if x.off == g.off then { x with hdr := hdr } else x)
      = ra ++ { g with hdr := hdr } :: rb := by
    rw [hs, List.map_append, List.map_cons]
    have e1 : ra.map (fun x => if x.off == g.off then { x with hdr := hdr } else x) = ra := by
      apply map_eq_self_of
      intro x hx
      have h1 := (Offs_mem_ge ra start ho1 x hx).2
      have h2 := x.enc_length
      have : ¬ (x.off = g.off) := by unfold RECORD_HEAD_SIZE at h2; omega
      simp [this]
    have e2 : rb.map (fun x => if x.off == g.off then { x with hdr := hdr } else x) = rb := by
      apply map_eq_self_of
      intro x hx
      have h1 := (Offs_mem_ge rb _ ho3 x hx).1
      have h2 := g.enc_length
      have : ¬ (x.off = g.off) := by unfold RECORD_HEAD_SIZE at h2; omega
      simp [this]
    rw [e1, e2]; simp
  have henc : ({ g with hdr := hdr } : Ghost).enc.length = g.enc.length := by
    rw [Ghost.enc_length, Ghost.enc_length]; simp only []; rw [hh, wf.hlen]
  refine ⟨⟨P, hP, ?_⟩, ?_, ?_, ?_⟩
  · -- bytes
    rw [hmap]
    have hLF : g.len w.H - RECORD_HEAD_SIZE + (if g.compressed = true then COMPRESSION_FLAG else 0)
        = lenFlagOf hdr g.stored g.compressed := by
      unfold Ghost.len lenFlagOf; rw [hh]; omega
    have hLF' : lenFlagOf g.hdr g.stored g.compressed = lenFlagOf hdr g.stored g.compressed := by
      unfold lenFlagOf; rw [hh, wf.hlen]
    rw [hLF] at hf
    have hold : w.file.take w.cursor ++ w.buf =
        (P ++ genc ra ++ le32 (lenFlagOf hdr g.stored g.compressed)) ++
          (le32 (crc32 (le32 (lenFlagOf hdr g.stored g.compressed) ++ g.hdr ++ g.stored)).toNat ++ g.hdr) ++
          (g.stored ++ genc rb) := by
      have : w.file.take w.cursor ++ w.buf = w.logical := rfl
      rw [this, hl, hs, genc_append, genc_cons, Ghost.enc, encodeRec_eq, hLF']
      simp only [List.append_assoc]
    have hnew : P ++ genc (ra ++ { g with hdr := hdr } :: rb) =
        (P ++ genc ra ++ le32 (lenFlagOf hdr g.stored g.compressed)) ++
          (le32 (crc32 (le32 (lenFlagOf hdr g.stored g.compressed) ++ hdr ++ g.stored)).toNat ++ hdr) ++
          (g.stored ++ genc rb) := by
      rw [genc_append, genc_cons, Ghost.enc, encodeRec_eq]
      simp only [List.append_assoc]
    have hX : (P ++ genc ra ++ le32 (lenFlagOf hdr g.stored g.compressed)).length = g.off + 4 := by
      rw [List.length_append, List.length_append, hP, le32_length, ho]
    have hbound : g.off + 4 + (le32 (crc32 (le32 (lenFlagOf hdr g.stored g.compressed) ++ hdr ++ g.stored)).toNat ++ hdr).length
        ≤ w.cursor := by
      rw [List.length_append, le32_length, hh]
      have := hw.2.1
      unfold Ghost.len RECORD_HEAD_SIZE at hfl
      omega
    show file'.take w.cursor ++ w.buf = _
    rw [hf, pwrite_take _ _ _ _ hw.2.2 hbound,
      ← pwrite_append _ _ _ _ (by rw [List.length_take, Nat.min_eq_left hw.2.2]; exact hbound),
      hold, ← hX, pwrite_mid _ _ _ _ (by simp [le32_length, hh, wf.hlen]), hnew]
  · rw [hmap, Offs_append]
    refine ⟨ho1, ho2, ?_⟩
    rw [henc]; exact ho3
  · intro x hx
    rw [hmap] at hx
    rcases List.mem_append.1 hx with h | h
    · exact hg.wf x (by rw [hs]; exact List.mem_append_left _ h)
    · rcases List.mem_cons.1 h with h | h
      · rw [h]; exact wf'
      · exact hg.wf x (by rw [hs]; exact List.mem_append_right _ (List.mem_cons_of_mem _ h))
  · obtain ⟨fa, fb, hfs, hff⟩ := hg.fl
    refine ⟨fa.map _, fb.map _, by rw [hfs, List.map_append], ?_⟩
    show w.flushed = _
    rw [genc_map_length _ fa, hff]
    intro x hx
    have wfx := hg.wf x (by rw [hfs]; exact List.mem_append_left _ hx)
    split
    · rw [Ghost.enc_length, Ghost.enc_length]; simp only []; rw [hh, wfx.hlen]
    · rfl

end SierraModel.Seglog

namespace SierraModel.Seglog

/-- op validity for the content properties: appended headers have size `H` and the record fits
the format's 31-bit length (the environment's `z` = `orig_size_le ‖ zstd` has its 4-byte prefix);
truncation is a no-op or at a record boundary; `replace` targets a flushed ghost record with a
header of size `H` -/
def OpOk (s : Sys) : Op → Prop
  | .append hdr data z => hdr.length = s.w.H ∧ s.w.H + max data.length z.length < 2 ^ 31 ∧ 4 ≤ z.length
  | .setLen off => off ≥ s.w.writeOffset ∨ ∃ g ∈ s.recs, off = g.off
  | .replace off hdr => hdr.length = s.w.H ∧ ∃ g ∈ s.recs, g.off = off ∧ g.off + g.len s.w.H ≤ s.w.flushed
  | _ => True

abbrev RunOk : Sys → List Op → Prop := RunP OpOk

theorem OpOk.hdrOk {s : Sys} {op : Op} (h : OpOk s op) : HdrOk s op := by
  cases op <;> first | exact h.1 | trivial

instance OpOk.dec (s : Sys) : (op : Op) → Decidable (OpOk s op)
  | .append hdr data z =>
    inferInstanceAs (Decidable (hdr.length = s.w.H ∧ s.w.H + max data.length z.length < 2 ^ 31 ∧ 4 ≤ z.length))
  | .flush => inferInstanceAs (Decidable True)
  | .sync => inferInstanceAs (Decidable True)
  | .setLen off => inferInstanceAs (Decidable (off ≥ s.w.writeOffset ∨ ∃ g ∈ s.recs, off = g.off))
  | .compress _ => inferInstanceAs (Decidable True)
  | .readRandom _ => inferInstanceAs (Decidable True)
  | .readSeq _ _ => inferInstanceAs (Decidable True)
  | .replace off hdr =>
    inferInstanceAs (Decidable (hdr.length = s.w.H ∧ ∃ g ∈ s.recs, g.off = off ∧ g.off + g.len s.w.H ≤ s.w.flushed))

theorem ginv_create (H size start : Nat) (h : start ≤ size) : GInv (Sys.create H size start) := by
  refine ⟨⟨(List.replicate size 0).take start, ?_, ?_⟩, trivial, (fun _ hg => nomatch hg),
    ⟨[], [], rfl, rfl⟩⟩
  · show ((List.replicate size (0 : UInt8)).take start).length = start
    simp; omega
  · simp [Sys.create, Writer.create, Writer.logical, genc_nil]

theorem ginv_step (s : Sys) (op : Op) (hw : WInv s.w) (hg : GInv s) (ok : OpOk s op) : GInv (s.step op).1 := by
  cases op with
  | append hdr data z =>
    rw [step_append]
    exact gi_append hdr data z hw hg ok.1 ok.2.1 ok.2.2
  | flush => exact gi_flush hw hg
  | sync => exact gi_sync hw hg
  | setLen off => exact gi_setLen off hw hg ok
  | compress b => exact GI.transfer hg rfl rfl rfl
  | readRandom off => exact hg
  | readSeq ri off => simp only [Sys.step]; split <;> exact hg
  | replace off hdr =>
    simp only [Sys.step]
    split
    · rename_i file' hr
      exact gi_replace off hdr file' hw hg ok.1 ok.2 hr
    · exact hg

/-- everything together is inductive under `OpOk` -/
def FullInv (s : Sys) : Prop := Inv s ∧ GInv s

theorem fullInv_create (H size start : Nat) (h : start ≤ size) : FullInv (Sys.create H size start) :=
  ⟨inv_create H size start h, ginv_create H size start h⟩

theorem fullInv_step (s : Sys) (op : Op) (hi : FullInv s) (ok : OpOk s op) : FullInv (s.step op).1 :=
  ⟨inv_step s op hi.1 ok.hdrOk, ginv_step s op hi.1.1 hi.2 ok⟩

theorem fullInv_run (ops : List Op) (s : Sys) (hi : FullInv s) (ok : RunOk s ops) : FullInv (s.run ops) :=
  run_inv fullInv_step ops s hi ok

end SierraModel.Seglog

namespace SierraModel.Seglog

/-! ### (G) iteration -/

def Ghost.toRec (H : Nat) (g : Ghost) : Rec :=
  { hdr := g.hdr, stored := g.stored, compressed := g.compressed, len := g.len H }

/-- the ghost records at offsets `≥ lo` that end at or below `flushed`, in order, as iteration
reports them -/
def flushedFrom (H : Nat) (recs : List Ghost) (flushed lo : Nat) : List (Nat × Rec) :=
  (recs.filter (fun x => decide (lo ≤ x.off ∧ x.off + x.len H ≤ flushed))).map (fun x => (x.off, x.toRec H))

theorem placed_ghosts (H : Nat) : ∀ (l : List Ghost) (o : Nat), Offs o l →
    (∀ x ∈ l, WF H x.hdr x.stored x.compressed) →
    placed H o (l.map Ghost.toRecIn) = l.map (fun x => (x.off, x.toRec H)) := by
  intro l
  induction l with
  | nil => intro _ _ _; rfl
  | cons g l ih =>
    intro o ⟨h1, h2⟩ hwf
    have wf := hwf g (by simp)
    have hl : g.enc.length = g.len H := Ghost.enc_length_wf wf
    rw [hl] at h2
    simp only [List.map_cons, placed]
    subst h1
    have e : (recOf H g.toRecIn).len = g.len H := rfl
    rw [e, ih _ h2 (fun x hx => hwf x (by simp [hx]))]
    rfl

theorem parseAt_at_limit (H : Nat) (b : Bytes) (limit off : Nat) (h : limit ≤ off) :
    parseAt H b limit off = .error .oob := by
  unfold parseAt
  rw [if_pos (by unfold RECORD_HEAD_SIZE; omega)]

theorem filter_mid {α : Type} (p : α → Bool) (a b c : List α) (ha : ∀ x ∈ a, p x = false)
    (hb : ∀ x ∈ b, p x = true) (hc : ∀ x ∈ c, p x = false) : (a ++ b ++ c).filter p = b := by
  rw [List.filter_append, List.filter_append, List.filter_eq_nil_iff.2 (by simpa using ha),
    List.filter_eq_self.2 hb, List.filter_eq_nil_iff.2 (by simpa using hc)]
  simp

end SierraModel.Seglog

namespace SierraModel.Seglog

/-- (G) core -/
theorem ghost_iter {w : Writer} {start : Nat} {recs : List Ghost} (hw : WInv w) (hg : GI w start recs)
    {g : Ghost} (hm : g ∈ recs) (fuel : Nat) (hfuel : recs.length < fuel) :
    iterFrom w.H w.file w.flushed fuel g.off = (flushedFrom w.H recs w.flushed g.off, none) := by
  obtain ⟨fa, fb, hfs, hff⟩ := hg.fl
  obtain ⟨P, hP, hl⟩ := hg.bytes
  rw [iterFrom_congr _ _ _ _ (file_take_flushed hw), hl]
  have hoffs := hg.offs
  rw [hfs, Offs_append, ← hff] at hoffs
  obtain ⟨hoa, hob⟩ := hoffs
  have hwfa : ∀ x ∈ fa, WF w.H x.hdr x.stored x.compressed :=
    fun x hx => hg.wf x (by rw [hfs]; exact List.mem_append_left _ hx)
  have hfalse_b : ∀ x ∈ fb, ¬ (x.off + x.len w.H ≤ w.flushed) := by
    intro x hx
    have := (Offs_mem_ge fb _ hob x hx).1
    unfold Ghost.len RECORD_HEAD_SIZE; omega
  rw [hfs] at hm hfuel
  rcases List.mem_append.1 hm with hma | hmb
  · obtain ⟨ra, rm, hs, ho⟩ := mem_split_off hoa hma
    have hoa' := hoa
    rw [hs, Offs_append, ← ho] at hoa'
    obtain ⟨hora, horm⟩ := hoa'
    have hpre : (P ++ genc ra).length = g.off := by rw [List.length_append, hP]; exact ho.symm
    have hbytes : P ++ genc recs = (P ++ genc ra) ++ encodeAll ((g :: rm).map Ghost.toRecIn) ++ genc fb := by
      rw [hfs, hs, genc_append, genc_append]
      simp only [genc, List.append_assoc]
    have hflen : (P ++ genc ra).length + (encodeAll ((g :: rm).map Ghost.toRecIn)).length = w.flushed := by
      rw [hff, hs, genc_append, List.length_append, List.length_append, hP]
      simp only [genc]; omega
    have key := iterFrom_encodeAll w.H ((g :: rm).map Ghost.toRecIn) (P ++ genc ra) (genc fb) w.flushed fuel
      (by
        intro r hr
        obtain ⟨x, hx, rfl⟩ := List.mem_map.1 hr
        exact hwfa x (by rw [hs]; exact List.mem_append_right _ hx))
      (by rw [hs] at hfuel; simp at hfuel ⊢; omega)
      (Nat.le_of_eq hflen)
      (Or.inl (parseAt_at_limit _ _ _ _ (Nat.le_of_eq hflen.symm)))
    rw [hbytes, ← hpre, key, hpre,
      placed_ghosts w.H (g :: rm) g.off horm (fun x hx => hwfa x (by rw [hs]; exact List.mem_append_right _ hx))]
    unfold flushedFrom
    rw [hfs, hs, filter_mid _ ra (g :: rm) fb]
    · intro x hx
      have h1 := (Offs_mem_ge ra start hora x hx).2
      have h2 := x.enc_length
      have : ¬ (g.off ≤ x.off) := by unfold RECORD_HEAD_SIZE at h2; omega
      simp [this]
    · intro x hx
      have h1 := Offs_mem_ge (g :: rm) g.off horm x hx
      have h2 : x.enc.length = x.len w.H :=
        Ghost.enc_length_wf (hwfa x (by rw [hs]; exact List.mem_append_right _ hx))
      have h3 : g.off + (genc (g :: rm)).length = w.flushed := by
        rw [← hpre]; simpa only [genc] using hflen
      simp only [decide_eq_true_eq]; omega
    · intro x hx
      have := hfalse_b x hx
      simp [this]
  · have hge : w.flushed ≤ g.off := (Offs_mem_ge fb _ hob g hmb).1
    cases fuel with
    | zero => omega
    | succ n =>
      unfold iterFrom
      rw [parseAt_at_limit _ _ _ _ hge]
      unfold flushedFrom
      rw [hfs, List.filter_eq_nil_iff.2, List.map_nil]
      intro x hx
      rcases List.mem_append.1 hx with ha | hb
      · have h1 := (Offs_mem_ge fa start hoa x ha).2
        have h2 := x.enc_length
        have : ¬ (g.off ≤ x.off) := by unfold RECORD_HEAD_SIZE at h2; omega
        simp [this]
      · have := hfalse_b x hb
        simp [this]

end SierraModel.Seglog

namespace SierraModel.Seglog

/-- `Iter::next_record` repeated through ONE long-lived reader (its cache is threaded through the
calls); same stopping rule as `iterFrom` -/
def iterSeq (H : Nat) (file : Bytes) (flushed epoch : Nat) : Nat → Reader → Nat → List (Nat × Rec) × Option RdErr
  | 0, _, _ => ([], none)
  | fuel + 1, r, off =>
    match (r.readSeq H file flushed epoch off).2 with
    | .ok rec =>
      let (rs, e) := iterSeq H file flushed epoch fuel (r.readSeq H file flushed epoch off).1 (off + rec.len)
      ((off, rec) :: rs, e)
    | .error .oob => ([], none)
    | .error .trunc => ([], none)
    | .error e => ([], some e)

theorem iterSeq_eq_iterFrom (H : Nat) (file : Bytes) (flushed epoch : Nat) (hf : flushed ≤ file.length) :
    ∀ (fuel : Nat) (r : Reader) (off : Nat), CacheOk r.cache file flushed epoch →
      iterSeq H file flushed epoch fuel r off = iterFrom H file flushed fuel off := by
  intro fuel
  induction fuel with
  | zero => intro r off _; rfl
  | succ n ih =>
    intro r off hc
    obtain ⟨a1, a2, _⟩ := readSeq_spec r H file flushed epoch off hc hf
    unfold iterSeq iterFrom
    rw [a1]
    rcases hp : parseAt H file flushed off with e | rec
    · cases e <;> rfl
    · simp only []
      rw [ih _ _ a2]

end SierraModel.Seglog
