import SierraModel.Store.Version

namespace SierraModel.Version

def headIsDigit : List Char → Bool
  | c :: _ => isDigit c
  | [] => false

theorem digitChar_isDigit (k : Nat) (hk : k < 10) : isDigit (Char.ofNat (48 + k)) = true := by
  have : k = 0 ∨ k = 1 ∨ k = 2 ∨ k = 3 ∨ k = 4 ∨ k = 5 ∨ k = 6 ∨ k = 7 ∨ k = 8 ∨ k = 9 := by omega
  rcases this with h | h | h | h | h | h | h | h | h | h <;> subst h <;> decide

theorem digitChar_val (k : Nat) (hk : k < 10) : (Char.ofNat (48 + k)).toNat - 48 = k := by
  have : k = 0 ∨ k = 1 ∨ k = 2 ∨ k = 3 ∨ k = 4 ∨ k = 5 ∨ k = 6 ∨ k = 7 ∨ k = 8 ∨ k = 9 := by omega
  rcases this with h | h | h | h | h | h | h | h | h | h <;> subst h <;> decide

theorem parseDigits_cons_digit (k : Nat) (hk : k < 10) (cs : List Char) (a : Nat)
    (hb : a * 10 + k ≤ U64_MAX) :
    parseDigits (Char.ofNat (48 + k) :: cs) a = parseDigits cs (a * 10 + k) := by
  simp [parseDigits, digitChar_isDigit k hk, digitChar_val k hk, hb]

/-- parsing the digits of `n` (prepended to `acc`) from 0 continues parsing `acc` from `n`. -/
theorem parseDigits_digitsAux (f : Nat) : ∀ (n : Nat) (acc : List Char), n < f → n ≤ U64_MAX →
    parseDigits (digitsAux f n acc) 0 = parseDigits acc n := by
  induction f with
  | zero => intro n acc h; omega
  | succ f ih =>
    intro n acc hf hb
    unfold digitsAux
    simp only []
    split
    · rename_i hz
      rw [parseDigits_cons_digit (n % 10) (Nat.mod_lt _ (by omega)) acc 0 (by omega)]
      congr 1; omega
    · rename_i hz
      rw [ih (n / 10) _ (by omega) (by omega)]
      rw [parseDigits_cons_digit (n % 10) (Nat.mod_lt _ (by omega)) acc (n / 10) (by omega)]
      congr 1; omega

theorem parseDigits_digits (n : Nat) (hb : n ≤ U64_MAX) : parseDigits (digits n) 0 = some n := by
  unfold digits
  rw [parseDigits_digitsAux (n + 1) n [] (by omega) hb]
  rfl

theorem headIsDigit_digitsAux (f : Nat) : ∀ (n : Nat) (acc : List Char),
    (headIsDigit acc = true ∨ 0 < f) → headIsDigit (digitsAux f n acc) = true := by
  induction f with
  | zero => intro n acc h; rcases h with h | h; · simpa [digitsAux] using h
            · omega
  | succ f ih =>
    intro n acc _
    unfold digitsAux
    simp only []
    split
    · simp [headIsDigit, digitChar_isDigit (n % 10) (Nat.mod_lt _ (by omega))]
    · apply ih; left
      simp [headIsDigit, digitChar_isDigit (n % 10) (Nat.mod_lt _ (by omega))]

theorem headIsDigit_digits (n : Nat) : headIsDigit (digits n) = true :=
  headIsDigit_digitsAux (n + 1) n [] (Or.inr (by omega))

theorem parse_of_headIsDigit (s : List Char) (h : headIsDigit s = true) :
    parse s = (parseDigits s 0).map .exact := by
  cases s with
  | nil => simp [headIsDigit] at h
  | cons c cs =>
    simp only [headIsDigit] at h
    have hne : ∀ d : Char, isDigit d = false → c ≠ d := by
      intro d hd hcd; subst hcd; rw [h] at hd; cases hd
    have he : c ≠ 'e' := hne 'e' (by decide)
    have ha : c ≠ 'a' := hne 'a' (by decide)
    have hp : c ≠ '+' := hne '+' (by decide)
    unfold parse
    simp only [List.cons.injEq, he, ha, false_and, if_false]
    congr 1
    unfold parseU64
    split
    · contradiction
    · rename_i heq; simp only [List.cons.injEq] at heq; exact absurd heq.1 hp
    · rfl

end SierraModel.Version
