/-
Helper lemmas for C08 (confirmed watermark): association-list map facts, the advance loop
(`scan`: monotone, everything it passes has a quorum, it stops only where it must — fuel
`length + 1` is enough), the run invariant tying the state to the maximum reported counts, the
`prefixLen` specification, and the re-scan of `initialize`.
-/
import SierraModel.Cluster.Persist

namespace SierraModel.Cluster

/-! ### map -/

theorem mget_mset (m : UMap) (k : Nat) (i : Info) (k' : Nat) :
    mget (mset m k i) k' = if k' = k then some i else mget m k' := by
  induction m with
  | nil =>
    simp only [mset, mget, List.find?_cons, List.find?_nil]
    by_cases h : k' = k
    · subst h; simp
    · have : (k == k') = false := by simp; omega
      simp [h, this]
  | cons a rest ih =>
    obtain ⟨ka, va⟩ := a
    unfold mset
    by_cases h1 : k < ka
    · simp only [h1, if_true]
      by_cases h : k' = k
      · subst h; simp [mget]
      · have : (k == k') = false := by simp; omega
        simp only [mget, List.find?_cons, this, h, if_false]
    · simp only [h1, if_false]
      by_cases h2 : k = ka
      · subst h2
        simp only [if_true]
        by_cases h : k' = k
        · subst h; simp [mget]
        · have : (k == k') = false := by simp; omega
          simp only [mget, List.find?_cons, this, h, if_false]
      · simp only [h2, if_false]
        by_cases h3 : ka = k'
        · subst h3
          have : ¬ ka = k := fun e => h2 e.symm
          simp [mget, this]
        · have h3' : (ka == k') = false := by simp; omega
          have := ih
          simp only [mget] at this ⊢
          simp only [List.find?_cons, h3']
          exact this

theorem mget_mretain (m : UMap) (w k : Nat) :
    mget (mretain m w) k = if w < k then mget m k else none := by
  induction m with
  | nil => simp [mretain, mget]
  | cons a rest ih =>
    obtain ⟨ka, va⟩ := a
    simp only [mretain, mget] at ih ⊢
    simp only [List.filter_cons]
    by_cases hk : ka = k
    · subst hk
      by_cases hw : w < ka
      · simp [hw]
      · simp only [hw, decide_false, Bool.false_eq_true, if_false]
        rw [ih]; simp [hw]
    · have hk' : (ka == k) = false := by simp; omega
      by_cases hw : w < ka
      · simp only [hw, decide_true, if_true, List.find?_cons, hk']
        exact ih
      · simp only [hw, decide_false, Bool.false_eq_true, if_false, List.find?_cons, hk']
        exact ih

/-- stored count of a version (0 when absent) -/
def cntOf (m : UMap) (v : Nat) : Nat :=
  match mget m v with
  | some e => e.count
  | none => 0

theorem okAt_eq (m : UMap) (q v : Nat) (hq : 1 ≤ q) : okAt m q v = decide (q ≤ cntOf m v) := by
  unfold okAt cntOf
  cases mget m v with
  | some e => rfl
  | none => simp; omega

theorem cntOf_mset (m : UMap) (k : Nat) (i : Info) (k' : Nat) :
    cntOf (mset m k i) k' = if k' = k then i.count else cntOf m k' := by
  unfold cntOf
  rw [mget_mset]
  by_cases h : k' = k <;> simp [h]

theorem cntOf_mretain (m : UMap) (w k : Nat) (h : w < k) : cntOf (mretain m w) k = cntOf m k := by
  unfold cntOf; rw [mget_mretain]; simp [h]

theorem okAt_mretain (m : UMap) (q w k : Nat) (h : w < k) : okAt (mretain m w) q k = okAt m q k := by
  unfold okAt; rw [mget_mretain]; simp [h]

/-- every key is at most `B` -/
def KeysLe (m : UMap) (B : Nat) : Prop := ∀ e ∈ m, e.1 ≤ B

theorem keysLe_mset (m : UMap) (B k : Nat) (i : Info) (h : KeysLe m B) (hk : k ≤ B) : KeysLe (mset m k i) B := by
  induction m with
  | nil => intro e he; simp [mset] at he; subst he; exact hk
  | cons a rest ih =>
    obtain ⟨ka, va⟩ := a
    have hr : KeysLe rest B := fun e he => h e (by simp [he])
    have ha : ka ≤ B := h (ka, va) (by simp)
    unfold mset
    intro e he
    split at he
    · simp only [List.mem_cons] at he
      rcases he with rfl | rfl | he
      · exact hk
      · exact ha
      · exact hr e he
    · split at he
      · simp only [List.mem_cons] at he
        rcases he with rfl | he
        · exact hk
        · exact hr e he
      · simp only [List.mem_cons] at he
        rcases he with rfl | he
        · exact ha
        · exact ih hr e he

theorem keysLe_mretain (m : UMap) (B w : Nat) (h : KeysLe m B) : KeysLe (mretain m w) B :=
  fun e he => h e (List.mem_filter.mp he).1

theorem mget_some_mem (m : UMap) (k : Nat) (i : Info) (h : mget m k = some i) : (k, i) ∈ m := by
  unfold mget at h
  cases hf : m.find? (fun e => e.1 == k) with
  | none => simp [hf] at h
  | some e =>
    simp [hf] at h
    have h1 := List.find?_some hf
    have h2 := List.mem_of_find?_eq_some hf
    simp at h1
    obtain ⟨a, b⟩ := e
    simp at h1 h; subst h1; subst h; exact h2

theorem okAt_le (m : UMap) (B q v : Nat) (h : KeysLe m B) (ho : okAt m q v = true) : v ≤ B := by
  unfold okAt at ho
  cases hg : mget m v with
  | none => simp [hg] at ho
  | some e => exact h _ (mget_some_mem m v e hg)

/-! ### the advance loop -/

theorem scan_mono (m : UMap) (q : Nat) : ∀ f w, w ≤ scan m q f w := by
  intro f
  induction f with
  | zero => intro w; simp [scan]
  | succ f ih =>
    intro w
    unfold scan
    split
    · split
      · have := ih (w + 1); omega
      · omega
    · omega

theorem scan_ok (m : UMap) (q : Nat) : ∀ f w v, w < v → v ≤ scan m q f w → okAt m q v = true := by
  intro f
  induction f with
  | zero => intro w v h1 h2; simp [scan] at h2; omega
  | succ f ih =>
    intro w v h1 h2
    unfold scan at h2
    split at h2
    · rename_i hok
      by_cases hv : v = w + 1
      · subst hv; exact hok
      · split at h2
        · exact ih (w + 1) v (by omega) h2
        · omega
    · omega

/-- number of entries with key ≥ k -/
def cntGe (m : UMap) (k : Nat) : Nat := (m.filter (fun e => decide (k ≤ e.1))).length

theorem cntGe_le_length (m : UMap) (k : Nat) : cntGe m k ≤ m.length := List.length_filter_le _ _

theorem cntGe_succ_le (m : UMap) (k : Nat) : cntGe m (k + 1) ≤ cntGe m k := by
  induction m with
  | nil => simp [cntGe]
  | cons a rest ih =>
    simp only [cntGe, List.filter_cons] at ih ⊢
    by_cases h1 : k + 1 ≤ a.1
    · have h2 : k ≤ a.1 := by omega
      simp only [h1, h2, decide_true, if_true, List.length_cons]; omega
    · by_cases h2 : k ≤ a.1
      · simp only [h1, h2, decide_true, decide_false, if_true, Bool.false_eq_true, if_false, List.length_cons]; omega
      · simp only [h1, h2, decide_false, Bool.false_eq_true, if_false]; exact ih

theorem cntGe_succ_lt (m : UMap) (k : Nat) (i : Info) (h : mget m k = some i) : cntGe m (k + 1) < cntGe m k := by
  induction m with
  | nil => simp [mget] at h
  | cons a rest ih =>
    obtain ⟨ka, va⟩ := a
    by_cases hk : ka = k
    · subst hk
      have := cntGe_succ_le rest ka
      simp only [cntGe, List.filter_cons] at this ⊢
      have h1 : ¬ (ka + 1 ≤ ka) := by omega
      simp only [h1, decide_false, Bool.false_eq_true, if_false, Nat.le_refl, decide_true, if_true, List.length_cons]
      omega
    · have hk' : (ka == k) = false := by simp; omega
      have h' : mget rest k = some i := by
        simp only [mget, List.find?_cons, hk'] at h ⊢; exact h
      have := ih h'
      simp only [cntGe, List.filter_cons] at this ⊢
      by_cases h1 : k + 1 ≤ ka
      · have h2 : k ≤ ka := by omega
        simp only [h1, h2, decide_true, if_true, List.length_cons]; omega
      · have h2 : ¬ k ≤ ka := by omega
        simp only [h1, h2, decide_false, Bool.false_eq_true, if_false]; exact this

/-- with enough fuel the loop stops only at a version without a quorum entry or at `u64::MAX` -/
theorem scan_stop (m : UMap) (q : Nat) : ∀ f w, cntGe m (w + 1) < f →
    okAt m q (scan m q f w + 1) = false ∨ U64_MAX ≤ scan m q f w := by
  intro f
  induction f with
  | zero => intro w h; omega
  | succ f ih =>
    intro w h
    unfold scan
    cases hok : okAt m q (w + 1) with
    | false => simp [hok]
    | true =>
      simp only [if_true]
      unfold addU64
      by_cases hadd : w + 1 + 1 ≤ U64_MAX
      · simp only [hadd, if_true]
        apply ih
        have : ∃ i, mget m (w + 1) = some i := by
          unfold okAt at hok
          cases hg : mget m (w + 1) with
          | none => simp [hg] at hok
          | some e => exact ⟨e, rfl⟩
        obtain ⟨i, hi⟩ := this
        have := cntGe_succ_lt m (w + 1) i hi
        omega
      · simp only [hadd, if_false]
        right; omega

/-- the stop property in the form used by the invariant -/
theorem scan_stop' (m : UMap) (q : Nat) (w : Nat) (hk : KeysLe m U64_MAX) :
    okAt m q (scan m q (m.length + 1) w + 1) = false := by
  have h := scan_stop m q (m.length + 1) w (by have := cntGe_le_length m (w + 1); omega)
  rcases h with h | h
  · exact h
  · cases hc : okAt m q (scan m q (m.length + 1) w + 1) with
    | false => rfl
    | true => have := okAt_le m U64_MAX q _ hk hc; omega

/-! ### `update` -/

theorem quorum_pos (rf : Nat) : 1 ≤ quorum rf := by unfold quorum; omega

theorem update_mono (rf : Nat) (s : PState) (v c : Nat) : s.wm ≤ (update rf s v c).1.wm := by
  unfold update
  simp only []
  split
  · exact Nat.le_refl _
  · split
    · rename_i h; simp only []; omega
    · exact Nat.le_refl _

/-- the gap-filling report: a quorum count for the version right above the watermark advances it -/
theorem update_next (rf : Nat) (s : PState) (v c : Nat) (hv : s.wm + 1 = v) (hc : quorum rf ≤ c) :
    v ≤ (update rf s v c).1.wm := by
  unfold update
  simp only []
  have h1 : ¬ v ≤ s.wm := by omega
  simp only [h1, if_false]
  generalize hold : (mget s.unc v).getD { count := 0, attempts := 0 } = old
  generalize hm : mset s.unc v { count := max old.count c, attempts := satAddU8 old.attempts 1 } = unc1
  have hok : okAt unc1 (quorum rf) (s.wm + 1) = true := by
    rw [okAt_eq _ _ _ (quorum_pos rf), ← hm, hv, cntOf_mset]
    simp; omega
  have hw : v ≤ scan unc1 (quorum rf) (unc1.length + 1) s.wm := by
    unfold scan
    simp only [hok, if_true]
    split
    · have := scan_mono unc1 (quorum rf) unc1.length (s.wm + 1); omega
    · omega
  have hgt : scan unc1 (quorum rf) (unc1.length + 1) s.wm > s.wm := by omega
  simp only [hgt, if_true]
  exact hw

theorem runUps_append (rf : Nat) (s : PState) (a b : List (Nat × Nat)) :
    runUps rf s (a ++ b) = runUps rf (runUps rf s a) b := by
  simp [runUps, List.foldl_append]

theorem runUps_mono (rf : Nat) (ups : List (Nat × Nat)) : ∀ s, s.wm ≤ (runUps rf s ups).wm := by
  induction ups with
  | nil => intro s; exact Nat.le_refl _
  | cons u rest ih =>
    intro s
    have h1 := update_mono rf s u.1 u.2
    have h2 := ih (update rf s u.1 u.2).1
    simp only [runUps, List.foldl_cons] at h2 ⊢
    omega

theorem runReports_eq (rf : Nat) (rs : List Report) : ∀ s,
    runReports rf s rs = runUps rf s (rs.flatMap Report.expand) := by
  induction rs with
  | nil => intro s; rfl
  | cons r rest ih =>
    intro s
    simp only [runReports, List.foldl_cons, List.flatMap_cons] at ih ⊢
    rw [runUps_append, ← ih]; rfl

/-! ### maximum reported counts -/

theorem maxc_append (a b : List (Nat × Nat)) (v : Nat) : maxc (a ++ b) v = max (maxc a v) (maxc b v) := by
  induction a with
  | nil => simp [maxc]
  | cons u rest ih =>
    simp only [List.cons_append, maxc, ih]
    split <;> omega

theorem maxc_ge (ups : List (Nat × Nat)) (v c : Nat) (h : (v, c) ∈ ups) : c ≤ maxc ups v := by
  induction ups with
  | nil => simp at h
  | cons u rest ih =>
    simp only [List.mem_cons] at h
    unfold maxc
    rcases h with h | h
    · subst h; simp only [if_true]; omega
    · have := ih h; split <;> omega

theorem maxc_mem (ups : List (Nat × Nat)) (v : Nat) : maxc ups v = 0 ∨ (v, maxc ups v) ∈ ups := by
  induction ups with
  | nil => left; rfl
  | cons u rest ih =>
    obtain ⟨uv, uc⟩ := u
    unfold maxc
    by_cases h : uv = v
    · subst h
      simp only [if_true]
      by_cases h2 : maxc rest uv ≤ uc
      · right; have : max uc (maxc rest uv) = uc := by omega
        rw [this]; simp
      · have : max uc (maxc rest uv) = maxc rest uv := by omega
        rw [this]
        rcases ih with ih | ih
        · left; exact ih
        · right; exact List.mem_cons_of_mem _ ih
    · simp only [h, if_false]
      rcases ih with ih | ih
      · left; exact ih
      · right; exact List.mem_cons_of_mem _ ih

/-- `maxc` depends only on the set of reported (version, count) pairs -/
theorem maxc_congr (a b : List (Nat × Nat)) (h : ∀ u, u ∈ a ↔ u ∈ b) (v : Nat) : maxc a v = maxc b v := by
  have key : ∀ x y : List (Nat × Nat), (∀ u, u ∈ x → u ∈ y) → maxc x v ≤ maxc y v := by
    intro x y hxy
    rcases maxc_mem x v with h0 | hm
    · omega
    · exact maxc_ge y v _ (hxy _ hm)
  have h1 := key a b (fun u hu => (h u).mp hu)
  have h2 := key b a (fun u hu => (h u).mpr hu)
  omega

theorem maxc_gt_maxVer (ups : List (Nat × Nat)) (v : Nat) (h : maxVer ups < v) : maxc ups v = 0 := by
  induction ups with
  | nil => rfl
  | cons u rest ih =>
    simp only [maxVer] at h
    unfold maxc
    have h1 : ¬ u.1 = v := by omega
    simp only [h1, if_false]
    exact ih (by omega)

/-! ### longest prefix -/

/-- `p` is the length of the longest prefix of versions 1.. satisfying `ok` -/
def IsPrefixLen (ok : Nat → Bool) (p : Nat) : Prop := (∀ v, 1 ≤ v → v ≤ p → ok v = true) ∧ ok (p + 1) = false

theorem isPrefixLen_unique (ok : Nat → Bool) (p p' : Nat) (h : IsPrefixLen ok p) (h' : IsPrefixLen ok p') : p = p' := by
  rcases Nat.lt_trichotomy p p' with hlt | heq | hgt
  · have := h'.1 (p + 1) (by omega) (by omega); rw [h.2] at this; cases this
  · exact heq
  · have := h.1 (p' + 1) (by omega) (by omega); rw [h'.2] at this; cases this

theorem prefixFrom_mono (ok : Nat → Bool) : ∀ f w, w ≤ prefixFrom ok f w := by
  intro f
  induction f with
  | zero => intro w; simp [prefixFrom]
  | succ f ih => intro w; unfold prefixFrom; split
                 · have := ih (w + 1); omega
                 · omega

theorem prefixFrom_ok (ok : Nat → Bool) : ∀ f w v, w < v → v ≤ prefixFrom ok f w → ok v = true := by
  intro f
  induction f with
  | zero => intro w v h1 h2; simp [prefixFrom] at h2; omega
  | succ f ih =>
    intro w v h1 h2
    unfold prefixFrom at h2
    split at h2
    · rename_i hok
      by_cases hv : v = w + 1
      · subst hv; exact hok
      · exact ih (w + 1) v (by omega) h2
    · omega

theorem prefixFrom_stop (ok : Nat → Bool) (M : Nat) (hM : ∀ v, M < v → ok v = false) :
    ∀ f w, M + 1 ≤ f + w → ok (prefixFrom ok f w + 1) = false := by
  intro f
  induction f with
  | zero => intro w h; simp only [prefixFrom]; exact hM _ (by omega)
  | succ f ih =>
    intro w h
    unfold prefixFrom
    cases hok : ok (w + 1) with
    | false => simp [hok]
    | true => simp only [if_true]; exact ih (w + 1) (by omega)

theorem prefixLen_isPrefixLen (q : Nat) (hq : 1 ≤ q) (ups : List (Nat × Nat)) :
    IsPrefixLen (fun v => decide (q ≤ maxc ups v)) (prefixLen q ups) := by
  constructor
  · intro v h1 h2
    exact prefixFrom_ok _ _ 0 v (by omega) h2
  · refine prefixFrom_stop (fun v => decide (q ≤ maxc ups v)) (maxVer ups) ?_ (maxVer ups + 1) 0 (by omega)
    intro v hv
    have := maxc_gt_maxVer ups v hv
    simp [this]; omega

/-! ### the run invariant -/

/-- state ↔ reports: beyond the watermark the stored count is the maximum reported count, every
version up to the watermark has a quorum report, the version after the watermark has none -/
structure Inv (rf : Nat) (s : PState) (ups : List (Nat × Nat)) : Prop where
  keys : KeysLe s.unc U64_MAX
  stored : ∀ v, s.wm < v → cntOf s.unc v = maxc ups v
  below : ∀ v, 1 ≤ v → v ≤ s.wm → quorum rf ≤ maxc ups v
  stop : okAt s.unc (quorum rf) (s.wm + 1) = false

theorem inv_new (rf : Nat) : Inv rf PState.new [] :=
  ⟨fun e he => by simp [PState.new] at he, fun v _ => by simp [PState.new, cntOf, mget, maxc],
   fun v h1 h2 => by simp [PState.new] at h2; omega, by simp [PState.new, okAt, mget]⟩

theorem maxc_snoc (ups : List (Nat × Nat)) (v c x : Nat) :
    maxc (ups ++ [(v, c)]) x = if v = x then max (maxc ups x) c else maxc ups x := by
  rw [maxc_append]
  simp only [maxc]
  split <;> omega

theorem inv_update (rf : Nat) (s : PState) (ups : List (Nat × Nat)) (v c : Nat)
    (hi : Inv rf s ups) (hv : v ≤ U64_MAX) : Inv rf (update rf s v c).1 (ups ++ [(v, c)]) := by
  have hq := quorum_pos rf
  unfold update
  simp only []
  by_cases h1 : v ≤ s.wm
  · simp only [h1, if_true]
    refine ⟨hi.keys, ?_, ?_, hi.stop⟩
    · intro x hx
      have hx : s.wm < x := hx
      rw [maxc_snoc]
      have : ¬ v = x := by omega
      simp only [this, if_false]
      exact hi.stored x hx
    · intro x hx1 hx2
      have hx2 : x ≤ s.wm := hx2
      have := hi.below x hx1 hx2
      rw [maxc_snoc]; split <;> omega
  · simp only [h1, if_false]
    generalize hold : (mget s.unc v).getD { count := 0, attempts := 0 } = old
    have holdc : old.count = cntOf s.unc v := by
      rw [← hold]; unfold cntOf
      cases mget s.unc v <;> rfl
    generalize hm : mset s.unc v { count := max old.count c, attempts := satAddU8 old.attempts 1 } = unc1
    have hkeys1 : KeysLe unc1 U64_MAX := by rw [← hm]; exact keysLe_mset _ _ _ _ hi.keys hv
    have hstored1 : ∀ x, s.wm < x → cntOf unc1 x = maxc (ups ++ [(v, c)]) x := by
      intro x hx
      rw [← hm, cntOf_mset, maxc_snoc]
      by_cases hxv : x = v
      · subst hxv; simp only [if_true]; rw [holdc, hi.stored x hx]
      · have : ¬ v = x := fun e => hxv e.symm
        simp only [hxv, this, if_false]; exact hi.stored x hx
    have hbelow1 : ∀ x, 1 ≤ x → x ≤ s.wm → quorum rf ≤ maxc (ups ++ [(v, c)]) x := by
      intro x hx1 hx2
      have := hi.below x hx1 hx2
      rw [maxc_snoc]; split <;> omega
    have hstop := scan_stop' unc1 (quorum rf) s.wm hkeys1
    have hmono := scan_mono unc1 (quorum rf) (unc1.length + 1) s.wm
    generalize hw : scan unc1 (quorum rf) (unc1.length + 1) s.wm = w at hstop hmono
    by_cases hgt : w > s.wm
    · simp only [hgt, if_true]
      refine ⟨keysLe_mretain _ _ _ hkeys1, ?_, ?_, ?_⟩
      · intro x hx
        simp only [] at hx
        rw [cntOf_mretain _ _ _ hx]
        exact hstored1 x (by omega)
      · intro x hx1 hx2
        simp only [] at hx2
        by_cases hxs : x ≤ s.wm
        · exact hbelow1 x hx1 hxs
        · have hok := scan_ok unc1 (quorum rf) (unc1.length + 1) s.wm x (by omega) (by omega)
          rw [okAt_eq _ _ _ hq] at hok
          rw [← hstored1 x (by omega)]
          simpa using hok
      · simp only []
        rw [okAt_mretain _ _ _ _ (by omega)]
        exact hstop
    · simp only [hgt, if_false]
      have hweq : w = s.wm := by omega
      refine ⟨hkeys1, hstored1, hbelow1, ?_⟩
      simp only []
      rw [hweq] at hstop; exact hstop

theorem inv_runUps (rf : Nat) (ups : List (Nat × Nat)) : ∀ (s : PState) (ups0 : List (Nat × Nat)),
    Inv rf s ups0 → (∀ u ∈ ups, u.1 ≤ U64_MAX) → Inv rf (runUps rf s ups) (ups0 ++ ups) := by
  induction ups with
  | nil => intro s ups0 hi _; simpa [runUps] using hi
  | cons u rest ih =>
    intro s ups0 hi hr
    obtain ⟨v, c⟩ := u
    have h1 := inv_update rf s ups0 v c hi (hr (v, c) (by simp))
    have h2 := ih (update rf s v c).1 (ups0 ++ [(v, c)]) h1 (fun u hu => hr u (by simp [hu]))
    simpa [runUps, List.append_assoc] using h2

theorem inv_wm_eq_prefixLen (rf : Nat) (s : PState) (ups : List (Nat × Nat)) (hi : Inv rf s ups) :
    s.wm = prefixLen (quorum rf) ups := by
  apply isPrefixLen_unique _ _ _ _ (prefixLen_isPrefixLen (quorum rf) (quorum_pos rf) ups)
  constructor
  · intro v h1 h2
    simpa using hi.below v h1 h2
  · have := hi.stop
    rw [okAt_eq _ _ _ (quorum_pos rf), hi.stored _ (by omega)] at this
    exact this

theorem expand_inRange (r : Report) (h : r.inRange = true) : ∀ u ∈ r.expand, u.1 ≤ U64_MAX := by
  intro u hu
  simp only [Report.expand, List.mem_map, List.mem_range] at hu
  obtain ⟨i, hi, rfl⟩ := hu
  simp only [Report.inRange, decide_eq_true_eq] at h
  simp only []; omega

theorem flat_inRange (rs : List Report) (h : ∀ r ∈ rs, r.inRange = true) :
    ∀ u ∈ rs.flatMap Report.expand, u.1 ≤ U64_MAX := by
  intro u hu
  obtain ⟨r, hr, hur⟩ := List.mem_flatMap.mp hu
  exact expand_inRange r (h r hr) u hur

/-! ### persistence and re-initialisation -/

theorem mgrUpdate_st (e : Bool) (m : Mgr) (v c : Nat) :
    (mgrUpdate e m v c).1.st = (update m.rf m.st v c).1 ∧ (mgrUpdate e m v c).1.rf = m.rf := by
  unfold mgrUpdate
  simp only []
  split <;> simp

theorem mgrFold_st (f : Nat → Nat) (vs : List Nat) : ∀ m : Mgr,
    (vs.foldl (fun m v => (mgrUpdate false m v (f v)).1) m).st
      = vs.foldl (fun s v => (update m.rf s v (f v)).1) m.st := by
  induction vs with
  | nil => intro m; rfl
  | cons v rest ih =>
    intro m
    simp only [List.foldl_cons]
    rw [ih, (mgrUpdate_st false m v (f v)).1, (mgrUpdate_st false m v (f v)).2]

theorem foldUpdate_mono (rf : Nat) (f : Nat → Nat) (vs : List Nat) : ∀ s : PState,
    s.wm ≤ (vs.foldl (fun s v => (update rf s v (f v)).1) s).wm := by
  induction vs with
  | nil => intro s; exact Nat.le_refl _
  | cons v rest ih =>
    intro s
    have h1 := update_mono rf s v (f v)
    have h2 := ih (update rf s v (f v)).1
    simp only [List.foldl_cons]; omega

/-- re-scanning versions `w0+1 ..` in order reaches every `P` up to which the scanned counts are
quorate — whatever stale entries the loaded state carried -/
theorem rescan_reaches (rf : Nat) (f : Nat → Nat) (P : Nat) : ∀ (n : Nat) (s : PState) (w0 : Nat),
    w0 ≤ s.wm → (∀ x, w0 < x → x ≤ P → quorum rf ≤ f x) →
    min P (w0 + n) ≤ ((List.range' (w0 + 1) n).foldl (fun s v => (update rf s v (f v)).1) s).wm := by
  intro n
  induction n with
  | zero => intro s w0 h _; simp only [List.range'_zero, List.foldl_nil]; omega
  | succ n ih =>
    intro s w0 h hf
    simp only [List.range'_succ, List.foldl_cons]
    by_cases hP : w0 + 1 ≤ P
    · have h1 : w0 + 1 ≤ (update rf s (w0 + 1) (f (w0 + 1))).1.wm := by
        by_cases hs : w0 + 1 ≤ s.wm
        · have := update_mono rf s (w0 + 1) (f (w0 + 1)); omega
        · exact update_next rf s (w0 + 1) _ (by omega) (hf _ (by omega) hP)
      have := ih (update rf s (w0 + 1) (f (w0 + 1))).1 (w0 + 1) h1 (fun x hx1 hx2 => hf x (by omega) hx2)
      omega
    · have h1 := update_mono rf s (w0 + 1) (f (w0 + 1))
      have h2 := foldUpdate_mono rf f (List.range' (w0 + 1 + 1) n) (update rf s (w0 + 1) (f (w0 + 1))).1
      omega

theorem diskCovers_mem (disk : List Nat) (ups : List (Nat × Nat)) (h : diskCovers disk ups = true)
    (v c : Nat) (hm : (v, c) ∈ ups) (hv : 1 ≤ v) : v ≤ disk.length ∧ c ≤ diskCount disk v := by
  unfold diskCovers at h
  have := (List.all_eq_true.mp h) (v, c) hm
  simp at this
  rcases this with h0 | h1
  · omega
  · exact h1

end SierraModel.Cluster
