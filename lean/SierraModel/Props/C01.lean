/-
C01 — "Once an append returns success, the append was fsynced, and every event of that transaction
is returned by event lookup … no matter which earlier or later appends were rejected or failed."

Model: `Bucket.clientAppend` = `appendTx` (write + reply) followed by the client's wait on the sync
watch of the segment written to (`wait_for(synced ≥ write_offset)`).  (Stream / partition scan
visibility is proved separately.)
-/
import SierraModel.Lemmas.StoreExamples

namespace SierraModel.C01
open SierraModel.Store

/-- (i) when the client-level append returns success, everything up to the reply's write offset is
fsynced, nothing is left unpublished, and every offset of the reply is a record of the live segment
that lies completely below the fsynced offset -/
theorem ack_implies_fsynced_and_published {b : Bucket} (hb : Reachable b) {tx : Tx} (ht : TxOk b tx)
    {b' : Bucket} {r : AppendOk} (h : b.clientAppend tx = (b', .ok r)) :
    b'.live.durable ≥ r.writeOff ∧ b'.live.pending = [] ∧
    ∀ o ∈ r.offsets, ∃ p ∈ b'.live.recs, p.off = o ∧ p.off + p.size ≤ b'.live.durable :=
  ack_fsynced hb.cinv.1 ht h

example : Reachable (Ex.b0.run Ex.ops1) ∧ TxOk (Ex.b0.run Ex.ops1) Ex.tx2 ∧
    ∃ b' r, (Ex.b0.run Ex.ops1).clientAppend Ex.tx2 = (b', .ok r) ∧ r.offsets = [148, 248, 348] :=
  ⟨⟨4096, false, Ex.ops1, by decide +kernel, rfl⟩, by decide +kernel, _, _, rfl, rfl⟩

/-- (i) the ack rule is sound in EVERY state reachable by raw steps (`appendTx` without waiting,
`sync`; also states with written but unsynced records): the value of the live segment's sync watch
never exceeds the fsynced length of THAT segment — so a client that sees `watch ≥ its write
offset` has its bytes fsynced — and the fsynced length never exceeds the written length -/
theorem ack_rule_sound {b : Bucket} (hb : RawReachable b) :
    b.live.watch ≤ b.live.durable ∧ b.live.durable ≤ b.live.writeOff :=
  ⟨hb.inv.watch_le, hb.inv.durable_le⟩

-- non-vacuity: a raw history ending in a state with unsynced records, across a rollover
example : RawReachable (Ex.bSmall.rawRun [.appendTx Ex.tx1, .appendTx Ex.tx2, .sync, .appendTx Ex.tx3]) ∧
    (Ex.bSmall.rawRun [.appendTx Ex.tx1, .appendTx Ex.tx2, .sync, .appendTx Ex.tx3]).live.watch = 48 ∧
    (Ex.bSmall.rawRun [.appendTx Ex.tx1, .appendTx Ex.tx2, .sync, .appendTx Ex.tx3]).live.writeOff = 285 ∧
    (Ex.bSmall.rawRun [.appendTx Ex.tx1, .appendTx Ex.tx2, .sync, .appendTx Ex.tx3]).sealed.length = 1 :=
  ⟨⟨600, false, _, by decide +kernel, rfl⟩, rfl, rfl, rfl⟩

/-- (ii) every event of an acknowledged transaction is found by event lookup in every later
reachable state (any further valid operations, accepted, rejected or failed): the lookup of the
`i`-th event returns that event and its later siblings with their offsets, where `evs` are the
events the specification assigned to the transaction -/
theorem acked_event_lookup {b : Bucket} (hb : Reachable b) {tx : Tx} (ht : TxOk b tx)
    {b' : Bucket} {r : AppendOk} (h : b.clientAppend tx = (b', .ok r))
    (ops : List Op) (ok : RunOk b' ops) (i : Nat) (hi : i < tx.events.length) :
    ∃ evs, Spec.append b.abs tx = .ok ({ txs := b.abs.txs ++ [evs] }, r.first, r.last) ∧
      evs.length = tx.events.length ∧ r.offsets.length = tx.events.length ∧
      (b'.run ops).readTransaction (tx.events[i]).eid = some ((evs.zip r.offsets).drop i) :=
  acked_lookup hb.cinv.1 hb.cinv.2 ht h ops ok i hi

-- non-vacuity: later ops contain a rejected append, a too-large one and an accepted one
example : Reachable (Ex.b0.run [.append Ex.tx1]) ∧ TxOk (Ex.b0.run [.append Ex.tx1]) Ex.tx2 ∧
    ∃ b' r, (Ex.b0.run [.append Ex.tx1]).clientAppend Ex.tx2 = (b', .ok r) ∧
      RunOk b' [.append Ex.txBad, .append Ex.txBig, .flushPoll, .append Ex.tx3] ∧
      ((b'.run [.append Ex.txBad, .append Ex.txBig, .flushPoll, .append Ex.tx3]).readTransaction 3).map
        (·.map (fun x => (x.1.eid, x.2))) = some [(3, 248), (4, 348)] :=
  ⟨⟨4096, false, _, by decide +kernel, rfl⟩, by decide +kernel, _, _, rfl, by decide +kernel, rfl⟩

end SierraModel.C01
