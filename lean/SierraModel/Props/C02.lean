/-
C02 — "An append is accepted iff every event's expected version holds against the stream state
(including earlier events of the same transaction), the stream's partition key matches, and the
expected partition sequence holds.  A rejected append changes nothing observable.  An accepted one
gets the next partition sequences and stream versions, which the latest-version and
latest-sequence queries then return."

Model: `SierraModel/Store/{Model,Read,Spec}.lean`; specification `Spec.append` on the abstraction
`Bucket.abs`.  All statements are over every state reachable from a fresh bucket by a valid
client-level history (`Reachable`: `Op.append` = `clientAppend`, `Op.flushPoll` = `sync`; validity
`RunOk`/`TxOk` only asks for fresh ids, non-empty transactions, positive stored sizes) and every
valid request, by induction over the history (invariant `Inv`, `Lemmas/StoreInv.lean`).
-/
import SierraModel.Lemmas.StoreExamples

namespace SierraModel.C02
open SierraModel.Store

/-- (a) an accepted append is accepted by the specification, the new state abstracts to the
specification's new state, the reply carries the first/last sequence, and `versions` lists exactly
the streams of the transaction, each with its latest version in the new state -/
theorem accepted_implies_spec {b : Bucket} (hb : Reachable b) {tx : Tx} (ht : TxOk b tx) {r : AppendOk}
    (h : (b.clientAppend tx).2 = .ok r) :
    ∃ s', Spec.append b.abs tx = .ok (s', r.first, r.last) ∧ (b.clientAppend tx).1.abs = s' ∧
      (∀ st w, (st, w) ∈ r.versions → s'.streamLatest st = some (tx.pkey, w)) ∧
      (∀ e ∈ tx.events, ∃ w, (e.stream, w) ∈ r.versions) := by
  have hx : b.clientAppend tx = ((b.clientAppend tx).1, .ok r) := by rw [← h]
  obtain ⟨vs, _, _, happ, habs, _⟩ := accepted_spec hb.cinv.1 ht hx
  have hv := versions_spec hb.cinv.1 ht hx
  exact ⟨_, happ, habs, by rw [← habs]; exact hv.1, hv.2⟩

example : Reachable (Ex.b0.run Ex.ops1) ∧ TxOk (Ex.b0.run Ex.ops1) Ex.tx2 ∧
    ((Ex.b0.run Ex.ops1).clientAppend Ex.tx2).2 =
      .ok { first := 1, last := 3, versions := [(10, 2), (11, 0)], offsets := [148, 248, 348], writeOff := 485 } :=
  ⟨⟨4096, false, Ex.ops1, by decide +kernel, rfl⟩, by decide +kernel, rfl⟩

/-- (b) whatever the specification rejects, the implementation rejects (possibly reporting another
class first, e.g. `tooLarge`) -/
theorem spec_rejects_implies_rejected {b : Bucket} (hb : Reachable b) {tx : Tx} (ht : TxOk b tx) {e : Err}
    (h : Spec.append b.abs tx = .error e) : ∃ e', (b.clientAppend tx).2 = .error e' :=
  spec_rejects hb.cinv.1 ht h

example : Reachable (Ex.b0.run [.append Ex.tx1]) ∧ TxOk (Ex.b0.run [.append Ex.tx1]) Ex.txBad ∧
    Spec.append (Ex.b0.run [.append Ex.tx1]).abs Ex.txBad = .error .wrongVersion :=
  ⟨⟨4096, false, [.append Ex.tx1], by decide +kernel, rfl⟩, by decide +kernel, rfl⟩

/-- (c) the implementation only rejects for space (`tooLarge`, `full`) or when the specification
rejects -/
theorem rejected_only_for_spec_or_space {b : Bucket} (hb : Reachable b) {tx : Tx} (ht : TxOk b tx) {e : Err}
    (h : (b.clientAppend tx).2 = .error e) :
    e ∈ [Err.tooLarge, Err.full] ∨ ∃ e', Spec.append b.abs tx = .error e' :=
  (rejected_cases hb.cinv.1 ht h).2

example : Reachable (Ex.b0.run Ex.ops1) ∧ TxOk (Ex.b0.run Ex.ops1) Ex.txBig ∧
    ((Ex.b0.run Ex.ops1).clientAppend Ex.txBig).2 = .error .tooLarge ∧
    (∃ x, Spec.append (Ex.b0.run Ex.ops1).abs Ex.txBig = .ok x) :=
  ⟨⟨4096, false, Ex.ops1, by decide +kernel, rfl⟩, by decide +kernel, rfl, ⟨_, rfl⟩⟩

/-- (d) a rejected append changes nothing observable: same abstraction, same event lookup, same
latest stream version, same latest partition sequence — even if the rejected append rolled the
segment over -/
theorem rejected_changes_nothing {b : Bucket} (hb : Reachable b) {tx : Tx} (ht : TxOk b tx) {e : Err}
    (h : (b.clientAppend tx).2 = .error e) :
    (b.clientAppend tx).1.abs = b.abs ∧
    (∀ eid, (b.clientAppend tx).1.readTransaction eid = b.readTransaction eid) ∧
    (∀ stream, (b.clientAppend tx).1.streamVersion stream = b.streamVersion stream) ∧
    (∀ pid, (b.clientAppend tx).1.partitionSequence pid = b.partitionSequence pid) := by
  obtain ⟨hi, hs⟩ := hb.cinv
  rcases (rejected_cases hi ht h).1 with e1 | e1 <;> rw [e1]
  · exact ⟨rfl, fun _ => rfl, fun _ => rfl, fun _ => rfl⟩
  · have hi' := inv_preRoll hi tx
    have hs' := synced_preRoll hs tx
    refine ⟨abs_preRoll b tx, ?_, ?_, ?_⟩
    · intro eid
      rw [readTransaction_eq hi' hs', readTransaction_eq hi hs, readTx_preRoll]
    · intro st
      rw [streamVersion_eq hi' hs', streamVersion_eq hi hs, abs_preRoll]
    · intro pid
      rw [partitionSequence_eq hi' hs', partitionSequence_eq hi hs, abs_preRoll]

-- non-vacuity: a rejected append (wrong sequence) that DID roll the segment over
example : Reachable (Ex.bSmall.run [.append Ex.tx1, .append Ex.tx2]) ∧
    TxOk (Ex.bSmall.run [.append Ex.tx1, .append Ex.tx2]) { Ex.tx3 with expectedSeq := .exact 0 } ∧
    ((Ex.bSmall.run [.append Ex.tx1, .append Ex.tx2]).clientAppend { Ex.tx3 with expectedSeq := .exact 0 }).2
      = .error .wrongSeq ∧
    ((Ex.bSmall.run [.append Ex.tx1, .append Ex.tx2]).clientAppend { Ex.tx3 with expectedSeq := .exact 0 }).1.sealed.length = 1 ∧
    (Ex.bSmall.run [.append Ex.tx1, .append Ex.tx2]).sealed.length = 0 :=
  ⟨⟨600, false, _, by decide +kernel, rfl⟩, by decide +kernel, rfl, rfl, rfl⟩

/-- (e) the latest-version and latest-sequence queries return what the specification says -/
theorem latest_queries_match_spec {b : Bucket} (hb : Reachable b) :
    (∀ stream, b.streamVersion stream = Spec.streamLatest b.abs stream) ∧
    (∀ pid, b.partitionSequence pid =
      (if Spec.nextSeq b.abs pid = 0 then none else some (Spec.nextSeq b.abs pid - 1))) :=
  ⟨streamVersion_eq hb.cinv.1 hb.cinv.2, partitionSequence_eq hb.cinv.1 hb.cinv.2⟩

example : Reachable (Ex.b0.run [.append Ex.tx1, .append Ex.txBad, .append Ex.tx2]) ∧
    (Ex.b0.run [.append Ex.tx1, .append Ex.txBad, .append Ex.tx2]).streamVersion 10 = some (7, 2) ∧
    (Ex.b0.run [.append Ex.tx1, .append Ex.txBad, .append Ex.tx2]).partitionSequence 1 = some 3 :=
  ⟨⟨4096, false, _, by decide +kernel, rfl⟩, rfl, rfl⟩

end SierraModel.C02
