/-
C03 — scans of a stream or partition (`Bucket.scan`, the model of `BucketIter` / `SegmentIter`).

Forward scans from any start position return exactly the stored events of the key at or after that
position, each once, in strictly increasing gapless position order, never an event of another
stream / partition.  Reverse scans return exactly the events at or before the position, as a SET,
grouped by transaction, groups in decreasing order.  The result is a function of the abstract state
(`Bucket.abs`) only, hence the same whether the events live in the open segment, in sealed segments,
or are read after a rollover / reopen.  The scan never fails.  Batch sizes only cut the group list.

Quantifier: EVERY bucket `b` with `Inv b`, `Synced b` and `TxPidOk b.abs`; every `ScanCfg` (stream
or partition); every start position.  `reachable_hyps`: all three hold in every state reachable from
`Bucket.new` by client-level operations with fresh ids.

Definitions (Lemmas/ScanNum.lean, ScanBucket.lean, ScanRevPass2.lean):
* `ScanCfg.mine c e`   — `e` belongs to the scanned key (`e.stream = key` resp. `e.pid = key`);
* `keyEvents s c`      — `s.events.filter c.mine`: the key's events in specification order
                          (`keyEvents_spec`: the same as filtering with `c.keep` and the partition);
* `TxPidOk s`          — every transaction of `s` lies in one partition;
* `GoodGroup b c g`    — `g ≠ []` and `g` is a contiguous run (`<:+:`) of the key's events of ONE
                          committed transaction;
* `headsPos c G`       — positions of the first events of the groups `G`.

FINDINGS
(F-a) `Inv ∧ Synced` do NOT imply the partition-scan statement: `Inv` does not say that a
      transaction stays in one partition, and a partition scan keeps every event of a group it reads
      (`ScanCfg.keep = true`).  `forward_exact_needs_txPid_counterexample`: a hand-built bucket with
      `Inv`, `Synced` whose partition scan returns an event of another partition.  Corrected version:
      the extra hypothesis `TxPidOk`, an invariant of all reachable states (`reachable_hyps`).
(F-b) Reverse scans start with `next_segment_id = u32::MAX` (`2^32 - 1` in the model): the theorems
      about reverse scans assume `b.sealed.length < 2^32` (segment ids are `u32` in the
      implementation; `reachable_hyps`: true after fewer than `2^32` operations).  Without it the
      model's first `newInner` call skips the live segment and every sealed segment with a larger id.
(F-c) The documented reverse quirk is real but harmless: after the oldest segment holding the key is
      exhausted, `newInner` can fall back to the live segment (its last `liveKey` branch ignores
      `nextSeg`); this happens exactly when the key lives only in the live segment and sealed
      segments exist, and it repeats ONE group: the singleton of the key's first event (position 0).
      `reverse_order` pins this down (`extra = [0]`), `reverse_repeats_example` exhibits it.  The quirk
      never returns an event beyond `fromPos` and never loops (`reverse_exact`, `scan_never_fails`).
(F-d) In reverse a group read in the middle of a transaction is the suffix of the transaction from
      that event, cut at the upper bound: a transaction with `k` events of the key yields `k` groups,
      each repeating the later events (`reverse_order`: one group per event at or below `fromPos`).
-/
import SierraModel.Lemmas.ScanExample

namespace SierraModel.C03
open SierraModel.Store SierraModel.Version

/-- the hypotheses of all theorems below hold in every reachable state -/
theorem reachable_hyps (segSize : Nat) (cmp : Bool) (ops : List Op) (hr : RunOk (Bucket.new segSize cmp) ops) :
    Inv ((Bucket.new segSize cmp).run ops) ∧ Synced ((Bucket.new segSize cmp).run ops) ∧
      TxPidOk ((Bucket.new segSize cmp).run ops).abs ∧
      ((Bucket.new segSize cmp).run ops).sealed.length ≤ ops.length := by
  obtain ⟨h1, h2, h3⟩ := scan_hyps_reachable segSize cmp ops hr
  refine ⟨h1, h2, h3, ?_⟩
  have := sealed_len_run ops _ (inv_new segSize cmp) hr
  simpa [Bucket.new] using this

/-- `keyEvents` as in the informal statement: the scan filter plus the partition -/
theorem keyEvents_spec (s : Spec) (c : ScanCfg) :
    keyEvents s c = s.events.filter (fun e => c.keep e && (if c.isStream then true else e.pid == c.key)) := by
  unfold keyEvents
  exact List.filter_congr (fun e _ => mine_eq c e)

/-! ### (1) forward scans -/

/-- (1) a forward scan returns exactly the key's events at or after `fromPos`, in storage order -/
theorem forward_exact {b : Bucket} (h : Inv b) (hs : Synced b) (hp : TxPidOk b.abs) (c : ScanCfg) (fromPos : Nat) :
    ∃ groups, b.scan c .fwd fromPos = .ok groups ∧
      groups.flatten = (keyEvents b.abs c).filter (fun e => decide (fromPos ≤ c.pos e)) := by
  obtain ⟨G, h1, h2, _⟩ := scan_fwd h hs hp c fromPos
  exact ⟨G, h1, h2⟩

/-! ### (2) consequences of (1) and the numbering invariants -/

/-- (2a) positions of the result: `fromPos, fromPos + 1, …` — it starts at `fromPos`, is strictly
increasing and has no gaps; its length is the number of the key's events minus `fromPos` -/
theorem forward_positions {b : Bucket} (h : Inv b) (hs : Synced b) (hp : TxPidOk b.abs) (c : ScanCfg) (fromPos : Nat)
    {groups : List (List Ev)} (hg : b.scan c .fwd fromPos = .ok groups) :
    groups.flatten.map c.pos = List.range' fromPos groups.flatten.length ∧
      groups.flatten.length = (keyEvents b.abs c).length - fromPos := by
  obtain ⟨G, h1, h2, _⟩ := scan_fwd h hs hp c fromPos
  rw [hg] at h1; cases h1
  rw [h2]
  refine ⟨fwd_positions h c fromPos, ?_⟩
  rw [keyEvents_filter_ge h]; simp

/-- (2b) strictly increasing -/
theorem forward_increasing {b : Bucket} (h : Inv b) (hs : Synced b) (hp : TxPidOk b.abs) (c : ScanCfg) (fromPos : Nat)
    {groups : List (List Ev)} (hg : b.scan c .fwd fromPos = .ok groups) :
    groups.flatten.Pairwise (fun e1 e2 => c.pos e1 < c.pos e2) := by
  apply pairwise_of_map
  rw [(forward_positions h hs hp c fromPos hg).1]
  exact range'_pairwise_lt _ _

/-- (2c) gapless: consecutive positions differ by one; the first position is `fromPos` -/
theorem forward_gapless {b : Bucket} (h : Inv b) (hs : Synced b) (hp : TxPidOk b.abs) (c : ScanCfg) (fromPos : Nat)
    {groups : List (List Ev)} (hg : b.scan c .fwd fromPos = .ok groups) (i : Nat) (hi : i < groups.flatten.length) :
    c.pos groups.flatten[i] = fromPos + i := by
  have h1 := (forward_positions h hs hp c fromPos hg).1
  have h2 : (groups.flatten.map c.pos)[i]? = some (c.pos groups.flatten[i]) := by
    rw [List.getElem?_map, List.getElem?_eq_getElem hi]; rfl
  rw [h1, List.getElem?_range' hi] at h2
  have := Option.some.inj h2
  omega

/-- (2d) never an event of another stream / partition, only stored events -/
theorem forward_only_key {b : Bucket} (h : Inv b) (hs : Synced b) (hp : TxPidOk b.abs) (c : ScanCfg) (fromPos : Nat)
    {groups : List (List Ev)} (hg : b.scan c .fwd fromPos = .ok groups) :
    ∀ e ∈ groups.flatten, e ∈ b.abs.events ∧ fromPos ≤ c.pos e ∧
      (if c.isStream then e.stream = c.key else e.pid = c.key) := by
  obtain ⟨G, h1, h2, _⟩ := scan_fwd h hs hp c fromPos
  rw [hg] at h1; cases h1
  intro e he
  rw [h2, List.mem_filter] at he
  obtain ⟨h3, h4⟩ := he
  unfold keyEvents at h3
  rw [List.mem_filter] at h3
  refine ⟨h3.1, by simpa using h4, ?_⟩
  have := h3.2
  unfold ScanCfg.mine at this
  cases hc : c.isStream <;> simp [hc] at this ⊢ <;> exact this

/-- (2e) no duplicates -/
theorem forward_nodup {b : Bucket} (h : Inv b) (hs : Synced b) (hp : TxPidOk b.abs) (c : ScanCfg) (fromPos : Nat)
    {groups : List (List Ev)} (hg : b.scan c .fwd fromPos = .ok groups) : groups.flatten.Nodup := by
  have := forward_increasing h hs hp c fromPos hg
  exact this.imp (fun hlt heq => by rw [heq] at hlt; exact Nat.lt_irrefl _ hlt)

/-- (2f) no group is empty; every group is a suffix of the key's events of ONE committed
transaction (the whole of them, except possibly for the first group when `fromPos` falls inside a
transaction); as `groups.flatten` is gapless, the groups are contiguous runs -/
theorem forward_groups {b : Bucket} (h : Inv b) (hs : Synced b) (hp : TxPidOk b.abs) (c : ScanCfg) (fromPos : Nat)
    {groups : List (List Ev)} (hg : b.scan c .fwd fromPos = .ok groups) :
    ∀ g ∈ groups, g ≠ [] ∧ ∃ tx ∈ b.abs.txs, g <:+ tx.filter c.mine := by
  obtain ⟨G, h1, _, h3⟩ := scan_fwd h hs hp c fromPos
  rw [hg] at h1; cases h1
  exact h3

/-! ### (3) reverse scans -/

/-- (3a) a reverse scan returns exactly (as a set) the key's events at or before `fromPos` -/
theorem reverse_exact {b : Bucket} (h : Inv b) (hs : Synced b) (hp : TxPidOk b.abs) (hid : b.sealed.length < 2 ^ 32)
    (c : ScanCfg) (fromPos : Nat) :
    ∃ groups, b.scan c .rev fromPos = .ok groups ∧
      ∀ e, e ∈ groups.flatten ↔ e ∈ keyEvents b.abs c ∧ c.pos e ≤ fromPos := by
  obtain ⟨G, h1, h2, _⟩ := scan_rev h hs hp hid c fromPos
  exact ⟨G, h1, h2⟩

/-- (3b) no group is empty; every group is a contiguous run of the key's events of ONE committed
transaction (the events of that transaction from some event on, cut at `fromPos`) -/
theorem reverse_groups {b : Bucket} (h : Inv b) (hs : Synced b) (hp : TxPidOk b.abs) (hid : b.sealed.length < 2 ^ 32)
    (c : ScanCfg) (fromPos : Nat) {groups : List (List Ev)} (hg : b.scan c .rev fromPos = .ok groups) :
    ∀ g ∈ groups, g ≠ [] ∧ ∃ tx ∈ b.abs.txs, g <:+: tx.filter c.mine := by
  obtain ⟨G, h1, _, h3, _⟩ := scan_rev h hs hp hid c fromPos
  rw [hg] at h1; cases h1
  exact h3

/-- (3c) order of the groups: with `N` = number of the key's events at or before `fromPos`, the
first events of the groups have the positions `N-1, N-2, …, 0` — one group per event, strictly
decreasing — followed by at most one extra group whose first event has position 0 (the repetition
caused by the `newInner` fallback, F-c) -/
theorem reverse_order {b : Bucket} (h : Inv b) (hs : Synced b) (hp : TxPidOk b.abs) (hid : b.sealed.length < 2 ^ 32)
    (c : ScanCfg) (fromPos : Nat) {groups : List (List Ev)} (hg : b.scan c .rev fromPos = .ok groups) :
    ∃ extra, headsPos c groups =
        (List.range ((keyEvents b.abs c).filter (fun e => decide (c.pos e ≤ fromPos))).length).reverse ++ extra ∧
      (extra = [] ∨ extra = [0]) := by
  obtain ⟨G, h1, _, _, extra, h4, h5⟩ := scan_rev h hs hp hid c fromPos
  rw [hg] at h1; cases h1
  exact ⟨extra, by rw [h4, rev_count h c fromPos], h5⟩

/-! ### (4) independence of the segment layout -/

/-- (4a) two buckets with the same abstract state give the same forward result: the same before
and after a rollover or a reopen, whether the events are in the open or in sealed segments -/
theorem layout_independent_fwd {b₁ b₂ : Bucket} (h₁ : Inv b₁) (hs₁ : Synced b₁) (hp₁ : TxPidOk b₁.abs)
    (h₂ : Inv b₂) (hs₂ : Synced b₂) (habs : b₁.abs = b₂.abs) (c : ScanCfg) (fromPos : Nat) :
    ∃ g₁ g₂, b₁.scan c .fwd fromPos = .ok g₁ ∧ b₂.scan c .fwd fromPos = .ok g₂ ∧ g₁.flatten = g₂.flatten := by
  obtain ⟨g₁, a1, a2⟩ := forward_exact h₁ hs₁ hp₁ c fromPos
  obtain ⟨g₂, b1, b2⟩ := forward_exact h₂ hs₂ (habs ▸ hp₁) c fromPos
  exact ⟨g₁, g₂, a1, b1, by rw [a2, b2, habs]⟩

/-- (4b) … and the same set of events in reverse -/
theorem layout_independent_rev {b₁ b₂ : Bucket} (h₁ : Inv b₁) (hs₁ : Synced b₁) (hp₁ : TxPidOk b₁.abs)
    (hid₁ : b₁.sealed.length < 2 ^ 32) (h₂ : Inv b₂) (hs₂ : Synced b₂) (hid₂ : b₂.sealed.length < 2 ^ 32)
    (habs : b₁.abs = b₂.abs) (c : ScanCfg) (fromPos : Nat) :
    ∃ g₁ g₂, b₁.scan c .rev fromPos = .ok g₁ ∧ b₂.scan c .rev fromPos = .ok g₂ ∧
      ∀ e, e ∈ g₁.flatten ↔ e ∈ g₂.flatten := by
  obtain ⟨g₁, a1, a2⟩ := reverse_exact h₁ hs₁ hp₁ hid₁ c fromPos
  obtain ⟨g₂, b1, b2⟩ := reverse_exact h₂ hs₂ (habs ▸ hp₁) hid₂ c fromPos
  exact ⟨g₁, g₂, a1, b1, fun e => by rw [a2 e, b2 e, habs]⟩

/-! ### (5) the scan never fails -/

/-- (5) neither "event not found at offset" nor running out of fuel, in either direction -/
theorem scan_never_fails {b : Bucket} (h : Inv b) (hs : Synced b) (hp : TxPidOk b.abs) (c : ScanCfg) (fromPos : Nat) :
    (∀ err, b.scan c .fwd fromPos ≠ .error err) ∧
    (b.sealed.length < 2 ^ 32 → ∀ err, b.scan c .rev fromPos ≠ .error err) := by
  refine ⟨fun err he => ?_, fun hid err he => ?_⟩
  · obtain ⟨G, h1, _⟩ := forward_exact h hs hp c fromPos
    rw [he] at h1; cases h1
  · obtain ⟨G, h1, _⟩ := reverse_exact h hs hp hid c fromPos
    rw [he] at h1; cases h1

/-! ### findings -/

/-- (F-a) `Inv` and `Synced` alone are not enough for partition scans: in `cexBucket` (one
transaction with an event in partition 0 and one in partition 1; `Inv` and `Synced` hold, the state
is not reachable) the scan of partition 0 also returns the event of partition 1 -/
theorem forward_exact_needs_txPid_counterexample :
    Inv cexBucket ∧ Synced cexBucket ∧ ¬ TxPidOk cexBucket.abs ∧
    cexBucket.scan ⟨false, 0⟩ .fwd 0 = .ok [[cexE1, cexE2]] ∧
    (keyEvents cexBucket.abs ⟨false, 0⟩).filter (fun e => decide (0 ≤ (⟨false, 0⟩ : ScanCfg).pos e)) = [cexE1] ∧
    cexE2.pid ≠ 0 := by
  refine ⟨cex_inv, cex_synced, ?_, rfl, by decide, by decide⟩
  intro hp
  have := hp [cexE1, cexE2] (by decide) cexE1 (by decide) cexE2 (by decide)
  exact absurd this (by decide)

/-- (F-c) the reverse repetition: stream 13 lives only in the live segment of `exB` (three sealed
segments): its only event is returned twice -/
theorem reverse_repeats_example :
    scanEids (exB.scan ⟨true, 13⟩ .rev 5) = some [[9], [9]] ∧ (keyEvents exB.abs ⟨true, 13⟩).length = 1 := by
  decide

/-! ### non-vacuity: a concrete history with three rollovers and a mixed multi-stream transaction -/

example : RunOk (Bucket.new 300 false) exOps := by decide
example : exB.sealed.length = 3 ∧ exB.live.id = 3 := by decide
/-- the hypotheses of the theorems hold for `exB`, so e.g. `forward_exact` applies to it -/
example : ∃ groups, exB.scan ⟨true, 10⟩ .fwd 1 = .ok groups ∧
    groups.flatten = (keyEvents exB.abs ⟨true, 10⟩).filter (fun e => decide (1 ≤ (⟨true, 10⟩ : ScanCfg).pos e)) :=
  let ⟨h1, h2, h3, _⟩ := reachable_hyps 300 false exOps (by decide)
  forward_exact h1 h2 h3 _ _
/-- stream 10 from version 1: the mixed transaction 101 contributes events 2 and 4 (not 3) -/
example : scanEids (exB.scan ⟨true, 10⟩ .fwd 1) = some [[2, 4], [8]] := by decide
/-- partition 7 from sequence 2 (inside transaction 101): across three segments -/
example : scanEids (exB.scan ⟨false, 7⟩ .fwd 2) = some [[3, 4], [5], [8]] := by decide
example : scanEids (exB.scan ⟨false, 7⟩ .fwd 6) = some [] := by decide
/-- reverse: one group per event, a group repeats the later events of its transaction -/
example : scanEids (exB.scan ⟨false, 7⟩ .rev 4) = some [[5], [4], [3, 4], [2, 3, 4], [1]] := by decide
example : scanEids (exB.scan ⟨true, 10⟩ .rev U64_MAX) = some [[8], [4], [2, 4], [1]] := by decide
/-- the same history in one big segment: same abstract state, same scan results -/
example : exBig.sealed.length = 0 ∧ exBig.abs = exB.abs :=
  ⟨by decide, congrArg Spec.mk (by decide : exBig.abs.txs = exB.abs.txs)⟩
example : scanEids (exBig.scan ⟨false, 7⟩ .fwd 2) = some [[3, 4], [5], [8]] := by decide
example : scanEids (exBig.scan ⟨false, 7⟩ .rev 4) = some [[5], [4], [3, 4], [2, 3, 4], [1]] := by decide

end SierraModel.C03
