/-
C04 (model-level part) — `read_committed_events` returns exactly the committed siblings of the
event it is pointed at, never events of two transactions, never an empty group, and nothing for
events of a transaction whose commit record is missing (the crash state); the abstraction
(`committedOf`) ignores such a tail.

Segments are record lists with the committed-structure invariant of `Inv`: `Blocks` (a
concatenation of complete blocks: one flagged event, or ≥ 2 unflagged events of one transaction
followed by its commit record) and `Contig` (offsets contiguous, sizes positive).
-/
import SierraModel.Lemmas.StoreC04

namespace SierraModel.C04
open SierraModel.Store

/-- on a well-formed segment whose records all lie below the limit, reading at the offset of any
event `p` returns exactly `p` and its later siblings of the same block (with offsets), all of one
transaction -/
theorem read_committed_complete {s : Nat} {recs : List Placed} (hc : Contig s recs) (hbl : Blocks recs)
    {p : Placed} {e : Ev} (hp : p ∈ recs) (he : p.r = .ev e) (limit : Nat) (hl : endFrom s recs ≤ limit) :
    ∃ pre b1 b2 post, recs = pre ++ (b1 ++ p :: b2) ++ post ∧ Block (b1 ++ p :: b2) ∧
      readCommitted recs limit p.off = some (evOffs (p :: b2)) ∧
      (∀ x ∈ evOffs (p :: b2), x.1.tx = e.tx) := by
  obtain ⟨pre, b1, b2, post, rfl, hb, _⟩ := hbl.split_mem hp
  refine ⟨pre, b1, b2, post, rfl, hb, ?_, block_suffix_one_tx hb he⟩
  refine readCommitted_at hc hb he limit (Nat.le_trans ?_ hl)
  rw [endFrom_append s (pre ++ (b1 ++ p :: b2)) post]; exact le_endFrom _ _

/-- the same when the limit (flushed offset) only covers the segment up to the end of the block -/
theorem read_committed_at_block {s : Nat} {pre b1 b2 post : List Placed} {p : Placed} {e : Ev}
    (hc : Contig s (pre ++ (b1 ++ p :: b2) ++ post)) (hb : Block (b1 ++ p :: b2)) (he : p.r = .ev e)
    (limit : Nat) (hl : endFrom s (pre ++ (b1 ++ p :: b2)) ≤ limit) :
    readCommitted (pre ++ (b1 ++ p :: b2) ++ post) limit p.off = some (evOffs (p :: b2)) :=
  readCommitted_at hc hb he limit hl

/-- `readCommitted` never returns an empty group (for any record list, limit and offset) -/
theorem read_committed_never_empty (recs : List Placed) (limit off : Nat) :
    readCommitted recs limit off ≠ some [] :=
  readAux_ne_some_nil _ _ _

-- non-vacuity: the live segment of the example run; reading at the 2nd event of the 3-event transaction
example : Contig SEGMENT_HEADER_SIZE (Ex.b0.run [.append Ex.tx1, .append Ex.tx2]).live.recs ∧
    (Ex.b0.run [.append Ex.tx1, .append Ex.tx2]).live.recs.length = 5 ∧
    ((readCommitted (Ex.b0.run [.append Ex.tx1, .append Ex.tx2]).live.recs 485 248).map
      (·.map (fun x => (x.1.eid, x.2)))) = some [(3, 248), (4, 348)] :=
  ⟨by decide +kernel, rfl, rfl⟩

/-- the crash state: a well-formed list followed by events of a transaction whose commit record is
missing.  Reading at any of those events returns nothing (whatever the limit), and the abstraction
ignores them. -/
theorem uncommitted_tail_invisible {s : Nat} {good tail : List Placed} (hc : Contig s (good ++ tail))
    (hg : Blocks good) (ht : ∀ x ∈ tail, ∃ e, x.r = .ev e ∧ e.single = false) :
    (∀ q ∈ tail, ∀ limit, readCommitted (good ++ tail) limit q.off = none) ∧
    committedOf (good ++ tail) = committedOf good := by
  constructor
  · intro q hq limit
    obtain ⟨t1, t2, rfl⟩ := List.append_of_mem hq
    exact readCommitted_tail hc ht limit
  · rw [committedOf_blocks_append hg]
    have : committedOf tail = [] := committedAux_tail (t := 0) [] tail none [] ht
    rw [this, List.append_nil]

-- non-vacuity: the example segment with the commit record of the 3-event transaction cut off
example : (Ex.b0.run [.append Ex.tx1, .append Ex.tx2]).live.recs.length = 5 ∧
    Contig SEGMENT_HEADER_SIZE ((Ex.b0.run [.append Ex.tx1, .append Ex.tx2]).live.recs.take 4) ∧
    readCommitted ((Ex.b0.run [.append Ex.tx1, .append Ex.tx2]).live.recs.take 4) 448 248 = none ∧
    (committedOf ((Ex.b0.run [.append Ex.tx1, .append Ex.tx2]).live.recs.take 4)).length = 1 :=
  ⟨rfl, by decide +kernel, rfl, rfl⟩

end SierraModel.C04
