/-
C05 — crash while appending: reopening succeeds, the database equals the model after a prefix of
the attempted transactions that includes every acknowledged one, reads work, appends continue with
no gap and no reuse.

Quantifier: EVERY raw-reachable bucket `b` (`RawReachable`: from `Bucket.new segSize c` by any valid
raw history of `appendTx` — accepted, rejected, failed, with rollovers — and `sync` steps, i.e. also
the states between an append's write and its sync) and EVERY cut `b.live.durable ≤ cut` (the bytes
below the fsynced offset survive; any prefix of the rest may survive).  Record level: a torn record
does not parse (hypothesis Hcrc, C17 + the harness).

Ghost "acknowledged" (`Bucket.acked`): the transactions of the sealed segments and those whose
records lie entirely below `live.durable` (= the `pre` part of `Inv.live_split`, `acked_eq_pre`).
C01 (`ack_fsynced`) shows a client acknowledgement implies this; `acked_monotone` shows it is never
lost along a raw history; in a synced state everything is acknowledged (`acked_of_synced`).
-/
import SierraModel.Lemmas.RecovReach

namespace SierraModel.C05
open SierraModel.Store

/-! ### the ghost notion "acknowledged" -/

theorem acked_eq_pre {b : Bucket} (hr : RawReachable b) : ∃ pre post, b.live.recs = pre ++ post ∧
    Blocks pre ∧ Blocks post ∧ b.live.durable = endFrom SEGMENT_HEADER_SIZE pre ∧
    b.live.index = hydrate pre ∧ b.acked = b.sealedTxs ++ committedOf pre := by
  obtain ⟨pre, post, e, h1, h2, h3, _, h5⟩ := hr.inv.live_split
  refine ⟨pre, post, e, h1, h2, h5, h3, ?_⟩
  unfold Bucket.acked; rw [hr.inv.durableRecs_eq e h5]

theorem acked_of_synced {b : Bucket} (hr : RawReachable b) (hs : Synced b) : b.acked = b.abs.txs :=
  synced_acked hr.inv hs

theorem acked_monotone {b : Bucket} (hr : RawReachable b) (ops : List RawOp) (hok : RawRunOk b ops) :
    b.acked <+: (b.rawRun ops).acked := acked_mono_rawRun ops b hr.inv hok

/-! ### (1) the recovered database is a committed prefix containing every acknowledged transaction -/

theorem recovered_is_committed_prefix {b : Bucket} (hr : RawReachable b) {cut : Nat}
    (hcut : b.live.durable ≤ cut) :
    ∃ k, (b.crashReopen cut).abs.txs = b.abs.txs.take k ∧ b.acked.length ≤ k ∧
      b.acked <+: (b.crashReopen cut).abs.txs := by
  obtain ⟨mid, tail, rest, e1, _, g0, g1, _, _, _, hre⟩ := crash_decomp hr.inv hcut
  have hsplit := abs_split_truncTo e1 (g0.append g1)
  have hacked : (b.crashReopen cut).abs.txs = b.acked ++ committedOf mid := by
    rw [hre, abs_truncTo, committedOf_blocks_append g0, ← List.append_assoc]; rfl
  refine ⟨(b.crashReopen cut).abs.txs.length, ?_, ?_, ?_⟩
  · rw [hsplit, ← hre, List.take_left]
  · rw [hacked, List.length_append]; exact Nat.le_add_right _ _
  · rw [hacked]; exact List.prefix_append _ _

/-- cut inside the transaction `blk` (anywhere from its first byte to just before the end of its
last record — for a multi-event transaction that is its commit record): exactly the transactions
before it are recovered; the torn transaction and its event ids are absent. -/
theorem torn_transaction_absent {b : Bucket} (hr : RawReachable b) {l1 blk l2 : List Placed}
    (e : b.live.recs = l1 ++ blk ++ l2) (h1 : Blocks l1) (hb : Block blk) {cut : Nat}
    (hge : endFrom SEGMENT_HEADER_SIZE l1 ≤ cut) (hlt : cut < endFrom SEGMENT_HEADER_SIZE (l1 ++ blk)) :
    (b.crashReopen cut).abs.txs = b.sealedTxs ++ committedOf l1 ∧
    b.abs.txs = (b.crashReopen cut).abs.txs ++ evsOf blk :: committedOf l2 ∧
    evsOf blk ∉ (b.crashReopen cut).abs.txs ∧
    ∀ ev ∈ evsOf blk, ev.eid ∉ (b.crashReopen cut).abs.events.map (·.eid) := by
  have hre := crash_in_block hr.inv e h1 hb hge hlt
  have e' : b.live.recs = l1 ++ (blk ++ l2) := by rw [e, List.append_assoc]
  have hsplit := abs_split_truncTo e' h1
  rw [committedOf_block_cons hb] at hsplit
  have hun : ∀ ev ∈ evsOf blk, ev.eid ∉ (b.truncTo l1).abs.events.map (·.eid) := by
    intro ev hev
    refine (dropped_unknown_ev hr.inv e' h1 (ev := ev) ?_).1
    rw [committedOf_block_cons hb, List.flatten_cons]
    exact List.mem_append_left _ hev
  rw [hre]
  refine ⟨abs_truncTo b l1, hsplit, ?_, hun⟩
  intro hin
  obtain ⟨ev, hev⟩ := List.exists_mem_of_ne_nil _ (evsOf_block_ne_nil hb)
  apply hun ev hev
  exact List.mem_map.2 ⟨ev, List.mem_flatten.2 ⟨_, hin, hev⟩, rfl⟩

/-! ### (2) the recovered state satisfies the invariant: reads and further appends follow the spec -/

theorem recovered_inv {b : Bucket} (hr : RawReachable b) {cut : Nat} (hcut : b.live.durable ≤ cut) :
    Inv (b.crashReopen cut) ∧ Synced (b.crashReopen cut) := by
  obtain ⟨mid, tail, rest, e1, _, g0, g1, _, _, _, hre⟩ := crash_decomp hr.inv hcut
  rw [hre]
  exact ⟨inv_truncTo hr.inv e1 (g0.append g1), synced_truncTo _ _⟩

/-- every point query on the recovered database is the specification's answer on the recovered
prefix (`readTx`: lookup of the event id in the segments' record lists, see `StoreQuery`) -/
theorem recovered_queries {b : Bucket} (hr : RawReachable b) {cut : Nat} (hcut : b.live.durable ≤ cut) :
    (∀ st, (b.crashReopen cut).streamVersion st = (b.crashReopen cut).abs.streamLatest st) ∧
    (∀ pid, (b.crashReopen cut).partitionSequence pid =
      (if (b.crashReopen cut).abs.nextSeq pid = 0 then none else some ((b.crashReopen cut).abs.nextSeq pid - 1))) ∧
    (∀ eid, (b.crashReopen cut).readTransaction eid = readTx (b.crashReopen cut).segs eid) := by
  obtain ⟨hi, hs⟩ := recovered_inv hr hcut
  exact ⟨streamVersion_eq hi hs, partitionSequence_eq hi hs, readTransaction_eq hi hs⟩

/-- no gap, no reuse: an append accepted after recovery is the specification's append on the
recovered prefix — it gets exactly the next partition sequences and (inside `Spec.append`) the next
stream versions (C02's `accepted_spec` on the recovered state). -/
theorem recovered_next_append {b : Bucket} (hr : RawReachable b) {cut : Nat} (hcut : b.live.durable ≤ cut)
    {tx : Tx} (ht : TxOk (b.crashReopen cut) tx) {b' : Bucket} {rep : AppendOk}
    (hx : (b.crashReopen cut).clientAppend tx = (b', .ok rep)) :
    ∃ vs, (b.crashReopen cut).abs.append tx =
        .ok ({ txs := (b.crashReopen cut).abs.txs ++ [newEvs (b.crashReopen cut) tx vs] }, rep.first, rep.last) ∧
      b'.abs = { txs := (b.crashReopen cut).abs.txs ++ [newEvs (b.crashReopen cut) tx vs] } ∧
      rep.first = (b.crashReopen cut).abs.nextSeq tx.pid ∧
      rep.last = (b.crashReopen cut).abs.nextSeq tx.pid + tx.events.length - 1 := by
  obtain ⟨hi, _⟩ := recovered_inv hr hcut
  obtain ⟨vs, _, _, happ, habs, _, hrep, _⟩ := accepted_spec hi ht hx
  have hn := preRoll_nextPartSeq hi tx tx.pid
  refine ⟨vs, happ, habs, ?_, ?_⟩
  · rw [hrep]; exact hn
  · rw [hrep]; show (Bucket.preRoll _ tx).nextPartSeq tx.pid + _ - 1 = _; rw [hn]

/-- rejections after recovery: whatever the specification rejects is rejected; a rejection is a
space error or a rejection by the specification (C02's `spec_rejects`, `rejected_cases`). -/
theorem recovered_next_append_rejected {b : Bucket} (hr : RawReachable b) {cut : Nat}
    (hcut : b.live.durable ≤ cut) {tx : Tx} (ht : TxOk (b.crashReopen cut) tx) :
    (∀ e, (b.crashReopen cut).abs.append tx = .error e →
      ∃ e', ((b.crashReopen cut).clientAppend tx).2 = .error e') ∧
    (∀ e, ((b.crashReopen cut).clientAppend tx).2 = .error e →
      (e ∈ [Err.tooLarge, Err.full] ∨ ∃ e', (b.crashReopen cut).abs.append tx = .error e')) := by
  obtain ⟨hi, _⟩ := recovered_inv hr hcut
  exact ⟨fun e he => spec_rejects hi ht he, fun e he => (rejected_cases hi ht he).2⟩

/-! ### (3) reopening is total; nothing orphan is indexed -/

/-- `Bucket.openFrom` / `crashReopen` / `reopen` / `reopenBlankNext` are total functions (structural
recursion only, no error result): reopening never fails in the model — the harness checks that the
implementation does not fail either.  What needs proof: the recovered indexes are exactly `hydrate`
of the kept records, the kept records are a `Blocks` prefix of the live records containing every
fsynced record (no orphan event indexed), and everything written is again fsynced. -/
theorem reopen_total {b : Bucket} (hr : RawReachable b) {cut : Nat} (hcut : b.live.durable ≤ cut) :
    (b.crashReopen cut).live.index = hydrate (b.crashReopen cut).live.recs ∧
    (b.crashReopen cut).live.pending = [] ∧
    (∀ s ∈ (b.crashReopen cut).sealed, s.index = hydrate s.recs) ∧
    Blocks (b.crashReopen cut).live.recs ∧
    (b.crashReopen cut).live.recs <+: b.live.recs ∧
    b.durableRecs <+: (b.crashReopen cut).live.recs ∧
    (b.crashReopen cut).live.durable = endFrom SEGMENT_HEADER_SIZE (b.crashReopen cut).live.recs ∧
    (b.crashReopen cut).live.writeOff = (b.crashReopen cut).live.durable := by
  obtain ⟨mid, tail, rest, e1, _, g0, g1, _, _, _, hre⟩ := crash_decomp hr.inv hcut
  have hi := (recovered_inv hr hcut).1
  rw [hre] at hi ⊢
  refine ⟨rfl, rfl, fun s hs => (hi.sealed_ok s hs).2.2.1, g0.append g1, ?_, ?_, rfl, rfl⟩
  · show b.durableRecs ++ mid <+: b.live.recs
    rw [e1]; exact List.prefix_append _ _
  · exact List.prefix_append _ _

/-- the surviving records (`b.surviving cut` = `b.live.recs.takeWhile (·.off + ·.size ≤ cut)`, the
argument of `openFrom` in `crashReopen`) are the kept records followed by a tail of events of ONE
multi-event transaction whose commit record `c` did not survive; none of these events is in the
recovered record lists, in a recovered index (live or sealed), or in the recovered abstraction. -/
theorem uncommitted_tail_dropped {b : Bucket} (hr : RawReachable b) {cut : Nat} (hcut : b.live.durable ≤ cut) :
    ∃ tail, b.surviving cut = (b.crashReopen cut).live.recs ++ tail ∧
      ∀ p ∈ tail, ∃ ev n c, p.r = .ev ev ∧ ev.single = false ∧
        c ∈ b.live.recs ∧ c.r = .commit ev.tx n ∧ c ∉ b.surviving cut ∧ (∀ q ∈ tail, IsEvOf ev.tx q) ∧
        p ∉ (b.crashReopen cut).allRecs ∧
        (∀ en ∈ (b.crashReopen cut).live.index, en.eid ≠ ev.eid) ∧
        (∀ s ∈ (b.crashReopen cut).sealed, ∀ en ∈ s.index, en.eid ≠ ev.eid) ∧
        ev.eid ∉ (b.crashReopen cut).abs.events.map (·.eid) := by
  obtain ⟨mid, tail, rest, e1, e2, g0, g1, g2, g3, ⟨y, hy⟩, hre⟩ := crash_decomp hr.inv hcut
  rw [hre]
  refine ⟨tail, e2, ?_⟩
  intro p hp
  rcases g3 with rfl | ⟨t, n, x, c, more, hrest, hcr, hall⟩
  · simp at hp
  · obtain ⟨ev, he, hs, ht⟩ := hall p (List.mem_append_left _ hp)
    have hprest : p ∈ rest := by rw [hrest]; simp [hp]
    obtain ⟨k1, k2, k3⟩ := dropped_unknown hr.inv e1 (g0.append g1) g2 hprest he
    have hcmem : c ∈ b.live.recs := by rw [e1, hrest]; simp
    have hcnot : c ∉ b.surviving cut := by
      have hc := hr.inv.live_contig
      have e3 : b.live.recs = ((b.durableRecs ++ mid) ++ tail ++ x) ++ c :: more := by
        rw [e1, hrest]; simp
      rw [e3] at hc
      have := contig_not_mem_prefix hc
      rw [e2]; intro hin; exact this (List.mem_append_left _ hin)
    refine ⟨ev, n, c, he, hs, hcmem, by rw [ht]; exact hcr, hcnot, ?_, k3, ?_, ?_, k1⟩
    · intro q hq; rw [ht]; exact hall q (List.mem_append_left _ hq)
    · intro en hen
      exact k2 en (by unfold Bucket.allIdx; simp [hen])
    · intro s hs' en hen
      refine k2 en ?_
      unfold Bucket.allIdx
      exact List.mem_append_left _ (List.mem_flatten.2 ⟨s.index, List.mem_map.2 ⟨s, hs', rfl⟩, hen⟩)

/-! ### (4) clean restart -/

/-- shutdown syncs, so every written record is kept — also from a raw state with written but not
yet synced (complete) blocks -/
theorem clean_restart {b : Bucket} (hr : RawReachable b) :
    b.reopen.abs = b.abs ∧ Inv b.reopen ∧ Synced b.reopen :=
  ⟨abs_reopen hr.inv, inv_reopen hr.inv, synced_reopen hr.inv⟩

/-! ### non-vacuity: concrete crash states (segment size 300) -/

section Examples
open SierraModel.Version

def nev (eid stream stored : Nat) : NewEv :=
  { eid := eid, stream := stream, expected := .any, tsOk := true, estimate := stored, stored := stored }
def tx1 : Tx := { pkey := 7, pid := 1, txId := 100, expectedSeq := .any, events := [nev 1 10 100] }
def tx2 : Tx := { pkey := 7, pid := 1, txId := 101, expectedSeq := .any, events := [nev 2 10 50, nev 3 11 50] }
def tx3 : Tx := { pkey := 7, pid := 1, txId := 102, expectedSeq := .any, events := [nev 4 10 100] }

/-- `tx1` written and synced (acknowledged), then the two-event `tx2` written, not yet synced:
records at 48..148 | 148..198, 198..248, commit 248..285; `durable = 148` -/
def exB : Bucket := (Bucket.new 300 false).rawRun [.appendTx tx1, .sync, .appendTx tx2]

theorem exB_reachable : RawReachable exB := ⟨300, false, _, by decide, rfl⟩

example : exB.live.durable = 148 ∧ exB.live.writeOff = 285 ∧ exB.acked.length = 1 ∧ exB.abs.txs.length = 2 := by
  decide
/-- cut between the last event of `tx2` and its commit record: both events survive on disk, the
transaction is dropped, the kept records / index / offsets are those of `tx1` alone -/
example : (exB.surviving 248).length = 3 ∧ (exB.crashReopen 248).abs.txs = exB.abs.txs.take 1 ∧
    (exB.crashReopen 248).live.recs.length = 1 ∧ (exB.crashReopen 248).live.index.length = 1 ∧
    (exB.crashReopen 248).live.writeOff = 148 := by decide
/-- cut inside the commit record -/
example : (exB.crashReopen 284).abs.txs = exB.abs.txs.take 1 := by decide
/-- the whole unsynced transaction reached the disk: it is recovered (k = 2 > number acknowledged) -/
example : (exB.crashReopen 285).abs.txs = exB.abs.txs := by decide
def ev1 : Ev := { eid := 1, pkey := 7, pid := 1, seq := 0, stream := 10, version := 0, tx := 100, single := true }
def ev2 : Ev := { eid := 2, pkey := 7, pid := 1, seq := 1, stream := 10, version := 1, tx := 101, single := false }
def ev3 : Ev := { eid := 3, pkey := 7, pid := 1, seq := 2, stream := 11, version := 0, tx := 101, single := false }

/-- the hypotheses of `torn_transaction_absent` are satisfiable (cut = 248) -/
example : ∃ l1 blk l2, exB.live.recs = l1 ++ blk ++ l2 ∧ Blocks l1 ∧ Block blk ∧
    endFrom SEGMENT_HEADER_SIZE l1 ≤ 248 ∧ 248 < endFrom SEGMENT_HEADER_SIZE (l1 ++ blk) := by
  refine ⟨[⟨48, 100, .ev ev1⟩], [⟨148, 50, .ev ev2⟩, ⟨198, 50, .ev ev3⟩] ++ [⟨248, 37, .commit 101 2⟩], [],
    by decide, ?_, ?_, by decide, by decide⟩
  · exact Blocks.cons _ [] (Block.single _ _ rfl rfl) Blocks.nil
  · refine Block.multi _ _ 101 (by decide) ?_ rfl
    intro p hp
    simp only [List.mem_cons, List.mem_nil_iff, or_false] at hp
    rcases hp with rfl | rfl <;> exact ⟨_, rfl, rfl, rfl⟩

/-- after a rollover (`tx3` does not fit): the sealed transactions are acknowledged, the unsynced
`tx3` in the new segment is lost by a cut inside its record, kept by a cut after it -/
def exR : Bucket := (Bucket.new 300 false).rawRun [.appendTx tx1, .sync, .appendTx tx2, .appendTx tx3]

theorem exR_reachable : RawReachable exR := ⟨300, false, _, by decide, rfl⟩

example : exR.sealed.length = 1 ∧ exR.live.durable = 48 ∧ exR.acked.length = 2 ∧ exR.abs.txs.length = 3 ∧
    (exR.crashReopen 100).abs.txs = exR.abs.txs.take 2 ∧ (exR.crashReopen 148).abs.txs = exR.abs.txs ∧
    exR.reopen.abs.txs = exR.abs.txs := by decide

end Examples

end SierraModel.C05
