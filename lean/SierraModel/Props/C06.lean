/-
C06 — crash after a segment was sealed but before its index files were completely written: the
database reopens and every acknowledged event of that segment is still found by id, stream and
partition.

Model: whatever the index files of a sealed segment hold, after reopening its index is
`hydrate s.recs` (`Bucket.openFrom`, `Bucket.reopenBlankNext`; the harness checks that the real code
rebuilds the three files for every truncation of them).  Quantifier: EVERY raw-reachable `b`.
-/
import SierraModel.Props.C05

namespace SierraModel.C06
open SierraModel.Store

/-! ### (5) the rebuilt index of a sealed segment is the complete one -/

theorem sealed_index_rebuilt_is_complete {b : Bucket} (hr : RawReachable b) :
    (∀ s ∈ b.sealed, hydrate s.recs = s.index) ∧
    b.reopen.sealed = b.sealed ∧ (∀ cut, (b.crashReopen cut).sealed = b.sealed) ∧
    b.reopenBlankNext.sealed =
      b.sealed ++ [{ id := b.live.id, recs := b.live.recs, index := hydrate b.live.recs }] :=
  ⟨fun s hs => ((hr.inv.sealed_ok s hs).2.2.1).symm, hr.inv.sealed_rebuild, fun _ => hr.inv.sealed_rebuild,
    reopenBlankNext_sealed hr.inv⟩

/-! ### (6) lookups after reopening -/

theorem scanLoop_nextSeq (b : Bucket) (ns : List (Nat × Nat)) (c : ScanCfg) (dir : Dir) :
    ∀ (fuel : Nat) (it : Option SegIter) (upper : Nat) (acc : List (List Ev)),
      scanLoop { b with nextSeq := ns } c dir fuel it upper acc = scanLoop b c dir fuel it upper acc
  | 0, _, _, _ => rfl
  | _ + 1, none, _, _ => rfl
  | fuel + 1, some it, upper, acc => by
    have h1 : ∀ id, segRecs { b with nextSeq := ns } id = segRecs b id := fun _ => rfl
    have h2 : ∀ p n k, newInner { b with nextSeq := ns } c dir p n k = newInner b c dir p n k :=
      fun _ _ _ => rfl
    have ih := scanLoop_nextSeq b ns c dir fuel
    simp only [scanLoop, h1, h2, ih]

/-- a clean restart of a synced bucket answers every read (point queries and scans) as before: the
reopened bucket IS the old one without its sequence cache -/
theorem reopen_preserves_lookups {b : Bucket} (hr : RawReachable b) (hs : Synced b) :
    b.reopen = { b with nextSeq := [] } ∧
    (∀ eid, b.reopen.readTransaction eid = b.readTransaction eid) ∧
    (∀ st, b.reopen.streamVersion st = b.streamVersion st) ∧
    (∀ pid, b.reopen.partitionSequence pid = b.partitionSequence pid) ∧
    (∀ c dir pos, b.reopen.scan c dir pos = b.scan c dir pos) := by
  have e := reopen_synced_eq hr.inv hs
  refine ⟨e, ?_, ?_, ?_, ?_⟩ <;> rw [e]
  · intro _; rfl
  · intro _; rfl
  · intro _; rfl
  · intro c dir pos
    unfold Bucket.scan
    exact scanLoop_nextSeq b [] c dir _ _ _ _

/-- the same after a crash of a synced bucket (nothing is unsynced, so nothing can be lost) -/
theorem crash_preserves_lookups {b : Bucket} (hr : RawReachable b) (hs : Synced b) {cut : Nat}
    (hcut : b.live.durable ≤ cut) :
    b.crashReopen cut = { b with nextSeq := [] } ∧
    (∀ eid, (b.crashReopen cut).readTransaction eid = b.readTransaction eid) ∧
    (∀ st, (b.crashReopen cut).streamVersion st = b.streamVersion st) ∧
    (∀ pid, (b.crashReopen cut).partitionSequence pid = b.partitionSequence pid) ∧
    (∀ c dir pos, (b.crashReopen cut).scan c dir pos = b.scan c dir pos) := by
  rw [crash_synced_eq hr.inv hs hcut]
  exact reopen_preserves_lookups hr hs

theorem hasBlock_of_sealed {r : Bucket} {S : List (List Placed)} {last : List (List Placed)}
    (hsegs : r.segs = S ++ last) {pre blk post : List Placed} (hm : pre ++ blk ++ post ∈ S) :
    HasBlock r pre blk := by
  obtain ⟨S1, S2, hS⟩ := List.append_of_mem hm
  exact ⟨S1, S2 ++ last, post, by rw [hsegs, hS]; simp⟩

/-- crash in ANY raw-reachable state (also with unsynced appends in the live segment), any cut:
every event of a sealed segment — all of them acknowledged — is found by id, with its later
siblings of the same transaction, exactly as `readTransaction` answers for a complete index. -/
theorem sealed_event_found_after_crash {b : Bucket} (hr : RawReachable b) {cut : Nat}
    (hcut : b.live.durable ≤ cut) {s : Sealed} (hs : s ∈ b.sealed) {pre b1 b2 post : List Placed}
    {p : Placed} {e : Ev} (hrecs : s.recs = pre ++ (b1 ++ p :: b2) ++ post) (hblk : Block (b1 ++ p :: b2))
    (he : p.r = .ev e) :
    (b.crashReopen cut).readTransaction e.eid = some (evOffs (p :: b2)) ∧
    b.reopen.readTransaction e.eid = some (evOffs (p :: b2)) := by
  have hm : pre ++ (b1 ++ p :: b2) ++ post ∈ b.sealed.map (·.recs) := by
    rw [← hrecs]; exact List.mem_map.2 ⟨s, hs, rfl⟩
  constructor
  · obtain ⟨hi, hsy⟩ := C05.recovered_inv hr hcut
    obtain ⟨mid, tail, rest, _, _, _, _, _, _, _, hre⟩ := crash_decomp hr.inv hcut
    have hsegs : (b.crashReopen cut).segs = b.sealed.map (·.recs) ++ [b.durableRecs ++ mid] := by
      rw [hre, segs_truncTo]
    exact readTransaction_at hi hsy (hasBlock_of_sealed hsegs hm) hblk he
  · exact readTransaction_at (inv_reopen hr.inv) (synced_reopen hr.inv)
      (hasBlock_of_sealed (segs_reopen hr.inv) hm) hblk he

/-- latest version of a stream / latest sequence of a partition after the crash: the specification's
answer on the recovered prefix, which contains every transaction of the sealed segments -/
theorem sealed_found_by_stream_and_partition {b : Bucket} (hr : RawReachable b) {cut : Nat}
    (hcut : b.live.durable ≤ cut) :
    (∀ st, (b.crashReopen cut).streamVersion st = (b.crashReopen cut).abs.streamLatest st) ∧
    (∀ pid, (b.crashReopen cut).partitionSequence pid =
      (if (b.crashReopen cut).abs.nextSeq pid = 0 then none else some ((b.crashReopen cut).abs.nextSeq pid - 1))) ∧
    b.sealedTxs <+: (b.crashReopen cut).abs.txs := by
  obtain ⟨h1, h2, _⟩ := C05.recovered_queries hr hcut
  obtain ⟨_, _, _, h3⟩ := C05.recovered_is_committed_prefix hr hcut
  exact ⟨h1, h2, List.IsPrefix.trans (List.prefix_append _ _) h3⟩

/-! ### (7) crash inside the creation of the next segment -/

/-- The crash state: a rollover was in progress, so the live segment is non-empty
(`rollover_from_nonempty`: a rollover needs `writeOff > SEGMENT_HEADER_SIZE`).  `Synced b` is not
needed for the statement (the rollover syncs first; `reopenBlankNext` re-indexes the whole segment). -/
theorem blank_next_segment {b : Bucket} (hi : Inv b) (hne : b.live.recs ≠ []) :
    b.reopenBlankNext.abs = b.abs ∧ Inv b.reopenBlankNext ∧ Synced b.reopenBlankNext :=
  ⟨abs_reopenBlankNext b, inv_reopenBlankNext hi hne, synced_reopenBlankNext b⟩

theorem rollover_from_nonempty {b : Bucket} (hr : RawReachable b)
    (hw : b.live.writeOff > SEGMENT_HEADER_SIZE) :
    b.live.recs ≠ [] ∧ b.reopenBlankNext.abs = b.abs ∧ Inv b.reopenBlankNext ∧ Synced b.reopenBlankNext :=
  ⟨hr.inv.live_ne_nil_of_gt hw, blank_next_segment hr.inv (hr.inv.live_ne_nil_of_gt hw)⟩

/-- Without `b.live.recs ≠ []` the `Inv` part is FALSE: `reopenBlankNext` seals an empty segment,
which `Inv.sealed_ok` forbids (rollovers never produce one).  Witness: the fresh bucket.  This state
is not a crash state of the implementation (no rollover starts from an empty segment). -/
theorem blank_next_segment_counterexample :
    Inv (Bucket.new 300 false) ∧ Synced (Bucket.new 300 false) ∧
    ¬ Inv ((Bucket.new 300 false).rawRun []).reopenBlankNext :=
  ⟨inv_new _ _, synced_new _ _, not_inv_reopenBlankNext_of_nil rfl⟩

/-- corrected statement for an arbitrary (possibly empty) live segment: the abstraction and
`Synced` always hold; `Inv` holds exactly when the live segment is non-empty -/
theorem blank_next_segment_general {b : Bucket} (hi : Inv b) :
    b.reopenBlankNext.abs = b.abs ∧ Synced b.reopenBlankNext ∧
    (Inv b.reopenBlankNext ↔ b.live.recs ≠ []) :=
  ⟨abs_reopenBlankNext b, synced_reopenBlankNext b,
    ⟨fun h hnil => not_inv_reopenBlankNext_of_nil hnil h, inv_reopenBlankNext hi⟩⟩

theorem segs_reopenBlankNext (b : Bucket) : b.reopenBlankNext.segs = b.segs ++ [[]] := by
  unfold Bucket.segs Bucket.reopenBlankNext
  simp only [List.map_append, List.map_map, List.map_cons, List.map_nil]
  rfl

/-- after the blank-next-segment recovery every point query answers as before the crash (the state
before the crash is the synced state the rollover had reached) -/
theorem blank_next_preserves_lookups {b : Bucket} (hi : Inv b) (hs : Synced b) (hne : b.live.recs ≠ []) :
    (∀ eid, b.reopenBlankNext.readTransaction eid = b.readTransaction eid) ∧
    (∀ st, b.reopenBlankNext.streamVersion st = b.streamVersion st) ∧
    (∀ pid, b.reopenBlankNext.partitionSequence pid = b.partitionSequence pid) := by
  obtain ⟨ha, hi', hs'⟩ := blank_next_segment hi hne
  refine ⟨?_, ?_, ?_⟩
  · intro eid
    rw [readTransaction_eq hi' hs', readTransaction_eq hi hs, segs_reopenBlankNext, readTx_snoc_nil]
  · intro st; rw [streamVersion_eq hi' hs', streamVersion_eq hi hs, ha]
  · intro pid; rw [partitionSequence_eq hi' hs', partitionSequence_eq hi hs, ha]

/-! ### non-vacuity -/

section Examples
open SierraModel.C05

/-- `exR`: one sealed segment (id 0) holding `tx1` and the two-event `tx2`, `tx3` unsynced in the
live segment; `exR.sync` is the state a later rollover starts from -/
example : RawReachable exR ∧ exR.sealed.length = 1 ∧ (exR.sealed.map (fun s => s.recs.length)) = [4] ∧
    (exR.sealed.map (fun s => decide (hydrate s.recs = s.index))) = [true] := ⟨exR_reachable, by decide⟩

/-- events 1, 2, 3 (sealed segment) are found after a crash that loses the unsynced `tx3` -/
example : ((exR.crashReopen 100).readTransaction 1).isSome ∧
    ((exR.crashReopen 100).readTransaction 2).map (·.length) = some 2 ∧
    ((exR.crashReopen 100).readTransaction 3).map (·.length) = some 1 ∧
    (exR.crashReopen 100).readTransaction 4 = none ∧
    (exR.crashReopen 100).streamVersion 10 = some (7, 1) ∧
    (exR.crashReopen 100).partitionSequence 1 = some 2 := by decide

/-- blank next segment after `tx3` was synced: two sealed segments, fresh live segment 2 -/
example : exR.sync.live.recs ≠ [] ∧ exR.sync.reopenBlankNext.sealed.length = 2 ∧
    exR.sync.reopenBlankNext.live.id = 2 ∧ exR.sync.reopenBlankNext.abs.txs = exR.abs.txs ∧
    (exR.sync.reopenBlankNext.readTransaction 4).isSome ∧
    exR.sync.reopenBlankNext.partitionSequence 1 = some 3 := by decide

end Examples

end SierraModel.C06
