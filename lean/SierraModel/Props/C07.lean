/-
C07 — cluster reads only expose the quorum-confirmed prefix of a partition.
Quantifier: EVERY partition log (any per-transaction confirmation counts, single- and multi-event
transactions), every watermark value `wm`, every replication factor, every request (event id,
start / end / count of the scans, stream), and every way `cut` the store may cut its batches.
Model: `Cluster/ReadGate.lean` — the five local read handlers of `ClusterActor` as the code is
after the C07 `fix:` commits.  `WmSound` is C08's soundness theorem taken as a named hypothesis
(the watermark never exceeds the definitional one); `SeqOk` says sequences are positions.
-/
import SierraModel.Lemmas.ReadGate

namespace SierraModel.C07
open SierraModel.Cluster SierraModel.Cluster.ReadGate

/-- C08 (`SierraModel.C08.sound`): the live watermark is at most the length of the longest prefix of
events carrying a quorum count -/
def WmSound (log : Log) (rf wm : Nat) : Prop := wm ≤ defWm log rf

/-- the log is the requested partition's own log: every event carries its partition id -/
def OwnLog (log : Log) (pid : Nat) : Prop := ∀ e ∈ log, e.part = pid

/-- "the quorum-confirmed prefix": every event with `seq < defWm` has a quorum count, and the event
at `defWm` (if any) has not -/
theorem defWm_spec (log : Log) (rf : Nat) (hs : SeqOk log) :
    (∀ e ∈ log, e.seq < defWm log rf → quorum rf ≤ e.count) ∧
    (∀ e ∈ log, e.seq = defWm log rf → e.count < quorum rf) := by
  refine ⟨fun e he h => defWm_quorate hs he h, ?_⟩
  intro e he h
  exact defWm_next_unquorate hs he h

/-! ### (a) only events below the watermark are revealed -/

/-- (a) ReadEvent: the returned event is an event of the log with `seq < wm` -/
theorem readEvent_below (log : Log) (wm rf id nf : Nat) (e : Ev)
    (h : readEvent log wm rf id nf = .ok (some e)) : e ∈ log ∧ e.seq = id ∧ e.seq < wm ∧ quorum rf ≤ e.count := by
  unfold readEvent at h
  split at h
  · simp at h
  · rename_i e' hf
    split at h
    · simp at h
    · rename_i hc
      split at h
      · simp at h
      · rename_i s1 hs1
        split at h
        · simp at h
        · rename_i hle
          simp only [Out.ok.injEq, Option.some.injEq] at h; subst h
          have hmem := List.mem_of_find?_eq_some hf
          have hid : e'.seq = id := by simpa using List.find?_some hf
          unfold addU64 at hs1
          split at hs1 <;> simp at hs1
          exact ⟨hmem, hid, by omega, by omega⟩

/-- (a) ReadPartition: every returned event is an event of the log inside the requested range with
`seq < wm` -/
theorem readPartition_below (cut : Nat → Nat) (log : Log) (wm start : Nat) (endSeq : Option Nat)
    (count : Nat) (r : Scan) (h : readPartition cut log wm start endSeq count = .ok r) :
    ∀ e ∈ r.events, e ∈ log ∧ e.seq < wm ∧ start ≤ e.seq ∧ (∀ en, endSeq = some en → e.seq ≤ en) := by
  unfold readPartition at h
  simp only at h
  split at h
  · simp only [Out.ok.injEq] at h; subst h; simp
  · split at h
    · simp at h
    · rename_i st hl
      simp only [Out.ok.injEq] at h; subst h
      simp only
      refine partLoop_acc (fun e => e ∈ log ∧ e.seq < wm ∧ start ≤ e.seq ∧ (∀ en, endSeq = some en → e.seq ≤ en))
        _ _ _ _ _ ?_ (by simp) hl
      intro e he h1 h2
      have := mem_fwdPart.mp he
      refine ⟨this.1, h1, this.2, ?_⟩
      intro en hen; subst hen
      simp only [effEndOf] at h2; omega

/-- (a) ReadStream: every returned event is an event of the requested stream, inside the requested
version range, with `seq < wm` -/
theorem readStream_below (cut : Nat → Nat) (log : Log) (pid wm stream start : Nat) (endVer : Option Nat)
    (count : Nat) (r : Scan) (h : readStream cut log pid wm stream start endVer count = .ok r) :
    ∀ e ∈ r.events, e ∈ log ∧ e.part = pid ∧ e.seq < wm ∧ e.stream = stream ∧ start ≤ e.version ∧
      (∀ en, endVer = some en → e.version ≤ en) := by
  unfold readStream at h
  simp only [Out.ok.injEq] at h; subst h
  simp only
  refine streamLoop_acc (fun e => e ∈ log ∧ e.part = pid ∧ e.seq < wm ∧ e.stream = stream ∧ start ≤ e.version ∧
      (∀ en, endVer = some en → e.version ≤ en)) _ _ _ _ ?_ (by simp)
  intro e he h0 h1 h2
  have := mem_fwdStream.mp he
  refine ⟨this.1, h0, h1, this.2.1, this.2.2, ?_⟩
  intro en hen; subst hen
  simpa [beyondEnd] using h2

/-- (a) GetStreamVersion: the answer is the version of an event of that stream with `seq < wm` -/
theorem getStreamVersion_below (cut : Nat → Nat) (log : Log) (pid wm stream v : Nat)
    (h : getStreamVersion cut log pid wm stream = .ok (some v)) :
    ∃ e ∈ log, e.part = pid ∧ e.stream = stream ∧ e.seq < wm ∧ e.version = v := by
  unfold getStreamVersion at h
  simp only [Out.ok.injEq] at h
  obtain ⟨e, he, h0, h1, h2⟩ := verLoop_some _ _ _ h
  have := mem_revStream he
  exact ⟨e, this.1, h0, this.2, h1, h2⟩

/-- (a) GetPartitionSequence: the answer is below the watermark -/
theorem getPartitionSequence_below (wm s : Nat) (h : getPartitionSequence wm = .ok (some s)) : s < wm := by
  unfold getPartitionSequence at h
  split at h <;> simp at h
  omega

/-- what a request reveals: the events of a scan / lookup reply -/
inductive Reveals (cut : Nat → Nat) (log : Log) (pid wm rf : Nat) : Ev → Prop where
  | event (id nf : Nat) (e : Ev) : readEvent log wm rf id nf = .ok (some e) → Reveals cut log pid wm rf e
  | partition (start : Nat) (endSeq : Option Nat) (count : Nat) (r : Scan) (e : Ev) :
      readPartition cut log wm start endSeq count = .ok r → e ∈ r.events → Reveals cut log pid wm rf e
  | stream (stream start : Nat) (endVer : Option Nat) (count : Nat) (r : Scan) (e : Ev) :
      readStream cut log pid wm stream start endVer count = .ok r → e ∈ r.events → Reveals cut log pid wm rf e

/-- (a) every event any handler returns is an event of the log with `seq < wm` -/
theorem revealed_below_watermark (cut : Nat → Nat) (log : Log) (pid wm rf : Nat) (e : Ev)
    (h : Reveals cut log pid wm rf e) : e ∈ log ∧ e.seq < wm := by
  cases h with
  | event id nf _ h => have := readEvent_below log wm rf id nf e h; exact ⟨this.1, this.2.2.1⟩
  | partition start endSeq count r _ h he =>
    have := readPartition_below cut log wm start endSeq count r h e he; exact ⟨this.1, this.2.1⟩
  | stream stream start endVer count r _ h he =>
    have := readStream_below cut log pid wm stream start endVer count r h e he; exact ⟨this.1, this.2.2.1⟩

/-- (a) with C08's soundness: every returned event lies in the quorum-confirmed prefix -/
theorem revealed_in_confirmed_prefix (cut : Nat → Nat) (log : Log) (pid wm rf : Nat) (hs : WmSound log rf wm)
    (e : Ev) (h : Reveals cut log pid wm rf e) : e ∈ log ∧ e.seq < defWm log rf := by
  have := revealed_below_watermark cut log pid wm rf e h
  exact ⟨this.1, Nat.lt_of_lt_of_le this.2 hs⟩

/-- (a) the two scalar answers: the stream version is the version of an event of the confirmed prefix,
the partition sequence is a sequence of the confirmed prefix -/
theorem scalar_answers_in_confirmed_prefix (cut : Nat → Nat) (log : Log) (pid wm rf : Nat) (hs : WmSound log rf wm) :
    (∀ stream v, getStreamVersion cut log pid wm stream = .ok (some v) →
      ∃ e ∈ log, e.stream = stream ∧ e.seq < defWm log rf ∧ e.version = v) ∧
    (∀ s, getPartitionSequence wm = .ok (some s) → s < defWm log rf) := by
  constructor
  · intro stream v h
    obtain ⟨e, he, _, h1, h2, h3⟩ := getStreamVersion_below cut log pid wm stream v h
    exact ⟨e, he, h1, Nat.lt_of_lt_of_le h2 hs, h3⟩
  · intro s h
    exact Nat.lt_of_lt_of_le (getPartitionSequence_below wm s h) hs

/-! ### (b) an event of a write that failed to reach quorum is never returned -/

/-- (b) under `WmSound`, an event whose transaction's count is below the quorum is revealed by no
handler, whatever the request -/
theorem unquorate_never_returned (cut : Nat → Nat) (log : Log) (pid wm rf : Nat) (hq : SeqOk log)
    (hs : WmSound log rf wm) (e : Ev) (hc : e.count < quorum rf) : ¬ Reveals cut log pid wm rf e := by
  intro h
  have := revealed_in_confirmed_prefix cut log pid wm rf hs e h
  have := defWm_quorate hq this.1 this.2
  omega

/-- (b) for the stream version: the event whose version is answered has a quorum count -/
theorem stream_version_of_quorate (cut : Nat → Nat) (log : Log) (pid wm rf stream v : Nat) (hq : SeqOk log)
    (hs : WmSound log rf wm) (h : getStreamVersion cut log pid wm stream = .ok (some v)) :
    ∃ e ∈ log, e.stream = stream ∧ e.version = v ∧ quorum rf ≤ e.count := by
  obtain ⟨e, he, h1, h2, h3⟩ := (scalar_answers_in_confirmed_prefix cut log pid wm rf hs).1 stream v h
  exact ⟨e, he, h1, h3, defWm_quorate hq he h2⟩

/-- (b) the event lookup refuses an unquorate event even WITHOUT `WmSound` (its own quorum gate) -/
theorem readEvent_quorate (log : Log) (wm rf id nf : Nat) (e : Ev)
    (h : readEvent log wm rf id nf = .ok (some e)) : quorum rf ≤ e.count :=
  (readEvent_below log wm rf id nf e h).2.2.2

/-! ### (c) `has_more = false` ⇒ no admissible event of the range was withheld -/

/-- (c) ReadPartition: if the reply says `has_more = false`, every event of the log that is
admissible (`seq < wm`) and inside the requested range `[start, end]` is in the reply — for every
count limit and every batch cutting.  (No `WmSound` needed.) -/
theorem readPartition_complete (cut : Nat → Nat) (log : Log) (wm start : Nat) (endSeq : Option Nat)
    (count : Nat) (r : Scan) (hq : SeqOk log)
    (h : readPartition cut log wm start endSeq count = .ok r) (hm : r.hasMore = false) :
    ∀ e ∈ log, start ≤ e.seq → (∀ en, endSeq = some en → e.seq ≤ en) → e.seq < wm → e ∈ r.events := by
  intro e he hs _ hw
  unfold readPartition at h
  simp only at h
  split at h
  · omega
  · split at h
    · simp at h
    · rename_i st hl
      simp only [Out.ok.injEq] at h; subst h
      simp only at hm ⊢
      have hF := fwdPart_consecutive hq start
      obtain ⟨h1, rem, h2⟩ := partLoop_inv hF _ _ _ _ _ (by simp) (by simp) hl
      have hlast : wm ≤ st.lastRead := by
        split at hm
        · omega
        · simp only [decide_eq_false_iff_not, Nat.not_le] at hm; omega
      -- the event of the scan at position `e.seq - start` was accumulated, and it is `e`
      have hk : e.seq - start < st.acc.length := by omega
      have hkF : e.seq - start < (fwdPart log start).flatten.length := by
        rw [← h2, List.length_append]; omega
      have hseq := hF _ hkF
      have hget : (fwdPart log start).flatten[e.seq - start] = st.acc[e.seq - start] := by
        simp only [← h2, List.getElem_append_left hk]
      have hmem : st.acc[e.seq - start] ∈ log := by
        rw [← hget]; exact (mem_fwdPart.mp (List.getElem_mem hkF)).1
      have : st.acc[e.seq - start] = e := hq.inj hmem he (by rw [← hget, hseq]; omega)
      rw [← this]; exact List.getElem_mem hk

/-- `e` is admissible and inside the requested partition range -/
def inEnd (endSeq : Option Nat) (e : Ev) : Bool :=
  match endSeq with | some en => decide (e.seq ≤ en) | none => true
def inPartRange (wm start : Nat) (endSeq : Option Nat) (e : Ev) : Bool :=
  decide (start ≤ e.seq) && (decide (e.seq < wm) && inEnd endSeq e)

/-- (c, strengthened) ReadPartition returns EXACTLY the first `count` admissible events of the
requested range `[start, end]` (end inclusive), in log order — whatever `has_more` says and however
the store cuts its batches; in particular nothing is withheld while the count limit is not reached -/
theorem readPartition_exact (cut : Nat → Nat) (log : Log) (wm start : Nat) (endSeq : Option Nat)
    (count : Nat) (r : Scan) (hq : SeqOk log) (h : readPartition cut log wm start endSeq count = .ok r) :
    r.events = (log.filter (inPartRange wm start endSeq)).take count := by
  unfold readPartition at h
  simp only at h
  split at h
  · rename_i hgt
    simp only [Out.ok.injEq] at h; subst h
    have : log.filter (inPartRange wm start endSeq) = [] := by
      rw [List.filter_eq_nil_iff]; intro e _
      simp only [inPartRange, Bool.and_eq_true, decide_eq_true_eq, not_and]
      intro h1 h2; omega
    simp [this]
  · split at h
    · simp at h
    · rename_i st hl
      simp only [Out.ok.injEq] at h; subst h
      simp only
      have hF := fwdPart_consecutive hq start
      have hS : (fwdPart log start).flatten.Pairwise (fun a b => a.seq < b.seq) := by
        unfold fwdPart; rw [groupTx_flatten]; exact hq.pairwise.filter _
      obtain ⟨hlen, rem, h2, h3⟩ := partLoop_stop hS _ _ 0 _ _ (Nat.lt_succ_self _)
        (by unfold fwdPart; exact groupTx_ne_nil _) (by simp) (by simp) hl
      have hgood : ∀ e ∈ st.acc, (decide (e.seq < wm) && inEnd endSeq e) = true := by
        refine partLoop_acc (fun e => (decide (e.seq < wm) && inEnd endSeq e) = true)
          _ _ _ _ _ ?_ (by simp) hl
        intro e _ h1 h2
        cases endSeq with
        | none => simpa [inEnd] using h1
        | some en => simp only [effEndOf] at h2; simp [inEnd]; omega
      have hfil : log.filter (inPartRange wm start endSeq) =
          ((fwdPart log start).flatten).filter (fun e => decide (e.seq < wm) && inEnd endSeq e) := by
        unfold fwdPart; rw [groupTx_flatten, List.filter_filter]
        congr 1; funext e; simp only [inPartRange]; exact Bool.and_comm _ _
      rw [hfil, ← h2, List.filter_append, List.filter_eq_self.mpr hgood]
      by_cases hlt : st.acc.length < count
      · have hgone := h3 hlt
        have : rem.filter (fun e => decide (e.seq < wm) && inEnd endSeq e) = [] := by
          rw [List.filter_eq_nil_iff]; intro f hf
          have := hgone f hf
          cases endSeq with
          | none => simp only [effEndOf] at this; simp [inEnd]; omega
          | some en => simp only [effEndOf] at this; simp [inEnd]; omega
        rw [this, List.append_nil, List.take_of_length_le (by omega)]
      · have : st.acc.length = count := by omega
        rw [List.take_append_of_le_length (by omega), List.take_of_length_le (by omega)]

/-- (c) ReadStream: if the reply says `has_more = false`, every event of the stream that is
admissible (`seq < wm`) and inside the requested version range `[start, end]` is in the reply — for
every count limit and every batch cutting.  (No `WmSound` needed.) -/
theorem readStream_complete (cut : Nat → Nat) (log : Log) (pid wm stream start : Nat) (endVer : Option Nat)
    (count : Nat) (r : Scan) (hq : SeqOk log) (hv : VerOk log) (hP : OwnLog log pid)
    (h : readStream cut log pid wm stream start endVer count = .ok r) (hm : r.hasMore = false) :
    ∀ e ∈ log, e.stream = stream → start ≤ e.version → (∀ en, endVer = some en → e.version ≤ en) →
      e.seq < wm → e ∈ r.events := by
  intro e he hst hsv hen hw
  unfold readStream at h
  simp only [Out.ok.injEq] at h; subst h
  simp only at hm ⊢
  have hF : StreamSorted (fwdStream log stream start).flatten := by
    have h1 := streamSorted_filter hq hv stream
    unfold fwdStream; rw [groupTx_flatten]
    have : log.filter (fun e => e.stream == stream && decide (start ≤ e.version)) =
        (log.filter (fun e => e.stream == stream)).filter (fun e => decide (start ≤ e.version)) := by
      rw [List.filter_filter]; congr 1; funext x; exact Bool.and_comm _ _
    rw [this]; exact h1.filter _
  obtain ⟨rem, h1, h2⟩ := streamLoop_inv hF (fun f hf => hP f (mem_fwdStream.mp hf).1) _ _ 0
    { acc := [], hasMore := false, lastVer := 0 }
    (Nat.lt_succ_self _) (by unfold fwdStream; exact groupTx_ne_nil _) (by simp) hm
  have hmem : e ∈ (fwdStream log stream start).flatten := mem_fwdStream.mpr ⟨he, hst, hsv⟩
  rw [← h1, List.mem_append] at hmem
  rcases hmem with hmem | hmem
  · exact hmem
  · rcases h2 e hmem with h3 | h3
    · omega
    · unfold beyondEnd at h3
      cases endVer with
      | none => simp at h3
      | some ev => have := hen ev rfl; simp at h3; omega

/-- `e` is an admissible event of the stream inside the requested version range -/
def inStreamRange (wm stream start : Nat) (endVer : Option Nat) (e : Ev) : Bool :=
  (e.stream == stream && decide (start ≤ e.version)) && goodS wm endVer e

/-- (c, strengthened) ReadStream returns EXACTLY the first `count` admissible events of the stream
inside the requested version range `[start, end]` (end inclusive), in log order — whatever
`has_more` says and however the store cuts its batches -/
theorem readStream_exact (cut : Nat → Nat) (log : Log) (pid wm stream start : Nat) (endVer : Option Nat)
    (count : Nat) (r : Scan) (hq : SeqOk log) (hv : VerOk log) (hP : OwnLog log pid)
    (h : readStream cut log pid wm stream start endVer count = .ok r) :
    r.events = (log.filter (inStreamRange wm stream start endVer)).take count := by
  unfold readStream at h
  simp only [Out.ok.injEq] at h; subst h
  simp only
  have hF : StreamSorted (fwdStream log stream start).flatten := by
    have h1 := streamSorted_filter hq hv stream
    unfold fwdStream; rw [groupTx_flatten]
    have : log.filter (fun e => e.stream == stream && decide (start ≤ e.version)) =
        (log.filter (fun e => e.stream == stream)).filter (fun e => decide (start ≤ e.version)) := by
      rw [List.filter_filter]; congr 1; funext x; exact Bool.and_comm _ _
    rw [this]; exact h1.filter _
  obtain ⟨hg, hlen, rem, h2, h3⟩ := streamLoop_live (cut := cut) (count := count) (wm := wm) (endVer := endVer) hF
    (fun f hf => hP f (mem_fwdStream.mp hf).1) ((fwdStream log stream start).length + 1)
    (fwdStream log stream start) 0 { acc := [], hasMore := false, lastVer := 0 }
    (Nat.lt_add_one _) (by unfold fwdStream; exact groupTx_ne_nil _) (by simp) (by intro f hf; simp at hf) (by simp)
  have hfil : log.filter (inStreamRange wm stream start endVer) =
      ((fwdStream log stream start).flatten).filter (goodS wm endVer) := by
    unfold fwdStream; rw [groupTx_flatten, List.filter_filter]
    congr 1; funext e; simp only [inStreamRange]; exact Bool.and_comm _ _
  rw [hfil, ← h2, List.filter_append, List.filter_eq_self.mpr hg]
  by_cases hlt : (streamLoop cut pid count wm endVer ((fwdStream log stream start).length + 1)
      (fwdStream log stream start) 0 { acc := [], hasMore := false, lastVer := 0 }).acc.length < count
  · have : rem.filter (goodS wm endVer) = [] := by
      rw [List.filter_eq_nil_iff]; intro f hf; simpa using h3 hlt f hf
    rw [this, List.append_nil, List.take_of_length_le (by omega)]
  · rw [List.take_append_of_le_length (by omega), List.take_of_length_le (by omega)]

/-! ### (d) stream version / partition sequence = the latest admissible event -/

/-- (d) GetPartitionSequence answers the sequence of the LATEST admissible event (`seq < wm`), and
`None` exactly when no event is admissible.  `wm ≤ log.length` follows from `WmSound`. -/
theorem partition_sequence_latest (log : Log) (wm : Nat) (hq : SeqOk log) (hl : wm ≤ log.length) :
    match getPartitionSequence wm with
    | .ok (some s) => ∃ e ∈ log, e.seq = s ∧ e.seq < wm ∧ ∀ f ∈ log, f.seq < wm → f.seq ≤ s
    | .ok none => ∀ f ∈ log, ¬ f.seq < wm
    | .trap => False := by
  unfold getPartitionSequence
  split
  · rename_i s h
    split at h
    · simp at h
    · simp only [Out.ok.injEq, Option.some.injEq] at h; subst h
      have hi : wm - 1 < log.length := by omega
      exact ⟨log[wm - 1], List.getElem_mem hi, hq _ hi, by rw [hq _ hi]; omega, fun f _ hf => by omega⟩
  · rename_i h
    split at h
    · rename_i h0; subst h0; intro f _; omega
    · simp at h
  · rename_i h; split at h <;> simp at h

theorem wmSound_le_length (log : Log) (rf wm : Nat) (hs : WmSound log rf wm) : wm ≤ log.length :=
  Nat.le_trans hs (defWm_le_length log rf)

/-- (d) GetStreamVersion answers the version of the LATEST admissible event of the stream — the one
with the largest sequence and the largest version among the stream's events with `seq < wm` — and
`None` exactly when the stream has no admissible event; for every batch cutting of the store -/
theorem stream_version_latest (cut : Nat → Nat) (log : Log) (pid wm stream : Nat) (hq : SeqOk log) (hv : VerOk log)
    (hP : OwnLog log pid) :
    match getStreamVersion cut log pid wm stream with
    | .ok (some v) => ∃ e ∈ log, e.stream = stream ∧ e.version = v ∧ e.seq < wm ∧
        ∀ f ∈ log, f.stream = stream → f.seq < wm → f.seq ≤ e.seq ∧ f.version ≤ v
    | .ok none => ∀ f ∈ log, f.stream = stream → ¬ f.seq < wm
    | .trap => False := by
  have hs := streamSorted_filter hq hv stream
  have hmax := find_reverse_max hs (wm := wm)
  unfold getStreamVersion
  simp only
  rw [verLoop_eq_find _ _ _ (Nat.lt_succ_self _)]
  have hcongr : (revStream log stream).flatten.find? (fun e => e.part == pid && decide (e.seq < wm)) =
      (revStream log stream).flatten.find? (fun e => decide (e.seq < wm)) := by
    apply find?_congr'
    intro e he
    simp [hP e (mem_revStream he).1]
  rw [hcongr, revStream_find hs]
  cases hf : (log.filter (fun e => e.stream == stream)).reverse.find? (fun e => decide (e.seq < wm)) with
  | some e =>
    rw [hf] at hmax
    simp only [Option.map_some]
    have hm := List.mem_filter.mp hmax.1
    refine ⟨e, hm.1, by simpa using hm.2, rfl, hmax.2.1, ?_⟩
    intro f hfl hfs hfw
    exact hmax.2.2 f (List.mem_filter.mpr ⟨hfl, by simpa using hfs⟩) hfw
  | none =>
    rw [hf] at hmax
    simp only [Option.map_none]
    intro f hfl hfs
    exact hmax f (List.mem_filter.mpr ⟨hfl, by simpa using hfs⟩)

/-! ### (e) no checked arithmetic traps -/

/-- all sequences are below `u64::MAX` (a partition would need 2^64 - 1 appended events to violate it;
`SeqOk` + `log.length ≤ u64::MAX` imply it) -/
def SeqInRange (log : Log) : Prop := ∀ e ∈ log, e.seq < U64_MAX

theorem seqInRange_of_seqOk (log : Log) (hq : SeqOk log) (hl : log.length ≤ U64_MAX) : SeqInRange log := by
  intro e he
  obtain ⟨hi, _⟩ := hq.index he
  omega

/-- (e) none of the five handlers traps: the only trapping operations are the two
`partition_sequence + 1`, which need an event with sequence `u64::MAX`; the `u8` not-found counter
saturates, the stream handlers and the two scalar handlers contain no trapping arithmetic at all
(`saturating_sub`, `checked_sub`, comparisons only).  Holds for every watermark (no `WmSound`). -/
theorem no_trap (cut : Nat → Nat) (log : Log) (wm rf : Nat) (hr : SeqInRange log) :
    (∀ id nf, readEvent log wm rf id nf ≠ .trap) ∧
    (∀ start endSeq count, readPartition cut log wm start endSeq count ≠ .trap) ∧
    (∀ stream start endVer count, readStream cut log pid wm stream start endVer count ≠ .trap) ∧
    (∀ stream, getStreamVersion cut log pid wm stream ≠ .trap) ∧
    getPartitionSequence wm ≠ .trap := by
  refine ⟨?_, ?_, ?_, ?_, ?_⟩
  · intro id nf
    unfold readEvent
    split
    · simp
    · rename_i e hf
      have he := hr e (List.mem_of_find?_eq_some hf)
      have : addU64 e.seq 1 = some (e.seq + 1) := by unfold addU64; rw [if_pos (by omega)]
      simp only [this]
      split
      · simp
      · split <;> simp
  · intro start endSeq count
    unfold readPartition
    simp only
    split
    · simp
    · obtain ⟨r, h⟩ := partLoop_ok (cut := cut) (count := count)
          (effEnd := effEndOf endSeq wm) (wm := wm)
          ((fwdPart log start).length + 1) (fwdPart log start) 0 { acc := [], lastRead := start }
          (fun e he => hr e (mem_fwdPart.mp he).1)
      rw [h]; simp
  · intro stream start endVer count; simp [readStream]
  · intro stream; simp [getStreamVersion]
  · simp [getPartitionSequence]

/-! ### non-vacuity: a concrete partition satisfying the hypotheses, with non-trivial replies -/

/-- rf = 3 (quorum 2): a confirmed single event, a confirmed two-stream transaction, then an
unquorate event of stream 0 right at the watermark 3 -/
def exLog : Log :=
  [⟨0, 0, 0, 0, 2, 0⟩, ⟨1, 0, 1, 1, 2, 0⟩, ⟨2, 1, 0, 1, 3, 0⟩, ⟨3, 0, 2, 2, 1, 0⟩]
/-- the store cuts every batch after one group -/
def exCut : Nat → Nat := fun _ => 1

example : defWm exLog 3 = 3 := by decide
example : WmSound exLog 3 3 ∧ WmSound exLog 3 2 := by unfold WmSound; decide
theorem exLog_seqOk : SeqOk exLog := by
  intro i h
  match i, h with
  | 0, _ => rfl | 1, _ => rfl | 2, _ => rfl | 3, _ => rfl
theorem exLog_verOk : VerOk exLog := by unfold VerOk exLog; decide
example : OwnLog exLog 0 := by unfold OwnLog exLog; decide
example : SeqInRange exLog := by unfold SeqInRange exLog U64_MAX; decide
-- (a)/(b): the scans reveal the confirmed prefix and stop before the unquorate event at the watermark
example : readPartition exCut exLog 3 0 none 10 = .ok ⟨[⟨0, 0, 0, 0, 2, 0⟩, ⟨1, 0, 1, 1, 2, 0⟩, ⟨2, 1, 0, 1, 3, 0⟩], false⟩ := by decide
example : readStream exCut exLog 0 3 0 0 none 10 = .ok ⟨[⟨0, 0, 0, 0, 2, 0⟩, ⟨1, 0, 1, 1, 2, 0⟩], false⟩ := by decide
example : Reveals exCut exLog 0 3 3 ⟨2, 1, 0, 1, 3, 0⟩ :=
  .partition 0 none 10 ⟨[⟨0, 0, 0, 0, 2, 0⟩, ⟨1, 0, 1, 1, 2, 0⟩, ⟨2, 1, 0, 1, 3, 0⟩], false⟩ _ (by decide) (by simp)
example : readEvent exLog 3 3 1 0 = .ok (some ⟨1, 0, 1, 1, 2, 0⟩) ∧ readEvent exLog 3 3 3 0 = .ok none := by decide
example : (⟨3, 0, 2, 2, 1, 0⟩ : Ev) ∈ exLog ∧ (⟨3, 0, 2, 2, 1, 0⟩ : Ev).count < quorum 3 := by decide
-- (c): a count limit sets has_more, the full range does not
example : readPartition exCut exLog 3 0 (some 5) 2 = .ok ⟨[⟨0, 0, 0, 0, 2, 0⟩, ⟨1, 0, 1, 1, 2, 0⟩], true⟩ := by decide
example : readPartition exCut exLog 3 1 (some 1) 10 = .ok ⟨[⟨1, 0, 1, 1, 2, 0⟩], true⟩ := by decide
-- a scan that yields another partition's events (request naming the wrong partition of the bucket): nothing is revealed
example : readStream exCut exLog 4 10 0 0 none 10 = .ok ⟨[], false⟩ ∧ getStreamVersion exCut exLog 4 10 0 = .ok none := by decide
example : readStream exCut exLog 0 3 0 1 (some 5) 1 = .ok ⟨[⟨1, 0, 1, 1, 2, 0⟩], true⟩ := by decide
-- (d): the answers hide the unquorate tail (the stream's real last version is 2)
example : getStreamVersion exCut exLog 0 3 0 = .ok (some 1) ∧ getPartitionSequence 3 = .ok (some 2) := by decide
example : getStreamVersion exCut exLog 0 0 0 = .ok none ∧ getPartitionSequence 0 = .ok none := by decide

end SierraModel.C07
