/-
C08 — the confirmed watermark is sound, monotone and survives restarts.
Quantifier: EVERY sequence of confirmation reports (lists of (first_version, event_count, count)
of any length, in any order, with duplicates and stale lower counts), every replication factor,
every crash point of the temp-file/rename persistence sequence followed by re-initialisation from
the on-disk counts.  The model is `Cluster/Watermark.lean` + `Cluster/Persist.lean` (the code
after the three C08 `fix:` commits); versions are `u64` (`Report.inRange`).
-/
import SierraModel.Lemmas.Watermark

namespace SierraModel.C08
open SierraModel.Cluster

/-- all single-version (version, count) updates a list of reports delivers -/
abbrev flat (rs : List Report) : List (Nat × Nat) := rs.flatMap Report.expand

/-- what `prefixLen` means: every version 1..prefixLen has a maximum reported count that is a
quorum, and the next version does not (`q ≥ 1`; `quorum rf ≥ 1` always) -/
theorem prefixLen_spec (q : Nat) (hq : 1 ≤ q) (ups : List (Nat × Nat)) :
    (∀ v, 1 ≤ v → v ≤ prefixLen q ups → q ≤ maxc ups v) ∧ ¬ q ≤ maxc ups (prefixLen q ups + 1) := by
  have h := prefixLen_isPrefixLen q hq ups
  exact ⟨fun v h1 h2 => by simpa using h.1 v h1 h2, by simpa using h.2⟩

/-- (a) monotone: no single update, from ANY state (also one loaded from a file), lowers the watermark -/
theorem monotone_update (rf : Nat) (s : PState) (version count : Nat) :
    s.wm ≤ (update rf s version count).1.wm := update_mono rf s version count

/-- (a) monotone along every run: delivering further reports never lowers the watermark -/
theorem monotone (rf : Nat) (s : PState) (rs more : List Report) :
    (runReports rf s rs).wm ≤ (runReports rf s (rs ++ more)).wm := by
  have : runReports rf s (rs ++ more) = runReports rf (runReports rf s rs) more := by
    simp [runReports, List.foldl_append]
  rw [this, runReports_eq rf more]
  exact runUps_mono rf _ _

/-- (c) complete: after ANY sequence of reports the watermark EQUALS the longest prefix of versions
whose maximum reported count is a quorum — at every moment, not only at the end -/
theorem complete (rf : Nat) (rs : List Report) (hr : ∀ r ∈ rs, r.inRange = true) :
    (runReports rf PState.new rs).wm = prefixLen (quorum rf) (flat rs) := by
  rw [runReports_eq]
  have := inv_runUps rf (flat rs) PState.new [] (inv_new rf) (flat_inRange rs hr)
  simpa using inv_wm_eq_prefixLen rf _ _ this

/-- (b) sound: the watermark never exceeds the longest quorum-confirmed prefix reported so far
(`rs` = everything reported so far; the statement holds for every `rs`, i.e. after every step) -/
theorem sound (rf : Nat) (rs : List Report) (hr : ∀ r ∈ rs, r.inRange = true) :
    (runReports rf PState.new rs).wm ≤ prefixLen (quorum rf) (flat rs) :=
  Nat.le_of_eq (complete rf rs hr)

/-- (b) unfolded: every version at or below the watermark was reported with a quorum count -/
theorem sound_pointwise (rf : Nat) (rs : List Report) (hr : ∀ r ∈ rs, r.inRange = true) (v : Nat)
    (h1 : 1 ≤ v) (h2 : v ≤ (runReports rf PState.new rs).wm) :
    ∃ c, (v, c) ∈ flat rs ∧ quorum rf ≤ c := by
  rw [complete rf rs hr] at h2
  have hq := (prefixLen_spec (quorum rf) (quorum_pos rf) (flat rs)).1 v h1 h2
  rcases maxc_mem (flat rs) v with h0 | hm
  · have := quorum_pos rf; omega
  · exact ⟨_, hm, hq⟩

/-- (c) the final watermark is a function of the maximum reported count per version only -/
theorem same_max_counts (rf : Nat) (rs1 rs2 : List Report)
    (h1 : ∀ r ∈ rs1, r.inRange = true) (h2 : ∀ r ∈ rs2, r.inRange = true)
    (h : ∀ v, maxc (flat rs1) v = maxc (flat rs2) v) :
    (runReports rf PState.new rs1).wm = (runReports rf PState.new rs2).wm := by
  rw [complete rf rs1 h1, complete rf rs2 h2]
  unfold prefixLen
  have hf : (fun v => decide (quorum rf ≤ maxc (flat rs1) v)) = (fun v => decide (quorum rf ≤ maxc (flat rs2) v)) := by
    funext v; rw [h v]
  have hp : IsPrefixLen (fun v => decide (quorum rf ≤ maxc (flat rs2) v)) (prefixLen (quorum rf) (flat rs1)) := by
    rw [← hf]; exact prefixLen_isPrefixLen _ (quorum_pos rf) _
  exact isPrefixLen_unique _ _ _ hp (prefixLen_isPrefixLen _ (quorum_pos rf) _)

/-- (c) order-independent, duplicates included: two report sequences with the same SET of reports
(any order, any multiplicities) end with the same watermark -/
theorem order_independent (rf : Nat) (rs1 rs2 : List Report)
    (h1 : ∀ r ∈ rs1, r.inRange = true) (h : ∀ r, r ∈ rs1 ↔ r ∈ rs2) :
    (runReports rf PState.new rs1).wm = (runReports rf PState.new rs2).wm := by
  apply same_max_counts rf rs1 rs2 h1 (fun r hr => h1 r ((h r).mpr hr))
  intro v
  apply maxc_congr
  intro u
  simp only [List.mem_flatMap]
  exact ⟨fun ⟨r, hr, hu⟩ => ⟨r, (h r).mp hr, hu⟩, fun ⟨r, hr, hu⟩ => ⟨r, (h r).mpr hr, hu⟩⟩

/-- (c) in particular for every permutation -/
theorem order_independent_perm (rf : Nat) (rs1 rs2 : List Report)
    (h1 : ∀ r ∈ rs1, r.inRange = true) (h : rs1.Perm rs2) :
    (runReports rf PState.new rs1).wm = (runReports rf PState.new rs2).wm :=
  order_independent rf rs1 rs2 h1 (fun _ => h.mem_iff)

/-- (c) stale lower counts are harmless wherever they are delivered: inserting, anywhere, a report
whose count is not above a count already reported for the same transaction changes nothing -/
theorem stale_report_harmless (rf : Nat) (pre post : List Report) (r stale : Report)
    (hr : ∀ x ∈ pre ++ r :: post, x.inRange = true)
    (hs1 : stale.first = r.first) (hs2 : stale.n = r.n) (hs3 : stale.count ≤ r.count) (k : Nat) :
    (runReports rf PState.new ((pre ++ r :: post).take k ++ stale :: (pre ++ r :: post).drop k)).wm
      = (runReports rf PState.new (pre ++ r :: post)).wm := by
  have hrm : r ∈ pre ++ r :: post := by simp
  generalize pre ++ r :: post = L at hr hrm ⊢
  have hsr : stale.inRange = true := by
    have := hr r hrm
    simp only [Report.inRange, decide_eq_true_eq] at this ⊢; omega
  have hin : ∀ x ∈ L.take k ++ stale :: L.drop k, x.inRange = true := by
    intro x hx
    simp only [List.mem_append, List.mem_cons] at hx
    rcases hx with hx | rfl | hx
    · exact hr x (List.mem_of_mem_take hx)
    · exact hsr
    · exact hr x (List.mem_of_mem_drop hx)
  apply same_max_counts rf _ _ hin hr
  intro v
  have hsplit : flat (L.take k ++ stale :: L.drop k)
      = flat (L.take k) ++ (stale.expand ++ flat (L.drop k)) := by
    simp [flat, List.flatMap_append, List.flatMap_cons]
  have hwhole : flat L = flat (L.take k) ++ flat (L.drop k) := by
    have h := List.flatMap_append (xs := L.take k) (ys := L.drop k) (f := Report.expand)
    rw [List.take_append_drop] at h; exact h
  have hle : maxc stale.expand v ≤ maxc (flat L) v := by
    rcases maxc_mem stale.expand v with h0 | hm
    · omega
    · generalize maxc stale.expand v = mx at hm ⊢
      simp only [Report.expand, List.mem_map, List.mem_range] at hm
      obtain ⟨i, hi, he⟩ := hm
      have hv : r.first + i = v := by have := congrArg Prod.fst he; simp at this; omega
      have hc : stale.count = mx := by have := congrArg Prod.snd he; simpa using this
      have : (v, r.count) ∈ flat L := by
        simp only [flat, List.mem_flatMap]
        exact ⟨r, hrm, by simp only [Report.expand, List.mem_map, List.mem_range]; exact ⟨i, by omega, by simp [hv]⟩⟩
      have := maxc_ge _ _ _ this
      omega
  rw [hsplit, maxc_append, maxc_append]
  rw [hwhole, maxc_append] at hle ⊢
  omega

/-- persistence is atomic with respect to crashes: if `current` is never left half-written (which
the sequence itself guarantees, see `crash_keeps_current_complete`), then at EVERY crash point the
state a restart loads is either the one loaded before the persist started or the new state -/
theorem crash_loads_old_or_new (s : PState) (fs : Files) (k : Nat) (hc : fs.cur ≠ .garbage) :
    loadState (crashAfter s fs k) = loadState fs ∨ loadState (crashAfter s fs k) = s := by
  obtain ⟨c, p, t⟩ := fs
  match k with
  | 0 => left; rfl
  | 1 => left; cases c <;> cases p <;> simp_all [crashAfter, plan, applyOp, loadState, FileC.load, FileC.exists_]
  | 2 => left; cases c <;> cases p <;> simp_all [crashAfter, plan, applyOp, loadState, FileC.load, FileC.exists_]
  | 3 => cases c <;> cases p <;> simp_all [crashAfter, plan, applyOp, loadState, FileC.load, FileC.exists_]
  | 4 => cases c <;> cases p <;> simp_all [crashAfter, plan, applyOp, loadState, FileC.load, FileC.exists_]
  | n + 5 => cases c <;> cases p <;> simp_all [crashAfter, plan, applyOp, loadState, FileC.load, FileC.exists_]

theorem crash_keeps_current_complete (s : PState) (fs : Files) (k : Nat) (hc : fs.cur ≠ .garbage) :
    (crashAfter s fs k).cur ≠ .garbage := by
  obtain ⟨c, p, t⟩ := fs
  match k with
  | 0 => exact hc
  | 1 => cases c <;> cases p <;> simp_all [crashAfter, plan, applyOp, FileC.exists_]
  | 2 => cases c <;> cases p <;> simp_all [crashAfter, plan, applyOp, FileC.exists_]
  | 3 => cases c <;> cases p <;> simp_all [crashAfter, plan, applyOp, FileC.exists_]
  | 4 => cases c <;> cases p <;> simp_all [crashAfter, plan, applyOp, FileC.exists_]
  | n + 5 => cases c <;> cases p <;> simp_all [crashAfter, plan, applyOp, FileC.exists_]

/-- a persist that completes is what the next restart loads -/
theorem persist_then_load (s : PState) (fs : Files) : loadState (persist s fs) = s := by
  obtain ⟨c, p, t⟩ := fs
  cases c <;> cases p <;> simp [persist, plan, applyOp, loadState, FileC.load, FileC.exists_]

/-- (d) restart, general form: re-initialising from ANY directory contents (any loadable state,
stale or garbage files) yields a watermark at least the pre-restart one, provided every reported
count is on disk with at least that count -/
theorem restart_any_directory (rf : Nat) (rs : List Report) (hr : ∀ r ∈ rs, r.inRange = true)
    (dir : Files) (disk : List Nat) (hd : diskCovers disk (flat rs) = true) :
    (runReports rf PState.new rs).wm ≤ (initializeMgr rf dir disk).st.wm := by
  have hinv := inv_runUps rf (flat rs) PState.new [] (inv_new rf) (flat_inRange rs hr)
  rw [List.nil_append, ← runReports_eq] at hinv
  generalize runReports rf PState.new rs = s at hinv ⊢
  unfold initializeMgr
  simp only [Mgr.new]
  rw [mgrFold_st (diskCount disk)]
  simp only [rescanVersions]
  generalize loadState dir = s0
  by_cases hge : s.wm ≤ s0.wm
  · have := foldUpdate_mono rf (diskCount disk) (List.range' (s0.wm + 1) (disk.length - s0.wm)) s0
    omega
  · -- every version up to the old watermark is on disk with a quorum count
    have hcov : ∀ x, s0.wm < x → x ≤ s.wm → quorum rf ≤ diskCount disk x ∧ x ≤ disk.length := by
      intro x hx1 hx2
      have hb := hinv.below x (by omega) hx2
      rcases maxc_mem (flat rs) x with h0 | hm
      · have := quorum_pos rf; omega
      · have := diskCovers_mem disk (flat rs) hd x _ hm (by omega)
        exact ⟨by omega, this.1⟩
    have hlen : s.wm ≤ disk.length := (hcov s.wm (by omega) (Nat.le_refl _)).2
    have := rescan_reaches rf (diskCount disk) s.wm (disk.length - s0.wm) s0 s0.wm (Nat.le_refl _)
      (fun x h1 h2 => (hcov x h1 h2).1)
    omega

/-- (d) restart: for every state reached by reports, every prior directory contents, and EVERY
crash step `k` of `persist` (k = number of completed file operations of `plan`, which has 3 to 5
operations; k ≥ its length = the persist completed), the
re-initialised watermark is at least the watermark before the restart -/
theorem restart (rf : Nat) (rs : List Report) (hr : ∀ r ∈ rs, r.inRange = true)
    (fs : Files) (disk : List Nat) (hd : diskCovers disk (flat rs) = true) (k : Nat) :
    (runReports rf PState.new rs).wm
      ≤ (initializeMgr rf (crashAfter (runReports rf PState.new rs) fs k) disk).st.wm :=
  restart_any_directory rf rs hr _ disk hd

/-! ### non-vacuity (tests, labelled as tests) -/

-- F17 scenario: quorum count for v2, stale lower count for v2, then the gap filler v1 (rf = 3)
example : (runReports 3 PState.new [⟨2, 1, 2⟩, ⟨2, 1, 1⟩, ⟨1, 1, 2⟩]).wm = 2 := by decide
-- multi-event transactions, gap-filling report last, duplicates
example : (runReports 5 PState.new [⟨4, 2, 3⟩, ⟨3, 1, 5⟩, ⟨4, 2, 3⟩, ⟨1, 2, 3⟩]).wm = 5 := by decide
example : prefixLen (quorum 5) (flat [⟨4, 2, 3⟩, ⟨3, 1, 5⟩, ⟨4, 2, 3⟩, ⟨1, 2, 3⟩]) = 5 := by decide
-- an unconfirmed version stops the prefix
example : (runReports 3 PState.new [⟨1, 2, 2⟩, ⟨3, 1, 1⟩, ⟨4, 1, 3⟩]).wm = 2 := by decide
-- hypotheses of `restart` are satisfiable; crash after the rename current→previous (3 of the 4
-- operations of this persist: no `previous` to remove):
-- `current` is missing, `previous` holds an older state, the re-scan recovers the watermark
example : diskCovers [2, 2, 3, 1] (flat [⟨1, 2, 2⟩, ⟨3, 1, 2⟩]) = true := by decide
example :
    let s := runReports 3 PState.new [⟨1, 2, 2⟩, ⟨3, 1, 2⟩]
    let old := runReports 3 PState.new [⟨1, 2, 2⟩]
    let dir := crashAfter s { cur := .snap old, prev := .absent, tmp := .absent } 3
    dir.cur = .absent ∧ dir.prev = .snap old ∧ s.wm = 3 ∧ old.wm = 2 ∧
      (initializeMgr 3 dir [2, 2, 3, 1]).st.wm = 3 := by decide
-- without the hypothesis the restart can lose ground (disk count of v3 below the reported 2)
example : (initializeMgr 3 Files.empty [2, 2, 1, 1]).st.wm = 2 ∧
    (runReports 3 PState.new [⟨1, 2, 2⟩, ⟨3, 1, 2⟩]).wm = 3 := by decide
-- the watermark can reach u64::MAX without a trap
example : (update 1 { highest := 0, wm := U64_MAX - 1, unc := [] } U64_MAX 1).1.wm = U64_MAX := by decide

end SierraModel.C08
