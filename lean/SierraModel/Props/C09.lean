/-
C09 — "Subscriptions deliver confirmed events in order, once, without gaps."

Model: Cluster/Subscription.lean (the code after the `fix:` commits for F19, F20 and the partition
part of F30).  Every theorem quantifies over ALL schedules `as : List Action` from the initial
system (any ring capacity): interleavings of appends, confirmations (with / without broadcast),
broadcaster sends, another listener coming and going, one `subscribe` of any kind / keys /
start positions / window, acknowledgements and the subscription task's steps with any batch sizes
and any iterator choices.  Proof: the invariant `Inv` (Lemmas/SubscriptionInv.lean) holds after
every schedule (`inv_run`).

`s.lost k` is a ghost flag set by the model exactly when `recv` returns `Lagged` while the STREAM
key k is followed from LATEST and nothing has been delivered for it yet (finding F30, open for
streams): for such a key the code has no position to resume from.
-/
import SierraModel.Lemmas.SubscriptionStep

namespace SierraModel.C09
open SierraModel.Subscription

/-- reachable from the initial system by some schedule -/
def Reach (s : Sys) : Prop := ∃ cap as, run (init cap) as = some s

theorem reach_inv {s : Sys} (h : Reach s) : Inv s := by
  obtain ⟨cap, as, h⟩ := h
  exact inv_run (inv_init cap) as h

/-- **In order, once, without gaps.**  After every schedule, the positions (partition sequences
for a partition key, stream versions for a stream key) delivered for a subscribed key are
`start, start+1, start+2, …` in this order: no repeat, no gap, strictly increasing; `start` is
the requested position, or for LATEST the number of matching events confirmed when `subscribe`
ran.
FULL statement wanted: for every subscribed key.  Proved here for every key with
`s.lost k = false`; `partition_never_lost` shows this covers every partition key (single and
multi-partition subscriptions, any start), and by the definition of `onLag` it covers every stream
key with an explicit start version.  Not covered (and false in the code, finding F30): a stream
followed from LATEST whose subscription lags before the stream's first delivery. -/
theorem delivered_in_order_partial {s : Sys} (h : Reach s) (k : Key) (hk : k ∈ s.keys)
    (hl : s.lost k = false) : dl s k = List.range' (s.start k) (dl s k).length := by
  have := ((reach_inv h).deliv k hk hl).1
  rw [this]; simp

/-- the same, for partition keys without any side condition (full for partition and
multi-partition subscriptions) -/
theorem delivered_in_order_partition {s : Sys} (h : Reach s) (k : Key) (hk : k ∈ s.keys)
    (hp : k.isPart = true) : dl s k = List.range' (s.start k) (dl s k).length := by
  apply delivered_in_order_partial h k hk
  cases hl : s.lost k with
  | false => rfl
  | true => have := (reach_inv h).lost_stream k hl; rw [hp] at this; cases this

theorem partition_never_lost {s : Sys} (h : Reach s) (k : Key) (hp : k.isPart = true) :
    s.lost k = false := by
  cases hl : s.lost k with
  | false => rfl
  | true => have := (reach_inv h).lost_stream k hl; rw [hp] at this; cases this

/-- **No unconfirmed event.**  In every reachable state — in particular in the state right after
a delivery — every delivered record is the event stored at its partition sequence and lies below
the watermark cell of its partition (watermarks never decrease). -/
theorem delivered_confirmed {s : Sys} (h : Reach s) (e : Ev) (he : e ∈ s.out) :
    e.seq < s.wm e.p ∧ (s.log e.p)[e.seq]? = some e :=
  (reach_inv h).out_ok e he

/-- a delivered record matches a subscribed key only with the position the key was at: every
delivered position of key k was confirmed in k's own numbering too -/
theorem delivered_below_watermark_pos {s : Sys} (h : Reach s) (k : Key) (hk : k ∈ s.keys)
    (hl : s.lost k = false) : ∀ n ∈ dl s k, s.start k ≤ n ∧ n < need s k := by
  intro n hn
  have hd := (reach_inv h).deliv k hk hl
  rw [hd.1] at hn
  have := List.mem_range'_1.mp hn
  omega

/-- **Window.**  In every reachable state the number of delivered but unacknowledged records is at
most the window (acknowledgements name delivered cursors and increase). -/
theorem outstanding_le_window {s : Sys} (h : Reach s) : s.out.length - acked s ≤ s.window := by
  have := (reach_inv h).win
  omega

/-- **Completeness at quiescence (liveness, safety-style, partial).**
FULL statement wanted: every confirmed matching event from the start position on is eventually
delivered.  Proved: whenever the system is quiescent for partition `k.pid` — the subscription task
is parked before `recv`, its ring is empty and not lagged, and the broadcaster has caught up with
the watermark (`cur = wm`, no job) — every confirmed matching event from the start position on HAS
been delivered.  Assumed (not proved): the subscription task is scheduled and the subscriber
acknowledges (fair scheduling; each task step consumes a ring slot, an iterator element or a
batch, so quiescence is reached after finitely many task steps once the environment stops), and
the broadcaster catches up, which in the code needs a later `UpdateConfirmationWithBroadcast` on
that partition (after a replica-path `UpdateConfirmation`, or after confirmations nobody listened
to, `cur < wm` persists until then). -/
theorem complete_when_quiescent_partial {s : Sys} (h : Reach s) (k : Key) (hk : k ∈ s.keys)
    (hl : s.lost k = false) (hpc : s.pc = .live) (hq : s.queue = []) (hlag : s.lagged = false)
    (hjob : s.job = none) (hcur : s.cur k.pid = s.wm k.pid) :
    ∀ e ∈ s.log k.pid, k.matches e = true → e.seq < s.wm k.pid → s.start k ≤ k.pos e →
      k.pos e ∈ dl s k := by
  intro e he hm hconf hst
  have hi := reach_inv h
  have hp := hi.pc_ok
  unfold PcOK at hp; rw [hpc] at hp
  have hd := hi.deliv k hk hl
  rw [hd.1, List.mem_range'_1]
  refine ⟨hst, ?_⟩
  have hlt : k.pos e < need s k := by
    apply Nat.lt_of_not_le
    intro hn
    rcases hi.safe k hk hl (by rw [hp.2]; simp) e he hm hn with h1 | h1 | h1 | h1
    · rw [hi.iter_closed k (by rw [hp.1]; simp)] at h1; cases h1
    · rw [hlag] at h1; cases h1
    · rcases h1.2 with h2 | h2
      · rw [hq] at h2; cases h2
      · have : nxt s k.pid = s.cur k.pid := by unfold nxt; rw [hjob]
        omega
    · rw [hpc] at h1; cases h1
  omega

/-! ### non-vacuity: concrete schedules reaching non-trivial states -/

/-- history then live: partition 0 followed from sequence 0 with window 2; two events in history,
a third through the ring; all three delivered in order, all acknowledged at the end -/
def demo : List Action :=
  [.append 0 1, .append 0 2, .confirm 0 2, .bsend,
   .subscribe .part [(.part 0, some 0)] 2,
   .sub (some (.part 0)) 0, .sub none 2, .sub none 0, .ack 0, .sub (some (.part 0)) 0,
   .sub none 0,
   .append 0 1, .confirm 0 3, .bsend, .bsend, .bsend,
   .sub none 0, .sub none 0, .sub none 0, .ack 1, .sub none 0]

example : ∃ s, run (init 4) demo = some s ∧ s.keys = [.part 0] ∧ s.lost (.part 0) = false ∧
    dl s (.part 0) = [0, 1, 2] ∧ s.pc = .live ∧ s.queue = [] ∧ s.lagged = false ∧
    s.job = none ∧ s.cur 0 = s.wm 0 ∧ s.wm 0 = 3 ∧ s.out.length = 3 ∧ acked s = 2 :=
  ⟨_, rfl, rfl, rfl, by decide, rfl, by decide, rfl, rfl, by decide, by decide, by decide, by decide⟩

/-- a stream followed from LATEST in a ring of one slot: the lag before the first delivery sets
the ghost flag (the case excluded from `delivered_in_order_partial`) -/
def demoLost : List Action :=
  [.append 0 1, .append 0 1, .subscribe .stream [(.stream 0 1, none)] 5, .sub none 0,
   .confirm 0 2, .bsend, .bsend, .sub none 0]

example : ∃ s, run (init 1) demoLost = some s ∧ s.lost (.stream 0 1) = true ∧ s.pc = .live :=
  ⟨_, rfl, by decide, rfl⟩

end SierraModel.C09
