/-
C10 — at most one transaction is confirmed per partition sequence.

Model: `Cluster/Protocol.lean` (one partition, fixed replica set of `rf` nodes, quorum `rf/2+1`).
Quantifier: every finite list of enabled adversary actions from the initial state (`Reachable`):
client writes coordinated by ANY node with ANY replica view (`start`), delivery of any message in
any order (`deliver`, incl. late replies, catch-up requests/responses, confirmations), refusals for
other reasons (`deliverFail`, `deliverPartial`), `drop`, `dup`, coordinator progress (`finish`), `timeout`, catch-up
timer (`gaps`), buffer eviction/expiry (`evict`), failed catch-up (`syncFail`), `crash` (buffer and
tasks lost, log kept), `restart`.  Assumptions of the model (stated in checks.json): transaction ids
are fresh per coordinated write, one log slot per transaction, the local store's only sequence rule
is `Exact`.
-/
import SierraModel.Lemmas.ProtocolMono

namespace SierraModel.C10
open SierraModel.Protocol

/-- `Inv₁` (one step, hence by `logs_append_only_run` every execution): a log slot that exists keeps
its transaction forever, and a quorum count stays a quorum count — logs only grow at the end. -/
theorem logs_append_only {rf : Nat} {s s' : Sys} (hr : Reachable rf s) (a : Action) (h : step s a = some s') :
    ∀ (r : NodeId) (n : Node), s.nodes[r]? = some n → ∃ n' : Node, s'.nodes[r]? = some n' ∧
      ∀ (p : Nat) (e : Entry), n.log[p]? = some e →
        ∃ e' : Entry, n'.log[p]? = some e' ∧ e'.tx = e.tx ∧ (quorum rf ≤ e.cnt → quorum rf ≤ e'.cnt) := by
  have hg := (step_grow (reachable_inv hr) h).1
  intro r n hn
  obtain ⟨n', hn', hl⟩ := hg.nodes r n hn
  refine ⟨n', hn', ?_⟩
  have hq : s.q = quorum rf := by unfold Sys.q; rw [reachable_rf hr]
  rw [hq] at hl; exact hl

/-- `Inv₁` over any continuation of an execution -/
theorem logs_append_only_run {rf : Nat} {s s' : Sys} (hr : Reachable rf s) (as : List Action)
    (h : run s as = some s') :
    ∀ (r : NodeId) (n : Node), s.nodes[r]? = some n → ∃ n' : Node, s'.nodes[r]? = some n' ∧
      ∀ (p : Nat) (e : Entry), n.log[p]? = some e →
        ∃ e' : Entry, n'.log[p]? = some e' ∧ e'.tx = e.tx ∧ (quorum rf ≤ e.cnt → quorum rf ≤ e'.cnt) := by
  have hg := (run_grow as (reachable_inv hr) h).1.1
  intro r n hn
  obtain ⟨n', hn', hl⟩ := hg.nodes r n hn
  refine ⟨n', hn', ?_⟩
  have hq : s.q = quorum rf := by unfold Sys.q; rw [reachable_rf hr]
  rw [hq] at hl; exact hl

/-- `Inv₂`: a successful reply for `(t, p)` from replica `src` is in flight only if `src` stores `t`
at sequence `p`. -/
theorem reply_ok_only_if_stored {rf : Nat} {s : Sys} (hr : Reachable rf s) {src dst : NodeId} {t : Tx}
    {p : Nat} (hm : Msg.reply src dst t p true ∈ s.net) : holdsAt s src t p :=
  ((reachable_inv hr).net _ hm).2 rfl

/-- `Inv₃`: a quorum confirmation count for `(t, p)` on any node ⇒ at least a quorum of distinct nodes
store `t` at sequence `p`. -/
theorem quorum_count_backed_by_quorum {rf : Nat} {s : Sys} (hr : Reachable rf s) {r : NodeId} {n : Node}
    {p : Nat} {e : Entry} (hn : s.nodes[r]? = some n) (he : n.log[p]? = some e) (hc : quorum rf ≤ e.cnt) :
    ∃ rs : List NodeId, rs.Nodup ∧ quorum rf ≤ rs.length ∧ ∀ x ∈ rs, holdsAt s x e.tx p := by
  have hq : s.q = quorum rf := by unfold Sys.q; rw [reachable_rf hr]
  obtain ⟨rs, nd, hl, hh⟩ := (((reachable_inv hr).nodes r n hn).1 p e he).2 (by rw [hq]; exact hc)
  exact ⟨rs, nd, by rw [← hq]; exact hl, hh⟩

/-- C10: across all nodes no sequence holds two different transactions that both carry a quorum
confirmation count. -/
theorem at_most_one_confirmed_per_sequence {rf : Nat} {s : Sys} (hr : Reachable rf s)
    {r1 r2 : NodeId} {n1 n2 : Node} {p : Nat} {e1 e2 : Entry}
    (h1 : s.nodes[r1]? = some n1) (h2 : s.nodes[r2]? = some n2)
    (he1 : n1.log[p]? = some e1) (he2 : n2.log[p]? = some e2)
    (hc1 : quorum rf ≤ e1.cnt) (hc2 : quorum rf ≤ e2.cnt) : e1.tx = e2.tx := by
  have hI := reachable_inv hr
  have hq : s.q = quorum rf := by unfold Sys.q; rw [reachable_rf hr]
  have q1 := ((hI.nodes r1 n1 h1).1 p e1 he1).2 (by rw [hq]; exact hc1)
  have q2 := ((hI.nodes r2 n2 h2).1 p e2 he2).2 (by rw [hq]; exact hc2)
  obtain ⟨r, ha, hb⟩ := quorum_intersect hI.len q1 q2
  exact holdsAt_unique ha hb

/-- C10, second sentence: the confirmed prefixes of any two replicas agree transaction for
transaction. -/
theorem confirmed_prefixes_agree {rf : Nat} {s : Sys} (hr : Reachable rf s)
    {r1 r2 : NodeId} {n1 n2 : Node} (h1 : s.nodes[r1]? = some n1) (h2 : s.nodes[r2]? = some n2)
    {p : Nat} {e1 e2 : Entry}
    (he1 : (confirmedPrefix (quorum rf) n1.log)[p]? = some e1)
    (he2 : (confirmedPrefix (quorum rf) n2.log)[p]? = some e2) : e1.tx = e2.tx := by
  obtain ⟨g1, c1⟩ := takeWhile_get _ _ _ _ he1
  obtain ⟨g2, c2⟩ := takeWhile_get _ _ _ _ he2
  exact at_most_one_confirmed_per_sequence hr h1 h2 g1 g2 (by simpa using c1) (by simpa using c2)

/-- the trace of finding F22: coordinator 0 confirms `1` at sequence 0 and starts `3` at sequence 1;
replica 2 buffers `3`, asks for catch-up, meanwhile coordinates `2` itself at sequence 0; the
catch-up response re-appends `1` -/
def f22Trace : List Action :=
  [.start 0 1 [1, 2], .deliver 0 0, .deliver 1 0, .finish 0 0, .start 0 3 [1, 2], .deliver 3 0,
   .gaps 2, .deliver 3 1, .start 2 2 [0, 1], .deliver 3 0, .deliver 2 0, .deliver 4 0, .deliver 4 0]

/-- F22: with the catch-up rule before the fix (`ExpectedVersion::Any`) the model reaches a state in
which sequence 1 holds transaction `3` with count 2 on node 0 and transaction `1` with count 2 on
node 2 (quorum = 2): C10 is violated. -/
theorem catchup_any_breaks :
    (run (Sys.init 3 true) f22Trace).map (fun s => (s.nodes.map (fun n => n.log), conflictAt s 1)) =
      some ([[⟨1, 2⟩, ⟨3, 2⟩], [⟨1, 0⟩, ⟨3, 0⟩], [⟨2, 0⟩, ⟨1, 2⟩]], true) := by decide

/-- the same schedule under the fixed rule: the stale catch-up commit is skipped -/
example : (run (Sys.init 3) (f22Trace.take 12)).map (fun s => (s.nodes.map (fun n => n.log), conflictAt s 1)) =
    some ([[⟨1, 2⟩, ⟨3, 2⟩], [⟨1, 0⟩, ⟨3, 0⟩], [⟨2, 0⟩]], false) := by decide

/-- non-vacuity: a 3-node execution with a duplicated `ReplicateWrite`, a crash and restart of a
replica, a late reply (after the client ack) and its confirmation; all three logs end with the
transaction confirmed. -/
def nvTrace : List Action :=
  [.start 0 1 [1, 2], .dup 0, .deliver 0 0, .deliver 2 0, .finish 0 0, .crash 2, .restart 2,
   .deliver 0 0, .deliver 2 0, .deliver 0 0, .deliver 2 0, .deliver 0 0, .deliver 0 0]

example : (run (Sys.init 3) nvTrace).map (fun s => (s.nodes.map (fun n => n.log), s.acks, s.net.length)) =
    some ([[⟨1, 2⟩], [⟨1, 2⟩], [⟨1, 3⟩]], [(0, 1, 0)], 0) := by decide

example : ∃ s, Reachable 3 s ∧ ∃ n e, s.nodes[2]? = some n ∧ n.log[0]? = some e ∧ quorum 3 ≤ e.cnt :=
  match h : run (Sys.init 3) nvTrace with
  | some s => ⟨s, reachable_of_run nvTrace Reachable.init h, by
      have : (run (Sys.init 3) nvTrace).map (fun s => s.nodes.map (fun n => n.log)) =
        some [[⟨1, 2⟩], [⟨1, 2⟩], [⟨1, 3⟩]] := by decide
      rw [h] at this
      simp only [Option.map_some, Option.some.injEq] at this
      cases hn : s.nodes with
      | nil => rw [hn] at this; simp at this
      | cons a l =>
        rw [hn] at this
        cases l with
        | nil => simp at this
        | cons b l =>
          cases l with
          | nil => simp at this
          | cons c l =>
            simp at this
            exact ⟨c, ⟨1, 3⟩, by simp, by rw [this.2.2.1]; rfl, by decide⟩⟩
  | none => by
      have : (run (Sys.init 3) nvTrace).isSome = true := by decide
      rw [h] at this; cases this

end SierraModel.C10
