/-
C11 — acknowledged replicated writes persist on a quorum.

Model and quantifier as in `Props/C10.lean` (`Cluster/Protocol.lean`; every finite list of enabled
adversary actions).  `s.acks` is the ghost list of successes reported to clients: `(c, t, p)` = the
coordinator `c` answered `Ok` for transaction `t` appended at sequence `p` (recorded by the `finish`
step, i.e. after `set_confirmations` returned and the `ConfirmTransaction`s were sent).
-/
import SierraModel.Lemmas.ProtocolMono

namespace SierraModel.C11
open SierraModel.Protocol

/-- C11, first half: a write acknowledged to the client is stored at its sequence on at least a quorum
of distinct replicas and carries a quorum confirmation count on its coordinator. -/
theorem acked_write_on_quorum {rf : Nat} {s : Sys} (hr : Reachable rf s) {c : NodeId} {t : Tx} {p : Nat}
    (ha : (c, t, p) ∈ s.acks) :
    (∃ (n : Node) (e : Entry), s.nodes[c]? = some n ∧ n.log[p]? = some e ∧ e.tx = t ∧ quorum rf ≤ e.cnt) ∧
    (∃ rs : List NodeId, rs.Nodup ∧ quorum rf ≤ rs.length ∧ ∀ r ∈ rs, holdsAt s r t p) := by
  have hI := reachable_inv hr
  have hq : s.q = quorum rf := by unfold Sys.q; rw [reachable_rf hr]
  obtain ⟨n, e, hn, he, ht, hc⟩ := hI.acks _ ha
  have ht' : e.tx = t := ht
  refine ⟨⟨n, e, hn, he, ht', by rw [← hq]; exact hc⟩, ?_⟩
  obtain ⟨rs, nd, hl, hh⟩ := ((hI.nodes c n hn).1 p e he).2 hc
  exact ⟨rs, nd, by rw [← hq]; exact hl, by rw [← ht']; exact hh⟩

/-- C11, second half (never rolled back or hidden): in every continuation of the execution the ack is
still recorded, every node that stored `t` at `p` still stores `t` at `p`, and the coordinator's
count is still a quorum count. -/
theorem acked_write_stable {rf : Nat} {s s' : Sys} (hr : Reachable rf s) {c : NodeId} {t : Tx} {p : Nat}
    (ha : (c, t, p) ∈ s.acks) (as : List Action) (h : run s as = some s') :
    (c, t, p) ∈ s'.acks ∧ (∀ r, holdsAt s r t p → holdsAt s' r t p) ∧
    (∃ (n : Node) (e : Entry), s'.nodes[c]? = some n ∧ n.log[p]? = some e ∧ e.tx = t ∧ quorum rf ≤ e.cnt) := by
  obtain ⟨hg, _⟩ := run_grow as (reachable_inv hr) h
  have ha' := hg.2 _ ha
  exact ⟨ha', fun r hh => hh.mono hg.1, (acked_write_on_quorum (reachable_of_run as hr h) ha').1⟩

/-- C11, second half (never replaced): in every continuation no node ever carries a quorum count
for a different transaction at the acknowledged sequence. -/
theorem acked_write_never_superseded {rf : Nat} {s s' : Sys} (hr : Reachable rf s) {c : NodeId} {t : Tx}
    {p : Nat} (ha : (c, t, p) ∈ s.acks) (as : List Action) (h : run s as = some s')
    {r : NodeId} {n : Node} {e : Entry} (hn : s'.nodes[r]? = some n) (he : n.log[p]? = some e)
    (hc : quorum rf ≤ e.cnt) : e.tx = t := by
  have hr' := reachable_of_run as hr h
  have hI := reachable_inv hr'
  have hq : s'.q = quorum rf := by unfold Sys.q; rw [reachable_rf hr']
  obtain ⟨_, rs, nd, hl, hh⟩ := acked_write_on_quorum hr' ((run_grow as (reachable_inv hr) h).1.2 _ ha)
  have q1 : QH s' t p := ⟨rs, nd, by rw [hq]; exact hl, hh⟩
  have q2 := ((hI.nodes r n hn).1 p e he).2 (by rw [hq]; exact hc)
  obtain ⟨x, hx1, hx2⟩ := quorum_intersect hI.len q1 q2
  exact (holdsAt_unique hx1 hx2).symm

/-- non-vacuity: coordinator 0 acknowledges transaction `1` (replica 1 answered, the write to replica
2 was duplicated and one copy dropped), then crashes and restarts: the ack, the quorum count and
both copies are still there; the late duplicate then reaches replica 2. -/
def ackTrace : List Action :=
  [.start 0 1 [1, 2], .dup 1, .drop 1, .deliver 0 0, .deliver 1 0, .finish 0 0, .crash 0, .restart 0,
   .deliver 0 0]

example : (run (Sys.init 3) ackTrace).map (fun s => (s.nodes.map (fun n => n.log), s.acks)) =
    some ([[⟨1, 2⟩], [⟨1, 0⟩], [⟨1, 0⟩]], [(0, 1, 0)]) := by decide

example : ∃ s, Reachable 3 s ∧ (0, 1, 0) ∈ s.acks :=
  match h : run (Sys.init 3) ackTrace with
  | some s => ⟨s, reachable_of_run ackTrace Reachable.init h, by
      have : (run (Sys.init 3) ackTrace).map (fun s => s.acks) = some [(0, 1, 0)] := by decide
      rw [h] at this
      simp only [Option.map_some, Option.some.injEq] at this
      rw [this]; simp⟩
  | none => by
      have : (run (Sys.init 3) ackTrace).isSome = true := by decide
      rw [h] at this; cases this

end SierraModel.C11
