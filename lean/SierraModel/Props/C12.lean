/-
C12 — replicas apply replicated writes in sequence order, each at most once; every buffered write
is answered; none is left pending below the next expected sequence.

Quantifier: EVERY sequence of queue calls / EVERY delivery order, duplication and conflict pattern
(single and multi-event transactions, any buffer limit > 0, any expiry timing, gap detection at any
point), by induction over the operation list.  Models: `Cluster/Queue.lean` (`OrderedQueue`) and
`Cluster/Replicator.lean` (`PartitionReplicatorActor`), as the code is after the two C12 fixes.
-/
import SierraModel.Lemmas.Bookkeeping

namespace SierraModel.C12
open SierraModel.Cluster

/-! ### the ordered queue -/

/-- After ANY sequence of `insert` / `pop` / `progress_to` calls (any keys, values, targets) on a
fresh queue: keys strictly increasing (sorted, unique), NO entry below `next` (after the F21 fix:
nothing pending that can never be popped), at most `limit` entries. -/
theorem queue_invariant {V : Type} [OrderedValue V] (next limit : Nat) (ops : List (OQueue.QOp V)) :
    let q := (OQueue.new next limit : OQueue V).run ops
    q.map.Sorted ∧ (∀ k ∈ q.map.keys, q.next ≤ k) ∧ q.map.length ≤ limit := by
  have key : ∀ (q : OQueue V), QInv q → QInv (q.run ops) ∧ (q.run ops).limit = q.limit := by
    induction ops with
    | nil => intro q h; exact ⟨h, rfl⟩
    | cons op ops ih =>
      intro q h
      unfold OQueue.run
      rw [List.foldl_cons]
      cases op with
      | insert k v =>
        obtain ⟨a, b⟩ := ih _ (OQueue.insert_inv h k v)
        exact ⟨a, by rw [show (OQueue.step q (.insert k v)) = (q.insert k v).1 from rfl]; unfold OQueue.run at b; rw [b, OQueue.insert_limit]⟩
      | pop =>
        obtain ⟨a, b⟩ := ih _ (OQueue.pop_inv h)
        refine ⟨a, ?_⟩
        unfold OQueue.run at b
        rw [show (OQueue.step q .pop) = q.pop.1 from rfl, b]
        unfold OQueue.pop; split <;> rfl
      | progressTo n =>
        obtain ⟨a, b⟩ := ih _ (OQueue.progressTo_inv h n)
        exact ⟨a, by unfold OQueue.run at b; rw [show (OQueue.step q (.progressTo n)) = (q.progressTo n).1 from rfl, b]; rfl⟩
  obtain ⟨h, hl⟩ := key _ (OQueue.inv_new next limit)
  exact ⟨h.sorted, h.ge_next, by have := h.le_limit; rw [hl] at this; exact this⟩

/-- `insert` classifies exactly as the specification table `insertSpec` (stale / next-key vacant /
merge / conflict / future vacant / merge / conflict / full / evict-largest), in every state -/
theorem insert_classifies_as_table {V : Type} [OrderedValue V] (q : OQueue V) (key : Nat) (value : V) :
    insertClass q key value = insertSpec q key value :=
  OQueue.insertClass_eq_spec q key value

/-- the `expect("limit must be greater than 0")` inside `insert` never fires (limit > 0) -/
theorem insert_never_traps {V : Type} [OrderedValue V] (q : OQueue V) (hl : 0 < q.limit) (key : Nat) (value : V) :
    insertSpec q key value ≠ .trap ∧ (q.insert key value).2 ≠ .trap :=
  ⟨OQueue.insert_no_trap q hl key value, OQueue.insert_ne_trap hl key value⟩

/-- rejected inserts (`Conflict`, `Full`, `Stale`) return the value and leave the queue untouched
(in particular nothing is evicted for a write that is then rejected) -/
theorem rejected_insert_leaves_queue {V : Type} [OrderedValue V] (q : OQueue V) (key : Nat) (value : V) :
    (∀ v, (q.insert key value).2 = .conflict v → v = value ∧ (q.insert key value).1 = q) ∧
    (∀ k v, (q.insert key value).2 = .full k v → v = value ∧ (q.insert key value).1 = q) ∧
    (∀ k v, (q.insert key value).2 = .stale k v → v = value ∧ (q.insert key value).1 = q) :=
  OQueue.insert_rejected

/-! ### the replicator -/

open SierraModel.Cluster.Rep (ValidOps Delivered reach)

/-- After EVERY history of deliveries and gap detections: the queue holds no key below the next
expected sequence (keys sorted, unique, at most `limit`), the queue's `next` is the database's next
partition sequence, and nothing panicked (no `expect`, no arithmetic trap, and the model's loop
fuel was never exhausted). -/
theorem replica_invariant (next limit timeout : Nat) (hl : 0 < limit) (ops : List ROp) (hv : ValidOps ops) :
    let st := (Rep.new next limit timeout).run ops
    st.q.map.Sorted ∧ (∀ k ∈ st.q.map.keys, st.q.next ≤ k) ∧ st.q.map.length ≤ st.q.limit ∧
    st.q.next = st.dbNext ∧ st.trapped = false := by
  have h := reach next limit timeout hl ops hv
  exact ⟨h.q.sorted, h.q.ge_next, h.q.le_limit, h.next_eq, h.not_trapped⟩

/-- Every transaction in the log was delivered with exactly the sequence it sits at (key = its
first partition sequence), its transaction id and event count: a replica appends a transaction
only at the sequence the coordinator assigned. -/
theorem applied_at_assigned_sequence (next limit timeout : Nat) (hl : 0 < limit) (ops : List ROp)
    (hv : ValidOps ops) :
    ∀ e ∈ ((Rep.new next limit timeout).run ops).log,
      ∃ now rid, ROp.deliver now e.first e.tx e.n rid ∈ ops :=
  (reach next limit timeout hl ops hv).logD

/-- The log is contiguous from the initial sequence to the database's next sequence and its
entries occupy pairwise disjoint, increasing sequence ranges: each sequence holds at most one
transaction, each delivered (key, transaction) is applied at most once. -/
theorem applied_in_order_at_most_once (next limit timeout : Nat) (hl : 0 < limit) (ops : List ROp)
    (hv : ValidOps ops) :
    let st := (Rep.new next limit timeout).run ops
    Rep.LogChain next st.log st.dbNext ∧ st.log.Pairwise (fun a b => a.first + a.n ≤ b.first) ∧
    st.log.Pairwise (fun a b => a.first < b.first) := by
  have h := reach next limit timeout hl ops hv
  obtain ⟨h1, h2⟩ := Rep.logChain_lt h.chain
  refine ⟨h.chain, h2, ?_⟩
  have hpos : ∀ x ∈ ((Rep.new next limit timeout).run ops).log, 0 < x.n := by
    intro x hx
    obtain ⟨now, rid, hm⟩ := h.logD x hx
    exact hv now _ _ _ rid hm
  have h3 : ((Rep.new next limit timeout).run ops).log.Pairwise
      (fun a b => 0 < a.n ∧ a.first + a.n ≤ b.first) := by
    rw [List.pairwise_iff_forall_sublist] at h2 ⊢
    intro a b hab
    exact ⟨hpos a (hab.subset (by simp)), h2 hab⟩
  exact h3.imp (fun ⟨p, q⟩ => by omega)

/-- One step from any reachable state: the log only grows, and only by transactions appended at
the then-current next sequence (the appended part is itself a contiguous chain from the old
`dbNext` to the new one). -/
theorem log_grows_only_at_next (next limit timeout : Nat) (hl : 0 < limit) (ops : List ROp) (op : ROp)
    (hv : ValidOps (ops ++ [op])) :
    let st := (Rep.new next limit timeout).run ops
    ∃ l, (st.step op).log = st.log ++ l ∧ Rep.LogChain st.dbNext l (st.step op).dbNext :=
  Rep.step_log (Rep.delivered_pos hv) _ (Rep.reach_prefix next limit timeout hl ops [op] hv) op
    (fun now _ _ _ rid h => ⟨now, rid, by simp [h]⟩)

/-- The local append of a write that reached the head of the queue never fails: no asker is ever
answered `WrongExpectedSequence`/database failure — a buffered write IS applied as soon as its
predecessor is. -/
theorem popped_write_is_applied (next limit timeout : Nat) (hl : 0 < limit) (ops : List ROp)
    (hv : ValidOps ops) :
    ∀ x ∈ ((Rep.new next limit timeout).run ops).answers, x.2 ≠ Ans.dbFailed :=
  Rep.run_nofail (Rep.delivered_pos hv) (Rep.inv_new next limit timeout hl) (by intro x hx; simp [Rep.new] at hx)
    ops (fun now _ _ _ rid h => ⟨now, rid, h⟩)

/-- A delivery that the queue classifies as stale, conflicting or full changes neither the log,
nor the database position, nor the buffer. -/
theorem rejected_delivery_changes_nothing (st : Rep) (now key tx n rid : Nat)
    (hc : insertSpec st.q key ({ key := key, tx := tx, n := n, senders := [⟨rid, now⟩] } : BW) ∈
      [InsertClass.stale, .nextConflict, .futureConflict, .full]) :
    (st.deliver now key tx n rid).log = st.log ∧ (st.deliver now key tx n rid).q = st.q ∧
    (st.deliver now key tx n rid).dbNext = st.dbNext := by
  rw [← insert_classifies_as_table] at hc
  unfold insertClass at hc
  unfold Rep.deliver
  dsimp only
  rcases hins : st.q.insert key ({ key := key, tx := tx, n := n, senders := [⟨rid, now⟩] } : BW) with ⟨q', o⟩
  rw [hins] at hc
  dsimp only at hc
  cases o with
  | ready v b => cases b <;> simp [InsertOut.cls] at hc
  | buffered b ev => cases b <;> cases ev <;> simp [InsertOut.cls] at hc
  | conflict v => exact Rep.answerFirst_core st v _
  | full k v => exact Rep.answerFirst_core st v _
  | stale k v => exact Rep.answerFirst_core st v _
  | trap => simp [InsertOut.cls] at hc

/-
FULL STATEMENT (not proved in this strength): "every buffered write is EVENTUALLY answered", i.e.
  ∀ history, ∀ delivered ask r, ∃ a later point of every fair continuation at which r ∈ answered.
What is missing is fairness of the environment, which is outside the model: a still-buffered write
is answered when its predecessor is delivered (then it is applied — `popped_write_is_applied`),
when a lower key evicts it, or when it expires and the expiry is noticed by the next pop /
`detect_and_handle_gaps` — the latter is driven by a tokio timer and by the catch-up response
(`PartitionSyncResponse`, part of C10), neither of which is modelled.  Proved part (safety form,
every history): no reply sender is ever lost or answered twice, and a not-yet-answered one is
buffered under a key ≥ next, i.e. still able to be applied or expired.
-/
/-- Bookkeeping of reply senders: after EVERY history, the answered asks together with the asks
still buffered are exactly the delivered asks (as multisets).  With distinct ask ids, every
delivered write is therefore in exactly one place exactly once: answered once (applied / stale /
conflict / full / evicted / expired-dropped) or still buffered — and buffered means under a key
≥ next (`replica_invariant`), i.e. still applicable. -/
theorem every_write_answered_exactly_once_partial (next limit timeout : Nat) (hl : 0 < limit) (ops : List ROp)
    (hv : ValidOps ops) :
    let st := (Rep.new next limit timeout).run ops
    (Rep.answered st ++ Rep.pending st).Perm (Rep.deliveredRids ops) ∧
    ((Rep.deliveredRids ops).Nodup → (Rep.answered st ++ Rep.pending st).Nodup) := by
  have hp : (Rep.answered ((Rep.new next limit timeout).run ops) ++
      Rep.pending ((Rep.new next limit timeout).run ops)).Perm (Rep.deliveredRids ops) := by
    apply Rep.perm_of_counts
    intro a
    have := Rep.run_book (D := Delivered ops) (base := next)
      (Rep.delivered_pos hv) (Rep.inv_new next limit timeout hl) ops
      (fun now _ _ _ rid h => ⟨now, rid, h⟩) a
    simp only [Rep.bookCount] at this
    rw [List.count_append, this]
    simp [Rep.answered, Rep.pending, Rep.pendingOf, Rep.new, OQueue.new]
  exact ⟨hp, fun hn => hp.nodup_iff.mpr hn⟩

/-- `detect_and_handle_gaps` never traps in a reachable state: `oldest_buffered_seq - 1` and
`oldest_buffered_seq - next` (checked subtractions) are defined, for every expiry pattern. -/
theorem gap_arithmetic_never_traps (next limit timeout : Nat) (hl : 0 < limit) (ops : List ROp)
    (hv : ValidOps ops) (now : Nat) (permitted : Bool) :
    (((Rep.new next limit timeout).run ops).detectGaps now permitted).2 ≠ .trap :=
  (Rep.detectGaps_spec (reach next limit timeout hl ops hv) now permitted).2.1

/-! ### non-vacuity (tests, labelled as tests) -/

-- F21 history: keys 1, 2 buffered, then the 3-event transaction at 0 jumps to 3: both are answered
-- stale, the write at 3 is applied next; gap detection afterwards finds nothing
example :
    let st := (Rep.new 0 4 100).run [.deliver 0 1 21 1 0, .deliver 0 2 22 1 1, .deliver 0 0 10 3 2,
      .deliver 0 4 14 1 3, .deliver 0 3 13 1 4, .gaps 5 true]
    st.log = [⟨0, 10, 3⟩, ⟨3, 13, 1⟩, ⟨4, 14, 1⟩] ∧ st.dbNext = 5 ∧ st.q.map = [] ∧
    st.answers = [(0, .stale), (1, .stale), (2, .applied 0 2), (4, .applied 3 3), (3, .applied 4 4)] := by
  decide

-- eviction, full, duplicate merge, conflict with a full buffer (limit 2)
example :
    let st := (Rep.new 0 2 100).run [.deliver 0 3 13 1 0, .deliver 0 5 15 1 1, .deliver 0 7 17 1 2,
      .deliver 0 2 12 1 3, .deliver 0 2 32 1 4, .deliver 0 3 13 1 5]
    st.answers = [(2, .full), (1, .evicted), (4, .conflict)] ∧ Rep.pending st = [3, 0, 5] ∧ st.log = [] := by
  decide

-- the gap decision and its checked arithmetic on a buffered key above next
example : (((Rep.new 0 2 100).run [.deliver 0 3 13 1 0]).detectGaps 7 true).2 = .catchUp 0 2 := by decide

example : ValidOps [.deliver 0 1 21 1 0, .gaps 3 true] := by
  intro now key tx n rid h; simp at h; omega

-- a queue history through every class of the table
example : ((OQueue.new 0 2 : OQueue BW).run [.insert 2 ⟨2, 7, 1, []⟩, .insert 4 ⟨4, 8, 1, []⟩,
    .insert 3 ⟨3, 9, 1, []⟩, .progressTo 3, .pop]).map = [] := by decide
example : insertSpec ({ map := [(2, ⟨2, 7, 1, []⟩), (4, ⟨4, 8, 1, []⟩)], next := 0, limit := 2 } : OQueue BW) 3 ⟨3, 9, 1, []⟩
    = .evictLargest := by decide

end SierraModel.C12
