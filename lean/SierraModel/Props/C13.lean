/-
C13 — storage placement agrees with cluster routing for every configuration.
Quantifier: ALL node counts n, node indexes i, bucket counts B, partition counts P and
replication factors rf (validation only adds: n > 0, B > 0, i < n, rf ≤ n, P ≥ n, P ≥ B — the
theorems need only B > 0).
-/
import SierraModel.Lemmas.Assign

namespace SierraModel.C13
open SierraModel.Topology

/-- The partitions a node claims in the topology are exactly the partitions its storage
configuration assigns to it. -/
theorem storage_eq_topology (i n B P rf : Nat) :
    cfgPartitions i n B P rf = topoPartitions i n P B rf :=
  cfgPartitions_eq_topoPartitions i n B P rf

/-- A node stores partition p iff the cluster's replica computation routes p to that node. -/
theorem stores_iff_routed (i n B P rf p : Nat) (hB : 0 < B) (hp : p < P) :
    p ∈ cfgPartitions i n B P rf ↔ i ∈ replicaIdx p B n rf := by
  rw [mem_cfgPartitions _ _ _ _ _ _ hB, mem_replicaIdx]
  exact ⟨fun h => h.2, fun h => ⟨hp, h⟩⟩

/-- The buckets a node opens are exactly the buckets of the partitions routed to it. -/
theorem opened_buckets_exact (i n B rf b : Nat) (hB : 0 < B) :
    b ∈ cfgBuckets i n B rf ↔ b < B ∧ i ∈ replicaIdx b B n rf := by
  rw [mem_cfgBuckets, mem_replicaIdx]
  constructor
  · rintro ⟨h1, h2⟩; exact ⟨h1, by rwa [Nat.mod_eq_of_lt h1]⟩
  · rintro ⟨h1, h2⟩; exact ⟨h1, by rwa [Nat.mod_eq_of_lt h1] at h2⟩
  all_goals exact hB

/-- A request for partition p routed to a replica node i lands in a bucket (`p % B`) that node
opened. -/
theorem routed_request_lands_in_opened_bucket (i n B rf p : Nat) (hB : 0 < B)
    (hr : i ∈ replicaIdx p B n rf) : p % B ∈ cfgBuckets i n B rf := by
  rw [mem_cfgBuckets]
  refine ⟨Nat.mod_lt _ hB, ?_⟩
  rw [mem_replicaIdx] at hr
  exact hr

/-- every peer the manager lists as replica of p sits at a configured index in p's replica walk -/
theorem manager_replicas_are_routed (p B n rf : Nat) (known : Known) (peer : Nat)
    (h : peer ∈ partitionReplicas p B n rf known) :
    ∃ idx ∈ replicaIdx p B n rf, known.get idx = some peer := by
  unfold partitionReplicas at h
  split at h
  · simp at h
  · simp only [List.mem_filterMap] at h
    exact h

-- non-vacuity (tests, labelled as tests): the pre-fix counterexample configuration
example : cfgBuckets 0 2 4 1 = [0, 2] ∧ cfgPartitions 0 2 4 8 1 = [0, 2, 4, 6] := by decide

end SierraModel.C13
