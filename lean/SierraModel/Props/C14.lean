/-
C14 — every partition has exactly min(rf, N) distinct replicas, the same on every node.
Quantifier: ALL cluster sizes (no u8 truncation: N ≥ 256 included), bucket/partition counts,
replication factors, and EVERY order of membership events (induction over the event list).
-/
import SierraModel.Lemmas.Manager

namespace SierraModel.C14
open SierraModel.Topology

/-- the replica walk of a partition visits exactly min(rf, n) pairwise distinct node indexes < n -/
theorem replica_indexes (p B n rf : Nat) (hn : 0 < n) :
    (replicaIdx p B n rf).length = min rf n ∧ (replicaIdx p B n rf).Nodup ∧
    ∀ i ∈ replicaIdx p B n rf, i < n :=
  ⟨replicaIdx_length p B n rf, replicaIdx_nodup p B n rf hn, fun i h => replicaIdx_lt p B n rf i hn h⟩

/-- when every configured node index is known (and distinct indexes are distinct peers), every
partition has exactly min(rf, n) distinct replicas -/
theorem replica_count (p B n rf : Nat) (known : Known) (hn : 0 < n)
    (hall : ∀ idx, idx < n → ∃ peer, known.get idx = some peer)
    (hinj : ∀ i j peer, known.get i = some peer → known.get j = some peer → i = j) :
    (partitionReplicas p B n rf known).length = min rf n ∧ (partitionReplicas p B n rf known).Nodup := by
  have hne : known.isEmpty = false := by
    obtain ⟨peer, hp⟩ := hall 0 hn
    cases known with
    | nil => simp [Known.get] at hp
    | cons _ _ => rfl
  unfold partitionReplicas
  simp only [hne, Bool.false_eq_true, if_false]
  constructor
  · rw [← replicaIdx_length p B n rf]
    have : ∀ l : List Nat, (∀ i ∈ l, i < n) → (l.filterMap known.get).length = l.length := by
      intro l hl
      induction l with
      | nil => rfl
      | cons a l ih =>
        obtain ⟨peer, hp⟩ := hall a (hl a (by simp))
        simp only [List.filterMap_cons, hp, List.length_cons]
        rw [ih (fun i hi => hl i (by simp [hi]))]
    exact this _ (fun i hi => replicaIdx_lt p B n rf i hn hi)
  · exact List.Nodup.filterMap (fun a a' b hb hb' => hinj a a' b (by simpa using hb) (by simpa using hb'))
      (replicaIdx_nodup p B n rf hn)

/-- replica sets are `ArrayVec<_, 12>` in the code: with a validated replication factor (≤ 12,
enforced by configuration validation) the pushes never exceed the capacity (no panic) -/
theorem no_capacity_trap (p B n rf : Nat) (known : Known) (hrf : rf ≤ MAX_REPLICATION_FACTOR) :
    (partitionReplicas p B n rf known).length ≤ MAX_REPLICATION_FACTOR := by
  unfold partitionReplicas
  split
  · simp
  · calc (List.filterMap known.get (replicaIdx p B n rf)).length
        ≤ (replicaIdx p B n rf).length := List.length_filterMap_le _ _
      _ = min rf n := replicaIdx_length p B n rf
      _ ≤ MAX_REPLICATION_FACTOR := by omega

/-- a node (index i) owns partition p iff it appears in p's replica walk -/
theorem owner_iff_member (i n P B rf p : Nat) (hB : 0 < B) (hp : p < P) :
    p ∈ topoPartitions i n P B rf ↔ i ∈ replicaIdx p B n rf := by
  rw [← cfgPartitions_eq_topoPartitions, mem_cfgPartitions _ _ _ _ _ _ hB, mem_replicaIdx]
  exact ⟨fun h => h.2, fun h => ⟨hp, h⟩⟩

/-- the invariant (active nodes are addressable, replica sets = function of the membership)
holds initially and after EVERY sequence of membership events, in any order -/
theorem invariant_every_event_order (cfg : Cfg) (peer idx since : Nat) (es : List Ev)
    (hv : ValidRun (Mgr.new cfg peer idx since) es) :
    Inv (es.foldl stepEv (Mgr.new cfg peer idx since)) :=
  inv_run _ es (inv_new cfg peer idx since) hv

/-- two nodes that know the same live members compute the same replica sets ... -/
theorem same_members_same_replicas (m1 m2 : Mgr) (h1 : Inv m1) (h2 : Inv m2) (hc : m1.cfg = m2.cfg)
    (hs : SameMembers m1.active m2.active) (hu1 : UniqueIdx m1.active) (hu2 : UniqueIdx m2.active) :
    m1.replicas = m2.replicas := by
  rw [h1.cur, h2.cur]
  simp only [recalc, hc]
  rw [knownOf_eq_map _ _ h1.air, knownOf_eq_map _ _ h2.air]
  apply List.map_congr_left
  intro p _
  unfold partitionReplicas
  have he : (m1.active.map (fun e => (e.2.2, e.1))).isEmpty = (m2.active.map (fun e => (e.2.2, e.1))).isEmpty := by
    simpa using sameMembers_isEmpty _ _ hs
  rw [he]
  split
  · rfl
  · apply List.filterMap_congr
    intro idx _
    rw [known_get_map, known_get_map, find_same _ _ hs hu1 hu2]

/-- ... and the same coordinator order (available replicas sorted by (alive_since, ref)) -/
theorem same_members_same_order (m1 m2 : Mgr) (h1 : Inv m1) (h2 : Inv m2) (hc : m1.cfg = m2.cfg)
    (hs : SameMembers m1.active m2.active) (hu1 : UniqueIdx m1.active) (hu2 : UniqueIdx m2.active)
    (hp1 : UniquePeer m1.active) (hp2 : UniquePeer m2.active) (p : Nat) :
    availableReplicas m1 p = availableReplicas m2 p := by
  unfold availableReplicas
  rw [same_members_same_replicas m1 m2 h1 h2 hc hs hu1 hu2]
  cases m2.replicas[p]? with
  | none => rfl
  | some rs =>
    simp only []
    congr 1
    apply List.filterMap_congr
    intro peer _
    rw [amGet_same _ _ hs hp1 hp2]

-- non-vacuity (tests, labelled as tests): a 3-node run reaching full knowledge, incl. N = 256
example : ((([Ev.connect 1 5 1, Ev.connect 2 7 2].foldl stepEv (Mgr.new ⟨3, 6, 3, 2⟩ 0 0 3)).replicas) =
    [[0, 1], [1, 2], [2, 0], [0, 1], [1, 2], [2, 0]]) := by decide
example : (replicaIdx 5 7 256 3).length = 3 := by decide

end SierraModel.C14
