/-
C15 — "For any interleaving of concurrent appenders and readers, a read that starts after an append
was acknowledged observes it.  A sequence of reads by one reader never loses an event or version it
already observed, including while a segment rollover is in progress."

Model: `Store/Conc.lean`.  A reader's event lookup is two atomic steps, `lookupLive` (published live
index) and, on a miss, `lookupPool` (sealed indexes); a rollover is one atomic step of the writer
(`process`) that moves the published live entries to a sealed index (F07 fix: one critical
section).  "Published" = present in the published live index or a sealed index
(`Bucket.published`, entries `Bucket.pubIdx`).  All theorems quantify over every schedule from the
empty bucket that satisfies the input validity `SchedOk` (fresh event / transaction ids).
Scan-start consistency under a concurrent rollover (`snapshot_consistent`, `snapshot_stable`,
`split_snapshot_inconsistent_example`) is in `Props/C15Scan.lean`, same namespace.
-/
import SierraModel.Lemmas.ConcRead
import SierraModel.Lemmas.ConcPubVer
import SierraModel.Lemmas.ConcClash2
import SierraModel.Lemmas.ConcExample
import SierraModel.Props.C15Scan

namespace SierraModel.C15
open SierraModel.Store

/-- the initial state: empty bucket, no clients, no readers -/
abbrev start (segSize : Nat) (comp : Bool) : Conc := Conc.init (Bucket.new segSize comp)

/-- (d1) acknowledged ⇒ published, existence: every acknowledgement in the ghost log belongs to a
processed request with that reply all of whose events are in the published live index or a sealed
index. -/
theorem acked_published_exists (segSize : Nat) (comp : Bool) (sched : List Action)
    (hok : SchedOk (start segSize comp) {} sched) :
    ∀ r ∈ ((start segSize comp).run {} sched).1.ackedLog,
      ∃ tx, (tx, .ok r) ∈ ((start segSize comp).run {} sched).1.processed ∧
        ∀ e ∈ tx.events, ((start segSize comp).run {} sched).1.b.published e.eid = true :=
  (ackInv_run sched _ _ (concInv_init segSize comp) (ackInv_init _) hok).2.acked_ok

/-- (d1) acknowledged ⇒ published: replies identify their request (no two accepted requests get
the same reply), so for EVERY processed request whose reply is in the acknowledgement log, every
event of the request is in the published live index or a sealed index. -/
theorem acked_published (segSize : Nat) (comp : Bool) (sched : List Action)
    (hok : SchedOk (start segSize comp) {} sched) (r : AppendOk) (tx : Tx)
    (hack : r ∈ ((start segSize comp).run {} sched).1.ackedLog)
    (htx : (tx, Except.ok r) ∈ ((start segSize comp).run {} sched).1.processed) :
    ∀ e ∈ tx.events, ((start segSize comp).run {} sched).1.b.published e.eid = true := by
  obtain ⟨tx0, h0, hp⟩ := acked_published_exists segSize comp sched hok r hack
  obtain ⟨_, hk⟩ := clashInv_run sched _ _ (concInv_init segSize comp) (clashInv_init _) hok
  rw [reply_unique hk htx h0]; exact hp

/-- (d2) a lookup that starts when `eid` is published (in particular: after its transaction was
acknowledged) completes with "found", whatever other threads do between its two steps — including
a whole rollover between `lookupLive` and `lookupPool`. -/
theorem published_event_is_found (segSize : Nat) (comp : Bool) (pre mid : List Action) (rd eid : Nat)
    (hok : SchedOk (start segSize comp) {} (pre ++ .lookupLive rd eid :: (mid ++ [.lookupPool rd])))
    (hmid : ∀ a ∈ mid, a.byReader rd = false)
    (hp : ((start segSize comp).run {} pre).1.b.published eid = true) :
    getAssoc ((start segSize comp).run {} (pre ++ .lookupLive rd eid :: (mid ++ [.lookupPool rd]))).1.readers rd
      = some (.done eid true) := by
  rw [schedOk_append] at hok
  rw [Conc.run_append]
  exact lookup_finds (concInv_run pre _ _ (concInv_init segSize comp) hok.1) hp mid hmid hok.2

/-- (d) a read that starts after an append was acknowledged observes it: if, when `lookupLive rd
e.eid` executes, the reply `r` of the processed request `tx` is in the acknowledgement log and `e`
is an event of `tx`, the lookup completes with "found" whatever is scheduled between its two
steps (`mid`: anything not by reader `rd` itself, e.g. a `process` with a whole rollover). -/
theorem acked_event_is_found (segSize : Nat) (comp : Bool) (pre mid : List Action) (rd : Nat)
    (tx : Tx) (r : AppendOk) (e : NewEv)
    (hok : SchedOk (start segSize comp) {} (pre ++ .lookupLive rd e.eid :: (mid ++ [.lookupPool rd])))
    (hmid : ∀ a ∈ mid, a.byReader rd = false)
    (hack : r ∈ ((start segSize comp).run {} pre).1.ackedLog)
    (htx : (tx, Except.ok r) ∈ ((start segSize comp).run {} pre).1.processed) (he : e ∈ tx.events) :
    getAssoc ((start segSize comp).run {}
      (pre ++ .lookupLive rd e.eid :: (mid ++ [.lookupPool rd]))).1.readers rd = some (.done e.eid true) :=
  published_event_is_found segSize comp pre mid rd e.eid hok hmid
    (acked_published segSize comp pre ((schedOk_append _ _ _ _).1 hok).1 r tx hack htx e he)

/-- Remark on the form of (d): "whatever is scheduled between its two steps" cannot include lookup
steps of the SAME reader (a reader task runs its two steps in program order; a new `lookupLive` of
that reader starts a new lookup and overwrites the pending one) — without `hmid` the statement is
false of the model: -/
theorem acked_event_is_found_without_hmid_counterexample :
    ∃ (pre mid : List Action) (rd : Nat) (tx : Tx) (r : AppendOk) (e : NewEv),
      SchedOk (start 300 false) {} (pre ++ .lookupLive rd e.eid :: (mid ++ [.lookupPool rd])) ∧
      r ∈ ((start 300 false).run {} pre).1.ackedLog ∧
      (tx, Except.ok r) ∈ ((start 300 false).run {} pre).1.processed ∧ e ∈ tx.events ∧
      Example.foundBy (getAssoc ((start 300 false).run {}
        (pre ++ .lookupLive rd e.eid :: (mid ++ [.lookupPool rd]))).1.readers rd) e.eid = false := by
  refine ⟨Example.phase1, [.lookupLive 8 999], 8, Example.tx0,
    { first := 0, last := 0, versions := [(7, 0)], offsets := [48], writeOff := 148 },
    Example.ev 100 .empty, by decide +kernel, ?_, ?_, by simp [Example.tx0, Example.mkTx], by decide +kernel⟩
  · have : ((start 300 false).run {} Example.phase1).1.ackedLog =
        [{ first := 0, last := 0, versions := [(7, 0)], offsets := [48], writeOff := 148 }] := by
      rfl
    rw [this]; simp
  · have : ((start 300 false).run {} Example.phase1).1.processed =
        [(Example.tx0, .ok { first := 0, last := 0, versions := [(7, 0)], offsets := [48], writeOff := 148 })] := by
      rfl
    rw [this]; simp

/-- (e1) the published entries only grow: the entry list after `pre ++ post` extends the one after
`pre`, so no published event id ever disappears. -/
theorem published_entries_never_disappear (segSize : Nat) (comp : Bool) (pre post : List Action)
    (hok : SchedOk (start segSize comp) {} (pre ++ post)) :
    (∃ ext, ((start segSize comp).run {} (pre ++ post)).1.b.pubIdx =
        ((start segSize comp).run {} pre).1.b.pubIdx ++ ext) ∧
    ∀ eid, ((start segSize comp).run {} pre).1.b.published eid = true →
      ((start segSize comp).run {} (pre ++ post)).1.b.published eid = true := by
  rw [schedOk_append] at hok
  have hi := concInv_run pre _ _ (concInv_init segSize comp) hok.1
  have h := (run_pub post _ _ hi hok.2).1
  rw [Conc.run_append]
  exact ⟨h, fun eid hp => published_mono h hp⟩

/-- (e2) a reader's repeated lookups never go from found to not found: once some lookup has
reported `eid` found, every later complete lookup of `eid` reports found. -/
theorem found_stays_found (segSize : Nat) (comp : Bool) (pre mid1 mid2 : List Action)
    (rd0 rd eid : Nat)
    (hok : SchedOk (start segSize comp) {}
      (pre ++ (mid1 ++ .lookupLive rd eid :: (mid2 ++ [.lookupPool rd]))))
    (hmid : ∀ a ∈ mid2, a.byReader rd = false)
    (hfound : getAssoc ((start segSize comp).run {} pre).1.readers rd0 = some (.done eid true)) :
    getAssoc ((start segSize comp).run {}
      (pre ++ (mid1 ++ .lookupLive rd eid :: (mid2 ++ [.lookupPool rd])))).1.readers rd
      = some (.done eid true) := by
  have hok' := hok
  rw [schedOk_append] at hok'
  obtain ⟨_, hr⟩ := readerInv_run pre _ _ (concInv_init segSize comp)
    (by intro x hx; simp [Conc.init] at hx) hok'.1
  have hp := hr _ (getAssoc_mem hfound) eid rfl
  rw [← List.append_assoc] at hok ⊢
  refine published_event_is_found segSize comp (pre ++ mid1) mid2 rd eid hok hmid ?_
  rw [schedOk_append] at hok
  exact (published_entries_never_disappear segSize comp pre mid1 hok.1).2 eid hp

/-- (e3) the stream version observed through the published indexes never decreases. -/
theorem stream_version_never_decreases (segSize : Nat) (comp : Bool) (pre post : List Action)
    (hok : SchedOk (start segSize comp) {} (pre ++ post)) (st k v : Nat)
    (h : ((start segSize comp).run {} pre).1.b.streamVersion st = some (k, v)) :
    ∃ v', ((start segSize comp).run {} (pre ++ post)).1.b.streamVersion st = some (k, v') ∧ v ≤ v' :=
  streamVersion_mono (concInv_run _ _ _ (concInv_init segSize comp) hok).inv
    (published_entries_never_disappear segSize comp pre post hok).1 h

/-- (e4) the partition sequence observed through the published indexes never decreases. -/
theorem partition_sequence_never_decreases (segSize : Nat) (comp : Bool) (pre post : List Action)
    (hok : SchedOk (start segSize comp) {} (pre ++ post)) (pid s : Nat)
    (h : ((start segSize comp).run {} pre).1.b.partitionSequence pid = some s) :
    ∃ s', ((start segSize comp).run {} (pre ++ post)).1.b.partitionSequence pid = some s' ∧ s ≤ s' :=
  partitionSequence_mono (concInv_run _ _ _ (concInv_init segSize comp) hok).inv
    (published_entries_never_disappear segSize comp pre post hok).1 h

/-! ### non-vacuity: the schedule of `Lemmas/ConcExample.lean` -/
section examples
open SierraModel.Store.Example

example : SchedOk (start 300 false) {} sched := by decide +kernel
/-- before the rollover: event 100 is acknowledged and published, reader 8 found it in the live
index; event 101 is written but not published, reader 9 missed it in the live index -/
example : ((start 300 false).run {} (phase1 ++ phase2)).1.ackedLog.length = 1 ∧
    ((start 300 false).run {} (phase1 ++ phase2)).1.b.published 100 = true ∧
    ((start 300 false).run {} (phase1 ++ phase2)).1.b.published 101 = false ∧
    foundBy (getAssoc ((start 300 false).run {} (phase1 ++ phase2)).1.readers 8) 100 = true ∧
    missedBy (getAssoc ((start 300 false).run {} (phase1 ++ phase2)).1.readers 9) 101 = true ∧
    ((start 300 false).run {} (phase1 ++ phase2)).1.b.live.id = 0 := by decide +kernel
/-- the rollover happens between the two steps of both lookups; both complete with "found" -/
example : ((start 300 false).run {} sched).1.b.live.id = 1 ∧
    foundBy (getAssoc ((start 300 false).run {} sched).1.readers 8) 100 = true ∧
    foundBy (getAssoc ((start 300 false).run {} sched).1.readers 9) 101 = true ∧
    ((start 300 false).run {} sched).1.b.inSealed 100 = true ∧
    ((start 300 false).run {} sched).1.b.published 103 = true ∧
    ((start 300 false).run {} sched).1.b.published 102 = false ∧
    ((start 300 false).run {} sched).1.ackedLog.length = 3 := by decide +kernel
example : ((start 300 false).run {} phase1).1.b.streamVersion 7 = some (1, 0) ∧
    ((start 300 false).run {} sched).1.b.streamVersion 7 = some (1, 2) ∧
    ((start 300 false).run {} sched).1.b.partitionSequence 5 = some 2 := by decide +kernel

end examples

end SierraModel.C15
