/-
C15 (continued) — scan-start consistency under a concurrent rollover.

`BucketIter::new_inner` starts a scan of the live segment from a pair (segment id, offsets of the
key in the live index).  Fixed code (commit b4a03f1): the id is read while the live-index read lock
is held — `snapAtomic`, one state; this is what `liveKey` / `newInner` (Store/Read.lean) assume
(`snapAtomic_eq_liveKey`).  Pre-fix code: id loaded from an atomic first, offsets copied under the
lock afterwards — `snapSplit b1 b2`, with arbitrary writer steps (in particular a rollover) between
`b1` and `b2`.

(2) `snapshot_consistent`: in every raw-reachable bucket the atomic snapshot is consistent: its
segment is readable, every offset is an event record of the key in THAT segment, fsynced (ends at or
below the read limit), and `readCommitted` at the offset returns a group starting with that event.
(3) `snapshot_stable`: it stays so while the writer runs on (appends, syncs, rollovers): the
segment is still readable under the same id — live or sealed —, only extended, the offsets are the
same records, and every read at a snapshot offset returns what it returned at snapshot time.
(4) `split_snapshot_inconsistent_example`: the pre-fix split read is wrong in the model too.
-/
import SierraModel.Lemmas.ScanStartExample

namespace SierraModel.C15
open SierraModel.Store

/-- (2) consistency of the atomic scan-start snapshot in every raw-reachable state. -/
theorem snapshot_consistent {b : Bucket} (hr : RawReachable b) (c : ScanCfg) {id : Nat}
    {offs : List Nat} (hs : snapAtomic b c = some (id, offs)) :
    ∃ recs limit, segRecs b id = some (recs, limit) ∧ OffsetsIn recs c offs ∧
      (∀ p ∈ recs, p.off ∈ offs → p.off + p.size ≤ limit) ∧
      ∀ o ∈ offs, ∃ e rest, readCommitted recs limit o = some ((e, o) :: rest) ∧
        c.sel (entryOf e o) = true :=
  snapshot_consistent_inv hr.inv hs

/-- (3) stability of the snapshot along every valid continuation of the writer's history
(`appendTx` incl. rollovers, `sync`): same segment id, records only appended (also across sealing),
limit not lower, the snapshot offsets are the same records of the key, and every read at a snapshot
offset is unchanged. -/
theorem snapshot_stable {b : Bucket} (hr : RawReachable b) (c : ScanCfg) {id : Nat} {offs : List Nat}
    {recs : List Placed} {limit : Nat} (hs : snapAtomic b c = some (id, offs))
    (hseg : segRecs b id = some (recs, limit)) (ops : List RawOp) (hok : RawRunOk b ops) :
    ∃ recs' limit', segRecs (b.rawRun ops) id = some (recs', limit') ∧ recs <+: recs' ∧ limit ≤ limit' ∧
      OffsetsIn recs' c offs ∧
      (∀ p ∈ recs', p.off ∈ offs → p ∈ recs ∧ p.off + p.size ≤ limit) ∧
      ∀ o ∈ offs, readCommitted recs' limit' o = readCommitted recs limit o :=
  snapshot_stable_inv hr.inv hs hseg ops hok

/-- (4) the pre-fix two-step read is inconsistent: a raw-reachable `b1` (live segment 0: stream 9 at
offset 48, stream 7 at 148), a valid continuation `ops` with a rollover and a further synced append
of stream 7 (offset 48 of segment 1) to `b2`; the split read pairs segment id 0 with the offsets
`[48]` of segment 1, and offset 48 of segment 0 is not an event of stream 7. -/
theorem split_snapshot_inconsistent_example :
    ∃ (b1 b2 : Bucket) (ops : List RawOp) (c : ScanCfg) (id : Nat) (offs : List Nat)
      (recs : List Placed) (limit : Nat),
      RawReachable b1 ∧ RawRunOk b1 ops ∧ b2 = b1.rawRun ops ∧ b2.live.id = b1.live.id + 1 ∧
      snapSplit b1 b2 c = some (id, offs) ∧ segRecs b2 id = some (recs, limit) ∧
      ¬ OffsetsIn recs c offs :=
  ⟨ScanStartEx.b1, ScanStartEx.b2, ScanStartEx.ops2, ScanStartEx.cfg, 0, [48],
    ScanStartEx.b1.live.recs, 248, ScanStartEx.b1_reachable, by decide +kernel, rfl, by decide +kernel,
    by decide +kernel, by decide +kernel, by decide +kernel⟩

/-! ### non-vacuity of (2)/(3) on the same history: the atomic snapshot taken before the rollover is
`(0, [148])`; after the rollover segment 0 is sealed, still readable, and offset 148 still reads
event 2 of stream 7 -/
section examples
open SierraModel.Store.ScanStartEx

example : RawRunOk b0 ops1 ∧ RawRunOk b1 ops2 := by decide +kernel
example : snapAtomic b1 cfg = some (0, [148]) ∧ segRecs b1 0 = some (b1.live.recs, 248) ∧
    b1.live.id = 0 ∧ b2.live.id = 1 := by decide +kernel
example : segRecs b2 0 = some (b1.live.recs, 248) ∧ OffsetsIn b1.live.recs cfg [148] ∧
    (readCommitted b1.live.recs 248 148).map (·.map (fun x => (x.1.eid, x.1.stream, x.2))) = some [(2, 7, 148)] := by
  decide +kernel
/-- the atomic snapshot after the rollover pairs the NEW id with the new offsets -/
example : snapAtomic b2 cfg = some (1, [48]) ∧
    (segRecs b2 1).map (fun x => decide (OffsetsIn x.1 cfg [48])) = some true := by decide +kernel

end examples

end SierraModel.C15
