/-
C16 — "When clients race appends with exact or empty expectations on the same streams and
partitions, the successful appends are exactly those of some serial order, so no two successes claim
the same expected version, and the final state equals that serial execution."

Model: `Store/Conc.lean` — clients `send` into the writer thread's FIFO queue, the single writer
`process`es the head with `Bucket.appendTx` and handles `flushPoll` with `Bucket.sync`.  All
theorems quantify over every schedule (`List Action`, disabled actions are skipped) from the empty
bucket that satisfies the input validity `SchedOk` (every enabled `send` carries a request with
fresh event ids and transaction id w.r.t. everything processed or queued, non-empty, positive
stored sizes).  "Some serial order" is the queue (= send) order.
-/
import SierraModel.Lemmas.ConcFifo
import SierraModel.Lemmas.ConcClash2
import SierraModel.Lemmas.ConcExample

namespace SierraModel.C16
open SierraModel.Store

/-- the initial state: empty bucket, no clients, no readers -/
abbrev start (segSize : Nat) (comp : Bool) : Conc := Conc.init (Bucket.new segSize comp)

/-- (a) the processed requests with their results (`processed`, ghost) and the final bucket are the
serial execution of the writer's operations: `writerOps` = the `appendTx` of every processed request
in processing order, interleaved with the `sync`s of the schedule (a valid raw history);
moreover results and final state (up to one sync; in particular the committed events `abs`) equal
the sync-free serial execution `serialRun` / `serialResults` of the processed requests; and the
processing order is the send order: processed ++ queued = the requests of the enabled `send`s. -/
theorem results_are_serial_in_queue_order (segSize : Nat) (comp : Bool) (sched : List Action)
    (hok : SchedOk (start segSize comp) {} sched) :
    let c := ((start segSize comp).run {} sched).1
    let b0 := Bucket.new segSize comp
    let ops := (start segSize comp).writerOps {} sched
    (c.b = b0.rawRun ops ∧ c.processed = b0.rawResults ops ∧ RawRunOk b0 ops) ∧
    (c.processed.map (·.2) = b0.serialResults (c.processed.map (·.1)) ∧
      c.b.sync = (b0.serialRun (c.processed.map (·.1))).sync ∧
      c.b.abs = (b0.serialRun (c.processed.map (·.1))).abs) ∧
    c.processed.map (·.1) ++ c.queue.map (·.2) = (start segSize comp).sentTxs {} sched := by
  intro c b0 ops
  obtain ⟨h1, h2, h3⟩ := run_writer sched (start segSize comp) {}
  have hi := concInv_init segSize comp
  obtain ⟨_, hsi⟩ := serialInv_run b0 sched _ _ hi (serialInv_init segSize comp) hok
  refine ⟨⟨h1, h2, writerOps_ok sched _ _ hi hok⟩, ⟨hsi.results, hsi.state, ?_⟩, h3⟩
  have := congrArg Bucket.abs hsi.state
  simpa [abs_sync] using this

/-- (b) in every raw-reachable bucket a `sync` before an append changes neither the result of the
append nor the committed events, and the states after the append agree up to a sync: so the
results do not depend on where the `sync`s are interleaved. -/
theorem sync_does_not_change_results (segSize : Nat) (comp : Bool) (ops : List RawOp)
    (hok : RawRunOk (Bucket.new segSize comp) ops) (tx : Tx) :
    let b := (Bucket.new segSize comp).rawRun ops
    (b.sync.appendTx tx).2 = (b.appendTx tx).2 ∧ b.sync.abs = b.abs ∧
    (b.sync.appendTx tx).1.sync = (b.appendTx tx).1.sync ∧
    (b.sync.appendTx tx).1.abs = (b.appendTx tx).1.abs := by
  intro b
  have hi : Inv b := inv_rawRun ops _ (inv_new segSize comp) hok
  obtain ⟨h1, h2⟩ := appendTx_sync hi tx
  refine ⟨h1, rfl, h2, ?_⟩
  have := congrArg Bucket.abs h2
  simpa [abs_sync] using this

/-- (c) two different accepted requests (positions `i < j` of `processed`) never both have an event
on the same stream with the same `expected = .exact v`, nor both `.empty` on the same stream, nor
the same `expectedSeq = .exact s` / `.empty` on the same partition; and their replies differ. -/
theorem no_two_successes_same_expectation (segSize : Nat) (comp : Bool) (sched : List Action)
    (hok : SchedOk (start segSize comp) {} sched) (i j : Nat) (hij : i < j)
    (tx1 tx2 : Tx) (r1 r2 : AppendOk)
    (h1 : ((start segSize comp).run {} sched).1.processed[i]? = some (tx1, .ok r1))
    (h2 : ((start segSize comp).run {} sched).1.processed[j]? = some (tx2, .ok r2)) :
    (∀ e1 ∈ tx1.events, ∀ e2 ∈ tx2.events, e1.stream = e2.stream →
      (∀ v, ¬ (e1.expected = .exact v ∧ e2.expected = .exact v)) ∧
      ¬ (e1.expected = .empty ∧ e2.expected = .empty)) ∧
    (tx1.pid = tx2.pid →
      (∀ s, ¬ (tx1.expectedSeq = .exact s ∧ tx2.expectedSeq = .exact s)) ∧
      ¬ (tx1.expectedSeq = .empty ∧ tx2.expectedSeq = .empty)) ∧
    r1 ≠ r2 := by
  obtain ⟨_, hk⟩ := clashInv_run sched _ _ (concInv_init segSize comp) (clashInv_init _) hok
  obtain ⟨hi', e1⟩ := List.getElem?_eq_some_iff.1 h1
  obtain ⟨hj', e2⟩ := List.getElem?_eq_some_iff.1 h2
  have := List.pairwise_iff_getElem.1 hk.noClash i j hi' hj' hij
  rw [e1, e2] at this
  exact this r1 r2 rfl rfl

/-! ### non-vacuity: the schedule of `Lemmas/ConcExample.lean` — clients 1 and 2 race `Exact 0` on
stream 7 (created by client 0), client 3's `Exact 1` rolls the segment over -/
section examples
open SierraModel.Store.Example SierraModel.Version

example : SchedOk (start 300 false) {} sched := by decide +kernel
example : (tx1.events.map (·.stream), tx2.events.map (·.stream)) = ([7], [7]) ∧
    (tx1.events.map (fun e => decide (e.expected = .exact 0)), tx2.events.map (fun e => decide (e.expected = .exact 0)))
      = ([true], [true]) := by decide
/-- exactly one of the two racing requests succeeds, the other gets `WrongVersion` -/
example : ((start 300 false).run {} sched).1.processed.map (fun p => (p.1.txId, errOf p.2)) =
    [(1000, none), (1001, none), (1002, some .wrongVersion), (1003, none)] := by decide +kernel
example : ((start 300 false).run {} sched).1.queue.length = 0 ∧
    ((start 300 false).sentTxs {} sched).map (·.txId) = [1000, 1001, 1002, 1003] ∧
    ((start 300 false).writerOps {} sched).length = 6 ∧
    ((start 300 false).run {} sched).1.b.live.id = 1 ∧
    ((start 300 false).run {} sched).1.b.abs.events.map (fun e => (e.eid, e.version, e.seq)) =
      [(100, 0, 0), (101, 1, 1), (103, 2, 2)] := by decide +kernel

end examples

end SierraModel.C16
