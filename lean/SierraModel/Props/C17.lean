/-
C17 — segment-log records round-trip and corruption is always detected.
Quantifier: ALL header sizes, header/data contents, record sizes (H + |stored| < 2^31, the
format's range), ALL surrounding file contents, ALL truncation lengths.
zstd is outside the model: `stored` is the data as stored (raw, or `orig_size ‖ zstd bytes`),
so "byte-identical" is about the stored bytes; `decompress (compress d) = d` is assumed.

`parseAt` is the parsing logic shared by `Reader::read_record` (random: optimistic / fallback /
large; sequential), `parse_record`, iteration and the recovery scan (their agreement on every
input, incl. corrupted ones, is what the correspondence run checks).
-/
import SierraModel.Lemmas.Record
import SierraModel.Lemmas.Corrupt

namespace SierraModel.C17
open SierraModel.Seglog

/-- Round trip: a record appended anywhere in a file is returned byte-identical (header, stored
data, compression flag, length). -/
theorem roundtrip (H : Nat) (pre post hdr stored : Bytes) (c : Bool) (wf : WF H hdr stored c)
    (limit : Nat) (hl : pre.length + (encodeRec hdr stored c).length ≤ limit) :
    parseAt H (pre ++ encodeRec hdr stored c ++ post) limit pre.length =
      .ok { hdr := hdr, stored := stored, compressed := c, len := RECORD_HEAD_SIZE + (H + stored.length) } :=
  parseAt_encode H pre post hdr stored c wf limit hl

/-- Iteration over r₁ … r_k followed by the end of the readable region or a truncation marker
yields exactly r₁ … r_k at their offsets. -/
theorem iteration_exact (H : Nat) (rs : List RecIn) (pre post : Bytes) (limit fuel : Nat)
    (hwf : ∀ r ∈ rs, WF H r.1 r.2.1 r.2.2) (hf : rs.length < fuel)
    (hlim : pre.length + (encodeAll rs).length ≤ limit)
    (hstop : parseAt H (pre ++ encodeAll rs ++ post) limit (pre.length + (encodeAll rs).length) = .error .oob ∨
             parseAt H (pre ++ encodeAll rs ++ post) limit (pre.length + (encodeAll rs).length) = .error .trunc) :
    iterFrom H (pre ++ encodeAll rs ++ post) limit fuel pre.length = (placed H pre.length rs, none) :=
  iterFrom_encodeAll H rs pre post limit fuel hwf hf hlim hstop

/-- A reopened writer resumes right after the last intact record: the recovery scan over
r₁ … r_k ‖ g stops exactly at the end of r_k whenever g does not parse. -/
theorem reopen_resumes_after_last_intact (H : Nat) (rs : List RecIn) (pre post : Bytes) (limit fuel : Nat)
    (hwf : ∀ r ∈ rs, WF H r.1 r.2.1 r.2.2) (hf : rs.length < fuel)
    (hlim : pre.length + (encodeAll rs).length ≤ limit)
    (hstop : ∃ e, parseAt H (pre ++ encodeAll rs ++ post) limit (pre.length + (encodeAll rs).length) = .error e) :
    recoverScan H (pre ++ encodeAll rs ++ post) limit fuel pre.length = pre.length + (encodeAll rs).length :=
  recoverScan_encodeAll H rs pre post limit fuel hwf hf hlim hstop

/-- Truncation: a record cut at ANY length k < |record| is reported out of bounds. -/
theorem truncation_detected (H : Nat) (pre hdr stored : Bytes) (c : Bool) (wf : WF H hdr stored c) (k : Nat)
    (hk : k < (encodeRec hdr stored c).length) :
    parseAt H (pre ++ (encodeRec hdr stored c).take k) (pre.length + k) pre.length = .error .oob :=
  parseAt_truncated H pre hdr stored c wf k hk

/-- An appended record's 8-byte head is never the all-zero truncation marker (so a valid record
is never mistaken for the end of the log), incl. the empty record with H = 0. -/
theorem head_never_marker (H : Nat) (hdr stored : Bytes) (c : Bool) (wf : WF H hdr stored c) :
    ((encodeRec hdr stored c).take RECORD_HEAD_SIZE).all (· == 0) = false := by
  rw [encodeRec_eq]
  have hl : (le32 (lenFlagOf hdr stored c) ++ le32 (crc32 (le32 (lenFlagOf hdr stored c) ++ hdr ++ stored)).toNat).length
      = RECORD_HEAD_SIZE := by simp [le32_length, RECORD_HEAD_SIZE]
  rw [List.take_left' hl]
  exact head_not_marker wf

/-! ### Corruption detection

FULL STATEMENT of the property ("a record with ANY single bit flip or burst error of up to 32 bits
is never returned as valid data") — NOT provable, and false of the code: the checksum sits between
the length field and the payload and covers the length, so a flip in length bits 0..30 moves the
message boundary, and bursts straddling the length/checksum/payload fields have no algebraic
guarantee.  The harness carries a constructed witness (a 12-byte record whose bit-2 length flip
validates with altered content; open known finding `C17:crafted-length-flip`).  Proved below
(`…_partial` = the part of the corruption clause that holds for ALL records):
  * any corruption confined to ≤ 4 consecutive bytes (more generally ≤ 32 consecutive bits in
    CRC processing order, `Seglog.crc32_bit_window`) of header‖data,
  * any corruption of the checksum field,
  * the flip of the compression-flag bit (bit 31 of the length field),
are all reported (checksum mismatch / truncation marker), never a valid record.
Missing: single-bit flips in length bits 0..30 and bursts that straddle field boundaries. -/

/-- bursts inside header‖data -/
theorem corruption_detected_payload_partial (H : Nat) (pre post hdr stored : Bytes) (c : Bool) (wf : WF H hdr stored c)
    (p w w' q : Bytes) (hsplit : hdr ++ stored = p ++ w ++ q) (hlen : w.length = w'.length)
    (h4 : w.length ≤ 4) (hne : w ≠ w') (limit : Nat)
    (hl : pre.length + (encodeRec hdr stored c).length ≤ limit) :
    parseAt H (pre ++ (le32 (lenFlagOf hdr stored c) ++
        le32 (crc32 (le32 (lenFlagOf hdr stored c) ++ hdr ++ stored)).toNat) ++ (p ++ w' ++ q) ++ post)
      limit pre.length = .error .crc :=
  payload_burst H pre post hdr stored c wf p w w' q hsplit hlen h4 hne limit hl

/-- any change of the stored checksum -/
theorem corruption_detected_crc_field_partial (H : Nat) (pre post hdr stored : Bytes) (c : Bool) (wf : WF H hdr stored c)
    (C' : Nat) (hC' : C' < 2 ^ 32) (hne : C' ≠ (crc32 (le32 (lenFlagOf hdr stored c) ++ hdr ++ stored)).toNat)
    (limit : Nat) (hl : pre.length + (encodeRec hdr stored c).length ≤ limit) :
    parseAt H (pre ++ (le32 (lenFlagOf hdr stored c) ++ le32 C') ++ (hdr ++ stored) ++ post) limit pre.length = .error .crc ∨
    parseAt H (pre ++ (le32 (lenFlagOf hdr stored c) ++ le32 C') ++ (hdr ++ stored) ++ post) limit pre.length = .error .trunc :=
  crc_field_corruption H pre post hdr stored c wf C' hC' hne limit hl

/-- the compression-flag bit -/
theorem corruption_detected_flag_bit_partial (H : Nat) (pre post hdr stored : Bytes) (c : Bool) (wf : WF H hdr stored c)
    (limit : Nat) (hl : pre.length + (encodeRec hdr stored c).length ≤ limit) :
    parseAt H (pre ++ (le32 (lenFlagOf hdr stored (!c)) ++
        le32 (crc32 (le32 (lenFlagOf hdr stored c) ++ hdr ++ stored)).toNat) ++ (hdr ++ stored) ++ post)
      limit pre.length = .error .crc :=
  flag_bit_flip H pre post hdr stored c wf limit hl

/-- the underlying algebraic fact: CRC-32 detects every error burst of ≤ 32 bits (any alignment) -/
theorem crc_detects_bursts (m m' : List UInt8) (p w w' q : List Bool)
    (hm : bitsOf m = p ++ w ++ q) (hm' : bitsOf m' = p ++ w' ++ q)
    (hlen : w.length = w'.length) (h32 : w.length ≤ 32) (hne : m ≠ m') : crc32 m ≠ crc32 m' :=
  crc32_bit_window m m' p w w' q hm hm' hlen h32 hne

-- non-vacuity (tests, labelled as tests)
example : WF 2 [1, 2] [9, 9, 9] false := ⟨rfl, by decide, by simp⟩
example : parseAt 2 ([0, 0] ++ encodeRec [1, 2] [9, 9, 9] false ++ [0, 0, 0]) 20 2 =
    .ok { hdr := [1, 2], stored := [9, 9, 9], compressed := false, len := RECORD_HEAD_SIZE + (2 + 3) } :=
  roundtrip 2 [0, 0] [0, 0, 0] [1, 2] [9, 9, 9] false ⟨rfl, by decide, by simp⟩ 20 (by rw [encodeRec_length]; decide)

end SierraModel.C17
