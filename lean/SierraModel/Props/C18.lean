/-
C18 — a shared segment under ANY interleaving of appends, flushes, syncs, truncations, header
replacements and reads (ALL operation lists, by induction; no bound):
a long-lived reader (with its read-ahead cache) answers exactly like a fresh one, no read returns
bytes beyond the flushed offset, a read below the flushed offset returns the record written
there and iteration yields exactly the flushed records.

Model: `SierraModel/Seglog/{Log,Sys}.lean` (each public call atomic).  Validity of a run:
`HdrOk` = an appended header has the segment's header size `H` (`[u8; H]` in Rust, a type-level
fact there; needed — see `winv_step_counterexample`).
-/
import SierraModel.Lemmas.SysInv

namespace SierraModel.C18
open SierraModel.Seglog

/-! ### (A) writer bookkeeping -/

/-- (A) `cursor + |buf| = writeOffset`, `flushed ≤ cursor ≤ |file|` in every reachable state -/
theorem winv_run (H size start : Nat) (h : start ≤ size) (ops : List Op)
    (ok : RunP HdrOk (Sys.create H size start) ops) :
    WInv ((Sys.create H size start).run ops).w :=
  (inv_run ops _ (inv_create H size start h) ok).1

/-- (A), one step: every op (any `setLen` offset, failed appends, failed replaces) -/
theorem winv_step (s : Sys) (op : Op) (hi : WInv s.w) (ok : HdrOk s op) : WInv (s.step op).1.w :=
  (step_wrel s op hi ok).inv

/-- (A) as literally requested ("preserved by EVERY op") is FALSE in the model: `Op.append` takes
an arbitrary byte list as header, and a header whose length is not `H` makes `writeOffset`
advance by `8+H+|data|` while `8+|hdr|+|data|` bytes are written.  (Impossible in Rust: the header
is `[u8; H]`.)  Hence the `HdrOk` hypothesis everywhere. -/
theorem winv_step_counterexample :
    WInv (Sys.create 2 200 0).w ∧ ¬ WInv ((Sys.create 2 200 0).step (.append [] [1] [])).1.w := by
  decide +kernel

-- non-vacuity: a run with appends, sync, reads through reader 0, truncation, replace
example : (0 ≤ 200) ∧ RunP HdrOk (Sys.create 2 200 0)
    [.append [1, 2] [3] [], .readSeq 0 0, .append [4, 5] [6, 7] [], .sync, .readSeq 0 0,
     .append [8, 9] [] [], .setLen 11, .replace 0 [7, 7], .readSeq 0 0] := by decide +kernel

/-! ### (B) published bytes are stable within an epoch -/

/-- (B) unless the epoch advances, a step never lowers the flushed offset nor touches a byte
below it -/
theorem published_stable (s : Sys) (op : Op) (hi : WInv s.w) (ok : HdrOk s op)
    (he : (s.step op).1.w.epoch = s.w.epoch) :
    (s.step op).1.w.flushed ≥ s.w.flushed ∧
    (s.step op).1.w.file.take s.w.flushed = s.w.file.take s.w.flushed :=
  (step_wrel s op hi ok).stable he

/-- the epoch never goes back -/
theorem epoch_mono (s : Sys) (op : Op) (hi : WInv s.w) (ok : HdrOk s op) :
    s.w.epoch ≤ (s.step op).1.w.epoch :=
  (step_wrel s op hi ok).epoch_le

-- non-vacuity: a synced state and an append that spills nothing, same epoch
example : WInv ((Sys.create 2 200 0).run [.append [1, 2] [3] [], .sync]).w ∧
    HdrOk ((Sys.create 2 200 0).run [.append [1, 2] [3] [], .sync]) (.append [4, 5] [6] []) ∧
    (((Sys.create 2 200 0).run [.append [1, 2] [3] [], .sync]).step (.append [4, 5] [6] [])).1.w.epoch
      = ((Sys.create 2 200 0).run [.append [1, 2] [3] [], .sync]).w.epoch ∧
    ((Sys.create 2 200 0).run [.append [1, 2] [3] [], .sync]).w.flushed = 11 := by decide +kernel

/-! ### (C) cache invariant -/

/-- (C) in every reachable state every reader's cache is stale-tagged (older epoch, never hit) or
an exact copy of bytes below the flushed offset -/
theorem cache_valid_run (H size start : Nat) (h : start ≤ size) (ops : List Op)
    (ok : RunP HdrOk (Sys.create H size start) ops) :
    CacheValid ((Sys.create H size start).run ops) :=
  (inv_run ops _ (inv_create H size start h) ok).2

/-- (C), one step -/
theorem cache_valid_step (s : Sys) (op : Op) (hi : WInv s.w) (hc : CacheValid s) (ok : HdrOk s op) :
    CacheValid (s.step op).1 :=
  step_cache_valid s op hi hc ok

-- non-vacuity: reader 0 holds a non-empty cache of the current epoch, filled before later data
-- was appended and synced
example : (((Sys.create 2 200 0).run
      [.append [1, 2] [3] [], .sync, .readSeq 0 0, .append [4, 5] [6] [], .sync]).readers.map
        (fun r => (r.cache.off, r.cache.bytes.length, r.cache.epoch))) = [(0, 11, 0), (0, 0, 0), (0, 0, 0)] ∧
    ((Sys.create 2 200 0).run
      [.append [1, 2] [3] [], .sync, .readSeq 0 0, .append [4, 5] [6] [], .sync]).w.flushed = 22 := by
  decide +kernel

/-! ### (D) a long-lived reader is indistinguishable from a fresh one -/

/-- (D) in every reachable state, a sequential read through ANY existing reader (whatever its
cache went through) returns exactly what a cache-less parse of the file below the flushed offset
returns -/
theorem long_lived_reader_is_fresh (H size start : Nat) (h : start ≤ size) (ops : List Op)
    (ok : RunP HdrOk (Sys.create H size start) ops)
    (r : Reader) (hr : r ∈ ((Sys.create H size start).run ops).readers) (off : Nat) :
    (r.readSeq ((Sys.create H size start).run ops).w.H ((Sys.create H size start).run ops).w.file
        ((Sys.create H size start).run ops).w.flushed ((Sys.create H size start).run ops).w.epoch off).2
      = parseAt ((Sys.create H size start).run ops).w.H ((Sys.create H size start).run ops).w.file
          ((Sys.create H size start).run ops).w.flushed off := by
  obtain ⟨hw, hc⟩ := inv_run ops _ (inv_create H size start h) ok
  exact (readSeq_spec r _ _ _ _ off (hc r hr).2 (Nat.le_trans hw.2.1 hw.2.2)).1

/-- (D) as seen through the state machine: the output of `Op.readSeq` equals the output of
`Op.readRandom` (a fresh parse) -/
theorem readSeq_op_eq_readRandom (H size start : Nat) (h : start ≤ size) (ops : List Op)
    (ok : RunP HdrOk (Sys.create H size start) ops) (ri off : Nat)
    (hri : ri < ((Sys.create H size start).run ops).readers.length) :
    ∃ res, (((Sys.create H size start).run ops).step (.readSeq ri off)).2 = .read res ∧
           (((Sys.create H size start).run ops).step (.readRandom off)).2 = .read res := by
  have hget : ((Sys.create H size start).run ops).readers[ri]? =
      some ((Sys.create H size start).run ops).readers[ri] := List.getElem?_eq_getElem hri
  have hd := long_lived_reader_is_fresh H size start h ops ok _ (List.getElem_mem hri) off
  refine ⟨_, ?_, rfl⟩
  simp only [Sys.step, hget, Reader.readRandom]
  rw [← hd]

-- non-vacuity: see the run under (C) (reader 0 reused after later data was flushed); and the
-- statement is not about `.error` only:
example :
    let s := (Sys.create 2 200 0).run [.append [1, 2] [3] [], .sync, .readSeq 0 0, .append [4, 5] [6] [], .sync]
    (s.readers.map fun r => (r.readSeq s.w.H s.w.file s.w.flushed s.w.epoch 11).2) =
      [.ok { hdr := [4, 5], stored := [6], compressed := false, len := 11 },
       .ok { hdr := [4, 5], stored := [6], compressed := false, len := 11 },
       .ok { hdr := [4, 5], stored := [6], compressed := false, len := 11 }] := by dsimp only; decide +kernel

/-! ### (E) no read returns bytes beyond the flushed offset -/

/-- (E) pure: a successful parse lies entirely below the limit -/
theorem parse_within_limit (H : Nat) (bytes : Bytes) (limit off : Nat) (r : Rec)
    (h : parseAt H bytes limit off = .ok r) : off + r.len ≤ limit :=
  parseAt_ok_bound h

/-- (E) random reads and sequential reads through any long-lived reader in any reachable state -/
theorem read_within_flushed (H size start : Nat) (h : start ≤ size) (ops : List Op)
    (ok : RunP HdrOk (Sys.create H size start) ops) (off : Nat) (rec : Rec) :
    (Reader.readRandom ((Sys.create H size start).run ops).w.H ((Sys.create H size start).run ops).w.file
        ((Sys.create H size start).run ops).w.flushed off = .ok rec →
      off + rec.len ≤ ((Sys.create H size start).run ops).w.flushed) ∧
    (∀ r ∈ ((Sys.create H size start).run ops).readers,
      (r.readSeq ((Sys.create H size start).run ops).w.H ((Sys.create H size start).run ops).w.file
        ((Sys.create H size start).run ops).w.flushed ((Sys.create H size start).run ops).w.epoch off).2 = .ok rec →
      off + rec.len ≤ ((Sys.create H size start).run ops).w.flushed) := by
  refine ⟨fun hp => parseAt_ok_bound hp, fun r hr hp => ?_⟩
  rw [long_lived_reader_is_fresh H size start h ops ok r hr off] at hp
  exact parseAt_ok_bound hp

-- non-vacuity: a successful read exists (under (D)); an unflushed record is not readable:
example :
    let s := (Sys.create 2 200 0).run [.append [1, 2] [3] [], .sync, .append [4, 5] [6] [], .flush]
    Reader.readRandom s.w.H s.w.file s.w.flushed 11 = .error .oob ∧
    Reader.readRandom s.w.H s.w.file s.w.flushed 0 =
      .ok { hdr := [1, 2], stored := [3], compressed := false, len := 11 } := by dsimp only; decide +kernel

/-! ### (F) a read below the flushed offset returns the record written there

Run validity `RunOk` = every op `OpOk` in the state it is applied to: appended headers have size `H`
and records fit the 31-bit length field; truncation is a no-op or at a ghost record boundary;
`replace` targets a flushed ghost record (at any other offset where some bytes happen to parse,
`replace_header` would overwrite them — a caller error outside this property).
`s.recs` is ghost state: appended, not truncated, with their current (replaced) headers. -/

/-- (F) in every reachable state every ghost record that ends at or below the flushed offset
parses back as itself, through a fresh parse (`readRandom`) and through every long-lived reader -/
theorem read_returns_written (H size start : Nat) (h : start ≤ size) (ops : List Op)
    (ok : RunOk (Sys.create H size start) ops) (g : Ghost)
    (hg : g ∈ ((Sys.create H size start).run ops).recs)
    (hfl : g.off + g.len ((Sys.create H size start).run ops).w.H ≤ ((Sys.create H size start).run ops).w.flushed) :
    parseAt ((Sys.create H size start).run ops).w.H ((Sys.create H size start).run ops).w.file
        ((Sys.create H size start).run ops).w.flushed g.off
      = .ok { hdr := g.hdr, stored := g.stored, compressed := g.compressed,
              len := g.len ((Sys.create H size start).run ops).w.H } ∧
    ∀ r ∈ ((Sys.create H size start).run ops).readers,
      (r.readSeq ((Sys.create H size start).run ops).w.H ((Sys.create H size start).run ops).w.file
          ((Sys.create H size start).run ops).w.flushed ((Sys.create H size start).run ops).w.epoch g.off).2
        = .ok { hdr := g.hdr, stored := g.stored, compressed := g.compressed,
                len := g.len ((Sys.create H size start).run ops).w.H } := by
  obtain ⟨⟨hw, _⟩, hgi⟩ := fullInv_run ops _ (fullInv_create H size start h) ok
  have hp := ghost_parse hw hgi hg hfl
  refine ⟨hp, fun r hr => ?_⟩
  rw [long_lived_reader_is_fresh H size start h ops (RunP.mono (fun _ _ => OpOk.hdrOk) ops _ ok) r hr, hp]

/-- the ghost invariant itself, for every reachable state -/
theorem ghost_inv_run (H size start : Nat) (h : start ≤ size) (ops : List Op)
    (ok : RunOk (Sys.create H size start) ops) : GInv ((Sys.create H size start).run ops) :=
  (fullInv_run ops _ (fullInv_create H size start h) ok).2

-- non-vacuity: a valid run with a replaced header, a boundary truncation and a re-append; the
-- ghost records are what one expects and two of the three are flushed
example :
    let ops : List Op := [.append [1, 2] [3] [0, 0, 0, 0], .readSeq 0 0, .append [4, 5] [6, 7] [0, 0, 0, 0], .sync, .readSeq 0 0,
      .append [8, 9] [] [0, 0, 0, 0], .replace 0 [7, 7], .setLen 23, .append [1, 1] [2] [0, 0, 0, 0], .readSeq 0 11]
    RunOk (Sys.create 2 200 0) ops ∧
    ((Sys.create 2 200 0).run ops).recs =
      [⟨0, [7, 7], [3], false⟩, ⟨11, [4, 5], [6, 7], false⟩, ⟨23, [1, 1], [2], false⟩] ∧
    ((Sys.create 2 200 0).run ops).w.flushed = 23 := by
  dsimp only; decide +kernel

/-! ### (G) iteration yields exactly the flushed records -/

/-- (G) in every reachable state, iterating (fresh parse at each step; by (D) the same through a
long-lived reader) from the offset of ANY ghost record, with enough fuel, reports exactly the ghost
records from there on that end at or below the flushed offset, in order, at their offsets, and no
error: the scan stops at the flushed offset (which is always a record boundary, part of `GInv`)
with `OutOfBounds`.  `flushedFrom H recs flushed lo` = `recs` filtered by
`lo ≤ off ∧ off + len ≤ flushed`, mapped to `(off, record)`. -/
theorem iteration_yields_flushed (H size start : Nat) (h : start ≤ size) (ops : List Op)
    (ok : RunOk (Sys.create H size start) ops) (g : Ghost)
    (hg : g ∈ ((Sys.create H size start).run ops).recs) (fuel : Nat)
    (hfuel : ((Sys.create H size start).run ops).recs.length < fuel) :
    iterFrom ((Sys.create H size start).run ops).w.H ((Sys.create H size start).run ops).w.file
        ((Sys.create H size start).run ops).w.flushed fuel g.off
      = (flushedFrom ((Sys.create H size start).run ops).w.H ((Sys.create H size start).run ops).recs
          ((Sys.create H size start).run ops).w.flushed g.off, none) := by
  obtain ⟨⟨hw, _⟩, hgi⟩ := fullInv_run ops _ (fullInv_create H size start h) ok
  exact ghost_iter hw hgi hg fuel hfuel

/-- (G) through ONE long-lived reader whose cache is threaded through the successive
`read_record(Sequential)` calls (`iterSeq`, defined in `Lemmas/SysInv.lean` since the model has no
reader-threading iterator): same result -/
theorem iteration_through_long_lived_reader (H size start : Nat) (h : start ≤ size) (ops : List Op)
    (ok : RunOk (Sys.create H size start) ops) (g : Ghost)
    (hg : g ∈ ((Sys.create H size start).run ops).recs) (fuel : Nat)
    (hfuel : ((Sys.create H size start).run ops).recs.length < fuel)
    (r : Reader) (hr : r ∈ ((Sys.create H size start).run ops).readers) :
    iterSeq ((Sys.create H size start).run ops).w.H ((Sys.create H size start).run ops).w.file
        ((Sys.create H size start).run ops).w.flushed ((Sys.create H size start).run ops).w.epoch fuel r g.off
      = (flushedFrom ((Sys.create H size start).run ops).w.H ((Sys.create H size start).run ops).recs
          ((Sys.create H size start).run ops).w.flushed g.off, none) := by
  obtain ⟨⟨hw, hc⟩, _⟩ := fullInv_run ops _ (fullInv_create H size start h) ok
  rw [iterSeq_eq_iterFrom _ _ _ _ (Nat.le_trans hw.2.1 hw.2.2) fuel r g.off (hc r hr).2]
  exact iteration_yields_flushed H size start h ops ok g hg fuel hfuel

/-- (G) the remaining record boundaries (the end of the last flushed record, any offset at or
beyond the flushed offset): iteration reports nothing and no error -/
theorem iteration_from_end (H : Nat) (bytes : Bytes) (flushed fuel off : Nat) (h : flushed ≤ off) :
    iterFrom H bytes flushed fuel off = ([], none) := by
  cases fuel with
  | zero => rfl
  | succ n => unfold iterFrom; rw [parseAt_at_limit _ _ _ _ h]

-- non-vacuity: three ghost records, two flushed (one with a replaced header), one pending
example :
    let ops : List Op := [.append [1, 2] [3] [0, 0, 0, 0], .sync, .readSeq 0 0, .append [4, 5] [6, 7] [0, 0, 0, 0],
      .sync, .readSeq 1 0, .append [8, 9] [] [0, 0, 0, 0], .replace 0 [7, 7], .flush, .readSeq 2 11]
    let s := (Sys.create 2 200 0).run ops
    RunOk (Sys.create 2 200 0) ops ∧ s.recs.length = 3 ∧
    flushedFrom s.w.H s.recs s.w.flushed 0 =
      [(0, { hdr := [7, 7], stored := [3], compressed := false, len := 11 }),
       (11, { hdr := [4, 5], stored := [6, 7], compressed := false, len := 12 })] ∧
    iterFrom s.w.H s.w.file s.w.flushed 4 0 =
      ([(0, { hdr := [7, 7], stored := [3], compressed := false, len := 11 }),
        (11, { hdr := [4, 5], stored := [6, 7], compressed := false, len := 12 })], none) ∧
    (∀ r ∈ s.readers, iterSeq s.w.H s.w.file s.w.flushed s.w.epoch 4 r 0 =
      ([(0, { hdr := [7, 7], stored := [3], compressed := false, len := 11 }),
        (11, { hdr := [4, 5], stored := [6, 7], compressed := false, len := 12 })], none)) ∧
    s.readers.map (fun r => (r.cache.bytes.length, r.cache.epoch)) = [(11, 0), (23, 0), (23, 1)] ∧
    s.w.epoch = 1 := by
  dsimp only; decide +kernel

end SierraModel.C18
