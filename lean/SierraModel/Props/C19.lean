/-
C19 — "Any transaction whose stored size fits into an empty segment is accepted … Retrying such an
append never fails forever."

The stored sizes are inputs of the model (they depend on zstd); `StoredOk` is what the compressor
guarantees about them (`stored ≤ estimate + 4 + estimate/256 + 64` with compression — zstd's
bound —, `stored = estimate` without) and what the harness measures.  The statement was checked
for the corner cases (the commit record's space, the rollover decision taken on the pessimistic
`upper` estimate, a single event without commit record): it is TRUE of the model as stated, no
counterexample.
-/
import SierraModel.Lemmas.StoreC04

namespace SierraModel.C19
open SierraModel.Store

/-- in every reachable state, a valid request that the specification accepts and whose stored
records (events + commit record unless it is a single event) fit into an empty segment is
accepted — at the first attempt, for every value of the stored sizes allowed by `StoredOk` -/
theorem fits_empty_segment_accepted {b : Bucket} (hb : Reachable b) {tx : Tx} (ht : TxOk b tx)
    (hso : StoredOk b tx) {x : Spec × Nat × Nat} (hspec : Spec.append b.abs tx = .ok x)
    (hfit : SEGMENT_HEADER_SIZE + (tx.events.map (·.stored)).sum
      + (if tx.events.length = 1 then 0 else COMMIT_SIZE) ≤ b.segSize) :
    ∃ r, (b.clientAppend tx).2 = .ok r := by
  refine fits_accepted hb.cinv.1 ht hso hspec ?_
  unfold Tx.commitLen Tx.single storedSum
  by_cases h1 : tx.events.length = 1
  · simpa [h1] using hfit
  · simpa [h1] using hfit

-- non-vacuity: the live segment has no room left (485 + 237 > 600), the transaction fits an empty one
example : Reachable (Ex.bSmall.run [.append Ex.tx1, .append Ex.tx2]) ∧
    TxOk (Ex.bSmall.run [.append Ex.tx1, .append Ex.tx2]) Ex.tx3 ∧
    StoredOk (Ex.bSmall.run [.append Ex.tx1, .append Ex.tx2]) Ex.tx3 ∧
    (∃ x, Spec.append (Ex.bSmall.run [.append Ex.tx1, .append Ex.tx2]).abs Ex.tx3 = .ok x) ∧
    SEGMENT_HEADER_SIZE + (Ex.tx3.events.map (·.stored)).sum
      + (if Ex.tx3.events.length = 1 then 0 else COMMIT_SIZE) ≤ (Ex.bSmall.run [.append Ex.tx1, .append Ex.tx2]).segSize ∧
    (Ex.bSmall.run [.append Ex.tx1, .append Ex.tx2]).live.writeOff = 485 :=
  ⟨⟨600, false, _, by decide +kernel, rfl⟩, by decide +kernel, by decide +kernel, ⟨_, rfl⟩, by decide +kernel, rfl⟩

end SierraModel.C19
