/-
C20 — "With a healthy disk, every append request returns within a bounded time, regardless of the
history of earlier appends, rollovers and syncs and of concurrent clients."

Model: `Store/Conc.lean` (one bucket: writer thread, clients, readers; every schedule is a list of
atomic `Action`s).  An append returns when the client's `wait_for(watch of the reply's segment ≥
write offset)` is satisfied.  The theorems say: (f) in every reachable state every waiting client
is satisfied already or by the NEXT sync of its segment (one `flushPoll`, or the sync inside a
rollover); (g) a satisfied wait stays satisfied; hence every reply is acknowledged at the client's
first poll after one further `flushPoll`, whatever else is scheduled.

Timing assumptions left outside the model: the syncer thread does send `FlushPoll` periodically
(flush interval) and the client task gets scheduled; fsync itself returns (healthy disk).

Remark (pre-fix behaviour, findings F02/F03; no variant model): before the fix all segments of a
bucket shared ONE watch channel.  `rollover()` left its value at the old segment's synced offset
(F02: every wait in the new segment was immediately true — a safety problem, C01/C15), and the next
sync replaced it by a small new-segment offset; a client whose reply came from the sealed segment
with write offset 900 and that first polled `wait_for(≥ 900)` after that sync waited until the NEW
segment grew past 900 — possibly forever (F03: not bounded by any number of syncs).  In the fixed
code, and in the model, every segment has its own channel: the sealed segment's channel keeps the
final value written by the rollover's sync (`sealedWatch`), which is what
`waiter_satisfied_after_one_sync` uses for its `process`-with-rollover clause and
`satisfied_stays_satisfied` for monotonicity per segment.
-/
import SierraModel.Lemmas.ConcAck
import SierraModel.Lemmas.ConcExample

namespace SierraModel.C20
open SierraModel.Store

/-- the initial state: empty bucket, no clients, no readers -/
abbrev start (segSize : Nat) (comp : Bool) : Conc := Conc.init (Bucket.new segSize comp)

/-- (g) for every segment the value of its watch channel never decreases along any schedule … -/
theorem satisfied_stays_satisfied (segSize : Nat) (comp : Bool) (pre post : List Action)
    (hok : SchedOk (start segSize comp) {} (pre ++ post)) (seg : Nat) :
    ((start segSize comp).run {} pre).1.watchOf seg ≤
      ((start segSize comp).run {} (pre ++ post)).1.watchOf seg := by
  rw [schedOk_append] at hok
  obtain ⟨hi, hw⟩ := watchInv_run pre _ _ (concInv_init segSize comp) (watchInv_init _) hok.1
  rw [Conc.run_append]
  exact watchOf_mono_run seg post _ _ hi hw hok.2

/-- … so once a `pollWait` can succeed it can succeed forever after. -/
theorem poll_enabled_forever (segSize : Nat) (comp : Bool) (pre post : List Action)
    (hok : SchedOk (start segSize comp) {} (pre ++ post)) (seg : Nat) (r : AppendOk)
    (h : ((start segSize comp).run {} pre).1.watchOf seg ≥ r.writeOff) :
    ((start segSize comp).run {} (pre ++ post)).1.watchOf seg ≥ r.writeOff :=
  Nat.le_trans h (satisfied_stays_satisfied segSize comp pre post hok seg)

/-- (f) in every reachable state, every client that has its reply and waits on the watch channel
of segment `seg` is satisfied already, or `seg` is the live segment and ONE `flushPoll` — and
equally a `process` that rolls the segment over — satisfies it. -/
theorem waiter_satisfied_after_one_sync (segSize : Nat) (comp : Bool) (sched : List Action)
    (hok : SchedOk (start segSize comp) {} sched) (cl : Nat) (r : AppendOk) (seg : Nat)
    (hg : getAssoc ((start segSize comp).run {} sched).1.clients cl = some (.replied (.ok r) seg)) :
    let c := ((start segSize comp).run {} sched).1
    let o := ((start segSize comp).run {} sched).2
    c.watchOf seg ≥ r.writeOff ∨
    (seg = c.b.live.id ∧
      (∀ c' o', c.step o .flushPoll = some (c', o') → c'.watchOf seg ≥ r.writeOff) ∧
      (∀ c' o', c.step o .process = some (c', o') → c'.b.live.id ≠ c.b.live.id →
        c'.watchOf seg ≥ r.writeOff)) := by
  obtain ⟨hi, hw⟩ := watchInv_run sched _ _ (concInv_init segSize comp) (watchInv_init _) hok
  exact waiter_cases hi hw hg

/-- (f)+(g): a client that has its reply is acknowledged at its first poll after ONE further
`flushPoll`, whatever is scheduled in between (`mid`: other clients, rollovers, readers, …). -/
theorem reply_acked_after_one_sync (segSize : Nat) (comp : Bool) (pre mid : List Action)
    (cl : Nat) (r : AppendOk) (seg : Nat)
    (hok : SchedOk (start segSize comp) {} (pre ++ .flushPoll :: (mid ++ [.pollWait cl])))
    (hg : getAssoc ((start segSize comp).run {} pre).1.clients cl = some (.replied (.ok r) seg)) :
    getAssoc ((start segSize comp).run {} (pre ++ .flushPoll :: (mid ++ [.pollWait cl]))).1.clients cl
      = some (.acked r) := by
  rw [schedOk_append] at hok
  obtain ⟨hi, hw⟩ := watchInv_run pre _ _ (concInv_init segSize comp) (watchInv_init _) hok.1
  rw [Conc.run_append]
  exact acked_after_sync hi hw hg mid hok.2

/-- (g) ⇒ acknowledgement: once the watch value of its segment has reached the write offset (by a
`flushPoll` or by the sync inside a rollover), a waiting client is acknowledged at its next poll,
whatever is scheduled before that poll. -/
theorem reply_acked_once_satisfied (segSize : Nat) (comp : Bool) (pre mid : List Action)
    (cl : Nat) (r : AppendOk) (seg : Nat)
    (hok : SchedOk (start segSize comp) {} (pre ++ (mid ++ [.pollWait cl])))
    (hg : getAssoc ((start segSize comp).run {} pre).1.clients cl = some (.replied (.ok r) seg))
    (hsat : ((start segSize comp).run {} pre).1.watchOf seg ≥ r.writeOff) :
    getAssoc ((start segSize comp).run {} (pre ++ (mid ++ [.pollWait cl]))).1.clients cl
      = some (.acked r) := by
  rw [schedOk_append] at hok
  obtain ⟨hi, hw⟩ := watchInv_run pre _ _ (concInv_init segSize comp) (watchInv_init _) hok.1
  rw [Conc.run_append]
  exact acked_once_satisfied hi hw (Or.inl hg) hsat mid hok.2

/-! ### non-vacuity: the schedule of `Lemmas/ConcExample.lean` (segment size 300, stored size 100:
clients 1 and 2 race `Exact 0`, client 3's append rolls the segment over, client 1 polls late) -/
section examples
open SierraModel.Store.Example

example : SchedOk (start 300 false) {} sched := by decide +kernel
/-- after the rollover client 1 still waits on the (now sealed) segment 0 … -/
example : isWaiting (getAssoc ((start 300 false).run {} (phase1 ++ phase2 ++ [.process])).1.clients 1) = true ∧
    ((start 300 false).run {} (phase1 ++ phase2 ++ [.process])).1.b.live.id = 1 := by decide +kernel
/-- … and its late `pollWait` succeeds without any further `flushPoll` (the rollover synced). -/
example : isAcked (getAssoc ((start 300 false).run {} (phase1 ++ phase2 ++ [.process, .pollWait 1])).1.clients 1)
    = true := by decide +kernel
/-- client 3 (new segment) is not satisfied by its first poll, and is after one `flushPoll` -/
example : isWaiting (getAssoc ((start 300 false).run {}
      (phase1 ++ phase2 ++ [.process, .recvReply 3, .pollWait 3])).1.clients 3) = true ∧
    isAcked (getAssoc ((start 300 false).run {}
      (phase1 ++ phase2 ++ [.process, .recvReply 3, .pollWait 3, .flushPoll, .pollWait 3])).1.clients 3) = true := by
  decide +kernel
example : ((start 300 false).run {} sched).1.watchOf 0 = 248 ∧ ((start 300 false).run {} sched).1.watchOf 1 = 148 ∧
    ((start 300 false).run {} sched).1.ackedLog.length = 3 := by decide +kernel

end examples

end SierraModel.C20
