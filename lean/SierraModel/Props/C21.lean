/-
C21 — documented and client-emitted commands parse as intended.

`DocCmd` (Server/Grammar.lean) has one constructor per documented command form; a value carries the
lexemes as written on the wire, so the quantifier "every `c : DocCmd` with `c.WF`" ranges over all
clause orders the documentation allows, every keyword casing (any lexeme `str::to_uppercase` maps to
the keyword), every notation of a number (`7`, `007`, `+7`) or uuid (hyphenated, simple, braced, urn,
padded with white space), all stream ids of 1..64 bytes that are not a reserved clause keyword.
`parse` (Server/Parse.lean) is the transcription of `<Command>::parser().skip(eof())`.
All ten commands are covered by every theorem: ESUB EPSUB EAPPEND EMAPPEND ESCAN EPSCAN EGET ESVER
EPSEQ EACK (HELLO / PING / INFO take no structured arguments and are not modelled).
-/
import SierraModel.Lemmas.GrammarReq
import SierraModel.Lemmas.Client

namespace SierraModel.C21
open SierraModel.Server

/-- (a) every well-formed documented form parses into the request it denotes. -/
theorem parse_render (c : DocCmd) (h : c.WF) : parse c.cmd c.render = .ok c.denote :=
  parse_ok_iff.mpr (parser_Ok_iff.mpr ⟨c, h, rfl, rfl, rfl⟩)

/-- (b) nothing outside the documented grammar is accepted: whatever token list a command parser
accepts is the rendering of a well-formed documented form of that command, and the request is the
one that form denotes. -/
theorem parse_sound (cmd : Cmd) (ts : List Tok) (r : Request) (h : parse cmd ts = .ok r) :
    ∃ c : DocCmd, c.WF ∧ c.cmd = cmd ∧ c.render = ts ∧ c.denote = r :=
  parser_Ok_iff.mp (parse_ok_iff.mp h)

/-- (a)+(b): the parser accepts exactly the documented grammar. -/
theorem parse_iff (cmd : Cmd) (ts : List Tok) (r : Request) :
    parse cmd ts = .ok r ↔ ∃ c : DocCmd, c.WF ∧ c.cmd = cmd ∧ c.render = ts ∧ c.denote = r :=
  parse_ok_iff.trans parser_Ok_iff

/-- inputs outside the documented grammar are rejected with an error. -/
theorem reject_outside_grammar (cmd : Cmd) (ts : List Tok)
    (h : ¬ ∃ c : DocCmd, c.WF ∧ c.cmd = cmd ∧ c.render = ts) : parse cmd ts = .error .invalidArg := by
  cases hp : parse cmd ts with
  | ok r =>
    obtain ⟨c, h1, h2, h3, _⟩ := parse_sound cmd ts r hp
    exact absurd ⟨c, h1, h2, h3⟩ h
  | error e => cases e; rfl

/-- (c) keywords are never taken as stream ids: no stream id of a parsed ESUB / EAPPEND / EMAPPEND /
ESCAN / ESVER request (selectors, FROM MAP keys, events) is a reserved clause keyword, in any case. -/
theorem no_keyword_stream_id (cmd : Cmd) (ts : List Tok) (r : Request) (h : parse cmd ts = .ok r)
    (s : List Char) (hs : s ∈ r.streamIds) : isReserved s = false := by
  obtain ⟨c, hw, _, _, rfl⟩ := parse_sound cmd ts r h
  exact denote_streamIds_not_reserved hw hs

/-- (c') in particular a frame that is a clause keyword in a stream-id position makes the command fail
or is read as the clause it introduces — e.g. `ESUB s FROM 50 WINDOW 100`. -/
theorem keyword_lexeme_reserved (K k : List Char) (hK : K ∈ reserved) (hk : upper k = K) : isReserved k = true :=
  reserved_of_kw hk hK

/-- (d) client forms: what a builder of the Rust client emits parses into the request the builder
is meant to issue — for every builder except those of the open finding F24 (`ClientCmd.Supported`
excludes exactly the constructors `epsubByKey` and `epsubRange`). -/
theorem client_parse_partial (k : ClientCmd) (hs : k.Supported) (h : k.WF) :
    parse k.cmd k.emit = .ok k.denote := by
  have := parse_render (k.toDoc) (ClientCmd.toDoc_WF hs h)
  rwa [ClientCmd.toDoc_cmd, ClientCmd.toDoc_render, ClientCmd.toDoc_denote hs h] at this

/- Full statement of (d), NOT proved and false on the current tree (open finding F24):
   theorem client_parse (k : ClientCmd) (h : k.WF) : parse k.cmd k.emit = .ok k.denote
   `EPSUB <partition_key>` (epsub_by_key, subscribe_to_partition_key…) and `EPSUB <start>-<end>`
   (subscribe_to_partition_range) are emitted by the client; the server grammar has neither. -/

/-- the F24 forms are rejected by the server (so they are outside the proved theorem for a reason). -/
theorem client_unsupported_rejected :
    parse .epsub (ClientCmd.epsubByKey 0x550e8400e29b41d4a716446655440000 none none).emit = .error .invalidArg ∧
    parse .epsub (ClientCmd.epsubRange 0 127 (some 5) none).emit = .error .invalidArg := by
  constructor <;> rfl

/-! ### non-vacuity -/

section examples
/-- `ESUB user-1 from 50 Window 100` -/
def exEsub : List Tok :=
  [.text ['u','s','e','r','-','1'], .text ['f','r','o','m'], .text ['5','0'], .text ['W','i','n','d','o','w'], .text ['1','0','0']]

example : parse .esub exEsub = .ok (.esubStream ['u','s','e','r','-','1'] none (some 50) (some 100)) := by rfl

/-- hypotheses of (a): a well-formed form with a non-trivial clause structure exists -/
example : ∃ c : DocCmd, c.WF ∧ c.cmd = .esub ∧ c.render = exEsub := by
  obtain ⟨c, h1, h2, h3, _⟩ := parse_sound .esub exEsub
    (.esubStream ['u','s','e','r','-','1'] none (some 50) (some 100)) (by rfl)
  exact ⟨c, h1, h2, h3⟩

/-- `ESUB a b FROM MAP a=1 b=2 WINDOW 5` (the form that failed before the fix) -/
example : parse .esub [.text ['a'], .text ['b'], .text ['F','R','O','M'], .text ['M','A','P'], .text ['a','=','1'],
    .text ['b','=','2'], .text ['W','I','N','D','O','W'], .text ['5']] =
    .ok (.esubStreams [(['a'], none), (['b'], none)] (.streams [(['a'], 1), (['b'], 2)]) (some 5)) := by rfl

/-- `EAPPEND s E payload x expected_version 3` (clauses in a non-documented order) -/
example : parse .eappend [.text ['s'], .text ['E'], .text ['p','a','y','l','o','a','d'], .blob [255],
    .text ['e','x','p','e','c','t','e','d','_','v','e','r','s','i','o','n'], .text ['3']] =
    .ok (.eappend { stream := ['s'], name := ['E'], eventId := none, partitionKey := none, expected := .exact 3,
                    timestamp := none, payload := .blob [255], metadata := .text [] }) := by rfl

/-- outside the grammar: a keyword in the stream-id position, a duplicate clause, WINDOW 0 -/
example : parse .esub [.text ['F','R','O','M'], .text ['5']] = .error .invalidArg := by rfl
example : parse .eappend [.text ['s'], .text ['E'], .text ['P','A','Y','L','O','A','D'], .text [],
    .text ['P','A','Y','L','O','A','D'], .text ['x']] = .error .invalidArg := by rfl
example : parse .esub [.text ['s'], .text ['W','I','N','D','O','W'], .text ['0']] = .error .invalidArg := by rfl
/-- `EMAPPEND <pk> s E TIMESTAMP abc` is not re-read as a second event named `abc` of stream `TIMESTAMP` -/
example : parse .emappend [.text ['5','5','0','e','8','4','0','0','e','2','9','b','4','1','d','4','a','7','1','6','4','4','6','6','5','5','4','4','0','0','0','0'],
    .text ['s'], .text ['E'], .text ['T','I','M','E','S','T','A','M','P'], .text ['a','b','c']] = .error .invalidArg := by rfl

/-- hypotheses of (d): a supported, well-formed client command -/
example : (ClientCmd.esubOpts ['s'] (some 7) (some 50) (some 100)).Supported ∧
    (ClientCmd.esubOpts ['s'] (some 7) (some 50) (some 100)).WF := by
  refine ⟨trivial, ⟨by decide, by decide⟩, ?_, ?_, ?_, ?_⟩ <;> (intro n hn; cases hn; decide)
end examples

end SierraModel.C21
