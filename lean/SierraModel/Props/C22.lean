/-
C22 — the RESP API of a single node behaves like the event-store model.

`Server.handle` (Server/Handle.lean) is the transcription of the request handlers over the store
specification `Store.Spec`; `Server.run cfg {} h` replays a command history `h` (requests with the
per-request inputs: listener, uuid v5 of the stream id, generated ids / clock / transaction id) from
the empty node.  Every theorem quantifies over ALL histories `h` (the state a request meets is
`(run cfg {} h).1`); the only hypothesis on the configuration is a non-zero partition count.

Not covered here (see `partial` in checks.json): subscription deliveries (only the immediate reply of
ESUB / EPSUB / EACK is modelled), segment space (`tooLarge` / `full` never arise from the model's
zero-sized events), duplicate client-chosen event ids (EGET returns the first).
-/
import SierraModel.Lemmas.HandleScan

namespace SierraModel.C22
open SierraModel.Server SierraModel.Store

/-- (a) no command history makes a connection task panic: no checked arithmetic overflows, no
`unwrap` meets `None` (in particular EMAPPEND's version reconstruction, F25). -/
theorem no_trap (cfg : Cfg) (hN : 0 < cfg.numPartitions) (h : List (Inputs × Request)) :
    Response.trap ∉ (run cfg {} h).2 :=
  run_no_trap cfg hN {} h

/-- the state after any history satisfies the invariant (valid ids, gapless sequences / versions, one
partition key per stream of a bucket — so a stream lives in one partition) -/
theorem history_invariant (cfg : Cfg) (hN : 0 < cfg.numPartitions) (h : List (Inputs × Request)) :
    WF cfg.numPartitions (run cfg {} h).1.abs :=
  run_wf cfg hN {} (wf_empty _) h

/-- (b) EAPPEND after any history: rejected with INVALIDARG before the store is asked (state
unchanged), or decided by `Spec.append`: the reply is an error exactly when the specification
rejects (WRONGVER for a version conflict, DBOPFAILED otherwise, state unchanged), else it reports
the sequence and stream version the specification assigned and the new state abstracts to the
specification's. -/
theorem eappend_reports_spec (cfg : Cfg) (hN : 0 < cfg.numPartitions) (h : List (Inputs × Request))
    (inp : Inputs) (e : AppendEv) :
    handleEAppend cfg (run cfg {} h).1 inp e = ((run cfg {} h).1, .err .invalidArg) ∨
    ∃ p pid, Admitted1 cfg inp e p pid ∧
      match (run cfg {} h).1.abs.append (mkTx cfg (e.partitionKey.getD inp.derivedKey) pid inp.txId [p]) with
      | .error err => handleEAppend cfg (run cfg {} h).1 inp e = ((run cfg {} h).1, .err (mapErr err))
      | .ok (spec', first, last) =>
        ∃ st' ev, handleEAppend cfg (run cfg {} h).1 inp e =
            (st', .appended p.eid (e.partitionKey.getD inp.derivedKey) pid first ev.version p.tsMs) ∧
          st'.abs = spec' ∧ spec'.txs = (run cfg {} h).1.abs.txs ++ [[ev]] ∧ ev.seq = first ∧ last = first ∧
          ev.eid = p.eid ∧ ev.pid = pid ∧ ev.pkey = e.partitionKey.getD inp.derivedKey := by
  rcases eappend_admit_or_reject cfg (run cfg {} h).1 inp e hN with hr | ⟨p, pid, ha⟩
  · exact Or.inl hr
  · exact Or.inr ⟨p, pid, ha, eappend_spec cfg _ inp e p pid ha⟩

/-- (b) EMAPPEND after any history: as EAPPEND; an accepted transaction reports first / last
partition sequence and, per event, exactly the stream version the specification assigned (the
reverse reconstruction from the final versions is correct, including repeated streams and streams
that start at version 0). -/
theorem emappend_reports_spec (cfg : Cfg) (hN : 0 < cfg.numPartitions) (h : List (Inputs × Request))
    (inp : Inputs) (pkey : Nat) (es : List AppendEv) :
    handleEMAppend cfg (run cfg {} h).1 inp pkey es = ((run cfg {} h).1, .err .invalidArg) ∨
    ∃ ps pid, Admitted cfg inp pkey es ps pid ∧
      match (run cfg {} h).1.abs.append (mkTx cfg pkey pid inp.txId ps) with
      | .error err => handleEMAppend cfg (run cfg {} h).1 inp pkey es = ((run cfg {} h).1, .err (mapErr err))
      | .ok (spec', first, last) =>
        ∃ st', handleEMAppend cfg (run cfg {} h).1 inp pkey es =
            (st', .mappended pkey pid first last
              ((ps.zip ((lastTx spec').map (·.version))).map (fun pv => (pv.1.eid, pv.1.stream, pv.2, pv.1.tsMs)))) ∧
          st'.abs = spec' ∧ spec'.txs = (run cfg {} h).1.abs.txs ++ [lastTx spec'] ∧
          (lastTx spec').map (·.seq) = List.range' first ps.length ∧ last = first + ps.length - 1 ∧
          (lastTx spec').map (·.eid) = ps.map (·.eid) := by
  rcases emappend_admit_or_reject cfg (run cfg {} h).1 inp pkey es hN with hr | ⟨ps, pid, ha⟩
  · exact Or.inl hr
  · exact Or.inr ⟨ps, pid, ha, emappend_spec cfg _ inp pkey pid es ps ha⟩

/-- (c) EPSCAN after any history, on an owned partition with a well-formed range: the reply holds
exactly the committed events of the partition with `start ≤ sequence ≤ end`, in sequence order, cut
to `count` (default 100); `has_more = false` only if that is the whole range. -/
theorem epscan_exact (cfg : Cfg) (hN : 0 < cfg.numPartitions) (h : List (Inputs × Request))
    (sel : PSel) (lo hi : RangeV) (c : Option Nat) (start pid : Nat) (endSeq : Option Nat)
    (hlo : rangeStart lo = some start) (hhi : rangeEnd hi = some endSeq) (hsel : selPid cfg sel = some pid)
    (hp : pid < cfg.numPartitions) :
    ∃ hm, handleEPScan cfg (run cfg {} h).1 sel lo hi c =
        .events hm ((partRange (run cfg {} h).1 pid start endSeq).take (c.getD 100)) ∧
      (hm = false → (partRange (run cfg {} h).1 pid start endSeq).take (c.getD 100) =
        partRange (run cfg {} h).1 pid start endSeq) := by
  have := scanPartition_spec cfg (run cfg {} h).1 pid start endSeq (c.getD 100) (history_invariant cfg hN h)
  simpa only [handleEPScan, hlo, hhi, hsel, hp, ↓reduceIte] using this

/-- EPSCAN never dies on a malformed range or a partition the node does not own: it answers
INVALIDARG / CLUSTERDOWN -/
theorem epscan_rejects (cfg : Cfg) (st : ServerState) (sel : PSel) (lo hi : RangeV) (c : Option Nat) :
    (rangeStart lo = none ∨ rangeEnd hi = none → handleEPScan cfg st sel lo hi c = .err .invalidArg) ∧
    (∀ start endSeq pid, rangeStart lo = some start → rangeEnd hi = some endSeq → selPid cfg sel = some pid →
      ¬ pid < cfg.numPartitions → handleEPScan cfg st sel lo hi c = .err .clusterDown) := by
  refine ⟨fun hbad => ?_, fun start endSeq pid h1 h2 h3 h4 => ?_⟩
  · unfold handleEPScan
    rcases hbad with hb | hb
    · simp only [hb]
    · cases hl : rangeStart lo <;> simp only [hb]
  · simp only [handleEPScan, h1, h2, h3, h4, ↓reduceIte]

/-- (c) ESCAN after any history with a well-formed range: the reply holds exactly the committed
events of the stream in the partition of the given (or derived) partition key with
`start ≤ version ≤ end`, in version order, cut to `count`; `has_more = false` only if that is the
whole range (a stream that lives in another partition of the bucket: the first event ends the scan,
empty reply, `has_more = false`). -/
theorem escan_exact (cfg : Cfg) (hN : 0 < cfg.numPartitions) (h : List (Inputs × Request)) (inp : Inputs)
    (stream : List Char) (lo hi : RangeV) (pk c : Option Nat) (start : Nat) (endV : Option Nat)
    (hlo : rangeStart lo = some start) (hhi : rangeEnd hi = some endV) :
    ∃ hm, handleEScan cfg (run cfg {} h).1 inp stream lo hi pk c =
        .events hm ((streamRange (run cfg {} h).1
          (streamKey (uuidHash (pk.getD inp.derivedKey) % cfg.numPartitions % cfg.numBuckets) stream)
          (uuidHash (pk.getD inp.derivedKey) % cfg.numPartitions) start endV).take (c.getD 100)) ∧
      (hm = false →
        (streamRange (run cfg {} h).1
          (streamKey (uuidHash (pk.getD inp.derivedKey) % cfg.numPartitions % cfg.numBuckets) stream)
          (uuidHash (pk.getD inp.derivedKey) % cfg.numPartitions) start endV).take (c.getD 100) =
        streamRange (run cfg {} h).1
          (streamKey (uuidHash (pk.getD inp.derivedKey) % cfg.numPartitions % cfg.numBuckets) stream)
          (uuidHash (pk.getD inp.derivedKey) % cfg.numPartitions) start endV) := by
  have := scanStream_spec cfg (run cfg {} h).1 (uuidHash (pk.getD inp.derivedKey) % cfg.numPartitions) stream start endV
    (c.getD 100) (history_invariant cfg hN h)
  simpa only [handleEScan, modChk_pos _ _ hN, hlo, hhi] using this

/-- (d) EPSEQ after any history: the sequence of the newest committed event of the partition -/
theorem epseq_latest (cfg : Cfg) (hN : 0 < cfg.numPartitions) (h : List (Inputs × Request)) (pid : Nat)
    (hp : pid < cfg.numPartitions) :
    handleEPSeq cfg (run cfg {} h).1 (.byId pid) =
      match ((run cfg {} h).1.abs.events.filter (·.pid == pid)).getLast? with
      | some e => .num e.seq
      | none => .null :=
  Server.epseq_latest cfg _ pid (history_invariant cfg hN h) hp

/-- (d) ESVER after any history: `Null` for a stream the specification does not know, else the
specification's latest version (when asked under the stream's own partition key) -/
theorem esver_latest (cfg : Cfg) (hN : 0 < cfg.numPartitions) (h : List (Inputs × Request)) (inp : Inputs)
    (stream : List Char) (pk : Option Nat) :
    match (run cfg {} h).1.abs.streamLatest
        (streamKey (uuidHash (pk.getD inp.derivedKey) % cfg.numPartitions % cfg.numBuckets) stream) with
    | none => handleESVer cfg (run cfg {} h).1 inp stream pk = .null
    | some (k, v) =>
      uuidHash k % cfg.numPartitions = uuidHash (pk.getD inp.derivedKey) % cfg.numPartitions →
        handleESVer cfg (run cfg {} h).1 inp stream pk = .num v :=
  Server.esver_latest cfg _ inp stream pk hN (history_invariant cfg hN h)

/-- (e) EGET after any history: the event with this id if one was committed, `Null` otherwise -/
theorem eget_iff (cfg : Cfg) (hN : 0 < cfg.numPartitions) (h : List (Inputs × Request)) (id : Nat) :
    handleEGet cfg (run cfg {} h).1 id =
      match (run cfg {} h).1.events.find? (fun e => e.ev.eid == id) with
      | some e => .event e
      | none => .null :=
  Server.eget_iff cfg _ id hN (history_invariant cfg hN h)

/-- the model's stream identity `streamKey bucket id` distinguishes every (bucket, stream id) pair
(buckets are `u16`), so the one global specification behaves as independent per-bucket stores -/
theorem stream_identity (b1 b2 : Nat) (s1 s2 : List Char) (h1 : b1 < 65536) (h2 : b2 < 65536)
    (h : streamKey b1 s1 = streamKey b2 s2) : b1 = b2 ∧ s1 = s2 :=
  streamKey_inj b1 b2 s1 s2 h1 h2 h

/-! ## non-vacuity: a concrete node, a concrete history -/

namespace Example

def cfg : Cfg := { numPartitions := 8, numBuckets := 4 }
/-- 550e8400-e29b-41d4-a716-446655440000 -/
def key : Nat := 0x550e8400e29b41d4a716446655440000
def pid : Nat := uuidHash key % 8

def ev (stream : Char) (id : Nat) (expected : Version.Expected) : AppendEv :=
  { stream := [stream], name := ['E'], eventId := some id, partitionKey := none, expected := expected,
    timestamp := some 5, payload := .text ['x'], metadata := .text [] }

/-- EMAPPEND key  a(new, version 0)  a(again)  b(new, version 0): the request that killed the
connection before the F25 fix -/
def hist : List (Inputs × Request) :=
  [({ txId := 7 }, .emappend key [ev 'a' key .empty, ev 'a' (key + 1) (.exact 0), ev 'b' (key + 2) .any])]

/-- the reply reports versions 0, 1, 0 and sequences 0..2 (and is not a trap) -/
example : (run cfg {} hist).2 =
    [.mappended key pid 0 2 [(key, ['a'], 0, 5), (key + 1, ['a'], 1, 5), (key + 2, ['b'], 0, 5)]] := by decide

example : 0 < cfg.numPartitions := by decide

/-- an EAPPEND with an explicit partition key -/
def evK (stream : Char) (id : Nat) (expected : Version.Expected) : AppendEv :=
  { ev stream id expected with partitionKey := some key }

def inp : Inputs := { txId := 9 }
/-- (has_more, [(sequence, version)]) of a reply that carries events -/
def summary : Response → Option (Bool × List (Nat × Nat))
  | .events hm es => some (hm, es.map (fun e => (e.ev.seq, e.ev.version)))
  | .event e => some (false, [(e.ev.seq, e.ev.version)])
  | _ => none
def prepOf (e : AppendEv) (id : Nat) : Prep :=
  { eid := id, stream := e.stream, name := e.name, expected := e.expected, tsMs := 5, tsOk := true,
    metadata := e.metadata, payload := e.payload }

/-- `eappend_reports_spec`: the admitted case is inhabited … -/
example : Admitted1 cfg inp (evK 'a' (key + 3) (.exact 1)) (prepOf (evK 'a' (key + 3) (.exact 1)) (key + 3)) pid :=
  ⟨by decide, by decide, by decide, by decide⟩
/-- … with both verdicts of the specification after `hist`: version 1 is right, version 0 is stale -/
example : ((run cfg {} hist).1.abs.append
    (mkTx cfg key pid 9 [prepOf (evK 'a' (key + 3) (.exact 1)) (key + 3)])).toOption.map (·.2) = some (3, 3) := by decide
example : ((run cfg {} hist).1.abs.append
    (mkTx cfg key pid 9 [prepOf (evK 'a' (key + 3) (.exact 0)) (key + 3)])).toOption = none := by decide
/-- … and the INVALIDARG case: an event id that does not embed the partition hash -/
example : handleEAppend cfg (run cfg {} hist).1 inp (evK 'a' 1 .any) = ((run cfg {} hist).1, .err .invalidArg) := by decide

/-- `emappend_reports_spec`: admitted -/
example : Admitted cfg { txId := 7 } key [ev 'a' key .empty, ev 'a' (key + 1) (.exact 0)]
    [prepOf (ev 'a' key .empty) key, prepOf (ev 'a' (key + 1) (.exact 0)) (key + 1)] pid :=
  ⟨by decide, by decide, by decide, by decide⟩

/-- `epscan_exact`: hypotheses satisfiable, the range is not empty, `count` cuts it, `has_more` tells -/
example : rangeStart .start = some 0 ∧ rangeEnd (.value 1) = some (some 1) ∧ selPid cfg (.byKey key) = some pid ∧
    pid < cfg.numPartitions := by decide
example : ((partRange (run cfg {} hist).1 pid 0 (some 1)).map (·.ev.seq)) = [0, 1] := by decide
example : summary (handleEPScan cfg (run cfg {} hist).1 (.byKey key) .start .stop (some 2)) =
    some (true, [(0, 0), (1, 1)]) := by decide
example : summary (handleEPScan cfg (run cfg {} hist).1 (.byKey key) (.value 2) (.value 2) none) =
    some (false, [(2, 0)]) := by decide
example : handleEPScan cfg (run cfg {} hist).1 (.byId 8) .start .stop none = .err .clusterDown := by decide

/-- `escan_exact`: the stream `a` under its key holds versions 0 and 1 -/
example : ((streamRange (run cfg {} hist).1 (streamKey (pid % 4) ['a']) pid 0 none).map (·.ev.version)) = [0, 1] := by
  decide
example : summary (handleEScan cfg (run cfg {} hist).1 {} ['a'] .start .stop (some key) (some 1)) =
    some (true, [(0, 0)]) := by decide

/-- `epseq_latest` / `esver_latest` / `eget_iff` on the example -/
example : handleEPSeq cfg (run cfg {} hist).1 (.byId pid) = .num 2 := by decide
example : (run cfg {} hist).1.abs.streamLatest (streamKey (uuidHash key % 8 % 4) ['a']) = some (key, 1) := by decide
example : handleESVer cfg (run cfg {} hist).1 {} ['a'] (some key) = .num 1 := by decide
example : handleESVer cfg (run cfg {} hist).1 {} ['z'] (some key) = .null := by decide
example : summary (handleEGet cfg (run cfg {} hist).1 (key + 1)) = some (false, [(1, 1)]) := by decide
example : handleEGet cfg (run cfg {} hist).1 (key + 9) = .null := by decide

end Example

end SierraModel.C22
