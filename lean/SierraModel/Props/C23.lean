/-
C23 — identifiers embed and preserve their partition routing.
Quantifier: ALL 128-bit values / ALL field values (no sampling).
-/
import SierraModel.Lemmas.Bits

namespace SierraModel.C23
open SierraModel.Id

/-- a generated id yields back exactly the hash it was generated for, for any clock/random bits -/
theorem generated_id_yields_hash (ts : BitVec 64) (r12 h : BitVec 16) (r46 : BitVec 64) :
    hashOf (mkId ts r12 h r46) = h := hashOf_mkId ts r12 h r46

/-- ... and validates for a partition key with that hash -/
theorem generated_id_validates (key : BitVec 128) (ts : BitVec 64) (r12 : BitVec 16) (r46 : BitVec 64) :
    validate (mkId ts r12 (hashOf key) r46) (hashOf key) = true := by
  simp [validate, hashOf_mkId]

/-- setting or clearing the flag never changes the embedded hash -/
theorem flag_preserves_hash (u : BitVec 128) (b : Bool) : hashOf (setFlag u b) = hashOf u :=
  hashOf_setFlag u b

/-- ... nor any bit other than bit 63 -/
theorem flag_preserves_other_bits (u : BitVec 128) (b : Bool) :
    (setFlag u b ^^^ u) &&& ~~~(1#128 <<< 63) = 0#128 := setFlag_other_bits u b

theorem flag_roundtrip (u : BitVec 128) (b : Bool) : getFlag (setFlag u b) = b := getFlag_setFlag u b

/-- event ids generated for a key route to the key's partition and bucket, for all counts -/
theorem same_partition_and_bucket (key : BitVec 128) (ts : BitVec 64) (r12 : BitVec 16) (r46 : BitVec 64)
    (p b : Nat) :
    partitionOf (mkId ts r12 (hashOf key) r46) p = partitionOf key p ∧
    bucketOf (partitionOf (mkId ts r12 (hashOf key) r46) p) b = bucketOf (partitionOf key p) b := by
  simp [partitionOf, hashOf_mkId]

/-- `Transaction::new` accepts exactly the non-empty transactions whose event ids all embed the
key's hash (so every event of an accepted transaction routes with its key). -/
theorem tx_valid_iff (key : BitVec 128) (ids : List (BitVec 128)) :
    txValid key ids = true ↔ ids ≠ [] ∧ ∀ e ∈ ids, hashOf e = hashOf key := by
  cases ids <;> simp [txValid, validate]

/-- Observation (reported, no caller in the code base): the two helper functions
`extract_event_id_bucket` and `partition_id_to_bucket ∘ partition` agree when the bucket count
divides the partition count ... -/
theorem helpers_agree_of_dvd (u : BitVec 128) (p b : Nat) (hd : b ∣ p) :
    extractEventIdBucket u b = partitionIdToBucket (partitionOf u p) b := by
  unfold extractEventIdBucket partitionIdToBucket partitionOf
  split
  · rfl
  · exact (Nat.mod_mod_of_dvd _ hd).symm

/-- ... and can disagree otherwise: hash 3, 3 partitions, 2 buckets. -/
theorem helpers_disagree_witness :
    extractEventIdBucket (3#128 <<< 46) 2 ≠ partitionIdToBucket (partitionOf (3#128 <<< 46) 3) 2 := by
  decide

-- non-vacuity (tests, labelled as tests)
example : hashOf (mkId 0x0123456789ab#64 0xfff#16 0xabcd#16 0x3fffffffffff#64) = 0xabcd#16 := by decide

end SierraModel.C23
