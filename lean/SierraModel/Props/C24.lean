/-
C24 — distribute_partition returns exactly min(rf, n, 12) distinct valid partitions.
Property theorems only (helper lemmas: Lemmas/Distribute.lean).  Quantifier: ALL u16 hashes,
ALL u16 partition counts, ALL replication factors — no evaluation over a finite table.
-/
import SierraModel.Lemmas.Distribute

namespace SierraModel.C24
open SierraModel.Topology

/-- n = 0 or rf = 0 gives nothing. -/
theorem empty_when_zero (h n rf : Nat) (hz : n = 0 ∨ rf = 0) : distribute h n rf = some [] := by
  unfold distribute
  rcases hz with hz | hz <;> subst hz <;> simp

/-- The function returns (never traps), and the result has exactly min(rf, n, 12) pairwise
distinct ids, all below n, the first being `h % n`. -/
theorem main (h n rf : Nat) (_hh : h < 2 ^ 16) (hn16 : n < 2 ^ 16) (hn : 0 < n) :
    ∃ l, distribute h n rf = some l ∧
      l.length = min rf (min n 12) ∧ l.Nodup ∧ (∀ x ∈ l, x < n) ∧
      (0 < rf → l.head? = some (h % n)) := by
  refine ⟨_, distribute_eq h n rf hn hn16, ?_, ?_, ?_, ?_⟩
  · simp [seqOf, MAX_REPLICATION_FACTOR]
  · exact seqOf_nodup (jump_coprime n hn) (by omega)
  · intro x hx
    simp only [seqOf, List.mem_map] at hx
    obtain ⟨i, _, rfl⟩ := hx
    exact Nat.mod_lt _ hn
  · intro hrf
    have : min rf (min n MAX_REPLICATION_FACTOR) = (min rf (min n MAX_REPLICATION_FACTOR) - 1) + 1 := by
      simp [MAX_REPLICATION_FACTOR]; omega
    rw [this]
    simp [seqOf, List.range_succ_eq_map]

/-- A smaller rf yields a prefix of the result for a larger one. -/
theorem prefix_monotone (h n rf rf' : Nat) (hn16 : n < 2 ^ 16) (hle : rf ≤ rf') :
    ∃ l l', distribute h n rf = some l ∧ distribute h n rf' = some l' ∧ l <+: l' := by
  by_cases hn : n = 0
  · subst hn
    exact ⟨[], [], by simp [distribute], by simp [distribute], List.prefix_refl _⟩
  · have hn' : 0 < n := by omega
    refine ⟨_, _, distribute_eq h n rf hn' hn16, distribute_eq h n rf' hn' hn16, ?_⟩
    unfold seqOf
    apply List.IsPrefix.map
    obtain ⟨d, hd⟩ : ∃ d, min rf' (min n MAX_REPLICATION_FACTOR) = min rf (min n MAX_REPLICATION_FACTOR) + d :=
      ⟨min rf' (min n MAX_REPLICATION_FACTOR) - min rf (min n MAX_REPLICATION_FACTOR), by omega⟩
    rw [hd, List.range_add]
    exact List.prefix_append _ _

/-- Deterministic: a function of its arguments (trivially so for a Lean function; stated for
completeness — the correspondence run checks the Rust function is equal to this function). -/
theorem deterministic (h n rf : Nat) (a b : Option (List Nat))
    (ha : distribute h n rf = a) (hb : distribute h n rf = b) : a = b := ha ▸ hb

-- non-vacuity: a concrete in-range instance (tests, labelled as tests)
example : distribute 65535 65535 12 = some
    [0, 32768, 1, 32769, 2, 32770, 3, 32771, 4, 32772, 5, 32773] := by decide
example : distribute 7 65534 3 = some [7, 32776, 11] := by decide

end SierraModel.C24
