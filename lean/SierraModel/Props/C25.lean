/-
C25 — expected-version algebra matches the store and round-trips.
Quantifier: ALL expected/current versions over the whole u64 range (v ≤ U64_MAX hypotheses are
the type's range, not a restriction).
-/
import SierraModel.Lemmas.Version

namespace SierraModel.C25
open SierraModel.Version

/-- `gap_from` never traps. -/
theorem gap_total (e : Expected) (c : Current) : ∃ g, gapFrom e c = some g := by
  cases e <;> cases c <;> simp [gapFrom]
  rename_i ev cv
  by_cases h1 : ev = cv
  · simp [h1]
  · by_cases h2 : ev > cv
    · simp [h1, h2, subU64]; omega
    · simp [h1, h2, subU64]; omega

/-- `gap_from` reports the signed distance (saturated at u64::MAX where it would be 2^64). -/
theorem gap_exact_current (ev cv : Nat) :
    gapFrom (.exact ev) (.current cv) =
      some (if ev = cv then .none else if ev > cv then .behind (ev - cv) else .ahead (cv - ev)) := by
  unfold gapFrom
  by_cases h1 : ev = cv
  · simp [h1]
  · by_cases h2 : ev > cv
    · have : cv ≤ ev := by omega
      simp [h1, h2, subU64, this]
    · have : ev ≤ cv := by omega
      simp [h1, h2, subU64, this]

theorem gap_empty_current (n : Nat) :
    gapFrom .empty (.current n) = some (.ahead (min (n + 1) U64_MAX)) := by
  simp only [gapFrom, satAddU64]; split <;> (congr 2; omega)

theorem gap_exact_empty (ev : Nat) :
    gapFrom (.exact ev) .empty = some (.behind (min (ev + 1) U64_MAX)) := by
  simp only [gapFrom, satAddU64]; split <;> (congr 2; omega)

/-- `is_satisfied_by` holds exactly when the store accepts (`storeAccepts` is the predicate the
store model of C02 uses, tied to the real `validate_partition_sequence` by the harness). -/
theorem satisfied_iff_store (e : Expected) (c : Current) :
    isSatisfiedBy e c = some (storeAccepts e c) := by
  cases e <;> cases c <;> simp [isSatisfiedBy, gapFrom, storeAccepts]
  rename_i ev cv
  by_cases h1 : ev = cv
  · simp [h1]
  · have hb : (ev == cv) = false := by simp [h1]
    by_cases h2 : ev > cv
    · have : cv ≤ ev := by omega
      simp [h1, h2, subU64, this]; rw [hb]; exact beq_eq_false_iff_ne.mpr (by intro h; cases h)
    · have : ev ≤ cv := by omega
      simp [h1, h2, subU64, this]; rw [hb]; exact beq_eq_false_iff_ne.mpr (by intro h; cases h)

def InRange : Expected → Prop
  | .exact v => v ≤ U64_MAX
  | _ => True

/-- parse ∘ display = id on every value of the type. -/
theorem parse_display (e : Expected) (h : InRange e) : parse (display e) = some e := by
  cases e with
  | any => decide
  | exists_ => decide
  | empty => decide
  | exact v =>
    simp only [display]
    rw [parse_of_headIsDigit _ (headIsDigit_digits v), parseDigits_digits v h]
    rfl

/-- display ∘ parse = id on canonical strings (those `display` produces). -/
theorem display_parse_canonical (s : List Char) (e e' : Expected) (h' : InRange e')
    (hs : s = display e') (hp : parse s = some e) : display e = s := by
  subst hs
  rw [parse_display e' h'] at hp
  cases hp; rfl

/-- into_next_version ∘ from_next_version = Some, on all of u64. -/
theorem into_from_next (v : Nat) (hv : v ≤ U64_MAX) :
    ∃ e, fromNext v = some e ∧ intoNext e = .some v := by
  unfold fromNext
  by_cases h : v = 0
  · subst h; exact ⟨.empty, by simp, rfl⟩
  · refine ⟨.exact (v - 1), by simp [h, subU64]; try omega, ?_⟩
    simp only [intoNext, addU64]
    have : v - 1 + 1 = v := by omega
    simp [this, hv]

/-- from_next_version ∘ into_next_version = id on {Empty} ∪ {Exact v | v < u64::MAX};
`Exact(u64::MAX)` has no next version (`None`), `Any`/`Exists` are outside the domain (panic). -/
theorem from_into_next (e : Expected) :
    (e = .empty → intoNext e = .some 0 ∧ fromNext 0 = some e) ∧
    (∀ v, e = .exact v → v < U64_MAX → intoNext e = .some (v + 1) ∧ fromNext (v + 1) = some e) ∧
    (e = .exact U64_MAX → intoNext e = .none) ∧
    ((e = .any ∨ e = .exists_) → intoNext e = .panic) := by
  refine ⟨?_, ?_, ?_, ?_⟩
  · intro h; subst h; simp [intoNext, fromNext]
  · intro v h hv; subst h
    have : v + 1 ≤ U64_MAX := by omega
    simp [intoNext, addU64, fromNext, subU64, this]
  · intro h; subst h; simp [intoNext, addU64, U64_MAX]
  · intro h; rcases h with h | h <;> subst h <;> rfl

-- non-vacuity (tests, labelled as tests)
example : gapFrom .empty (.current U64_MAX) = some (.ahead U64_MAX) := by decide
example : parse (display (.exact 18446744073709551615)) = some (.exact 18446744073709551615) := by decide

end SierraModel.C25
