/-
C26 — the write circuit breaker is panic-free, opens only after `failure_threshold` consecutive
failures, and bounds the probes of a half-open episode.

Quantifier of every theorem: ALL configurations, ALL initial clock values, ANY number of threads
(thread ids are natural numbers), each running ANY list of the four public methods, and ALL
schedules = lists of `Act.step t` (thread `t` executes its next ATOMIC operation) and
`Act.clock v` (the clock is set to an arbitrary value — it may advance, or step back, between any
two atomic operations).  Proof: one invariant (`Lemmas/Breaker.lean`, `Inv`), preserved by every
atomic step, induction over the schedule.

Ghost state the statements refer to (maintained by the model, never read by it):
* `hist`  — report history, newest first: `F` at every `failure_count.fetch_add` of
  record_failure, `S` at the `failure_count.store(0)` of a record_success that observed Closed,
  `Z` at the `failure_count.store(0)` of transition_to_closed;
* `log`   — `Ev.opened prev just` at every `state.store(Open)` (`prev` = state cell before the
  store; `just = some h`: executed by the closed branch of record_failure, `h` = `hist` at that
  call's own fetch_add; `just = none`: executed by a record_failure that observed HalfOpen),
  `Ev.episode adm stale` at every state change away from HalfOpen (`adm` = number of
  should_allow_request calls that returned true at a fetch_add executed since the
  Open→HalfOpen compare_exchange, `stale` = number of `half_open_call_count.store(0)` executed
  in that interval); `epAdm`/`epStale` are the same counters for the episode in progress.
-/
import SierraModel.Lemmas.Breaker

namespace SierraModel.C26
open SierraModel.Breaker

/-
(a) FULL STATEMENT (not provable for the code as it is):
      ∀ cfg c progs sched, (run (init cfg c progs) sched).trapped = false
    Missing: `failure_count.fetch_add(1) + 1` and `half_open_success_count.fetch_add(1) + 1` are
    unchecked-in-release / panicking-in-debug u32 additions; with ≥ 2^32 - 1 increments between two
    resets (needs that many calls in flight past their state check, or a threshold near u32::MAX) the
    `+ 1` overflows.  Proved: no schedule with fewer than 2^32 - 1 entries reaches a trap, and no
    thread is ever dead; in particular the clock subtractions (F26) can never trap, whatever the
    clock does.
-/
theorem no_trap_partial (cfg : Cfg) (c : Nat) (progs : List (List Meth)) (sched : List Act)
    (hlen : sched.length < 4294967295) :
    (run (init cfg c progs) sched).trapped = false ∧
    ∀ t, ((run (init cfg c progs) sched).threads t).pc ≠ .dead := by
  have hi := inv_run sched _ (inv_init cfg c progs)
  have hs := run_steps_le sched (init cfg c progs)
  have h0 : (init cfg c progs).steps = 0 := rfl
  have ht : (run (init cfg c progs) sched).trapped = false := by
    cases h : (run (init cfg c progs) sched).trapped with
    | false => rfl
    | true =>
      have := hi.trapB h
      simp only [Bound, U32] at this
      omega
  refine ⟨ht, fun t hd => ?_⟩
  have hdead := dead_run sched (init cfg c progs) (by intro t h; simp [init] at h) t hd
  rw [ht] at hdead
  exact absurd hdead (by simp)

/-
(b) FULL STATEMENT (not provable): every Closed→Open change of the state cell happens when the
    `threshold` most recent reports (each report taken at one linearisation point) are failures.
    Proved: every `state.store(Open)` executed by the closed branch of record_failure — for every
    value `prev` of the state cell at that moment, Closed included — was decided at a
    fetch_add at which the `threshold` most recent entries of the report history were all
    failures (no Closed-state success, no reset in between).
    Missing: (1) a record_failure that observed HalfOpen stores Open unconditionally ("any failure
    in half-open opens"); if the breaker was closed by another thread in between, that store is a
    Closed→Open change (logged with `just = none`) that this theorem does not cover;
    (2) successes observed in HalfOpen/Open are not entries of `hist` (they do not touch
    failure_count), so a success concurrent with the closing transition is not ordered
    against stale in-flight failures.
-/
theorem open_rule_partial (cfg : Cfg) (c : Nat) (progs : List (List Meth)) (sched : List Act)
    (prev : CState) (h : List Rep)
    (hm : Ev.opened prev (some h) ∈ (run (init cfg c progs) sched).log) :
    h.take cfg.threshold = List.replicate cfg.threshold Rep.F := by
  have hi := inv_run sched _ (inv_init cfg c progs)
  have hc : (run (init cfg c progs) sched).cfg = cfg := run_cfg sched _
  have := hi.logOpen prev h hm
  rw [hc] at this
  exact take_of_trailF _ _ this

/-
(c) FULL STATEMENT (not provable for the code as it is): every half-open episode admits at most
    `maxCalls` probes:  ∀ a st, Ev.episode a st ∈ log → a ≤ cfg.maxCalls.
    Proved: admitted ≤ maxCalls · (1 + stale), where `stale` counts the
    `half_open_call_count.store(0)` operations that land INSIDE the episode; hence ≤ maxCalls for
    every episode in which no such store lands (`probe_bound_no_stale_reset`), for finished
    episodes and for the one in progress.
    Missing: transition_to_open / transition_to_closed reset the half-open counters AFTER their
    state store; a thread stalled between the two (for at least recovery_timeout, so that the
    breaker can go Open→HalfOpen meanwhile) resets the counter of a later episode
    (known finding "C26:probes stale-reset", exhibited by the harness).  The length bound is the
    u32 wrap of half_open_call_count (fetch_add wraps silently after 2^32 calls).
-/
theorem probe_bound_partial (cfg : Cfg) (c : Nat) (progs : List (List Meth)) (sched : List Act)
    (hlen : sched.length < 4294967295) :
    (∀ a st, Ev.episode a st ∈ (run (init cfg c progs) sched).log → a ≤ cfg.maxCalls * (st + 1)) ∧
    ((run (init cfg c progs) sched).state = .half →
      (run (init cfg c progs) sched).epAdm ≤
        cfg.maxCalls * ((run (init cfg c progs) sched).epStale + 1)) := by
  have hi := inv_run sched _ (inv_init cfg c progs)
  have hs := run_steps_le sched (init cfg c progs)
  have h0 : (init cfg c progs).steps = 0 := rfl
  have hc : (run (init cfg c progs) sched).cfg = cfg := run_cfg sched _
  have hb : (run (init cfg c progs) sched).steps < Bound := by simp only [Bound, U32]; omega
  refine ⟨?_, ?_⟩
  · have := hi.logEp hb
    rw [hc] at this
    exact this
  · intro hh
    have := (hi.ep hb hh).2
    rw [hc] at this
    rw [Nat.mul_succ]
    exact this

/-- corollary: an episode into which no stale counter reset lands admits ≤ maxCalls probes -/
theorem probe_bound_no_stale_reset (cfg : Cfg) (c : Nat) (progs : List (List Meth))
    (sched : List Act) (hlen : sched.length < 4294967295) (a : Nat)
    (hm : Ev.episode a 0 ∈ (run (init cfg c progs) sched).log) : a ≤ cfg.maxCalls := by
  have := (probe_bound_partial cfg c progs sched hlen).1 a 0 hm
  simpa using this

-- non-vacuity (tests, labelled as tests) ----------------------------------------------------------
-- threshold 2, timeout 10 ms, max 1 probe, 1 success closes; clock starts at 100

/-- one thread: fail, fail (opens), [clock 120], allow (probe admitted), allow (refused), succ (closes) -/
def demo1 : Sys :=
  run (init ⟨2, 10, 1, 1⟩ 100 [[.fail, .fail, .allow, .allow, .succ]])
    (List.replicate 11 (.step 0) ++ [.clock 120] ++ List.replicate 15 (.step 0))

example : demo1.log = [.episode 1 0, .opened .closed (some [.F, .F])] := by decide
example : demo1.trapped = false ∧ demo1.state = .closed ∧
    (demo1.threads 0).rets = [.unit, .bool false, .bool true, .unit, .unit] := by decide

/-- F26 schedule: thread 0 reads `now = 100` in should_allow_request, the clock advances, thread 1's
record_failure stores 150, thread 0 loads it: `100.saturating_sub(150) = 0 < 10` — refused, no trap -/
def demo2 : Sys :=
  run (init ⟨2, 10, 1, 1⟩ 100 [[.allow], [.fail], [.fail, .fail]])
    (List.replicate 11 (.step 2) ++ [.step 0, .step 0, .clock 150, .step 1, .step 1, .step 0])

example : demo2.trapped = false ∧ demo2.lf = 150 ∧ (demo2.threads 0).rets = [.bool false] := by decide

/-- the residual of clause (c): thread 0 closes the breaker and stalls before its counter resets;
thread 1 re-opens it, a new episode starts and admits its probe, thread 0's stale
`half_open_call_count.store(0)` lands, a second probe is admitted: episode (2 admitted, 1 stale) -/
def demo3 : Sys :=
  run (init ⟨2, 10, 1, 1⟩ 100 [[.succ], [.fail, .fail, .allow, .fail, .fail, .allow, .allow, .fail]])
    (List.replicate 11 (.step 1) ++ [.clock 120] ++ List.replicate 5 (.step 1) ++
     List.replicate 6 (.step 0) ++ List.replicate 11 (.step 1) ++ [.clock 300] ++
     List.replicate 5 (.step 1) ++ [.step 0] ++ List.replicate 6 (.step 1))

set_option maxRecDepth 8192 in
example : demo3.log.take 2 = [.opened .half none, .episode 2 1] := by decide

end SierraModel.C26
