/-
CRC-32 (IEEE 802.3, reflected, polynomial 0xEDB88320, init and final xor 0xFFFFFFFF) — the
function `crc32fast::Hasher` computes, which seglog calls "crc32c" (`calculate_crc32c`,
crates/seglog/src/lib.rs).  Bit-serial definition (one register step per message bit, LSB of
each byte first); compared with the real crate on every correspondence run.
-/
namespace SierraModel.Seglog

def POLY : BitVec 32 := 0xEDB88320#32

/-- one register step consuming one message bit -/
def crcStep (reg : BitVec 32) (b : Bool) : BitVec 32 :=
  let r := if b then reg ^^^ 1#32 else reg
  if r.getLsbD 0 then (r >>> 1) ^^^ POLY else r >>> 1

/-- the 8 bits of a byte, least significant first (processing order) -/
def byteBits (x : UInt8) : List Bool := (List.range 8).map (fun i => x.toNat.testBit i)

def bitsOf (bytes : List UInt8) : List Bool := bytes.flatMap byteBits

/-- raw register run (no init / final xor) -/
def crcRun (reg : BitVec 32) (bits : List Bool) : BitVec 32 := bits.foldl crcStep reg

def crc32 (bytes : List UInt8) : BitVec 32 := (crcRun 0xFFFFFFFF#32 (bitsOf bytes)) ^^^ 0xFFFFFFFF#32

end SierraModel.Seglog
