/-
Model of one segment shared by a `seglog::write::Writer<H>` and any number of long-lived
`seglog::read::Reader<H>`s (crates/seglog/src/{write,read}.rs), each public call atomic.
The file is the OS-visible byte content (page cache): `pwrite`/`pread` are exact; `fallocate`
gives `size` zero bytes; `durable` is the content as of the last `sync_data` (used by the
crash model).  `std::io::BufWriter` (16 KiB) is modelled exactly, incl. its spill rule.
-/
import SierraModel.Seglog.Record

namespace SierraModel.Seglog

def WRITE_BUF_SIZE : Nat := 16 * 1024
def READ_AHEAD_SIZE : Nat := 64 * 1024
def PAGE_SIZE : Nat := 4096

structure Writer where
  H : Nat
  size : Nat
  file : Bytes
  durable : Bytes
  buf : Bytes            -- BufWriter: bytes accepted but not yet handed to the OS
  cursor : Nat           -- file position of the BufWriter's inner `File`
  writeOffset : Nat
  flushed : Nat          -- shared `FlushedOffset`
  epoch : Nat            -- shared invalidation epoch
  dirty : Bool
  compression : Bool
  deriving Repr

/-- `pwrite` (extends the file with zeros if needed) -/
def pwrite (file : Bytes) (off : Nat) (data : Bytes) : Bytes :=
  let file' := if file.length < off then file ++ List.replicate (off - file.length) 0 else file
  file'.take off ++ data ++ file'.drop (off + data.length)

def Writer.flushBuf (w : Writer) : Writer :=
  { w with file := pwrite w.file w.cursor w.buf, cursor := w.cursor + w.buf.length, buf := [] }

/-- `BufWriter::write_all` (std): fast path `len < spare`; cold path flushes when
`len > spare`, then writes through when `len ≥ capacity`, else buffers. -/
def Writer.bufWrite (w : Writer) (data : Bytes) : Writer :=
  let spare := WRITE_BUF_SIZE - w.buf.length
  if data.length < spare then { w with buf := w.buf ++ data }
  else
    let w1 := if data.length > spare then w.flushBuf else w
    if data.length ≥ WRITE_BUF_SIZE then
      { w1 with file := pwrite w1.file w1.cursor data, cursor := w1.cursor + data.length }
    else { w1 with buf := w1.buf ++ data }

def Writer.create (H size start : Nat) : Writer :=
  { H := H, size := size, file := List.replicate size 0, durable := List.replicate size 0, buf := [],
    cursor := start, writeOffset := start, flushed := start, epoch := 0, dirty := false, compression := false }

inductive AppendRes where
  | ok (offset len : Nat)
  | full
  deriving DecidableEq, Repr

/-- `Writer::append`; `z` = `orig_size_le ‖ zstd(data)` supplied by the environment (zstd is not
modelled), used iff the writer decides to compress. -/
def Writer.append (w : Writer) (hdr data z : Bytes) : Writer × AppendRes :=
  let compress := w.compression && data.length ≥ MIN_COMPRESSION_SIZE
  let stored := if compress then z else data
  let total := RECORD_HEAD_SIZE + w.H + stored.length
  if w.writeOffset + total > w.size then (w, .full)
  else
    let lenFlag := (w.H + stored.length) + (if compress then COMPRESSION_FLAG else 0)
    let lenBytes := le32 lenFlag
    let crcBytes := le32 (crc32 (lenBytes ++ hdr ++ stored)).toNat
    let w1 := { w with dirty := true }
    let w2 := (((w1.bufWrite lenBytes).bufWrite crcBytes).bufWrite hdr).bufWrite stored
    ({ w2 with writeOffset := w.writeOffset + total }, .ok w.writeOffset total)

/-- `Writer::flush_writer` -/
def Writer.flushWriter (w : Writer) : Writer := w.flushBuf

/-- `Writer::sync` -/
def Writer.sync (w : Writer) : Writer :=
  if w.dirty then
    let w1 := w.flushBuf
    { w1 with durable := w1.file, flushed := w1.writeOffset, dirty := false }
  else w

/-- `Writer::set_len` (after the fixes: no publication of the truncated bytes, cursor moved,
epoch advanced) -/
def Writer.setLen (w : Writer) (off : Nat) : Writer :=
  if off ≥ w.writeOffset then w
  else
    let w1 := w.flushBuf
    let file := pwrite w1.file off (List.replicate RECORD_HEAD_SIZE 0)
    { w1 with file := file, durable := file, epoch := w1.epoch + 1, flushed := off, writeOffset := off,
              dirty := false, cursor := off }

/-! ### readers -/

structure Cache where
  off : Nat := 0
  bytes : Bytes := []     -- the valid part of the read-ahead buffer
  epoch : Nat := 0
  deriving Repr

structure Reader where
  cache : Cache := {}
  /-- `Some` = own fixed flushed offset (opened with `None`: file length at open);
  `none` = shares the writer's `FlushedOffset` -/
  ownFlushed : Option Nat := none
  deriving Repr

/-- `ReadAheadBuf::read` (+ `fill`): bytes `[off, off+len)`, through the cache -/
def Cache.read (c : Cache) (file : Bytes) (off len flushed epoch : Nat) : Cache × Option Bytes :=
  if c.epoch == epoch && off ≥ c.off && off + len ≤ c.off + c.bytes.length then
    (c, some (slice c.bytes (off - c.off) len))
  else
    let cOff := off - off % READ_AHEAD_SIZE
    let length' := off + len - cOff
    let required := ((max length' READ_AHEAD_SIZE) + PAGE_SIZE - 1) / PAGE_SIZE * PAGE_SIZE
    let readable := min required (flushed - cOff)
    let c' : Cache := { off := cOff, bytes := slice file cOff readable, epoch := epoch }
    if off < c'.off || off + len > c'.off + c'.bytes.length then (c', none)
    else (c', some (slice c'.bytes (off - c'.off) len))

/-- `Reader::read_record(off, Sequential)`: same decisions as `parseAt`, bytes through the cache -/
def Reader.readSeq (r : Reader) (H : Nat) (file : Bytes) (flushed epoch off : Nat) : Reader × Except RdErr Rec :=
  if off + RECORD_HEAD_SIZE > flushed then (r, .error .oob)
  else
    match r.cache.read file off RECORD_HEAD_SIZE flushed epoch with
    | (c1, none) => ({ r with cache := c1 }, .error .io)
    | (c1, some head) =>
      if head.all (· == 0) then ({ r with cache := c1 }, .error .trunc)
      else
        let lenBytes := head.take 4
        let lenFlag := fromLe32 lenBytes
        let compressed := lenFlag ≥ COMPRESSION_FLAG
        let payloadLen := lenFlag % COMPRESSION_FLAG
        let storedCrc := fromLe32 (head.drop 4)
        if off + RECORD_HEAD_SIZE + payloadLen > flushed then ({ r with cache := c1 }, .error .oob)
        else if payloadLen < H then ({ r with cache := c1 }, .error .crc)
        else
          match c1.read file (off + RECORD_HEAD_SIZE) payloadLen flushed epoch with
          | (c2, none) => ({ r with cache := c2 }, .error .io)
          | (c2, some payload) =>
            let hdr := payload.take H
            let stored := payload.drop H
            let r' := { r with cache := c2 }
            if (crc32 (lenBytes ++ hdr ++ stored)).toNat ≠ storedCrc then (r', .error .crc)
            else if compressed && stored.length < 4 then (r', .error .io)
            else (r', .ok { hdr := hdr, stored := stored, compressed := compressed, len := RECORD_HEAD_SIZE + payloadLen })

/-- `Reader::read_record(off, Random)` -/
def Reader.readRandom (H : Nat) (file : Bytes) (flushed off : Nat) : Except RdErr Rec :=
  parseAt H file flushed off

/-- `Reader::replace_header` : rewrite CRC + header in place (data untouched), drop the own cache
if overlapping, advance the shared epoch.  Returns the new file. -/
def replaceHeader (H : Nat) (file : Bytes) (flushed off : Nat) (newHdr : Bytes) : Except RdErr Bytes :=
  match parseAt H file flushed off with
  | .error e => .error e
  | .ok rec =>
    let payloadLen := rec.len - RECORD_HEAD_SIZE
    let lenFlag := payloadLen + (if rec.compressed then COMPRESSION_FLAG else 0)
    let lenBytes := le32 lenFlag
    let crcBytes := le32 (crc32 (lenBytes ++ newHdr ++ rec.stored)).toNat
    .ok (pwrite file (off + 4) (crcBytes ++ newHdr))

end SierraModel.Seglog

namespace SierraModel.Seglog

/-- `Writer::open`: recovery scan from `start` over the whole file, then position everything there -/
def Writer.openExisting (H size start : Nat) (file : Bytes) : Writer :=
  let wo := recoverScan H file file.length file.length start
  { H := H, size := size, file := file, durable := file, buf := [], cursor := wo, writeOffset := wo,
    flushed := wo, epoch := 0, dirty := false, compression := false }

end SierraModel.Seglog
