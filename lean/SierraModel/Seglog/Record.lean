/-
Model of the seglog record format and of the shared parsing logic of
`Reader::read_record` (random: optimistic / fallback / large paths; sequential),
`parse::parse_record`, `Iter::next_record` and the recovery scan of `Writer::open`
(crates/seglog/src/{read,parse,write}.rs).  zstd is NOT modelled: a compressed record's stored
data (`original_size_le ‖ zstd bytes`) is opaque input; only the framing is modelled.
-/
import SierraModel.Seglog.Crc

namespace SierraModel.Seglog

abbrev Bytes := List UInt8

def RECORD_HEAD_SIZE : Nat := 8
def COMPRESSION_FLAG : Nat := 2 ^ 31
def LENGTH_MASK : Nat := 2 ^ 31 - 1
def MIN_COMPRESSION_SIZE : Nat := 128

/-- 4-byte little-endian encoding of a u32 -/
def le32 (n : Nat) : Bytes :=
  [UInt8.ofNat (n % 256), UInt8.ofNat (n / 256 % 256), UInt8.ofNat (n / 65536 % 256), UInt8.ofNat (n / 16777216 % 256)]

def fromLe32 (b : Bytes) : Nat :=
  match b with
  | [a, b, c, d] => a.toNat + 256 * b.toNat + 65536 * c.toNat + 16777216 * d.toNat
  | _ => 0

/-- what `Writer::append` puts into the file for header `hdr` (H bytes) and stored data
(`stored` = data, or `orig_size_le ‖ zstd(data)` when `compressed`) -/
def encodeRec (hdr stored : Bytes) (compressed : Bool) : Bytes :=
  let lenFlag := (hdr.length + stored.length) + (if compressed then COMPRESSION_FLAG else 0)
  let lenBytes := le32 lenFlag
  lenBytes ++ le32 (crc32 (lenBytes ++ hdr ++ stored)).toNat ++ hdr ++ stored

inductive RdErr where
  | crc | oob | trunc | io
  deriving DecidableEq, Repr

structure Rec where
  hdr : Bytes
  stored : Bytes
  compressed : Bool
  len : Nat            -- total record length = 8 + payload_len
  deriving DecidableEq, Repr

def slice (bytes : Bytes) (off len : Nat) : Bytes := (bytes.drop off).take len

/-- parse the record at `off`, reading only below `limit` (the flushed offset for readers, the
buffer length for `parse_record`).  `H` = fixed header size. -/
def parseAt (H : Nat) (bytes : Bytes) (limit off : Nat) : Except RdErr Rec :=
  if off + RECORD_HEAD_SIZE > limit then .error .oob
  else
    let head := slice bytes off RECORD_HEAD_SIZE
    if head.all (· == 0) then .error .trunc
    else
      let lenBytes := head.take 4
      let lenFlag := fromLe32 lenBytes
      let compressed := lenFlag ≥ COMPRESSION_FLAG
      let payloadLen := lenFlag % COMPRESSION_FLAG
      let storedCrc := fromLe32 (head.drop 4)
      if off + RECORD_HEAD_SIZE + payloadLen > limit then .error .oob
      else if payloadLen < H then .error .crc
      else
        let payload := slice bytes (off + RECORD_HEAD_SIZE) payloadLen
        let hdr := payload.take H
        let stored := payload.drop H
        if (crc32 (lenBytes ++ hdr ++ stored)).toNat ≠ storedCrc then .error .crc
        else if compressed && stored.length < 4 then .error .io
        else .ok { hdr := hdr, stored := stored, compressed := compressed, len := RECORD_HEAD_SIZE + payloadLen }

/-- `Iter::next_record` repeated: records from `off` until OutOfBounds / TruncationMarker (end),
or a Crc/Io error (reported).  Fuel = number of bytes (each record consumes ≥ 8). -/
def iterFrom (H : Nat) (bytes : Bytes) (limit : Nat) : Nat → Nat → List (Nat × Rec) × Option RdErr
  | 0, _ => ([], none)
  | fuel + 1, off =>
    match parseAt H bytes limit off with
    | .ok r =>
      let (rs, e) := iterFrom H bytes limit fuel (off + r.len)
      ((off, r) :: rs, e)
    | .error .oob => ([], none)
    | .error .trunc => ([], none)
    | .error e => ([], some e)

/-- recovery scan of `Writer::open`: offset right after the last record that parses
(`limit` = file length); every error ends the scan. -/
def recoverScan (H : Nat) (bytes : Bytes) (limit : Nat) : Nat → Nat → Nat
  | 0, off => off
  | fuel + 1, off =>
    match parseAt H bytes limit off with
    | .ok r => recoverScan H bytes limit fuel (off + r.len)
    | .error _ => off

end SierraModel.Seglog
