/-
One shared segment = a writer + long-lived readers, as a state machine over public API calls
(each call atomic: the real types are `&mut self` per object; the model interleaves whole calls).
`recs` is GHOST state (never read by the operations): the records a correct segment holds —
appended, not truncated, with their current (possibly replaced) headers.
-/
import SierraModel.Seglog.Log

namespace SierraModel.Seglog

structure Ghost where
  off : Nat
  hdr : Bytes
  stored : Bytes
  compressed : Bool
  deriving Repr, DecidableEq

def Ghost.len (H : Nat) (g : Ghost) : Nat := RECORD_HEAD_SIZE + (H + g.stored.length)

structure Sys where
  w : Writer
  start : Nat
  readers : List Reader
  recs : List Ghost
  deriving Repr

inductive Op where
  | append (hdr data z : Bytes)
  | flush
  | sync
  | setLen (off : Nat)
  | compress (b : Bool)
  | readRandom (off : Nat)
  | readSeq (ri off : Nat)
  | replace (off : Nat) (hdr : Bytes)
  deriving Repr

inductive Out where
  | unit
  | appended (r : AppendRes)
  | offs (wo flushed : Nat)
  | read (r : Except RdErr Rec)
  | replaced (r : Option RdErr)

def Sys.create (H size start : Nat) : Sys :=
  { w := Writer.create H size start, start := start, readers := [{}, {}, {}], recs := [] }

def Sys.step (s : Sys) : Op → Sys × Out
  | .append hdr data z =>
    let (w', r) := s.w.append hdr data z
    let recs' := match r with
      | .ok off _ =>
        let compress := s.w.compression && data.length ≥ MIN_COMPRESSION_SIZE
        s.recs ++ [{ off := off, hdr := hdr, stored := if compress then z else data, compressed := compress }]
      | .full => s.recs
    ({ s with w := w', recs := recs' }, .appended r)
  | .flush => ({ s with w := s.w.flushWriter }, .unit)
  | .sync => let w' := s.w.sync; ({ s with w := w' }, .offs w'.writeOffset w'.flushed)
  | .setLen off =>
    let w' := s.w.setLen off
    let recs' := if off ≥ s.w.writeOffset then s.recs else s.recs.filter (fun g => g.off + g.len s.w.H ≤ off)
    ({ s with w := w', recs := recs' }, .offs w'.writeOffset w'.flushed)
  | .compress b => ({ s with w := { s.w with compression := b } }, .unit)
  | .readRandom off => (s, .read (Reader.readRandom s.w.H s.w.file s.w.flushed off))
  | .readSeq ri off =>
    match s.readers[ri]? with
    | some r =>
      let (r', res) := r.readSeq s.w.H s.w.file s.w.flushed s.w.epoch off
      ({ s with readers := s.readers.set ri r' }, .read res)
    | none => (s, .unit)
  | .replace off hdr =>
    match replaceHeader s.w.H s.w.file s.w.flushed off hdr with
    | .ok file' =>
      ({ s with w := { s.w with file := file', durable := file', epoch := s.w.epoch + 1 },
                recs := s.recs.map (fun g => if g.off == off then { g with hdr := hdr } else g) }, .replaced none)
    | .error e => (s, .replaced (some e))

def Sys.run (s : Sys) (ops : List Op) : Sys := ops.foldl (fun s op => (s.step op).1) s

end SierraModel.Seglog
