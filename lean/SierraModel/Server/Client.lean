/-
C21 — the commands the Rust client emits (crates/sierradb-client/src/commands.rs, options.rs,
subscription.rs, types.rs): one constructor per builder *shape* (several builder functions that differ
only in which optional arguments they pass share a constructor), `emit` = the argument vector the
builder writes (`redis::Cmd::arg`: integers in decimal, `Uuid::to_string()` hyphenated lower case,
keywords in upper case), `denote` = the request the builder is meant to issue.

`toDoc` reads an emitted vector as a documented form (used to derive the client theorem from the
grammar theorem).  The two shapes of finding F24 (`EPSUB <partition key>`, `EPSUB <start>-<end>`) have
no documented form; `Supported` excludes exactly them.
-/
import SierraModel.Server.Parse

namespace SierraModel.Server
open SierraModel.Version (parseU64 Expected digits U64_MAX)

/-! ### how the client writes numbers and uuids -/

def hexChar (n : Nat) : Char := if n < 10 then Char.ofNat (48 + n) else Char.ofNat (87 + n)

/-- `k` lower-case hex digits of `n` (most significant first), in front of `acc` -/
def hexFixed : Nat → Nat → List Char → List Char
  | 0, _, acc => acc
  | k + 1, n, acc => hexFixed k (n / 16) (hexChar (n % 16) :: acc)

/-- `Uuid::to_string()`: 8-4-4-4-12 lower-case hex -/
def fmtUuid (u : Nat) : List Char :=
  hexFixed 8 (u / 16 ^ 24) ('-' :: hexFixed 4 (u / 16 ^ 20) ('-' :: hexFixed 4 (u / 16 ^ 16)
    ('-' :: hexFixed 4 (u / 16 ^ 12) ('-' :: hexFixed 12 u []))))

def UUID_MAX : Nat := 2 ^ 128 - 1

/-! ### builder shapes -/

/-- `EAppendOptions` / the optional part of `EMAppendEvent` -/
structure AppendOpts where
  eventId : Option Nat := none
  partitionKey : Option Nat := none     -- EAPPEND only
  expected : Expected := .any
  timestamp : Option Nat := none
  payload : Tok := .text []
  metadata : Tok := .text []
  deriving DecidableEq, Repr

/-- `FROM …` of the all-partitions subscriptions -/
inductive ClientFrom where
  | latest | seq (n : Nat)
  deriving DecidableEq, Repr

inductive ClientCmd where
  /-- `eappend(stream, name, options)` -/
  | eappend (stream name : List Char) (o : AppendOpts)
  /-- `emappend(partition_key, events)` -/
  | emappend (pk : Nat) (events : List (List Char × List Char × AppendOpts))
  | eget (id : Nat)
  /-- `epscan_by_key` / `epscan_by_id`: `EPSCAN <p> <start> <end|+> COUNT <count|100>` -/
  | epscanByKey (key start : Nat) (stop count : Option Nat)
  | epscanById (pid start : Nat) (stop count : Option Nat)
  /-- `escan` / `escan_with_partition_key` -/
  | escan (stream : List Char) (pk : Option Nat) (start : Nat) (stop count : Option Nat)
  | epseqByKey (key : Nat)
  | epseqById (pid : Nat)
  /-- `esver` / `esver_with_partition_key` -/
  | esver (stream : List Char) (pk : Option Nat)
  /-- `esub*` of commands.rs and `SubscriptionManager::subscribe_to_stream*`:
  `ESUB <stream> [PARTITION_KEY k] [FROM v] [WINDOW w]` -/
  | esubOpts (stream : List Char) (pk from_ window : Option Nat)
  /-- `subscribe_to_stream_from_latest` -/
  | esubFromLatest (stream : List Char)
  /-- `epsub_by_id*`, `subscribe_to_partition*`: `EPSUB <id> [FROM s] [WINDOW w]` -/
  | epsubById (pid : Nat) (from_ window : Option Nat)
  /-- F24: `epsub_by_key*`, `subscribe_to_partition_key*`: `EPSUB <uuid> [FROM s] [WINDOW w]` -/
  | epsubByKey (key : Nat) (from_ window : Option Nat)
  /-- F24: `subscribe_to_partition_range`: `EPSUB <a>-<b> FROM s [WINDOW w]` -/
  | epsubRange (a b : Nat) (from_ window : Option Nat)
  /-- `subscribe_to_all_partitions*`: `EPSUB * FROM LATEST | FROM s [WINDOW w]` -/
  | epsubAll (from_ : ClientFrom) (window : Option Nat)
  | eack (id cursor : Nat)
  deriving Repr

def ClientCmd.cmd : ClientCmd → Cmd
  | .eappend .. => .eappend | .emappend .. => .emappend | .eget .. => .eget
  | .epscanByKey .. => .epscan | .epscanById .. => .epscan | .escan .. => .escan
  | .epseqByKey .. => .epseq | .epseqById .. => .epseq | .esver .. => .esver
  | .esubOpts .. => .esub | .esubFromLatest .. => .esub
  | .epsubById .. => .epsub | .epsubByKey .. => .epsub | .epsubRange .. => .epsub | .epsubAll .. => .epsub
  | .eack .. => .eack

/-- everything but the F24 shapes -/
def ClientCmd.Supported : ClientCmd → Prop
  | .epsubByKey .. => False
  | .epsubRange .. => False
  | _ => True

def tokIsEmpty : Tok → Bool
  | .text [] => true
  | .blob [] => true
  | _ => false

def expectedLex : Expected → List Char
  | .any => KW.any | .exists_ => KW.exists_ | .empty => KW.empty | .exact v => digits v

/-- the optional clauses in the order `write_redis_args` emits them -/
def AppendOpts.clauses (o : AppendOpts) (withPk : Bool) : List AppendClause :=
  (o.eventId.map (fun u => AppendClause.eventId KW.eventId (fmtUuid u))).toList ++
  ((if withPk then o.partitionKey else none).map (fun u => AppendClause.partitionKey KW.partitionKey (fmtUuid u))).toList ++
  ((if o.expected = .any then none else some o.expected).map
    (fun e => AppendClause.expectedVersion KW.expectedVersion (expectedLex e))).toList ++
  (o.timestamp.map (fun n => AppendClause.timestamp KW.timestamp (digits n))).toList ++
  (if tokIsEmpty o.payload then [] else [.payload KW.payload o.payload]) ++
  (if tokIsEmpty o.metadata then [] else [.metadata KW.metadata o.metadata])

def AppendOpts.WF (o : AppendOpts) : Prop :=
  (∀ u, o.eventId = some u → u ≤ UUID_MAX) ∧ (∀ u, o.partitionKey = some u → u ≤ UUID_MAX) ∧
  (∀ v, o.expected = .exact v → v ≤ U64_MAX) ∧ (∀ n, o.timestamp = some n → n ≤ U64_MAX) ∧
  o.payload ≠ .blob [] ∧ o.metadata ≠ .blob []

def AppendOpts.event (o : AppendOpts) (withPk : Bool) (stream name : List Char) : AppendEv :=
  { stream := stream, name := name, eventId := o.eventId,
    partitionKey := if withPk then o.partitionKey else none, expected := o.expected,
    timestamp := o.timestamp, payload := if tokIsEmpty o.payload then .text [] else o.payload,
    metadata := if tokIsEmpty o.metadata then .text [] else o.metadata }

def optPk (pk : Option Nat) : Option PkClause := pk.map (fun u => ⟨KW.partitionKey, fmtUuid u⟩)
def optNum (K : List Char) (n : Option Nat) : Option NumClause := n.map (fun v => ⟨K, digits v⟩)
def stopLex : Option Nat → List Char
  | some n => digits n
  | none => KW.plus

/-- the documented form an emitted command is an instance of (for the F24 shapes: the frames read as an
EPSUB list selector, which they are not) -/
def ClientCmd.toDoc : ClientCmd → DocCmd
  | .eappend s n o => .eappend ⟨s, n, o.clauses true⟩
  | .emappend pk evs => .emappend (fmtUuid pk) (evs.map (fun e => ⟨e.1, e.2.1, e.2.2.clauses false⟩))
  | .eget id => .eget (fmtUuid id)
  | .epscanByKey k a b c => .epscan (fmtUuid k) (digits a) (stopLex b) (some ⟨KW.count, digits (c.getD 100)⟩)
  | .epscanById p a b c => .epscan (digits p) (digits a) (stopLex b) (some ⟨KW.count, digits (c.getD 100)⟩)
  | .escan s pk a b c =>
    .escan s (digits a) (stopLex b)
      (.count KW.count (digits (c.getD 100)) ::
        (pk.map (fun u => ScanClause.partitionKey KW.partitionKey (fmtUuid u))).toList)
  | .epseqByKey k => .epseq (fmtUuid k)
  | .epseqById p => .epseq (digits p)
  | .esver s pk => .esver s (optPk pk)
  | .esubOpts s pk f w => .esub [⟨s, optPk pk⟩] (f.map (fun v => .version KW.from_ (digits v))) (optNum KW.window w)
  | .esubFromLatest s => .esub [⟨s, none⟩] (some (.latest KW.from_ KW.latest)) none
  | .epsubById p f w => .epsub (.one (digits p)) (f.map (fun v => .seq KW.from_ (digits v))) (optNum KW.window w)
  | .epsubByKey k f w => .epsub (.list (fmtUuid k)) (f.map (fun v => .seq KW.from_ (digits v))) (optNum KW.window w)
  | .epsubRange a b f w =>
    .epsub (.list (digits a ++ '-' :: digits b)) (f.map (fun v => .seq KW.from_ (digits v))) (optNum KW.window w)
  | .epsubAll f w =>
    .epsub (.all KW.star)
      (some (match f with | .latest => .latest KW.from_ KW.latest | .seq n => .seq KW.from_ (digits n)))
      (optNum KW.window w)
  | .eack id n => .eack (fmtUuid id) (digits n)

/-- the argument vector (after the command name) the builder produces -/
def ClientCmd.emit (k : ClientCmd) : List Tok := k.toDoc.render

def optU64 (o : Option Nat) : Prop := ∀ n, o = some n → n ≤ U64_MAX
def optUuid (o : Option Nat) : Prop := ∀ n, o = some n → n ≤ UUID_MAX

/-- argument ranges (`u64`, `u16`, `Uuid`), stream ids the server accepts, `window_size ≥ 1` -/
def ClientCmd.WF : ClientCmd → Prop
  | .eappend s _ o => wfStream s ∧ o.WF
  | .emappend pk evs => pk ≤ UUID_MAX ∧ evs ≠ [] ∧ ∀ e ∈ evs, wfStream e.1 ∧ e.2.2.WF
  | .eget id => id ≤ UUID_MAX
  | .epscanByKey k a b c => k ≤ UUID_MAX ∧ a ≤ U64_MAX ∧ optU64 b ∧ optU64 c
  | .epscanById p a b c => p ≤ 65535 ∧ a ≤ U64_MAX ∧ optU64 b ∧ optU64 c
  | .escan s pk a b c => wfStream s ∧ optUuid pk ∧ a ≤ U64_MAX ∧ optU64 b ∧ optU64 c
  | .epseqByKey k => k ≤ UUID_MAX
  | .epseqById p => p ≤ 65535
  | .esver s pk => wfStream s ∧ optUuid pk
  | .esubOpts s pk f w => wfStream s ∧ optUuid pk ∧ optU64 f ∧ optU64 w ∧ ∀ n, w = some n → 1 ≤ n
  | .esubFromLatest s => wfStream s
  | .epsubById p f w => p ≤ 65535 ∧ optU64 f ∧ optU64 w ∧ ∀ n, w = some n → 1 ≤ n
  | .epsubByKey k f w => k ≤ UUID_MAX ∧ optU64 f ∧ optU64 w
  | .epsubRange a b f w => a ≤ 65535 ∧ b ≤ 65535 ∧ optU64 f ∧ optU64 w
  | .epsubAll f w => (∀ n, f = .seq n → n ≤ U64_MAX) ∧ optU64 w ∧ ∀ n, w = some n → 1 ≤ n
  | .eack id n => id ≤ UUID_MAX ∧ n ≤ U64_MAX

def stopVal : Option Nat → RangeV
  | some n => .value n
  | none => .stop

/-- the request the builder is meant to issue -/
def ClientCmd.denote : ClientCmd → Request
  | .eappend s n o => .eappend (o.event true s n)
  | .emappend pk evs => .emappend pk (evs.map (fun e => e.2.2.event false e.1 e.2.1))
  | .eget id => .eget id
  | .epscanByKey k a b c => .epscan (.byKey k) (.value a) (stopVal b) (some (c.getD 100))
  | .epscanById p a b c => .epscan (.byId p) (.value a) (stopVal b) (some (c.getD 100))
  | .escan s pk a b c => .escan s (.value a) (stopVal b) pk (some (c.getD 100))
  | .epseqByKey k => .epseq (.byKey k)
  | .epseqById p => .epseq (.byId p)
  | .esver s pk => .esver s pk
  | .esubOpts s pk f w => .esubStream s pk f w
  | .esubFromLatest s => .esubStream s none none none
  | .epsubById p f w => .epsubOne p f w
  /- F24 shapes: what the client means (a subscription to the partition of the key / to the partitions
  a..=b); no server request denotes them before the partition count is known -/
  | .epsubByKey _ f w => .epsubOne 0 f w
  | .epsubRange a b f w => .epsubMany ((List.range (b + 1 - a)).map (· + a)) (match f with | some n => .all n | none => .latest) w
  | .epsubAll f w => .epsubAll (match f with | .latest => .latest | .seq n => .all n) w
  | .eack id n => .eack id n

end SierraModel.Server
